module verifharness

go 1.23.4

require github.com/joeycumines/go-bigbuff v0.0.0

replace github.com/joeycumines/go-bigbuff => /repo
