module verifharness

go 1.23.4

require github.com/joeycumines/go-bigbuff v0.0.0

require golang.org/x/tools v0.29.0

replace github.com/joeycumines/go-bigbuff => /repo
