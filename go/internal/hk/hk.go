// Package hk connects the harness to the verifPoint hooks of go-bigbuff (build tag "verif").
package hk

import (
	"runtime"
	"sync"
	"sync/atomic"

	bigbuff "github.com/joeycumines/go-bigbuff"
)

type Event struct {
	Name string
	Obj  any
	N    int
	G    int64
}

// Gid returns the id of the calling goroutine (parsed from the stack header).
func Gid() int64 {
	var buf [40]byte
	n := runtime.Stack(buf[:], false)
	// "goroutine 123 ["
	var id int64
	for i := len("goroutine "); i < n; i++ {
		c := buf[i]
		if c < '0' || c > '9' {
			break
		}
		id = id*10 + int64(c-'0')
	}
	return id
}

type handler struct {
	id int64
	fn func(Event)
}

var (
	mu       sync.RWMutex
	handlers []handler
	nextID   int64
	seen     sync.Map // name -> *atomic.Int64
)

func dispatch(name string, obj any, n int) {
	if c, ok := seen.Load(name); ok {
		c.(*atomic.Int64).Add(1)
	} else {
		c, _ := seen.LoadOrStore(name, new(atomic.Int64))
		c.(*atomic.Int64).Add(1)
	}
	mu.RLock()
	hs := handlers
	mu.RUnlock()
	if len(hs) == 0 {
		return
	}
	ev := Event{Name: name, Obj: obj, N: n, G: Gid()}
	for _, h := range hs {
		h.fn(ev)
	}
}

func init() { bigbuff.VerifSetHook(dispatch) }

// On registers a handler; the returned function removes it.
func On(fn func(Event)) (remove func()) {
	mu.Lock()
	defer mu.Unlock()
	nextID++
	id := nextID
	hs := make([]handler, len(handlers), len(handlers)+1)
	copy(hs, handlers)
	handlers = append(hs, handler{id, fn})
	return func() {
		mu.Lock()
		defer mu.Unlock()
		hs := make([]handler, 0, len(handlers))
		for _, h := range handlers {
			if h.id != id {
				hs = append(hs, h)
			}
		}
		handlers = hs
	}
}

// Seen returns how many times each hook point fired so far (evidence: which windows were hit).
func Seen() map[string]int64 {
	m := map[string]int64{}
	seen.Range(func(k, v any) bool { m[k.(string)] = v.(*atomic.Int64).Load(); return true })
	return m
}

// Creator returns the id of the goroutine that created the calling goroutine (0 if unknown), parsed from
// the "created by ... in goroutine N" trailer of the stack trace.
func Creator() int64 {
	buf := make([]byte, 1<<14)
	n := runtime.Stack(buf, false)
	s := buf[:n]
	const key = " in goroutine "
	idx := -1
	for i := len(s) - len(key); i >= 0; i-- {
		if string(s[i:i+len(key)]) == key {
			idx = i + len(key)
			break
		}
	}
	if idx < 0 {
		return 0
	}
	var id int64
	for i := idx; i < len(s); i++ {
		c := s[i]
		if c < '0' || c > '9' {
			break
		}
		id = id*10 + int64(c-'0')
	}
	return id
}
