// Package gate turns verifPoint hook points into gates: a goroutine that reaches an armed point
// reports its arrival and is held there until released.  This is how model-chosen schedules (T4) are
// forced on the real code.
package gate

import (
	"sync"
	"time"

	"verifharness/internal/hk"
)

type Gate struct {
	name    string
	match   func(e hk.Event) bool
	arrived chan hk.Event
	release chan struct{}
	once    sync.Once
	remove  func()
	hits    int
	mu      sync.Mutex
	oneShot bool
}

// Arm installs a gate at hook point name for events accepted by match (nil = any).  The first goroutine
// to arrive is held (later arrivals pass) until Release.
func Arm(name string, match func(e hk.Event) bool) *Gate {
	g := &Gate{name: name, match: match, arrived: make(chan hk.Event, 1), release: make(chan struct{})}
	g.remove = hk.On(func(e hk.Event) {
		if e.Name != name || (g.match != nil && !g.match(e)) {
			return
		}
		g.mu.Lock()
		g.hits++
		first := g.hits == 1
		g.mu.Unlock()
		if !first {
			return
		}
		g.arrived <- e
		<-g.release
	})
	return g
}

// Wait blocks until a goroutine is held at the gate (true) or the timeout expires (false).
func (g *Gate) Wait(d time.Duration) bool {
	select {
	case e := <-g.arrived:
		g.arrived <- e // keep it for later Waits
		return true
	case <-time.After(d):
		return false
	}
}

// Release lets the held goroutine continue and disarms the gate.
func (g *Gate) Release() {
	g.once.Do(func() {
		close(g.release)
		g.remove()
	})
}
