// Package rng is the single source of randomness of the harness: splitmix64, seeded from
// VERIF_SEED and a stream name, so that every case replays exactly.
package rng

type R struct{ s uint64 }

func New(seed uint64, stream string) *R {
	h := uint64(1469598103934665603)
	for i := 0; i < len(stream); i++ {
		h ^= uint64(stream[i])
		h *= 1099511628211
	}
	r := &R{s: seed*0x9E3779B97F4A7C15 ^ h}
	r.U64()
	return r
}

func (r *R) U64() uint64 {
	r.s += 0x9E3779B97F4A7C15
	z := r.s
	z = (z ^ (z >> 30)) * 0xBF58476D1CE4E5B9
	z = (z ^ (z >> 27)) * 0x94D049BB133111EB
	return z ^ (z >> 31)
}

// Intn returns a value in [0,n).
func (r *R) Intn(n int) int {
	if n <= 0 {
		return 0
	}
	return int(r.U64() % uint64(n))
}

// Range returns a value in [lo,hi].
func (r *R) Range(lo, hi int) int { return lo + r.Intn(hi-lo+1) }

// Chance returns true with probability pct/100.
func (r *R) Chance(pct int) bool { return r.Intn(100) < pct }

// Pick chooses an index according to integer weights.
func (r *R) Pick(weights ...int) int {
	t := 0
	for _, w := range weights {
		t += w
	}
	x := r.Intn(t)
	for i, w := range weights {
		if x < w {
			return i
		}
		x -= w
	}
	return len(weights) - 1
}

// Fork derives an independent stream.
func (r *R) Fork() *R { return &R{s: r.U64()} }
