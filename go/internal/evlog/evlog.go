// Package evlog is the global event log of the concurrent (T3) runs: hook handlers and harness
// threads append one line per event while holding the log's mutex, so the log is one total order that
// is consistent with every critical section the events were emitted from and with program order.
package evlog

import (
	"fmt"
	"sync"
)

type Log struct {
	mu    sync.Mutex
	lines []string
}

func (l *Log) Add(format string, a ...any) {
	s := fmt.Sprintf(format, a...)
	l.mu.Lock()
	l.lines = append(l.lines, s)
	l.mu.Unlock()
}

func (l *Log) Lines() []string {
	l.mu.Lock()
	defer l.mu.Unlock()
	return append([]string(nil), l.lines...)
}
