// racer is the search component of C11: it runs pairs (and random mixes) of public API operations of
// every concurrency-safe type concurrently, under the Go race detector (this binary is built with
// -race).  A report whose stack contains a frame of the library is a concrete failing input.
// It is a search, not a proof: the C11 claim rests on the Lean check of the access table.
//
// usage: racer [-iters N] [-seed S] [-only type]     (race reports go to stderr / GORACE log_path)
package main

import (
	"context"
	"flag"
	"fmt"
	"os"
	"sync"
	"sync/atomic"
	"time"

	bigbuff "github.com/joeycumines/go-bigbuff"

	"verifharness/internal/rng"
)

type op struct {
	name string
	fn   func(r *rng.R)
}

type subject struct {
	name string
	mk   func() (ops []op, cleanup func())
}

func bg() context.Context { return context.Background() }

func short() (context.Context, context.CancelFunc) {
	return context.WithTimeout(context.Background(), 200*time.Microsecond)
}

var freshKey atomic.Int64

var subjects = []subject{
	{"Buffer", func() ([]op, func()) {
		b := new(bigbuff.Buffer)
		b.Size() // the first call completes before the buffer is shared (documented)
		c1, _ := b.NewConsumer()
		c2, _ := b.NewConsumer()
		return []op{
			{"Put", func(r *rng.R) { b.Put(bg(), r.Intn(9), r.Intn(9)) }},
			// the caller keeps using (overwrites) the slice it spread into Put: Put must have copied the values
			{"PutSpreadThenOverwrite", func(r *rng.R) {
				batch := []interface{}{r.Intn(9), r.Intn(9), r.Intn(9)}
				b.Put(bg(), batch...)
				for i := range batch {
					batch[i] = -1
				}
			}},
			{"Get1", func(r *rng.R) { ctx, c := short(); defer c(); c1.Get(ctx) }},
			{"Get2", func(r *rng.R) { ctx, c := short(); defer c(); c2.Get(ctx) }},
			{"Commit1", func(r *rng.R) { c1.Commit() }},
			{"Rollback1", func(r *rng.R) { c1.Rollback() }},
			{"Commit2", func(r *rng.R) { c2.Commit() }},
			{"Slice", func(r *rng.R) { b.Slice() }},
			{"Size", func(r *rng.R) { b.Size() }},
			{"Diff", func(r *rng.R) { b.Diff(c1) }},
			{"CleanerConfig", func(r *rng.R) { b.CleanerConfig() }},
			{"SetCleanerConfig", func(r *rng.R) {
				b.SetCleanerConfig(bigbuff.CleanerConfig{Cleaner: bigbuff.DefaultCleaner, Cooldown: time.Duration(r.Intn(3)) * 100 * time.Microsecond})
			}},
			{"NewConsumerClose", func(r *rng.R) {
				if c, err := b.NewConsumer(); err == nil {
					c.Close()
				}
			}},
			{"Range", func(r *rng.R) {
				ctx, c := short()
				defer c()
				b.Range(ctx, c2, func(int, interface{}) bool { return true })
			}},
			{"Done", func(r *rng.R) { b.Done() }},
		}, func() { c1.Rollback(); c2.Rollback(); b.Close() }
	}},
	// one consumer that keeps up: the buffer is EMPTY again and again (paths that only exist for an empty buffer)
	{"BufferSolo", func() ([]op, func()) {
		b := new(bigbuff.Buffer)
		b.SetCleanerConfig(bigbuff.CleanerConfig{Cleaner: bigbuff.DefaultCleaner, Cooldown: 0})
		c, _ := b.NewConsumer()
		return []op{
			{"PutSpreadThenOverwrite", func(r *rng.R) {
				batch := []interface{}{r.Intn(9), r.Intn(9), r.Intn(9)}
				b.Put(bg(), batch...)
				// the producer goes on using its slice while the consumer reads what was put, not straight into the next Put
				// (whose lock would order the accesses)
				if r.Intn(2) == 0 {
					time.Sleep(10 * time.Microsecond)
				}
				for i := range batch {
					batch[i] = -1
				}
				time.Sleep(10 * time.Microsecond)
			}},
			{"GetCommit", func(r *rng.R) {
				ctx, cc := short()
				defer cc()
				if _, err := c.Get(ctx); err == nil {
					c.Commit()
				}
			}},
			// a consumer that keeps up: reads and commits everything there is, so the buffer is empty again and again
			{"Drain", func(r *rng.R) {
				for k := 0; k < 16; k++ {
					ctx, cc := short()
					_, err := c.Get(ctx)
					cc()
					if err != nil {
						return
					}
					c.Commit()
				}
			}},
			{"Slice", func(r *rng.R) { b.Slice() }},
		}, func() { c.Rollback(); b.Close() }
	}},
	{"Channel", func() ([]op, func()) {
		src := make(chan int, 1024)
		ch, _ := bigbuff.NewChannel(bg(), time.Millisecond, src)
		return []op{
			{"send", func(r *rng.R) {
				select {
				case src <- r.Intn(9):
				default:
				}
			}},
			{"Get", func(r *rng.R) { ctx, c := short(); defer c(); ch.Get(ctx) }},
			{"Commit", func(r *rng.R) { ch.Commit() }},
			{"Rollback", func(r *rng.R) { ch.Rollback() }},
			{"Buffer", func(r *rng.R) { ch.Buffer() }},
			// composite: makes sure there IS something pending when Commit / Rollback run (the plain ops above mostly hit
			// the "nothing to commit" error path when paired with an op that does not Get)
			{"SendGetGetCommit", func(r *rng.R) {
				for k := 0; k < 2; k++ {
					select {
					case src <- r.Intn(9):
					default:
					}
					ctx, c := short()
					ch.Get(ctx)
					c()
				}
				ch.Commit()
			}},
			{"SendGetRollbackGet", func(r *rng.R) {
				select {
				case src <- r.Intn(9):
				default:
				}
				ctx, c := short()
				ch.Get(ctx)
				ch.Rollback()
				ch.Get(ctx)
				c()
			}},
			{"Done", func(r *rng.R) { ch.Done() }},
		}, func() { ch.Close() }
	}},
	{"Workers", func() ([]op, func()) {
		var w bigbuff.Workers
		return []op{
			{"Call1", func(r *rng.R) { w.Call(1, func() (interface{}, error) { return 1, nil }) }},
			{"Call3", func(r *rng.R) { w.Call(3, func() (interface{}, error) { return 1, nil }) }},
			{"Count", func(r *rng.R) { w.Count() }},
			{"Wait", func(r *rng.R) { w.Wait() }},
		}, func() { w.Wait() }
	}},
	{"Worker", func() ([]op, func()) {
		var w bigbuff.Worker
		return []op{
			{"DoDone", func(r *rng.R) { d := w.Do(func(stop <-chan struct{}) { <-stop }); d() }},
			{"DoSleepDone", func(r *rng.R) {
				d := w.Do(func(stop <-chan struct{}) { <-stop })
				time.Sleep(time.Duration(r.Intn(50)) * time.Microsecond)
				d()
			}},
		}, func() {}
	}},
	{"Exclusive", func() ([]op, func()) {
		var e bigbuff.Exclusive
		return []op{
			{"Call", func(r *rng.R) { e.Call(r.Intn(2), func() (interface{}, error) { return 1, nil }) }},
			{"CallAfter", func(r *rng.R) {
				e.CallAfter(r.Intn(2), func() (interface{}, error) { return 2, nil }, 50*time.Microsecond)
			}},
			{"Start", func(r *rng.R) { e.Start(r.Intn(2), func() (interface{}, error) { return 3, nil }) }},
			{"CallAsync", func(r *rng.R) { <-e.CallAsync(r.Intn(2), func() (interface{}, error) { return 4, nil }) }},
			// several callers pile onto a key nobody has used before (the creator of the map entry races the others for the item)
			{"FreshKeyBurst", func(r *rng.R) {
				key := freshKey.Add(1)
				var wg sync.WaitGroup
				for g := 0; g < 4; g++ {
					wg.Add(1)
					go func() {
						defer wg.Done()
						e.Call(key, func() (interface{}, error) { return 5, nil })
					}()
				}
				wg.Wait()
			}},
		}, func() { time.Sleep(2 * time.Millisecond) }
	}},
	{"Notifier", func() ([]op, func()) {
		var n bigbuff.Notifier
		t1 := make(chan interface{}, 64)
		ctx, cancel := context.WithCancel(bg())
		n.SubscribeContext(ctx, "k", t1)
		return []op{
			{"Publish", func(r *rng.R) {
				c, cc := short()
				defer cc()
				n.PublishContext(c, "k", r.Intn(9))
			}},
			{"drain", func(r *rng.R) {
				select {
				case <-t1:
				default:
				}
			}},
			{"SubUnsub", func(r *rng.R) {
				t := make(chan int, 1)
				n.Subscribe("k", t)
				n.Unsubscribe("k", t)
			}},
			{"SubscribeCancel", func(r *rng.R) {
				t := make(chan int, 1)
				c := n.SubscribeCancel(bg(), "k2", t)
				c()
			}},
		}, func() { cancel(); time.Sleep(time.Millisecond) }
	}},
	{"ChanPubSub", func() ([]op, func()) {
		x := bigbuff.NewChanPubSub(make(chan int))
		return []op{
			{"Send", func(r *rng.R) { x.Send(r.Intn(9)) }},
			{"SubRecvWaitUnsub", func(r *rng.R) {
				x.Add(1)
				select {
				case <-x.C():
					x.Wait()
				case <-time.After(100 * time.Microsecond):
				}
				x.Add(-1)
			}},
			{"Iter", func(r *rng.R) {
				ctx, c := context.WithTimeout(bg(), 300*time.Microsecond)
				defer c()
				for range x.SubscribeContext(ctx) {
				}
			}},
			{"Add0", func(r *rng.R) { x.Add(0) }},
		}, func() {}
	}},
	{"ChanCaster", func() ([]op, func()) {
		x := bigbuff.NewChanCaster(make(chan int))
		return []op{
			{"Send", func(r *rng.R) { x.Send(r.Intn(9)) }},
			{"AddRecv", func(r *rng.R) {
				x.Add(1)
				select {
				case <-x.C:
				case <-time.After(100 * time.Microsecond):
					x.Add(-1)
				}
			}},
			{"Add0", func(r *rng.R) { x.Add(0) }},
		}, func() {}
	}},
	{"Contexts", func() ([]op, func()) {
		return []op{
			{"Combine", func(r *rng.R) {
				a, ca := context.WithCancel(bg())
				b, cb := context.WithCancel(bg())
				c := bigbuff.CombineContext(a, b, nil)
				go cb()
				<-c.Done()
				ca()
			}},
			{"CombineCancelledWhileWiring", func(r *rng.R) {
				// the primary context is cancelled from inside the wiring of CombineContext (a caller-defined context whose
				// Done() is first consulted there), so whatever the combinator has published by then runs concurrently
				a, ca := context.WithCancel(bg())
				var others []context.Context
				trapAt := 1 + r.Intn(3)
				for i := 0; i < 5; i++ {
					o, co := context.WithCancel(bg())
					defer co()
					if i == trapAt {
						others = append(others, &trapCtx{Context: o, trap: ca})
					} else {
						others = append(others, o)
					}
				}
				c := bigbuff.CombineContext(a, others...)
				ca()
				<-c.Done()
			}},
			{"Conflated", func(r *rng.R) {
				a, ca := context.WithCancel(bg())
				b, cb := context.WithCancel(bg())
				c, cc := bigbuff.ConflatedContext(a, b)
				go ca()
				go cb()
				<-c.Done()
				cc()
			}},
			{"WaitCond", func(r *rng.R) {
				var mu sync.Mutex
				cond := sync.NewCond(&mu)
				ctx, c := short()
				defer c()
				flag := false
				go func() { mu.Lock(); flag = true; cond.Broadcast(); mu.Unlock() }()
				mu.Lock()
				bigbuff.WaitCond(ctx, cond, func() bool { return flag })
				mu.Unlock()
			}},
		}, func() {}
	}},
}

// trapCtx runs trap the first time its Done channel is asked for.
type trapCtx struct {
	context.Context
	once sync.Once
	trap func()
}

func (t *trapCtx) Done() <-chan struct{} {
	t.once.Do(t.trap)
	return t.Context.Done()
}

func main() {
	iters := flag.Int("iters", 200, "iterations per pair")
	seed := flag.Uint64("seed", 1, "seed")
	only := flag.String("only", "", "only this subject")
	flag.Parse()
	root := rng.New(*seed, "racer")
	pairs := 0
	for _, s := range subjects {
		if *only != "" && *only != s.name {
			continue
		}
		ops, cleanup := s.mk()
		stuck := false
		for i := range ops {
			for j := i; j < len(ops) && !stuck; j++ {
				pairs++
				fmt.Fprintf(os.Stderr, "PAIR %s %s %s\n", s.name, ops[i].name, ops[j].name)
				var wg sync.WaitGroup
				for _, o := range []op{ops[i], ops[j]} {
					o := o
					r := root.Fork()
					wg.Add(1)
					go func() {
						defer wg.Done()
						defer func() { recover() }()
						for k := 0; k < *iters; k++ {
							o.fn(r)
						}
					}()
				}
				done := make(chan struct{})
				go func() { wg.Wait(); close(done) }()
				select {
				case <-done:
				case <-time.After(20 * time.Second):
					// the subject is wedged (a deadlock is not a data race; C12 / C07 decide those): leave it and go on
					fmt.Fprintf(os.Stderr, "STUCK %s %s %s\n", s.name, ops[i].name, ops[j].name)
					stuck = true
				}
			}
		}
		if stuck {
			continue
		}
		cdone := make(chan struct{})
		go func() { cleanup(); close(cdone) }()
		select {
		case <-cdone:
		case <-time.After(20 * time.Second):
			fmt.Fprintf(os.Stderr, "STUCK %s cleanup\n", s.name)
		}
	}
	fmt.Printf("racer: %d pairs x %d iterations\n", pairs, *iters)
}
