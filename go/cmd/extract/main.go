// extract is the translator of the T1 tie: it type-checks the non-test files of /repo (default
// build tags, so verif_off.go is in and verif_on.go is out) and prints, mechanically,
//
//	BB/Gen/Consts.lean  constants the models take from the source
//	BB/Gen/Skel.lean    the synchronisation skeleton of every function and function literal as a
//	                    flat control-flow graph (events: lock/unlock/cond/atomic/channel/go/defer/
//	                    context/field read+write/calls; every deferred call expanded onto each exit)
//	BB/Gen/Access.lean  one record per field access of a library struct with the locks held there
//
// It contains no judgement: what the graphs must satisfy is stated and decided in Lean (BB/Conform).
package main

import (
	"fmt"
	"go/ast"
	"go/build"
	"go/constant"
	"go/importer"
	"go/parser"
	"go/token"
	"go/types"
	"os"
	"path/filepath"
	"sort"
	"strings"

	"golang.org/x/tools/go/cfg"
)

// event kinds (must match BB/Core/Skel.lean)
const (
	kEntry = iota
	kExit
	kNop
	kLock
	kUnlock
	kRLock
	kRUnlock
	kTryRLock
	kTryLock
	kCondWait
	kBroadcast
	kSignal
	kWgAdd
	kWgDone
	kWgWait
	kOnceDo
	kAtomicLoad
	kAtomicStore
	kAtomicAdd
	kAtomicCAS
	kSend
	kRecv
	kClose
	kSelect
	kGo
	kDeferReg
	kCtxErr
	kCtxDone
	kWithCancel
	kWithoutCancel
	kAfterFunc
	kCancelCall
	kCall
	kCallVar
	kLit
	kRead
	kWrite
	kPanic
	kReturn
	kTimerNew
	kTimerStop
	kSleep
	kSelectDefault
	kCond // a branch condition (sym = canonical text)
)

var kindNames = []string{"entry", "exit", "nop", "lock", "unlock", "rlock", "runlock", "tryrlock", "trylock", "condwait",
	"broadcast", "signal", "wgadd", "wgdone", "wgwait", "oncedo", "atomicload", "atomicstore", "atomicadd", "atomiccas",
	"send", "recv", "close", "select", "go", "deferreg", "ctxerr", "ctxdone", "withcancel", "withoutcancel", "afterfunc",
	"cancelcall", "call", "callvar", "lit", "read", "write", "panic", "return", "timernew", "timerstop", "sleep",
	"selectdefault", "cond"}

type event struct {
	kind     int
	sym      string
	deferred int // 0 = inline, 1 = runs at this exit because of a defer on every path, 2 = defer on some paths only
	pos      token.Pos
}

type node struct {
	id   int
	ev   event
	succ []int
}

type graph struct {
	name  string
	nodes []*node
}

type extractor struct {
	fset   *token.FileSet
	info   *types.Info
	pkg    *types.Package
	graphs []*graph
	syms   map[string]int
	symLst []string
	access []accessRec
	// per function literal: its graph name
	litName map[*ast.FuncLit]string
	declOf  map[*ast.FuncLit]string // enclosing top-level function
	litVar  map[litKey]string       // (enclosing function, variable) -> literal bound to it
	declFor map[string]string       // graph name -> enclosing top-level function
	export  map[string]bool         // graph name -> exported entry point
}

type litKey struct{ decl, name string }

type accessRec struct {
	field string
	write bool
	fn    string
	node  int
	atom  bool
}

func (x *extractor) sym(s string) int {
	if id, ok := x.syms[s]; ok {
		return id
	}
	id := len(x.symLst)
	x.syms[s] = id
	x.symLst = append(x.symLst, s)
	return id
}

func isNamed(t types.Type, pkg, name string) bool {
	if p, ok := t.(*types.Pointer); ok {
		t = p.Elem()
	}
	n, ok := t.(*types.Named)
	if !ok {
		return false
	}
	o := n.Obj()
	if o.Pkg() == nil {
		return false
	}
	// generic instantiations keep the origin's name
	return o.Pkg().Path() == pkg && o.Name() == name
}

func (x *extractor) typeOf(e ast.Expr) types.Type {
	if tv, ok := x.info.Types[e]; ok {
		return tv.Type
	}
	if id, ok := e.(*ast.Ident); ok {
		if o := x.info.ObjectOf(id); o != nil {
			return o.Type()
		}
	}
	return nil
}

// canonical text of an expression; receivers are replaced by their type name so that the same field
// reached through differently named variables gets the same symbol (b.mutex -> Buffer.mutex)
func (x *extractor) path(e ast.Expr) string {
	switch e := e.(type) {
	case *ast.ParenExpr:
		return x.path(e.X)
	case *ast.StarExpr:
		return x.path(e.X)
	case *ast.UnaryExpr:
		if e.Op == token.AND {
			return x.path(e.X)
		}
	case *ast.SelectorExpr:
		if sel, ok := x.info.Selections[e]; ok && sel.Kind() == types.FieldVal {
			recv := sel.Recv()
			if p, ok := recv.(*types.Pointer); ok {
				recv = p.Elem()
			}
			if n, ok := recv.(*types.Named); ok && n.Obj().Pkg() == x.pkg {
				return n.Obj().Name() + "." + e.Sel.Name
			}
			return x.path(e.X) + "." + e.Sel.Name
		}
		return x.path(e.X) + "." + e.Sel.Name
	case *ast.Ident:
		return e.Name
	case *ast.CallExpr:
		return x.path(e.Fun) + "()"
	case *ast.IndexExpr:
		return x.path(e.X) + "[]"
	}
	return types.ExprString(e)
}

// fieldOf: if e selects a field of a struct type declared in the package, "Type.field"
func (x *extractor) fieldOf(e ast.Expr) (string, bool) {
	se, ok := e.(*ast.SelectorExpr)
	if !ok {
		return "", false
	}
	sel, ok := x.info.Selections[se]
	if !ok || sel.Kind() != types.FieldVal {
		return "", false
	}
	recv := sel.Recv()
	if p, ok := recv.(*types.Pointer); ok {
		recv = p.Elem()
	}
	n, ok := recv.(*types.Named)
	if !ok || n.Obj().Pkg() != x.pkg {
		return "", false
	}
	return n.Obj().Name() + "." + se.Sel.Name, true
}

// methodName: "Type.method" for methods of types declared in the package, else the bare method name
func (x *extractor) methodName(se *ast.SelectorExpr) string {
	if sel, ok := x.info.Selections[se]; ok && sel.Kind() == types.MethodVal {
		recv := sel.Recv()
		if p, ok := recv.(*types.Pointer); ok {
			recv = p.Elem()
		}
		if n, ok := recv.(*types.Named); ok && n.Obj().Pkg() == x.pkg {
			if _, isIface := n.Underlying().(*types.Interface); !isIface {
				return n.Obj().Name() + "." + se.Sel.Name
			}
		}
	}
	return se.Sel.Name
}

type walker struct {
	x    *extractor
	fn   string
	evs  []event
	lits []*ast.FuncLit
}

func (w *walker) emit(kind int, sym string, pos token.Pos) {
	w.evs = append(w.evs, event{kind: kind, sym: sym, pos: pos})
}

func isAtomicType(t types.Type) bool {
	if t == nil {
		return false
	}
	if p, ok := t.(*types.Pointer); ok {
		t = p.Elem()
	}
	n, ok := t.(*types.Named)
	return ok && n.Obj().Pkg() != nil && n.Obj().Pkg().Path() == "sync/atomic"
}

// expr walks an expression in evaluation order and emits the events it performs.
// lhs marks the outermost expression as a store target.
func (w *walker) expr(e ast.Expr, lhs bool) {
	x := w.x
	switch e := e.(type) {
	case nil:
	case *ast.ParenExpr:
		w.expr(e.X, lhs)
	case *ast.FuncLit:
		w.emit(kLit, x.litName[e], e.Pos())
	case *ast.UnaryExpr:
		if e.Op == token.ARROW {
			if c, ok := e.X.(*ast.CallExpr); ok {
				if se, ok := c.Fun.(*ast.SelectorExpr); ok && se.Sel.Name == "Done" {
					w.chanRecv(e.X, e.Pos()) // <-ctx.Done(): one event
					return
				}
			}
			w.expr(e.X, false)
			w.chanRecv(e.X, e.Pos())
			return
		}
		w.expr(e.X, false)
	case *ast.BinaryExpr:
		w.expr(e.X, false)
		w.expr(e.Y, false)
	case *ast.StarExpr:
		w.expr(e.X, false)
		if t := x.typeOf(e); t != nil {
			if n, ok := t.(*types.Named); ok && n.Obj().Pkg() == x.pkg {
				if _, isStruct := n.Underlying().(*types.Struct); isStruct {
					if lhs {
						w.emit(kWrite, n.Obj().Name()+".ALL", e.Pos())
					} else {
						w.emit(kRead, n.Obj().Name()+".ALL", e.Pos())
					}
				}
			}
		}
	case *ast.IndexExpr:
		w.expr(e.X, lhs)
		w.expr(e.Index, false)
	case *ast.SliceExpr:
		w.expr(e.X, false)
		w.expr(e.Low, false)
		w.expr(e.High, false)
		w.expr(e.Max, false)
	case *ast.TypeAssertExpr:
		w.expr(e.X, false)
	case *ast.KeyValueExpr:
		w.expr(e.Value, false)
	case *ast.CompositeLit:
		for _, el := range e.Elts {
			w.expr(el, false)
		}
	case *ast.SelectorExpr:
		if f, ok := x.fieldOf(e); ok {
			w.expr(e.X, false)
			t := x.typeOf(e)
			if _, isPtr := t.(*types.Pointer); !isPtr && (isAtomicType(t) || isSyncType(t)) {
				return // sync/atomic objects held by value: their method calls are events of their own
			}
			if lhs {
				w.emit(kWrite, f, e.Pos())
			} else {
				w.emit(kRead, f, e.Pos())
			}
			return
		}
		w.expr(e.X, false)
	case *ast.CallExpr:
		w.call(e)
	case *ast.Ident, *ast.BasicLit:
	default:
	}
}

func isSyncType(t types.Type) bool {
	if t == nil {
		return false
	}
	if p, ok := t.(*types.Pointer); ok {
		t = p.Elem()
	}
	n, ok := t.(*types.Named)
	return ok && n.Obj().Pkg() != nil && n.Obj().Pkg().Path() == "sync"
}

func (w *walker) chanRecv(ch ast.Expr, pos token.Pos) {
	x := w.x
	// <-ctx.Done() / <-timer.C
	if c, ok := ch.(*ast.CallExpr); ok {
		if se, ok := c.Fun.(*ast.SelectorExpr); ok && se.Sel.Name == "Done" {
			if t := x.typeOf(se.X); t != nil && types.Implements(t, ctxIface(x)) {
				w.emit(kCtxDone, x.path(se.X), pos)
				return
			}
		}
	}
	w.emit(kRecv, x.path(ch), pos)
}

var ctxI *types.Interface

func ctxIface(x *extractor) *types.Interface {
	if ctxI != nil {
		return ctxI
	}
	for _, imp := range x.pkg.Imports() {
		if imp.Path() == "context" {
			ctxI = imp.Scope().Lookup("Context").Type().Underlying().(*types.Interface)
		}
	}
	return ctxI
}

func (w *walker) call(c *ast.CallExpr) {
	x := w.x
	// builtins
	if id, ok := c.Fun.(*ast.Ident); ok {
		if _, isB := x.info.Uses[id].(*types.Builtin); isB {
			switch id.Name {
			case "close":
				w.expr(c.Args[0], false)
				w.emit(kClose, x.path(c.Args[0]), c.Pos())
				return
			case "panic":
				for _, a := range c.Args {
					w.expr(a, false)
				}
				w.emit(kPanic, "", c.Pos())
				return
			case "delete":
				w.expr(c.Args[0], true)
				w.expr(c.Args[1], false)
				return
			case "append", "copy":
				// append(b.buffer, ...) reads; the assignment around it is the write
				for _, a := range c.Args {
					w.expr(a, false)
				}
				return
			default:
				for _, a := range c.Args {
					w.expr(a, false)
				}
				return
			}
		}
		if id.Name == "verifPoint" {
			return
		}
	}
	// method calls on sync / atomic / context objects
	if se, ok := c.Fun.(*ast.SelectorExpr); ok {
		recvT := x.typeOf(se.X)
		name := se.Sel.Name
		p := x.path(se.X)
		pkgOf := func() string {
			if id, ok := se.X.(*ast.Ident); ok {
				if pn, ok := x.info.Uses[id].(*types.PkgName); ok {
					return pn.Imported().Path()
				}
			}
			return ""
		}()
		switch {
		case pkgOf == "context":
			for _, a := range c.Args {
				w.expr(a, false)
			}
			switch name {
			case "WithCancel":
				w.emit(kWithCancel, x.path(c.Args[0]), c.Pos())
			case "WithoutCancel":
				w.emit(kWithoutCancel, "", c.Pos())
			case "AfterFunc":
				w.emit(kAfterFunc, x.path(c.Args[0]), c.Pos())
			default:
				w.emit(kCall, "context."+name, c.Pos())
			}
			return
		case pkgOf == "time":
			for _, a := range c.Args {
				w.expr(a, false)
			}
			switch name {
			case "NewTimer", "NewTicker", "After":
				w.emit(kTimerNew, name, c.Pos())
			case "Sleep":
				w.emit(kSleep, "", c.Pos())
			default:
				w.emit(kCall, "time."+name, c.Pos())
			}
			return
		case pkgOf != "":
			for _, a := range c.Args {
				w.expr(a, false)
			}
			w.emit(kCall, pkgOf+"."+name, c.Pos())
			return
		case isNamed(recvT, "sync", "Mutex") || isNamed(recvT, "sync", "RWMutex") || isNamed(recvT, "sync", "Locker"):
			w.expr(se.X, false)
			k := map[string]int{"Lock": kLock, "Unlock": kUnlock, "RLock": kRLock, "RUnlock": kRUnlock, "TryRLock": kTryRLock, "TryLock": kTryLock}[name]
			if k != 0 {
				w.emit(k, p, c.Pos())
				return
			}
		case isNamed(recvT, "sync", "Cond"):
			w.expr(se.X, false)
			k := map[string]int{"Wait": kCondWait, "Broadcast": kBroadcast, "Signal": kSignal}[name]
			if k != 0 {
				w.emit(k, p, c.Pos())
				return
			}
		case isNamed(recvT, "sync", "WaitGroup"):
			w.expr(se.X, false)
			k := map[string]int{"Add": kWgAdd, "Done": kWgDone, "Wait": kWgWait}[name]
			if k != 0 {
				w.emit(k, p, c.Pos())
				return
			}
		case isNamed(recvT, "sync", "Once"):
			w.expr(se.X, false)
			w.emit(kOnceDo, p, c.Pos())
			for _, a := range c.Args {
				w.expr(a, false)
			}
			return
		case isAtomicType(recvT):
			for _, a := range c.Args {
				w.expr(a, false)
			}
			k := map[string]int{"Load": kAtomicLoad, "Store": kAtomicStore, "Add": kAtomicAdd, "CompareAndSwap": kAtomicCAS}[name]
			if k != 0 {
				w.emit(k, p, c.Pos())
				return
			}
		case recvT != nil && ctxIface(x) != nil && types.Implements(recvT, ctxIface(x)) && (name == "Err" || name == "Done"):
			if name == "Err" {
				w.emit(kCtxErr, p, c.Pos())
			} else {
				w.emit(kCtxDone, p, c.Pos())
			}
			return
		case isNamed(recvT, "time", "Timer") || isNamed(recvT, "time", "Ticker"):
			if name == "Stop" {
				w.emit(kTimerStop, p, c.Pos())
				return
			}
		}
		// other method / field-function calls
		w.expr(se.X, false)
		for _, a := range c.Args {
			w.expr(a, false)
		}
		if sel, ok := x.info.Selections[se]; ok && sel.Kind() == types.FieldVal {
			// calling a function-typed field, e.g. b.cancel(), item.work(resolve), b.cleaner.Cleaner(...)
			if f, ok := x.fieldOf(se); ok {
				w.emit(kRead, f, se.Pos())
			}
			if isNamed(sel.Type(), "context", "CancelFunc") {
				w.emit(kCancelCall, p+"."+name, c.Pos())
			} else {
				w.emit(kCallVar, p+"."+name, c.Pos())
			}
			return
		}
		w.emit(kCall, x.methodName(se), c.Pos())
		return
	}
	// plain function calls
	for _, a := range c.Args {
		w.expr(a, false)
	}
	switch f := c.Fun.(type) {
	case *ast.Ident:
		obj := x.info.Uses[f]
		if _, isFunc := obj.(*types.Func); isFunc {
			w.emit(kCall, f.Name, c.Pos())
			return
		}
		if obj != nil && isNamed(obj.Type(), "context", "CancelFunc") {
			w.emit(kCancelCall, f.Name, c.Pos())
			return
		}
		if _, isType := obj.(*types.TypeName); isType {
			return // conversion
		}
		w.emit(kCallVar, f.Name, c.Pos())
	case *ast.FuncLit:
		w.emit(kCallVar, x.litName[f], c.Pos())
	default:
		w.expr(c.Fun, false)
		w.emit(kCallVar, x.path(c.Fun), c.Pos())
	}
}

func (w *walker) stmt(n ast.Node) {
	x := w.x
	switch s := n.(type) {
	case *ast.ExprStmt:
		w.expr(s.X, false)
	case *ast.AssignStmt:
		for i, r := range s.Rhs {
			if lit, ok := r.(*ast.FuncLit); ok && i < len(s.Lhs) {
				if id, ok := s.Lhs[i].(*ast.Ident); ok {
					x.litVar[litKey{x.declOf[lit], id.Name}] = x.litName[lit]
				}
			}
			w.expr(r, false)
		}
		for _, l := range s.Lhs {
			w.expr(l, true)
		}
	case *ast.IncDecStmt:
		w.expr(s.X, false)
		w.expr(s.X, true)
	case *ast.SendStmt:
		w.expr(s.Chan, false)
		w.expr(s.Value, false)
		w.emit(kSend, x.path(s.Chan), s.Pos())
	case *ast.GoStmt:
		for _, a := range s.Call.Args {
			w.expr(a, false)
		}
		target := ""
		switch f := s.Call.Fun.(type) {
		case *ast.FuncLit:
			target = x.litName[f]
		case *ast.SelectorExpr:
			w.expr(f.X, false)
			target = x.methodName(f)
		case *ast.Ident:
			target = f.Name
		}
		w.emit(kGo, target, s.Pos())
	case *ast.DeferStmt:
		// registration; the deferred call itself is expanded at the exits
		w.emit(kDeferReg, "", s.Pos())
	case *ast.ReturnStmt:
		for _, r := range s.Results {
			w.expr(r, false)
		}
		w.emit(kReturn, "", s.Pos())
	case *ast.DeclStmt:
		if gd, ok := s.Decl.(*ast.GenDecl); ok {
			for _, sp := range gd.Specs {
				if vs, ok := sp.(*ast.ValueSpec); ok {
					for i, v := range vs.Values {
						if lit, ok := v.(*ast.FuncLit); ok && i < len(vs.Names) {
							x.litVar[litKey{x.declOf[lit], vs.Names[i].Name}] = x.litName[lit]
						}
						w.expr(v, false)
					}
				}
			}
		}
	case *ast.ValueSpec:
		for i, v := range s.Values {
			if lit, ok := v.(*ast.FuncLit); ok && i < len(s.Names) {
				x.litVar[litKey{x.declOf[lit], s.Names[i].Name}] = x.litName[lit]
			}
			w.expr(v, false)
		}
	case *ast.RangeStmt:
		w.expr(s.X, false)
	case ast.Expr:
		// a branch condition
		before := len(w.evs)
		w.expr(s, false)
		_ = before
		w.emit(kCond, types.ExprString(s), s.Pos())
	case *ast.SelectStmt, *ast.CommClause, *ast.CaseClause, *ast.SwitchStmt, *ast.TypeSwitchStmt, *ast.LabeledStmt, *ast.BranchStmt, *ast.EmptyStmt:
	default:
	}
}

// deferred events of a defer statement (evaluated as if called at the exit)
func (w *walker) deferredEvents(d *ast.DeferStmt) []event {
	sub := &walker{x: w.x, fn: w.fn}
	if lit, ok := d.Call.Fun.(*ast.FuncLit); ok {
		sub.emit(kCallVar, w.x.litName[lit], d.Pos())
	} else {
		sub.call(d.Call)
	}
	return sub.evs
}

func (x *extractor) build(name string, body *ast.BlockStmt) {
	g := &graph{name: name}
	c := cfg.New(body, func(call *ast.CallExpr) bool {
		if id, ok := call.Fun.(*ast.Ident); ok && id.Name == "panic" {
			return false
		}
		return true
	})
	newNode := func(ev event) *node {
		n := &node{id: len(g.nodes), ev: ev}
		g.nodes = append(g.nodes, n)
		return n
	}
	entry := newNode(event{kind: kEntry})
	// defers: which are registered on every path / some path at each block's end
	type dset map[*ast.DeferStmt]bool
	blockDefers := map[*cfg.Block][]*ast.DeferStmt{}
	for _, b := range c.Blocks {
		for _, n := range b.Nodes {
			if d, ok := n.(*ast.DeferStmt); ok {
				blockDefers[b] = append(blockDefers[b], d)
			}
		}
	}
	preds := map[*cfg.Block][]*cfg.Block{}
	for _, b := range c.Blocks {
		for _, s := range b.Succs {
			preds[s] = append(preds[s], b)
		}
	}
	must := map[*cfg.Block]dset{}
	may := map[*cfg.Block]dset{}
	all := dset{}
	for _, ds := range blockDefers {
		for _, d := range ds {
			all[d] = true
		}
	}
	for _, b := range c.Blocks {
		must[b] = dset{}
		for d := range all {
			must[b][d] = true
		}
		may[b] = dset{}
	}
	for changed := true; changed; {
		changed = false
		for i, b := range c.Blocks {
			in := dset{}
			inMay := dset{}
			if i == 0 {
				// entry: nothing registered
			} else if len(preds[b]) > 0 {
				first := true
				for _, p := range preds[b] {
					if !p.Live {
						continue
					}
					if first {
						for d := range must[p] {
							in[d] = true
						}
						first = false
					} else {
						for d := range in {
							if !must[p][d] {
								delete(in, d)
							}
						}
					}
					for d := range may[p] {
						inMay[d] = true
					}
				}
			}
			for _, d := range blockDefers[b] {
				in[d] = true
				inMay[d] = true
			}
			if len(in) != len(must[b]) || len(inMay) != len(may[b]) {
				changed = true
			}
			must[b], may[b] = in, inMay
		}
	}
	first := map[*cfg.Block]*node{}
	last := map[*cfg.Block]*node{}
	for _, b := range c.Blocks {
		if !b.Live {
			continue
		}
		w := &walker{x: x, fn: name}
		for _, n := range b.Nodes {
			w.stmt(n)
		}
		evs := w.evs
		isExit := len(b.Succs) == 0
		endsInPanic := len(evs) > 0 && evs[len(evs)-1].kind == kPanic
		if isExit {
			// run the defers registered so far, last registered first
			var ds []*ast.DeferStmt
			for d := range may[b] {
				ds = append(ds, d)
			}
			sort.Slice(ds, func(i, j int) bool { return ds[i].Pos() > ds[j].Pos() })
			for _, d := range ds {
				flag := 2
				if must[b][d] {
					flag = 1
				}
				for _, e := range w.deferredEvents(d) {
					e.deferred = flag
					evs = append(evs, e)
				}
			}
			_ = endsInPanic
			evs = append(evs, event{kind: kExit})
		}
		if len(evs) == 0 {
			evs = append(evs, event{kind: kNop})
		}
		var prev *node
		for _, e := range evs {
			n := newNode(e)
			if prev == nil {
				first[b] = n
			} else {
				prev.succ = append(prev.succ, n.id)
			}
			prev = n
		}
		last[b] = prev
	}
	for _, b := range c.Blocks {
		if !b.Live {
			continue
		}
		for _, s := range b.Succs {
			if s.Live && first[s] != nil {
				last[b].succ = append(last[b].succ, first[s].id)
			}
		}
	}
	if len(c.Blocks) > 0 && first[c.Blocks[0]] != nil {
		entry.succ = []int{first[c.Blocks[0]].id}
	}
	x.graphs = append(x.graphs, g)
}

func lname(s string) string {
	for _, r := range [][2]string{{"!=", " ne "}, {"==", " eq "}, {">=", " ge "}, {"<=", " le "}, {"&&", " and "}, {"||", " or "},
		{"!", "not "}, {">", " gt "}, {"<", " lt "}, {"()", " call"}, {"[]", " idx"}} {
		s = strings.ReplaceAll(s, r[0], r[1])
	}
	s = strings.Join(strings.Fields(s), "_")
	var b strings.Builder
	for _, r := range s {
		switch {
		case r >= 'a' && r <= 'z', r >= 'A' && r <= 'Z', r >= '0' && r <= '9':
			b.WriteRune(r)
		default:
			b.WriteRune('_')
		}
	}
	return b.String()
}

func main() {
	repo := "/repo"
	out := "/verif/lean/BB/Gen"
	if len(os.Args) > 1 {
		repo = os.Args[1]
	}
	if len(os.Args) > 2 {
		out = os.Args[2]
	}
	bp, err := build.Default.ImportDir(repo, 0)
	if err != nil {
		fmt.Fprintln(os.Stderr, "extract:", err)
		os.Exit(1)
	}
	fset := token.NewFileSet()
	var files []*ast.File
	for _, fn := range bp.GoFiles {
		f, err := parser.ParseFile(fset, filepath.Join(repo, fn), nil, parser.ParseComments)
		if err != nil {
			fmt.Fprintln(os.Stderr, "extract:", err)
			os.Exit(1)
		}
		files = append(files, f)
	}
	info := &types.Info{Types: map[ast.Expr]types.TypeAndValue{}, Defs: map[*ast.Ident]types.Object{}, Uses: map[*ast.Ident]types.Object{},
		Selections: map[*ast.SelectorExpr]*types.Selection{}, Instances: map[*ast.Ident]types.Instance{}}
	conf := types.Config{Importer: importer.ForCompiler(fset, "source", nil), Error: func(err error) { fmt.Fprintln(os.Stderr, "typecheck:", err) }}
	pkg, err := conf.Check(bp.ImportPath, fset, files, info)
	if err != nil {
		fmt.Fprintln(os.Stderr, "extract: type errors")
		os.Exit(1)
	}
	x := &extractor{fset: fset, info: info, pkg: pkg, syms: map[string]int{}, litName: map[*ast.FuncLit]string{},
		declOf: map[*ast.FuncLit]string{}, litVar: map[litKey]string{}, declFor: map[string]string{}, export: map[string]bool{}}
	// name every function and literal first
	type fnBody struct {
		name string
		body *ast.BlockStmt
	}
	var bodies []fnBody
	for _, f := range files {
		for _, d := range f.Decls {
			fd, ok := d.(*ast.FuncDecl)
			if !ok || fd.Body == nil {
				continue
			}
			name := fd.Name.Name
			if fd.Recv != nil && len(fd.Recv.List) > 0 {
				t := fd.Recv.List[0].Type
				if s, ok := t.(*ast.StarExpr); ok {
					t = s.X
				}
				if ie, ok := t.(*ast.IndexListExpr); ok {
					t = ie.X
				}
				if ie, ok := t.(*ast.IndexExpr); ok {
					t = ie.X
				}
				if id, ok := t.(*ast.Ident); ok {
					name = id.Name + "." + name
				}
			}
			bodies = append(bodies, fnBody{name, fd.Body})
			x.declFor[name] = name
			x.export[name] = fd.Name.IsExported()
			k := 0
			ast.Inspect(fd.Body, func(n ast.Node) bool {
				if lit, ok := n.(*ast.FuncLit); ok {
					ln := fmt.Sprintf("%s$%d", name, k)
					k++
					x.litName[lit] = ln
					x.declOf[lit] = name
					x.declFor[ln] = name
					bodies = append(bodies, fnBody{ln, lit.Body})
				}
				return true
			})
		}
	}
	sort.SliceStable(bodies, func(i, j int) bool { return bodies[i].name < bodies[j].name })
	for _, b := range bodies {
		x.build(b.name, b.body)
	}
	// ---- Consts
	var cb strings.Builder
	cb.WriteString("/- GENERATED by /verif/go/cmd/extract from /repo — do not edit. -/\nnamespace BB.Gen.Consts\n")
	names := pkg.Scope().Names()
	for _, n := range names {
		if c, ok := pkg.Scope().Lookup(n).(*types.Const); ok {
			if c.Val().Kind() == constant.Int {
				fmt.Fprintf(&cb, "def %s : Int := %s\n", lname(n), c.Val().ExactString())
			}
		}
	}
	// channel capacities: make(chan T, n) inside functions
	for _, f := range files {
		for _, d := range f.Decls {
			fd, ok := d.(*ast.FuncDecl)
			if !ok || fd.Body == nil {
				continue
			}
			k := 0
			ast.Inspect(fd.Body, func(n ast.Node) bool {
				c, ok := n.(*ast.CallExpr)
				if !ok {
					return true
				}
				id, ok := c.Fun.(*ast.Ident)
				if !ok || id.Name != "make" || len(c.Args) == 0 {
					return true
				}
				if t := x.typeOf(c.Args[0]); t != nil {
					if _, isChan := t.Underlying().(*types.Chan); isChan {
						capv := "0"
						if len(c.Args) > 1 {
							if tv, ok := info.Types[c.Args[1]]; ok && tv.Value != nil {
								capv = tv.Value.ExactString()
							} else {
								capv = "0 -- non-constant capacity"
							}
						}
						fmt.Fprintf(&cb, "def chancap_%s_%d : Int := %s\n", lname(fd.Name.Name), k, capv)
						k++
					}
				}
				return true
			})
		}
	}
	// function-local integer constants, constants of other packages that the package refers to, and the literal
	// shift amounts of every function (the packed-word arithmetic of ChanCaster is modelled with these)
	ext := map[string]string{}
	for _, f := range files {
		for _, d := range f.Decls {
			fd, ok := d.(*ast.FuncDecl)
			if !ok || fd.Body == nil {
				continue
			}
			fname := fd.Name.Name
			if fd.Recv != nil && len(fd.Recv.List) > 0 {
				t := fd.Recv.List[0].Type
				if s, ok := t.(*ast.StarExpr); ok {
					t = s.X
				}
				if ie, ok := t.(*ast.IndexListExpr); ok {
					t = ie.X
				}
				if ie, ok := t.(*ast.IndexExpr); ok {
					t = ie.X
				}
				if id, ok := t.(*ast.Ident); ok {
					fname = id.Name + "_" + fname
				}
			}
			var shifts []string
			ast.Inspect(fd.Body, func(n ast.Node) bool {
				switch v := n.(type) {
				case *ast.GenDecl:
					if v.Tok == token.CONST {
						for _, sp := range v.Specs {
							if vs, ok := sp.(*ast.ValueSpec); ok {
								for _, id := range vs.Names {
									if c, ok := info.Defs[id].(*types.Const); ok && c.Val().Kind() == constant.Int {
										fmt.Fprintf(&cb, "def localconst_%s_%s : Int := %s\n", lname(fname), lname(id.Name), c.Val().ExactString())
									}
								}
							}
						}
					}
				case *ast.SelectorExpr:
					if id, ok := v.X.(*ast.Ident); ok {
						if _, isPkg := info.Uses[id].(*types.PkgName); isPkg {
							if tv, ok := info.Types[v]; ok && tv.Value != nil && tv.Value.Kind() == constant.Int {
								ext[id.Name+"_"+v.Sel.Name] = tv.Value.ExactString()
							}
						}
					}
				case *ast.BinaryExpr:
					if v.Op == token.SHL || v.Op == token.SHR {
						if tv, ok := info.Types[v.Y]; ok && tv.Value != nil {
							shifts = append(shifts, tv.Value.ExactString())
						} else {
							shifts = append(shifts, "-1")
						}
					}
				}
				return true
			})
			if len(shifts) > 0 {
				fmt.Fprintf(&cb, "def shifts_%s : List Int := [%s]\n", lname(fname), strings.Join(shifts, ", "))
			}
		}
	}
	var extNames []string
	for k := range ext {
		extNames = append(extNames, k)
	}
	sort.Strings(extNames)
	for _, k := range extNames {
		fmt.Fprintf(&cb, "def extconst_%s : Int := %s\n", lname(k), ext[k])
	}
	cb.WriteString("end BB.Gen.Consts\n")
	// ---- Skel
	var sb strings.Builder
	sb.WriteString("/- GENERATED by /verif/go/cmd/extract from /repo — do not edit.\n   One flat control-flow graph per function / function literal: ⟨id, kind, sym, deferred, succ⟩. -/\nimport BB.Core.Skel\nnamespace BB.Gen.Skel\nopen BB.Skel\n")
	// intern all symbols first (sorted, so ids are stable under reordering of functions)
	symset := map[string]bool{}
	for _, g := range x.graphs {
		symset[g.name] = true
		for _, n := range g.nodes {
			symset[n.ev.sym] = true
		}
	}
	var symsSorted []string
	for s := range symset {
		symsSorted = append(symsSorted, s)
	}
	sort.Strings(symsSorted)
	for _, s := range symsSorted {
		x.sym(s)
	}
	var gnames []string
	for _, g := range x.graphs {
		fmt.Fprintf(&sb, "\n/-- %s -/\ndef g_%s : Graph := [\n", g.name, lname(g.name))
		for i, n := range g.nodes {
			sep := ","
			if i == len(g.nodes)-1 {
				sep = ""
			}
			succ := make([]string, len(n.succ))
			for j, s := range n.succ {
				succ[j] = fmt.Sprint(s)
			}
			cm := kindNames[n.ev.kind]
			if n.ev.sym != "" {
				cm += " " + strings.ReplaceAll(n.ev.sym, "-/", "- /")
			}
			if n.ev.deferred != 0 {
				cm += fmt.Sprintf(" (deferred:%d)", n.ev.deferred)
			}
			fmt.Fprintf(&sb, "  ⟨%d, %d, %d, %d, [%s]⟩%s  -- %s\n", n.id, n.ev.kind, x.syms[n.ev.sym], n.ev.deferred, strings.Join(succ, ", "), sep, cm)
		}
		sb.WriteString("]\n")
		gnames = append(gnames, g.name)
	}
	sb.WriteString("\n/- symbols -/\nnamespace S\n")
	seen := map[string]bool{}
	for _, s := range symsSorted {
		ln := lname(s)
		if s == "" {
			ln = "none_"
		} else if !isPlainIdent(s) {
			ln = "c_" + ln // condition texts and other non-identifier symbols
		} else if leanKeywords[ln] {
			ln += "_kw"
		}
		for seen[ln] {
			ln += "'"
		}
		seen[ln] = true
		fmt.Fprintf(&sb, "def %s : Nat := %d  -- %q\n", ln, x.syms[s], s)
	}
	sb.WriteString("end S\n\ndef symNames : List (Nat × String) := [\n")
	for i, s := range x.symLst {
		sep := ","
		if i == len(x.symLst)-1 {
			sep = ""
		}
		fmt.Fprintf(&sb, "  (%d, %q)%s\n", i, s, sep)
	}
	sb.WriteString("]\n\n/-- every graph, with the symbol id of its function (for facts quantified over the whole package) -/\ndef allGraphs : List (Nat × Graph) := [\n")
	for i, gn := range gnames {
		sep := ","
		if i == len(gnames)-1 {
			sep = ""
		}
		fmt.Fprintf(&sb, "  (%d, g_%s)%s\n", x.syms[gn], lname(gn), sep)
	}
	sb.WriteString("]\nend BB.Gen.Skel\n")
	os.MkdirAll(out, 0o755)
	writeIfChanged(filepath.Join(out, "Access.lean"), x.accessTable())
	writeIfChanged(filepath.Join(out, "Captured.lean"), x.capturedTable(files))
	writeIfChanged(filepath.Join(out, "Consts.lean"), cb.String())
	writeIfChanged(filepath.Join(out, "Skel.lean"), sb.String())
	// ---- Hooks: every verifPoint("name", ...) call with the top-level function it sits in (the event log of the T3 families is
	// only a linearisation while these calls are where the harness expects them)
	var hooks []string
	for _, f := range files {
		for _, d := range f.Decls {
			fd, ok := d.(*ast.FuncDecl)
			if !ok || fd.Body == nil {
				continue
			}
			owner := fd.Name.Name
			if fd.Recv != nil && len(fd.Recv.List) == 1 {
				t := fd.Recv.List[0].Type
				if st, ok := t.(*ast.StarExpr); ok {
					t = st.X
				}
				if ix, ok := t.(*ast.IndexListExpr); ok {
					t = ix.X
				}
				if ix, ok := t.(*ast.IndexExpr); ok {
					t = ix.X
				}
				if id, ok := t.(*ast.Ident); ok {
					owner = id.Name + "." + owner
				}
			}
			ast.Inspect(fd.Body, func(n ast.Node) bool {
				ce, ok := n.(*ast.CallExpr)
				if !ok || len(ce.Args) == 0 {
					return true
				}
				if id, ok := ce.Fun.(*ast.Ident); ok && id.Name == "verifPoint" {
					if lit, ok := ce.Args[0].(*ast.BasicLit); ok {
						hooks = append(hooks, fmt.Sprintf("(%s, %q)", lit.Value, owner))
					}
				}
				return true
			})
		}
	}
	sort.Strings(hooks)
	var hb strings.Builder
	hb.WriteString("/- GENERATED by /verif/go/cmd/extract from /repo — do not edit.\n   Every verifPoint hook call: (hook name, enclosing top-level function), sorted. -/\nnamespace BB.Gen.Hooks\n\ndef hooks : List (String × String) := [\n")
	for i, h := range hooks {
		sep := ","
		if i == len(hooks)-1 {
			sep = ""
		}
		hb.WriteString("  " + h + sep + "\n")
	}
	hb.WriteString("]\nend BB.Gen.Hooks\n")
	writeIfChanged(filepath.Join(out, "Hooks.lean"), hb.String())
	fmt.Printf("extract: %d graphs, %d symbols\n", len(x.graphs), len(symsSorted))
}

var leanKeywords = map[string]bool{"Type": true, "Prop": true, "Sort": true, "do": true, "in": true, "at": true, "if": true,
	"then": true, "else": true, "let": true, "have": true, "fun": true, "from": true, "with": true, "match": true, "end": true,
	"open": true, "import": true, "def": true, "theorem": true, "where": true, "for": true, "by": true, "show": true, "this": true,
	"using": true, "unless": true, "return": true, "try": true, "catch": true, "finally": true, "mut": true, "deriving": true,
	"instance": true, "structure": true, "class": true, "inductive": true, "namespace": true, "section": true, "variable": true,
	"universe": true, "local": true, "private": true, "protected": true, "partial": true, "unsafe": true, "macro": true,
	"syntax": true, "notation": true, "attribute": true, "export": true, "extends": true, "calc": true, "nomatch": true,
	"nofun": true, "sorry": true, "admit": true, "axiom": true, "example": true, "abbrev": true, "opaque": true, "mutual": true,
	"termination_by": true, "decreasing_by": true, "fun_prop": true, "exists": true, "forall": true, "suffices": true, "then_": true}

func isPlainIdent(s string) bool {
	if s == "" {
		return false
	}
	for i, r := range s {
		ok := r == '.' || r == '_' || r == '$' || (r >= 'a' && r <= 'z') || (r >= 'A' && r <= 'Z') || (i > 0 && r >= '0' && r <= '9')
		if !ok {
			return false
		}
	}
	return s[0] != '_' && s[0] != '.'
}

func writeIfChanged(path, content string) {
	if old, err := os.ReadFile(path); err == nil && string(old) == content {
		return
	}
	os.WriteFile(path, []byte(content), 0o644)
}


// ------------------------------------------------------------------------------------------------
// lockset analysis (must-hold) and the field access table

type lockset map[string]int // lock symbol -> 1 write / 2 read

func (a lockset) clone() lockset {
	b := lockset{}
	for k, v := range a {
		b[k] = v
	}
	return b
}

func meet(a, b lockset) lockset {
	if a == nil {
		return b.clone()
	}
	r := lockset{}
	for k, v := range a {
		if w, ok := b[k]; ok {
			if w > v {
				v = w // read is weaker than write
			}
			r[k] = v
		}
	}
	return r
}

func sameLS(a, b lockset) bool {
	if (a == nil) != (b == nil) || len(a) != len(b) {
		return false
	}
	for k, v := range a {
		if b[k] != v {
			return false
		}
	}
	return true
}

// locksets at the entry of every node of g, given the lockset at the graph's entry
func (g *graph) flow(entry lockset) []lockset {
	in := make([]lockset, len(g.nodes))
	in[0] = entry.clone()
	work := []int{0}
	for len(work) > 0 {
		i := work[0]
		work = work[1:]
		n := g.nodes[i]
		out := in[i].clone()
		switch n.ev.kind {
		case kLock:
			out[n.ev.sym] = 1
		case kRLock:
			if out[n.ev.sym] == 0 {
				out[n.ev.sym] = 2
			}
		case kUnlock, kRUnlock:
			delete(out, n.ev.sym)
		case kCondWait:
			// the locker is released and re-acquired: held again afterwards
		}
		for _, s := range n.succ {
			m := meet(in[s], out)
			if !sameLS(m, in[s]) {
				in[s] = m
				work = append(work, s)
			}
		}
	}
	return in
}

var syncCallees = map[string]bool{"WaitCond": true}

func (x *extractor) accessTable() string {
	byName := map[string]*graph{}
	for _, g := range x.graphs {
		byName[g.name] = g
	}
	// candidates for a bare callee name
	resolve := func(from *graph, name string) *graph {
		var found *graph
		for _, g := range x.graphs {
			if strings.Contains(g.name, "$") {
				continue
			}
			if g.name == name || strings.HasSuffix(g.name, "."+name) {
				if found != nil {
					return nil // ambiguous
				}
				found = g
			}
		}
		return found
	}
	entry := map[string]lockset{}
	for _, g := range x.graphs {
		entry[g.name] = nil // unknown (top)
	}
	for _, g := range x.graphs {
		if x.export[g.name] || g.name == "init" {
			entry[g.name] = lockset{}
		}
	}
	contribute := func(name string, ls lockset) bool {
		m := meet(entry[name], ls)
		if !sameLS(m, entry[name]) {
			entry[name] = m
			return true
		}
		return false
	}
	referenced := map[string]bool{}
	fix := func() {
	for iter := 0; iter < 40; iter++ {
		changed := false
		for _, g := range x.graphs {
			e := entry[g.name]
			analysed := e != nil
			if !analysed {
				e = lockset{}
			}
			in := g.flow(e)
			contributeIf := func(name string, ls lockset) bool {
				referenced[name] = true
				if !analysed {
					return false
				}
				return contribute(name, ls)
			}
			for i, n := range g.nodes {
				ls := in[i]
				if ls == nil {
					continue
				}
				switch n.ev.kind {
				case kCall:
					if callee := resolve(g, n.ev.sym); callee != nil && !x.export[callee.name] {
						changed = contributeIf(callee.name, ls) || changed
					}
					if syncCallees[n.ev.sym] {
						for j := i - 1; j >= 0 && j >= i-6; j-- {
							if g.nodes[j].ev.kind == kLit {
								changed = contributeIf(g.nodes[j].ev.sym, ls) || changed
							}
						}
					}
				case kOnceDo:
					if i+1 < len(g.nodes) && g.nodes[i+1].ev.kind == kLit {
						changed = contributeIf(g.nodes[i+1].ev.sym, ls) || changed
					}
				case kCallVar:
					target := n.ev.sym
					if lit, ok := x.litVar[litKey{x.declFor[g.name], target}]; ok {
						target = lit
					}
					if _, ok := byName[target]; ok {
						changed = contributeIf(target, ls) || changed
					}
				case kGo:
					target := n.ev.sym
					if callee := resolve(g, target); callee != nil {
						target = callee.name
					}
					if _, ok := byName[target]; ok {
						hand := lockset{}
						for l, mode := range ls {
							acquiredHere := false
							for _, m := range g.nodes {
								if (m.ev.kind == kLock || m.ev.kind == kRLock) && m.ev.sym == l {
									acquiredHere = true
								}
							}
							if !acquiredHere {
								continue // held by a caller: the caller releases it, nothing is handed to the goroutine
							}
							released := false
							seen := map[int]bool{}
							var dfs func(k int)
							dfs = func(k int) {
								if seen[k] || released {
									return
								}
								seen[k] = true
								m := g.nodes[k]
								if (m.ev.kind == kUnlock || m.ev.kind == kRUnlock) && m.ev.sym == l {
									released = true
									return
								}
								for _, s := range m.succ {
									dfs(s)
								}
							}
							for _, s := range n.succ {
								dfs(s)
							}
							if !released {
								hand[l] = mode
							}
						}
						changed = contributeIf(target, hand) || changed
					}
				}
			}
		}
		if !changed {
			break
		}
	}
	}
	for round := 0; round < 20; round++ {
		fix()
		// graphs nobody refers to in a way that determines their lockset start with nothing held
		progress := false
		for _, g := range x.graphs {
			if entry[g.name] == nil && !referenced[g.name] {
				entry[g.name] = lockset{}
				progress = true
			}
		}
		if !progress {
			break
		}
	}
	if os.Getenv("EXTRACT_DEBUG") != "" {
		for _, g := range x.graphs {
			fmt.Fprintf(os.Stderr, "entry %s = %v\n", g.name, entry[g.name])
		}
	}
	var sb strings.Builder
	sb.WriteString("/- GENERATED by /verif/go/cmd/extract from /repo — do not edit.\n   One record per field access of a struct declared in the package: field, write?, function, locks held (lock, 1 = write / 2 = read). -/\nimport BB.Core.Lockset\nnamespace BB.Gen.Access\nopen BB.Lockset\n\ndef table : List Access := [\n")
	first := true
	var recs [][2]string
	for _, g := range x.graphs {
		e := entry[g.name]
		unreached := e == nil
		if unreached {
			e = lockset{} // never called from inside the package with a known lockset: assume nothing held
		}
		in := g.flow(e)
		for i, n := range g.nodes {
			if n.ev.kind != kRead && n.ev.kind != kWrite {
				continue
			}
			ls := in[i]
			var locks []string
			var keys []string
			for k := range ls {
				keys = append(keys, k)
			}
			sort.Strings(keys)
			for _, k := range keys {
				locks = append(locks, fmt.Sprintf("(%d, %d)", x.syms[k], ls[k]))
			}
			w := "false"
			if n.ev.kind == kWrite {
				w = "true"
			}
			first = false
			var lnames []string
			for _, k := range keys {
				lnames = append(lnames, fmt.Sprintf("%s:%d", k, ls[k]))
			}
			recs = append(recs, [2]string{fmt.Sprintf("  ⟨%d, %s, %d, [%s]⟩", x.syms[n.ev.sym], w, x.sym(g.name), strings.Join(locks, ", ")),
				fmt.Sprintf("  -- %s %s in %s holding {%s}", kindNames[n.ev.kind], n.ev.sym, g.name, strings.Join(lnames, " "))})
		}
	}
	_ = first
	for i, r := range recs {
		sep := ","
		if i == len(recs)-1 {
			sep = ""
		}
		sb.WriteString(r[0] + sep + r[1] + "\n")
	}
	sb.WriteString("]\n\n")
	// ---- lock-order edges: (held, acquired, function) whenever a blocking Lock/RLock of `acquired` happens — directly or
	// inside a statically resolved callee / synchronously executed closure — at a node where `held` is (must-)held
	direct := map[string]map[string]bool{}
	callees := map[string]map[string]bool{}
	for _, g := range x.graphs {
		direct[g.name] = map[string]bool{}
		callees[g.name] = map[string]bool{}
		for i, n := range g.nodes {
			switch n.ev.kind {
			case kLock, kRLock:
				direct[g.name][n.ev.sym] = true
			case kCall:
				if callee := resolve(g, n.ev.sym); callee != nil {
					callees[g.name][callee.name] = true
				}
				if syncCallees[n.ev.sym] {
					for j := i - 1; j >= 0 && j >= i-6; j-- {
						if g.nodes[j].ev.kind == kLit {
							callees[g.name][g.nodes[j].ev.sym] = true
						}
					}
				}
			case kOnceDo:
				if i+1 < len(g.nodes) && g.nodes[i+1].ev.kind == kLit {
					callees[g.name][g.nodes[i+1].ev.sym] = true
				}
			case kCallVar:
				target := n.ev.sym
				if lit, ok := x.litVar[litKey{x.declFor[g.name], target}]; ok {
					target = lit
				}
				if _, ok := byName[target]; ok {
					callees[g.name][target] = true
				}
			}
		}
	}
	acq := map[string]map[string]bool{}
	for name, d := range direct {
		acq[name] = map[string]bool{}
		for l := range d {
			acq[name][l] = true
		}
	}
	for changed := true; changed; {
		changed = false
		for name, cs := range callees {
			for c := range cs {
				for l := range acq[c] {
					if !acq[name][l] {
						acq[name][l] = true
						changed = true
					}
				}
			}
		}
	}
	type edge struct{ h, l, f string }
	edgeSet := map[edge]bool{}
	reentrant := map[edge]bool{}
	for _, g := range x.graphs {
		e := entry[g.name]
		if e == nil {
			e = lockset{}
		}
		in := g.flow(e)
		for i, n := range g.nodes {
			ls := in[i]
			if len(ls) == 0 {
				continue
			}
			var got []string
			switch n.ev.kind {
			case kLock, kRLock:
				got = []string{n.ev.sym}
			case kCall:
				if callee := resolve(g, n.ev.sym); callee != nil {
					for l := range acq[callee.name] {
						got = append(got, l)
					}
				}
			case kCallVar:
				target := n.ev.sym
				if lit, ok := x.litVar[litKey{x.declFor[g.name], target}]; ok {
					target = lit
				}
				for l := range acq[target] {
					got = append(got, l)
				}
			case kOnceDo:
				if i+1 < len(g.nodes) && g.nodes[i+1].ev.kind == kLit {
					for l := range acq[g.nodes[i+1].ev.sym] {
						got = append(got, l)
					}
				}
			}
			for _, l := range got {
				for h := range ls {
					if h != l {
						edgeSet[edge{h, l, g.name}] = true
					} else {
						// a blocking acquisition of a lock that is already (must-)held at this node — directly or inside a
						// callee: self-deadlock for a Mutex; for an RWMutex read lock a deadlock as soon as a writer queues
						// between the two acquisitions
						reentrant[edge{h, l, g.name}] = true
					}
				}
			}
		}
	}
	var edges []edge
	for e := range edgeSet {
		edges = append(edges, e)
	}
	sort.Slice(edges, func(i, j int) bool {
		if edges[i].h != edges[j].h {
			return edges[i].h < edges[j].h
		}
		if edges[i].l != edges[j].l {
			return edges[i].l < edges[j].l
		}
		return edges[i].f < edges[j].f
	})
	sb.WriteString("/-- lock-order edges (held, acquired, function): a blocking acquisition of `acquired` while `held` is held -/\ndef lockEdges : List (Nat × Nat × Nat) := [\n")
	for i, e := range edges {
		sep := ","
		if i == len(edges)-1 {
			sep = ""
		}
		fmt.Fprintf(&sb, "  (%d, %d, %d)%s  -- %s -> %s in %s\n", x.sym(e.h), x.sym(e.l), x.sym(e.f), sep, e.h, e.l, e.f)
	}
	var re []edge
	for e := range reentrant {
		re = append(re, e)
	}
	sort.Slice(re, func(i, j int) bool {
		if re[i].l != re[j].l {
			return re[i].l < re[j].l
		}
		return re[i].f < re[j].f
	})
	sb.WriteString("]\n\n/-- re-entrant acquisitions (lock, function): a blocking Lock/RLock of a lock that is already held at that point -/\ndef reentrant : List (Nat × Nat) := [\n")
	for i, e := range re {
		sep := ","
		if i == len(re)-1 {
			sep = ""
		}
		fmt.Fprintf(&sb, "  (%d, %d)%s  -- %s again in %s\n", x.sym(e.l), x.sym(e.f), sep, e.l, e.f)
	}
	sb.WriteString("]\n\n/- function symbols -/\nnamespace F\n")
	seen := map[string]bool{}
	for _, g := range x.graphs {
		ln := lname(g.name)
		for seen[ln] {
			ln += "'"
		}
		seen[ln] = true
		fmt.Fprintf(&sb, "def %s : Nat := %d  -- %q\n", ln, x.sym(g.name), g.name)
	}
	sb.WriteString("end F\nend BB.Gen.Access\n")
	return sb.String()
}

func (e event) callDeferredAsync() bool { return false }


// ------------------------------------------------------------------------------------------------
// captured variables: a function literal handed to `go`, context.AfterFunc or time.AfterFunc runs on another
// goroutine; every variable of the enclosing function that it refers to and that the enclosing function assigns
// textually after the launch (or anywhere inside a loop that contains the launch) is listed.
func (x *extractor) capturedTable(files []*ast.File) string {
	type rec struct{ fn, v, lit string }
	var recs []rec
	for _, f := range files {
		for _, d := range f.Decls {
			fd, ok := d.(*ast.FuncDecl)
			if !ok || fd.Body == nil {
				continue
			}
			fname := fd.Name.Name
			if fd.Recv != nil && len(fd.Recv.List) > 0 {
				t := fd.Recv.List[0].Type
				if s, ok := t.(*ast.StarExpr); ok {
					t = s.X
				}
				if ie, ok := t.(*ast.IndexListExpr); ok {
					t = ie.X
				}
				if ie, ok := t.(*ast.IndexExpr); ok {
					t = ie.X
				}
				if id, ok := t.(*ast.Ident); ok {
					fname = id.Name + "." + fname
				}
			}
			// launches: (literal, position, enclosing loops)
			type launch struct {
				lit   *ast.FuncLit
				pos   token.Pos
				loops []ast.Node
			}
			var launches []launch
			var loops []ast.Node
			var walk func(n ast.Node)
			asyncLit := func(c *ast.CallExpr) *ast.FuncLit {
				se, ok := c.Fun.(*ast.SelectorExpr)
				if !ok || se.Sel.Name != "AfterFunc" {
					return nil
				}
				for _, a := range c.Args {
					if l, ok := a.(*ast.FuncLit); ok {
						return l
					}
				}
				return nil
			}
			walk = func(n ast.Node) {
				ast.Inspect(n, func(m ast.Node) bool {
					switch v := m.(type) {
					case *ast.ForStmt, *ast.RangeStmt:
						if m != n {
							loops = append(loops, m)
							walk(m)
							loops = loops[:len(loops)-1]
							return false
						}
					case *ast.GoStmt:
						if l, ok := v.Call.Fun.(*ast.FuncLit); ok {
							launches = append(launches, launch{l, v.Pos(), append([]ast.Node(nil), loops...)})
						}
					case *ast.CallExpr:
						if l := asyncLit(v); l != nil {
							launches = append(launches, launch{l, v.Pos(), append([]ast.Node(nil), loops...)})
						}
					}
					return true
				})
			}
			walk(fd.Body)
			for _, la := range launches {
				captured := map[types.Object]bool{}
				ast.Inspect(la.lit, func(m ast.Node) bool {
					if id, ok := m.(*ast.Ident); ok {
						if o, ok := x.info.Uses[id].(*types.Var); ok && !o.IsField() && o.Pkg() == x.pkg &&
							o.Pos() >= fd.Pos() && o.Pos() < fd.End() && !(o.Pos() >= la.lit.Pos() && o.Pos() < la.lit.End()) {
							captured[o] = true
						}
					}
					return true
				})
				written := map[types.Object]bool{}
				note := func(e ast.Expr, at token.Pos) {
					id, ok := e.(*ast.Ident)
					if !ok {
						return
					}
					o := x.info.Uses[id]
					if o == nil {
						o = x.info.Defs[id]
					}
					if o == nil || !captured[o] {
						return
					}
					if at >= la.lit.Pos() && at < la.lit.End() {
						return // the literal's own writes
					}
					after := at > la.lit.End()
					for _, lp := range la.loops {
						if at >= lp.Pos() && at < lp.End() {
							after = true
						}
					}
					if after {
						written[o] = true
					}
				}
				ast.Inspect(fd.Body, func(m ast.Node) bool {
					switch v := m.(type) {
					case *ast.AssignStmt:
						if v.Tok != token.DEFINE {
							for _, l := range v.Lhs {
								note(l, v.Pos())
							}
						}
					case *ast.IncDecStmt:
						note(v.X, v.Pos())
					}
					return true
				})
				for o := range written {
					recs = append(recs, rec{fname, fname + "." + o.Name(), x.litName[la.lit]})
				}
			}
		}
	}
	sort.Slice(recs, func(i, j int) bool {
		if recs[i].fn != recs[j].fn {
			return recs[i].fn < recs[j].fn
		}
		if recs[i].v != recs[j].v {
			return recs[i].v < recs[j].v
		}
		return recs[i].lit < recs[j].lit
	})
	var sb strings.Builder
	sb.WriteString("/- GENERATED by /verif/go/cmd/extract from /repo — do not edit.\n   (function, variable, literal): the function assigns the variable after (or in a loop around) the point where it\n   hands the literal, which refers to the variable, to `go` / AfterFunc. -/\nnamespace BB.Gen.Captured\n\ndef writesAfterLaunch : List (String × String × String) := [\n")
	for i, r := range recs {
		sep := ","
		if i == len(recs)-1 {
			sep = ""
		}
		fmt.Fprintf(&sb, "  (%q, %q, %q)%s\n", r.fn, r.v, r.lit, sep)
	}
	sb.WriteString("]\n\nend BB.Gen.Captured\n")
	return sb.String()
}
