package main

import (
	"context"
	"errors"
	"fmt"
	"strconv"
	"strings"
	"time"

	bigbuff "github.com/joeycumines/go-bigbuff"

	"verifharness/internal/rng"
)

// Sequential driver of ExponentialRetry (C18).  The delay calculation and the wait are replaced
// through the verif seams (nothing sleeps); the real calcExponentialRetry and waitDuration are
// exercised separately ("calcobs" lines and the wait-cut check).

type retryItem struct {
	kind   byte // 'o','e','f'
	id     int
	depth  int
	result interface{}
	cancel bool
	wraps  bool // the payload error itself wraps another error (fmt.Errorf("...%w", inner)): its identity must survive
}

func parseRetryItem(w string) (retryItem, bool) {
	it := retryItem{}
	if strings.HasSuffix(w, "!") {
		it.cancel = true
		w = strings.TrimSuffix(w, "!")
	}
	if len(w) < 2 {
		return it, false
	}
	it.kind = w[0]
	switch w[0] {
	case 'o':
		it.result = atoi(w[1:])
	case 'e':
		// e<id> or e<id>:<partial result> — a plain failure may come with a (to be discarded) partial result
		p := strings.Split(w[1:], ":")
		it.id = atoi(p[0])
		if len(p) == 2 {
			it.result = atoi(p[1])
		}
	case 'F':
		it.wraps = true
		it.kind = 'f'
		fallthrough
	case 'f':
		p := strings.Split(w[1:], ":")
		if len(p) != 3 {
			return it, false
		}
		it.depth, it.id = atoi(p[0]), atoi(p[1])
		if p[2] != "n" {
			it.result = atoi(p[2])
		}
	default:
		return it, false
	}
	return it, true
}

func execRetry(t *trace, script []string) {
	for _, line := range script {
		f := strings.Fields(line)
		if len(f) == 0 {
			continue
		}
		switch f[0] {
		case "retry":
			t.Line(line, retryOne(f))
		case "calcobs":
			t.Line(line, "ok")
		case "calc": // produce a calcobs line from the real function
			rate, c := atoi(f[1]), atoi(f[2])
			d := bigbuff.VerifCalcExponentialRetry(time.Duration(rate), uint32(c))
			t.Line(fmt.Sprintf("calcobs %d %d %d", rate, c, int64(d)), "ok")
		case "unpack", "unpackw":
			d, id := atoi(f[1]), atoi(f[2])
			base := fmt.Errorf("e%d", id)
			if f[0] == "unpackw" {
				base = fmt.Errorf("e%d: %w", id, fmt.Errorf("inner cause"))
			}
			var err error = base
			for i := 0; i < d; i++ {
				err = bigbuff.FatalError(err)
			}
			u := bigbuff.VerifUnpackFatalError(err)
			r := "fatalwrapped"
			if u == base {
				r = "e" + strconv.Itoa(id)
			}
			t.Line(line, fmt.Sprintf("%s fatal=%v", r, bigbuff.VerifIsFatalError(err)))
		default:
			t.Line(line, "skipped")
		}
	}
}

func retryOne(f []string) string {
	if len(f) < 3 {
		return "skipped"
	}
	rate := time.Duration(atoi(f[1]))
	cancelMode := f[2]
	var items, items2 []retryItem
	second := false
	for _, w := range f[3:] {
		if w == "|" {
			second = true
			continue
		}
		it, ok := parseRetryItem(w)
		if !ok {
			return "skipped"
		}
		if second {
			items2 = append(items2, it)
		} else {
			items = append(items, it)
		}
	}
	// in half of the cases the context also has a (distant) deadline: what cuts a wait short is the cancellation, not the deadline
	parent := context.Background()
	if len(items)%2 == 1 {
		var pc context.CancelFunc
		parent, pc = context.WithDeadline(parent, time.Now().Add(72*time.Hour))
		defer pc()
	}
	ctx, cancel := context.WithCancel(parent)
	defer cancel()
	if cancelMode == "pre" {
		cancel()
	}
	waitCancel := -1
	if strings.HasPrefix(cancelMode, "w") {
		waitCancel = atoi(cancelMode[1:])
	}
	var cs []int
	var rates []time.Duration
	waits := 0
	waitCut := true
	origWait := bigbuff.VerifSwapWaitDuration(nil)
	bigbuff.VerifSwapWaitDuration(func(wctx context.Context, d time.Duration) {
		if waits == waitCancel {
			// the real wait (an hour) must be cut short by the cancellation, whether it lands before the wait begins or a
			// moment after it began
			done := make(chan struct{})
			late := (waitCancel+len(items))%2 == 1
			if !late {
				cancel()
			}
			go func() { origWait(wctx, time.Hour); close(done) }()
			if late {
				time.Sleep(time.Millisecond)
				cancel()
			}
			select {
			case <-done:
			case <-time.After(5 * time.Second):
				waitCut = false // (the waiting goroutine is left behind)
			}
		}
		waits++
	})
	origCalc := bigbuff.VerifSwapCalcExponentialRetry(func(d time.Duration, c uint32) time.Duration {
		cs = append(cs, int(c))
		rates = append(rates, d)
		return 0
	})
	defer func() {
		bigbuff.VerifSwapWaitDuration(origWait)
		bigbuff.VerifSwapCalcExponentialRetry(origCalc)
	}()
	bases := map[int]error{}
	calls := 0
	exhausted := false
	fn := bigbuff.ExponentialRetry(ctx, rate, func() (interface{}, error) {
		if calls >= len(items) {
			exhausted = true
			cancel() // script exhausted: stop the loop
			return nil, errors.New("exhausted")
		}
		it := items[calls]
		calls++
		if it.cancel {
			cancel()
		}
		switch it.kind {
		case 'o':
			return it.result, nil
		case 'e':
			b := fmt.Errorf("e%d", it.id)
			if it.id%2 == 1 {
				// a plain failure whose CAUSE is a fatal error (FatalError further down the Unwrap chain): what counts is the
				// outermost error, so this is retried like any other plain failure
				b = fmt.Errorf("e%d: %w", it.id, bigbuff.FatalError(fmt.Errorf("deep cause of e%d", it.id)))
			}
			bases[it.id] = b
			return it.result, b
		default:
			b := fmt.Errorf("e%d", it.id)
			if it.wraps {
				b = fmt.Errorf("e%d: %w", it.id, fmt.Errorf("inner cause of e%d", it.id))
			}
			bases[it.id] = b
			var err error = b
			for i := 0; i < it.depth; i++ {
				err = bigbuff.FatalError(err)
			}
			return it.result, err
		}
	})
	res, err := fn()
	if exhausted {
		return "exhausted"
	}
	rs := "nil"
	if res != nil {
		rs = strconv.Itoa(res.(int))
	}
	es := "nil"
	switch {
	case err == nil:
	case errors.Is(err, context.Canceled):
		es = "ctx"
	case bigbuff.VerifIsFatalError(err):
		es = "fatalwrapped"
	default:
		es = "other"
		for id, b := range bases {
			if err == b {
				es = "e" + strconv.Itoa(id)
			}
		}
	}
	r := int64(0)
	for i, x := range rates {
		if i == 0 {
			r = int64(x)
		} else if int64(x) != r {
			r = -1
		}
	}
	out := fmt.Sprintf("res=%s err=%s calls=%d cs=%s rate=%d", rs, es, calls, fmtInts(cs), r)
	if !waitCut {
		out += " waitnotcut"
	}
	if second {
		// invoke the SAME returned function again with a fresh script (the context state carries over)
		items, calls, cs, rates, exhausted = items2, 0, nil, nil, false
		waitCancel = -1
		res2, err2 := fn()
		if exhausted {
			return out + " | exhausted"
		}
		rs2 := "nil"
		if res2 != nil {
			rs2 = strconv.Itoa(res2.(int))
		}
		es2 := "nil"
		switch {
		case err2 == nil:
		case errors.Is(err2, context.Canceled):
			es2 = "ctx"
		case bigbuff.VerifIsFatalError(err2):
			es2 = "fatalwrapped"
		default:
			es2 = "other"
			for id, b := range bases {
				if err2 == b {
					es2 = "e" + strconv.Itoa(id)
				}
			}
		}
		out += fmt.Sprintf(" | res=%s err=%s calls=%d cs=%s", rs2, es2, calls, fmtInts(cs))
	}
	return out
}

func genRetry(r *rng.R, tier string, i int) []string {
	var s []string
	for j := 0; j < 20; j++ {
		n := r.Intn(8)
		if r.Chance(10) {
			n = 30 + r.Intn(10) // reach the saturation of the counter
		}
		rate := []int{0, -5, 1, 1000, 300000000, 7}[r.Intn(6)]
		line := fmt.Sprintf("retry %d", rate)
		cm := "none"
		switch r.Intn(6) {
		case 0:
			cm = "pre"
		case 1:
			cm = fmt.Sprintf("w%d", r.Intn(n+1))
		}
		line += " " + cm
		for k := 0; k < n; k++ {
			it := fmt.Sprintf("e%d", r.Intn(5))
			if r.Chance(35) {
				it += fmt.Sprintf(":%d", 1+r.Intn(99)) // a partial result next to the (plain) error
			}
			if r.Chance(8) {
				it += "!"
			}
			line += " " + it
		}
		switch r.Intn(5) {
		case 0, 1:
			line += fmt.Sprintf(" o%d", r.Intn(100))
		case 2:
			line += fmt.Sprintf(" %s%d:%d:%d", []string{"f", "F"}[r.Intn(2)], 1+r.Intn(4), r.Intn(5), r.Intn(100))
		case 3:
			line += fmt.Sprintf(" %s%d:%d:n", []string{"f", "F"}[r.Intn(2)], 1+r.Intn(4), r.Intn(5))
		case 4:
			line += fmt.Sprintf(" o%d!", r.Intn(100))
		}
		if r.Chance(30) {
			line += fmt.Sprintf(" o%d", r.Intn(100)) // never reached
		}
		if r.Chance(40) {
			// second invocation of the same returned function
			line += " |"
			m := r.Intn(4)
			for k := 0; k < m; k++ {
				line += fmt.Sprintf(" e%d", r.Intn(5))
			}
			line += fmt.Sprintf(" o%d", r.Intn(100))
		}
		s = append(s, line)
	}
	for j := 0; j < 10; j++ {
		s = append(s, fmt.Sprintf("calc %d %d", []int{1, 3, 1000, 300000000}[r.Intn(4)], r.Intn(41)))
		s = append(s, fmt.Sprintf("unpack %d %d", r.Intn(6), r.Intn(9)), fmt.Sprintf("unpackw %d %d", r.Intn(6), r.Intn(9)))
	}
	return s
}

func sweepRetry(t *trace, tier string, r *rng.R) {
	t.Case("sweep-calc")
	reps := 20
	if tier == "thorough" {
		reps = 2000
	}
	for c := 0; c <= 40; c++ {
		for _, rate := range []int{1, 3, 1000} {
			for k := 0; k < reps; k++ {
				d := bigbuff.VerifCalcExponentialRetry(time.Duration(rate), uint32(c))
				t.Line(fmt.Sprintf("calcobs %d %d %d", rate, c, int64(d)), "ok")
			}
		}
	}
	t.End()
}

func init() {
	register(&family{name: "retry", gen: genRetry, exec: execRetry, extra: sweepRetry})
}
