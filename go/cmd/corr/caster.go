package main

import (
	"fmt"
	"math"
	"sort"
	"strconv"
	"strings"
	"sync"
	"time"

	bigbuff "github.com/joeycumines/go-bigbuff"

	"verifharness/internal/evlog"
	"verifharness/internal/hk"
	"verifharness/internal/rng"
)

// ---------------------------------------------------------------------------------------------------------
// casterword (T2, sequential): ChanCaster.Add / Send on one goroutine, every kind of delta, panics recovered;
// the state word is read back after every call.  script lines:  add <delta> | send <v>
// results:  ok <ret> w=<word> | panic w=<word> | skipped

func casterWordCall(fn func() int, x *bigbuff.ChanCaster[chan int, int]) string {
	ret, panicked := 0, false
	func() {
		defer func() {
			if recover() != nil {
				panicked = true
			}
		}()
		ret = fn()
	}()
	w := bigbuff.VerifChanCasterState(x)
	if panicked {
		return fmt.Sprintf("panic w=%d", w)
	}
	return fmt.Sprintf("ok %d w=%d", ret, w)
}

func execCasterWord(t *trace, script []string) {
	c := make(chan int, 16)
	x := bigbuff.NewChanCaster(c)
	for _, line := range script {
		f := strings.Fields(line)
		switch {
		case len(f) == 2 && f[0] == "add":
			d, err := strconv.ParseInt(f[1], 10, 64)
			if err != nil {
				continue
			}
			w := bigbuff.VerifChanCasterState(x)
			if d < 0 && d >= -math.MaxInt32 && uint32(w) != uint32(w>>32) {
				// lo != hi: a negative Add might take the "sending" branch and block on a receive; only the model knows
				lo, hi := uint64(uint32(w)), uint64(uint32(w>>32))
				if (lo-uint64(-d))&0xffffffff == (hi-uint64(-d)+math.MaxInt32)&0xffffffff {
					t.Line(line, "skipped")
					continue
				}
			}
			t.Line(line, casterWordCall(func() int { return x.Add(int(d)) }, x))
		case len(f) == 2 && f[0] == "send":
			w := bigbuff.VerifChanCasterState(x)
			if hi := uint32(w >> 32); uint32(w) == hi && hi > 16 && hi <= math.MaxInt32 {
				t.Line(line, "skipped") // more sends than the buffer takes: would block
				continue
			}
			if hi := uint32(w >> 32); hi > math.MaxInt32 {
				// a corrupted count (out of range): Send must refuse (panic) at once; if it arms instead it blocks for ever on a
				// broadcast to 2^31 receivers — watch it from outside and give the caster up
				done := make(chan string, 1)
				go func() { done <- casterWordCall(func() int { return x.Send(atoi(f[1])) }, x) }()
				select {
				case r := <-done:
					t.Line(line, r)
				case <-time.After(time.Second):
					t.Line(line, "armed-on-a-corrupted-count-and-blocked")
					return
				}
				for len(c) > 0 {
					<-c
				}
				continue
			}
			t.Line(line, casterWordCall(func() int { return x.Send(atoi(f[1])) }, x))
			for len(c) > 0 {
				<-c
			}
		}
	}
}

func genCasterWord(r *rng.R, tier string, i int) []string {
	n := 4 + r.Intn(14)
	var s []string
	big := []int64{math.MaxInt32, math.MaxInt32 - 1, math.MaxInt32 + 1, -math.MaxInt32, -math.MaxInt32 - 1, -math.MaxInt32 + 1,
		1 << 32, -(1 << 32), 1<<32 + 1, math.MaxInt64, math.MinInt64, math.MinInt64 + 1, 1 << 31, -(1 << 31), 1<<33 - 1}
	// the generator tracks the count while the sequence is valid, so that most operations are in range; after the
	// first out-of-range operation a few arbitrary ones follow (the state word is then whatever the code left)
	cnt, bad, tail := int64(0), false, 2+r.Intn(4)
	for k := 0; k < n && tail > 0; k++ {
		if bad {
			tail--
		}
		var d int64
		switch {
		case bad && r.Chance(25):
			s = append(s, fmt.Sprintf("send %d", 1+r.Intn(99))) // a Send on whatever word the bad Add left
			continue
		case bad:
			d = []int64{0, 1, -1, 2, -2, int64(r.Intn(5)) - 2, big[r.Intn(len(big))]}[r.Intn(7)]
		case r.Chance(12):
			switch r.Intn(4) {
			case 0:
				d = -(cnt + 1 + int64(r.Intn(3))) // unbalanced removal
			case 1:
				d = math.MaxInt32 - cnt + 1 + int64(r.Intn(3)) // overflow
			default:
				d = big[r.Intn(len(big))]
			}
		case r.Chance(10):
			s = append(s, fmt.Sprintf("send %d", 1+r.Intn(99)))
			if cnt <= 16 {
				cnt = 0
			}
			continue
		case r.Chance(8):
			d = math.MaxInt32 - cnt - int64(r.Intn(3)) // right up to the bound
		case cnt > 0 && r.Chance(45):
			d = -(1 + int64(r.Intn(int(min64(cnt, 4)))))
		case r.Chance(15):
			d = 0
		default:
			d = 1 + int64(r.Intn(4))
		}
		s = append(s, fmt.Sprintf("add %d", d))
		if !bad {
			if d > math.MaxInt32 || d < -math.MaxInt32 {
				// rejected without effect
			} else if cnt+d < 0 || cnt+d > math.MaxInt32 {
				bad = true
			} else {
				cnt += d
			}
		}
	}
	return s
}

func min64(a, b int64) int64 {
	if a < b {
		return a
	}
	return b
}

// ---------------------------------------------------------------------------------------------------------
// caster (T3, concurrent): senders and contract-following receivers on one real ChanCaster over an unbuffered
// channel.  Every atomic operation on the state word is bracketed by a begin/end hook pair; the handler holds a
// global mutex from begin to end and reads the word at the end, so the logged atomic events are in their real
// order and carry the word they left.  The two halves of a channel rendezvous are logged by the two goroutines
// after it happened; they are paired afterwards and the rendezvous is placed at the earlier half.
//
// script line:  run <senders> <receivers> <seed>

func execCaster(t *trace, script []string) {
	for _, line := range script {
		f := strings.Fields(line)
		if len(f) != 4 || f[0] != "run" {
			continue
		}
		nS, nR, seed := atoi(f[1]), atoi(f[2]), atoi(f[3])
		t.Line(line, "ok")
		root := rng.New(uint64(seed), "caster-run")
		c := make(chan int)
		x := bigbuff.NewChanCaster(c)
		log := &evlog.Log{}
		var gmu sync.Mutex // serialises the hooked atomic operations together with their log entries
		var pmu sync.Mutex
		threadOf := map[int64]string{}
		who := func(g int64) string {
			pmu.Lock()
			defer pmu.Unlock()
			if s, ok := threadOf[g]; ok {
				return s
			}
			return "?"
		}
		rm := hk.On(func(e hk.Event) {
			if e.Obj != any(x) {
				return
			}
			name := strings.TrimPrefix(e.Name, "caster.")
			th := who(e.G)
			switch name {
			case "atomic.begin":
				gmu.Lock()
			case "send.fast", "send.load", "send.cas", "send.final", "add.load", "add.pos", "add.neg":
				w := bigbuff.VerifChanCasterState(x)
				log.Add("%s %s n=%d w=%d", name, th, e.N, w)
				gmu.Unlock()
			default:
				log.Add("%s %s n=%d", name, th, e.N)
			}
		})
		stop := make(chan struct{})
		var wg sync.WaitGroup
		var sendersWG sync.WaitGroup
		for a := 0; a < nS; a++ {
			a := a
			r := root.Fork()
			wg.Add(1)
			sendersWG.Add(1)
			ready := make(chan struct{})
			go func() {
				defer wg.Done()
				defer sendersWG.Done()
				defer func() {
					if r := recover(); r != nil {
						log.Add("panic s%d %s", a, strings.ReplaceAll(fmt.Sprint(r), " ", "_"))
					}
				}()
				pmu.Lock()
				threadOf[hk.Gid()] = fmt.Sprintf("s%d", a)
				pmu.Unlock()
				close(ready)
				rounds := 1 + r.Intn(3)
				for k := 0; k < rounds; k++ {
					time.Sleep(time.Duration(r.Intn(600)) * time.Microsecond)
					v := 1000*(a+1) + k
					log.Add("sendcall s%d v=%d", a, v)
					n := x.Send(v)
					log.Add("sendret s%d ret=%d", a, n)
					perturb(r)
				}
			}()
			<-ready
		}
		for i := 0; i < nR; i++ {
			i := i
			r := root.Fork()
			wg.Add(1)
			ready := make(chan struct{})
			go func() {
				defer wg.Done()
				defer func() {
					if r := recover(); r != nil {
						log.Add("panic r%d %s", i, strings.ReplaceAll(fmt.Sprint(r), " ", "_"))
					}
				}()
				pmu.Lock()
				threadOf[hk.Gid()] = fmt.Sprintf("r%d", i)
				pmu.Unlock()
				close(ready)
				rounds := 1 + r.Intn(4)
				for k := 0; k < rounds; k++ {
					select {
					case <-stop:
						return
					default:
					}
					time.Sleep(time.Duration(r.Intn(400)) * time.Microsecond)
					d := 1
					if r.Chance(20) {
						d = 2 + r.Intn(2)
					}
					ret := x.Add(d)
					log.Add("addret r%d ret=%d", i, ret)
					if r.Chance(30) {
						time.Sleep(time.Duration(r.Intn(500)) * time.Microsecond) // a slow receiver: Sends last longer
					}
					regs := d
					for regs > 0 {
						var giveup <-chan time.Time
						if r.Chance(45) {
							giveup = time.After(time.Duration(r.Intn(1500)) * time.Microsecond)
						}
						select {
						case v := <-c:
							log.Add("recv r%d v=%d", i, v)
							regs--
						case <-giveup:
							k := 1 + r.Intn(regs)
							ret := x.Add(-k)
							log.Add("addret r%d ret=%d", i, ret)
							regs -= k
						case <-stop:
							ret := x.Add(-regs)
							log.Add("addret r%d ret=%d", i, ret)
							regs = 0
						}
					}
					if r.Chance(15) {
						x.Add(0)
					}
				}
			}()
			<-ready
		}
		stuck := ""
		if !waitTimeout(&sendersWG, stepTimeout) {
			stuck = "a Send did not return"
		}
		close(stop)
		if stuck == "" && !waitTimeout(&wg, stepTimeout) {
			stuck = "an Add did not return"
		}
		rm()
		final := bigbuff.VerifChanCasterState(x)
		for _, l := range pairRendezvous(log.Lines(), "send.sent", []string{"recv", "add.absorbed"}) {
			t.Line(l, "ok")
		}
		if stuck != "" {
			t.Line("!stuck", stuck)
			continue
		}
		t.Line(fmt.Sprintf("final w=%d", final), "ok")
	}
}

// pairRendezvous replaces the two halves of every channel rendezvous by one "xfer <sender> <receiver-half...>" line at
// the position of the earlier half.  A receive half belongs to the Send whose value it carries; an absorb half belongs
// to the Send that was armed when the absorbing goroutine's atomic subtraction was logged (the atomic events are in
// their real order).  Within one sender the k-th send half is paired with the k-th half that belongs to it.
func pairRendezvous(lines []string, senderHalf string, receiverHalves []string) []string {
	senderOfValue := map[string]string{}
	ownerOfAbsorber := map[string]string{}
	armed := ""
	sIdx := map[string][]int{}
	rIdx := map[string][]int{}
	for i, l := range lines {
		f := strings.Fields(l)
		if len(f) < 2 {
			continue
		}
		switch f[0] {
		case "sendcall":
			senderOfValue[f[2]] = f[1]
		case "send.cas":
			if len(f) > 2 && f[2] == "n=1" {
				armed = f[1]
			}
		case "send.final":
			armed = ""
		case "add.neg":
			ownerOfAbsorber[f[1]] = armed
		case senderHalf:
			sIdx[f[1]] = append(sIdx[f[1]], i)
		case "recv":
			if len(f) > 2 {
				o := senderOfValue[f[2]]
				rIdx[o] = append(rIdx[o], i)
			}
		case "add.absorbed":
			o := ownerOfAbsorber[f[1]]
			rIdx[o] = append(rIdx[o], i)
		}
	}
	_ = receiverHalves
	// index of the previous event of the same goroutine, for every line
	prev := make([]int, len(lines))
	last := map[string]int{}
	for i, l := range lines {
		f := strings.Fields(l)
		prev[i] = -1
		if len(f) >= 2 {
			if j, ok := last[f[1]]; ok {
				prev[i] = j
			}
			last[f[1]] = i
		}
	}
	// A send half at index s (previous event of the sender: prev[s]) and a receive half at index r (previous event of
	// the receiver: prev[r]) can be the two sides of one rendezvous only if prev[s] < r and prev[r] < s.  The rendezvous
	// is placed right after max(prev[s], prev[r]): after the previous event of both goroutines, before their next ones.
	drop := map[int]bool{}
	type xf struct {
		r    int
		line string
	}
	at := map[int][]xf{}
	for snd, ss := range sIdx {
		rs := append([]int(nil), rIdx[snd]...)
		used := make([]bool, len(rs))
		for _, si := range ss {
			for k, ri := range rs {
				if used[k] || !(prev[si] < ri && prev[ri] < si) {
					continue
				}
				used[k] = true
				pos := prev[si]
				if prev[ri] > pos {
					pos = prev[ri]
				}
				at[pos] = append(at[pos], xf{ri, "xfer " + snd + " " + lines[ri]})
				drop[si], drop[ri] = true, true
				break
			}
		}
	}
	var out []string
	emit := func(pos int) {
		xs := at[pos]
		sort.Slice(xs, func(i, j int) bool { return xs[i].r < xs[j].r })
		for _, x := range xs {
			out = append(out, x.line)
		}
	}
	emit(-1)
	for i, l := range lines {
		if !drop[i] {
			out = append(out, l)
		}
		emit(i)
	}
	return out
}

func genCaster(r *rng.R, tier string, i int) []string {
	return []string{fmt.Sprintf("run %d %d %d", 1+r.Intn(3), 1+r.Intn(6), r.Intn(1<<30))}
}

func init() {
	register(&family{name: "casterword", gen: genCasterWord, exec: execCasterWord})
	register(&family{name: "caster", gen: genCaster, exec: execCaster})
	_ = sort.Strings
}
