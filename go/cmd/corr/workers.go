package main

import (
	"fmt"
	"runtime"
	"strings"
	"sync"
	"sync/atomic"
	"time"

	bigbuff "github.com/joeycumines/go-bigbuff"

	"verifharness/internal/evlog"
	"verifharness/internal/hk"
	"verifharness/internal/rng"
)

// Concurrent (T3) driver of Workers (C14): free-running callers with mixed counts; the verif hook
// points inside the critical sections of Workers.mutex and the job functions log events into one
// total order, which the Lean transition system must accept step by step.
//
// script line:  run <callers> <callsPerCaller> <seed>

func perturb(r *rng.R) {
	switch r.Intn(6) {
	case 0:
		runtime.Gosched()
	case 1:
		time.Sleep(time.Duration(r.Intn(60)) * time.Microsecond)
	}
}

// waitTimeout waits for the group; false if it did not finish in time (the goroutines are leaked).
func waitTimeout(wg *sync.WaitGroup, d time.Duration) bool {
	done := make(chan struct{})
	go func() { wg.Wait(); close(done) }()
	select {
	case <-done:
		return true
	case <-time.After(d):
		return false
	}
}

// workersFlood: far more callers than cores, jobs that do nothing: a caller is regularly descheduled between handing its job
// over and waiting for the reply, so the worker is done first. Every Call must still return its own job's result.
func workersFlood(seed int) string {
	r := rng.New(uint64(seed), "workers-flood")
	var w bigbuff.Workers
	callers, per := 48+r.Intn(32), 150
	var wrong, errs atomic.Int32
	var wg sync.WaitGroup
	for c := 0; c < callers; c++ {
		c := c
		n := 1 + r.Intn(4)
		wg.Add(1)
		go func() {
			defer wg.Done()
			for k := 0; k < per; k++ {
				want := c*1000 + k
				v, err := w.Call(n, func() (interface{}, error) { return want, nil })
				if err != nil {
					errs.Add(1)
				} else if v != want {
					wrong.Add(1)
				}
			}
		}()
	}
	if !waitTimeout(&wg, stepTimeout) {
		return "hung=true wrong=? errors=?"
	}
	done := make(chan struct{})
	go func() { w.Wait(); close(done) }()
	select {
	case <-done:
	case <-time.After(stepTimeout):
		return "hung=wait wrong=? errors=?"
	}
	return fmt.Sprintf("hung=false wrong=%d errors=%d", wrong.Load(), errs.Load())
}

func execWorkers(t *trace, script []string) {
	for _, line := range script {
		f := strings.Fields(line)
		if len(f) == 2 && f[0] == "flood" {
			t.Line(line, workersFlood(atoi(f[1])))
			continue
		}
		if len(f) != 4 || f[0] != "run" {
			continue
		}
		callers, per, seed := atoi(f[1]), atoi(f[2]), atoi(f[3])
		t.Line(line, "ok")
		var w bigbuff.Workers
		log := &evlog.Log{}
		var pmu sync.Mutex
		pending := map[int64][2]int{} // caller gid -> (job, n)
		rm := hk.On(func(e hk.Event) {
			if e.Obj != any(&w) {
				return
			}
			switch e.Name {
			case "workers.call":
				pmu.Lock()
				p := pending[e.G]
				pmu.Unlock()
				log.Add("call %d %d %d count=%d", e.G, p[0], p[1], e.N)
			case "workers.take":
				log.Add("take %d qlen=%d", e.G, e.N)
			case "workers.exit":
				log.Add("exit %d count=%d", e.G, e.N)
			case "workers.wait":
				log.Add("wait count=%d", e.N)
			}
		})
		root := rng.New(uint64(seed), "workers-run")
		var wg sync.WaitGroup
		// in half of the runs two goroutines keep the pool's mutex contended (Count() takes it): every window that is
		// opened by an Unlock is then likely to be entered by a waiting Call
		var polling atomic.Bool
		tight := seed%2 == 0
		if tight {
			polling.Store(true)
			for p := 0; p < 2; p++ {
				go func() {
					for polling.Load() {
						w.Count()
					}
				}()
			}
		}
		job := 0
		var jmu sync.Mutex
		stopWaiter := make(chan struct{})
		for c := 0; c < callers; c++ {
			r := root.Fork()
			wg.Add(1)
			go func() {
				defer wg.Done()
				g := hk.Gid()
				for k := 0; k < per; k++ {
					jmu.Lock()
					job++
					j := job
					jmu.Unlock()
					n := 1 + r.Intn(4)
					if r.Chance(30) {
						n = 1
					}
					jr := r.Fork()
					pmu.Lock()
					pending[g] = [2]int{j, n}
					pmu.Unlock()
					res, err := w.Call(n, func() (interface{}, error) {
						wg := hk.Gid()
						log.Add("jobstart %d %d", wg, j)
						if !tight {
							perturb(jr)
							perturb(jr)
						}
						log.Add("jobend %d %d", wg, j)
						return j * 10, nil
					})
					if err != nil {
						log.Add("ret %d err", j)
					} else {
						log.Add("ret %d %d", j, res.(int))
					}
					if !tight || r.Chance(30) {
						perturb(r)
					}
				}
			}()
		}
		// several goroutines wait for the pool to go idle at the same time: the last worker out must wake ALL of them
		var waiters sync.WaitGroup
		for k := 0; k < 3; k++ {
			waiters.Add(1)
			go func() {
				defer waiters.Done()
				for {
					select {
					case <-stopWaiter:
						return
					default:
						w.Wait()
						time.Sleep(50 * time.Microsecond)
					}
				}
			}()
		}
		stuck := !waitTimeout(&wg, stepTimeout)
		polling.Store(false)
		close(stopWaiter)
		waitersLeft := false
		if !stuck && !waitTimeout(&waiters, stepTimeout) {
			waitersLeft = true
		}
		if !stuck {
			done := make(chan struct{})
			go func() { w.Wait(); close(done) }()
			select {
			case <-done:
			case <-time.After(stepTimeout):
				stuck = true
			}
		}
		rm()
		for _, l := range log.Lines() {
			t.Line(l, "ok")
		}
		if stuck {
			t.Line("!stuck", "calls did not return within the step timeout")
			continue
		}
		if waitersLeft {
			t.Line("!stuck", "a goroutine blocked in Wait was not woken although no worker is live")
			continue
		}
		c, tg, q := bigbuff.VerifWorkersState(&w)
		_ = tg
		t.Line(fmt.Sprintf("final count=%d queued=%d", c, q), "ok")
	}
}

func genWorkers(r *rng.R, tier string, i int) []string {
	if i%8 == 3 {
		return []string{fmt.Sprintf("flood %d", r.Intn(1<<30))}
	}
	return []string{fmt.Sprintf("run %d %d %d", 2+r.Intn(5), 3+r.Intn(6), r.Intn(1<<30))}
}

func init() {
	register(&family{name: "workers", gen: genWorkers, exec: execWorkers})
}
