package main

import (
	"fmt"
	"strconv"
	"strings"

	bigbuff "github.com/joeycumines/go-bigbuff"

	"verifharness/internal/rng"
)

// Pure-function correspondence for DefaultCleaner / FixedBufferCleaner (C03).
// Lines:  def <size> <offs...> => <r>     fix <max> <target> <size> <offs...> => <r> cb=<none|max:target:size:trim:noffs>

func cleanerLine(t *trace, f []string) {
	ints := make([]int, 0, len(f))
	for _, s := range f[1:] {
		v, _ := strconv.Atoi(s)
		ints = append(ints, v)
	}
	switch f[0] {
	case "def":
		if len(ints) < 1 {
			t.Line(strings.Join(f, " "), "skipped")
			return
		}
		offs := append([]int(nil), ints[1:]...)
		r := bigbuff.DefaultCleaner(ints[0], offs)
		t.Line(strings.Join(f, " "), strconv.Itoa(r))
	case "fix":
		if len(ints) < 3 {
			t.Line(strings.Join(f, " "), "skipped")
			return
		}
		cb := "none"
		offs := append([]int(nil), ints[3:]...)
		r := bigbuff.FixedBufferCleaner(ints[0], ints[1], func(n bigbuff.FixedBufferCleanerNotification) {
			cb = fmt.Sprintf("%d:%d:%d:%d:%d", n.Max, n.Target, n.Size, n.Trim, len(n.Offsets))
		})(ints[2], offs)
		t.Line(strings.Join(f, " "), fmt.Sprintf("%d cb=%s", r, cb))
	default:
		t.Line(strings.Join(f, " "), "skipped")
	}
}

func execCleaner(t *trace, script []string) {
	for _, l := range script {
		f := strings.Fields(l)
		if len(f) > 0 {
			cleanerLine(t, f)
		}
	}
}

func joinInts(prefix string, a ...int) []string {
	f := []string{prefix}
	for _, v := range a {
		f = append(f, strconv.Itoa(v))
	}
	return f
}

func sweepCleaner(t *trace, tier string, r *rng.R) {
	maxLen := 4
	if tier == "thorough" {
		maxLen = 5
	}
	vals := []int{-2, -1, 0, 1, 2, 3, 4, 5, 6, 7}
	for size := 0; size <= 6; size++ {
		t.Case(fmt.Sprintf("sweep-def-size%d", size))
		var rec func(cur []int)
		rec = func(cur []int) {
			cleanerLine(t, joinInts("def", append([]int{size}, cur...)...))
			if len(cur) == maxLen {
				return
			}
			for _, v := range vals {
				rec(append(cur, v))
			}
		}
		rec(nil)
		t.End()
	}
	for max := -1; max <= 7; max++ {
		t.Case(fmt.Sprintf("sweep-fix-max%d", max))
		for target := -1; target <= 7; target++ {
			for size := 0; size <= 8; size++ {
				var rec func(cur []int)
				rec = func(cur []int) {
					cleanerLine(t, joinInts("fix", append([]int{max, target, size}, cur...)...))
					if len(cur) == 2 {
						return
					}
					for _, v := range vals {
						rec(append(cur, v))
					}
				}
				rec(nil)
			}
		}
		t.End()
	}
}

func genCleaner(r *rng.R, tier string, i int) []string {
	var s []string
	big := func() int {
		switch r.Intn(4) {
		case 0:
			return r.Range(-3, 12)
		case 1:
			return r.Range(-1000, 100000)
		case 2:
			return int(r.U64()%(1<<40)) - (1 << 39)
		}
		return r.Range(0, 1<<30)
	}
	for j := 0; j < 200; j++ {
		n := r.Intn(9)
		offs := make([]int, n)
		for k := range offs {
			offs[k] = big()
			if r.Chance(10) {
				offs[k] = 0
			}
		}
		size := big()
		if size < 0 && r.Chance(80) {
			size = -size
		}
		if r.Chance(50) {
			s = append(s, strings.Join(joinInts("def", append([]int{size}, offs...)...), " "))
		} else {
			s = append(s, strings.Join(joinInts("fix", append([]int{big(), big(), size}, offs...)...), " "))
		}
	}
	return s
}

func init() {
	register(&family{name: "cleaner", gen: genCleaner, exec: execCleaner, extra: sweepCleaner})
}
