package main

import (
	"context"
	"fmt"
	"regexp"
	"runtime"
	"sort"
	"strings"
	"sync"
	"sync/atomic"
	"time"

	bigbuff "github.com/joeycumines/go-bigbuff"

	"verifharness/internal/hk"
	"verifharness/internal/rng"
)

// Driver of the lifecycle clauses (C12): a program creates handles of every type, uses them (some operations
// are left in flight), then closes / cancels everything in a PRNG-chosen order, probes the API after Close,
// and finally takes a goroutine dump: no goroutine with a frame inside the library may remain.
//
// script lines:  prog <cooldownMs> <seed>   result: probes=<...> goroutines=<0 | list of library functions>

var libFrame = regexp.MustCompile(`github\.com/joeycumines/go-bigbuff\.(\S+?)\(?[0-9a-fx, .]*\)?\n`)

func libGoroutines() []string {
	buf := make([]byte, 1<<20)
	n := runtime.Stack(buf, true)
	var out []string
	for _, g := range strings.Split(string(buf[:n]), "\n\n") {
		if m := libFrame.FindStringSubmatch(g); m != nil {
			out = append(out, m[1])
		}
	}
	sort.Strings(out)
	return out
}

func lifecycleOne(cooldownMs int, seed int) string {
	r := rng.New(uint64(seed), "lifecycle")
	before := len(libGoroutines())
	var closers []func()
	var probes []string
	probe := func(name string, got string, want string) {
		if got != want {
			probes = append(probes, fmt.Sprintf("%s:%s(want:%s)", name, strings.ReplaceAll(got, " ", "_"), strings.ReplaceAll(want, " ", "_")))
		}
	}
	rootCtx, rootCancel := context.WithCancel(context.Background())
	bg := context.Background()
	// ---- Buffer with a long cooldown (the timer goroutine must not outlive Close)
	b := new(bigbuff.Buffer)
	b.SetCleanerConfig(bigbuff.CleanerConfig{Cleaner: bigbuff.DefaultCleaner, Cooldown: time.Duration(cooldownMs) * time.Millisecond})
	if cooldownMs > 0 {
		// let the timer of the lazily installed default config (10ms) expire, so that the next evaluation arms
		// a timer with OUR cooldown (the one that must not outlive Close)
		time.Sleep(15 * time.Millisecond)
	}
	c1, _ := b.NewConsumer()
	c2, _ := b.NewConsumer()
	b.Put(bg, 1, 2, 3)
	c1.Get(bg)
	c1.Commit()
	c2.Get(bg)
	c2.Rollback()
	var inflight sync.WaitGroup
	if r.Chance(60) {
		// a Get left blocked on c1 until its context is cancelled
		for i := 0; i < 2; i++ {
			c1.Get(bg)
		}
		c1.Commit()
		gctx, gcancel := context.WithCancel(rootCtx)
		inflight.Add(1)
		go func() { defer inflight.Done(); c1.Get(gctx) }()
		closers = append(closers, gcancel)
		if r.Chance(70) {
			// inspection calls on the consumer whose Get is blocked, racing with the closes: they may wait for the Get,
			// but must never keep Close from completing
			time.Sleep(200 * time.Microsecond)
			for _, k := range []int{r.Intn(3), r.Intn(3)} {
				k := k
				inflight.Add(1)
				go func() {
					defer inflight.Done()
					switch k {
					case 0:
						b.Diff(c1)
					case 1:
						b.Range(bg, c1, func(index int, value interface{}) bool { return true })
					default:
						b.Size()
						b.Diff(c2)
					}
				}()
			}
		}
	}
	closers = append(closers, func() { c2.Close() }, func() {
		b.Close()
		// probes after Close (C12 sentence 1)
		probe("put", canonErr(b.Put(bg, 9)), "err canceled")
		_, err := b.NewConsumer()
		probe("new", canonErr(err), "err canceled")
		probe("closebuf2", canonErr(b.Close()), "err once")
		if len(b.Slice()) != b.Size() { // still readable after Close (what it contains is checked by the buffer family)
			probes = append(probes, "slice-size-differ")
		}
		select {
		case <-b.Done():
		default:
			probes = append(probes, "done-not-closed")
		}
	})
	// ---- Channel
	src := make(chan int, 4)
	chCtx, chCancel := context.WithCancel(rootCtx)
	ch, _ := bigbuff.NewChannel(chCtx, time.Millisecond, src)
	src <- 1
	ch.Get(bg)
	if r.Chance(50) {
		gctx, gcancel := context.WithCancel(rootCtx)
		inflight.Add(1)
		go func() { defer inflight.Done(); ch.Get(gctx); ch.Get(gctx) }()
		closers = append(closers, gcancel)
	}
	closers = append(closers, func() {
		if r.Chance(50) {
			ch.Close()
		} else {
			chCancel()
			<-ch.Done()
		}
		_, err := ch.Get(bg)
		probe("chget", canonErr(err), "err canceled")
		probe("chcommit", canonErr(ch.Commit()), "err canceled")
		probe("chclose2", canonErr(ch.Close()), "err once")
	})
	// ---- Workers / Worker / Exclusive
	var ws bigbuff.Workers
	for i := 0; i < 3; i++ {
		inflight.Add(1)
		go func() { defer inflight.Done(); ws.Call(2, func() (interface{}, error) { time.Sleep(200 * time.Microsecond); return 1, nil }) }()
	}
	closers = append(closers, func() { inflight.Wait(); ws.Wait() })
	var wk bigbuff.Worker
	d1 := wk.Do(func(stop <-chan struct{}) { <-stop })
	d2 := wk.Do(func(stop <-chan struct{}) { <-stop })
	closers = append(closers, d1, d2)
	var ex bigbuff.Exclusive
	exDone := ex.CallAsync("k", func() (interface{}, error) { time.Sleep(300 * time.Microsecond); return 1, nil })
	ex.Start("k2", func() (interface{}, error) { return 2, nil })
	closers = append(closers, func() { <-exDone })
	// ---- Notifier.SubscribeCancel, context combinators, LinearAttempt, WaitCond
	var nt bigbuff.Notifier
	target := make(chan int, 1)
	subCancel := nt.SubscribeCancel(rootCtx, "k", target)
	closers = append(closers, subCancel)
	a, ca := context.WithCancel(rootCtx)
	b2, cb := context.WithCancel(rootCtx)
	comb := bigbuff.CombineContext(a, b2)
	conf, cconf := bigbuff.ConflatedContext(a, b2)
	closers = append(closers, ca, cb, func() { <-comb.Done(); cconf(); <-conf.Done() })
	lctx, lcancel := context.WithCancel(rootCtx)
	la := bigbuff.LinearAttempt(lctx, 300*time.Microsecond, 50)
	closers = append(closers, func() {
		lcancel()
		for range la {
		}
	})
	var mu sync.Mutex
	cond := sync.NewCond(&mu)
	wctx, wcancel := context.WithCancel(rootCtx)
	inflight.Add(1)
	go func() {
		defer inflight.Done()
		mu.Lock()
		bigbuff.WaitCond(wctx, cond, func() bool { return false })
		mu.Unlock()
	}()
	closers = append(closers, wcancel)
	// ---- shut everything down in a random order, some of it concurrently
	for k := len(closers) - 1; k > 0; k-- {
		j := r.Intn(k + 1)
		closers[k], closers[j] = closers[j], closers[k]
	}
	// consumer c1 and the buffer close need the blocked Get gone first: run the closers concurrently
	var cw sync.WaitGroup
	for _, cl := range closers {
		cl := cl
		cw.Add(1)
		go func() { defer cw.Done(); cl() }()
		if r.Chance(50) {
			time.Sleep(time.Duration(r.Intn(300)) * time.Microsecond)
		}
	}
	stuck := !waitTimeout(&cw, stepTimeout)
	rootCancel()
	var fin sync.WaitGroup
	fin.Add(1)
	go func() { defer fin.Done(); c1.Rollback(); c1.Close(); inflight.Wait() }()
	if !waitTimeout(&fin, stepTimeout) || stuck {
		return "probes=- goroutines=stuck-closers"
	}
	// every handle is closed, every context cancelled, every call returned: no library goroutine may remain
	deadline := time.Now().Add(500 * time.Millisecond)
	left := libGoroutines()
	for len(left) > before && time.Now().Before(deadline) {
		time.Sleep(2 * time.Millisecond)
		left = libGoroutines()
	}
	ps := "-"
	if len(probes) > 0 {
		ps = strings.Join(probes, ",")
	}
	if len(left) <= before {
		return fmt.Sprintf("probes=%s goroutines=0", ps)
	}
	return fmt.Sprintf("probes=%s goroutines=%s", ps, strings.Join(left, ","))
}

// lifecycleClose: Buffer.Close must wait for ALL its consumers, whatever else is broadcast on its condition variable meanwhile,
// and inspection calls (Slice / Size / Diff) spinning on other goroutines must neither hang nor keep Close from completing.
//   c1, c2 each hold one uncommitted read -> Close (parked, seen through the buf.close.wait hook) -> c1.Commit (a broadcast that is
//   NOT "all consumers gone") -> Close must still be waiting while c2 is open -> c2.Rollback -> Close returns, everything is closed.
func lifecycleClose(seed int) string {
	r := rng.New(uint64(seed), "lifecycle-close")
	before := len(libGoroutines())
	var probes []string
	bg := context.Background()
	b := new(bigbuff.Buffer)
	b.SetCleanerConfig(bigbuff.CleanerConfig{Cleaner: bigbuff.DefaultCleaner, Cooldown: time.Duration([]int{0, 1, 50}[r.Intn(3)]) * time.Millisecond})
	c1, _ := b.NewConsumer()
	c2, _ := b.NewConsumer()
	b.Put(bg, 1, 2, 3)
	c1.Get(bg)
	c2.Get(bg)
	parked := make(chan struct{}, 8)
	rm := hk.On(func(e hk.Event) {
		if e.Name == "buf.close.wait" && e.Obj == any(b) {
			select {
			case parked <- struct{}{}:
			default:
			}
		}
	})
	defer rm()
	var stop atomic.Bool
	var insp sync.WaitGroup
	for i := 0; i < 3; i++ {
		i := i
		insp.Add(1)
		go func() {
			defer insp.Done()
			for !stop.Load() {
				switch i {
				case 0:
					b.Slice()
				case 1:
					b.Size()
					b.Slice()
				default:
					b.Size()
					b.CleanerConfig()
				}
				if r.Chance(10) {
					runtime.Gosched()
				}
			}
		}()
	}
	closeDone := make(chan error, 1)
	go func() { closeDone <- b.Close() }()
	select {
	case <-parked:
	case err := <-closeDone:
		probes = append(probes, "buffer-close-returned-with-uncommitted-consumers:"+strings.ReplaceAll(canonErr(err), " ", "_"))
	case <-time.After(stepTimeout):
		probes = append(probes, "buffer-close-never-reached-its-wait")
	}
	time.Sleep(time.Duration(r.Intn(400)) * time.Microsecond)
	if c1.Commit() != nil { // lets c1 finish closing and deregister: a broadcast on the buffer's cond, with c2 still open
		c1.Rollback()
	}
	select {
	case <-closeDone:
		// Close may only have returned if every consumer is closed
		select {
		case <-c2.Done():
		default:
			probes = append(probes, "buffer-close-returned-while-a-consumer-is-still-open")
		}
		closeDone <- nil
	case <-time.After(time.Duration(2+r.Intn(6)) * time.Millisecond):
	}
	c2.Rollback()
	select {
	case <-closeDone:
	case <-time.After(stepTimeout):
		stop.Store(true)
		return "probes=- goroutines=stuck-buffer-close"
	}
	for _, d := range []<-chan struct{}{b.Done(), c1.Done(), c2.Done()} {
		select {
		case <-d:
		case <-time.After(stepTimeout):
			probes = append(probes, "done-not-closed")
		}
	}
	stop.Store(true)
	if !waitTimeout(&insp, stepTimeout) {
		return "probes=- goroutines=stuck-inspection-calls"
	}
	deadline := time.Now().Add(500 * time.Millisecond)
	left := libGoroutines()
	for len(left) > before && time.Now().Before(deadline) {
		time.Sleep(2 * time.Millisecond)
		left = libGoroutines()
	}
	ps := "-"
	if len(probes) > 0 {
		ps = strings.Join(probes, ",")
	}
	if len(left) <= before {
		return fmt.Sprintf("probes=%s goroutines=0", ps)
	}
	return fmt.Sprintf("probes=%s goroutines=%s", ps, strings.Join(left, ","))
}

func execLifecycle(t *trace, script []string) {
	for _, line := range script {
		f := strings.Fields(line)
		if len(f) == 3 && f[0] == "prog" {
			t.Line(line, lifecycleOne(atoi(f[1]), atoi(f[2])))
		}
		if len(f) == 2 && f[0] == "closewait" {
			t.Line(line, lifecycleClose(atoi(f[1])))
		}
	}
}

func genLifecycle(r *rng.R, tier string, i int) []string {
	if i%3 == 2 {
		return []string{fmt.Sprintf("closewait %d", r.Intn(1<<30))}
	}
	return []string{fmt.Sprintf("prog %d %d", []int{5000, 5000, 50, 0}[r.Intn(4)], r.Intn(1<<30))}
}

func init() {
	register(&family{name: "lifecycle", gen: genLifecycle, exec: execLifecycle})
}
