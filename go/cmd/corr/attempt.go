package main

import (
	"context"
	"errors"
	"fmt"
	"reflect"
	"strings"
	"sync/atomic"
	"sync"
	"time"

	bigbuff "github.com/joeycumines/go-bigbuff"

	"verifharness/internal/evlog"
	"verifharness/internal/hk"
	"verifharness/internal/rng"
)

// Concurrent (T3) driver of LinearAttempt (C20).
// script line: run <count> <rateMicros> <pace 0 prompt|1 slow|2 absent> <cancelAfterMicros|-1 pre-cancelled> <seed>

func execAttempt(t *trace, script []string) {
	for _, line := range script {
		f := strings.Fields(line)
		if len(f) == 5 && f[0] == "tiny" {
			t.Line(line, attemptTiny(atoi(f[1]), atoi(f[2]), atoi(f[3])))
			continue
		}
		if len(f) == 3 && f[0] == "erronly" {
			t.Line(line, attemptErrOnly(atoi(f[1])))
			continue
		}
		if len(f) == 4 && f[0] == "slowcancel" {
			t.Line(line, attemptSlowCancel(atoi(f[1]), atoi(f[2])))
			continue
		}
		if len(f) != 6 || f[0] != "run" {
			continue
		}
		count, rateUs, pace, cancelUs := atoi(f[1]), atoi(f[2]), atoi(f[3]), atoi(f[4])
		t.Line(line, "ok")
		log := &evlog.Log{}
		// how the context ends (by seed): explicit cancel, a deadline, or a context type of the caller's with its own error
		mode := atoi(f[5]) % 3
		var ctx context.Context
		var cancel context.CancelFunc
		pre := 0
		switch mode {
		case 1:
			d := time.Duration(cancelUs) * time.Microsecond
			if cancelUs < 0 {
				d = -time.Second
				pre = 1
			}
			ctx, cancel = context.WithDeadline(context.Background(), time.Now().Add(d))
		case 2:
			cc := &customCtx{done: make(chan struct{})}
			ctx, cancel = cc, cc.end
			if cancelUs < 0 {
				cancel()
				pre = 1
			}
		default:
			ctx, cancel = context.WithCancel(context.Background())
			if cancelUs < 0 {
				cancel()
				pre = 1
			}
		}
		var chPtr uintptr
		exited := make(chan struct{}, 1)
		ready := make(chan struct{})
		rm := hk.On(func(e hk.Event) {
			if !strings.HasPrefix(e.Name, "attempt.") {
				return
			}
			<-ready
			if reflect.ValueOf(e.Obj).Pointer() != chPtr {
				return
			}
			switch e.Name {
			case "attempt.exit":
				log.Add("exit")
				select {
				case exited <- struct{}{}:
				default:
				}
			default:
				log.Add("%s %d", strings.TrimPrefix(e.Name, "attempt."), e.N)
			}
		})
		c := bigbuff.LinearAttempt(ctx, time.Duration(rateUs)*time.Microsecond, count)
		if mode == 1 && pre == 0 && len(c) == 0 && ctx.Err() != nil {
			// the deadline had already passed when LinearAttempt looked at the context (this goroutine was descheduled
			// for longer than the deadline): the call was made with a cancelled context
			pre = 1
		}
		log.Add("start %d pre=%d %d %d", count, pre, rateUs, pace)
		if mode == 1 && cancelUs >= 0 && pre == 0 {
			// a deadline may pass at any moment from now on: the context "is being cancelled" for the whole run, and
			// "cancelled" once this goroutine has seen Done closed
			log.Add("cancelling")
		}
		chPtr = reflect.ValueOf(c).Pointer()
		close(ready)
		hasGoroutine := pre == 0 && count > 1
		recvDone := make(chan int, 1)
		recvLoop := func() {
			n := 0
			for v := range c {
				log.Add("recv %d", v.UnixNano())
				n++
				if pace == 1 {
					time.Sleep(time.Duration(rateUs*2+rateUs/2) * time.Microsecond)
				}
			}
			log.Add("closedseen")
			recvDone <- n
		}
		if pace != 2 {
			go recvLoop()
		}
		if cancelUs >= 0 && pre == 0 {
			if mode == 1 {
				<-ctx.Done() // the deadline passes
			} else {
				time.Sleep(time.Duration(cancelUs) * time.Microsecond)
				log.Add("cancelling")
				cancel()
			}
			log.Add("cancelled")
		}
		stuck := false
		if hasGoroutine {
			select {
			case <-exited:
			case <-time.After(stepTimeout):
				stuck = true
			}
		}
		if pace == 2 && !stuck {
			go recvLoop()
		}
		n := -1
		if !stuck {
			select {
			case n = <-recvDone:
			case <-time.After(stepTimeout):
				stuck = true
			}
		}
		rm()
		cancel()
		for _, l := range log.Lines() {
			t.Line(l, "ok")
		}
		if stuck {
			t.Line("!stuck", "goroutine did not exit / channel was not closed")
			continue
		}
		t.Line(fmt.Sprintf("final %d", n), "ok")
	}
}

// customCtx is a caller-defined context whose error is neither Canceled nor DeadlineExceeded.
type customCtx struct {
	mu   sync.Mutex
	done chan struct{}
	err  error
}

func (c *customCtx) Deadline() (time.Time, bool) { return time.Time{}, false }
func (c *customCtx) Done() <-chan struct{}       { return c.done }
func (c *customCtx) Value(any) any               { return nil }
func (c *customCtx) Err() error {
	c.mu.Lock()
	defer c.mu.Unlock()
	return c.err
}
func (c *customCtx) end() {
	c.mu.Lock()
	defer c.mu.Unlock()
	if c.err == nil {
		c.err = errors.New("ended by the caller")
		close(c.done)
	}
}

// attemptTiny: rates far below the scheduler's resolution (ns..µs), where the runtime's ticker delivers overdue, coalesced ticks:
// iters calls with the given rate and count, every value received; counts calls whose values are not non-decreasing, calls with
// more than count values and calls whose channel was not closed.
func attemptTiny(rateNs, count, iters int) string {
	nonmono, toomany := 0, 0
	for i := 0; i < iters; i++ {
		ctx, cancel := context.WithCancel(context.Background())
		var prev time.Time
		n, bad := 0, false
		for v := range bigbuff.LinearAttempt(ctx, time.Duration(rateNs), count) {
			if n > 0 && v.Before(prev) {
				bad = true
			}
			prev = v
			n++
		}
		cancel()
		if bad {
			nonmono++
		}
		if n > count {
			toomany++
		}
	}
	return fmt.Sprintf("nonmonotonic=%d toomany=%d", nonmono, toomany)
}

// attemptSlowCancel: the receiver takes nothing, so after the first tick the goroutine is in its "slot full, retry on the next
// tick" path; the context is then cancelled and the channel must be closed PROMPTLY — well before the next tick (the rate is
// long: rateMs) — because ctx.Done() is ready in the goroutine's select.
func attemptSlowCancel(rateMs int, seed int) string {
	ctx, cancel := context.WithCancel(context.Background())
	defer cancel()
	full := make(chan struct{}, 4)
	var ch <-chan time.Time
	rm := hk.On(func(e hk.Event) {
		if e.Name == "attempt.full" {
			select {
			case full <- struct{}{}:
			default:
			}
		}
	})
	defer rm()
	rate := time.Duration(rateMs) * time.Millisecond
	ch = bigbuff.LinearAttempt(ctx, rate, 3)
	select {
	case <-full:
	case <-time.After(rate*2 + stepTimeout):
		return "never-reached-the-full-slot-path"
	}
	time.Sleep(time.Duration(seed%20) * time.Millisecond)
	cancel()
	t0 := time.Now()
	closed := make(chan struct{})
	go func() {
		for range ch {
		}
		close(closed)
	}()
	select {
	case <-closed:
		if d := time.Since(t0); d > rate/2 {
			return fmt.Sprintf("closed-late after %v of a %v period", d.Round(time.Millisecond), rate)
		}
		return "closed-promptly"
	case <-time.After(rate/2 + 50*time.Millisecond):
		return "still-open-half-a-period-after-cancel"
	}
}

// errOnlyCtx reports its end through Err() only: Done() is a channel that is never closed (a legal, if unhelpful, context; the
// package's own example uses one).  LinearAttempt's guards are documented to go by Err().
type errOnlyCtx struct{ ended atomic.Bool }

func (c *errOnlyCtx) Deadline() (time.Time, bool) { return time.Time{}, false }
func (c *errOnlyCtx) Done() <-chan struct{}       { return nil }
func (c *errOnlyCtx) Value(any) any               { return nil }
func (c *errOnlyCtx) Err() error {
	if c.ended.Load() {
		return context.Canceled
	}
	return nil
}

// attemptErrOnly: the context has ended BEFORE the call and says so through Err() only: the channel must come back closed and empty
func attemptErrOnly(count int) string {
	c := &errOnlyCtx{}
	c.ended.Store(true)
	ch := bigbuff.LinearAttempt(c, time.Millisecond, count)
	n := 0
	deadline := time.After(stepTimeout)
	for {
		select {
		case _, ok := <-ch:
			if !ok {
				return fmt.Sprintf("values=%d closed", n)
			}
			n++
		case <-deadline:
			return fmt.Sprintf("values=%d not-closed", n)
		}
	}
}

func genAttempt(r *rng.R, tier string, i int) []string {
	if i%25 == 19 {
		return []string{fmt.Sprintf("erronly %d %d", 1+r.Intn(4), r.Intn(1<<30))}
	}
	if i%25 == 7 {
		return []string{fmt.Sprintf("tiny %d %d %d %d", []int{1, 20, 100, 1000}[r.Intn(4)], 2+r.Intn(3), 1500, r.Intn(1<<30))}
	}
	if i%50 == 13 {
		return []string{fmt.Sprintf("slowcancel %d %d %d", 500, r.Intn(1<<30), 0)}
	}
	count := 1 + r.Intn(5)
	rate := []int{300, 500, 800, 1200}[r.Intn(4)]
	pace := r.Pick(45, 35, 20)
	cancelAt := r.Intn(rate * (count + 2))
	if r.Chance(8) {
		cancelAt = -1
	}
	if pace == 0 && r.Chance(40) {
		cancelAt = rate * (count + 3) // let it run to completion
	}
	return []string{fmt.Sprintf("run %d %d %d %d %d", count, rate, pace, cancelAt, r.Intn(1<<30))}
}

func init() {
	register(&family{name: "attempt", gen: genAttempt, exec: execAttempt})
}
