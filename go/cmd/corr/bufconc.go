package main

import (
	"context"
	"fmt"
	"strings"
	"sync"
	"sync/atomic"
	"time"

	bigbuff "github.com/joeycumines/go-bigbuff"

	"verifharness/internal/evlog"
	"verifharness/internal/hk"
	"verifharness/internal/rng"
)

// Concurrent (T3) driver of Buffer + consumers (C01, C02, C03, C05): free-running producers with batched
// Puts, consumers (some shared by two goroutines) doing Get/Commit/Rollback, consumers created and closed
// mid-run, and the real cleaner goroutine (DefaultCleaner or FixedBufferCleaner, cooldown 0 or 200µs).
// Every event is emitted by a verif hook point INSIDE the critical section of Buffer.mutex / consumer
// mutex, so the log is a linearisation; the Lean L1 model must accept it step by step.
//
// script line: run <producers> <consumers> <opsPerThread> <cleaner 0 default|1 fixed> <cooldownMicros> <seed>

func execBufConc(t *trace, script []string) {
	for _, line := range script {
		f := strings.Fields(line)
		if len(f) != 7 || f[0] != "run" {
			continue
		}
		producers, consumers, ops, cleanerKind, cooldown, seed := atoi(f[1]), atoi(f[2]), atoi(f[3]), atoi(f[4]), atoi(f[5]), atoi(f[6])
		tight := seed%4 == 0
		t.Line(line, "ok")
		b := new(bigbuff.Buffer)
		log := &evlog.Log{}
		var cmu sync.Mutex
		consIdx := map[any]int{}
		idxOf := func(c any) int {
			cmu.Lock()
			defer cmu.Unlock()
			if i, ok := consIdx[c]; ok {
				return i
			}
			i := len(consIdx)
			consIdx[c] = i
			return i
		}
		var pmu sync.Mutex
		pendingPut := map[int64][]int{}
		rm := hk.On(func(e hk.Event) {
			switch e.Name {
			case "buf.put":
				if e.Obj != any(b) {
					return
				}
				pmu.Lock()
				vals := pendingPut[e.G]
				pmu.Unlock()
				// n = how many values THIS critical section appended (the whole batch, if Put is atomic)
				if len(vals) > 16 {
					log.Add("putr %d %d n=%d", vals[0], len(vals), e.N)
				} else {
					log.Add("put %s n=%d", strings.Trim(strings.ReplaceAll(fmt.Sprint(vals), " ", ","), "[]"), e.N)
				}
			case "buf.newconsumer":
				log.Add("newconsumer %d base=%d", idxOf(e.Obj), e.N)
			case "buf.commit":
				log.Add("commit %d committed=%d", idxOf(e.Obj), e.N)
			case "buf.delete":
				log.Add("delete %d", idxOf(e.Obj))
			case "buf.get.ok":
				log.Add("getok %d rel=%d", idxOf(e.Obj), e.N)
			case "buf.get.past":
				log.Add("getpast %d", idxOf(e.Obj))
			case "buf.get.pending":
				log.Add("getpending %d", idxOf(e.Obj))
			case "buf.clean":
				if e.Obj == any(b) {
					log.Add("clean %d", e.N)
				}
			case "buf.diff":
				// inside Buffer.Diff's critical section (consumer mutex + buffer read lock)
				log.Add("diff %d d=%d", idxOf(e.Obj), e.N)
			case "cons.rollback":
				log.Add("rollback %d", idxOf(e.Obj))
			case "cons.commit":
				log.Add("committed %d", idxOf(e.Obj))
			case "cons.close.cancelled":
				log.Add("closecons %d", idxOf(e.Obj))
			case "buf.close.cancelled":
				if e.Obj == any(b) {
					log.Add("closebuf")
				}
			}
		})
		cleaner := bigbuff.Cleaner(bigbuff.DefaultCleaner)
		if cleanerKind == 1 {
			cleaner = bigbuff.FixedBufferCleaner(12, 4, nil)
		}
		if err := b.SetCleanerConfig(bigbuff.CleanerConfig{Cleaner: cleaner, Cooldown: time.Duration(cooldown) * time.Microsecond}); err != nil {
			t.Line("!setup", err.Error())
			continue
		}
		log.Add("config cleaner=%d", cleanerKind)
		root := rng.New(uint64(seed), "bufconc-run")
		var cons []bigbuff.Consumer
		for i := 0; i < consumers; i++ {
			c, err := b.NewConsumer()
			if err != nil {
				t.Line("!setup", err.Error())
				break
			}
			cons = append(cons, c)
		}
		var wg sync.WaitGroup
		var produced atomic.Int64
		for p := 0; p < producers; p++ {
			r := root.Fork()
			p := p
			wg.Add(1)
			go func() {
				defer wg.Done()
				g := hk.Gid()
				seq := 0
				for k := 0; k < ops; k++ {
					n := []int{1, 1, 2, 3, 5}[r.Intn(5)]
					if r.Intn(14) == 0 {
						n = 1030 + r.Intn(2200) // a large batch: still one contiguous, atomic append
					}
					vals := make([]int, n)
					iv := make([]interface{}, n)
					for j := range vals {
						seq++
						vals[j] = (p+1)*10000000 + seq
						iv[j] = vals[j]
					}
					pmu.Lock()
					pendingPut[g] = vals
					pmu.Unlock()
					if err := b.Put(context.Background(), iv...); err == nil {
						produced.Add(int64(n))
					}
					perturb(r)
				}
			}()
		}
		// consumer threads: consumer i is used by thread i and, for shared ones, by a second thread
		nThreads := consumers + consumers/2
		for th := 0; th < nThreads; th++ {
			r := root.Fork()
			c := cons[th%consumers]
			ci := idxOf(c)
			wg.Add(1)
			go func() {
				defer wg.Done()
				// in every fourth run the threads of a shared consumer hammer it (no pauses, three times the operations): the windows
				// inside Commit / Rollback / Get of ONE consumer used by two goroutines are a few instructions wide
				n, weights := ops*2, []int{60, 18, 12, 10}
				if tight {
					n, weights = ops*6, []int{55, 30, 15, 0}
				}
				for k := 0; k < n; k++ {
					switch r.Pick(weights...) {
					case 0:
						ctx, cancel := context.WithTimeout(context.Background(), time.Duration(200+r.Intn(800))*time.Microsecond)
						v, err := c.Get(ctx)
						cancel()
						if err == nil {
							log.Add("ret %d %d", ci, v.(int))
						}
					case 1:
						c.Commit()
					case 2:
						c.Rollback()
					case 3:
						perturb(r)
					}
				}
			}()
		}
		// inspector: Diff on consumers that other goroutines are using (it waits for a Get in progress; what it reports must be
		// the state at ONE instant)
		inspR := root.Fork()
		wg.Add(1)
		go func() {
			defer wg.Done()
			for k := 0; k < ops; k++ {
				b.Diff(cons[inspR.Intn(len(cons))])
				perturb(inspR)
			}
		}()
		// churn: consumers created and closed mid-run
		churnR := root.Fork()
		wg.Add(1)
		go func() {
			defer wg.Done()
			for k := 0; k < ops/2+1; k++ {
				c, err := b.NewConsumer()
				if err != nil {
					return
				}
				ci := idxOf(c)
				for j := 0; j < churnR.Intn(4); j++ {
					ctx, cancel := context.WithTimeout(context.Background(), 300*time.Microsecond)
					if v, err := c.Get(ctx); err == nil {
						log.Add("ret %d %d", ci, v.(int))
					}
					cancel()
				}
				if churnR.Chance(50) {
					c.Commit()
				} else {
					c.Rollback()
				}
				c.Close()
				perturb(churnR)
			}
		}()
		stuck := !waitTimeout(&wg, stepTimeout)
		// quiesce: roll back, then let the cleaner settle and read the final state
		if !stuck {
			for _, c := range cons {
				c.Rollback()
			}
			time.Sleep(time.Duration(cooldown+300) * time.Microsecond)
		}
		// C04: with no further activity everything reclaimable must be reclaimed (bounded by cooldown + latency)
		reclaimed := 1
		if !stuck {
			reclaimable := func() bool {
				off, l, m := bigbuff.VerifBufferState(b)
				var rel []int
				for _, o := range m {
					rel = append(rel, o-off)
				}
				// C04's premise: every OPEN consumer has committed past a prefix.  (A consumer left behind by a forced
				// trim of FixedBufferCleaner has not; what the configured cleaner would do then is not part of the claim.)
				if len(rel) == 0 || l == 0 {
					return false
				}
				k := rel[0]
				for _, o := range rel {
					if o < k {
						k = o
					}
				}
				return k > 0
			}
			deadline := time.Now().Add(time.Duration(cooldown)*3*time.Microsecond + 2*time.Second)
			for reclaimable() && time.Now().Before(deadline) {
				time.Sleep(200 * time.Microsecond)
			}
			if reclaimable() {
				reclaimed = 0
			}
		}
		sl := b.Slice()
		off, l, _ := bigbuff.VerifBufferState(b)
		rm()
		for _, l := range log.Lines() {
			t.Line(l, "ok")
		}
		if stuck {
			t.Line("!stuck", "threads did not finish")
			continue
		}
		first := -1
		if len(sl) > 0 {
			first = sl[0].(int)
		}
		t.Line(fmt.Sprintf("final base=%d len=%d first=%d produced=%d reclaimed=%d", off, l, first, produced.Load(), reclaimed), "ok")
		go b.Close()
		for _, c := range cons {
			c.Close()
		}
	}
}

func genBufConc(r *rng.R, tier string, i int) []string {
	return []string{fmt.Sprintf("run %d %d %d %d %d %d", 1+r.Intn(3), 1+r.Intn(4), 6+r.Intn(10), r.Pick(70, 30), []int{0, 0, 200}[r.Intn(3)], r.Intn(1<<30))}
}

func init() {
	register(&family{name: "bufconc", gen: genBufConc, exec: execBufConc})
}
