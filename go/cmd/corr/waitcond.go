package main

import (
	"context"
	"fmt"
	"strings"
	"sync"
	"time"

	bigbuff "github.com/joeycumines/go-bigbuff"

	"verifharness/internal/gate"
	"verifharness/internal/hk"
	"verifharness/internal/rng"
)

// Forced-schedule (T4) driver of WaitCond (C05): an event (context cancellation, or a mutator that makes
// the predicate true and broadcasts in one critical section) is placed in a chosen window of the waiter:
//
//	before  before WaitCond is called          pred   waiter held just before it evaluates the predicate
//	wait    waiter held between the predicate (false) and cond.Wait          parked  after it parked
//
// script line:  wc <cancel|set|both|none> <window>      result: nil | err | hang
const gateTimeout = 3 * time.Second

func wcOne(event, window string) string {
	var mu sync.Mutex
	cond := sync.NewCond(&mu)
	flag := false
	ctx, cancel := context.WithCancel(context.Background())
	defer cancel()
	fire := func() (wait func()) {
		var wg sync.WaitGroup
		if event == "cancel" || event == "both" {
			cancel()
		}
		if event == "set" || event == "both" {
			wg.Add(1)
			go func() { // a mutator: one critical section that changes the predicate and broadcasts
				defer wg.Done()
				mu.Lock()
				flag = true
				cond.Broadcast()
				mu.Unlock()
			}()
		}
		return wg.Wait
	}
	isCond := func(e hk.Event) bool { return e.Obj == any(cond) }
	var g *gate.Gate
	switch window {
	case "pred":
		g = gate.Arm("wc.pred", isCond)
	case "wait", "parked":
		g = gate.Arm("wc.wait", isCond)
	}
	var waitMut func()
	if window == "before" {
		waitMut = fire()
		waitMut() // the mutator is done before the call starts
	}
	res := make(chan error, 1)
	go func() {
		mu.Lock()
		err := bigbuff.WaitCond(ctx, cond, func() bool { return flag })
		mu.Unlock()
		res <- err
	}()
	if g != nil {
		if !g.Wait(gateTimeout) {
			g.Release()
			// the waiter returned without reaching the window (e.g. predicate already true)
		} else {
			switch window {
			case "pred", "wait":
				waitMut = fire() // lands while the waiter holds the lock inside the window
				if event == "cancel" || event == "both" {
					// let the watcher observe the cancellation and queue up on the lock
					w := gate.Arm("wc.watcher.cancelled", isCond)
					w.Wait(300 * time.Millisecond)
					w.Release()
				}
				time.Sleep(200 * time.Microsecond)
				g.Release()
			case "parked":
				g.Release()
				time.Sleep(2 * time.Millisecond) // the waiter is now inside cond.Wait
				waitMut = fire()
			}
		}
	}
	select {
	case err := <-res:
		if waitMut != nil {
			waitMut()
		}
		if err == nil {
			return "nil"
		}
		return "err"
	case <-time.After(gateTimeout):
		// release everything so that the goroutines do not leak into the next case
		cancel()
		mu.Lock()
		flag = true
		cond.Broadcast()
		mu.Unlock()
		select {
		case <-res:
		case <-time.After(gateTimeout):
		}
		return "hang"
	}
}

func execWaitCond(t *trace, script []string) {
	for _, line := range script {
		f := strings.Fields(line)
		if len(f) == 3 && f[0] == "wc" {
			t.Line(line, wcOne(f[1], f[2]))
		}
	}
}

func genWaitCond(r *rng.R, tier string, i int) []string {
	var s []string
	events := []string{"cancel", "set", "both"}
	windows := []string{"before", "pred", "wait", "parked"}
	for _, e := range events {
		for _, w := range windows {
			s = append(s, fmt.Sprintf("wc %s %s", e, w))
		}
	}
	// random order
	for k := len(s) - 1; k > 0; k-- {
		j := r.Intn(k + 1)
		s[k], s[j] = s[j], s[k]
	}
	return s
}

func init() {
	register(&family{name: "waitcond", gen: genWaitCond, exec: execWaitCond})
}
