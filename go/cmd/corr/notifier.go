package main

import (
	"context"
	"fmt"
	"reflect"
	"strconv"
	"strings"
	"sync"
	"time"

	bigbuff "github.com/joeycumines/go-bigbuff"

	"verifharness/internal/hk"
	"verifharness/internal/rng"
)

// Driver of Notifier (C15): subscriptions with/without contexts over channels of several element
// types; one publish at a time runs on a helper goroutine while the script releases readiness one
// case at a time (receive on one target, cancel one context), so reflect.Select's choice is forced.
// After every forced choice the loop's failureRefs (hook "not.iter.refs") are compared with the model.

type notSub struct {
	id, key, elem int
	ch            reflect.Value
	ctx           context.Context
	cancel        context.CancelFunc
	subscribed    bool
}

type notExec struct {
	t    *trace
	n    *bigbuff.Notifier
	subs map[int]*notSub

	mu      sync.Mutex
	iterCh  chan []int // failureRefs snapshots at the top of each iteration
	casesCh chan []uintptr
	pubDone chan bool // true = panicked
	inPub   bool
	pending map[int]bool
	guarded map[int]bool
	pubCtx  context.CancelFunc
}

func mkChan(elem int) reflect.Value {
	switch elem {
	case 1:
		return reflect.ValueOf(make(chan int))
	case 2:
		return reflect.ValueOf(make(chan *int))
	case 3:
		return reflect.ValueOf(make(chan error))
	case 4:
		return reflect.ValueOf(make(chan namedSlice))
	case 5:
		return reflect.ValueOf(make(chan []int))
	case 6:
		return reflect.ValueOf(make(chan (<-chan int)))
	}
	return reflect.ValueOf(make(chan interface{}))
}

type namedSlice []int

func notVal(tok string) interface{} {
	if strings.HasPrefix(tok, "nsl=") {
		return namedSlice{atoi(tok[4:])}
	}
	v, _ := mkVal(tok)
	return v
}

// notCanon renders a received value; named slices and receive-only channels are specific to this family.
func notCanon(v reflect.Value) string {
	if v.IsValid() && v.Kind() == reflect.Interface && !v.IsNil() {
		v = v.Elem()
	}
	if v.IsValid() {
		switch x := v.Interface().(type) {
		case namedSlice:
			if x == nil {
				return "nsl=nil"
			}
			return fmt.Sprintf("nsl=%d", x[0])
		case <-chan int:
			if x == nil {
				return "rch=nil"
			}
			return fmt.Sprintf("rch=%d", cap(x))
		}
	}
	return canonVal(v)
}

func (x *notExec) waitIter() (refs []int, n int, returned bool, ok bool) {
	select {
	case r := <-x.iterCh:
		return r[1:], r[0], false, true
	case <-x.pubDone:
		x.inPub = false
		return nil, 0, true, true
	case <-time.After(stepTimeout):
		return nil, 0, false, false
	}
}

func (x *notExec) afterChoice(op string) {
	refs, n, returned, ok := x.waitIter()
	switch {
	case !ok:
		x.t.Line("!"+op, "no-iteration-after-choice")
	case returned:
	default:
		x.t.Line(fmt.Sprintf("refs %s n=%d", joinOrDash(refs), n), "ok")
	}
}

func joinOrDash(a []int) string {
	if len(a) == 0 {
		return "-"
	}
	s := make([]string, len(a))
	for i, v := range a {
		s[i] = strconv.Itoa(v)
	}
	return strings.Join(s, ",")
}

func execNotifier(t *trace, script []string) {
	x := &notExec{t: t, n: new(bigbuff.Notifier), subs: map[int]*notSub{}, iterCh: make(chan []int, 64),
		casesCh: make(chan []uintptr, 64), pubDone: make(chan bool, 1)}
	rm := hk.On(func(e hk.Event) {
		switch e.Name {
		case "not.iter.refs":
			refs := e.Obj.([]int)
			cp := append([]int{e.N}, refs...)
			x.iterCh <- cp
		case "not.iter.cases":
			cs := e.Obj.([]reflect.SelectCase)
			ptrs := make([]uintptr, len(cs))
			for i, c := range cs {
				ptrs[i] = c.Chan.Pointer()
			}
			select {
			case x.casesCh <- ptrs:
			default:
			}
		}
	})
	defer rm()
	for _, line := range script {
		f := strings.Fields(line)
		if len(f) == 0 {
			continue
		}
		r := "skipped"
		switch f[0] {
		case "sub":
			if len(f) != 5 || x.inPub {
				break
			}
			id, key, elem := atoi(f[1]), atoi(f[2]), atoi(f[3])
			s := x.subs[id]
			if s == nil {
				s = &notSub{id: id, key: key, elem: elem, ch: mkChan(elem)}
				if f[4] == "1" {
					s.ctx, s.cancel = context.WithCancel(context.Background())
				}
				x.subs[id] = s
			} else if s.key != key || s.elem != elem || (s.ctx != nil) != (f[4] == "1") {
				break // ids are bound to one (key, type, ctx-ness) per case
			}
			r = func() (r string) {
				defer func() {
					if recover() != nil {
						r = "panic"
					}
				}()
				if s.ctx != nil {
					x.n.SubscribeContext(s.ctx, key, s.ch.Interface())
				} else {
					x.n.Subscribe(key, s.ch.Interface())
				}
				s.subscribed = true
				return "ok"
			}()
		case "dupsub":
			// a second SubscribeContext for the same (key, channel) with ANOTHER context, which is cancelled straight afterwards:
			// the call panics and must leave the existing subscription (and its context) as it was. If there is no such
			// subscription the call succeeds and is undone.
			if len(f) != 2 || x.inPub {
				break
			}
			s := x.subs[atoi(f[1])]
			if s == nil {
				break
			}
			other, cancelOther := context.WithCancel(context.Background())
			r = func() (r string) {
				defer func() {
					if recover() != nil {
						r = "panic"
					}
				}()
				x.n.SubscribeContext(other, s.key, s.ch.Interface())
				return "ok"
			}()
			if r == "ok" {
				x.n.Unsubscribe(s.key, s.ch.Interface())
				r = "ok-undone"
			}
			cancelOther()
		case "unsub":
			if len(f) != 3 || x.inPub {
				break
			}
			s := x.subs[atoi(f[1])]
			if s == nil {
				break
			}
			r = func() (r string) {
				defer func() {
					if recover() != nil {
						r = "panic"
					}
				}()
				x.n.Unsubscribe(atoi(f[2]), s.ch.Interface())
				return "ok"
			}()
		case "cancelsub":
			s := x.subs[atoi(f[1])]
			if s == nil || s.cancel == nil {
				break
			}
			s.cancel()
			if x.inPub {
				if x.pending[s.id] && x.guarded[s.id] {
					delete(x.pending, s.id)
					t.Line(line, "ok fired")
					x.afterChoice(line)
				} else {
					t.Line(line, "ok idle")
				}
				continue
			}
			r = "ok"
		case "pub":
			if len(f) != 5 || x.inPub {
				break
			}
			key := atoi(f[1])
			val := notVal(f[2])
			var ctx context.Context
			x.pubCtx = nil
			if f[3] == "1" {
				c, cancel := context.WithCancel(context.Background())
				ctx, x.pubCtx = c, cancel
				if f[4] == "1" {
					cancel()
				}
			}
			for len(x.iterCh) > 0 {
				<-x.iterCh
			}
			for len(x.casesCh) > 0 {
				<-x.casesCh
			}
			x.inPub = true
			go func() {
				p := false
				defer func() {
					if recover() != nil {
						p = true
					}
					x.pubDone <- p
				}()
				x.n.PublishContext(ctx, key, val)
			}()
			select {
			case ptrs := <-x.casesCh:
				first := <-x.iterCh
				x.pending, x.guarded = map[int]bool{}, map[int]bool{}
				var order []string
				for _, p := range ptrs {
					for _, s := range x.subs {
						if s.ch.Pointer() == p {
							x.pending[s.id] = true
							c := "0"
							if s.ctx != nil {
								x.guarded[s.id] = true
								c = "1"
							}
							order = append(order, fmt.Sprintf("%d:%s", s.id, c))
						}
					}
				}
				t.Line(line, "started")
				t.Line("order "+strings.Join(order, ","), "ok")
				t.Line(fmt.Sprintf("refs %s n=%d", joinOrDash(first[1:]), first[0]), "ok")
				continue
			case p := <-x.pubDone:
				x.inPub = false
				if p {
					r = "panic"
				} else {
					r = "returned"
				}
			case <-time.After(stepTimeout):
				r = "timeout"
			}
		case "recv":
			s := x.subs[atoi(f[1])]
			if s == nil {
				break
			}
			if x.inPub && x.pending[s.id] {
				chosen, v, ok := reflect.Select([]reflect.SelectCase{
					{Dir: reflect.SelectRecv, Chan: s.ch},
					{Dir: reflect.SelectRecv, Chan: reflect.ValueOf(time.After(stepTimeout))},
				})
				if chosen != 0 || !ok {
					r = "none"
				} else {
					delete(x.pending, s.id)
					t.Line(line, "val "+notCanon(v))
					x.afterChoice(line)
					continue
				}
			} else {
				chosen, v, _ := reflect.Select([]reflect.SelectCase{
					{Dir: reflect.SelectRecv, Chan: s.ch},
					{Dir: reflect.SelectDefault},
				})
				if chosen == 0 {
					r = "val " + notCanon(v)
				} else {
					r = "none"
				}
			}
		case "cancelpub":
			if x.pubCtx != nil {
				x.pubCtx()
				if x.inPub {
					select {
					case <-x.pubDone:
						x.inPub = false
					case <-time.After(stepTimeout):
						t.Line("!cancelpub", "publish did not return")
					}
				}
			}
			r = "ok"
		case "done":
			if !x.inPub {
				r = "returned"
			} else {
				select {
				case <-x.pubDone:
					x.inPub = false
					r = "returned"
				case <-time.After(30 * time.Millisecond):
					r = "blocked"
				}
			}
		case "state":
			k, s := bigbuff.VerifNotifierSize(x.n)
			r = fmt.Sprintf("keys=%d subs=%d", k, s)
		}
		t.Line(line, r)
	}
	// release a publish that is still blocked
	if x.inPub {
		for _, s := range x.subs {
			if s.cancel != nil {
				s.cancel()
			}
		}
		if x.pubCtx != nil {
			x.pubCtx()
		}
		deadline := time.After(stepTimeout)
	drain:
		for {
			select {
			case <-x.pubDone:
				break drain
			case <-x.iterCh:
			case <-deadline:
				t.Line("!finish", "publish stuck")
				break drain
			default:
				for _, s := range x.subs {
					reflect.Select([]reflect.SelectCase{{Dir: reflect.SelectRecv, Chan: s.ch}, {Dir: reflect.SelectDefault}})
				}
				time.Sleep(time.Millisecond)
			}
		}
	}
}

func genNotifier(r *rng.R, tier string, i int) []string {
	var s []string
	nsubs := 3 + r.Intn(5)
	type gs struct{ id, key, elem, ctx int }
	var subs []gs
	for k := 0; k < nsubs; k++ {
		ctx := 0
		if r.Chance(65) {
			ctx = 1
		}
		subs = append(subs, gs{k, r.Pick(80, 20), []int{0, 0, 1, 2, 3, 4, 5, 6}[r.Intn(8)], ctx})
	}
	for _, g := range subs {
		s = append(s, fmt.Sprintf("sub %d %d %d %d", g.id, g.key, g.elem, g.ctx))
	}
	if r.Chance(20) {
		g := subs[r.Intn(nsubs)]
		s = append(s, fmt.Sprintf("sub %d %d %d %d", g.id, g.key, g.elem, g.ctx)) // duplicate: panics
	}
	if r.Chance(15) {
		s = append(s, fmt.Sprintf("unsub %d %d", r.Intn(nsubs), r.Intn(2))) // possibly unmatched
	}
	if r.Chance(25) {
		s = append(s, fmt.Sprintf("dupsub %d", r.Intn(nsubs))) // rejected duplicate with another (then cancelled) context
	}
	s = append(s, "state")
	rounds := 1 + r.Intn(3)
	for q := 0; q < rounds; q++ {
		if r.Chance(25) {
			s = append(s, fmt.Sprintf("cancelsub %d", r.Intn(nsubs)))
		}
		val := []string{"int=5", "nil", "pint=3", "perr=2", "int=7", "sl=4", "nsl=6", "ch=2"}[r.Intn(8)]
		pctx := r.Intn(2)
		pre := 0
		if pctx == 1 && r.Chance(10) {
			pre = 1
		}
		s = append(s, fmt.Sprintf("pub %d %s %d %d", r.Pick(85, 15), val, pctx, pre))
		// release readiness in a random order, mixing receives and context cancels
		order := make([]int, nsubs)
		for k := range order {
			order[k] = k
		}
		for k := nsubs - 1; k > 0; k-- {
			j := r.Intn(k + 1)
			order[k], order[j] = order[j], order[k]
		}
		for _, id := range order {
			switch r.Pick(55, 35, 10) {
			case 0:
				s = append(s, fmt.Sprintf("recv %d", id))
			case 1:
				s = append(s, fmt.Sprintf("cancelsub %d", id))
			case 2:
				// leave it pending
			}
			if r.Chance(5) {
				s = append(s, "cancelpub")
			}
		}
		s = append(s, "done")
		if r.Chance(50) {
			s = append(s, "cancelpub")
		}
		for _, id := range order {
			s = append(s, fmt.Sprintf("recv %d", id)) // serve or find nothing
		}
		s = append(s, "done")
		s = append(s, "cancelpub", "done")
		if r.Chance(30) {
			s = append(s, fmt.Sprintf("unsub %d %d", subs[r.Intn(nsubs)].id, subs[r.Intn(nsubs)].key))
		}
		s = append(s, "state")
	}
	return s
}

func init() {
	register(&family{name: "notifier", gen: genNotifier, exec: execNotifier})
}
