package main

import (
	"fmt"
	"reflect"
	"strconv"
	"strings"

	bigbuff "github.com/joeycumines/go-bigbuff"

	"verifharness/internal/rng"
)

// Driver of Call / CallArgs / CallResults / CallResultsSlice (C19) over generated signatures.
// The callee is built with reflect.MakeFunc for the generated signature; it records exactly what it
// received (that is the "direct call" reference) and returns the scripted results.

type namedInt int
type myErr struct{ k int }

func (e *myErr) Error() string { return "myErr" + strconv.Itoa(e.k) }

var callTypes = map[string]reflect.Type{
	"int":   reflect.TypeOf(0),
	"str":   reflect.TypeOf(""),
	"any":   reflect.TypeOf((*interface{})(nil)).Elem(),
	"err":   reflect.TypeOf((*error)(nil)).Elem(),
	"pint":  reflect.TypeOf((*int)(nil)),
	"sl":    reflect.TypeOf([]int(nil)),
	"map":   reflect.TypeOf(map[string]int(nil)),
	"fn":    reflect.TypeOf((func())(nil)),
	"ch":    reflect.TypeOf((chan int)(nil)),
	"named": reflect.TypeOf(namedInt(0)),
	"perr":  reflect.TypeOf((*myErr)(nil)),
	"arr":   reflect.TypeOf([2]int{}),
}

// mkVal builds the Go value for a value token ("nil", "ty=k", "ty=nil"); ok=false if malformed.
func mkVal(tok string) (v interface{}, ok bool) {
	if tok == "nil" {
		return nil, true
	}
	p := strings.SplitN(tok, "=", 2)
	if len(p) != 2 {
		return nil, false
	}
	t, found := callTypes[p[0]]
	if !found || p[0] == "any" || p[0] == "err" {
		return nil, false
	}
	if p[1] == "nil" {
		switch p[0] {
		case "int", "str", "named", "arr":
			return nil, false
		}
		return reflect.Zero(t).Interface(), true
	}
	k := atoi(p[1])
	switch p[0] {
	case "int":
		return k, true
	case "str":
		return "s" + strconv.Itoa(k), true
	case "pint":
		x := k
		return &x, true
	case "sl":
		return []int{k}, true
	case "map":
		return map[string]int{"k": k}, true
	case "fn":
		return func() {}, true
	case "ch":
		return make(chan int, k), true
	case "named":
		return namedInt(k), true
	case "perr":
		return &myErr{k}, true
	case "arr":
		return [2]int{k, k}, true
	}
	return nil, false
}

// canonVal renders a value (held in a reflect.Value of any static type) as a value token.
func canonVal(v reflect.Value) string {
	if !v.IsValid() {
		return "nil"
	}
	if v.Kind() == reflect.Interface {
		if v.IsNil() {
			return "nil"
		}
		v = v.Elem()
	}
	for name, t := range callTypes {
		if name == "any" || name == "err" || v.Type() != t {
			continue
		}
		switch name {
		case "int":
			return fmt.Sprintf("int=%d", v.Int())
		case "named":
			return fmt.Sprintf("named=%d", v.Int())
		case "str":
			return "str=" + strings.TrimPrefix(v.String(), "s")
		case "pint":
			if v.IsNil() {
				return "pint=nil"
			}
			return fmt.Sprintf("pint=%d", v.Elem().Int())
		case "sl":
			if v.IsNil() {
				return "sl=nil"
			}
			if v.Len() == 0 {
				return "sl=empty"
			}
			return fmt.Sprintf("sl=%d", v.Index(0).Int())
		case "map":
			if v.IsNil() {
				return "map=nil"
			}
			return fmt.Sprintf("map=%d", v.MapIndex(reflect.ValueOf("k")).Int())
		case "fn":
			if v.IsNil() {
				return "fn=nil"
			}
			return "fn=0"
		case "ch":
			if v.IsNil() {
				return "ch=nil"
			}
			return fmt.Sprintf("ch=%d", v.Cap())
		case "perr":
			if v.IsNil() {
				return "perr=nil"
			}
			return fmt.Sprintf("perr=%d", v.Interface().(*myErr).k)
		case "arr":
			return fmt.Sprintf("arr=%d", v.Index(0).Int())
		}
	}
	return "?" + v.Type().String()
}

func listTok(s string) []string {
	if s == "-" || s == "" {
		return nil
	}
	return strings.Split(s, ",")
}

// argsOptions: within one case, calls whose argument tokens are identical share ONE CallArgs option value (an option is a
// reusable value: using it with one callable must not influence its use with another)
type argsOptions map[string]bigbuff.CallOption

func callOne(f []string, shared argsOptions) string {
	if len(f) != 7 {
		return "skipped"
	}
	var in, out []reflect.Type
	for _, p := range listTok(f[1]) {
		t, ok := callTypes[p]
		if !ok {
			return "skipped"
		}
		in = append(in, t)
	}
	variadic := f[2] == "1"
	if variadic {
		if len(in) == 0 {
			return "skipped"
		}
		in[len(in)-1] = reflect.SliceOf(in[len(in)-1])
	}
	var retVals []reflect.Value
	for _, r := range listTok(f[3]) {
		p := strings.SplitN(r, ":", 2)
		if len(p) != 2 {
			return "skipped"
		}
		t, ok := callTypes[p[0]]
		if !ok {
			return "skipped"
		}
		raw, ok := mkVal(p[1])
		if !ok {
			return "skipped"
		}
		rv := reflect.New(t).Elem()
		if raw != nil {
			if !reflect.TypeOf(raw).AssignableTo(t) {
				return "skipped"
			}
			rv.Set(reflect.ValueOf(raw))
		} else if t.Kind() != reflect.Interface {
			return "skipped" // untyped nil only for interface results
		}
		out = append(out, t)
		retVals = append(retVals, rv)
	}
	var args []interface{}
	for _, a := range listTok(f[4]) {
		v, ok := mkVal(a)
		if !ok {
			return "skipped"
		}
		args = append(args, v)
	}
	invoked := 0
	var passed []string
	fn := reflect.MakeFunc(reflect.FuncOf(in, out, variadic), func(a []reflect.Value) []reflect.Value {
		invoked++
		passed = nil
		for i, v := range a {
			if variadic && i == len(a)-1 {
				for j := 0; j < v.Len(); j++ {
					passed = append(passed, canonVal(v.Index(j)))
				}
			} else {
				passed = append(passed, canonVal(v))
			}
		}
		return retVals
	})
	argsOpt, reused := shared[f[4]]
	if !reused {
		argsOpt = bigbuff.CallArgs(args...)
		shared[f[4]] = argsOpt
	}
	opts := []bigbuff.CallOption{argsOpt}
	var targets []reflect.Value // pointers whose Elem we inspect afterwards
	var staleTok []string       // what each target held before the call ("" = its zero value)
	// in about half of the calls the targets are REUSED ones: they already hold a value (of a type that fits) from an earlier use
	stale := len(strings.Join(f, " "))%2 == 0
	staleFor := func(name string) (reflect.Value, bool) {
		tok := map[string]string{"int": "int=999", "str": "str=999", "any": "int=999", "err": "perr=999", "pint": "pint=999", "sl": "sl=999",
			"map": "map=999", "ch": "ch=3", "named": "named=999", "perr": "perr=999", "arr": "arr=999"}[name]
		if tok == "" {
			return reflect.Value{}, false
		}
		v, ok := mkVal(tok)
		return reflect.ValueOf(v), ok
	}
	var sliceTarget reflect.Value
	switch f[5] {
	case "none":
	case "results":
		var ts []interface{}
		for _, tok := range listTok(f[6]) {
			if tok == "nil" {
				ts = append(ts, nil)
				targets = append(targets, reflect.Value{})
				staleTok = append(staleTok, "")
				continue
			}
			p := strings.SplitN(tok, ":", 2)
			if len(p) != 2 {
				return "skipped"
			}
			t, ok := callTypes[p[1]]
			if !ok {
				return "skipped"
			}
			st := ""
			switch p[0] {
			case "p":
				ptr := reflect.New(t)
				if stale {
					if v, ok := staleFor(p[1]); ok {
						ptr.Elem().Set(v)
						st = canonVal(ptr.Elem())
					}
				}
				ts = append(ts, ptr.Interface())
				targets = append(targets, ptr)
			case "np":
				ts = append(ts, reflect.Zero(reflect.PointerTo(t)).Interface())
				targets = append(targets, reflect.Value{})
			case "v":
				if t.Kind() == reflect.Ptr || t.Kind() == reflect.Interface {
					return "skipped"
				}
				ts = append(ts, reflect.Zero(t).Interface())
				targets = append(targets, reflect.Value{})
			default:
				return "skipped"
			}
			staleTok = append(staleTok, st)
		}
		opts = append(opts, bigbuff.CallResults(ts...))
	case "slice":
		toks := listTok(f[6])
		if len(toks) != 1 {
			return "skipped"
		}
		tok := toks[0]
		if tok == "nil" {
			opts = append(opts, bigbuff.CallResultsSlice(nil))
			break
		}
		p := strings.SplitN(tok, ":", 2)
		if len(p) != 2 {
			return "skipped"
		}
		t, ok := callTypes[p[1]]
		if !ok {
			return "skipped"
		}
		switch p[0] {
		case "ps":
			sliceTarget = reflect.New(reflect.SliceOf(t))
			opts = append(opts, bigbuff.CallResultsSlice(sliceTarget.Interface()))
		case "nps":
			opts = append(opts, bigbuff.CallResultsSlice(reflect.Zero(reflect.PointerTo(reflect.SliceOf(t))).Interface()))
		case "pn":
			if t.Kind() == reflect.Slice {
				return "skipped"
			}
			opts = append(opts, bigbuff.CallResultsSlice(reflect.New(t).Interface()))
		case "v":
			if t.Kind() == reflect.Ptr || t.Kind() == reflect.Interface {
				return "skipped"
			}
			opts = append(opts, bigbuff.CallResultsSlice(reflect.Zero(t).Interface()))
		default:
			return "skipped"
		}
	default:
		return "skipped"
	}
	var err error
	panicked := func() (p bool) {
		defer func() {
			if r := recover(); r != nil {
				p = true
			}
		}()
		err = bigbuff.Call(bigbuff.NewCallable(fn.Interface()), opts...)
		return false
	}()
	touched := false
	for i, t := range targets {
		if !t.IsValid() {
			continue
		}
		if i < len(staleTok) && staleTok[i] != "" {
			if canonVal(t.Elem()) != staleTok[i] {
				touched = true
			}
		} else if !t.Elem().IsZero() {
			touched = true
		}
	}
	if sliceTarget.IsValid() && sliceTarget.Elem().Len() != 0 {
		touched = true
	}
	switch {
	case panicked && invoked > 0:
		return "panic invoked"
	case panicked:
		return "panic"
	case err != nil && invoked > 0:
		return "err invoked"
	case err != nil && touched:
		return "err touched"
	case err != nil:
		return "err"
	case invoked != 1:
		return fmt.Sprintf("ok invoked=%d", invoked)
	}
	var stored []string
	switch f[5] {
	case "results":
		for _, t := range targets {
			stored = append(stored, canonVal(t.Elem()))
		}
	case "slice":
		s := sliceTarget.Elem()
		for i := 0; i < s.Len(); i++ {
			stored = append(stored, canonVal(s.Index(i)))
		}
	}
	return fmt.Sprintf("ok passed=[%s] stored=[%s]", strings.Join(passed, ","), strings.Join(stored, ","))
}

func execCallable(t *trace, script []string) {
	shared := argsOptions{}
	for _, line := range script {
		f := strings.Fields(line)
		if len(f) > 0 && f[0] == "call" {
			t.Line(line, callOne(f, shared))
		}
	}
}

var concreteTys = []string{"int", "str", "pint", "sl", "map", "fn", "ch", "named", "perr", "arr"}
var allTys = []string{"int", "str", "any", "err", "pint", "sl", "map", "fn", "ch", "named", "perr", "arr"}

func assignableTok(a, b string) bool { return a == b || b == "any" || (b == "err" && a == "perr") }
func nilableTok(t string) bool       { return t != "int" && t != "str" && t != "named" && t != "arr" }

func genValFor(r *rng.R, param string, wellTyped bool) string {
	// a value token acceptable for param (when wellTyped), or an arbitrary one
	if !wellTyped {
		switch r.Intn(4) {
		case 0:
			return "nil"
		default:
			t := concreteTys[r.Intn(len(concreteTys))]
			if nilableTok(t) && r.Chance(25) {
				return t + "=nil"
			}
			if t == "fn" {
				return "fn=0"
			}
			return fmt.Sprintf("%s=%d", t, r.Intn(9))
		}
	}
	if nilableTok(param) && r.Chance(20) {
		return "nil"
	}
	var cands []string
	for _, t := range concreteTys {
		if assignableTok(t, param) {
			cands = append(cands, t)
		}
	}
	t := cands[r.Intn(len(cands))]
	if nilableTok(t) && r.Chance(15) {
		return t + "=nil"
	}
	if t == "fn" {
		return "fn=0"
	}
	return fmt.Sprintf("%s=%d", t, r.Intn(9))
}

func genCallable(r *rng.R, tier string, i int) []string {
	var s []string
	for j := 0; j < 40; j++ {
		np := r.Intn(4)
		var params []string
		for k := 0; k < np; k++ {
			params = append(params, allTys[r.Intn(len(allTys))])
		}
		variadic := np > 0 && r.Chance(35)
		nr := r.Intn(4)
		var rets, retTys []string
		for k := 0; k < nr; k++ {
			t := allTys[r.Intn(len(allTys))]
			retTys = append(retTys, t)
			v := genValFor(r, t, true)
			if v == "nil" && t != "any" && t != "err" {
				v = t + "=nil"
			}
			rets = append(rets, t+":"+v)
		}
		// arguments
		nargs := np
		if variadic {
			nargs = np - 1 + r.Intn(4)
		}
		wrongLen := r.Chance(12)
		if wrongLen {
			nargs = r.Intn(np + 3)
		}
		wellTyped := !r.Chance(25)
		var args []string
		for k := 0; k < nargs; k++ {
			p := "any"
			if k < np {
				p = params[k]
			}
			if variadic && k >= np-1 && np > 0 {
				p = params[np-1]
			}
			args = append(args, genValFor(r, p, wellTyped))
		}
		mode := []string{"none", "results", "results", "slice"}[r.Intn(4)]
		var targets []string
		switch mode {
		case "results":
			nt := nr
			if r.Chance(12) {
				nt = r.Intn(nr + 2)
			}
			for k := 0; k < nt; k++ {
				rt := "any"
				if k < nr {
					rt = retTys[k]
				}
				switch r.Pick(70, 8, 6, 6, 10) {
				case 0:
					// assignable destination
					if r.Chance(30) {
						targets = append(targets, "p:any")
					} else {
						targets = append(targets, "p:"+rt)
					}
				case 1:
					targets = append(targets, "p:"+allTys[r.Intn(len(allTys))])
				case 2:
					targets = append(targets, "np:"+rt)
				case 3:
					targets = append(targets, "v:"+[]string{"int", "str", "named", "sl", "map"}[r.Intn(5)])
				case 4:
					targets = append(targets, "nil")
				}
			}
		case "slice":
			elem := "any"
			if nr > 0 && r.Chance(50) {
				elem = retTys[0]
			}
			switch r.Pick(70, 8, 8, 6, 8) {
			case 0:
				targets = []string{"ps:" + elem}
			case 1:
				targets = []string{"nps:" + elem}
			case 2:
				targets = []string{"pn:" + []string{"int", "str", "map"}[r.Intn(3)]}
			case 3:
				targets = []string{"v:" + []string{"int", "sl"}[r.Intn(2)]}
			case 4:
				targets = []string{"nil"}
			}
		}
		j := func(a []string) string {
			if len(a) == 0 {
				return "-"
			}
			return strings.Join(a, ",")
		}
		v := "0"
		if variadic {
			v = "1"
		}
		s = append(s, fmt.Sprintf("call %s %s %s %s %s %s", j(params), v, j(rets), j(args), mode, j(targets)))
		if len(args) > 0 && r.Chance(30) {
			// a twin call: the SAME argument list (hence the same CallArgs option value in the harness) with another signature
			p2 := append([]string(nil), params...)
			switch r.Intn(4) {
			case 0:
				if len(p2) > 0 {
					p2 = p2[:len(p2)-1]
				}
			case 1:
				p2 = append(p2, allTys[r.Intn(len(allTys))])
			case 2:
				if len(p2) > 0 {
					p2[r.Intn(len(p2))] = allTys[r.Intn(len(allTys))]
				}
			default:
				for k := range p2 {
					p2[k] = concreteTys[r.Intn(len(concreteTys))]
				}
			}
			s = append(s, fmt.Sprintf("call %s %s %s %s %s %s", j(p2), v, j(rets), j(args), mode, j(targets)))
		}
	}
	return s
}

func init() {
	register(&family{name: "callable", gen: genCallable, exec: execCallable})
}
