package main

import (
	"context"
	"fmt"
	"runtime"
	"strings"
	"sync"
	"sync/atomic"
	"time"

	bigbuff "github.com/joeycumines/go-bigbuff"

	"verifharness/internal/rng"
)

// Driver of the context combinators (C16): CombineContext, ConflatedContext, ChainAfterFunc.
// Observations are taken after quiescence (the AfterFunc callbacks run on their own goroutines):
// the observed value must be stable over several consecutive reads.

type ctxKey string

func stable(read func() string) string {
	last := read()
	same := 0
	deadline := time.Now().Add(stepTimeout)
	for same < 6 && time.Now().Before(deadline) {
		time.Sleep(300 * time.Microsecond)
		runtime.Gosched()
		cur := read()
		if cur == last {
			same++
		} else {
			last, same = cur, 0
		}
	}
	return last
}

// tctx is a context whose FIRST Err() call, while the constructor under test is running, cancels the listed contexts before it
// reads its own state: a cancellation landing at a model-chosen point of the construction (T4 for the context combinators).
type tctx struct {
	context.Context
	used  atomic.Bool
	armed *atomic.Bool
	onErr func()
}

func (c *tctx) Err() error {
	if c.armed.Load() && c.used.CompareAndSwap(false, true) && c.onErr != nil {
		c.onErr()
		// let the callbacks of the contexts just cancelled run BEFORE the constructor goes on (they are goroutines): a hook
		// that fires in the middle of the construction is the interesting case, not one that is still queued when it ends
		time.Sleep(300 * time.Microsecond)
	}
	return c.Context.Err()
}

// hidectx hides the standard library's internal context keys: context.AfterFunc / WithCancel cannot recognise the wrapped
// cancelCtx and fall back to a watcher goroutine on Done(), as they do for any third-party context type.
type hidectx struct{ context.Context }

func (h hidectx) Value(key any) any {
	if _, ok := key.(ctxKey); ok {
		return h.Context.Value(key)
	}
	return nil
}

// parseTrig reads the words after "/": p=1,2 (during the primary's Err) and 3=0,1 (during the Err of position 3)
func parseTrig(ws []string) map[string][]int {
	m := map[string][]int{}
	for _, w := range ws {
		kv := strings.SplitN(w, "=", 2)
		if len(kv) != 2 {
			continue
		}
		if kv[1] == "-" {
			continue
		}
		for _, k := range strings.Split(kv[1], ",") {
			m[kv[0]] = append(m[kv[0]], atoi(k))
		}
	}
	return m
}

func splitSlash(f []string) ([]string, []string) {
	for i, w := range f {
		if w == "/" {
			return f[:i], f[i+1:]
		}
	}
	return f, nil
}

// farDeadline: every other live input (odd positions) is built with a deadline three days away instead of a bare cancel function
func farDeadline(tok, val string) bool {
	return tok == "0" && val != "" && (val[len(val)-1]-'0')%2 == 1 && val[len(val)-1] >= '0' && val[len(val)-1] <= '9'
}

func errBit(c context.Context) string {
	if c.Err() != nil {
		return "err=1"
	}
	return "err=0"
}

func execCtx(t *trace, script []string) {
	base := runtime.NumGoroutine()
	var (
		cancels  []context.CancelFunc // per script-position input (nil for nil inputs)
		primCanc context.CancelFunc
		result   context.Context
		resCanc  context.CancelFunc
		calls    atomic.Int64
		kind     string
		now      string
		all      []context.CancelFunc
	)
	mk := func(tok string, val string) (context.Context, context.CancelFunc) {
		if tok == "n" {
			return nil, nil
		}
		if tok == "d" {
			// already past its deadline: Err() is DeadlineExceeded, not Canceled
			c, cancel := context.WithDeadline(context.WithValue(context.Background(), ctxKey("k"+val), "v"+val), time.Now().Add(-time.Hour))
			all = append(all, cancel)
			return c, cancel
		}
		c, cancel := context.WithCancel(context.WithValue(context.Background(), ctxKey("k"+val), "v"+val))
		if farDeadline(tok, val) {
			// a live input that ALSO has a (distant) deadline: it is still cancelled by its cancel function, long before that
			c, cancel = context.WithDeadline(context.WithValue(context.Background(), ctxKey("k"+val), "v"+val), time.Now().Add(72*time.Hour))
		}
		all = append(all, cancel)
		if tok == "1" {
			cancel()
		}
		return c, cancel
	}
	var armed atomic.Bool
	// inputs of the "t" constructors: n nil, b never-cancellable (Done() == nil), 0 live, 1 already cancelled; each wrapped in a tctx
	mkT := func(tok string, val string) (*tctx, context.CancelFunc) {
		var inner context.Context = context.WithValue(context.Background(), ctxKey("k"+val), "v"+val)
		var cancel context.CancelFunc
		if tok == "d" {
			inner, cancel = context.WithDeadline(inner, time.Now().Add(-time.Hour))
			all = append(all, cancel)
		} else if tok != "b" {
			if farDeadline(tok, val) {
				inner, cancel = context.WithDeadline(inner, time.Now().Add(72*time.Hour))
			} else {
				inner, cancel = context.WithCancel(inner)
			}
			all = append(all, cancel)
			if tok == "1" {
				cancel()
			}
		}
		return &tctx{Context: inner, armed: &armed}, cancel
	}
	for _, line := range script {
		f := strings.Fields(line)
		if len(f) == 0 {
			continue
		}
		r := "skipped"
		switch f[0] {
		case "mkcombinet":
			if len(f) < 2 || kind != "" {
				break
			}
			kind = "combine"
			toks, tw := splitSlash(f[2:])
			trig := parseTrig(tw)
			var prim context.Context
			var primT *tctx
			if f[1] != "n" {
				primT, primCanc = mkT(f[1], "p")
				prim = primT
			}
			var others []context.Context
			var ts []*tctx
			cancels = nil
			for i, tok := range toks {
				if tok == "n" {
					others = append(others, nil)
					ts = append(ts, nil)
					cancels = append(cancels, nil)
					continue
				}
				c, cc := mkT(tok, fmt.Sprint(i))
				others = append(others, c)
				ts = append(ts, c)
				cancels = append(cancels, cc)
			}
			fire := func(ks []int) func() {
				return func() {
					for _, k := range ks {
						if k == len(toks) {
							if primCanc != nil {
								primCanc()
							}
						} else if k >= 0 && k < len(cancels) && cancels[k] != nil {
							cancels[k]()
						}
					}
				}
			}
			if primT != nil {
				primT.onErr = fire(trig["p"])
			}
			for i, c := range ts {
				if c != nil {
					c.onErr = fire(trig[fmt.Sprint(i)])
				}
			}
			armed.Store(true)
			result = bigbuff.CombineContext(prim, others...)
			armed.Store(false)
			now = errBit(result)
			r = stable(func() string { return errBit(result) })
		case "mkconflatedt":
			if len(f) < 2 || kind != "" {
				break
			}
			kind = "conflated"
			toks, tw := splitSlash(f[1:])
			trig := parseTrig(tw)
			var inputs []context.Context
			var ts []*tctx
			cancels = nil
			for i, tok := range toks {
				if tok == "n" {
					tok = "0"
				}
				c, cc := mkT(tok, fmt.Sprint(i))
				inputs = append(inputs, c)
				ts = append(ts, c)
				cancels = append(cancels, cc)
			}
			for i, c := range ts {
				ks := trig[fmt.Sprint(i)]
				c.onErr = func() {
					for _, k := range ks {
						if k >= 0 && k < len(cancels) && cancels[k] != nil {
							cancels[k]()
						}
					}
				}
			}
			armed.Store(true)
			result, resCanc = bigbuff.ConflatedContext(inputs...)
			armed.Store(false)
			r = stable(func() string { return errBit(result) })
		case "chainstorm":
			// n fresh ChainAfterFunc(ctx, other, f) pairs; for each, `other` then `ctx` are cancelled back to back by one goroutine
			// (odd iterations: the other way round; every second pair has a third-party `other`), and f must have been called
			// exactly once when everything has settled: every order of the two hooks is met over the iterations
			if len(f) != 2 || kind != "" {
				break
			}
			kind = "storm"
			n := atoi(f[1])
			var counts []*atomic.Int64
			for k := 0; k < n; k++ {
				o, oc := context.WithCancel(context.Background())
				c, cc := context.WithCancel(context.Background())
				all = append(all, oc, cc)
				var other context.Context = o
				if k%2 == 1 {
					other = hidectx{o}
				}
				cnt := new(atomic.Int64)
				counts = append(counts, cnt)
				bigbuff.ChainAfterFunc(c, other, func() { cnt.Add(1) })
				if k%4 < 2 {
					oc()
					cc()
				} else {
					cc()
					oc()
				}
			}
			r = stable(func() string {
				once, never, twice := 0, 0, 0
				for _, c := range counts {
					switch c.Load() {
					case 0:
						never++
					case 1:
						once++
					default:
						twice++
					}
				}
				return fmt.Sprintf("once=%d never=%d twice=%d", once, never, twice)
			})
		case "mkchain", "mkchainw":
			if len(f) != 3 || kind != "" {
				break
			}
			kind = "chain"
			other, oc := mk(f[1], "o")
			ctx, cc := mk(f[2], "c")
			if f[0] == "mkchainw" {
				// `other` is not a standard-library context: its AfterFunc hook is run by a watcher goroutine, so the gap between
				// "other is cancelled" and "its hook has fired" is wide (both cancelled "at once" then meets every order)
				other = hidectx{other}
			}
			cancels = []context.CancelFunc{oc, cc}
			bigbuff.ChainAfterFunc(ctx, other, func() { calls.Add(1) })
			r = stable(func() string { return fmt.Sprintf("calls=%d", calls.Load()) })
		case "cancel":
			if kind != "chain" || len(f) != 2 {
				break
			}
			switch f[1] {
			case "other":
				cancels[0]()
			case "ctx":
				cancels[1]()
			default:
				var wg sync.WaitGroup
				start := make(chan struct{})
				for _, c := range cancels {
					wg.Add(1)
					go func(c context.CancelFunc) { defer wg.Done(); <-start; c() }(c)
				}
				close(start)
				wg.Wait()
			}
			r = stable(func() string { return fmt.Sprintf("calls=%d", calls.Load()) })
		case "mkcombine":
			if len(f) < 2 || kind != "" {
				break
			}
			kind = "combine"
			var prim context.Context
			prim, primCanc = mk(f[1], "p")
			var others []context.Context
			cancels = nil
			for i, tok := range f[2:] {
				c, cc := mk(tok, fmt.Sprint(i))
				others = append(others, c)
				cancels = append(cancels, cc)
			}
			result = bigbuff.CombineContext(prim, others...)
			now = errBit(result)
			r = stable(func() string { return errBit(result) })
		case "cancelp":
			if kind != "combine" {
				break
			}
			if primCanc != nil {
				primCanc()
			}
			r = stable(func() string { return errBit(result) })
		case "cancelo":
			if kind != "combine" || len(f) != 2 {
				break
			}
			if i := atoi(f[1]); i >= 0 && i < len(cancels) && cancels[i] != nil {
				cancels[i]()
			}
			r = stable(func() string { return errBit(result) })
		case "cancel2":
			if (kind != "combine" && kind != "conflated") || len(f) != 3 {
				break
			}
			var wg sync.WaitGroup
			start := make(chan struct{})
			for _, s := range f[1:] {
				if i := atoi(s); i >= 0 && i < len(cancels) && cancels[i] != nil {
					wg.Add(1)
					go func(c context.CancelFunc) { defer wg.Done(); <-start; c() }(cancels[i])
				}
			}
			close(start)
			wg.Wait()
			r = stable(func() string { return errBit(result) })
		case "value":
			switch kind {
			case "combine":
				// carries the primary's values (a nil primary is context.Background: no values)
				r = "primary"
				if primCanc != nil && result.Value(ctxKey("kp")) != "vp" {
					r = "missing-primary-value"
				}
			case "conflated":
				r = "first"
				if result.Value(ctxKey("k0")) != "v0" {
					r = "missing-first-value"
				}
				for i := 1; i < len(cancels); i++ {
					if result.Value(ctxKey(fmt.Sprint("k", i))) != nil {
						r = "foreign-value"
					}
				}
			}
		case "mkconflated":
			if len(f) < 2 || kind != "" {
				break
			}
			kind = "conflated"
			var inputs []context.Context
			cancels = nil
			for i, tok := range f[1:] {
				if tok == "n" {
					tok = "0"
				}
				c, cc := mk(tok, fmt.Sprint(i))
				inputs = append(inputs, c)
				cancels = append(cancels, cc)
			}
			result, resCanc = bigbuff.ConflatedContext(inputs...)
			r = stable(func() string { return errBit(result) })
		case "canceli":
			if kind != "conflated" || len(f) != 2 {
				break
			}
			if i := atoi(f[1]); i >= 0 && i < len(cancels) && cancels[i] != nil {
				cancels[i]()
			}
			r = stable(func() string { return errBit(result) })
		case "cancelfn":
			if kind != "conflated" {
				break
			}
			resCanc()
			r = stable(func() string { return errBit(result) })
		case "final":
			for _, c := range all {
				c()
			}
			if resCanc != nil {
				resCanc()
			}
			r = stable(func() string {
				n := runtime.NumGoroutine() - base
				if n < 0 {
					n = 0
				}
				return fmt.Sprintf("goroutines=%d", n)
			})
		}
		t.Line(line, r)
		if now != "" {
			// what the result said at the very moment the constructor returned (a pre-check that saw a finished input must
			// hand back an ALREADY finished context, not one that is cancelled a moment later by a callback)
			t.Line("now "+strings.TrimPrefix(now, "err="), "ok")
			now = ""
		}
	}
	for _, c := range all {
		c()
	}
	if resCanc != nil {
		resCanc()
	}
}

func genCtx(r *rng.R, tier string, i int) []string {
	var s []string
	tok := func() string {
		switch r.Pick(70, 12, 10, 8) {
		case 0:
			return "0"
		case 1:
			return "1"
		case 3:
			return "d"
		}
		return "n"
	}
	ttok := func() string { return []string{"0", "0", "0", "0", "0", "0", "0", "0", "1", "d", "n", "b", "b"}[r.Intn(13)] }
	trigs := func(n int, withP bool) string {
		out := " /"
		if withP && r.Intn(3) == 0 {
			out += fmt.Sprintf(" p=%d", r.Intn(n+1))
		}
		// mostly a position that was scanned already: the cancellation lands between its pre-check and its registration
		target := func(j int) int {
			if j > 0 && r.Intn(10) < 7 {
				return r.Intn(j)
			}
			return r.Intn(n + 1)
		}
		for j := 0; j < n; j++ {
			if r.Intn(2) == 0 {
				out += fmt.Sprintf(" %d=%d", j, target(j))
				if r.Intn(4) == 0 {
					out += fmt.Sprintf(",%d", target(j))
				}
			}
		}
		return out
	}
	if i%20 == 10 {
		return []string{"chainstorm 150", "final"}
	}
	switch i % 5 {
	case 3:
		n := 2 + r.Intn(3)
		line := "mkcombinet " + []string{"0", "0", "0", "1", "n", "b"}[r.Intn(6)]
		for k := 0; k < n; k++ {
			line += " " + ttok()
		}
		s = append(s, line+trigs(n, true), "value")
		steps := r.Intn(4)
		for k := 0; k < steps; k++ {
			switch r.Pick(25, 55, 20) {
			case 0:
				s = append(s, "cancelp")
			case 1:
				s = append(s, fmt.Sprintf("cancelo %d", r.Intn(n+1)))
			case 2:
				s = append(s, fmt.Sprintf("cancel2 %d %d", r.Intn(n+1), r.Intn(n+1)))
			}
		}
	case 4:
		n := 1 + r.Intn(4)
		line := "mkconflatedt"
		for k := 0; k < n; k++ {
			line += " " + []string{"0", "0", "0", "1", "b"}[r.Intn(5)]
		}
		s = append(s, line+trigs(n, false), "value")
		order := make([]int, n)
		for k := range order {
			order[k] = k
		}
		for k := n - 1; k > 0; k-- {
			j := r.Intn(k + 1)
			order[k], order[j] = order[j], order[k]
		}
		for _, id := range order {
			switch r.Pick(75, 10, 15) {
			case 0:
				s = append(s, fmt.Sprintf("canceli %d", id))
			case 1:
				s = append(s, "cancelfn")
			case 2:
				s = append(s, fmt.Sprintf("cancel2 %d %d", id, r.Intn(n)))
			}
		}
	case 0:
		s = append(s, fmt.Sprintf("%s %d %d", []string{"mkchain", "mkchainw", "mkchainw"}[r.Intn(3)], r.Pick(85, 15), r.Pick(85, 15)))
		ops := []string{"cancel other", "cancel ctx", "cancel both"}
		n := 1 + r.Intn(3)
		for k := 0; k < n; k++ {
			s = append(s, ops[r.Intn(3)])
		}
	case 1:
		n := r.Intn(5)
		line := "mkcombine " + []string{"0", "0", "0", "1", "n", "d"}[r.Intn(6)]
		for k := 0; k < n; k++ {
			line += " " + tok()
		}
		s = append(s, line, "value")
		steps := 1 + r.Intn(4)
		for k := 0; k < steps; k++ {
			switch r.Pick(25, 55, 20) {
			case 0:
				s = append(s, "cancelp")
			case 1:
				s = append(s, fmt.Sprintf("cancelo %d", r.Intn(n+1)))
			case 2:
				s = append(s, fmt.Sprintf("cancel2 %d %d", r.Intn(n+1), r.Intn(n+1)))
			}
		}
	case 2:
		n := 1 + r.Intn(4)
		line := "mkconflated"
		for k := 0; k < n; k++ {
			line += " " + []string{"0", "0", "0", "1", "d"}[r.Intn(5)]
		}
		s = append(s, line, "value")
		order := make([]int, n)
		for k := range order {
			order[k] = k
		}
		for k := n - 1; k > 0; k-- {
			j := r.Intn(k + 1)
			order[k], order[j] = order[j], order[k]
		}
		for _, id := range order {
			switch r.Pick(75, 10, 15) {
			case 0:
				s = append(s, fmt.Sprintf("canceli %d", id))
			case 1:
				s = append(s, "cancelfn")
			case 2:
				s = append(s, fmt.Sprintf("cancel2 %d %d", id, r.Intn(n)))
			}
		}
	}
	s = append(s, "final")
	return s
}

func init() {
	register(&family{name: "ctx", gen: genCtx, exec: execCtx})
}
