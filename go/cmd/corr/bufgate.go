package main

import (
	"context"
	"fmt"
	"strings"
	"time"

	bigbuff "github.com/joeycumines/go-bigbuff"

	"verifharness/internal/gate"
	"verifharness/internal/hk"
	"verifharness/internal/rng"
)

// Forced-schedule (T4) driver of a blocking consumer.Get on a real Buffer (C05, C01, C12): an event
// (Put, cancellation of the Get context, Buffer.Close, consumer.Close) is placed in a chosen window:
//
//	before  before Get is called
//	locked  Get holds the consumer mutex, before the synchronous attempt
//	spawn   the synchronous attempt found nothing (read lock still held), before the waiter goroutine is spawned
//	start   the waiter goroutine exists but has not taken the write lock yet
//	wait    the waiter evaluated get() (nothing) under the write lock and is about to park in cond.Wait
//	parked  the waiter is parked
//
// script line: bg <put|cancel|closebuf|closecons> <window>   result: first=<...> next=<...>
const hangTimeout = 1200 * time.Millisecond

func bgOne(event, window string) string {
	b := new(bigbuff.Buffer)
	defer func() { go b.Close() }()
	if err := b.SetCleanerConfig(bigbuff.CleanerConfig{Cleaner: func(int, []int) int { return 0 }, Cooldown: 0}); err != nil {
		return "setup-error"
	}
	c, err := b.NewConsumer()
	if err != nil {
		return "setup-error"
	}
	ctx, cancel := context.WithCancel(context.Background())
	defer cancel()
	var pending []func()
	fire := func() {
		switch event {
		case "put":
			done := make(chan struct{})
			go func() { defer close(done); b.Put(context.Background(), 1) }()
			pending = append(pending, func() { <-done })
		case "cancel":
			cancel()
		case "closebuf":
			go b.Close()
		case "closecons":
			go c.Close()
		}
	}
	isC := func(e hk.Event) bool { return e.Obj == any(c) }
	var g *gate.Gate
	switch window {
	case "locked":
		g = gate.Arm("cons.get.locked", isC)
	case "spawn":
		g = gate.Arm("buf.async.spawn", isC)
	case "start":
		g = gate.Arm("buf.async.start", isC)
	case "wait", "parked":
		// the waiter goroutine of this consumer, at its first wc.wait
		var waiterG int64
		rm := hk.On(func(e hk.Event) {
			if e.Name == "buf.async.locked" && e.Obj == any(c) {
				waiterG = e.G
			}
		})
		defer rm()
		g = gate.Arm("wc.wait", func(e hk.Event) bool { return e.G == waiterG && waiterG != 0 })
	}
	if window == "before" {
		fire()
		for _, w := range pending {
			w()
		}
		pending = nil
		time.Sleep(300 * time.Microsecond)
	}
	type res struct {
		v   interface{}
		err error
	}
	out := make(chan res, 1)
	go func() { v, err := c.Get(ctx); out <- res{v, err} }()
	if g != nil {
		if g.Wait(gateTimeout) {
			if window == "parked" {
				g.Release()
				time.Sleep(2 * time.Millisecond)
				fire()
			} else {
				fire()
				time.Sleep(500 * time.Microsecond) // let the event's goroutine reach the lock it needs
				g.Release()
			}
		} else {
			g.Release()
		}
	}
	canon := func(r res) string {
		if r.err != nil {
			return strings.ReplaceAll(canonErr(r.err), " ", ":")
		}
		return fmt.Sprintf("val:%d", r.v.(int))
	}
	first := "hang"
	select {
	case r := <-out:
		first = canon(r)
	case <-time.After(hangTimeout):
		cancel()
		select {
		case <-out:
		case <-time.After(gateTimeout):
		}
	}
	if event == "closecons" {
		// Close can only proceed once no Get holds the consumer mutex; wait for it so that the next phase is deterministic
		select {
		case <-c.Done():
		case <-time.After(gateTimeout):
		}
	}
	for _, w := range pending {
		w()
	}
	// a failed Get consumed nothing: the next successful Get returns the first unread value
	putErr := b.Put(context.Background(), 99)
	ctx2, cancel2 := context.WithTimeout(context.Background(), gateTimeout)
	defer cancel2()
	v, err := c.Get(ctx2)
	next := canon(res{v, err})
	_ = putErr
	c.Rollback()
	return fmt.Sprintf("first=%s next=%s", first, next)
}

// capWake: n consumers of a buffer capped at ONE value (FixedBufferCleaner(1, 1)) have read "x" without committing and are parked
// in a second Get; one Put("y") follows.  The Put takes the buffer over its cap, the cleaner trims one value, and the buffer has
// the same length as before — but a different content: every parked Get must return y (a wake-up must not be filtered by
// "the size did not change").
func capWake(n int) string {
	b := new(bigbuff.Buffer)
	defer func() { go b.Close() }()
	if err := b.SetCleanerConfig(bigbuff.CleanerConfig{Cleaner: bigbuff.FixedBufferCleaner(1, 1, nil), Cooldown: 0}); err != nil {
		return "setup-error"
	}
	bg := context.Background()
	var cons []bigbuff.Consumer
	for i := 0; i < n; i++ {
		c, err := b.NewConsumer()
		if err != nil {
			return "setup-error"
		}
		cons = append(cons, c)
	}
	b.Put(bg, 1)
	for _, c := range cons {
		if v, err := c.Get(bg); err != nil || v != 1 {
			return "setup-error"
		}
	}
	parked := make(chan struct{}, 64)
	rm := hk.On(func(e hk.Event) {
		if e.Name == "buf.get.pending" {
			select {
			case parked <- struct{}{}:
			default:
			}
		}
	})
	defer rm()
	type res struct {
		v   interface{}
		err error
	}
	out := make(chan res, n)
	ctx, cancel := context.WithCancel(bg)
	defer cancel()
	for _, c := range cons {
		c := c
		go func() { v, err := c.Get(ctx); out <- res{v, err} }()
	}
	// every Get has evaluated "nothing there" at least once (sync attempt and/or waiter)
	for i := 0; i < n; i++ {
		select {
		case <-parked:
		case <-time.After(hangTimeout):
			return "gets-never-parked"
		}
	}
	time.Sleep(2 * time.Millisecond)
	b.Put(bg, 2)
	got, hung := 0, 0
	deadline := time.After(hangTimeout)
	for i := 0; i < n; i++ {
		select {
		case r := <-out:
			if r.err == nil && r.v == 2 {
				got++
			}
		case <-deadline:
			hung = n - i
			i = n
		}
	}
	cancel()
	return fmt.Sprintf("woken=%d hung=%d", got, hung)
}

// nilWake: values are interface{} and nil is one of them. A Get parked on an empty buffer is woken by Put(nil) and returns it;
// nil values in the middle of a batch are read in their place like any other value.
func nilWake(parkFirst bool) string {
	b := new(bigbuff.Buffer)
	defer func() { go b.Close() }()
	bg := context.Background()
	c, err := b.NewConsumer()
	if err != nil {
		return "setup-error"
	}
	show := func(v interface{}, err error) string {
		if err != nil {
			return "err:" + strings.ReplaceAll(canonErr(err), " ", "_")
		}
		if v == nil {
			return "nil"
		}
		return fmt.Sprint(v)
	}
	get := func() string {
		ctx, cancel := context.WithTimeout(bg, hangTimeout)
		defer cancel()
		v, err := c.Get(ctx)
		if err != nil && ctx.Err() != nil {
			return "hang"
		}
		return show(v, err)
	}
	first := ""
	if parkFirst {
		parked := make(chan struct{}, 8)
		rm := hk.On(func(e hk.Event) {
			if e.Name == "buf.get.pending" {
				select {
				case parked <- struct{}{}:
				default:
				}
			}
		})
		out := make(chan string, 1)
		go func() { out <- get() }()
		select {
		case <-parked:
		case <-time.After(hangTimeout):
			rm()
			return "gets-never-parked"
		}
		rm()
		time.Sleep(time.Millisecond)
		b.Put(bg, nil)
		first = <-out
	} else {
		b.Put(bg, nil)
		first = get()
	}
	if err := c.Commit(); err != nil {
		return "woke=" + first + " commit-error"
	}
	b.Put(bg, 1, nil, 2)
	var reads []string
	for i := 0; i < 3; i++ {
		reads = append(reads, get())
	}
	return "woke=" + first + " reads=" + strings.Join(reads, ",")
}

func execBufGate(t *trace, script []string) {
	for _, line := range script {
		f := strings.Fields(line)
		if len(f) == 3 && f[0] == "bg" {
			t.Line(line, bgOne(f[1], f[2]))
		}
		if len(f) == 2 && f[0] == "capwake" {
			t.Line(line, capWake(atoi(f[1])))
		}
		if len(f) == 2 && f[0] == "nilwake" {
			t.Line(line, nilWake(f[1] == "parked"))
		}
	}
}

func genBufGate(r *rng.R, tier string, i int) []string {
	var s []string
	for _, e := range []string{"put", "cancel", "closebuf", "closecons"} {
		for _, w := range []string{"before", "locked", "spawn", "start", "wait", "parked"} {
			s = append(s, fmt.Sprintf("bg %s %s", e, w))
		}
	}
	for k := 0; k < 3; k++ {
		s = append(s, fmt.Sprintf("capwake %d", 2+r.Intn(4)))
	}
	s = append(s, "nilwake parked", "nilwake sync")
	for k := len(s) - 1; k > 0; k-- {
		j := r.Intn(k + 1)
		s[k], s[j] = s[j], s[k]
	}
	return s
}

func init() {
	register(&family{name: "bufgate", gen: genBufGate, exec: execBufGate})
}
