package main

import (
	"context"
	"fmt"
	"strings"
	"sync/atomic"
	"time"

	bigbuff "github.com/joeycumines/go-bigbuff"

	"verifharness/internal/gate"
	"verifharness/internal/hk"
	"verifharness/internal/rng"
)

// Forced-schedule (T4) driver of the Buffer's reclamation (C04): the LAST state change (a commit, or the
// close of the slowest consumer) is placed relative to the cleaner's cooldown, and then NOTHING else
// happens; the buffer must shrink to the backlog of the slowest open consumer.
//
//	idle      no cooldown running (cooldown 0, or the previous one has expired)
//	cooldown  during a running cooldown (the change is flagged and re-broadcast when the timer fires)
//	held      during a cooldown, with the cleanup goroutine HELD between "recorded the pending change" and
//	          "parked in cond.Wait" until the timer has fired  (the window of finding F1)
//
// script line: reclaim <cooldownMs> <commit|close> <window> [parked]     result: size=<n> backlog=<n>
// `parked` further consumers have committed everything and sit in a blocking Get at the end of the buffer, i.e.
// they wait on the same condition variable as the cleanup goroutine (a wake-up meant for the cleaner must not be
// consumed by one of them).
func reclaimOne(cooldownMs int, event, window string, parked int) string {
	b := new(bigbuff.Buffer)
	defer func() { go b.Close() }()
	cooldown := time.Duration(cooldownMs) * time.Millisecond
	var cgG atomic.Int64
	rm := hk.On(func(e hk.Event) {
		if (e.Name == "buf.cleanup.evaluated" || e.Name == "buf.cleanup.flagged") && e.Obj == any(b) {
			cgG.Store(e.G)
		}
	})
	defer rm()
	if err := b.SetCleanerConfig(bigbuff.CleanerConfig{Cleaner: bigbuff.DefaultCleaner, Cooldown: cooldown}); err != nil {
		return "setup-error"
	}
	fast, _ := b.NewConsumer()
	slow, _ := b.NewConsumer()
	ctx := context.Background()
	b.Put(ctx, 1, 2, 3)
	for i := 0; i < 3; i++ {
		fast.Get(ctx)
		slow.Get(ctx)
	}
	pctx, pcancel := context.WithCancel(ctx)
	defer pcancel()
	var parkedCs []bigbuff.Consumer
	for i := 0; i < parked; i++ {
		p, _ := b.NewConsumer()
		parkedCs = append(parkedCs, p)
		for k := 0; k < 3; k++ {
			p.Get(ctx)
		}
		p.Commit()
		go func() {
			if _, err := p.Get(pctx); err == nil {
				p.Commit()
			}
		}()
	}
	if parked > 0 {
		time.Sleep(2 * time.Millisecond) // let them park
	}
	fast.Commit()
	// the prefix is now held by `slow` (3 uncommitted reads); let the initial default cooldown (10ms) and any
	// running cooldown expire so that the cleaner is idle and uses our config
	time.Sleep(cooldown + 25*time.Millisecond)
	finalEvent := func() {
		if event == "commit" {
			slow.Commit()
		} else {
			slow.Rollback()
			slow.Close()
		}
	}
	fired := make(chan struct{}, 4)
	rmF := hk.On(func(e hk.Event) {
		if e.Name == "buf.timer.fired" && e.Obj == any(b) {
			select {
			case fired <- struct{}{}:
			default:
			}
		}
	})
	defer rmF()
	switch window {
	case "idle":
		finalEvent()
	case "cooldown", "held":
		// start a cooldown with an operation that changes nothing reclaimable, then act inside it
		b.Put(ctx)
		time.Sleep(time.Duration(cooldownMs) * time.Millisecond / 4)
		var g *gate.Gate
		if window == "held" {
			// hold the cleanup goroutine at its next wc.wait (after it has flagged the change)
			g = gate.Arm("wc.wait", func(e hk.Event) bool { return e.G == cgG.Load() && cgG.Load() != 0 })
		}
		for len(fired) > 0 {
			<-fired
		}
		finalEvent()
		if g != nil {
			if g.Wait(gateTimeout) {
				// wait until the cooldown timer has fired while the cleanup goroutine is still held
				select {
				case <-fired:
				case <-time.After(cooldown*2 + 500*time.Millisecond):
				}
				time.Sleep(2 * time.Millisecond) // give an unsynchronised re-broadcast the chance to happen now
			}
			g.Release()
		}
	}
	// nothing else happens; the prefix must be reclaimed
	deadline := time.Now().Add(cooldown*3 + 1500*time.Millisecond)
	size := b.Size()
	for size != 0 && time.Now().Before(deadline) {
		time.Sleep(time.Millisecond)
		size = b.Size()
	}
	pcancel()
	for _, p := range parkedCs {
		go p.Close()
	}
	fast.Close()
	slow.Rollback()
	slow.Close()
	return fmt.Sprintf("size=%d backlog=0", size)
}

// busyOne: a consumer keeps up with a producer that never pauses for as long as the cooldown (Put/Get/Commit every ~0.3 ms for five
// cooldowns).  The cooldown is a minimum distance between cleanups, not a quiet period to wait for: at every expiry the pending
// change is re-broadcast and the consumed prefix reclaimed, so several cleanups must be seen while the activity lasts.
func busyOne(cooldownMs int) string {
	b := new(bigbuff.Buffer)
	defer func() { go b.Close() }()
	if err := b.SetCleanerConfig(bigbuff.CleanerConfig{Cleaner: bigbuff.DefaultCleaner, Cooldown: time.Duration(cooldownMs) * time.Millisecond}); err != nil {
		return "setup-error"
	}
	time.Sleep(15 * time.Millisecond) // the lazily installed default cooldown (10 ms) has expired
	c, err := b.NewConsumer()
	if err != nil {
		return "setup-error"
	}
	defer c.Close()
	var cleans atomic.Int64
	rm := hk.On(func(e hk.Event) {
		if e.Name == "buf.clean" && e.Obj == any(b) && e.N > 0 {
			cleans.Add(1)
		}
	})
	defer rm()
	bg := context.Background()
	end := time.Now().Add(time.Duration(5*cooldownMs) * time.Millisecond)
	maxSize := 0
	for k := 0; time.Now().Before(end); k++ {
		b.Put(bg, k)
		if _, err := c.Get(bg); err != nil {
			return "get-error"
		}
		c.Commit()
		if n := b.Size(); n > maxSize {
			maxSize = n
		}
		time.Sleep(300 * time.Microsecond)
	}
	ok := 0
	if cleans.Load() >= 2 {
		ok = 1
	}
	return fmt.Sprintf("reclaimed_during_activity=%d", ok)
}

// fixedBehind: FixedBufferCleaner(4, 4): Put 1..4, four uncommitted Gets, Put 5 (forced trim to [2 3 4 5]: the head moves PAST the
// consumer's committed offset), then Commit: the only consumer has now consumed [2 3 4], which must be reclaimed without any further
// operation (a commit by a consumer that is behind the head is a state change like any other).
func fixedBehind(cooldownMs int) string {
	b := new(bigbuff.Buffer)
	defer func() { go b.Close() }()
	if err := b.SetCleanerConfig(bigbuff.CleanerConfig{Cleaner: bigbuff.FixedBufferCleaner(4, 4, nil), Cooldown: time.Duration(cooldownMs) * time.Millisecond}); err != nil {
		return "setup-error"
	}
	time.Sleep(15 * time.Millisecond)
	c, err := b.NewConsumer()
	if err != nil {
		return "setup-error"
	}
	defer c.Close()
	bg := context.Background()
	b.Put(bg, 1, 2, 3, 4)
	for i := 0; i < 4; i++ {
		if _, err := c.Get(bg); err != nil {
			return "get-error"
		}
	}
	b.Put(bg, 5)
	deadline := time.Now().Add(time.Second)
	for b.Size() != 4 && time.Now().Before(deadline) {
		time.Sleep(200 * time.Microsecond)
	}
	if b.Size() != 4 {
		return fmt.Sprintf("not-trimmed size=%d", b.Size())
	}
	if err := c.Commit(); err != nil {
		return "commit-error"
	}
	deadline = time.Now().Add(time.Duration(3*cooldownMs)*time.Millisecond + time.Second)
	for b.Size() != 1 && time.Now().Before(deadline) {
		time.Sleep(200 * time.Microsecond)
	}
	return fmt.Sprintf("size=%d", b.Size())
}

// fixedNoConsumers: the forced trim of FixedBufferCleaner does not depend on anybody reading: with NO consumer registered (none yet,
// or the last one closed) a buffer that grows past max is cut back to target at the next evaluation.
func fixedNoConsumers(cooldownMs int, afterClose bool) string {
	b := new(bigbuff.Buffer)
	defer func() { go b.Close() }()
	if err := b.SetCleanerConfig(bigbuff.CleanerConfig{Cleaner: bigbuff.FixedBufferCleaner(10, 4, nil), Cooldown: time.Duration(cooldownMs) * time.Millisecond}); err != nil {
		return "setup-error"
	}
	bg := context.Background()
	if afterClose {
		c, err := b.NewConsumer()
		if err != nil {
			return "setup-error"
		}
		b.Put(bg, 1, 2)
		c.Get(bg)
		c.Commit()
		if c.Close() != nil {
			return "setup-error"
		}
	}
	for i := 0; i < 45; i++ {
		b.Put(bg, 100+i)
	}
	deadline := time.Now().Add(time.Duration(3*cooldownMs)*time.Millisecond + time.Second)
	for b.Size() > 10 && time.Now().Before(deadline) {
		time.Sleep(200 * time.Microsecond)
	}
	return fmt.Sprintf("size_le_max=%v", b.Size() <= 10)
}

func execCleanGate(t *trace, script []string) {
	for _, line := range script {
		f := strings.Fields(line)
		if len(f) == 3 && f[0] == "fixednocons" {
			t.Line(line, fixedNoConsumers(atoi(f[1]), f[2] == "1"))
			continue
		}
		if len(f) == 2 && f[0] == "busy" {
			t.Line(line, busyOne(atoi(f[1])))
			continue
		}
		if len(f) == 2 && f[0] == "fixedbehind" {
			t.Line(line, fixedBehind(atoi(f[1])))
			continue
		}
		if len(f) == 4 && f[0] == "reclaim" {
			t.Line(line, reclaimOne(atoi(f[1]), f[2], f[3], 0))
		} else if len(f) == 5 && f[0] == "reclaim" {
			t.Line(line, reclaimOne(atoi(f[1]), f[2], f[3], atoi(f[4])))
		}
	}
}

func genCleanGate(r *rng.R, tier string, i int) []string {
	var s []string
	for _, cd := range []int{0, 20} {
		for _, e := range []string{"commit", "close"} {
			for _, w := range []string{"idle", "cooldown", "held"} {
				if cd == 0 && w != "idle" {
					continue
				}
				s = append(s, fmt.Sprintf("reclaim %d %s %s", cd, e, w))
				if w != "held" {
					s = append(s, fmt.Sprintf("reclaim %d %s %s %d", cd, e, w, 1+r.Intn(4)))
				}
			}
		}
	}
	s = append(s, fmt.Sprintf("busy %d", 40+r.Intn(30)), "fixedbehind 0", "fixedbehind 10", "fixednocons 0 0", "fixednocons 10 1")
	for k := len(s) - 1; k > 0; k-- {
		j := r.Intn(k + 1)
		s[k], s[j] = s[j], s[k]
	}
	return s
}

func init() {
	register(&family{name: "cleangate", gen: genCleanGate, exec: execCleanGate})
}
