package main

import (
	"context"
	"errors"
	"fmt"
	"strings"
	"sync"
	"sync/atomic"
	"time"

	bigbuff "github.com/joeycumines/go-bigbuff"

	"verifharness/internal/hk"
	"verifharness/internal/rng"
)

// Sequential (T2) driver of Channel (C13).  A Get that finds nothing is detected through the
// "chan.poll.empty" hook point, then its context is cancelled.

func execChannel(t *trace, script []string) {
	src := make(chan int, 256)
	parent, cancelParent := context.WithCancel(context.Background())
	defer cancelParent()
	c, err := bigbuff.NewChannel(parent, time.Millisecond, src)
	if err != nil {
		t.Line("!new", err.Error())
		return
	}
	empty := make(chan struct{}, 4)
	var polls atomic.Int64 // number of polls (critical sections of Get) that found nothing
	rm := hk.On(func(e hk.Event) {
		if e.Name == "chan.poll.empty" && e.Obj == any(c) {
			polls.Add(1)
			select {
			case empty <- struct{}{}:
			default:
			}
		}
	})
	defer rm()
	// a Get left blocked by "bget" (it keeps polling while the following operations run)
	type res struct {
		v   interface{}
		err error
	}
	var (
		pendCh     chan res
		pendCancel context.CancelFunc
	)
	// after an operation: has the blocked Get returned?  It is still blocked only if two further polls found nothing
	// (the second one began after the operation had completed).
	pendResult := func() string {
		base := polls.Load()
		deadline := time.After(stepTimeout)
		for {
			select {
			case out := <-pendCh:
				pendCh = nil
				pendCancel()
				if out.err == nil {
					return fmt.Sprintf("val %d", out.v.(int))
				}
				return canonErr(out.err)
			case <-deadline:
				return "timeout"
			case <-time.After(200 * time.Microsecond):
				if polls.Load() >= base+2 {
					return "pending"
				}
			}
		}
	}
	srcClosed := false
	state := func() string {
		b, r := bigbuff.VerifChannelState(c)
		return fmt.Sprintf("buf=%d rb=%d", b, r)
	}
	for _, line := range script {
		f := strings.Fields(line)
		if len(f) == 0 {
			continue
		}
		r := "skipped"
		switch f[0] {
		case "send":
			if !srcClosed && len(src) < cap(src) && len(f) == 2 {
				src <- atoi(f[1])
				r = "ok"
			}
		case "closesrc":
			if !srcClosed {
				close(src)
				srcClosed = true
				r = "ok"
			}
		case "bget":
			// a Get that is left blocked (polling) while the next operations run; resolved by "bgetres" lines
			if pendCh != nil {
				break
			}
			for len(empty) > 0 {
				<-empty
			}
			ctx, cancel := context.WithCancel(context.Background())
			ch := make(chan res, 1)
			go func() { v, err := c.Get(ctx); ch <- res{v, err} }()
			select {
			case out := <-ch:
				cancel()
				if out.err == nil {
					r = fmt.Sprintf("val %d", out.v.(int))
				} else {
					r = canonErr(out.err)
				}
			case <-empty:
				pendCh, pendCancel = ch, cancel
				r = "pending"
			case <-time.After(stepTimeout):
				cancel()
				r = "timeout"
			}
		case "get":
			if pendCh != nil {
				break
			}
			for len(empty) > 0 {
				<-empty
			}
			ctx, cancel := context.WithCancel(context.Background())
			ch := make(chan res, 1)
			go func() { v, err := c.Get(ctx); ch <- res{v, err} }()
			blocked := false
			var out res
			deadline := time.After(stepTimeout)
		loop:
			for {
				select {
				case out = <-ch:
					break loop
				case <-empty:
					blocked = true
					cancel()
				case <-deadline:
					cancel()
					out = res{nil, errors.New("timeout")}
					break loop
				}
			}
			cancel()
			switch {
			case out.err == nil:
				r = fmt.Sprintf("val %d", out.v.(int))
			case blocked && errors.Is(out.err, context.Canceled):
				r = "blocked"
			default:
				r = canonErr(out.err)
			}
		case "pget":
			// n values are queued, then four goroutines Get concurrently until n values have been taken: whatever goroutine takes
			// which value, the Channel's buffer must hold them in source order (taking a value and recording it is one step)
			if pendCh != nil || srcClosed || len(f) != 2 {
				break
			}
			n := atoi(f[1])
			if len(src)+n > cap(src) {
				break
			}
			for i := 0; i < n; i++ {
				src <- 7000 + i
			}
			var left atomic.Int64
			left.Store(int64(n))
			var wg sync.WaitGroup
			failed := atomic.Bool{}
			for g := 0; g < 4; g++ {
				wg.Add(1)
				go func() {
					defer wg.Done()
					for left.Add(-1) >= 0 {
						ctx, cancel := context.WithTimeout(context.Background(), stepTimeout)
						if _, err := c.Get(ctx); err != nil {
							failed.Store(true)
						}
						cancel()
					}
				}()
			}
			wg.Wait()
			b := c.Buffer()
			a := make([]int, len(b))
			for i, v := range b {
				a[i] = v.(int)
			}
			r = "buf " + fmtInts(a)
			if failed.Load() {
				r = "get-failed " + fmtInts(a)
			}
		case "getflip":
			// Get with a context that is cancelled right after the up-front check saw it live: the Get may return a value or the
			// context's error, but a Get that fails must not have taken anything (from the source or from the replay buffer)
			if pendCh != nil {
				break
			}
			ch := make(chan res, 1)
			go func() { v, err := c.Get(newFlipCtx()); ch <- res{v, err} }()
			select {
			case out := <-ch:
				if out.err == nil {
					line, r = fmt.Sprintf("getflipres val %d", out.v.(int)), "ok"
				} else {
					line, r = "getflipres err", "ok"
				}
			case <-time.After(stepTimeout):
				r = "timeout"
			}
		case "commit":
			r = canonErr(c.Commit())
		case "rollback":
			r = canonErr(c.Rollback())
		case "buffer":
			b := c.Buffer()
			a := make([]int, len(b))
			for i, v := range b {
				a[i] = v.(int)
			}
			r = fmtInts(a)
		case "close":
			r = canonErr(c.Close())
		case "cancel":
			cancelParent()
			select {
			case <-c.Done():
				r = "ok"
			case <-time.After(stepTimeout):
				r = "timeout"
			}
		}
		t.Line(line, r)
		if r != "skipped" && pendCh != nil && f[0] != "bget" {
			t.Line("bgetres", pendResult())
		}
		if r != "skipped" {
			t.Line("state", state())
		}
	}
	if pendCh != nil {
		pendCancel()
		<-pendCh
	}
	// what is left in the source
	var rest []int
drain:
	for {
		select {
		case v, ok := <-src:
			if !ok {
				break drain
			}
			rest = append(rest, v)
		default:
			break drain
		}
	}
	t.Line("drain", fmtInts(rest))
	cancelParent()
	<-c.Done()
}

func genChannel(r *rng.R, tier string, i int) []string {
	n := 30 + r.Intn(40)
	var s []string
	next := 1
	if i%10 == 7 {
		// many uncommitted values (hundreds: the buffer's backing array grows and shrinks), rollback, partial re-read, commit,
		// then the rest is replayed
		m := 130 + r.Intn(320)
		for k := 0; k < m; k++ {
			s = append(s, fmt.Sprintf("send %d", next), "get")
			next++
		}
		s = append(s, "rollback")
		for k := m - 1 - r.Intn(12); k > 0; k-- {
			s = append(s, "get")
		}
		s = append(s, "commit", "buffer")
		for k := 0; k < 14; k++ {
			s = append(s, "get")
		}
		s = append(s, "commit", "buffer")
		return s
	}
	for len(s) < n {
		if r.Intn(25) == 0 {
			s = append(s, fmt.Sprintf("pget %d", 8+r.Intn(24)))
			continue
		}
		if r.Intn(12) == 0 {
			// a Get left blocked while other goroutines use the Channel: make it block (drain what the model may hold by
			// reading everything first is not needed — if something is available it simply returns a value)
			s = append(s, "bget")
			continue
		}
		switch r.Pick(28, 30, 10, 12, 6, 2, 1, 2) {
		case 0:
			s = append(s, fmt.Sprintf("send %d", next))
			next++
		case 1:
			if r.Chance(10) {
				s = append(s, "getflip", "buffer")
			} else {
				s = append(s, "get")
			}
		case 2:
			s = append(s, "commit")
		case 3:
			s = append(s, "rollback")
		case 4:
			s = append(s, "buffer")
		case 5:
			if len(s) > n*2/3 {
				s = append(s, "closesrc")
			}
		case 6:
			if len(s) > n*3/4 {
				s = append(s, "close")
			}
		case 7:
			if len(s) > n*3/4 {
				s = append(s, "cancel")
			}
		}
	}
	return s
}

func init() {
	register(&family{name: "channel", gen: genChannel, exec: execChannel})
}
