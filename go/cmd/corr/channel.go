package main

import (
	"context"
	"errors"
	"fmt"
	"strings"
	"time"

	bigbuff "github.com/joeycumines/go-bigbuff"

	"verifharness/internal/hk"
	"verifharness/internal/rng"
)

// Sequential (T2) driver of Channel (C13).  A Get that finds nothing is detected through the
// "chan.poll.empty" hook point, then its context is cancelled.

func execChannel(t *trace, script []string) {
	src := make(chan int, 256)
	parent, cancelParent := context.WithCancel(context.Background())
	defer cancelParent()
	c, err := bigbuff.NewChannel(parent, time.Millisecond, src)
	if err != nil {
		t.Line("!new", err.Error())
		return
	}
	empty := make(chan struct{}, 4)
	rm := hk.On(func(e hk.Event) {
		if e.Name == "chan.poll.empty" && e.Obj == any(c) {
			select {
			case empty <- struct{}{}:
			default:
			}
		}
	})
	defer rm()
	srcClosed := false
	state := func() string {
		b, r := bigbuff.VerifChannelState(c)
		return fmt.Sprintf("buf=%d rb=%d", b, r)
	}
	for _, line := range script {
		f := strings.Fields(line)
		if len(f) == 0 {
			continue
		}
		r := "skipped"
		switch f[0] {
		case "send":
			if !srcClosed && len(src) < cap(src) && len(f) == 2 {
				src <- atoi(f[1])
				r = "ok"
			}
		case "closesrc":
			if !srcClosed {
				close(src)
				srcClosed = true
				r = "ok"
			}
		case "get":
			for len(empty) > 0 {
				<-empty
			}
			ctx, cancel := context.WithCancel(context.Background())
			type res struct {
				v   interface{}
				err error
			}
			ch := make(chan res, 1)
			go func() { v, err := c.Get(ctx); ch <- res{v, err} }()
			blocked := false
			var out res
			deadline := time.After(stepTimeout)
		loop:
			for {
				select {
				case out = <-ch:
					break loop
				case <-empty:
					blocked = true
					cancel()
				case <-deadline:
					cancel()
					out = res{nil, errors.New("timeout")}
					break loop
				}
			}
			cancel()
			switch {
			case out.err == nil:
				r = fmt.Sprintf("val %d", out.v.(int))
			case blocked && errors.Is(out.err, context.Canceled):
				r = "blocked"
			default:
				r = canonErr(out.err)
			}
		case "commit":
			r = canonErr(c.Commit())
		case "rollback":
			r = canonErr(c.Rollback())
		case "buffer":
			b := c.Buffer()
			a := make([]int, len(b))
			for i, v := range b {
				a[i] = v.(int)
			}
			r = fmtInts(a)
		case "close":
			r = canonErr(c.Close())
		case "cancel":
			cancelParent()
			select {
			case <-c.Done():
				r = "ok"
			case <-time.After(stepTimeout):
				r = "timeout"
			}
		}
		t.Line(line, r)
		if r != "skipped" {
			t.Line("state", state())
		}
	}
	// what is left in the source
	var rest []int
drain:
	for {
		select {
		case v, ok := <-src:
			if !ok {
				break drain
			}
			rest = append(rest, v)
		default:
			break drain
		}
	}
	t.Line("drain", fmtInts(rest))
	cancelParent()
	<-c.Done()
}

func genChannel(r *rng.R, tier string, i int) []string {
	n := 30 + r.Intn(40)
	var s []string
	next := 1
	for len(s) < n {
		switch r.Pick(28, 30, 10, 12, 6, 2, 1, 2) {
		case 0:
			s = append(s, fmt.Sprintf("send %d", next))
			next++
		case 1:
			s = append(s, "get")
		case 2:
			s = append(s, "commit")
		case 3:
			s = append(s, "rollback")
		case 4:
			s = append(s, "buffer")
		case 5:
			if len(s) > n*2/3 {
				s = append(s, "closesrc")
			}
		case 6:
			if len(s) > n*3/4 {
				s = append(s, "close")
			}
		case 7:
			if len(s) > n*3/4 {
				s = append(s, "cancel")
			}
		}
	}
	return s
}

func init() {
	register(&family{name: "channel", gen: genChannel, exec: execChannel})
}
