package main

import (
	"fmt"
	"runtime"
	"strings"
	"sync"
	"sync/atomic"
	"time"

	bigbuff "github.com/joeycumines/go-bigbuff"

	"verifharness/internal/evlog"
	"verifharness/internal/gate"
	"verifharness/internal/hk"
	"verifharness/internal/rng"
)

// Concurrent (T3) driver of Exclusive (C09, C10).  script line:  run <keys> <calls> <seed>
//
// Every call is made from its own goroutine ("thread" t); the events of the goroutine that `call` spawns are
// attributed to t through the "created by ... in goroutine N" trailer of its stack.  Work functions are
// harness closures that log which function runs, resolve with a known value, and block on per-call gates so
// that the CallAfter window, the resolve-to-return gap and long-running work are all populated.

type exclCall struct {
	key, style, behave, wait, val int
	gate                          chan struct{}
	sniper                        bool // the call is made the moment a runner of its key reaches its hand-over (clear / returned hooks)
}

const (
	exStyleCall = iota
	exStyleCallAfter
	exStyleAsync
	exStyleStart
	exStyleStartAfter
	exStyleOpts      // CallWithOptions + ExclusiveWork
	exStyleOptsStart // CallWithOptions + ExclusiveWork + ExclusiveStart
)

const (
	exResolveReturn = iota
	exBlockThenResolve
	exResolveThenBlock    // only with ExclusiveWork
	exNoResolve           // only with ExclusiveWork
	exResolveTwice        // only with ExclusiveWork
	exBlockNoResolve      // only with ExclusiveWork
	exResolveConcurrent   // only with ExclusiveWork: resolve called by three goroutines at once (first answer wins)
	exResolveErrThenBlock // only with ExclusiveWork: resolves with an ERROR result (carrying the value) and keeps running
)

// valErr is an error result that carries the call's value, so that the log and the model treat it like any other outcome
type valErr int

func (e valErr) Error() string { return fmt.Sprintf("valErr %d", int(e)) }

// exclusiveFirstRace: the zero value Exclusive is usable at once; its very FIRST calls race (one start gate), all on one key (or
// two). Whatever the lazy initialisation does, at no moment may two work functions of one key execute, and every Call gets an
// outcome. Repeated on fresh instances (only the first microseconds of an instance are concerned).
func exclusiveFirstRace(seed int) string {
	r := rng.New(uint64(seed), "exclusive-firstrace")
	hung := 0
	deadline := time.Now().Add(350 * time.Millisecond)
	trials := 0
	var over, bad atomic.Int32
	for trials < 4000 && time.Now().Before(deadline) && over.Load() == 0 && hung == 0 {
		trials++
		var e bigbuff.Exclusive
		nkeys := 1 + r.Intn(2)
		callers := 3 + r.Intn(7)
		active := make([]atomic.Int32, nkeys)
		start := make(chan struct{})
		var wg sync.WaitGroup
		work := time.Duration(20+r.Intn(60)) * time.Microsecond
		for j := 0; j < callers; j++ {
			k := j % nkeys
			useStart := r.Chance(20)
			wg.Add(1)
			go func() {
				defer wg.Done()
				<-start
				fn := func() (any, error) {
					if active[k].Add(1) > 1 {
						over.Add(1)
					}
					spin := time.Now()
					for time.Since(spin) < work {
					}
					active[k].Add(-1)
					return k, nil
				}
				if useStart {
					e.Start(k, fn)
					return
				}
				v, err := e.Call(k, fn)
				if err != nil || v != k {
					bad.Add(1)
				}
			}()
		}
		close(start)
		if !waitTimeout(&wg, stepTimeout) {
			hung++
		}
	}
	// executions begun by Start calls may still be running: let them finish (they count, and their hook events must not leak
	// into the next case)
	quiet := time.Now().Add(2 * time.Second)
	for hung == 0 && time.Now().Before(quiet) {
		busy := false
		for _, g := range libGoroutines() {
			if strings.HasPrefix(g, "(*Exclusive)") {
				busy = true
			}
		}
		if !busy {
			break
		}
		time.Sleep(time.Millisecond)
	}
	return fmt.Sprintf("overlaps=%d hung=%d wrong=%d", over.Load(), hung, bad.Load())
}

// exclusiveWaitEnd: a CallAfter / StartAfter batch whose (short) wait ends while other goroutines keep calling on the same key and on
// another one: calls that arrive exactly as the wait ends join this batch or the next, and nobody hangs: every Call returns its
// key's value, on both keys, and work functions of a key never overlap.
func exclusiveWaitEnd(seed int) string {
	r := rng.New(uint64(seed), "exclusive-waitend")
	hung := 0
	deadline := time.Now().Add(300 * time.Millisecond)
	var over, bad atomic.Int32
	for rounds := 0; rounds < 200 && time.Now().Before(deadline) && hung == 0; rounds++ {
		var e bigbuff.Exclusive
		active := make([]atomic.Int32, 2)
		mk := func(k int) func() (any, error) {
			return func() (any, error) {
				if active[k].Add(1) > 1 {
					over.Add(1)
				}
				runtime.Gosched()
				active[k].Add(-1)
				return k, nil
			}
		}
		wait := time.Duration(300+r.Intn(900)) * time.Microsecond
		var wg sync.WaitGroup
		wg.Add(1)
		go func() {
			defer wg.Done()
			if v, err := e.CallAfter(0, mk(0), wait); err != nil || v != 0 {
				bad.Add(1)
			}
		}()
		stop := time.Now().Add(wait + 400*time.Microsecond)
		for h := 0; h < 3+r.Intn(4); h++ {
			k := 0
			if h == 0 {
				k = 1
			}
			style := r.Intn(3)
			wg.Add(1)
			go func() {
				defer wg.Done()
				for time.Now().Before(stop) {
					switch style {
					case 0:
						e.Start(k, mk(k))
					case 1:
						if v, err := e.Call(k, mk(k)); err != nil || v != k {
							bad.Add(1)
						}
					default:
						e.StartAfter(k, mk(k), wait/4)
					}
				}
			}()
		}
		if !waitTimeout(&wg, stepTimeout) {
			hung++
		}
	}
	quiet := time.Now().Add(2 * time.Second)
	for hung == 0 && time.Now().Before(quiet) {
		busy := false
		for _, g := range libGoroutines() {
			if strings.HasPrefix(g, "(*Exclusive)") {
				busy = true
			}
		}
		if !busy {
			break
		}
		time.Sleep(time.Millisecond)
	}
	return fmt.Sprintf("overlaps=%d hung=%d wrong=%d", over.Load(), hung, bad.Load())
}

func execExclusiveT3(t *trace, script []string) {
	for _, line := range script {
		f := strings.Fields(line)
		if len(f) == 2 && f[0] == "waitend" {
			t.Line(line, exclusiveWaitEnd(atoi(f[1])))
			continue
		}
		if len(f) == 2 && f[0] == "firstrace" {
			t.Line(line, exclusiveFirstRace(atoi(f[1])))
			continue
		}
		// "handover <variant> <seed>": the forced schedule around the end of an execution (see below)
		handover := len(f) == 3 && f[0] == "handover"
		if !handover && (len(f) != 4 || f[0] != "run") {
			continue
		}
		var nkeys, ncalls, seed, variant int
		if handover {
			nkeys, ncalls, variant, seed = 1, 3, atoi(f[1]), atoi(f[2])
			if variant&8 != 0 {
				nkeys = 2 // call 2 goes to another key: nothing executes on key 0 after call 1 unless call 1 itself does
			}
		} else {
			nkeys, ncalls, seed = atoi(f[1]), atoi(f[2]), atoi(f[3])
		}
		t.Line(line, "ok")
		r := rng.New(uint64(seed), "exclusive-run")
		calls := make([]*exclCall, ncalls)
		for i := range calls {
			c := &exclCall{key: r.Intn(nkeys), style: r.Pick(3, 2, 3, 2, 1, 5, 2), val: 100 + i, gate: make(chan struct{})}
			switch c.style {
			case exStyleCallAfter, exStyleStartAfter:
				c.wait = 1 + r.Intn(3)
			case exStyleOpts, exStyleOptsStart:
				if r.Chance(25) {
					c.wait = 1 + r.Intn(2)
				}
			}
			if c.style >= exStyleOpts {
				c.behave = r.Pick(3, 3, 4, 2, 1, 1, 2, 3)
			} else {
				c.behave = r.Pick(3, 2)
			}
			if ncalls >= 3 && r.Chance(45) {
				c.sniper = true
			}
			if handover {
				// call 0 runs and finishes at once; calls 1 and 2 have work that blocks until released
				c.sniper, c.wait, c.key = false, 0, 0
				if i == 0 {
					c.style, c.behave = []int{exStyleOptsStart, exStyleOpts, exStyleStart, exStyleCall}[variant%4], exResolveReturn
				} else {
					c.style, c.behave = exStyleOpts, exBlockThenResolve
					if variant&4 != 0 && i == 1 {
						c.wait = 1
					}
					if variant&8 != 0 && i == 1 {
						// call 1 is a Start: it has no outcome, so a Start that gives up on the stale item it fetched is only
						// visible as "no execution began after it" (the harness-side lost-call monitor)
						c.style = exStyleStart
					}
					if variant&8 != 0 && i == 2 {
						c.key = 1
					}
				}
			}
			calls[i] = c
			start := 0
			if c.style == exStyleStart || c.style == exStyleStartAfter || c.style == exStyleOptsStart {
				start = 1
			}
			t.Line(fmt.Sprintf("prog %d key=%d start=%d", i, c.key, start), "ok")
		}

		var e bigbuff.Exclusive
		log := &evlog.Log{}
		var pmu sync.Mutex
		threadOf := map[int64]int{} // goroutine id -> thread
		itemID := map[any]int{}
		finished := make([]bool, ncalls) // the goroutine side of the call has ended
		trig := make([]chan struct{}, nkeys)
		for k := range trig {
			trig[k] = make(chan struct{}, ncalls)
		}
		endgame := make(chan struct{})
		active := make([]atomic.Int32, nkeys) // work functions currently executing, per key (C09 monitor)
		enter := func(k int) {
			if n := active[k].Add(1); n > 1 {
				log.Add("overlap key=%d n=%d", k, n)
			}
		}
		leave := func(k int) { active[k].Add(-1) }
		tid := func(g int64) int {
			pmu.Lock()
			id, ok := threadOf[g]
			pmu.Unlock()
			if ok {
				return id
			}
			c := hk.Creator()
			pmu.Lock()
			id, ok = threadOf[c]
			if ok {
				threadOf[g] = id
			}
			pmu.Unlock()
			if !ok {
				return -1
			}
			return id
		}
		item := func(o any) int {
			pmu.Lock()
			defer pmu.Unlock()
			id, ok := itemID[o]
			if !ok {
				id = len(itemID)
				itemID[o] = id
			}
			return id
		}
		rm := hk.On(func(ev hk.Event) {
			if !strings.HasPrefix(ev.Name, "excl.") {
				return
			}
			th := tid(ev.G)
			name := ev.Name[len("excl."):]
			switch name {
			case "attach", "escape", "clear":
				log.Add("%s %d item=%d n=%d", name, th, item(ev.Obj), ev.N)
			default:
				log.Add("%s %d item=%d", name, th, item(ev.Obj))
			}
			if th >= 0 && (name == "clear" || name == "returned") {
				for j := 0; j < 2; j++ { // two snipers per hand-over: one into the window, one right behind it
					select {
					case trig[calls[th].key] <- struct{}{}:
					default:
					}
				}
			}
			if th >= 0 && (name == "escape" || name == "deliver" || name == "clear") {
				pmu.Lock()
				finished[th] = true
				pmu.Unlock()
			}
		})

		mkWork := func(i int) bigbuff.WorkFunc {
			c := calls[i]
			return func(resolve func(interface{}, error)) {
				enter(c.key)
				defer leave(c.key)
				by := tid(hk.Gid())
				log.Add("fn %d by=%d", i, by)
				res := func(v int) {
					log.Add("fnresolve %d r=%d", by, v)
					resolve(v, nil)
				}
				switch c.behave {
				case exResolveReturn:
					res(c.val)
				case exBlockThenResolve:
					<-c.gate
					res(c.val)
				case exResolveThenBlock:
					res(c.val)
					<-c.gate
				case exNoResolve:
				case exResolveTwice:
					res(c.val)
					res(c.val + 1000)
				case exBlockNoResolve:
					<-c.gate
				case exResolveErrThenBlock:
					// a failed attempt that still has cleanup to do: the key stays taken until the function RETURNS
					log.Add("fnresolve %d r=%d", by, c.val)
					resolve(nil, valErr(c.val))
					<-c.gate
				case exResolveConcurrent:
					// a hedged work function: several goroutines race to resolve (with the same value); exactly one may count
					log.Add("fnresolve %d r=%d", by, c.val)
					var rw sync.WaitGroup
					var ready atomic.Int32
					for g := 0; g < 3; g++ {
						rw.Add(1)
						go func() {
							defer rw.Done()
							defer func() {
								if p := recover(); p != nil {
									log.Add("!panic resolve %v", strings.ReplaceAll(fmt.Sprint(p), " ", "_"))
								}
							}()
							ready.Add(1)
							for ready.Load() < 3 {
							}
							resolve(c.val, nil)
						}()
					}
					rw.Wait()
				}
			}
		}
		mkValue := func(i int) func() (interface{}, error) {
			c := calls[i]
			return func() (interface{}, error) {
				enter(c.key)
				defer leave(c.key)
				by := tid(hk.Gid())
				log.Add("fn %d by=%d", i, by)
				if c.behave == exBlockThenResolve {
					<-c.gate
				}
				log.Add("fnresolve %d r=%d", by, c.val)
				return c.val, nil
			}
		}
		outcome := func(i int, v interface{}, err error) {
			switch {
			case err != nil && err.Error() == "bigbuff.Exclusive resolve not called" && v == nil:
				log.Add("outcome %d r=0", i)
			case err != nil && v == nil && func() bool { _, ok := err.(valErr); return ok }():
				log.Add("outcome %d r=%d", i, int(err.(valErr)))
			case err == nil:
				if n, ok := v.(int); ok {
					log.Add("outcome %d r=%d", i, n)
				} else {
					log.Add("outcome %d r=bad:%v", i, v)
				}
			default:
				log.Add("outcome %d r=err:%v", i, err)
			}
		}

		var callers sync.WaitGroup
		perKey := make([]sync.WaitGroup, nkeys)
		spawn := func(i int) {
			c := calls[i]
			callers.Add(1)
			perKey[c.key].Add(1)
			ready := make(chan struct{})
			go func() {
				defer callers.Done()
				defer perKey[c.key].Done()
				g := hk.Gid()
				pmu.Lock()
				threadOf[g] = i
				pmu.Unlock()
				close(ready)
				if c.sniper {
					select {
					case <-trig[c.key]:
					case <-endgame:
					}
				}
				wait := time.Duration(c.wait) * time.Millisecond
				log.Add("invoke %d", i) // logged before the library is entered: the call begins here at the latest
				switch c.style {
				case exStyleCall:
					v, err := e.Call(c.key, mkValue(i))
					outcome(i, v, err)
				case exStyleCallAfter:
					v, err := e.CallAfter(c.key, mkValue(i), wait)
					outcome(i, v, err)
				case exStyleAsync:
					ch := e.CallAsync(c.key, mkValue(i))
					o := <-ch
					outcome(i, o.Result, o.Error)
					if _, ok := <-ch; ok {
						log.Add("outcome %d r=second-value", i)
					}
				case exStyleStart:
					e.Start(c.key, mkValue(i))
				case exStyleStartAfter:
					e.StartAfter(c.key, mkValue(i), wait)
				case exStyleOpts:
					ch := e.CallWithOptions(bigbuff.ExclusiveKey(c.key), bigbuff.ExclusiveWork(mkWork(i)), bigbuff.ExclusiveWait(wait))
					o := <-ch
					outcome(i, o.Result, o.Error)
					if _, ok := <-ch; ok {
						log.Add("outcome %d r=second-value", i)
					}
				case exStyleOptsStart:
					if ch := e.CallWithOptions(bigbuff.ExclusiveKey(c.key), bigbuff.ExclusiveWork(mkWork(i)), bigbuff.ExclusiveWait(wait), bigbuff.ExclusiveStart(true)); ch != nil {
						log.Add("outcome %d r=non-nil-channel", i)
					}
				}
			}()
			<-ready
		}

		// the controller: spawn the calls and release gates in a random interleaving
		ctl := r.Fork()
		// in half of the runs the map mutex is kept contended (it is only ever held briefly, so this must be harmless;
		// it stretches every window that ends with an acquisition of that mutex)
		var spin atomic.Bool
		if ctl.Chance(50) {
			spin.Store(true)
			for j := 0; j < 2; j++ {
				go func() {
					for spin.Load() {
						bigbuff.VerifExclusiveKeys(&e)
					}
				}()
			}
		}
		released := make([]bool, ncalls)
		release := func(i int) {
			if !released[i] {
				released[i] = true
				close(calls[i].gate)
			}
		}
		holdKey0 := nkeys > 1 && ctl.Chance(60)
		next := 0
		if handover {
			// Forced schedule (T4).  Call 0 is held at its `clear` hook (inside the key's mutex) while call 1 is made and
			// blocks on that mutex; call 0 is released and finishes; call 1 is held at its `run` hook (it is the runner,
			// successor not yet installed) while call 2 is made; then call 1 goes on.  Calls 1 and 2 must never execute
			// their (blocking) work functions at the same time, and call 2 must be answered by its own execution.
			by := func(th int) func(hk.Event) bool { return func(e hk.Event) bool { return tid(e.G) == th } }
			if variant >= 16 {
				// Stale fetch (T4).  Call 0 is held at its `run` hook (it holds the key's mutex, its item is still the one in the
				// map) while call 1 is made: call 1 fetches that item and blocks on the mutex.  Call 0 goes on — installs the
				// successor, unlocks — and is held again right before it invokes its work function; call 1 now gets the mutex,
				// must find its item stale WITHOUT having touched it, and attach to the successor.  Then call 0 executes: the
				// function it runs must be its own.
				gr := gate.Arm("excl.run", by(0))
				gw := gate.Arm("excl.work", by(0))
				spawn(0)
				held0 := gr.Wait(gateTimeout)
				spawn(1)
				time.Sleep(2 * time.Millisecond) // call 1 has fetched the item and waits for the key's mutex
				gr.Release()
				held1 := gw.Wait(gateTimeout)
				time.Sleep(2 * time.Millisecond) // call 1 re-validates, retries, attaches to the successor
				gw.Release()
				time.Sleep(2 * time.Millisecond)
				spawn(2)
				time.Sleep(2 * time.Millisecond)
				log.Add("handover held0=%v held1=%v", held0, held1)
				next = ncalls
			}
		}
		if handover && variant < 16 {
			by := func(th int) func(hk.Event) bool { return func(e hk.Event) bool { return tid(e.G) == th } }
			g0 := gate.Arm("excl.clear", by(0))
			g1 := gate.Arm("excl.run", by(1))
			spawn(0)
			held0 := g0.Wait(gateTimeout)
			spawn(1)
			time.Sleep(2 * time.Millisecond) // call 1 reaches the key's mutex
			g0.Release()
			held1 := g1.Wait(gateTimeout)
			time.Sleep(2 * time.Millisecond) // call 0's goroutine finishes whatever it does after unlocking
			spawn(2)
			time.Sleep(3 * time.Millisecond) // call 2 attaches (and, if the key was split, starts executing)
			g1.Release()
			time.Sleep(3 * time.Millisecond) // call 1 installs its successor and starts executing
			log.Add("handover held0=%v held1=%v", held0, held1)
			next = ncalls
		}
		for next < ncalls {
			switch ctl.Pick(6, 3, 3) {
			case 0:
				spawn(next)
				next++
			case 1:
				if next > 0 {
					i := ctl.Intn(next)
					if !(holdKey0 && calls[i].key == 0) {
						release(i)
					}
				}
			case 2:
				time.Sleep(time.Duration(ctl.Intn(400)) * time.Microsecond)
			}
			perturb(ctl)
		}
		stuck := ""
		if holdKey0 {
			// keys other than 0 must be able to finish while key 0's work functions are still blocked
			for i, c := range calls {
				if c.key != 0 {
					release(i)
				}
			}
			for k := 1; k < nkeys; k++ {
				for j := 0; j < ncalls; j++ { // waiting snipers of the other keys go now
					select {
					case trig[k] <- struct{}{}:
					default:
					}
				}
			}
			for k := 1; k < nkeys; k++ {
				if !waitTimeout(&perKey[k], stepTimeout) {
					stuck = fmt.Sprintf("calls of key %d did not finish while key 0 was busy", k)
				}
			}
			if stuck == "" {
				log.Add("otherkeysdone")
			}
		}
		for i := range calls {
			release(i)
			if ctl.Chance(50) {
				perturb(ctl)
			}
		}
		time.Sleep(time.Duration(ctl.Intn(300)) * time.Microsecond)
		close(endgame)
		if stuck == "" && !waitTimeout(&callers, stepTimeout) {
			stuck = "callers did not return"
		}
		deadline := time.Now().Add(stepTimeout)
		for stuck == "" {
			pmu.Lock()
			all := true
			for _, b := range finished {
				all = all && b
			}
			pmu.Unlock()
			if all {
				break
			}
			if time.Now().After(deadline) {
				stuck = "goroutines of some calls did not finish"
				break
			}
			time.Sleep(100 * time.Microsecond)
		}
		spin.Store(false)
		// the runner's goroutine releases the item mutex after its last hook; let it drain
		time.Sleep(200 * time.Microsecond)
		keys := bigbuff.VerifExclusiveKeys(&e)
		rm()
		lines := log.Lines()
		if stuck == "" {
			// harness-side monitor of C10's first sentence, independent of the model: every call (also a Start, which has no
			// outcome) must be followed by an execution of its key that BEGAN after the call was made
			lastFn := make([]int, nkeys) // position of the last "fn" line per key
			for k := range lastFn {
				lastFn[k] = -1
			}
			for pos, l := range lines {
				var j, by int
				if n, _ := fmt.Sscanf(l, "fn %d by=%d", &j, &by); n == 2 && j >= 0 && j < len(calls) {
					lastFn[calls[j].key] = pos
				}
			}
			for pos, l := range lines {
				var i int
				if n, _ := fmt.Sscanf(l, "invoke %d", &i); n == 1 && strings.HasPrefix(l, "invoke ") && i >= 0 && i < len(calls) {
					if lastFn[calls[i].key] < pos {
						lines = append(lines, fmt.Sprintf("unanswered %d", i))
					}
				}
			}
		}
		for _, l := range lines {
			t.Line(l, "ok")
		}
		if stuck != "" {
			t.Line("!stuck", stuck)
			continue
		}
		t.Line(fmt.Sprintf("quiesce keys=%d", keys), "ok")
	}
}

func genExclusiveT3(r *rng.R, tier string, i int) []string {
	if i < 20 {
		return []string{fmt.Sprintf("handover %d %d", i, r.Intn(1<<30))}
	}
	if i%5 == 2 {
		return []string{fmt.Sprintf("firstrace %d", r.Intn(1<<30))}
	}
	if i%10 == 9 {
		return []string{fmt.Sprintf("waitend %d", r.Intn(1<<30))}
	}
	keys := 1 + r.Intn(3)
	calls := 2 + r.Intn(9)
	if tier == "thorough" && r.Chance(30) {
		calls = 8 + r.Intn(20)
	}
	return []string{fmt.Sprintf("run %d %d %d", keys, calls, r.Intn(1<<30))}
}

func init() {
	register(&family{name: "exclusive", gen: genExclusiveT3, exec: execExclusiveT3})
}
