package main

import (
	"context"
	"sync/atomic"
)

// flipCtx is a context that gets cancelled right after its FIRST Err() call has reported it live: a cancellation that lands between
// a function's up-front context check and whatever the function does next, placed deterministically (T4 without a gate).
type flipCtx struct {
	context.Context
	cancel context.CancelFunc
	calls  atomic.Int32
}

func newFlipCtx() *flipCtx {
	c, cancel := context.WithCancel(context.Background())
	return &flipCtx{Context: c, cancel: cancel}
}

func (c *flipCtx) Err() error {
	err := c.Context.Err()
	if c.calls.Add(1) == 1 {
		c.cancel()
	}
	return err
}
