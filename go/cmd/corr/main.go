// corr runs the real go-bigbuff code (built from /repo's working tree with -tags verif) on generated or
// given operation scripts and prints one line per operation with the result it observed:
//
//	case <id>
//	<op> <args...> => <canonical result>
//	end
//
// The Lean `oracle` replays the same lines on the formal model and reports every difference.
package main

import (
	"bufio"
	"encoding/json"
	"flag"
	"fmt"
	"os"
	"sort"
	"strings"
	"time"
	"sync"

	"verifharness/internal/hk"
	"verifharness/internal/rng"
)

type family struct {
	name string
	// gen produces the script (list of op lines, without results) of case number i
	gen func(r *rng.R, tier string, i int) []string
	// exec runs a script on the real code and emits the observed lines through t
	exec func(t *trace, script []string)
	// extra emits additional non-scripted cases (exhaustive sweeps); may be nil
	extra func(t *trace, tier string, r *rng.R)
}

var families = map[string]*family{}

func register(f *family) { families[f.name] = f }

type trace struct {
	w     *bufio.Writer
	mu    sync.Mutex
	hist  map[string]int
	cases int
	lines int
	stuck int // "!stuck" lines written: calls of the library that did not return within the watchdog
}

func (t *trace) Case(id string) {
	t.mu.Lock()
	defer t.mu.Unlock()
	fmt.Fprintf(t.w, "case %s\n", id)
	t.cases++
}

func (t *trace) Line(op string, result string) {
	t.mu.Lock()
	defer t.mu.Unlock()
	fmt.Fprintf(t.w, "%s => %s\n", op, result)
	t.lines++
	if strings.HasPrefix(op, "!stuck") {
		t.stuck++
	}
	k := op
	if i := strings.IndexByte(op, ' '); i >= 0 {
		k = op[:i]
	}
	r := result
	if i := strings.IndexByte(r, ' '); i >= 0 {
		r = r[:i]
	}
	t.hist[k+"=>"+r]++
}

func (t *trace) Count(key string) {
	t.mu.Lock()
	defer t.mu.Unlock()
	t.hist[key]++
}

func (t *trace) End() {
	t.mu.Lock()
	defer t.mu.Unlock()
	fmt.Fprintln(t.w, "end")
	t.w.Flush()
}

func main() {
	if len(os.Args) < 2 {
		names := []string{}
		for k := range families {
			names = append(names, k)
		}
		sort.Strings(names)
		fmt.Fprintln(os.Stderr, "usage: corr <family> [-seed N] [-n N] [-tier quick|thorough] [-script file] [-stats file]\nfamilies:", names)
		os.Exit(2)
	}
	f := families[os.Args[1]]
	if f == nil {
		fmt.Fprintln(os.Stderr, "unknown family", os.Args[1])
		os.Exit(2)
	}
	fs := flag.NewFlagSet("corr", flag.ExitOnError)
	seed := fs.Uint64("seed", 1, "PRNG seed")
	n := fs.Int("n", 100, "number of generated cases")
	tier := fs.String("tier", "quick", "tier")
	script := fs.String("script", "", "execute the cases in this script file instead of generating")
	stats := fs.String("stats", "", "write run statistics (JSON) here")
	noExtra := fs.Bool("noextra", false, "skip exhaustive sweeps")
	fs.Parse(os.Args[2:])

	t := &trace{w: bufio.NewWriterSize(os.Stdout, 1<<16), hist: map[string]int{}}
	if *script != "" {
		data, err := os.ReadFile(*script)
		if err != nil {
			fmt.Fprintln(os.Stderr, err)
			os.Exit(2)
		}
		var cur []string
		id := ""
		flush := func() {
			if id != "" {
				t.Case(id)
				f.exec(t, cur)
				t.End()
			}
			cur, id = nil, ""
		}
		for _, l := range strings.Split(string(data), "\n") {
			l = strings.TrimSpace(l)
			if l == "" || strings.HasPrefix(l, "#") {
				continue
			}
			if strings.HasPrefix(l, "case ") {
				flush()
				id = strings.TrimPrefix(l, "case ")
				continue
			}
			if l == "end" {
				flush()
				continue
			}
			if id == "" {
				id = "script"
			}
			if i := strings.Index(l, " => "); i >= 0 {
				l = l[:i]
			}
			cur = append(cur, l)
		}
		flush()
	} else {
		root := rng.New(*seed, f.name)
		if f.extra != nil && !*noExtra {
			f.extra(t, *tier, root.Fork())
		}
		slow := 0
		for i := 0; i < *n; i++ {
			r := root.Fork()
			s := f.gen(r, *tier, i)
			t.Case(fmt.Sprintf("g%d", i))
			t0 := time.Now()
			f.exec(t, s)
			t.End()
			if time.Since(t0) >= stepTimeout-time.Second {
				slow++ // some call sat in a watchdog for its whole period
			}
			t.mu.Lock()
			st := t.stuck + slow
			t.mu.Unlock()
			if st >= 4 {
				// every stuck case costs two watchdog periods; four are enough evidence (each is reported with its script)
				fmt.Fprintf(os.Stderr, "corr: %d cases with calls that did not return; stopping after case g%d of %d\n", st, i, *n)
				break
			}
		}
	}
	t.w.Flush()
	if *stats != "" {
		b, _ := json.Marshal(map[string]any{"family": f.name, "cases": t.cases, "lines": t.lines, "hist": t.hist, "hooks": hk.Seen()})
		os.WriteFile(*stats, b, 0o644)
	}
}
