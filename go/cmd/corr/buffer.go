package main

import (
	"context"
	"errors"
	"fmt"
	"sort"
	"strconv"
	"strings"
	"sync"
	"time"

	bigbuff "github.com/joeycumines/go-bigbuff"

	"verifharness/internal/hk"
	"verifharness/internal/rng"
)

// Sequential (T2) driver of Buffer + consumer.  Background nondeterminism is removed through the
// public API: the buffer's Cleaner is a harness callback with Cooldown 0 that returns 0 except when
// the script armed a clean step.  Blocking calls run on helper goroutines; "parked" is detected
// through the verif hook points, then the call's context is cancelled.

const stepTimeout = 10 * time.Second

func canonErr(err error) string {
	if err == nil {
		return "ok"
	}
	s := err.Error()
	switch {
	case errors.Is(err, context.Canceled):
		return "err canceled"
	case errors.Is(err, context.DeadlineExceeded):
		return "err deadline"
	case strings.Contains(s, "unknown consumer"):
		return "err unknown"
	case strings.Contains(s, " past"):
		return "err past"
	case strings.Contains(s, "nothing to commit"):
		return "err nocommit"
	case strings.Contains(s, "nothing to rollback"):
		return "err norollback"
	case strings.Contains(s, "only be called once"), strings.Contains(s, "closed at most once"):
		return "err once"
	}
	return "err other:" + strings.ReplaceAll(s, " ", "_")
}

type cleanReq struct {
	kind        string
	k, max, tgt int
	done        chan string
}

type bufExec struct {
	t       *trace
	b       *bigbuff.Buffer
	cons    []bigbuff.Consumer
	closing []bool // Close initiated (explicitly)
	closeCh []chan error
	bufCh   chan error // result of Buffer.Close when initiated
	bufDone bool

	mu     sync.Mutex
	armed  *cleanReq
	parked chan any // consumer whose async waiter is about to park
	asyncG map[int64]any
	waitEv chan string
	rmHook func()
}

func newBufExec(t *trace) *bufExec {
	x := &bufExec{t: t, b: new(bigbuff.Buffer), parked: make(chan any, 16), asyncG: map[int64]any{}, waitEv: make(chan string, 16)}
	x.rmHook = hk.On(func(e hk.Event) {
		switch e.Name {
		case "buf.async.locked":
			x.mu.Lock()
			x.asyncG[e.G] = e.Obj
			x.mu.Unlock()
		case "buf.async.send":
			x.mu.Lock()
			delete(x.asyncG, e.G)
			x.mu.Unlock()
		case "wc.wait":
			x.mu.Lock()
			c, ok := x.asyncG[e.G]
			x.mu.Unlock()
			if ok {
				select {
				case x.parked <- c:
				default:
				}
			}
		case "cons.close.wait":
			for i, c := range x.cons {
				if any(c) == e.Obj {
					select {
					case x.waitEv <- "c" + strconv.Itoa(i):
					default:
					}
				}
			}
		case "buf.close.wait":
			if e.Obj == any(x.b) {
				select {
				case x.waitEv <- "b":
				default:
				}
			}
		}
	})
	if err := x.b.SetCleanerConfig(bigbuff.CleanerConfig{Cleaner: x.cleaner, Cooldown: 0}); err != nil {
		panic(err)
	}
	// handshake: make sure the cleanup goroutine is now using our cleaner
	x.clean(&cleanReq{kind: "k", k: 0})
	return x
}

func (x *bufExec) cleaner(size int, offsets []int) int {
	x.mu.Lock()
	req := x.armed
	x.armed = nil
	x.mu.Unlock()
	if req == nil {
		return 0
	}
	var ret int
	offs := append([]int(nil), offsets...)
	switch req.kind {
	case "def":
		ret = bigbuff.DefaultCleaner(size, offsets)
	case "fix":
		ret = bigbuff.FixedBufferCleaner(req.max, req.tgt, nil)(size, offsets)
	default:
		ret = req.k
	}
	sort.Ints(offs)
	req.done <- fmt.Sprintf("size=%d offs=%s ret=%d", size, fmtInts(offs), ret)
	return ret
}

func fmtInts(a []int) string {
	s := make([]string, len(a))
	for i, v := range a {
		s[i] = strconv.Itoa(v)
	}
	return "[" + strings.Join(s, ",") + "]"
}

func (x *bufExec) clean(req *cleanReq) string {
	req.done = make(chan string, 1)
	x.mu.Lock()
	x.armed = req
	x.mu.Unlock()
	deadline := time.After(stepTimeout)
	for {
		_ = x.b.Put(context.Background()) // empty put: only broadcasts
		select {
		case r := <-req.done:
			// the shift is applied by the cleanup goroutine before it releases the write lock
			return r
		case <-time.After(20 * time.Millisecond):
		case <-deadline:
			x.mu.Lock()
			x.armed = nil
			x.mu.Unlock()
			return "timeout"
		}
	}
}

func (x *bufExec) drainParked() {
	for {
		select {
		case <-x.parked:
		default:
			return
		}
	}
}

// blockingGet runs fn on a helper goroutine; when the async waiter of consumer c parks, cancel is called.
func (x *bufExec) blocking(c any, cancel context.CancelFunc, fn func()) (blocked bool, timedOut bool) {
	x.drainParked()
	done := make(chan struct{})
	go func() { defer close(done); fn() }()
	deadline := time.After(stepTimeout)
	for {
		select {
		case <-done:
			return blocked, false
		case p := <-x.parked:
			if p == c && !blocked {
				blocked = true
				cancel()
			}
		case <-deadline:
			cancel()
			return blocked, true
		}
	}
}

func (x *bufExec) state() string {
	off, l, m := bigbuff.VerifBufferState(x.b)
	var sb strings.Builder
	fmt.Fprintf(&sb, "base=%d len=%d cons=[", off, l)
	for i, c := range x.cons {
		if i > 0 {
			sb.WriteByte(',')
		}
		committed, reg := m[c]
		if reg {
			fmt.Fprintf(&sb, "%d:%d:%d", i, committed, bigbuff.VerifConsumerDelta(c))
		} else {
			fmt.Fprintf(&sb, "%d:x:%d", i, bigbuff.VerifConsumerDelta(c))
		}
	}
	sb.WriteString("]")
	return sb.String()
}

// settle waits for every Close that can complete (delta == 0) to complete.
func (x *bufExec) settle() {
	for i, c := range x.cons {
		if (x.closing[i] || x.bufCh != nil) && bigbuff.VerifConsumerDelta(c) == 0 {
			select {
			case <-c.Done():
			case <-time.After(stepTimeout):
				x.t.Line("!settle", fmt.Sprintf("close-timeout %d", i))
			}
		}
	}
	if x.bufCh != nil && !x.bufDone {
		all := true
		for _, c := range x.cons {
			if bigbuff.VerifConsumerDelta(c) != 0 {
				all = false
			}
		}
		if all {
			select {
			case <-x.b.Done():
				x.bufDone = true
			case <-time.After(stepTimeout):
				x.t.Line("!settle", "bufclose-timeout")
			}
		}
	}
}

func (x *bufExec) finish() {
	// release everything so no goroutine of this case survives
	for _, c := range x.cons {
		_ = c.Rollback()
	}
	if x.bufCh == nil {
		go x.b.Close()
	}
	select {
	case <-x.b.Done():
	case <-time.After(stepTimeout):
		x.t.Line("!finish", "bufclose-timeout")
	}
	x.rmHook()
}

func atoi(s string) int { v, _ := strconv.Atoi(s); return v }

func (x *bufExec) consumer(f []string) (int, bigbuff.Consumer) {
	if len(f) < 2 {
		return -1, nil
	}
	i := atoi(f[1])
	if i < 0 || i >= len(x.cons) {
		return i, nil
	}
	return i, x.cons[i]
}

// callLog wraps a Consumer and records which of its methods bigbuff.Range calls, in order
type callLog struct {
	bigbuff.Consumer
	calls *[]byte
}

func (l callLog) Get(ctx context.Context) (interface{}, error) {
	*l.calls = append(*l.calls, 'g')
	return l.Consumer.Get(ctx)
}
func (l callLog) Commit() error   { *l.calls = append(*l.calls, 'c'); return l.Consumer.Commit() }
func (l callLog) Rollback() error { *l.calls = append(*l.calls, 'r'); return l.Consumer.Rollback() }

func (x *bufExec) rangeOp(f []string, useBuffer bool) string {
	i, c := x.consumer(f)
	if c == nil {
		return "skipped"
	}
	_ = i
	cbs := f[2:]
	var vis []int
	ctx, cancel := context.WithCancel(context.Background())
	defer cancel()
	var err error
	var calls []byte
	panicked := false
	stopped := false
	fn := func(index int, value interface{}) bool {
		vis = append(vis, value.(int))
		if index != len(vis)-1 {
			vis = append(vis, -1000-index) // index mismatch marker
		}
		cb := "s"
		if index < len(cbs) {
			cb = cbs[index]
		}
		switch {
		case cb == "p":
			panic("scripted panic")
		case cb == "c":
			return true
		case cb == "G":
			// the consumer is shared: while this callback runs, someone else reads its next value (if there is one)
			if d, ok := x.b.Diff(c); ok && d > 0 {
				_, _ = c.Get(context.Background())
			}
			return true
		case strings.HasPrefix(cb, "P"):
			// the callback itself Puts a value (it arrives while the callback of this value is running)
			_ = x.b.Put(context.Background(), atoi(cb[1:]))
			return true
		}
		stopped = true
		return false
	}
	blocked, timedOut := x.blocking(c, cancel, func() {
		defer func() {
			if r := recover(); r != nil {
				panicked = true
			}
		}()
		if useBuffer {
			err = x.b.Range(ctx, c, fn)
		} else {
			err = bigbuff.Range(ctx, callLog{c, &calls}, fn)
		}
	})
	end := ""
	switch {
	case timedOut:
		end = "timeout"
	case panicked:
		end = "panicked"
	case blocked:
		end = "blocked"
	case err != nil:
		end = strings.Replace(canonErr(err), "err ", "err:", 1)
	case stopped:
		end = "stopped"
	default:
		end = "diffstop"
	}
	if !useBuffer {
		return fmt.Sprintf("vis=%s end=%s calls=%s", fmtInts(vis), end, calls)
	}
	return fmt.Sprintf("vis=%s end=%s", fmtInts(vis), end)
}

func (x *bufExec) step(line string) string {
	f := strings.Fields(line)
	if len(f) == 0 {
		return "skipped"
	}
	switch f[0] {
	case "new":
		if x.bufCh != nil && !x.bufDone {
			return "skipped"
		}
		c, err := x.b.NewConsumer()
		if err != nil {
			return canonErr(err)
		}
		x.cons = append(x.cons, c)
		x.closing = append(x.closing, false)
		x.closeCh = append(x.closeCh, nil)
		return "ok"
	case "putflip":
		// Put with a context that is cancelled right after the up-front check saw it live (a cancellation that lands while the
		// Put waits for the lock): the Put may succeed or fail, but a Put that fails must not have appended
		vals := make([]interface{}, 0, len(f)-1)
		for _, s := range f[1:] {
			vals = append(vals, atoi(s))
		}
		err := x.b.Put(newFlipCtx(), vals...)
		if err == nil {
			return "ok"
		}
		return "err"
	case "put":
		vals := make([]interface{}, 0, len(f)-1)
		for _, s := range f[1:] {
			vals = append(vals, atoi(s))
		}
		err := x.b.Put(context.Background(), vals...)
		// a producer may reuse its batch slice after Put returns: the buffer must not alias it
		for i := range vals {
			vals[i] = -7
		}
		return canonErr(err)
	case "get":
		_, c := x.consumer(f)
		if c == nil {
			return "skipped"
		}
		ctx, cancel := context.WithCancel(context.Background())
		defer cancel()
		var v interface{}
		var err error
		blocked, timedOut := x.blocking(c, cancel, func() { v, err = c.Get(ctx) })
		switch {
		case timedOut:
			return "timeout"
		case blocked && errors.Is(err, context.Canceled):
			return "blocked"
		case blocked:
			return "blocked-then " + canonErr(err)
		case err != nil:
			return canonErr(err)
		}
		return fmt.Sprintf("val %d", v.(int))
	case "commit":
		_, c := x.consumer(f)
		if c == nil {
			return "skipped"
		}
		return canonErr(c.Commit())
	case "rollback":
		_, c := x.consumer(f)
		if c == nil {
			return "skipped"
		}
		return canonErr(c.Rollback())
	case "closec":
		i, c := x.consumer(f)
		if c == nil || x.bufCh != nil {
			return "skipped"
		}
		if x.closing[i] {
			select {
			case <-c.Done():
				return canonErr(c.Close())
			default:
				return "skipped" // a second Close would block behind the first (sync.Once)
			}
		}
		x.closing[i] = true
		ch := make(chan error, 1)
		x.closeCh[i] = ch
		go func() { ch <- c.Close() }()
		want := "c" + strconv.Itoa(i)
		deadline := time.After(stepTimeout)
		for {
			select {
			case err := <-ch:
				return canonErr(err)
			case w := <-x.waitEv:
				if w == want {
					return "waiting"
				}
			case <-deadline:
				return "timeout"
			}
		}
	case "closebuf":
		if x.bufCh != nil {
			if x.bufDone {
				return canonErr(x.b.Close())
			}
			return "skipped"
		}
		for i, c := range x.cons {
			if x.closing[i] {
				select {
				case <-c.Done():
				default:
					return "skipped" // keep the script deterministic: no pending explicit closes
				}
			}
		}
		ch := make(chan error, 1)
		x.bufCh = ch
		go func() { ch <- x.b.Close() }()
		deadline := time.After(stepTimeout)
		for {
			select {
			case err := <-ch:
				x.bufDone = true
				return canonErr(err)
			case w := <-x.waitEv:
				if w == "b" {
					// may still complete on its own when every consumer is idle
					pending := false
					for _, c := range x.cons {
						if bigbuff.VerifConsumerDelta(c) != 0 {
							pending = true
						}
					}
					if pending {
						return "waiting"
					}
				}
			case <-deadline:
				return "timeout"
			}
		}
	case "clean":
		if x.bufCh != nil {
			return "skipped"
		}
		return x.clean(&cleanReq{kind: "k", k: atoi(f[1])})
	case "cleandef":
		if x.bufCh != nil {
			return "skipped"
		}
		return x.clean(&cleanReq{kind: "def"})
	case "cleanfix":
		if x.bufCh != nil {
			return "skipped"
		}
		return x.clean(&cleanReq{kind: "fix", max: atoi(f[1]), tgt: atoi(f[2])})
	case "slice":
		s := x.b.Slice()
		a := make([]int, len(s))
		for i, v := range s {
			if v == nil {
				a[i] = -1
			} else {
				a[i] = v.(int)
			}
		}
		return fmtInts(a)
	case "size":
		return strconv.Itoa(x.b.Size())
	case "diff":
		_, c := x.consumer(f)
		if c == nil {
			return "skipped"
		}
		d, ok := x.b.Diff(c)
		if !ok {
			return "none"
		}
		return strconv.Itoa(d)
	case "range":
		return x.rangeOp(f, false)
	case "brange":
		return x.rangeOp(f, true)
	}
	return "skipped"
}

func execBuffer(t *trace, script []string) {
	x := newBufExec(t)
	for _, line := range script {
		r := x.step(line)
		if strings.HasPrefix(line, "putflip") && r != "skipped" {
			// the model is told what the Put reported; it answers whether that is consistent, and the state line that follows
			// shows whether the values are there
			t.Line("putflipres "+r+strings.TrimPrefix(line, "putflip"), "ok")
		} else {
			t.Line(line, r)
		}
		if r == "skipped" {
			continue
		}
		x.settle()
		t.Line("state", x.state())
	}
	x.finish()
}

func genBuffer(r *rng.R, tier string, i int) []string {
	n := 40 + r.Intn(40)
	var s []string
	ncons := 0
	next := 1
	closed := false
	mode := r.Intn(4) // 0: default cleaner only, 1: fixed, 2: arbitrary k, 3: mixed
	for len(s) < n {
		if ncons == 0 && r.Chance(60) {
			s = append(s, "new")
			ncons++
			continue
		}
		c := 0
		if ncons > 0 {
			c = r.Intn(ncons)
		}
		switch r.Pick(30, 28, 9, 7, 8, 4, 3, 4, 3, 2, 1, 1) {
		case 0:
			k := []int{0, 1, 1, 2, 3, 7}[r.Intn(6)]
			op := "put"
			if r.Chance(8) {
				op = "putflip"
			}
			for j := 0; j < k; j++ {
				op += " " + strconv.Itoa(next)
				next++
			}
			s = append(s, op)
		case 1:
			s = append(s, fmt.Sprintf("get %d", c))
		case 2:
			s = append(s, fmt.Sprintf("commit %d", c))
		case 3:
			s = append(s, fmt.Sprintf("rollback %d", c))
		case 4:
			if closed {
				continue
			}
			m := mode
			if m == 3 {
				m = r.Intn(3)
			}
			switch m {
			case 0:
				s = append(s, "cleandef")
			case 1:
				s = append(s, fmt.Sprintf("cleanfix %d %d", r.Range(-1, 6), r.Range(-1, 6)))
			default:
				s = append(s, fmt.Sprintf("clean %d", r.Range(-2, 6)))
			}
		case 5:
			if ncons < 5 {
				s = append(s, "new")
				ncons++
			}
		case 6:
			if !closed {
				s = append(s, fmt.Sprintf("closec %d", c))
			}
		case 7:
			op := fmt.Sprintf("range %d", c)
			if r.Chance(50) {
				op = fmt.Sprintf("brange %d", c)
			}
			k := r.Intn(4)
			for j := 0; j < k; j++ {
				if r.Chance(20) {
					op += fmt.Sprintf(" P%d", 5000+next)
					next++
				} else if r.Chance(15) {
					op += " G"
				} else {
					op += " c"
				}
			}
			if r.Chance(25) {
				op += fmt.Sprintf(" P%d", 5000+next)
				next++
			} else {
				op += []string{" s", " p", " c"}[r.Intn(3)]
			}
			s = append(s, op)
		case 8:
			s = append(s, []string{"slice", "size"}[r.Intn(2)])
		case 9:
			s = append(s, fmt.Sprintf("diff %d", c))
		case 10:
			if !closed && len(s) > n/2 {
				s = append(s, "closebuf")
				closed = true
			}
		case 11:
			s = append(s, fmt.Sprintf("get %d", ncons+1)) // unknown consumer index: skipped by both sides
		}
	}
	return s
}

func init() {
	register(&family{name: "buffer", gen: genBuffer, exec: execBuffer})
}
