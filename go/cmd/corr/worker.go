package main

import (
	"fmt"
	"runtime"
	"strings"
	"sync"
	"sync/atomic"
	"time"

	bigbuff "github.com/joeycumines/go-bigbuff"

	"verifharness/internal/evlog"
	"verifharness/internal/hk"
	"verifharness/internal/rng"
)

// Concurrent (T3) driver of Worker (C17).  script line:  run <holders> <rounds> <seed>

func execWorkerT3(t *trace, script []string) {
	for _, line := range script {
		f := strings.Fields(line)
		// "churn": the same program without any pause between Do and done and between rounds — the windows between the
		// watcher's critical sections are a few instructions wide and are only met by holders that hammer the Worker
		if len(f) == 4 && f[0] == "hammer" {
			t.Line(line, workerHammer(atoi(f[1]), atoi(f[2]), atoi(f[3])))
			continue
		}
		churn := len(f) == 4 && f[0] == "churn"
		if len(f) != 4 || (f[0] != "run" && !churn) {
			continue
		}
		holders, rounds, seed := atoi(f[1]), atoi(f[2]), atoi(f[3])
		t.Line(line, "ok")
		var w bigbuff.Worker
		log := &evlog.Log{}
		var pmu sync.Mutex
		tokenOf := map[int64]int{}
		startedBy := map[int64]bool{}
		var starts, exits atomic.Int64
		rm := hk.On(func(e hk.Event) {
			if e.Obj != any(&w) {
				return
			}
			switch e.Name {
			case "worker.start":
				starts.Add(1)
				pmu.Lock()
				startedBy[e.G] = true
				pmu.Unlock()
			case "worker.do":
				pmu.Lock()
				tok := tokenOf[e.G]
				st := startedBy[e.G]
				startedBy[e.G] = false
				pmu.Unlock()
				s := 0
				if st {
					s = 1
				}
				log.Add("do %d started=%d", tok, s)
			case "worker.take":
				log.Add("take")
			case "worker.waited":
				log.Add("waited")
			case "worker.stopclosed":
				log.Add("stopclosed")
			case "worker.fnreturned":
				log.Add("fnreturned")
			case "worker.exited":
				log.Add("exited")
				exits.Add(1)
			}
		})
		root := rng.New(uint64(seed), "worker-run")
		var wg sync.WaitGroup
		var tok atomic.Int64
		fn := func(stop <-chan struct{}) {
			log.Add("fnstart")
			<-stop
			log.Add("fnsawstop")
		}
		for h := 0; h < holders; h++ {
			r := root.Fork()
			wg.Add(1)
			go func() {
				defer wg.Done()
				g := hk.Gid()
				for k := 0; k < rounds; k++ {
					tk := int(tok.Add(1))
					pmu.Lock()
					tokenOf[g] = tk
					pmu.Unlock()
					d := w.Do(fn)
					if !churn {
						perturb(r)
						perturb(r)
					}
					log.Add("done %d", tk)
					d()
					if churn {
						continue
					}
					perturb(r)
					if r.Chance(30) {
						time.Sleep(time.Duration(r.Intn(200)) * time.Microsecond)
					}
				}
			}()
		}
		stuck := !waitTimeout(&wg, stepTimeout)
		deadline := time.Now().Add(stepTimeout)
		for !stuck && exits.Load() != starts.Load() && time.Now().Before(deadline) {
			time.Sleep(200 * time.Microsecond)
		}
		if exits.Load() != starts.Load() {
			stuck = true
		}
		rm()
		for _, l := range log.Lines() {
			t.Line(l, "ok")
		}
		if stuck {
			t.Line("!stuck", fmt.Sprintf("holders/instances did not finish: starts=%d exits=%d", starts.Load(), exits.Load()))
			continue
		}
		t.Line("final live=0", "ok")
	}
}

// hammer: no event log at all (its mutex would serialise the holders): holders take and release the Worker as fast as they can
// for a fixed time; the instance function itself checks, when it sees stop closed, a harness-side count of holders that are
// between "Do returned" and "done called".  Any such holder is one the Worker must still be running for (C17: stopped only
// after every holder is done) — the check needs no model and cannot misfire: the count only covers that interval.
func workerHammer(holders, millis, seed int) string {
	var w bigbuff.Worker
	var held, bad, instances atomic.Int64
	var nilStop atomic.Int64
	var helpers sync.WaitGroup
	var neverStopped atomic.Int64
	fn := func(stop <-chan struct{}) {
		k := instances.Add(1)
		if stop == nil {
			nilStop.Add(1) // an instance that can never be told to stop
			return
		}
		if k%3 == 0 {
			// an instance that returns on its own and leaves a helper behind: the helper must still be told to stop when the
			// last holder is done (the stop channel is closed whether or not the function has already returned)
			helpers.Add(1)
			go func() {
				defer helpers.Done()
				select {
				case <-stop:
				case <-time.After(3 * time.Second):
					neverStopped.Add(1)
				}
			}()
			return
		}
		<-stop
		if held.Load() > 0 {
			bad.Add(1)
		}
	}
	// the stop channel is closed inside the Worker's mutex (hook worker.stopclosed): every Do that returned before that critical
	// section has been waited for, so at that instant nobody may be between its Do and its done() — whether or not the function
	// has already returned on its own
	rmHook := hk.On(func(e hk.Event) {
		if e.Name == "worker.stopclosed" && e.Obj == any(&w) && held.Load() > 0 {
			bad.Add(1)
		}
	})
	defer rmHook()
	var wg sync.WaitGroup
	deadline := time.Now().Add(time.Duration(millis) * time.Millisecond)
	root := rng.New(uint64(seed), "worker-hammer")
	for h := 0; h < holders; h++ {
		r := root.Fork()
		wg.Add(1)
		go func() {
			defer wg.Done()
			for k := 0; ; k++ {
				if k%64 == 0 && time.Now().After(deadline) {
					return
				}
				d := w.Do(fn)
				held.Add(1)
				if r.Intn(8) == 0 {
					runtime.Gosched()
				}
				held.Add(-1)
				d()
			}
		}()
	}
	if !waitTimeout(&wg, stepTimeout) {
		return "stuck"
	}
	helpers.Wait()
	if n := neverStopped.Load(); n > 0 {
		return fmt.Sprintf("held_when_stopped=%d stop_channels_never_closed=%d", bad.Load(), n)
	}
	if n := nilStop.Load(); n > 0 {
		return fmt.Sprintf("held_when_stopped=%d instances_without_a_stop_channel=%d", bad.Load(), n)
	}
	return fmt.Sprintf("held_when_stopped=%d", bad.Load())
}

func genWorkerT3(r *rng.R, tier string, i int) []string {
	if i%12 == 5 {
		return []string{fmt.Sprintf("hammer %d %d %d", 2+r.Intn(4), 120, r.Intn(1<<30))}
	}
	if i%12 == 11 {
		return []string{fmt.Sprintf("churn %d %d %d", 2+r.Intn(4), 1500+r.Intn(1500), r.Intn(1<<30))}
	}
	return []string{fmt.Sprintf("run %d %d %d", 1+r.Intn(5), 2+r.Intn(6), r.Intn(1<<30))}
}

func init() {
	register(&family{name: "worker", gen: genWorkerT3, exec: execWorkerT3})
}
