package main

import (
	"fmt"
	"strings"
	"sync"
	"sync/atomic"
	"time"

	bigbuff "github.com/joeycumines/go-bigbuff"

	"verifharness/internal/evlog"
	"verifharness/internal/hk"
	"verifharness/internal/rng"
)

// Concurrent (T3) driver of Worker (C17).  script line:  run <holders> <rounds> <seed>

func execWorkerT3(t *trace, script []string) {
	for _, line := range script {
		f := strings.Fields(line)
		if len(f) != 4 || f[0] != "run" {
			continue
		}
		holders, rounds, seed := atoi(f[1]), atoi(f[2]), atoi(f[3])
		t.Line(line, "ok")
		var w bigbuff.Worker
		log := &evlog.Log{}
		var pmu sync.Mutex
		tokenOf := map[int64]int{}
		startedBy := map[int64]bool{}
		var starts, exits atomic.Int64
		rm := hk.On(func(e hk.Event) {
			if e.Obj != any(&w) {
				return
			}
			switch e.Name {
			case "worker.start":
				starts.Add(1)
				pmu.Lock()
				startedBy[e.G] = true
				pmu.Unlock()
			case "worker.do":
				pmu.Lock()
				tok := tokenOf[e.G]
				st := startedBy[e.G]
				startedBy[e.G] = false
				pmu.Unlock()
				s := 0
				if st {
					s = 1
				}
				log.Add("do %d started=%d", tok, s)
			case "worker.take":
				log.Add("take")
			case "worker.waited":
				log.Add("waited")
			case "worker.stopclosed":
				log.Add("stopclosed")
			case "worker.fnreturned":
				log.Add("fnreturned")
			case "worker.exited":
				log.Add("exited")
				exits.Add(1)
			}
		})
		root := rng.New(uint64(seed), "worker-run")
		var wg sync.WaitGroup
		var tok atomic.Int64
		fn := func(stop <-chan struct{}) {
			log.Add("fnstart")
			<-stop
			log.Add("fnsawstop")
		}
		for h := 0; h < holders; h++ {
			r := root.Fork()
			wg.Add(1)
			go func() {
				defer wg.Done()
				g := hk.Gid()
				for k := 0; k < rounds; k++ {
					tk := int(tok.Add(1))
					pmu.Lock()
					tokenOf[g] = tk
					pmu.Unlock()
					d := w.Do(fn)
					perturb(r)
					perturb(r)
					log.Add("done %d", tk)
					d()
					perturb(r)
					if r.Chance(30) {
						time.Sleep(time.Duration(r.Intn(200)) * time.Microsecond)
					}
				}
			}()
		}
		stuck := !waitTimeout(&wg, stepTimeout)
		deadline := time.Now().Add(stepTimeout)
		for !stuck && exits.Load() != starts.Load() && time.Now().Before(deadline) {
			time.Sleep(200 * time.Microsecond)
		}
		if exits.Load() != starts.Load() {
			stuck = true
		}
		rm()
		for _, l := range log.Lines() {
			t.Line(l, "ok")
		}
		if stuck {
			t.Line("!stuck", fmt.Sprintf("holders/instances did not finish: starts=%d exits=%d", starts.Load(), exits.Load()))
			continue
		}
		t.Line("final live=0", "ok")
	}
}

func genWorkerT3(r *rng.R, tier string, i int) []string {
	return []string{fmt.Sprintf("run %d %d %d", 1+r.Intn(5), 2+r.Intn(6), r.Intn(1<<30))}
}

func init() {
	register(&family{name: "worker", gen: genWorkerT3, exec: execWorkerT3})
}
