package main

import (
	"context"
	"fmt"
	"strconv"
	"strings"
	"sync"
	"time"

	bigbuff "github.com/joeycumines/go-bigbuff"

	"verifharness/internal/evlog"
	"verifharness/internal/gate"
	"verifharness/internal/hk"
	"verifharness/internal/rng"
)

// Concurrent (T3) driver of ChanPubSub (C06, C07).  script line:  run <senders> <subscribers> <seed>
//
// Subscribers are of two kinds: manual (Add(1), then receive-then-Wait rounds from C(), Add(-1) between rounds after a
// PRNG delay or at the end) and iterator (SubscribeContext, with cancellation at a PRNG instant, early exit from the
// loop, or an iterator that is never run).  Every atomic operation on the subscriber counter and on the embedded
// caster's state word is bracketed by begin/end hooks whose handler serialises them and logs the value they left.

func execPubSub(t *trace, script []string) {
	for _, line := range script {
		f := strings.Fields(line)
		forced := len(f) == 3 && f[0] == "forced"
		if !forced && (len(f) != 4 || f[0] != "run") {
			continue
		}
		var nS, nU, seed, variant int
		if forced {
			variant, seed = atoi(f[1]), atoi(f[2])
		} else {
			nS, nU, seed = atoi(f[1]), atoi(f[2]), atoi(f[3])
		}
		t.Line(line, "ok")
		root := rng.New(uint64(seed), "pubsub-run")
		c := make(chan int)
		x := bigbuff.NewChanPubSub(c)
		log := &evlog.Log{}
		var gmu sync.Mutex
		var pmu sync.Mutex
		threadOf := map[int64]string{}
		reg := func(name string) {
			pmu.Lock()
			threadOf[hk.Gid()] = name
			pmu.Unlock()
		}
		who := func(g int64) string {
			pmu.Lock()
			s, ok := threadOf[g]
			pmu.Unlock()
			if ok {
				return s
			}
			// an AfterFunc / helper goroutine: attributed to the registered goroutine that created it
			cr := hk.Creator()
			pmu.Lock()
			defer pmu.Unlock()
			if s, ok := threadOf[cr]; ok {
				threadOf[g] = s
				return s
			}
			return "?"
		}
		rm := hk.On(func(e hk.Event) {
			isCaster := strings.HasPrefix(e.Name, "caster.")
			if !isCaster && (!strings.HasPrefix(e.Name, "pubsub.") || e.Obj != any(x)) {
				return
			}
			th := who(e.G)
			switch e.Name {
			case "caster.atomic.begin", "pubsub.atomic.begin":
				gmu.Lock()
			case "caster.send.fast", "caster.send.load", "caster.send.cas", "caster.send.final", "caster.add.load", "caster.add.pos", "caster.add.neg":
				_, w, _ := bigbuff.VerifChanPubSubState(x)
				log.Add("%s %s n=%d w=%d", e.Name, th, e.N, w)
				gmu.Unlock()
			case "pubsub.send.fast", "pubsub.send.subs", "pubsub.sub.subs", "pubsub.unsub.subs":
				log.Add("%s %s n=%d", e.Name, th, e.N)
				gmu.Unlock()
			default:
				log.Add("%s %s n=%d", e.Name, th, e.N)
			}
		})
		stop := make(chan struct{})
		var wg, sendersWG sync.WaitGroup
		if forced {
			// Forced schedules (T4) around the start of a Send.  Two manual subscribers u0, u1 are standing; sender s0 is
			// held at a hook of ping.Send while u1 unsubscribes; u0 receives the message (if one is sent) and leaves at the end.
			//   variant 0: held after ping.Send's fast-path load  -> the unsubscribe lands between ping.Add and the CAS
			//   variant 1: held after the load of the CAS loop      -> the CAS fails and is retried
			//   variant 2: as 0, but u0 leaves as well              -> ping.Send finds the word 0 and returns 0
			//   variant 3: held after the CAS (armed)               -> the unsubscribe absorbs its copy
			hold := []string{"caster.send.fast", "caster.send.load", "caster.send.fast", "caster.send.cas"}[variant%4]
			subscribed := make(chan struct{}, 2)
			leave := []chan struct{}{make(chan struct{}), make(chan struct{})}
			for i := 0; i < 2; i++ {
				i := i
				name := fmt.Sprintf("u%d", i)
				wg.Add(1)
				go func() {
					defer wg.Done()
					reg(name)
					x.Add(1)
					subscribed <- struct{}{}
					for {
						select {
						case v := <-x.C():
							log.Add("recv %s v=%d", name, v)
							x.Wait()
							log.Add("acked %s v=%d", name, v)
						case <-leave[i]:
							x.Add(-1)
							return
						case <-stop:
							x.Add(-1)
							return
						}
					}
				}()
			}
			<-subscribed
			<-subscribed
			g := gate.Arm(hold, func(e hk.Event) bool { return who(e.G) == "s0" })
			wg.Add(1)
			sendersWG.Add(1)
			go func() {
				defer wg.Done()
				defer sendersWG.Done()
				reg("s0")
				log.Add("sendcall s0 v=%d", 1000)
				n := x.Send(1000)
				log.Add("sendret s0 ret=%d", n)
			}()
			held := g.Wait(gateTimeout)
			close(leave[1])
			if variant%4 == 2 {
				close(leave[0])
			}
			time.Sleep(2 * time.Millisecond) // the unsubscribe(s) run as far as they can while the sender is held
			g.Release()
			log.Add("forced held=%v", held)
		}
		for a := 0; a < nS; a++ {
			a := a
			r := root.Fork()
			wg.Add(1)
			sendersWG.Add(1)
			ready := make(chan struct{})
			go func() {
				defer wg.Done()
				defer sendersWG.Done()
				defer func() {
					if r := recover(); r != nil {
						log.Add("panic s%d %s", a, strings.ReplaceAll(fmt.Sprint(r), " ", "_"))
					}
				}()
				reg(fmt.Sprintf("s%d", a))
				close(ready)
				rounds := 1 + r.Intn(4)
				for k := 0; k < rounds; k++ {
					time.Sleep(time.Duration(r.Intn(500)) * time.Microsecond)
					v := 1000*(a+1) + k
					log.Add("sendcall s%d v=%d", a, v)
					n := x.Send(v)
					log.Add("sendret s%d ret=%d", a, n)
					perturb(r)
				}
			}()
			<-ready
		}
		for i := 0; i < nU; i++ {
			i := i
			r := root.Fork()
			name := fmt.Sprintf("u%d", i)
			wg.Add(1)
			ready := make(chan struct{})
			go func() {
				defer wg.Done()
				defer func() {
					if r := recover(); r != nil {
						log.Add("panic %s %s", name, strings.ReplaceAll(fmt.Sprint(r), " ", "_"))
					}
				}()
				reg(name)
				close(ready)
				rounds := 1 + r.Intn(3)
				for k := 0; k < rounds; k++ {
					select {
					case <-stop:
						return
					default:
					}
					time.Sleep(time.Duration(r.Intn(400)) * time.Microsecond)
					switch r.Pick(10, 8, 2, 1) {
					case 3: // never run, context cancelled, THEN the iterator is called with a nil yield (a caller bug that panics by
						// design): the subscription was already withdrawn by the cancellation and must not be withdrawn twice
						ctx, cancel := context.WithCancel(context.Background())
						seq := x.SubscribeContext(ctx)
						time.Sleep(time.Duration(r.Intn(300)) * time.Microsecond)
						cancel()
						waitUnsub(log, name)
						func() {
							defer func() { recover() }()
							seq(nil)
						}()
						log.Add("nilyield %s", name)
					case 0: // manual subscriber
						x.Add(1)
						left := 1 + r.Intn(4) // rounds before leaving on its own
						for subscribed := true; subscribed; {
							var giveup <-chan time.Time
							if left <= 0 || r.Chance(25) {
								giveup = time.After(time.Duration(r.Intn(800)) * time.Microsecond)
							}
							select {
							case v := <-x.C():
								log.Add("recv %s v=%d", name, v)
								x.Wait()
								log.Add("acked %s v=%d", name, v)
								left--
							case <-giveup:
								x.Add(-1)
								subscribed = false
							case <-stop:
								x.Add(-1)
								subscribed = false
							}
						}
					case 1: // iterator subscriber: cancelled at some instant, or leaving the loop early
						ctx, cancel := context.WithCancel(context.Background())
						helperReady := make(chan struct{})
						go func() {
							reg(name) // the canceller (and the AfterFunc goroutine it creates) act for this subscriber
							close(helperReady)
							select {
							case <-time.After(time.Duration(r.Intn(1500)) * time.Microsecond):
							case <-stop:
							}
							cancel()
						}()
						<-helperReady
						seq := x.SubscribeContext(ctx)
						early := -1
						if r.Chance(40) {
							early = r.Intn(3)
						}
						got := 0
						abort := early >= 0 && r.Chance(35) // leave the loop by a panic in its body (recovered by the caller) instead of break
						func() {
							defer func() {
								if p := recover(); p != nil && p != any("loop body aborted") {
									panic(p)
								}
							}()
							for v := range seq {
								log.Add("yield %s v=%d", name, v)
								got++
								if early >= 0 && got > early {
									if abort {
										panic("loop body aborted")
									}
									break
								}
							}
						}()
						log.Add("iterend %s", name)
						cancel()
						waitUnsub(log, name) // (if the context was cancelled first, the AfterFunc goroutine unsubscribes)
					case 2: // an iterator that is never run: only the context cancellation unsubscribes
						ctx, cancel := context.WithCancel(context.Background())
						x.SubscribeContext(ctx)
						time.Sleep(time.Duration(r.Intn(600)) * time.Microsecond)
						cancel()
						// the AfterFunc goroutine (created by this goroutine) unsubscribes; wait for it
						waitUnsub(log, name)
					}
				}
			}()
			<-ready
		}
		stuck := ""
		if !waitTimeout(&sendersWG, stepTimeout) {
			stuck = "a Send did not return"
		}
		close(stop)
		if stuck == "" && !waitTimeout(&wg, stepTimeout) {
			stuck = "a subscriber call did not return"
		}
		time.Sleep(200 * time.Microsecond)
		rm()
		subs, word, broken := bigbuff.VerifChanPubSubState(x)
		for _, l := range pairRendezvousPS(log.Lines()) {
			t.Line(l, "ok")
		}
		if stuck != "" {
			t.Line("!stuck", stuck)
			continue
		}
		t.Line(fmt.Sprintf("final subs=%d w=%d broken=%v", subs, word, broken), "ok")
	}
}

func waitUnsub(log *evlog.Log, name string) {
	deadline := time.Now().Add(stepTimeout)
	for time.Now().Before(deadline) {
		if hasUnsubAfterLastSub(log.Lines(), name) {
			return
		}
		time.Sleep(50 * time.Microsecond)
	}
}

// hasUnsubAfterLastSub: the log contains, after the last subscribe of `name`, the COMPLETION of an unsubscribe: the
// decrement followed by the read-unlock, or by the caster subtraction and — when that subtraction landed on an armed
// word (lo = hi + MaxInt32), so that the call still has to receive its copy — by the absorbed receive.
func hasUnsubAfterLastSub(lines []string, name string) bool {
	last := -1
	for i, l := range lines {
		if strings.HasPrefix(l, "pubsub.sub.subs "+name+" ") {
			last = i
		}
	}
	if last < 0 {
		return false
	}
	needAbsorb := false
	for _, l := range lines[last:] {
		if strings.HasPrefix(l, "pubsub.unsub.runlock "+name+" ") {
			return true
		}
		if strings.HasPrefix(l, "caster.add.neg "+name+" ") {
			f := strings.Fields(l)
			w, _ := strconv.ParseUint(strings.TrimPrefix(f[len(f)-1], "w="), 10, 64)
			hi, lo := uint32(w>>32), uint32(w)
			if lo == hi {
				return true
			}
			needAbsorb = true
		}
		if needAbsorb && strings.HasPrefix(l, "caster.add.absorbed "+name+" ") {
			return true
		}
	}
	return false
}

// pairRendezvousPS: as pairRendezvous, for the pub/sub log.  Send halves are "caster.send.sent"; receive halves are
// "recv" (manual subscribers), "pubsub.iter.recv" (iterators) and "caster.add.absorbed".  Sends are serialised by
// sendMu and a Send returns only after all its values were received and acknowledged, so every receive half belongs to
// the most recently armed Send.
func pairRendezvousPS(lines []string) []string {
	armed := ""
	sIdx := map[string][]int{}
	rIdx := map[string][]int{}
	ownerOfAbsorber := map[string]string{}
	for i, l := range lines {
		f := strings.Fields(l)
		if len(f) < 2 {
			continue
		}
		switch f[0] {
		case "caster.send.cas":
			if len(f) > 2 && f[2] == "n=1" {
				armed = f[1]
			}
		case "caster.add.neg":
			ownerOfAbsorber[f[1]] = armed // the atomic events are in their real order
		case "caster.send.sent":
			sIdx[f[1]] = append(sIdx[f[1]], i)
		case "recv", "pubsub.iter.recv":
			rIdx[armed] = append(rIdx[armed], i)
		case "caster.add.absorbed":
			o := ownerOfAbsorber[f[1]]
			rIdx[o] = append(rIdx[o], i)
		}
	}
	prev := make([]int, len(lines))
	last := map[string]int{}
	for i, l := range lines {
		f := strings.Fields(l)
		prev[i] = -1
		if len(f) >= 2 {
			if j, ok := last[f[1]]; ok {
				prev[i] = j
			}
			last[f[1]] = i
		}
	}
	drop := map[int]bool{}
	type xf struct {
		r    int
		line string
	}
	at := map[int][]xf{}
	for snd, ss := range sIdx {
		rs := rIdx[snd]
		used := make([]bool, len(rs))
		for _, si := range ss {
			for k, ri := range rs {
				if used[k] || !(prev[si] < ri && prev[ri] < si) {
					continue
				}
				used[k] = true
				pos := prev[si]
				if prev[ri] > pos {
					pos = prev[ri]
				}
				at[pos] = append(at[pos], xf{ri, "xfer " + snd + " " + lines[ri]})
				drop[si], drop[ri] = true, true
				break
			}
		}
	}
	var out []string
	emit := func(pos int) {
		xs := at[pos]
		for i := 0; i < len(xs); i++ {
			for j := i + 1; j < len(xs); j++ {
				if xs[j].r < xs[i].r {
					xs[i], xs[j] = xs[j], xs[i]
				}
			}
		}
		for _, x := range xs {
			out = append(out, x.line)
		}
	}
	emit(-1)
	for i, l := range lines {
		if !drop[i] {
			out = append(out, l)
		}
		emit(i)
	}
	return out
}

func genPubSub(r *rng.R, tier string, i int) []string {
	if i < 8 {
		return []string{fmt.Sprintf("forced %d %d", i%4, r.Intn(1<<30))}
	}
	return []string{fmt.Sprintf("run %d %d %d", 1+r.Intn(3), 1+r.Intn(5), r.Intn(1<<30))}
}

func init() {
	register(&family{name: "pubsub", gen: genPubSub, exec: execPubSub})
}
