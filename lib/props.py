"""Per-property configuration of the checks (what to build, which theorems to audit, which
correspondence components to run).  See DESIGN.md §6."""

import os, re
_REPO = os.environ.get("VERIF_REPO", "/repo")
_LEAN = os.path.join(os.path.dirname(os.path.abspath(__file__)), "..", "lean")

def conform(*mods):
    """(modules, theorem names) of the T1 fact modules BB/Conform/<mod>.lean"""
    names = []
    for m in mods:
        src = open(os.path.join(_LEAN, "BB", "Conform", m + ".lean")).read()
        names += [f"BB.Conform.{m}.{n}" for n in re.findall(r"^theorem\s+(\S+)", src, re.M)]
    return ["BB.Conform." + m for m in mods], names

def with_conform(spec, *mods):
    ms, ns = conform(*mods)
    spec["lean_targets"] = spec["lean_targets"] + ms
    spec["theorems"] = spec["theorems"] + ns
    spec["uses_extract"] = True
    return spec

def has(*tags):
    want = set(tags)
    return lambda t: bool(want & t)

def buffer_probes(ops):
    n = sum(1 for o in ops if o == "new")
    out = ["slice", "size", "put 9001 9002"]
    for i in range(n):
        out += [f"diff {i}", f"get {i}", f"get {i}", f"rollback {i}", f"get {i}"]
    return out + ["slice"]

BUFFER_ASSUME = [
    "L1 layer: each critical section of Buffer.mutex (with the consumer mutex held around it) is one atomic step",
    "Go slices / append / map behave as lists and finite maps; int does not overflow for buffer offsets",
]

PROPS = {
    "C01": dict(
        lean_targets=["BB.Props.C01"],
        theorems=["BB.Props.C01.put_appends_batch", "BB.Props.C01.log_only_grows", "BB.Props.C01.buffer_is_suffix",
                  "BB.Props.C01.get_returns_position", "BB.Props.C01.reads_are_put_order",
                  "BB.Props.C01.start_is_oldest_retained", "BB.Props.C01.stream_contiguous",
                  "BB.Props.C01.position_bounds"],
        corr=[dict(family="buffer", quick=300, thorough=20000, probes=buffer_probes,
                   observable={"put", "get", "slice", "new", "range", "brange"},
                   nontrivial=has("shift_with_delta", "cons_after_shift", "batch2"),
                   rule="buffer: generated Put/Get/Commit/Rollback/NewConsumer/Close/clean/Range scripts executed on the real Buffer "
                        "(cleaner driven through SetCleanerConfig, parked Gets detected through verif hooks) and on the Lean L1 model, "
                        "results and internal state (base, len, committed offsets, deltas) compared after every op; non-trivial = a shift while a "
                        "consumer has uncommitted reads, a consumer created after a shift, or a batched Put (>=2 values)")],
        assumptions=BUFFER_ASSUME,
    ),
    "C02": dict(
        lean_targets=["BB.Props.C02"],
        theorems=["BB.Props.C02.rollback_resets", "BB.Props.C02.rollback_replays", "BB.Props.C02.reads_since_commit",
                  "BB.Props.C02.commit_advances", "BB.Props.C02.commit_permanent", "BB.Props.C02.read_at_or_after_committed",
                  "BB.Props.C02.empty_commit_rollback", "BB.Props.C02.range_failure_rolls_back",
                  "BB.Props.C02.range_panic_value_replayed", "BB.Props.C02.bufferRange_stops_at_end"],
        corr=[dict(family="buffer", quick=300, thorough=20000, probes=buffer_probes,
                   observable={"get", "commit", "rollback", "range", "brange", "diff"},
                   nontrivial=has("rollback_d2", "range_panicked", "brange_panicked", "range_blocked", "range_err:canceled",
                                  "brange_diffstop", "range_stopped", "brange_stopped"),
                   rule="buffer family (see C01); non-trivial = a rollback of >=2 uncommitted reads, or a Range/Buffer.Range that ended by "
                        "panic / blocked Get / Get error / Diff stop / callback stop")],
        assumptions=BUFFER_ASSUME + ["callback panics are modelled as an outcome of the callback script"],
    ),
    "C03": dict(
        lean_targets=["BB.Props.C03"],
        theorems=["BB.Props.C03.defaultCleaner_zero", "BB.Props.C03.defaultCleaner_no_active", "BB.Props.C03.defaultCleaner_spec",
                  "BB.Props.C03.defaultCleaner_bounds", "BB.Props.C03.defaultCleaner_perm", "BB.Props.C03.fixedCleaner_spec",
                  "BB.Props.C03.fixedCleaner_perm", "BB.Props.C03.clampShift_spec", "BB.Props.C03.default_never_evicts",
                  "BB.Props.C03.default_never_past", "BB.Props.C03.no_consumer_no_removal", "BB.Props.C03.evicted_errors_forever",
                  "BB.Props.C03.unaffected_gets_log", "BB.Props.C03.slice_size_diff"],
        corr=[dict(family="cleaner", quick=20, thorough=2000, mismatch_is_violation=True,
                   nontrivial=has("neg_and_zero", "eq_size", "gt_size", "forced", "target_gt_max"),
                   rule="cleaner: exhaustive sweep of DefaultCleaner over size<=6 x offset lists (len<=4 quick / <=5 thorough) over [-2,7], "
                        "FixedBufferCleaner over max,target in [-1,7] x size<=8 x lists len<=2, plus random large inputs; every call compared with "
                        "the Lean functions; non-trivial = offsets with a negative and a zero, an offset = or > size, a forced trim, target > max"),
              dict(family="buffer", quick=200, thorough=10000, probes=buffer_probes,
                   observable={"get", "slice", "size", "diff", "clean", "cleandef", "cleanfix"},
                   nontrivial=has("evict_unread", "past_error", "fixed_forced", "offs_neg_and_zero", "diff_gt_size"),
                   rule="buffer family (see C01) with DefaultCleaner / FixedBufferCleaner / arbitrary cleaner results (incl. <0 and >len); "
                        "non-trivial = a trim past a consumer's read position, a past-offset error, a forced trim, Diff > Size")],
        assumptions=BUFFER_ASSUME,
    ),
    "C13": dict(
        lean_targets=["BB.Props.C13"],
        theorems=["BB.Props.C13.inv_step", "BB.Props.C13.lossless_ordered", "BB.Props.C13.get_fresh_is_head",
                  "BB.Props.C13.get_replays_in_order", "BB.Props.C13.rollback_marks_all", "BB.Props.C13.commit_drops_delivered",
                  "BB.Props.C13.closed_source_no_value", "BB.Props.C13.nothing_taken_after_close", "BB.Props.C13.after_close_errors",
                  "BB.Props.C13.blocked_poll_is_noop", "BB.Props.C13.failed_get_takes_nothing", "BB.Props.C13.waiting_get_is_one_atomic_poll", "BB.Props.C13.waiting_get_sees_rollback"],
        corr=[dict(family="channel", quick=300, thorough=20000, mismatch_is_violation=True,
                   nontrivial=has("rollback_after_partial_reread", "commit_partial_reread", "blocked_closed_src", "ctx_cancel", "get_after_srcclose",
                                  "blocked_get_woken_by_rollback", "blocked_get_woken_by_send", "blocked_get_woken_by_close"),
                   rule="channel: generated send/Get/Commit/Rollback/Buffer/Close/cancel/close-source scripts on a real Channel over a buffered source "
                        "(an empty poll is detected through a verif hook, then the Get context is cancelled) vs the Lean model, with buffer length and "
                        "rollback count compared after every op and the source drained at the end; non-trivial = rollback/commit after a partial "
                        "re-read, a poll of a closed source, a parent-context cancel, a Get after the source was closed; "
                        "bget = a Get left polling on another goroutine while the following operations (send, Rollback, Commit, Close, cancel) run: after each of "
                        "them the harness waits until the Get returned or two further empty polls were logged, and the model must agree (linearisation at the last poll)")],
        assumptions=["each Channel method body is one critical section of Channel.mutex (one model step)",
                     "reflect.Value.TryRecv is modelled as: head of the queue if non-empty, else not-ok (also for a closed channel)"],
    ),
    "C18": dict(
        lean_targets=["BB.Props.C18"],
        theorems=["BB.Props.C18.unpack_not_fatal", "BB.Props.C18.unpack_wrap", "BB.Props.C18.cancelled_no_call", "BB.Props.C18.success_returns",
                  "BB.Props.C18.fatal_returns_unwrapped", "BB.Props.C18.plain_prefix_retried", "BB.Props.C18.stops_at_first_success",
                  "BB.Props.C18.bumpN_zero", "BB.Props.C18.counters_zero", "BB.Props.C18.delay_range"],
        corr=[dict(family="retry", quick=200, thorough=20000, mismatch_is_violation=True,
                   nontrivial=has("nested_fatal", "saturated", "cancel_during_call", "cancel_during_wait", "default_rate", "c_ge_31"),
                   rule="retry: scripted outcome lists (plain error, fatal error nested 1-4 deep with/without result, success) with cancellation before the "
                        "first call / during a call / during the k-th wait, run through the real ExponentialRetry with the delay calculation and the wait "
                        "replaced through verif seams (counter values and rates recorded; the real waitDuration is checked to be cut short), plus the real "
                        "calcExponentialRetry for all c in [0,40] (each result must be a whole number of slots < 2^min(c,31)); non-trivial = nested fatal, "
                        ">=31 retries, cancel during a call or a wait, default rate, c>=31")],
        assumptions=["math/rand's draw is a parameter of the model (any value in [0, 2^min(c,31)) )", "time is abstracted: waits are recorded, not slept"],
    ),
    "C19": dict(
        lean_targets=["BB.Props.C19"],
        theorems=["BB.Props.C19.call_total", "BB.Props.C19.passAll_exact", "BB.Props.C19.passOne_exact", "BB.Props.C19.ok_is_direct_call",
                  "BB.Props.C19.expand_length", "BB.Props.C19.unguarded_panics", "BB.Props.C19.passAll_nil_mismatch", "BB.Props.C19.untyped_nil_for_a_type_without_nil_is_an_error"],
        corr=[dict(family="callable", quick=300, thorough=20000, mismatch_is_violation=True,
                   nontrivial=has("variadic", "untyped_nil_arg", "nil_target", "typed_nil_arg", "wrong_length"),
                   rule="callable: generated signatures (arity 0-3, variadic or not, parameter/result types from {int,string,any,error,*int,[]int,map,func,chan,"
                        "named int,*myErr}) x argument lists (well-typed, wrong kind, wrong length, typed nil, untyped nil) x result targets (CallResults / "
                        "CallResultsSlice with valid, nil-pointer, non-pointer, untyped-nil, wrong-type targets); the callee is a reflect.MakeFunc function that "
                        "records what it received; outcome, received arguments and stored results compared with the Lean model; non-trivial = variadic, "
                        "untyped nil, nil target, typed nil, wrong length")],
        assumptions=["reflect's contract (AssignableTo on the type universe, which operations panic) is modelled",
                     "Call without a CallArgs option for a function that needs arguments is outside the property's scope"],
    ),
    "C15": dict(
        lean_targets=["BB.Props.C15"],
        theorems=["BB.Props.C15.build_wf", "BB.Props.C15.iter_exit", "BB.Props.C15.iter_failure", "BB.Props.C15.iter_success",
                  "BB.Props.C15.iter_never_bad", "BB.Props.C15.accounting", "BB.Props.C15.publish_exactly_once",
                  "BB.Props.C15.eligible_only_matching", "BB.Props.C15.matching_is_eligible", "BB.Props.C15.duplicate_subscribe_rejected", "BB.Props.C15.subscribe_adds_only_that",
                  "BB.Props.C15.unmatched_unsubscribe_rejected", "BB.Props.C15.unsubscribed_is_never_eligible"],
        corr=[dict(family="notifier", quick=300, thorough=20000, mismatch_is_violation=True,
                   nontrivial=has("middle_guard_cancelled", "cancel_among_3", "nil_value", "pub_cancelled", "dup_sub", "bad_unsub", "some_ineligible"),
                   rule="notifier: 3-7 subscriptions (with/without contexts, element types any/int/*int/error, two keys), duplicate Subscribe and unmatched "
                        "Unsubscribe (panic expected, registry size compared), publishes of int / *int / error / untyped nil values with and without a publish context; "
                        "during a publish readiness is released one case at a time in a scripted order (receive on one target or cancel one context), which forces "
                        "reflect.Select's choice; after every choice the loop's failureRefs and the number of pending sends (verif hook) must equal the Lean model's; "
                        "non-trivial = a guarded subscriber in the middle cancelled while others are pending, nil value, cancelled publish, registry panics, "
                        "ineligible subscribers present")],
        assumptions=["reflect.Select is modelled as an arbitrary choice among the ready cases (the harness makes exactly one case ready at a time)",
                     "subscriber ids are pairwise distinct per key (the registry is a map keyed by the channel pointer)"],
    ),
    "C16": dict(
        lean_targets=["BB.Props.C16"],
        theorems=["BB.Props.C16.chainInv_step", "BB.Props.C16.chain_at_most_once", "BB.Props.C16.chain_exactly_once",
                  "BB.Props.C16.combineInv_step", "BB.Props.C16.combine_iff", "BB.Props.C16.conflInv_step", "BB.Props.C16.conflated_iff",
                  "BB.Props.C16.combine_build_cancelled_has_cause", "BB.Props.C16.combine_build_wired_complete", "BB.Props.C16.combine_build_wired_sound",
                  "BB.Props.C16.confl_build_is_model_state", "BB.Props.C16.confl_never_input_is_wired"],
        corr=[dict(family="ctx", quick=300, thorough=8000, mismatch_is_violation=True,
                   nontrivial=has("simultaneous", "both_pre", "primary_pre", "other_pre", "nil_other", "nil_primary", "all_inputs_cancelled",
                                  "cancelfn", "some_pre", "all_pre", "cancel_between_precheck_and_registration", "never_other", "never_input",
                                  "input_cancelled_after_wiring_during_build", "input_cancelled_before_its_check", "primary_cancelled_during_build", "chain_storm", "chain_over_wrapper_context", "immediate_state_checked"),
                   rule="ctx: ChainAfterFunc / CombineContext / ConflatedContext built over 0-4 inputs (live, already cancelled, nil), then cancelled in "
                        "every generated order incl. simultaneously (goroutines behind a barrier); Err() of the result / the call counter of the chained "
                        "function read after quiescence (stable over several reads) and compared with the Lean transition systems run to quiescence; the "
                        "values carried and the number of goroutines left at the end are checked too; non-trivial = simultaneous cancellation, inputs "
                        "already cancelled or nil at construction, all inputs cancelled, explicit cancel function; mkcombinet / mkconflatedt (T4): the inputs are "
                        "wrapped in a context type whose first Err() call during the constructor cancels model-chosen other inputs (so a cancellation lands between an "
                        "input's pre-check and its registration, or before its check), inputs that can never be cancelled (Done() == nil) are included; the result is "
                        "compared with BB.Ctx.combineBuild / conflBuild")],
        assumptions=["context.WithCancel/AfterFunc/WithoutCancel semantics are modelled: cancellation fires each armed registration once and schedules its "
                     "callback as a new goroutine; stop() atomically disarms", "observation is after quiescence (scheduler fairness for the callback goroutines)"],
    ),
    "C14": dict(
        lean_targets=["BB.Props.C14"],
        theorems=["BB.Props.C14.inv_step", "BB.Props.C14.bounded", "BB.Props.C14.exactly_once", "BB.Props.C14.queue_has_worker",
                  "BB.Props.C14.finish_own_job", "BB.Props.C14.wait_sound", "BB.Props.C14.queued_not_stuck", "BB.Props.C14.job_kept",
                  "BB.Props.C14.mu_worker_step", "BB.Props.C14.queued_job_is_eventually_taken", "BB.Props.C14.demoRun_fair", "BB.Props.C14.fifo_observer_is_passive", "BB.Props.C14.jobs_taken_in_call_order", "BB.Props.C14.never_overtaken", "BB.Workers.fifo_inv",
                  "BB.Props.C14.rinv_reach", "BB.Props.C14.worker_never_waits_for_the_caller", "BB.Props.C14.reply_layer_is_passive", "BB.Props.C14.call_returns_its_own_result_once", "BB.Props.C14.no_reply_is_lost"],
        corr=[dict(family="workers", quick=100, thorough=3000, mismatch_is_violation=True, no_shrink=True,
                   nontrivial=has("target_shrinks_queue_nonempty", "exit_with_queue", "parallel_jobs"),
                   rule="workers: 2-6 free-running callers x 3-8 calls with mixed/decreasing counts and PRNG-perturbed job functions on one real Workers; "
                        "events emitted by verif hook points inside the critical sections of Workers.mutex (call/take/exit/wait, with the count and queue length "
                        "the code computed) and by the job functions form one total order that the Lean transition system must accept step by step (every "
                        "step enabled, same count/queue length, job started by the worker that took it, result returned only after the job finished, Wait only "
                        "at count 0); a run that does not terminate is reported; non-trivial = the target shrinks while the queue is non-empty, a worker exits "
                        "with a non-empty queue, >=2 jobs in parallel")],
        assumptions=["each critical section of Workers.mutex is one atomic step; job functions terminate",
                     "no starvation (queued_job_is_eventually_taken) is a leads-to theorem for runs that are weakly fair for the worker steps, from the moment no new Call arrives"],
        open_statements=["no starvation with infinitely many callers: under weak fairness alone it does not hold of the model (nor of the code: every worker may find itself "
                         "surplus each time it looks while callers alternate a large and a small count); the theorem assumes that calls eventually stop arriving"],
    ),
    "C17": dict(
        lean_targets=["BB.Props.C17"],
        theorems=["BB.Props.C17.inv_step", "BB.Props.C17.single_instance", "BB.Props.C17.held_implies_running_open",
                  "BB.Props.C17.stop_after_all_done", "BB.Props.C17.do_blocked_while_stopping", "BB.Props.C17.fresh_instance_after_stop",
                  "BB.Props.C17.unheld_not_stuck", "BB.Props.C17.mu_step", "BB.Props.C17.unheld_stable",
                  "BB.Props.C17.unheld_instance_is_eventually_stopped", "BB.Props.C17.demoRun_fair"],
        corr=[dict(family="worker", quick=300, thorough=5000, mismatch_is_violation=True, no_shrink=True,
                   nontrivial=has("fresh_instance_after_stop", "do_while_watcher_waiting", "stop_seen_before_hook", "churn", "hammer"),
                   rule="worker: every 12th case is a churn program (2-5 holders x 1500-3000 Do/done rounds without any pause: the gaps between the watcher's critical "
                        "sections are only met by hammering); otherwise 1-5 free-running holders x 2-7 Do/done rounds with PRNG perturbation on one real Worker; verif hook points in Do's critical "
                        "section, at the watcher's wait-group take / Wait return / stop close / exit and at the function's return, plus the function's own start / "
                        "saw-stop events, form one total order that the Lean transition system must accept (Do only while the watcher does not hold the mutex, an "
                        "instance started exactly when the model says, stop closed only with no holder outstanding, Wait returns only at counter 0); non-trivial = "
                        "a fresh instance after a stop, a Do while the watcher is waiting on an earlier wait group")],
        assumptions=["the supplied function returns only after its stop channel is closed (contract)", "sync.WaitGroup / mutex semantics modelled"],
        open_statements=["unheld_instance_is_eventually_stopped assumes that no new Do arrives after the last done function was called (otherwise the instance is legitimately kept) "
                         "and weak fairness for the watcher's and the function's steps"],
    ),
}

PROPS["C20"] = dict(
    lean_targets=["BB.Props.C20"],
    theorems=["BB.Props.C20.inv_step", "BB.Props.C20.first_immediately", "BB.Props.C20.at_most_count", "BB.Props.C20.at_most_one_after_cancel",
              "BB.Props.C20.closed_iff_goroutine_gone", "BB.Props.C20.cancelled_goroutine_not_stuck",
              "BB.Props.C20.cancelled_leadsTo_closed", "BB.Props.C20.closed_promptly_after_cancel", "BB.Props.C20.demoRun_fair",
              "BB.Props.C20.forwarded_stamps_nondecreasing", "BB.Props.C20.forwarded_id_of_nondecreasing"],
    corr=[dict(family="attempt", quick=150, thorough=6000, mismatch_is_violation=True, no_shrink=True,
               nontrivial=has("slow_consumer_tick_dropped", "cancel_between_recheck_and_send", "sent_after_cancel", "exit_by_recheck",
                              "exit_by_ctxdone", "pre_cancelled", "count_reached", "recv_after_cancel", "tiny_rate", "cancel_on_slot_full_path", "pre_cancelled_err_only_context"),
               rule="attempt: LinearAttempt with count 1-5, rates 0.3-1.2 ms, receiver prompt / slow / absent, cancellation at a PRNG-chosen instant (or before the call, "
                    "or never); hook points at the tick, before and after the context re-check, at the send / full slot and at exit, plus the receiver's events, form a "
                    "log that the Lean transition system must accept (log lag of unlocked events is accounted for by commuting independent steps); checks: values <= count, "
                    "timestamps non-decreasing, nothing received that was not sent, a re-check that began after cancel() returned must fail, channel closed exactly when "
                    "the goroutine exits; every 25th case is `tiny` (1500 calls at a rate of 1ns-1us: values non-decreasing and at most count — the runtime's ticker stamps "
                    "are NOT monotone there, finding F7), every 50th `slowcancel` (500 ms rate, absent receiver, cancellation on the slot-full retry path: closed within half a "
                    "period); non-trivial = a dropped tick (slow consumer), cancellation between re-check and send, exit through either branch, pre-cancelled")],
    assumptions=["time.Ticker is a fair environment (ticks as environment events); real-time rates are not modelled; its time values are arbitrary "
                 "(forwarded_stamps_nondecreasing) — the tick numbers of BB.Attempt are the forwarded, clamped values",
                 "slowcancel uses wall-clock time with a wide margin (closed within 250 ms of the cancellation; the correct code closes within microseconds)"],
    open_statements=["'closed after the count-th value' needs the receiver to keep receiving (a second fairness class): proved as at_most_count + closed_iff_goroutine_gone; "
                     "'closed promptly after cancellation' is a leads-to theorem under weak fairness of the goroutine alone (closed_promptly_after_cancel)"],
)

def c11_race_search(cx):
    """search component of C11: pairwise concurrent API programs under the Go race detector"""
    import subprocess, time, re, json
    from vcheck import build_go, Lock, GOENV, VERIF, run, LEAN
    with Lock("go"):
        res = build_go(cx.work, ("racer",), race=True)
    rc, o, binp = res["racer"]
    if rc != 0:
        cx.add_obligation("build:racer (-race)", False, o[-1500:])
        cx.violation("build", "racer does not build against /repo: " + o[-400:], dict(broken="go build -race ./cmd/racer", output=o[-3000:]), found_input=False)
        return
    # a broken table obligation widens the search (that is the search for a failing input)
    broken = any((not ok) and n.startswith("BB.Conform.C11") for (n, ok, _) in cx.obligations)
    iters = (60 if cx.quick() else 1500) * (5 if broken else 1)
    t0 = time.time()
    env = dict(GOENV, GORACE="halt_on_error=0")
    p = subprocess.run([binp, "-iters", str(iters), "-seed", str(cx.seed)], stdout=subprocess.PIPE, stderr=subprocess.PIPE, text=True,
                       env=env, timeout=3000)
    err = p.stderr
    pairs = re.findall(r"^PAIR (.*)$", err, re.M)
    blocks = re.split(r"(?==+\nWARNING: DATA RACE)", err)
    races = [b for b in blocks if "WARNING: DATA RACE" in b and (_REPO + "/") in b]
    stuck = re.findall(r"^STUCK (.*)$", err, re.M)
    cx.cov["evaluations"] += len(pairs)
    cx.cov["distinct_nontrivial"] += len(set(pairs))
    cx.cov["components"].append(dict(family="racer", pairs=len(pairs), iterations_per_pair=iters, races=len(races), stuck=stuck, wall_s=round(time.time() - t0, 2)))
    if len(cx.cov["samples"]) < 3:
        cx.cov["samples"].append(dict(racer_pairs=pairs[:12]))
    cx.rules.append("racer (search, not proof): every unordered pair of public operations per type (Buffer+consumers, Channel, Workers, Worker, Exclusive, Notifier, "
                    "ChanPubSub, ChanCaster, context combinators, WaitCond) run concurrently for N iterations under -race; a report with a library frame is a failing input; "
                    "distinct = distinct pair")
    seen = set()
    for b in races:
        frames = re.findall(r"go-bigbuff\.([^\s]+)\n\s+(" + re.escape(_REPO) + r"/[^\s]+)", b)
        sig = tuple(sorted(set(f[1].split(" ")[0] for f in frames)))[:4]
        if sig in seen:
            continue
        seen.add(sig)
        # the pair that was running when the report appeared
        before = err[:err.find(b)]
        pair = (re.findall(r"^PAIR (.*)$", before, re.M) or ["?"])[-1]
        cx.violation("race", f"data race inside the library while running pair [{pair}]: " + "; ".join(f"{a} {b_}" for a, b_ in frames[:4]),
                     dict(property="C11", kind="race", pair=pair, seed=cx.seed, iterations=iters, report=b[:4000]), found_input=True,
                     pair=pair, frames=" ".join(f[0] for f in frames[:6]))
        if len(seen) >= 5:
            break
    if broken:
        # describe the offending accesses of the table
        path = os.path.join(cx.work, "Offenders.lean")
        open(path, "w").write("import BB.Conform.C11Policy\nopen BB.Conform.C11\n#eval offenders.map describe\n")
        rc2, o2 = run(["lake", "env", "lean", path], cwd=LEAN, timeout=600)
        cx.cov["offending_accesses"] = o2[-3000:]
        for v in cx.violations:
            if v.get("obligation", "").startswith("BB.Conform.C11"):
                v["replay"]["offending_accesses"] = o2[-3000:]

PROPS["C11"] = dict(
    lean_targets=["BB.Proofs.Lockset", "BB.Conform.C11"],
    theorems=["BB.LocksetTheory.excl_step", "BB.LocksetTheory.holds_persists", "BB.LocksetTheory.conflicting_accesses_ordered",
              "BB.Conform.C11.access_table_consistent", "BB.Conform.C11.table_covers", "BB.Conform.C11.lock_order_facts",
              "BB.Conform.C11.no_captured_variable_written_after_launch", "BB.Conform.C11.combine_publishes_cleanup_after_wiring"],
    corr=[],
    custom=[c11_race_search],
    uses_extract=True,
    assumptions=["Go memory model: a release/acquire pair on a sync.Mutex/RWMutex orders the critical sections (modelled by the abstract lock semantics of BB/Proofs/Lockset.lean)",
                 "the translator attributes accesses and computes must-hold locksets (trusted; mechanical); accesses it cannot see (reflection, values behind interfaces, "
                 "channel element hand-over, atomics) are outside the table",
                 "two allowances justified in BB/Conform/C11Policy.lean: Worker.stop/done read by Worker.do (go edge + close/receive), exclusiveItem.work read by the runner after the swap"],
)

PROPS["C05"] = dict(
    lean_targets=["BB.Core.Fair", "BB.Props.C05"],
    theorems=["BB.LTS.leadsTo", "BB.Props.C05.inv_step_table", "BB.Props.C05.inv_reach", "BB.Props.C05.nil_only_after_predicate_true",
              "BB.Props.C05.error_only_if_cancelled", "BB.Props.C05.no_lost_wakeup", "BB.Props.C05.not_stuck",
              "BB.Props.C05.cancelled_leadsTo_return", "BB.Props.C05.predicate_true_leadsTo_return",
              "BB.Props.C05.watcher_without_lock_loses_wakeup", "BB.Props.C05.mutator_without_broadcast_loses_wakeup",
              "BB.Props.C05.failed_get_no_advance", "BB.Props.C05.waiting_ignores_values", "BB.Props.C05.get_commutes_with_renaming",
              "BB.Props.C05.put_commutes_with_renaming", "BB.Props.C05.put_of_any_value_ends_the_wait"],
    corr=[dict(family="waitcond", quick=6, thorough=300, mismatch_is_violation=True, no_shrink=True,
               nontrivial=has("event_between_check_and_park"),
               rule="waitcond (forced schedules, T4): the real WaitCond with {cancel, a mutator that sets the predicate and broadcasts in one critical section, both} "
                    "placed {before the call, with the waiter held just before the predicate, held between predicate and cond.Wait, after it parked}; the waiter/"
                    "watcher are held at verif hook points (gates); result nil / ctx error / hang compared with the Lean transition system run under a fair scheduler; "
                    "non-trivial = the event lands between the check and the park"),
          dict(family="bufgate", quick=2, thorough=60, mismatch_is_violation=True, no_shrink=True, timeout=2400,
               nontrivial=has("event_between_check_and_park"),
               rule="bufgate (forced schedules, T4): a blocking consumer.Get on a real Buffer with {Put, cancel of the Get context, Buffer.Close, consumer.Close} placed in "
                    "{before, consumer mutex held, after the synchronous attempt, waiter spawned, waiter about to park, parked}; result of the Get and of the following "
                    "Put+Get (a failed Get consumed nothing) compared with the Buffer L1 model; consumer.Close during a Get is predicted to wait for the Get (proviso of C12)"),
          dict(family="buffer", quick=150, thorough=5000, probes=buffer_probes, observable={"get", "range", "brange"},
               nontrivial=has("get_blocked", "range_blocked"),
               rule="buffer family (see C01): sequential scripts incl. Gets that park (detected through hooks) and are cancelled; non-trivial = a Get that blocked")],
    assumptions=["sync.Cond semantics modelled (Wait = atomically enqueue + unlock; Broadcast notifies the enqueued); weak fairness of the scheduler for the two leadsTo theorems",
                 "the WaitCond model has one waiter; other waiters on the same cond appear as spurious notifications; mutators are single critical sections (T1 facts + C11)"],
)

PROPS["C04"] = dict(
    lean_targets=["BB.Core.Fair", "BB.Props.C04"],
    theorems=["BB.Props.C04.inv_step_table", "BB.Props.C04.inv_reach", "BB.Props.C04.pending_evaluation", "BB.Props.C04.reclaim_leadsTo",
              "BB.Props.C04.at_most_one_expiry", "BB.Props.C04.rebroadcast_lost_without_buffer_mutex", "BB.Props.C04.fixed_quiescent_bound"],
    corr=[dict(family="cleangate", quick=2, thorough=60, mismatch_is_violation=True, no_shrink=True, timeout=2400,
               nontrivial=has("rebroadcast_vs_park_window", "window_cooldown", "cooldown_zero"),
               rule="cleangate (forced schedules, T4): the LAST state change (a commit, or the close of the slowest consumer) is placed {with an idle cleaner, inside a "
                    "running cooldown, inside a cooldown with the cleanup goroutine held between recording the change and parking until the timer has fired}; then nothing "
                    "else happens and Size must reach the backlog (0) within 3 cooldowns + 1.5 s; prediction from the Lean cleanup model under a fair scheduler"),
          dict(family="bufconc", quick=40, thorough=2000, mismatch_is_violation=True, no_shrink=True, nontrivial=has("quiet_reclaim", "shift"),
               rule="bufconc (see C01) with the quiet-phase check: after the workload stops, nothing reclaimable may remain (real cleaner, cooldown 0 / 200us)")],
    assumptions=["real time is abstracted: an armed timer fires as an environment action; 'bounded delay' = at most one timer expiry plus finitely many fair scheduler steps",
                 "sentence 1 of the property is formalised for the cleaner evaluation the code performs (DefaultCleaner reclaims what every open consumer committed past); "
                 "the liveness theorem is for runs that become quiet (no mutator acts any more), as the property says 'even if no further operation ever happens'"],
)

PROPS["C12"] = dict(
    lean_targets=["BB.Core.Fair", "BB.Props.C12", "BB.Props.C13", "BB.Props.C14", "BB.Props.C17", "BB.Props.C20", "BB.Props.C16"],
    theorems=["BB.Props.C12.put_new_fail_after_close", "BB.Props.C12.get_fails_after_close", "BB.Props.C12.commit_fails_when_nothing_pending",
              "BB.Props.C12.close_keeps_contents_and_closes_consumers", "BB.Props.C12.inv_step_table", "BB.Props.C12.close_leadsTo_no_goroutine",
              "BB.Props.C12.timer_goroutine_outlives_close_without_ctx_select", "BB.Props.C12.waitcond_watcher_exits",
              "BB.Props.C13.after_close_errors", "BB.Props.C13.nothing_taken_after_close", "BB.Props.C14.wait_sound", "BB.Props.C14.queued_not_stuck",
              "BB.Props.C17.unheld_not_stuck", "BB.Props.C20.closed_iff_goroutine_gone", "BB.Props.C20.cancelled_goroutine_not_stuck",
              "BB.Props.C16.conflated_iff", "BB.Props.C16.combine_iff"],
    corr=[dict(family="lifecycle", quick=40, thorough=1500, mismatch_is_violation=True, no_shrink=True,
               nontrivial=has("long_cooldown", "shutdown_order"),
               rule="lifecycle: a program creates a Buffer (cooldown 5 s / 50 ms / 0) with consumers, a Channel, Workers, a Worker, Exclusive calls, Notifier.SubscribeCancel, "
                    "CombineContext, ConflatedContext, LinearAttempt and a WaitCond call, leaves some operations in flight (blocked Gets), then closes / cancels everything "
                    "concurrently in a PRNG-chosen order, probes the API after Close (Put/NewConsumer/second Close/Channel Get+Commit+Close errors, Done closed) and takes a "
                    "goroutine dump: within 500 ms no goroutine with a library frame may remain; expectations from the Lean models; non-trivial = long cooldown / random order"),
          dict(family="buffer", quick=150, thorough=5000, probes=buffer_probes, observable={"closec", "closebuf", "put", "new", "get", "commit"},
               nontrivial=has("close_waiting", "bufclose_waiting", "bufclose", "close_twice"),
               rule="buffer family (see C01): sequential scripts with consumer / buffer Close incl. Close that waits for uncommitted reads, double Close, operations after Close"),
          dict(family="channel", quick=150, thorough=5000, mismatch_is_violation=True, nontrivial=has("close", "ctx_cancel"),
               rule="channel family (see C13): Close / parent-context cancel, operations afterwards")],
    assumptions=["scheduler weak fairness for the goroutine-exit theorems; timers as environment events; the goroutine dump is an observation (500 ms grace), not a proof",
                 "the proviso of the property (no uncommitted reads, no Get left blocked on a consumer being closed) is built into the model: consumer.Close waits for the consumer mutex"],
)

# Which rejections of the Exclusive event log are failing inputs of which property.  Everything else (item identity,
# counts, order of internal events) breaks the correspondence only: reported with no-failing-input-found.
_EXCL_C09_OBS = ("two work functions of one key overlap", "did not finish while key 0")
_EXCL_C10_OBS = ("outcome", "executed function was not supplied", "supplied under another key", "a key is still in the map", "model: map empty",
                 "no resolve-not-called outcome", "callers did not return", "goroutines of some calls did not finish",
                 "delivered a result, but in the model", "once-only resolve body ran twice", "calls not finished in the model",
                 "no execution of its key began after it")
def excl_monitor(prop, m, trace):
    """a rejected Exclusive event log is a failing input of a property only if the rejection is on something the property states"""
    text = m.get("expected", "") + " " + m.get("observed", "")
    if prop == "C09":
        if m.get("op", "").split(" ")[0] in ("firstrace", "waitend") and "overlaps=0 " not in m.get("observed", ""):
            return "first calls racing on a fresh Exclusive: the harness counted work functions of one key executing at the same time"
        if "overlap key=" in trace:
            return "the harness observed two work functions of one key executing at the same time (the 'overlap' line of the trace)"
        if any(k in text for k in _EXCL_C09_OBS):
            return "calls of another key were delayed by a busy key / work functions overlapped"
        return None
    if m.get("op", "").split(" ")[0] in ("firstrace", "waitend") and ("hung=0" not in m.get("observed", "") or "wrong=0" not in m.get("observed", "")):
        return "first calls racing on a fresh Exclusive: a Call got no outcome or another one than its key's"
    if "unanswered " in trace:
        return "a call was made and returned, but no execution of its key began after it (the 'unanswered' line of the trace: harness-side lost-call monitor)"
    if any(k in text for k in _EXCL_C10_OBS):
        return "an outcome, the executed function, termination or the final map state differs from what the proved model allows"
    return None

_EXCL_RULE = ("exclusive: 2-10 (thorough: up to 27) calls of all styles (Call, CallAfter, CallAsync, Start, StartAfter, CallWithOptions with ExclusiveWork / "
              "ExclusiveStart / ExclusiveWait) on 1-3 keys of one real Exclusive, each from its own goroutine; harness work functions resolve at once, block on a gate before or "
              "after resolving (the resolve-to-return gap), resolve twice, resolve from three goroutines at once, resolve with an error result and keep running, or return without resolving; every fifth case is `firstrace`: for 350 ms, fresh zero-value instances whose 3-9 first Call / Start calls race behind one gate on 1-2 keys, harness-side overlap counter; every tenth is `waitend`: a CallAfter whose 0.3-1.2 ms wait ends while 3-6 goroutines keep calling Start / Call / StartAfter on its key and another; 20 forced schedules (16 handover schedules + 4 stale-fetch schedules: a call fetches the runner's item while the runner holds the key's mutex at its `run` hook, the runner installs its successor and is held again right before invoking its work function, the call must find the item stale without having touched it; 8 of the handover schedules with a Start as the call that arrives while the runner sits in its clear hook, and nothing else on that key afterwards: a lost Start shows as an 'unanswered' line of the harness-side lost-call monitor); the controller releases gates in a PRNG interleaving and, with several keys, "
              "keeps key 0's work blocked until every caller of the other keys has returned (a blocked key is reported as !stuck); the verif hook events (attach with count, "
              "escape, deliver, run, swap, work, resolve, returned, clear with count), attributed to calls through the creating goroutine, plus the functions' own events and the "
              "received outcomes must be accepted step by step by one instance of the Lean transition system per key (item identity, counts, who becomes the runner and when, "
              "which function runs, every outcome = the model's, exactly one per non-start call, map empty at quiescence)")
PROPS["C09"] = dict(
    lean_targets=["BB.Props.C09"],
    theorems=["BB.Props.C09.single_runner_region", "BB.Props.C09.exclusive_per_key", "BB.Props.C09.start_requires_previous_returned",
              "BB.Props.C09.successor_blocked_until_clear", "BB.Props.C09.attaches_go_to_successor", "BB.Props.C09.component_reach",
              "BB.Props.C09.exclusive_every_key", "BB.Props.C09.keys_independent", "BB.Props.C09.keys_commute", "BB.Exclusive.inv_reach"],
    corr=[dict(family="exclusive", quick=250, thorough=8000, monitor=excl_monitor, no_shrink=True,
               nontrivial=has("attach_in_resolve_to_return_gap", "first_attach_to_successor", "successor_has_waiters", "other_keys_done_while_key0_busy",
                              "attach_during_callafter_wait"),
               rule=_EXCL_RULE + "; non-trivial = a call arriving in the resolve-to-return gap or during a CallAfter wait, a successor with waiters at the hand-over, "
                    "other keys finishing while key 0 is busy")],
    assumptions=["sync.Mutex / sync.Cond semantics modelled (a critical section of the item mutex = one step); goroutine scheduling is an arbitrary interleaving of steps",
                 "keys are modelled as a product of per-key systems: justified by the T1 facts (the map mutex is the only shared lock and is never held across a blocking node) "
                 "and observed by the two-key runs, not proved from the Go semantics"],
    open_statements=[],
)
PROPS["C10"] = dict(
    lean_targets=["BB.Props.C10"],
    theorems=["BB.Props.C10.execution_began_after_call", "BB.Props.C10.answered_by_later_execution", "BB.Props.C10.done_calls_answered",
              "BB.Props.C10.start_calls_get_no_outcome", "BB.Props.C10.outcome_received_once", "BB.Props.C10.coalesced_identical",
              "BB.Props.C10.executed_function_supplied", "BB.Props.C10.resolve_not_called", "BB.Props.C10.executions_le_calls",
              "BB.Props.C10.no_state_remains", "BB.Props.C10.no_deadlock", "BB.Props.C10.every_call_is_eventually_answered",
              "BB.Props.C10.answer_distance_bounded", "BB.Props.C10.demoRun_fair"],
    corr=[dict(family="exclusive", quick=250, thorough=8000, monitor=excl_monitor, no_shrink=True,
               nontrivial=has("coalesced", "fn_of_later_caller", "resolve_not_called", "deliver", "start_escape", "key_deleted",
                              "attach_in_resolve_to_return_gap", "outcome_before_hook", "fewer_executions_than_calls"),
               rule=_EXCL_RULE + "; non-trivial = coalesced calls, the function of a later caller executed, resolve-not-called, a start-style escape, "
                    "a call in the resolve-to-return gap answered by the next execution")],
    assumptions=["sync.Mutex / sync.Cond semantics modelled; the ghost clock orders attach and start-of-execution events (both inside / right after critical sections of the key's mutex)",
                 "work functions are environment steps: resolve at most once effective (sync.Once modelled), return eventually only where a theorem says so"],
    open_statements=["every_call_is_eventually_answered assumes weak fairness for the state-dependent class `helpful t` (the step the call is waiting for); its derivation from "
                     "per-action weak fairness of the scheduler is not written as a theorem"],
)

def c08_sticky_search(cx):
    """last clause of C08 ("every later call panics too") evaluated directly on the real ChanCaster: in every sequential
    casterword case, once a call has panicked no later call may succeed.  The clause is false of the unchanged code in two
    ways (known finding F6); any other way is a new violation."""
    import re
    from vcheck import run_corr, split_cases, VERIF
    MAXR = 2147483647
    corr_bin = cx.bins["corr"]
    runs = []
    cdir = os.path.join(VERIF, "corpus", "casterword")
    if os.path.isdir(cdir):
        for fn in sorted(os.listdir(cdir)):
            if fn.endswith(".ops"):
                runs.append(run_corr(corr_bin, "casterword", ["-script", os.path.join(cdir, fn)], cx.work, "sticky-" + fn))
    runs.append(run_corr(corr_bin, "casterword", ["-seed", str(cx.seed * 7919 + 11), "-n", str(300 if cx.quick() else 20000), "-tier", cx.tier], cx.work, "sticky-gen"))
    seen, checked, after_panic = {}, 0, 0
    for r in runs:
        for cid, lines in split_cases(r["trace"]).items():
            checked += 1
            first, prev_w, first_prev_w = None, 0, 0
            ops = []
            for ln in lines:
                m = re.match(r"(add|send) (-?\d+) => (ok (-?\d+)|panic|skipped)(?: w=(\d+))?", ln)
                if not m:
                    continue
                op, arg, res, w = m.group(1), int(m.group(2)), m.group(3), m.group(5)
                ops.append(ln)
                if res == "skipped":
                    continue
                w = int(w)
                if first is None:
                    if res == "panic":
                        first, first_prev_w, first_w = (op, arg), prev_w, w
                else:
                    after_panic += 1
                    if res != "panic":
                        # the clause is violated here: classify by how the successful call became possible
                        if first[0] == "add" and abs(first[1]) > MAXR and first_w == first_prev_w:
                            cls = "out-of-bounds-delta-panics-without-a-trace"
                        elif (prev_w >> 32) == (prev_w & 0xffffffff) and (prev_w >> 32) <= MAXR:
                            cls = "a-later-panicking-add-restores-a-valid-word"
                        else:
                            cls = "other"
                        if cls not in seen:
                            seen[cls] = (cid, list(ops))
                        break
                prev_w = w
    cx.cov["evaluations"] += checked
    cx.cov["components"].append(dict(family="casterword/sticky-monitor", cases=checked, calls_after_a_panic=after_panic, classes=sorted(seen)))
    cx.rules.append("sticky monitor: in every sequential casterword case, after the first panicking call no later call may return normally (evaluated on the real code)")
    for cls, (cid, ops) in seen.items():
        cx.violation("sticky", f"a call succeeded after an earlier call had panicked ({cls}): " + " ; ".join(ops[-6:]),
                     dict(property="C08", kind="sticky", cls=cls, case=cid, input=[o.split(" => ")[0] for o in ops], observed=ops,
                          how="bin/check replay <this file> re-runs the operations on the real ChanCaster"),
                     found_input=True, cls=cls, family="casterword")

PROPS["C08"] = dict(
    lean_targets=["BB.Props.C08"],
    theorems=["BB.Props.C08.contract_never_panics", "BB.Props.C08.one_send_at_a_time", "BB.Props.C08.arm_counts_current_registrations",
              "BB.Props.C08.sends_bounded", "BB.Props.C08.send_counts", "BB.Props.C08.no_registration_during_send", "BB.Props.C08.racing_deregistration",
              "BB.Props.C08.registrations_conserved", "BB.Props.C08.send_never_stuck", "BB.Props.C08.absorbing_never_stuck",
              "BB.Props.C08.out_of_range_add_panics", "BB.Props.C08.unbalanced_remove_during_send_panics", "BB.Props.C08.in_range_add_ok",
              "BB.Props.C08.panic_sticky_partial", "BB.Props.C08.panic_not_sticky", "BB.Props.C08.out_of_bounds_delta_leaves_no_trace",
              "BB.Caster.cinv_reach", "BB.Props.C08.send_holding_the_mutex_returns", "BB.Props.C08.absorbing_add_returns", "BB.Props.C08.demoRun_fair", "BB.Caster.absorbing_leadsTo", "BB.Caster.no_absorber_after_send_phase", "BB.Caster.holder_leadsTo_out", "BB.Caster.holdRank_step", "BB.Caster.holder_enabled"],
    corr=[dict(family="casterword", quick=400, thorough=30000, mismatch_is_violation=True,
               nontrivial=has("panic_overflow", "panic_underflow", "panic_out_of_bounds_delta", "panic_on_bad_word", "panic_restores_valid_word",
                              "send_buffered", "send_panic_on_bad_word"),
               rule="casterword: sequential Add(delta) / Send calls on one real ChanCaster (buffered channel so that Send completes alone): mostly in-range deltas tracked by the "
                    "generator, plus unbalanced removals, overflows, deltas at and beyond +-MaxInt32, +-2^32, Min/MaxInt64, and arbitrary calls after the first panic; panics recovered; "
                    "after every call the returned value, panic or not, and the 64-bit state word must equal the Lean word model's; non-trivial = a panic of each kind, calls on a "
                    "corrupted word, a buffered Send"),
          dict(family="caster", quick=200, thorough=8000, mismatch_is_violation=True, no_shrink=True,
               nontrivial=has("remove_during_send", "cas_failed_by_racing_remove", "remove_between_load_and_cas", "send_with_removals", "absorb", "send_slow_zero"),
               rule="caster: 1-3 senders (1-3 Sends each) and 1-6 contract-following receivers (Add(+1..3), then per registration receive or Add(-k) after a PRNG delay / at stop) "
                    "on one real ChanCaster over an unbuffered channel; every atomic operation on the state word is bracketed by begin/end hooks whose handler serialises them and "
                    "logs the word they left; lock-section hooks; the halves of each channel rendezvous are paired under their program-order constraints; the log must be accepted "
                    "step by step by the Lean protocol model (exact state word at every atomic event, CAS success/failure, who absorbs what, every received value is the armed "
                    "Send's, every Send's return value, word 0 and nothing outstanding at the end); non-trivial = a removal racing an armed Send / landing between load and CAS")],
    custom=[c08_sticky_search],
    assumptions=["sync.RWMutex as writer flag + 'some reader inside' (writer preference not modelled: more behaviours, safety unaffected); atomics sequentially consistent",
                 "unbuffered channel = rendezvous; receivers follow Add's contract (balanced removals, no receive without registration, total <= MaxInt32): outside it only the "
                 "word-level theorems apply",
                 "buffered channels: only the word arithmetic (casterword) is tied; the protocol theorems are for the unbuffered case"],
    open_statements=["'every later call panics too' is false of the code (panic_not_sticky, known finding F6); proved instead: panic_sticky_partial",
                     "termination of a Send that holds the mutex is a leads-to theorem (send_holding_the_mutex_returns, weak fairness of the holder's steps and of the rendezvous with receivers); an absorbing negative Add returns (absorbing_add_returns, same fairness); acquiring the mutex (RWMutex writer vs. a stream of readers) is proved only as 'an enabled step exists'"],
)

_PS_RULE = ("pubsub: 1-3 senders (1-4 Sends each) and 1-5 subscriber goroutines (1-3 subscriptions each: manual Add(1) / receive-then-Wait / Add(-1) after a PRNG delay, "
            "SubscribeContext iterators cancelled at a PRNG instant or left early, iterators that are never run) on one real ChanPubSub; every atomic operation on the subscriber "
            "counter and on the embedded caster's state word is bracketed by begin/end hooks whose handler serialises them and logs the value they left; lock-section hooks for "
            "sendMu / sendingMu / pongC.L sections; TryRLock outcomes; the halves of each channel rendezvous are paired under their program-order constraints; the log must be "
            "accepted step by step by the Lean protocol model (exact counter and caster word at every atomic event, who receives / absorbs, the value received is the current "
            "Send's, pongs published = values received, every Wait consumes a published pong, every Send's return value, nothing outstanding and not broken at the end); a call "
            "that does not return is reported as !stuck; the first 8 cases of every run are forced schedules (T4): the sender is held after ping.Send's fast-path load / after the "
            "load of the CAS loop / after the CAS while a subscriber unsubscribes (the unsubscribe lands between ping.Add and the CAS, makes the CAS fail, empties the caster, or absorbs)")
_PS_C06_OBS = ("its loop body was handed", "received a value that is not", "Send returned", "the iterator yielded", "acknowledged value differs", "pongs to wait for", "Wait consumed a pong",
               "Send stopped waiting", "Send returned before its pongs", "a value was received by a subscriber that is not between rounds", "fast path")
_PS_C07_OBS = ("a call panicked", "while still holding sendingMu", "unsubscribe by a subscriber that is not between rounds", "TryRLock succeeded while", "panic: bigbuff", "state invariant violation", "the model panics here", "did not return", "broken", "final validation panicked", "left through its deferred unlock", "subscribers left at the end",
               "final subscriber count", "caster word not 0")
def ps_monitor(prop, m, trace):
    text = m.get("expected", "") + " " + m.get("observed", "")
    if prop == "C06" and any(k in text for k in _PS_C06_OBS):
        return "a delivery / acknowledgement / return value differs from what the proved model allows"
    if prop == "C07" and any(k in text for k in _PS_C07_OBS):
        return "a call did not return, a state-invariant panic occurred, or the final counters are off"
    return None

PROPS["C06"] = dict(
    lean_targets=["BB.Props.C06"],
    theorems=["BB.Props.C06.sends_serialised", "BB.Props.C06.standing_subscribers_are_owed", "BB.Props.C06.send_phase_result",
              "BB.Props.C06.no_second_copy_in_a_round", "BB.Props.C06.pongs_match_receptions", "BB.Props.C06.send_returns_after_all_acks",
              "BB.Props.C06.no_subscription_during_send_phase", "BB.Props.C06.send_zero_when_nobody",
              "BB.Props.C06.received_message_is_next_in_order", "BB.Props.C06.subscription_starts_after_current_log",
              "BB.Props.C06.global_order_grows_by_arming", "BB.PubSub.pinv123_reach",
              "BB.Props.C06.history_observer_is_passive", "BB.Props.C06.subscription_sees_contiguous_run", "BB.Props.C06.ith_reception_is_ith_position",
              "BB.Props.C06.common_messages_agree", "BB.Props.C06.armed_send_has_its_own_position", "BB.Props.C06.later_send_is_later_in_order",
              "BB.PubSub.hinv_reach"],
    corr=[dict(family="pubsub", quick=150, thorough=6000, monitor=ps_monitor, no_shrink=True,
               nontrivial=has("absorb", "unsub_during_send_phase", "deliver_iter", "unsub_between_ping_add_and_cas", "cas_failed_by_racing_unsubscribe", "send_returned_zero_after_lock", "forced_schedule_reached"),
               rule=_PS_RULE + "; non-trivial = an unsubscribe absorbing its copy during the send phase, iterator deliveries, a Send that finds everybody gone after locking")],
    assumptions=["sync.Mutex / RWMutex / Cond / atomics semantics modelled; TryRLock may fail whenever a Send holds or awaits sendingMu (spurious failures only add spinning)",
                 "the embedded caster's own RWMutex is not modelled (only the holder of sendMu ever takes it)",
                 "subscribers follow the documented contract (receive then Wait; unsubscribe only between rounds; no receive while unsubscribing)"],
    open_statements=["whole-history order is proved over the model extended with a passive observer (start position, values seen, arming position): "
                     "subscription_sees_contiguous_run; the observer is shown not to change the behaviours (history_observer_is_passive); "
                     "the observer itself is not part of the Go code: the T3 oracle compares received values with the model's per-subscription expectation"],
)
PROPS["C07"] = dict(
    lean_targets=["BB.Props.C07"],
    theorems=["BB.Props.C07.no_invariant_panic", "BB.Props.C07.subscriber_count_exact", "BB.Props.C07.quiescent_counts",
              "BB.Props.C07.one_send_at_a_time", "BB.Props.C07.no_membership_section_during_send", "BB.Props.C07.sends_left_are_all_owed",
              "BB.Props.C07.no_deadlock", "BB.PubSub.pinv12_reach", "BB.LockOrder.no_wait_cycle",
              "BB.Props.C07.send_past_the_lock_returns", "BB.Props.C07.pending_waits_and_absorbs_finish", "BB.Props.C07.demoRun_fair", "BB.PubSub.exit_releases_sendMu", "BB.PubSub.after_return_all_acknowledged", "BB.PubSub.send_leadsTo_out", "BB.PubSub.sendRank_step",
              "BB.PubSub.send_enabled", "BB.PubSub.send_exit_is_done", "BB.PubSub.pc_next"],
    corr=[dict(family="pubsub", quick=150, thorough=6000, monitor=ps_monitor, no_shrink=True,
               nontrivial=has("absorb", "unsub_during_send_phase", "unsub_try_failed", "unsub_spin", "unsub_between_ping_add_and_cas", "cas_failed_by_racing_unsubscribe", "nil_yield_after_cancel"),
               rule=_PS_RULE + "; non-trivial = unsubscribes that fail TryRLock (spin, see the Send in progress, route the decrement through the caster)")],
    assumptions=PROPS["C06"]["assumptions"] if "C06" in PROPS else [],
    open_statements=["termination of a Send that has acquired sendingMu is a leads-to theorem (send_past_the_lock_returns: rank = phase + work the subscribers still owe, "
                     "weak fairness of the Send's steps, the rendezvous, Wait's pong consumption and the non-spin unsubscribe steps); ACQUIRING sendMu / sendingMu is proved "
                     "only as deadlock freedom: the model does not give sync.RWMutex's writer preference (new readers may keep entering while a writer waits), so a "
                     "leads-to for that phase is false of the model; pending Waits and mid-send unsubscribes finish before the Send's return is complete (pending_waits_and_absorbs_finish); Subscribe and a spinning "
                     "Unsubscribe then only need the free sendingMu (no_deadlock)"],
)

with_conform(PROPS["C01"], "Buffer")
with_conform(PROPS["C02"], "Buffer")
with_conform(PROPS["C03"], "Buffer")
with_conform(PROPS["C13"], "Channel")
with_conform(PROPS["C16"], "Ctx")
with_conform(PROPS["C05"], "WaitCond", "Buffer", "Generic")

def _bufconc(tags):
    return dict(family="bufconc", quick=60, thorough=3000, mismatch_is_violation=True, no_shrink=True, nontrivial=has(*tags),
                rule="bufconc (concurrent, T3): 1-3 producers with batched Puts, 1-4 consumers (half of them shared by two goroutines) doing Get/Commit/Rollback, "
                     "consumers created and closed mid-run, the real cleaner goroutine (DefaultCleaner or FixedBufferCleaner(12,4), cooldown 0/200us); every event is emitted by a "
                     "verif hook INSIDE the critical section of Buffer.mutex / the consumer mutex (put batch, new consumer base, get relative index, commit offset, cleaner result, "
                     "delete), so the log is a linearisation that the Lean L1 model must accept step by step (same index arithmetic, same cleaner result, same errors); values "
                     "returned to callers must be reads of the model; final base/len/head compared")

PROPS["C01"]["corr"].append(_bufconc(["shift_with_delta", "cons_after_shift", "batch2", "get_after_shift"]))
PROPS["C02"]["corr"].append(_bufconc(["rollback_d2", "rollback", "commit"]))
PROPS["C03"]["corr"].append(_bufconc(["evict_unread", "past_error", "shift", "consumer_closed"]))
PROPS["C05"]["corr"].append(_bufconc(["get_pending"]))
with_conform(PROPS["C04"], "Cleanup", "Buffer", "WaitCond")
with_conform(PROPS["C12"], "Lifecycle", "Cleanup", "WaitCond", "Channel", "Ctx", "LockOrder", "Generic")
PROPS["C12"]["theorems"] += ["BB.LockOrder.no_wait_cycle", "BB.LockOrder.no_deadlock_of_ranked"]
with_conform(PROPS["C09"], "Exclusive")
with_conform(PROPS["C10"], "Exclusive", "Generic")
with_conform(PROPS["C14"], "Generic", "Workers")
# the access table allows Exclusive's unlocked read of item.work after the swap: that allowance rests on the attach / swap protocol
with_conform(PROPS["C11"], "Exclusive")
with_conform(PROPS["C15"], "Notifier")
with_conform(PROPS["C18"], "Retry")
with_conform(PROPS["C19"], "Callable")
with_conform(PROPS["C20"], "Attempt")
# the hook points the T3/T4 harness relies on
with_conform(PROPS["C01"], "HooksBuffer")
with_conform(PROPS["C02"], "HooksBuffer")
with_conform(PROPS["C03"], "HooksBuffer")
with_conform(PROPS["C04"], "HooksBuffer")
with_conform(PROPS["C05"], "HooksBuffer")
with_conform(PROPS["C12"], "HooksBuffer")
with_conform(PROPS["C05"], "HooksWaitCond")
with_conform(PROPS["C12"], "HooksWaitCond")
with_conform(PROPS["C13"], "HooksChannel")
with_conform(PROPS["C12"], "HooksChannel")
with_conform(PROPS["C06"], "HooksPubSub")
with_conform(PROPS["C07"], "HooksPubSub")
with_conform(PROPS["C08"], "HooksPubSub")
with_conform(PROPS["C09"], "HooksExclusive")
with_conform(PROPS["C10"], "HooksExclusive")
with_conform(PROPS["C17"], "HooksWorker")
with_conform(PROPS["C14"], "HooksWorkers")
with_conform(PROPS["C20"], "HooksAttempt")
with_conform(PROPS["C15"], "HooksNotifier")
with_conform(PROPS["C17"], "Worker")
with_conform(PROPS["C08"], "Caster")
with_conform(PROPS["C06"], "PubSub", "Caster")
with_conform(PROPS["C07"], "PubSub", "Caster", "LockOrder", "Generic")
