"""Per-property configuration of the checks (what to build, which theorems to audit, which
correspondence components to run).  See DESIGN.md §6."""

def has(*tags):
    want = set(tags)
    return lambda t: bool(want & t)

BUFFER_ASSUME = [
    "L1 layer: each critical section of Buffer.mutex (with the consumer mutex held around it) is one atomic step",
    "Go slices / append / map behave as lists and finite maps; int does not overflow for buffer offsets",
]

PROPS = {
    "C01": dict(
        lean_targets=["BB.Props.C01"],
        theorems=["BB.Props.C01.put_appends_batch", "BB.Props.C01.log_only_grows", "BB.Props.C01.buffer_is_suffix",
                  "BB.Props.C01.get_returns_position", "BB.Props.C01.reads_are_put_order",
                  "BB.Props.C01.start_is_oldest_retained", "BB.Props.C01.stream_contiguous",
                  "BB.Props.C01.position_bounds"],
        corr=[dict(family="buffer", quick=300, thorough=20000,
                   nontrivial=has("shift_with_delta", "cons_after_shift", "batch2"),
                   rule="buffer: generated Put/Get/Commit/Rollback/NewConsumer/Close/clean/Range scripts executed on the real Buffer "
                        "(cleaner driven through SetCleanerConfig, parked Gets detected through verif hooks) and on the Lean L1 model, "
                        "results and internal state (base, len, committed offsets, deltas) compared after every op; non-trivial = a shift while a "
                        "consumer has uncommitted reads, a consumer created after a shift, or a batched Put (>=2 values)")],
        assumptions=BUFFER_ASSUME,
    ),
    "C02": dict(
        lean_targets=["BB.Props.C02"],
        theorems=["BB.Props.C02.rollback_resets", "BB.Props.C02.rollback_replays", "BB.Props.C02.reads_since_commit",
                  "BB.Props.C02.commit_advances", "BB.Props.C02.commit_permanent", "BB.Props.C02.read_at_or_after_committed",
                  "BB.Props.C02.empty_commit_rollback", "BB.Props.C02.range_failure_rolls_back",
                  "BB.Props.C02.range_panic_value_replayed", "BB.Props.C02.bufferRange_stops_at_end"],
        corr=[dict(family="buffer", quick=300, thorough=20000,
                   nontrivial=has("rollback_d2", "range_panicked", "brange_panicked", "range_blocked", "range_err:canceled",
                                  "brange_diffstop", "range_stopped", "brange_stopped"),
                   rule="buffer family (see C01); non-trivial = a rollback of >=2 uncommitted reads, or a Range/Buffer.Range that ended by "
                        "panic / blocked Get / Get error / Diff stop / callback stop")],
        assumptions=BUFFER_ASSUME + ["callback panics are modelled as an outcome of the callback script"],
    ),
    "C03": dict(
        lean_targets=["BB.Props.C03"],
        theorems=["BB.Props.C03.defaultCleaner_zero", "BB.Props.C03.defaultCleaner_no_active", "BB.Props.C03.defaultCleaner_spec",
                  "BB.Props.C03.defaultCleaner_bounds", "BB.Props.C03.defaultCleaner_perm", "BB.Props.C03.fixedCleaner_spec",
                  "BB.Props.C03.fixedCleaner_perm", "BB.Props.C03.clampShift_spec", "BB.Props.C03.default_never_evicts",
                  "BB.Props.C03.default_never_past", "BB.Props.C03.no_consumer_no_removal", "BB.Props.C03.evicted_errors_forever",
                  "BB.Props.C03.unaffected_gets_log", "BB.Props.C03.slice_size_diff"],
        corr=[dict(family="cleaner", quick=20, thorough=2000, mismatch_is_violation=True,
                   nontrivial=has("neg_and_zero", "eq_size", "gt_size", "forced", "target_gt_max"),
                   rule="cleaner: exhaustive sweep of DefaultCleaner over size<=6 x offset lists (len<=4 quick / <=5 thorough) over [-2,7], "
                        "FixedBufferCleaner over max,target in [-1,7] x size<=8 x lists len<=2, plus random large inputs; every call compared with "
                        "the Lean functions; non-trivial = offsets with a negative and a zero, an offset = or > size, a forced trim, target > max"),
              dict(family="buffer", quick=200, thorough=10000,
                   nontrivial=has("evict_unread", "past_error", "fixed_forced", "offs_neg_and_zero", "diff_gt_size"),
                   rule="buffer family (see C01) with DefaultCleaner / FixedBufferCleaner / arbitrary cleaner results (incl. <0 and >len); "
                        "non-trivial = a trim past a consumer's read position, a past-offset error, a forced trim, Diff > Size")],
        assumptions=BUFFER_ASSUME,
    ),
}
