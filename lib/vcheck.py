"""Orchestrator library: build, prove, correspond, search, report.  See DESIGN.md §2.2."""
import fcntl, hashlib, json, os, re, shutil, subprocess, sys, time

VERIF = os.path.abspath(os.path.join(os.path.dirname(os.path.abspath(__file__)), ".."))
REPO = os.environ.get("VERIF_REPO", "/repo")   # registered commands always use /repo; sweeps on a snapshot set VERIF_REPO (and edit go/go.mod's replace in their own worktree)
LEAN = os.path.join(VERIF, "lean")
GO = os.path.join(VERIF, "go")
BUILD = os.path.join(VERIF, "build")
ORACLE = os.path.join(LEAN, ".lake", "build", "bin", "oracle")
GOENV = dict(os.environ, GOFLAGS="-mod=mod", GOPROXY="off", GOSUMDB="off", GOTOOLCHAIN="local",
             CGO_ENABLED=os.environ.get("CGO_ENABLED", "1"))
ALLOWED_AXIOMS = {"propext", "Classical.choice", "Quot.sound"}
TRUSTED_BASE = [
    "Lean 4.33 kernel (thorough tier: re-checked by leanchecker)",
    "axioms allowed: propext, Classical.choice, Quot.sound (audited per theorem with #print axioms)",
    "hand-written Lean model tied to /repo by differential execution (corr + oracle) on this run",
    "Go runtime / sync / context / reflect semantics are modelled, not verified",
]


def log(*a):
    print(*a, file=sys.stderr, flush=True)


def run(cmd, cwd=None, env=None, timeout=None, stdin=None, stdout=subprocess.PIPE):
    p = subprocess.run(cmd, cwd=cwd, env=env, timeout=timeout, stdin=stdin, stdout=stdout,
                       stderr=subprocess.STDOUT, text=True)
    return p.returncode, (p.stdout or "")


class Lock:
    def __init__(self, name="lock"):
        os.makedirs(BUILD, exist_ok=True)
        self.path = os.path.join(BUILD, "." + name)

    def __enter__(self):
        self.f = open(self.path, "w")
        fcntl.flock(self.f, fcntl.LOCK_EX)
        return self

    def __exit__(self, *a):
        fcntl.flock(self.f, fcntl.LOCK_UN)
        self.f.close()


# ------------------------------------------------------------------------------------------------
# building

def build_go(outdir, tools=("corr",), race=False):
    """Rebuild the harness binaries against /repo's current working tree (build tag verif)."""
    os.makedirs(outdir, exist_ok=True)
    res = {}
    for t in tools:
        out = os.path.join(outdir, t + ("-race" if race else ""))
        cmd = ["go", "build", "-tags", "verif"] + (["-race"] if race else []) + ["-o", out, "./cmd/" + t]
        rc, o = run(cmd, cwd=GO, env=GOENV, timeout=600)
        res[t] = (rc, o, out)
    return res


def lake_build(targets, timeout=1800):
    rc, o = run(["lake", "build"] + list(targets), cwd=LEAN, timeout=timeout)
    return rc, o


def lean_files():
    for root, _, files in os.walk(LEAN):
        if ".lake" in root:
            continue
        for f in files:
            if f.endswith(".lean"):
                yield os.path.join(root, f)


FORBIDDEN = re.compile(r"\bsorry\b|\badmit\b|^\s*axiom\s|native_decide|implemented_by|\bunsafe\s|maxHeartbeats\s+0\b")


def strip_comments(src):
    # remove /- ... -/ (nested) and -- line comments
    out, i, depth = [], 0, 0
    while i < len(src):
        if src.startswith("/-", i):
            depth += 1; i += 2; continue
        if src.startswith("-/", i) and depth > 0:
            depth -= 1; i += 2; continue
        if depth == 0:
            if src.startswith("--", i):
                j = src.find("\n", i)
                i = len(src) if j < 0 else j
                continue
            out.append(src[i])
        elif src[i] == "\n":
            out.append("\n")
        i += 1
    return "".join(out)


def failing_decls(build_output):
    """map `error: path:line:col` of a failed lake build to the enclosing theorem/def names"""
    names = []
    for m in re.finditer(r"error: (\S+?\.lean):(\d+):\d+", build_output):
        path, line = os.path.join(LEAN, m.group(1)), int(m.group(2))
        if not os.path.exists(path):
            continue
        src = open(path).read().split("\n")
        ns = ""
        for l in src[:line]:
            mm = re.match(r"namespace (\S+)", l)
            if mm:
                ns = mm.group(1)
        for i in range(min(line, len(src)) - 1, -1, -1):
            mm = re.match(r"\s*(?:theorem|def|example|lemma)\s+(\S+)", src[i])
            if mm:
                n = (ns + "." if ns else "") + mm.group(1)
                if n not in names:
                    names.append(n)
                break
    return names


def forbidden_scan():
    hits = []
    for p in lean_files():
        src = strip_comments(open(p).read())
        for n, line in enumerate(src.split("\n"), 1):
            if FORBIDDEN.search(line):
                hits.append(f"{os.path.relpath(p, LEAN)}:{n}: {line.strip()[:100]}")
    return hits


def audit(prop, imports, theorems, workdir, allow_extra=()):
    """#print axioms for every named theorem; returns {name: (ok, detail)}."""
    path = os.path.join(workdir, "Audit.lean")
    with open(path, "w") as f:
        for m in imports:
            f.write(f"import {m}\n")
        for t in theorems:
            f.write(f"#print axioms {t}\n")
    rc, o = run(["lake", "env", "lean", path], cwd=LEAN, timeout=900)
    res = {}
    flat = re.sub(r"\s+", " ", o)
    for t in theorems:
        short = t
        m = re.search(r"'" + re.escape(short) + r"' depends on axioms: \[([^\]]*)\]", flat)
        if m:
            ax = {a.strip() for a in m.group(1).split(",") if a.strip()}
            bad = {a for a in ax if a not in ALLOWED_AXIOMS and not any(a.startswith(x) for x in allow_extra)}
            res[t] = (not bad, "axioms: " + ", ".join(sorted(ax)))
        elif re.search(r"'" + re.escape(short) + r"' does not depend on any axioms", flat):
            res[t] = (True, "axioms: none")
        else:
            res[t] = (False, "not found / did not elaborate")
    return res, o


# ------------------------------------------------------------------------------------------------
# correspondence: corr (Go, real code) | oracle (Lean model)

def parse_oracle(text):
    mism, cases, summary = [], {}, {}
    for line in text.split("\n"):
        if line.startswith("MISMATCH "):
            m = re.match(r"MISMATCH case=(\S+) line=(\d+) op=\[(.*?)\] expected=\[(.*?)\] observed=\[(.*)\]$", line)
            if m:
                mism.append(dict(case=m.group(1), line=int(m.group(2)), op=m.group(3), expected=m.group(4), observed=m.group(5)))
            else:
                mism.append(dict(case="?", line=0, op=line, expected="", observed=""))
        elif line.startswith("CASE "):
            m = re.match(r"CASE (\S+) (ok|bad) tags=(.*)$", line)
            if m:
                cases[m.group(1)] = dict(ok=m.group(2) == "ok", tags=[t for t in m.group(3).split(",") if t])
        elif line.startswith("SUMMARY "):
            summary = dict(kv.split("=", 1) for kv in line.split()[1:])
    return mism, cases, summary


def split_cases(trace_text):
    """trace file -> {case_id: [lines]} (lines include results)"""
    cases, cur, cid = {}, None, None
    for line in trace_text.split("\n"):
        if line.startswith("case "):
            cid, cur = line[5:].strip(), []
        elif line == "end":
            if cid is not None:
                cases[cid] = cur
            cid, cur = None, None
        elif cur is not None and line:
            cur.append(line)
    return cases


def script_of(lines, auto=("state",)):
    ops = []
    for l in lines:
        op = l.split(" => ")[0]
        if op.split(" ")[0] in auto or op.startswith("!"):
            continue
        ops.append(op)
    return ops


def run_corr(corr_bin, family, args, workdir, tag, timeout=1200, stdin_script=None):
    trace = os.path.join(workdir, f"{family}-{tag}.trace")
    stats = os.path.join(workdir, f"{family}-{tag}.stats.json")
    cmd = [corr_bin, family] + args + ["-stats", stats]
    t0 = time.time()
    with open(trace, "w") as out:
        try:
            p = subprocess.run(cmd, stdout=out, stderr=subprocess.PIPE, text=True, timeout=timeout, env=GOENV)
            rc, err = p.returncode, p.stderr
        except subprocess.TimeoutExpired as e:
            rc, err = 124, "corr timed out"
    with open(trace) as f:
        text = f.read()
    st = {}
    if os.path.exists(stats):
        try:
            st = json.load(open(stats))
        except Exception:
            st = {}
    return dict(rc=rc, err=(err if len(err) <= 4000 else err[:1500] + "\n...\n" + err[-2500:]) if err else "", trace=text, trace_path=trace, stats=st, wall=time.time() - t0)


def run_oracle(family, trace_text, timeout=600):
    try:
        p = subprocess.run([ORACLE, family], input=trace_text, stdout=subprocess.PIPE, stderr=subprocess.STDOUT,
                           text=True, timeout=timeout)
        return p.returncode, p.stdout
    except subprocess.TimeoutExpired:
        return 124, "oracle timed out"


def check_script(corr_bin, family, ops, workdir, tag="shrink"):
    """run a single script; returns list of mismatches"""
    sp = os.path.join(workdir, f"{family}-{tag}.ops")
    with open(sp, "w") as f:
        f.write("case s\n" + "\n".join(ops) + "\nend\n")
    r = run_corr(corr_bin, family, ["-script", sp], workdir, tag, timeout=120)
    rc, o = run_oracle(family, r["trace"])
    mism, cases, summ = parse_oracle(o)
    if r["rc"] != 0 and not mism:
        mism = [dict(case="s", line=0, op="<harness>", expected="exit 0", observed=f"exit {r['rc']}: {r['err'][-300:]}")]
    return mism, r["trace"]


def shrink(corr_bin, family, ops, workdir, budget=120):
    """delta debugging on the op list; keeps any mismatch"""
    runs = 0
    n = 2
    cur = list(ops)
    while len(cur) >= 2 and runs < budget:
        chunk = max(1, len(cur) // n)
        reduced = False
        i = 0
        while i < len(cur) and runs < budget:
            cand = cur[:i] + cur[i + chunk:]
            runs += 1
            if cand:
                mism, _ = check_script(corr_bin, family, cand, workdir)
                if mism:
                    cur = cand
                    n = max(n - 1, 2)
                    reduced = True
                    continue
            i += chunk
        if not reduced:
            if chunk == 1:
                break
            n = min(len(cur), n * 2)
    return cur, runs


# ------------------------------------------------------------------------------------------------
# known findings

def load_known():
    p = os.path.join(VERIF, "known_findings.json")
    if not os.path.exists(p):
        return []
    return json.load(open(p)).get("findings", [])


def match_known(prop, viol, known):
    for k in known:
        if k.get("property") != prop or k.get("status") != "known":
            continue
        m = k.get("match", {})
        ok = True
        for key, rx in m.items():
            v = str(viol.get(key, ""))
            if not re.fullmatch(rx, v, re.S):
                ok = False
                break
        if ok and m:
            return k
    return None


# ------------------------------------------------------------------------------------------------

class Ctx:
    """state of one check run"""

    def __init__(self, prop, tier, seed):
        self.prop, self.tier, self.seed = prop, tier, seed
        self.work = os.path.join(BUILD, prop)
        os.makedirs(self.work, exist_ok=True)
        self.t0 = time.time()
        self.violations = []      # dicts: kind, what, replay(dict), found_input(bool)
        self.obligations = []     # (name, ok, detail)
        self.cov = dict(evaluations=0, distinct_nontrivial=0, samples=[], branch_histogram={},
                        traces_validated_against_impl=0, disagreements_checked=0, components=[])
        self.rules = []
        self.assumptions = []
        self.known_hits = []
        self.seen_hashes = set()
        self.bins = {}

    def quick(self):
        return self.tier == "quick"

    def add_obligation(self, name, ok, detail=""):
        self.obligations.append((name, bool(ok), detail))

    def violation(self, kind, what, replay, found_input=True, **fields):
        v = dict(kind=kind, what=what, replay=replay, found_input=found_input)
        v.update(fields)
        self.violations.append(v)


def step_build(cx, tools=("corr",)):
    with Lock("go"):
        res = build_go(cx.work, tools)
    for t, (rc, o, out) in res.items():
        cx.bins[t] = out
        if rc != 0:
            cx.add_obligation(f"build:{t}", False, o[-2000:])
            cx.violation("build", f"harness tool {t} does not build against /repo: {o[-500:]}",
                         dict(broken="go build -tags verif ./cmd/" + t, output=o[-4000:]), found_input=False)
            return False
    return True


def step_lean(cx, spec):
    """build the Lean targets of the property and audit its theorems"""
    targets = spec.get("lean_targets", [])
    theorems = spec.get("theorems", [])
    with Lock("lean"):
        # T1: regenerate BB/Gen/*.lean from /repo's current working tree (files are rewritten only when they change)
        if "extract" in cx.bins:
            for fn in ("Consts.lean", "Skel.lean"):
                pass
            rc0, o0 = run([cx.bins["extract"], REPO, os.path.join(LEAN, "BB", "Gen")], timeout=300)
            cx.extract_out = o0.strip()
            if rc0 != 0:
                cx.add_obligation("extract (translator) runs on /repo", False, o0[-2000:])
        rc, o = lake_build(targets + ["oracle"])
        failed_mods, failed_decls = set(), set()
        if rc != 0:
            # attribute: build each target separately so that the rest is still checked
            cx.lean_output = o
            for t in targets:
                rc1, o1 = lake_build([t])
                if rc1 != 0:
                    failed_mods.add(t)
                    names = failing_decls(o1)
                    if names:
                        for n in names:
                            failed_decls.add(n)
                            cx.add_obligation(n, False, "does not check against the regenerated facts / model: " + o1[-1500:])
                    else:
                        cx.add_obligation(f"lake build {t}", False, o1[-3000:])
        good = [t for t in targets if t not in failed_mods]
        res, out = audit(cx.prop, good, [t for t in theorems if not any(t.startswith(m + ".") for m in failed_mods)], cx.work,
                         allow_extra=spec.get("allow_axioms", ()))
    for t in theorems:
        if t in failed_decls:
            continue
        if any(t.startswith(m + ".") for m in failed_mods):
            # Lean elaborates the whole file and reports every failing declaration: this one was not among them
            cx.add_obligation(t, True, "elaborated; its module has other failing declarations, so no .olean to audit axioms from")
            continue
        ok, detail = res.get(t, (False, "missing"))
        cx.add_obligation(t, ok, detail)
    hits = forbidden_scan()
    cx.add_obligation("no sorry/admit/axiom/native_decide/implemented_by/unsafe in lean sources", not hits, "; ".join(hits[:5]))
    if cx.tier == "thorough":
        for t in targets:
            rc, o = run(["lake", "env", "leanchecker", t], cwd=LEAN, timeout=1800)
            cx.add_obligation(f"leanchecker {t}", rc == 0, o[-500:])
    failed = [(n, d) for (n, ok, d) in cx.obligations if not ok]
    return failed


def step_corr(cx, c):
    """one correspondence component: {family, quick, thorough, nontrivial(tags)->bool, args}"""
    family = c["family"]
    n = c["quick"] if cx.quick() else c["thorough"]
    seed = cx.seed * 1000003 + int(hashlib.sha1((cx.prop + family).encode()).hexdigest()[:6], 16)
    corr_bin = cx.bins["corr"]
    results = []
    # corpus first
    cdir = os.path.join(VERIF, "corpus", family)
    if os.path.isdir(cdir):
        for fn in sorted(os.listdir(cdir)):
            if fn.endswith(".ops"):
                results.append(("corpus:" + fn, run_corr(corr_bin, family, ["-script", os.path.join(cdir, fn)] + c.get("args", []), cx.work, "corpus-" + fn)))
    results.append((f"gen seed={seed} n={n}", run_corr(corr_bin, family, ["-seed", str(seed), "-n", str(n), "-tier", cx.tier] + c.get("args", []), cx.work, "gen",
                                                    timeout=c.get("timeout", 1500))))
    comp = dict(family=family, runs=[])
    for label, r in results:
        rc, o = run_oracle(family, r["trace"])
        mism, cases, summ = parse_oracle(o)
        tr_cases = split_cases(r["trace"])
        nt = 0
        for cid, info in cases.items():
            lines = tr_cases.get(cid, [])
            h = hashlib.sha1("\n".join(script_of(lines)).encode()).hexdigest()
            key = (family, h)
            nontriv = c["nontrivial"](set(info["tags"])) if c.get("nontrivial") else bool(info["tags"])
            for t in info["tags"]:
                cx.cov["branch_histogram"][f"{family}:{t}"] = cx.cov["branch_histogram"].get(f"{family}:{t}", 0) + 1
            if nontriv and key not in cx.seen_hashes:
                cx.seen_hashes.add(key)
                nt += 1
                if len(cx.cov["samples"]) < 3 and len(lines) <= 400:
                    cx.cov["samples"].append(dict(family=family, case=cid, tags=info["tags"], trace=lines[:40]))
        cx.cov["evaluations"] += len(cases)
        cx.cov["distinct_nontrivial"] += nt
        cx.cov["traces_validated_against_impl"] += sum(1 for i in cases.values() if i["ok"])
        for k, v in (r["stats"].get("hist") or {}).items():
            cx.cov["branch_histogram"][f"{family}:op:{k}"] = cx.cov["branch_histogram"].get(f"{family}:op:{k}", 0) + v
        for k, v in (r["stats"].get("hooks") or {}).items():
            cx.cov["branch_histogram"][f"hook:{k}"] = cx.cov["branch_histogram"].get(f"hook:{k}", 0) + v
        comp["runs"].append(dict(label=label, cases=len(cases), lines=int(summ.get("lines", 0) or 0), mismatches=len(mism),
                                 wall_s=round(r["wall"], 2), corr_rc=r["rc"]))
        if r["rc"] != 0 and not mism:
            pl = next((ln for ln in (r["err"] or "").split("\n") if ln.startswith("panic:") or ln.startswith("fatal error:")), "")
            mism = [dict(case="?", line=0, op="<harness>", expected="exit 0", observed=f"exit {r['rc']}: {pl} ... {r['err'][-400:]}")]
        if rc not in (0, 1) and not mism:
            mism = [dict(case="?", line=0, op="<oracle>", expected="exit 0/1", observed=f"exit {rc}: {o[-300:]}")]
        if len(cases) == 0 and not mism and not c.get("allow_empty"):
            mism = [dict(case="?", line=0, op="<harness>", expected="at least one case", observed="no cases produced")]
        handled = set()
        for m in mism:
            if m["case"] in handled:
                continue
            handled.add(m["case"])
            cx.cov["disagreements_checked"] += 1
            handle_mismatch(cx, c, family, m, tr_cases.get(m["case"], []), label)
            if len(handled) >= 5:
                break
    cx.cov["components"].append(comp)
    cx.rules.append(c.get("rule", f"{family}: generated op scripts; non-trivial = reaches a listed branch"))


def handle_mismatch(cx, c, family, m, lines, label):
    """a correspondence broke: minimise, classify with the property monitor, write the replay"""
    corr_bin = cx.bins["corr"]
    ops = script_of(lines)
    shrunk, runs = (ops, 0)
    final_m = m
    trace = "\n".join(lines)
    if ops and m["case"] != "?" and not c.get("no_shrink"):
        mm, tr = check_script(corr_bin, family, ops, cx.work, "repro")
        if mm:
            shrunk, runs = shrink(corr_bin, family, ops, cx.work, budget=60 if cx.quick() else 200)
            mm2, tr2 = check_script(corr_bin, family, shrunk, cx.work, "final")
            if mm2:
                final_m, trace = mm2[0], tr2
    # Search for a failing input of THIS property: a disagreement on an operation whose result the
    # property statement constrains (c['observable']) is one, because the model provably satisfies the
    # statement.  A disagreement on internal state only is first extended with probe operations.
    verdict = None
    observable = c.get("observable")
    def relevant(mm):
        return observable is None or mm["op"].split(" ")[0] in observable
    if c.get("mismatch_is_violation") and relevant(final_m):
        verdict = "observable result differs from the proved model"
    elif observable is not None:
        if relevant(final_m):
            verdict = "observable result differs from the proved model"
        elif c.get("probes") and shrunk and m["case"] != "?":
            ext = shrunk + c["probes"](shrunk)
            mm3, tr3 = check_script(corr_bin, family, ext, cx.work, "probe")
            hit = [x for x in mm3 if relevant(x)]
            if hit:
                shrunk, final_m, trace = ext, hit[0], tr3
                verdict = "probe operations appended to the minimised script expose an observable difference"
    mon = c.get("monitor")
    if mon and not verdict:
        try:
            verdict = mon(cx.prop, final_m, trace)
        except Exception as e:  # a monitor bug must not hide the disagreement
            verdict = None
    found = bool(verdict)
    replay = dict(property=cx.prop, kind="ops", family=family, seed=cx.seed, tier=cx.tier, source=label,
                  case=m["case"], input=shrunk, shrunk_from=len(ops), shrink_runs=runs,
                  op=final_m["op"], expected=final_m["expected"], observed=final_m["observed"],
                  monitor=verdict, trace=trace.split("\n")[:200],
                  broken_obligation=None if found else f"correspondence T2 {family} (model BB.Model, oracle {family})")
    cx.violation("ops", f"{family}: op [{final_m['op']}] model says [{final_m['expected']}] implementation says [{final_m['observed']}]"
                 + (f" — {verdict}" if verdict else ""), replay, found_input=found,
                 family=family, op=final_m["op"], expected=final_m["expected"], observed=final_m["observed"],
                 script=" ; ".join(shrunk))


def finish(cx, spec):
    known = load_known()
    os.makedirs(os.path.join(VERIF, "replays"), exist_ok=True)
    os.makedirs(os.path.join(VERIF, "evidence"), exist_ok=True)
    out_viol = 0
    for i, v in enumerate(cx.violations):
        k = match_known(cx.prop, v, known)
        if k:
            print(f"KNOWN-FINDING: property={cx.prop} {k.get('id','')} {k.get('what','')}", flush=True)
            cx.known_hits.append(k.get("id", ""))
            continue
        out_viol += 1
        h = hashlib.sha1(json.dumps(v["replay"], sort_keys=True, default=str).encode()).hexdigest()[:10]
        path = os.path.join(VERIF, "replays", f"{cx.prop}-{v['kind']}-{h}.json")
        with open(path, "w") as f:
            json.dump(v["replay"], f, indent=1, default=str)
        log(f"[{cx.prop}] {v['what']}")
        print(f"VIOLATION property={cx.prop} replay={path}" + ("" if v["found_input"] else " no-failing-input-found"), flush=True)
    nob = len(cx.obligations)
    dis = sum(1 for (_, ok, _) in cx.obligations if ok)
    cov = dict(cx.cov)
    cov.update(obligations=nob, discharged=dis,
               checker_cmd=f"cd /verif/lean && lake build {' '.join(spec.get('lean_targets', []))} && lake env lean <Audit.lean with #print axioms>" +
               ("; lake env leanchecker <module>" if cx.tier == "thorough" else ""),
               trusted_base=TRUSTED_BASE + spec.get("trusted_extra", []),
               rule=" | ".join(cx.rules) if cx.rules else "proof obligations only",
               obligation_list=[dict(name=n, ok=ok, detail=d[:300]) for (n, ok, d) in cx.obligations],
               known_findings=cx.known_hits,
               open_statements=spec.get("open_statements", []))
    if not cov["samples"]:
        cov["samples"] = [dict(obligation=n, detail=d[:200]) for (n, ok, d) in cx.obligations[:3]]
    ev = dict(property_id=cx.prop, tier=cx.tier, seed=cx.seed, level="proof", coverage=cov,
              assumptions=spec.get("assumptions", []) + cx.assumptions,
              wall_s=round(time.time() - cx.t0, 2), violations=out_viol)
    with open(os.path.join(VERIF, "evidence", f"{cx.prop}.json"), "w") as f:
        json.dump(ev, f, indent=1, default=str)
    log(f"[{cx.prop}] tier={cx.tier} seed={cx.seed} obligations {dis}/{nob} evaluations={cov['evaluations']} "
        f"nontrivial={cov['distinct_nontrivial']} violations={out_viol} known={len(cx.known_hits)} wall={ev['wall_s']}s")
    return 1 if out_viol else 0


def check(prop, tier, seed):
    from props import PROPS
    spec = PROPS[prop]
    cx = Ctx(prop, tier, seed)
    ok = step_build(cx, spec.get("tools", ("corr", "extract")))
    failed = step_lean(cx, spec)
    for (name, detail) in failed:
        # a proof obligation broke: search (spec['search']) for a failing input, else report without
        cx.violation("obligation", f"Lean obligation no longer checks: {name}: {detail[:300]}",
                     dict(property=prop, kind="fact", broken_obligation=name, detail=detail[-3000:], seed=seed, tier=tier),
                     found_input=False, obligation=name)
    if ok:
        for c in spec.get("corr", []):
            step_corr(cx, c)
        for fn in spec.get("custom", []):
            fn(cx)
    return finish(cx, spec)


def setup():
    os.makedirs(BUILD, exist_ok=True)
    r = build_go(os.path.join(BUILD, "setup"), ("corr", "extract"))
    for t, (rc, o, out) in r.items():
        if rc != 0:
            print(o)
            return rc
    rc, o = run([r["extract"][2], REPO, os.path.join(LEAN, "BB", "Gen")], timeout=300)
    print(o.strip())
    if rc != 0:
        return rc
    rc, o = lake_build([], timeout=3600)
    print(o[-3000:])
    return rc


def replay(path):
    from props import PROPS
    d = json.load(open(path))
    prop = d.get("property")
    cx = Ctx(prop or "replay", "quick", int(d.get("seed", 1)))
    spec = PROPS.get(prop, {})
    if not step_build(cx, spec.get("tools", ("corr",))):
        print("harness does not build")
        return 1
    if d.get("kind") == "ops":
        with Lock("lean"):
            lake_build(["oracle"])
        # deterministic scripts are re-executed once; concurrent programs ("run ...") up to 30 times
        concurrent = any(op.startswith("run ") for op in d["input"])
        hits, runs = 0, (30 if concurrent else 1)
        for k in range(runs):
            mism, tr = check_script(cx.bins["corr"], d["family"], d["input"], cx.work, "replay")
            if mism:
                hits += 1
                if hits == 1:
                    print(tr[-6000:])
                    for m in mism[:5]:
                        print(f"MISMATCH op=[{m['op']}] expected=[{m['expected']}] observed=[{m['observed']}]")
        print(f"replay: {hits}/{runs} executions still fail")
        return 1 if hits else 0
    fn = spec.get("replay")
    if fn:
        return fn(cx, d)
    print("replay kind", d.get("kind"), "names an obligation; re-run: bin/check", prop)
    return check(prop, "quick", int(d.get("seed", 1)))


def main(argv):
    if not argv:
        print(__doc__)
        return 2
    if argv[0] == "setup":
        return setup()
    if argv[0] == "replay":
        return replay(argv[1])
    prop = argv[0]
    tier = os.environ.get("VERIF_TIER", "quick")
    if "--tier" in argv:
        tier = argv[argv.index("--tier") + 1]
    seed = int(os.environ.get("VERIF_SEED", "1") or "1")
    return check(prop, tier, seed)
