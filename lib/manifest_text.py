"""Human-written manifest texts per property (level claimed, trusted base note, technique)."""
NOTE_BUF = ("Trusted: Lean kernel; axioms propext/Classical.choice/Quot.sound only; the hand-written L1 model of Buffer/consumer is tied to the code "
            "by the differential check of this run (its coverage is what the evidence file says); L1 atomicity of the critical sections and the Go "
            "runtime/sync/context semantics are modelled, not verified.")
TEXT = {
    "C01": dict(
        text="Lean theorems over every trace of the Buffer L1 model (any number of producers/consumers, batch sizes, cleaner results at any point): "
             "buffer = put-order suffix from the base offset; a Put appends its batch contiguously; a Get returns log[committed+delta]; per consumer "
             "the read positions start at the retained base at creation and form a gap-free run (RevChain, no_gap). The model is tied to /repo by "
             "sequential differential execution with internal-state comparison after every operation.",
        note=NOTE_BUF, technique="Lean 4 proof (trace induction with invariants) + model/implementation differential execution"),
    "C02": dict(
        text="Lean theorems: rollback resets the position to the committed offset and subsequent Gets read committed, committed+1, ... consecutively "
             "under every interleaving of other operations (reads_consecutive); commit is monotone and permanent; empty commit/rollback error and "
             "change nothing; Range rolls back on panic/Get/Commit failure and replays the in-flight value; Buffer.Range stops at the end. Tied to "
             "/repo by differential execution incl. scripted-callback Range/Buffer.Range with panics.",
        note=NOTE_BUF + " Range theorems assume the Range starts with nothing pending for the 'first value of the next read' clause.",
        technique="Lean 4 proof (trace induction, frame lemmas) + differential execution"),
    "C03": dict(
        text="Lean theorems for all sizes/offset lists/max/target: exact spec, bounds and permutation-invariance of DefaultCleaner, FixedBufferCleaner, "
             "the cleanupLogic clamp; on traces: under the default cleaner no registered consumer's committed offset is ever evicted and Get never "
             "reports a past offset; under any cleaner an evicted consumer gets an error from every later Get while others still get log[pos]; "
             "Slice/Size/Diff laws. Tied by an exhaustive small-domain sweep + random large inputs of the real cleaner functions and by the buffer "
             "differential with forced trims.",
        note=NOTE_BUF, technique="Lean 4 proof (fold invariants, Perm.foldl_eq', trace invariants) + exhaustive/random differential of the pure functions"),
}
NOT_YET = {}
