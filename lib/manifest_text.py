"""Human-written manifest texts per property (level claimed, trusted base note, technique)."""
NOTE_BUF = ("Trusted: Lean kernel; axioms propext/Classical.choice/Quot.sound only; the hand-written L1 model of Buffer/consumer is tied to the code "
            "by the differential check of this run (its coverage is what the evidence file says); L1 atomicity of the critical sections and the Go "
            "runtime/sync/context semantics are modelled, not verified.")
TEXT = {
    "C01": dict(
        text="Lean theorems over every trace of the Buffer L1 model (any number of producers/consumers, batch sizes, cleaner results at any point): "
             "buffer = put-order suffix from the base offset; a Put appends its batch contiguously; a Get returns log[committed+delta]; per consumer "
             "the read positions start at the retained base at creation and form a gap-free run (RevChain, no_gap). The model is tied to /repo by "
             "sequential differential execution with internal-state comparison after every operation.",
        note=NOTE_BUF, technique="Lean 4 proof (trace induction with invariants) + model/implementation differential execution"),
    "C02": dict(
        text="Lean theorems: rollback resets the position to the committed offset and subsequent Gets read committed, committed+1, ... consecutively "
             "under every interleaving of other operations (reads_consecutive); commit is monotone and permanent; empty commit/rollback error and "
             "change nothing; Range rolls back on panic/Get/Commit failure and replays the in-flight value; Buffer.Range stops at the end. Tied to "
             "/repo by differential execution incl. scripted-callback Range/Buffer.Range with panics.",
        note=NOTE_BUF + " Range theorems assume the Range starts with nothing pending for the 'first value of the next read' clause.",
        technique="Lean 4 proof (trace induction, frame lemmas) + differential execution"),
    "C03": dict(
        text="Lean theorems for all sizes/offset lists/max/target: exact spec, bounds and permutation-invariance of DefaultCleaner, FixedBufferCleaner, "
             "the cleanupLogic clamp; on traces: under the default cleaner no registered consumer's committed offset is ever evicted and Get never "
             "reports a past offset; under any cleaner an evicted consumer gets an error from every later Get while others still get log[pos]; "
             "Slice/Size/Diff laws. Tied by an exhaustive small-domain sweep + random large inputs of the real cleaner functions and by the buffer "
             "differential with forced trims.",
        note=NOTE_BUF, technique="Lean 4 proof (fold invariants, Perm.foldl_eq', trace invariants) + exhaustive/random differential of the pure functions"),
}
TEXT.update({
    "C13": dict(
        text="[round 3] A Get that has to wait is a sequence of polls: an unsuccessful poll changes nothing, so the call takes effect atomically at its last poll (waiting_get_is_one_atomic_poll); a waiting Get is woken by another goroutine's Rollback with the oldest uncommitted value. The differential now leaves a Get polling on another goroutine while Rollback/send/Commit/Close run. Lean theorems for every sequence of send/close-source/Get/Commit/Rollback/Close steps of the Channel model: committed ++ Buffer() = "
             "everything taken and taken ++ queued = everything sent (lossless, ordered), replay after Rollback in original order, Commit drops exactly "
             "the delivered entries, a closed source yields no value, nothing is taken after Close, Get/Commit fail after Close and a second Close errors. "
             "Linearizability is by construction of the one-mutex model and is checked against the code, not proved. Tied by sequential differential execution.",
        note="Trusted: Lean kernel + 3 standard axioms; model tied by this run's differential; reflect TryRecv and the mutex atomicity are modelled.",
        technique="Lean 4 proof (inductive invariant over traces) + differential execution"),
    "C18": dict(
        text="Lean theorems over every outcome script and cancellation point: stops at the first success with its result; a fatal error of any nesting depth "
             "returns that call's result and the fully unwrapped error; after an observed cancellation no call is started and (nil, ctx error) is returned; "
             "the counter is min(k,31); every delay is a whole number of slots < 2^min(c,31) times the rate. Tied by scripted differential execution of the real "
             "ExponentialRetry through verif seams and by sampling the real delay calculation.",
        note="Trusted: Lean kernel + 3 standard axioms; the random draw and wall-clock waits are parameters of the model; tie = this run's differential.",
        technique="Lean 4 proof (structural induction over the outcome script) + differential execution"),
    "C19": dict(
        text="Lean theorems over an abstract reflect contract: for every signature, argument list and result-target list Call never panics on its own account "
             "(call_total), an ok outcome means the function received exactly the given arguments position by position after variadic expansion with nil for "
             "nilable parameters and exactly its return values are stored (ok_is_direct_call, passAll_exact, passOne_exact); an error outcome has no invocation and "
             "no store by construction. The unguarded variant panics (witness of the fixed defect F5). Tied by differential execution over generated signatures.",
        note="Trusted: Lean kernel + 3 standard axioms; reflect's assignability/panic contract is modelled on a finite type universe; tie = this run's differential.",
        technique="Lean 4 proof (induction over argument/target lists) + differential execution through reflect.MakeFunc callees"),
})
TEXT.update({
    "C15": dict(
        text="Lean theorems about a faithful model of PublishContext's loop (failureCases/failureRefs/successCases with the break-loop re-basing): for every "
             "set and order of eligible subscribers and every sequence of reflect.Select outcomes each iteration removes exactly the chosen subscriber, its guard "
             "and its ref and keeps all remaining refs pointing at their own send case (iter_failure, iter_success, never an out-of-range index); hence over a whole "
             "publish nobody is delivered twice, nobody outside the eligible set receives, and when no send is left everyone was delivered or had its own context fire "
             "(publish_exactly_once). Tied by a forced-choice differential that compares failureRefs after every iteration, eligibility and registry behaviour.",
        note="Trusted: Lean kernel + 3 standard axioms; reflect.Select modelled as nondeterministic choice; eligibility by element type modelled on 4 element classes; tie = this run's differential.",
        technique="Lean 4 proof (list-index refinement to an erase-by-position abstraction, Perm accounting) + forced-schedule differential execution"),
})
TEXT.update({
    "C16": dict(
        text="[round 3] Construction: for every pattern of cancellations landing DURING the constructor (before an input's pre-check, between its pre-check and its registration, the primary at any point) no cancellation is lost (combine_build_wired_complete), a cancelled child is returned only with a cause, never-cancellable inputs are wired like live ones; the built state is a state of the post-construction model. The differential drives this with a context type whose first Err() cancels model-chosen siblings. Lean theorems over transition systems that interleave cancellations with the asynchronous AfterFunc callbacks in every order, for every number "
             "of inputs: the chained function is never called twice and, once callbacks have run, exactly once iff either context was cancelled; the combined "
             "context is cancelled only with a cause, immediately with the primary, and at quiescence iff the primary or any other is cancelled, after which no "
             "hook stays registered; the conflated context is cancelled only by its cancel function or when all inputs are cancelled, and at quiescence is "
             "cancelled when they all are, with the waiter's WaitGroup at zero. Tied by differential execution over cancellation orders incl. simultaneous ones.",
        note="Trusted: Lean kernel + 3 standard axioms; the context package's AfterFunc/stop/WithoutCancel semantics and callback scheduling are modelled; tie = this run's differential.",
        technique="Lean 4 proof (inductive invariants over all interleavings of cancellations and callbacks) + differential execution after quiescence"),
})
TEXT.update({
    "C14": dict(
        text="Lean theorems for every reachable state of the Workers transition system (any callers, any count sequence, any interleaving of call/take/finish/exit): "
             "running <= live workers <= largest count requested; queued ++ running ++ done has no duplicates (exactly once); the finishing worker reports the job it took; "
             "a non-empty queue always has a live worker and some worker step is enabled (no stuck state with work pending); Wait's condition implies nothing is running. "
             "No starvation as a leads-to theorem: from the moment no new Call arrives, along every run weakly fair for the worker steps every queued job is eventually taken "
             "(measure 2*queue position + executing + live workers; a fair demonstration run shows the hypotheses are satisfiable). Tied by concurrent trace acceptance: hook events from inside the critical sections.",
        note="Trusted: Lean kernel + 3 standard axioms; critical-section atomicity and goroutine scheduling modelled; tie = acceptance of this run's concurrent event logs by the LTS.",
        technique="Lean 4 proof (inductive invariant over an LTS with unbounded worker population) + concurrent trace acceptance"),
})
TEXT.update({
    "C17": dict(
        text="[round 3] T1 facts over the regenerated Worker graphs (decision, close, wait for the instance and reset in one critical section; the instance goroutine needs no mutex) and a no-log hammer program with a harness-side held-when-stopped monitor. Lean theorems for every reachable state of the Worker transition system (any number of holders, any interleaving of Do/done with the watcher and the "
             "function): at most one live function instance; while any done function is outstanding an instance exists, runs and its stop channel is open; stop is closed "
             "only when no holder is outstanding; a Do cannot run while the instance is stopping and the next Do after the watcher finished starts a fresh instance; with no "
             "holder left the system is never stuck before the instance is gone, and (leads-to theorem, weak fairness, no new Do) the instance is eventually stopped and gone "
             "(measure <= 6 along the watcher loop; fair demonstration run). Tied by concurrent trace acceptance of hook events.",
        note="Trusted: Lean kernel + 3 standard axioms; WaitGroup/mutex/channel-close semantics modelled; the function is assumed to return only after stop is closed; tie = acceptance of this run's event logs.",
        technique="Lean 4 proof (8-clause inductive invariant over an LTS with unbounded holders) + concurrent trace acceptance"),
})
TEXT.update({
    "C20": dict(
        text="[round 3] Closed promptly after cancellation is a leads-to theorem under weak fairness of the goroutine alone (rank 3-2-1-exit); timestamps: for EVERY sequence of raw ticker stamps the forwarded values are non-decreasing (finding F7: the runtime's stamps are not, at sub-microsecond rates — fixed in /repo). Lean theorems for every reachable state of the LinearAttempt transition system (every count, receiver pace and cancellation instant relative to tick, "
             "re-check and send): the first value is there at once; at most count values are ever put into the channel, with strictly increasing timestamps; the buffer "
             "holds at most one; everything received was sent in order; after the cancellation at most one further tick is forwarded; the channel is closed exactly when the "
             "goroutine is gone and after cancellation the goroutine always has an enabled step that needs no receiver. Tied by concurrent trace acceptance.",
        note="Trusted: Lean kernel + 3 standard axioms; ticker/select/channel semantics modelled; eventual closing is proved as absence of stuck states, not as a fairness leadsTo; tie = this run's event logs.",
        technique="leads-to by ranking function; Lean 4 proof (12-clause inductive invariant over the goroutine/receiver/cancel LTS) + concurrent trace acceptance"),
})
TEXT.update({
    "C11": dict(
        text="A Lean theorem over an abstract mutex/RWMutex trace semantics (consistent locking: a common lock held in write mode by every writer implies that the first of two "
             "conflicting accesses' thread released the lock in between) plus a kernel-decided check that the field-access table regenerated from /repo on this run (every read/write "
             "of a field of a library struct with the locks held on every path, inter-procedurally, incl. the Exclusive lock hand-off) follows a per-field policy (guarded / immutable "
             "after construction / lazily initialised by ensure / not shared / two justified orderings). Data-race freedom of compiled code is NOT proved: the table is the "
             "translator's view; the pairwise -race matrix is a search for a concrete failing input, not part of the proof.",
        note="Trusted: Lean kernel + 3 standard axioms; the translator (attribution of accesses, lockset dataflow); Go memory model for sync primitives modelled; atomics, channel hand-over and "
             "reflection-mediated accesses are not in the table.",
        technique="Lean 4 proof (lockset / Eraser lemma) instantiated on a regenerated access table by kernel evaluation; race-detector matrix as search"),
})
TEXT.update({
    "C05": dict(
        text="Lean theorems about the WaitCond transition system (waiter, watcher goroutine, locker, arbitrary environment of cancellations / broadcasting mutators / spurious "
             "wake-ups): nil is returned only right after the predicate evaluated to true under the lock; an error only if the context is cancelled; NO LOST WAKE-UP: a parked "
             "un-notified waiter has a false predicate and, if cancelled, a watcher that is still going to broadcast; and two liveness theorems proved with a ranking function "
             "over weakly fair infinite runs: a cancelled context leads to return, a true predicate leads to return. The faulty configurations (watcher without lock, mutator "
             "without broadcast) have witness traces. The model's configuration is computed from the regenerated skeletons (gen_cfg_is_good). A failed Get does not advance "
             "the consumer (Buffer model). Tied by forced schedules through hook-point gates on WaitCond and on a blocking Buffer Get.",
        note="Trusted: Lean kernel + 3 standard axioms; sync.Cond / mutex semantics modelled; scheduler weak fairness assumed for liveness; the finite one-waiter model's inductive steps "
             "are discharged by kernel evaluation over its whole state table; tie = T1 facts + this run's gate scripts.",
        technique="Lean 4 proof (inductive invariant + ranking-function leadsTo over weakly fair runs) + regenerated configuration facts + forced-schedule differential"),
})
TEXT.update({
    "C04": dict(
        text="Lean theorems about the cleanup sub-system (cleanup goroutine inside WaitCond, cooldown timer, re-broadcast flag, self-removing timer goroutine, arbitrary mutators): "
             "in every reachable state a reclaimable prefix implies a pending re-evaluation (no change is forgotten, for cooldown 0 and > 0, wherever the last change falls in a cooldown "
             "window); along every weakly fair run that goes quiet the prefix is eventually reclaimed (ranking function) using at most one timer expiry; FixedBufferCleaner(max,target) "
             "with 0 <= target <= max leaves at most max after one evaluation. The configuration 'timer goroutine re-broadcasts under the buffer mutex' is computed from the regenerated "
             "skeleton; without it the model has a witness trace of a forgotten change (finding F1, fixed). Tied by forced schedules incl. the F1 window and by a quiet-phase check.",
        note="Trusted: Lean kernel + 3 standard axioms; timers as fair environment events (no durations); finite model, inductive steps by kernel evaluation over the state table; tie = T1 facts + gate scripts of this run.",
        technique="Lean 4 proof (inductive invariant + ranking-function leadsTo under weak fairness) + regenerated configuration facts + forced-schedule differential"),
})
TEXT.update({
    "C12": dict(
        text="[round 3] Package-wide T1 facts: every cond.Wait lies on a cycle of its control-flow graph; no lock is acquired while already held (recursive RLock). closewait program: Close waits for every consumer whatever is broadcast meanwhile. Lean theorems: after Close the Buffer model rejects Put/NewConsumer/Get, Commit with nothing pending errors, contents stay, consumers are closed; the Channel model "
             "rejects Get/Commit and a second Close; and goroutine exit: along every run that is weakly fair for the goroutines' own steps (timer expiry NOT assumed) a closed "
             "Buffer's cleanup goroutine, its WaitCond watcher and the cooldown timer goroutine all exit (ranking function); the watcher of any WaitCond call exits after the "
             "call returned and its caller unlocked; Workers/Worker/LinearAttempt/ConflatedContext goroutine exit comes from C14/C17/C20/C16. Without the context select in the timer "
             "goroutine the model has a stuck witness (finding F3, fixed). Tied by T1 facts on every Close path and by shutdown programs with goroutine dumps.",
        note="Trusted: Lean kernel + 3 standard axioms; fairness; sync.Once/close-channel semantics modelled; the goroutine dump (500 ms grace) is the correspondence observation, not the proof.",
        technique="Lean 4 proof (model lemmas + ranking-function leadsTo for goroutine exit) + regenerated Close-path facts + shutdown differential with goroutine dumps"),
})
TEXT.update({
    "C09": dict(
        text="Lean theorems for every reachable state of the Exclusive transition system of one key (unbounded calls and items, every interleaving of attach, wake-up, "
             "swap, start of work, resolve, return and successor clearing): at most one call is between 'set running' and 'cleared the successor', so two work functions never "
             "overlap; a work function can start only when every other call is parked, unmade or finished, i.e. after the previous runner passed clearNext, which follows the "
             "RETURN of its work function; calls parked on the successor stay parked until then even if the result is already resolved. Keys: the multi-key system is the product "
             "of per-key systems; steps of different keys commute and neither enable nor disable each other. T1 facts over the regenerated CFG: the map mutex is never held across "
             "a blocking node, the successor is installed before the work function is called, its flag is cleared only after the call returned. Tied by concurrent trace acceptance.",
        note="Trusted: Lean kernel + 3 standard axioms; mutex/cond semantics and the product-of-keys structure are modelled (supported by T1 facts and two-key runs); tie = regenerated CFG facts + acceptance of this run's event logs.",
        technique="Lean 4 proof (9-clause inductive invariant over an LTS with unbounded calls/items) + decide over regenerated CFG + concurrent trace acceptance"),
    "C10": dict(
        text="Lean theorems for every reachable state of the same system with ghost clock: an item a call attached to can only start after the call (attachClock < startClock), "
             "an outcome held by a call is the write-once result of its item, produced by an execution that began after the call; finished non-start calls hold exactly one "
             "outcome that never changes; coalesced calls hold identical outcomes; the executed function was supplied by a call of that batch; a work function returning "
             "unresolved yields the resolve-not-called outcome; executions <= calls (sum argument over items); at quiescence the key is not in the map; while any call is "
             "unanswered a state-changing step is enabled (no deadlock); and the liveness clause itself: along every run (unbounded calls, any interleaving) that is weakly fair "
             "for the step a call is waiting for (its own next step or that of the owner of the item it is parked on; 'the work function returns' is such a step) every made call "
             "ends, a blocking/async one holding an outcome (ranking function <= 9 over a ghost owner of the runner region). Tied by concurrent trace acceptance of hook events, "
             "executed-function identity and received outcomes.",
        note="Trusted: Lean kernel + 3 standard axioms; mutex/cond/once semantics modelled; the fairness hypothesis of the leads-to theorem is about the Go scheduler and work functions and is assumed; tie = acceptance of this run's event logs + CFG facts.",
        technique="Lean 4 proof (six invariant groups over an LTS with unbounded calls/items, ghost clock and counters) + concurrent trace acceptance"),
})
TEXT.update({
    "C08": dict(
        text="[round 3] Liveness: a Send that holds the mutex returns along every run weakly fair for its own steps and the rendezvous with receivers (rank 3T+12 / 3T+11|13 / T+(n-k)+2 / 1, read off the invariant on both sides of every step). Two Lean layers. Word layer: ChanCaster's packed 64-bit state and Add/Send's arithmetic transcribed on Nat mod 2^64; theorems for every count and every int delta: "
             "in-range Adds leave the expected word, overflow / unbalanced removal / out-of-bounds deltas panic (also while a Send is armed), the final validation accepts exactly "
             "armed words. Protocol layer: an LTS at the granularity of the atomic operations with unbounded senders and contract-following receivers over an unbuffered "
             "channel; 16-clause inductive invariant (word = packed count / armed count, sums of registrations and pending absorbs, single writer, no reader inside a Send); "
             "theorems: no panic under the contract, the CAS counts exactly the current registrations, a Send performs exactly that many sends, returns the number of genuine "
             "deliveries, deliveries + absorbed = armed count, word 0 afterwards; no registration takes effect during a Send; a racing removal absorbs exactly d or is not counted; "
             "Send and an absorbing Add are never stuck. The clause 'every later call panics too' is false of the code: known finding F6 (Lean witness panic_not_sticky, replayed "
             "on the real code every run); proved instead: the next call after an in-bounds out-of-range Add panics.",
        note="Trusted: Lean kernel + 3 standard axioms; RWMutex/atomics/rendezvous semantics modelled; ties: regenerated CFG facts and constants, sequential word-level differential, concurrent trace acceptance with exact state words.",
        technique="leads-to by ranking function; Lean 4 proof (word arithmetic by omega; 16-clause invariant over an LTS with unbounded threads) + decide over regenerated CFG + sequential differential + concurrent trace acceptance"),
})
TEXT.update({
    "C06": dict(
        text="[round 3] Whole histories: over the model wrapped with a passive observer (proved not to change behaviour) the values a subscription has received are exactly (log.drop start).take n — a contiguous run of the one global order starting at the position the order had reached when the subscription was made; armed Sends have their own position, positions follow arming order. Lean theorems for every reachable state of the ChanPubSub protocol model (unbounded senders and contract-following subscribers, every interleaving of the "
             "individual lock / atomic / channel operations, on top of the ChanCaster word model): Sends are serialised (one global order); every subscriber that is subscribed "
             "and between rounds when a Send feeds the caster is owed a copy until it receives it or withdraws; the send phase ends only when nobody is owed; ping.Send's result "
             "= number of subscribers that received the value; nobody is served twice in a round (no pong is available during the send phase); pongs published = receptions; "
             "Send returns only after every receiver acknowledged; nobody can subscribe while a Send holds sendingMu; Send returns 0 at once with nobody subscribed; ORDER: the "
             "message a subscriber receives is the last element of the one global order and sits exactly at the position that subscription expects next (set to length+1 when "
             "subscribing, advanced by one per reception): no gap, no duplicate, nothing armed before the subscription. Tied by "
             "regenerated CFG facts and by concurrent trace acceptance with exact counter / caster-word values and every received value.",
        note="Trusted: Lean kernel + 3 standard axioms; mutex/rwmutex/cond/atomic/rendezvous semantics modelled; the order clauses are a step theorem (next expected position), not a separate whole-history corollary.",
        technique="whole-history invariant over a passive observer; Lean 4 proof (three inductive invariants, 7 + 13 + 3 clauses with sums over unbounded subscribers, 27 actions) + decide over regenerated CFG + concurrent trace acceptance"),
    "C07": dict(
        text="[round 3] Liveness: a Send that has acquired sendingMu returns along every run weakly fair for its own steps, the rendezvous with subscribers, Wait's pong consumption and the non-spin unsubscribe steps (rank = phase + work subscribers still owe; failed CASes are paid for by the unsubscription that caused them). Lean theorems for every reachable state of the same model: no call ever panics with a state-invariant violation (the caster word always equals the number of "
             "subscribers that still owe a receive-or-remove to the Send in progress, also for unsubscribes that land before the CAS, during the send phase, before ever "
             "receiving, from a cancelled SubscribeContext or a never-run iterator); the subscriber counter is exactly subscriptions minus withdrawals; at quiescence word = 0, no "
             "pong outstanding, no lock held; while any call is pending some step other than the unsubscribe spin is enabled (no deadlock), assuming fewer than MaxInt32 "
             "subscribers. Lock order acyclic (regenerated edges). Tied by regenerated CFG facts and concurrent trace acceptance; a call that does not return is reported.",
        note="Trusted: Lean kernel + 3 standard axioms; semantics of the sync primitives modelled; termination only as deadlock freedom (no leadsTo under fairness).",
        technique="Lean 4 proof (inductive invariants over an LTS with unbounded threads; 200-line deadlock-freedom case analysis) + decide over regenerated CFG and lock-order edges + concurrent trace acceptance"),
})
NOT_YET = {}
