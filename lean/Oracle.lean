/-
  `oracle <family>` : reads the trace lines written by the Go harness (`corr`) on stdin, replays every
  operation on the Lean model of that family, and reports each line whose observed result differs from
  the model's.  Core Lean only (so that it links as an executable).
-/
import BB.Oracle.Util
import BB.Oracle.Buffer
import BB.Oracle.Cleaner
import BB.Oracle.Channel
import BB.Oracle.Retry
import BB.Oracle.Callable
import BB.Oracle.Notifier
import BB.Oracle.Ctx
import BB.Oracle.Workers
import BB.Oracle.Worker
import BB.Oracle.Attempt
import BB.Oracle.WaitCond
import BB.Oracle.BufGate
import BB.Oracle.BufConc
import BB.Oracle.CleanGate
import BB.Oracle.Lifecycle
import BB.Oracle.Exclusive
import BB.Oracle.Caster
import BB.Oracle.PubSub

open BB.Oracle

def families : List (String × Fam) := [
  ("buffer", BufferFam.fam),
  ("cleaner", CleanerFam.fam),
  ("channel", ChannelFam.fam),
  ("retry", RetryFam.fam),
  ("callable", CallableFam.fam),
  ("notifier", NotifierFam.fam),
  ("ctx", CtxFam.fam),
  ("workers", WorkersFam.fam),
  ("worker", WorkerFam.fam),
  ("attempt", AttemptFam.fam),
  ("waitcond", WaitCondFam.fam),
  ("bufgate", BufGateFam.fam),
  ("bufconc", BufConcFam.fam),
  ("cleangate", CleanGateFam.fam),
  ("lifecycle", LifecycleFam.fam),
  ("exclusive", ExclusiveFam.fam),
  ("casterword", CasterWordFam.fam),
  ("caster", CasterFam.fam),
  ("pubsub", PubSubFam.fam)
]

structure OAcc (σ : Type) where
  st : σ
  caseId : String := ""
  lineNo : Nat := 0
  bad : Nat := 0          -- mismatches in this case
  tags : List String := []
  cases : Nat := 0
  lines : Nat := 0
  mism : Nat := 0
  skipped : Nat := 0

partial def loop (f : Fam) (h : IO.FS.Stream) (a : OAcc f.σ) : IO (OAcc f.σ) := do
  let raw ← h.getLine
  if raw.isEmpty then return a
  let line := cleanLine raw
  let a := { a with lineNo := a.lineNo + 1 }
  if line.startsWith "case " then
    loop f h { a with st := f.init, caseId := (line.drop 5).toString, bad := 0, tags := [], cases := a.cases + 1 }
  else if line == "end" then
    let tags := a.tags.eraseDups
    IO.println s!"CASE {a.caseId} {if a.bad == 0 then "ok" else "bad"} tags={",".intercalate tags}"
    loop f h a
  else if line.isEmpty then loop f h a
  else
    match line.splitOn " => " with
    | [op, obs] =>
      if obs == "skipped" then loop f h { a with skipped := a.skipped + 1 }
      else
        match f.step a.st (words op) with
        | none =>
          IO.println s!"MISMATCH case={a.caseId} line={a.lineNo} op=[{op}] expected=[<uninterpretable>] observed=[{obs}]"
          loop f h { a with bad := a.bad + 1, mism := a.mism + 1, lines := a.lines + 1 }
        | some (st', exp, tags) =>
          if exp == obs then
            loop f h { a with st := st', tags := tags ++ a.tags, lines := a.lines + 1 }
          else
            IO.println s!"MISMATCH case={a.caseId} line={a.lineNo} op=[{op}] expected=[{exp}] observed=[{obs}]"
            -- keep going from the model's state so that later lines are still checked
            loop f h { a with st := st', bad := a.bad + 1, mism := a.mism + 1, lines := a.lines + 1, tags := tags ++ a.tags }
    | _ =>
      IO.println s!"MISMATCH case={a.caseId} line={a.lineNo} op=[{line}] expected=[<malformed line>] observed=[]"
      loop f h { a with bad := a.bad + 1, mism := a.mism + 1 }

def main (args : List String) : IO UInt32 := do
  match args with
  | [name] =>
    match families.lookup name with
    | none => IO.eprintln s!"unknown family {name}"; return 2
    | some f =>
      let a ← loop f (← IO.getStdin) { st := f.init }
      IO.println s!"SUMMARY family={name} cases={a.cases} lines={a.lines} mismatches={a.mism} skipped={a.skipped}"
      return (if a.mism == 0 then 0 else 1)
  | _ => IO.eprintln "usage: oracle <family>"; return 2
