/- T1 fact for C12 (and C07): the lock-order edges regenerated from /repo admit a ranking, hence (by
   `BB.LockOrder.no_deadlock_of_ranked`) no cycle of goroutines each holding a lock the next one is blocked on. -/
import BB.Gen.Access
import BB.Gen.Skel
import BB.Proofs.LockOrder

namespace BB.Conform.LockOrder
open BB.LockOrder

def edges : List (Nat × Nat) := (BB.Gen.Access.lockEdges.map (fun e => (e.1, e.2.1))).eraseDups

theorem lock_order_acyclic : ranked edges = true := by decide +kernel

/-- the consumer mutex is always taken before the buffer mutex, never the other way round -/
theorem consumer_before_buffer :
    edges.contains (BB.Gen.Skel.S.consumer_mutex, BB.Gen.Skel.S.Buffer_mutex) = true ∧
    edges.contains (BB.Gen.Skel.S.Buffer_mutex, BB.Gen.Skel.S.consumer_mutex) = false := by decide +kernel

theorem no_lock_cycle (l : List (Nat × Nat)) (hne : l ≠ []) (hsub : ∀ p ∈ l, p ∈ edges) (hl : linked l = true)
    (hcyc : (l.getLast hne).2 = (l.head hne).1) : False :=
  no_deadlock_of_ranked lock_order_acyclic l hne hsub hl hcyc

end BB.Conform.LockOrder
