/- T1 fact: the verifPoint hook calls of this component are where the harness (go/cmd/corr) expects them — same names, same
   enclosing functions, same multiplicity.  The event logs of the T3/T4 families are only meaningful while this holds; a change
   that drops or moves a hook call breaks this obligation instead of silently blinding the correspondence.  (25 calls) -/
import BB.Gen.Hooks

namespace BB.Conform.HooksBuffer

theorem hook_points_in_place :
    (BB.Gen.Hooks.hooks.filter fun h => h.1.startsWith "buf." || h.1.startsWith "cons.") =
     [("buf.async.locked", "Buffer.getAsync"),
      ("buf.async.send", "Buffer.getAsync"),
      ("buf.async.spawn", "Buffer.getAsync"),
      ("buf.async.start", "Buffer.getAsync"),
      ("buf.clean", "Buffer.cleanupLogic"),
      ("buf.cleanup.evaluated", "Buffer.cleanup"),
      ("buf.cleanup.flagged", "Buffer.cleanup"),
      ("buf.close.cancelled", "Buffer.Close"),
      ("buf.close.wait", "Buffer.Close"),
      ("buf.commit", "Buffer.commit"),
      ("buf.delete", "Buffer.delete"),
      ("buf.diff", "Buffer.Diff"),
      ("buf.get.ok", "Buffer.get"),
      ("buf.get.past", "Buffer.get"),
      ("buf.get.pending", "Buffer.get"),
      ("buf.newconsumer", "Buffer.NewConsumer"),
      ("buf.put", "Buffer.Put"),
      ("buf.timer.fired", "Buffer.cleanup"),
      ("buf.timer.locked", "Buffer.cleanup"),
      ("cons.close.cancelled", "consumer.Close"),
      ("cons.close.wait", "consumer.Close"),
      ("cons.commit", "consumer.Commit"),
      ("cons.get.locked", "consumer.Get"),
      ("cons.get.recv", "consumer.Get"),
      ("cons.rollback", "consumer.Rollback")] := by decide +kernel

end BB.Conform.HooksBuffer
