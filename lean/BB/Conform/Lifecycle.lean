/- T1 facts about the Close paths (C12). -/
import BB.Gen.Skel

namespace BB.Conform.Lifecycle
open BB.Skel BB.Gen.Skel

/-- Buffer.Close: once-only; cancels under the write lock, waits on the cond until no consumer is registered,
    closes `done` before it releases the lock -/
theorem buffer_close_shape :
    dominates g_Buffer_Close (is K.oncedo S.Buffer_close) (is K.lit S.Buffer_Close_0) = true ∧
    dominates g_Buffer_Close_0 (is K.lock S.Buffer_mutex) (is K.cancelcall S.b_cancel) = true ∧
    dominates g_Buffer_Close_0 (is K.cancelcall S.b_cancel) (is K.condwait S.Buffer_cond) = true ∧
    dominates g_Buffer_Close_0 (is K.read S.Buffer_consumers) (is K.close S.Buffer_done) = true ∧
    between g_Buffer_Close_0 (is K.cancelcall S.b_cancel) (is K.unlock S.Buffer_mutex) (is K.close S.Buffer_done) = true ∧
    noInline g_Buffer_Close_0 (is K.unlock S.Buffer_mutex) = true := by decide
/-- consumer.Close: once-only; cancels under the consumer mutex, waits until nothing is uncommitted, then
    deregisters from the buffer and closes `done` -/
theorem consumer_close_shape :
    dominates g_consumer_Close (is K.oncedo S.consumer_close) (is K.lit S.consumer_Close_0) = true ∧
    dominates g_consumer_Close_0 (is K.lock S.consumer_mutex) (is K.cancelcall S.c_cancel) = true ∧
    dominates g_consumer_Close_0 (is K.cancelcall S.c_cancel) (is K.condwait S.consumer_cond) = true ∧
    between g_consumer_Close_0 (is K.cancelcall S.c_cancel) (is K.close S.consumer_done) (is K.call S.delete) = true ∧
    between g_consumer_Close_0 (is K.call S.delete) (is K.unlock S.consumer_mutex) (is K.close S.consumer_done) = true ∧
    beforeExit g_consumer_Close_0 (is K.lock S.consumer_mutex) (is K.close S.consumer_done) = true := by decide
/-- every consumer has a watcher goroutine that closes it when its context (a child of the buffer's) is cancelled -/
theorem consumer_watcher_closes_on_ctx :
    dominates g_Buffer_NewConsumer (is K.withcancel S.Buffer_ctx) (is K.go S.Buffer_NewConsumer_0) = true ∧
    dominates g_Buffer_NewConsumer_0 (is K.ctxdone S.consumer_ctx) (is K.call S.consumer_Close) = true ∧
    has g_Buffer_NewConsumer_0 (is K.call S.consumer_Close) = true := by decide
/-- the async Get waiter always delivers exactly one result on its buffered channel and ends -/
theorem async_waiter_always_sends :
    beforeExit g_Buffer_getAsync_0 (isKind K.entry) (is K.send S.out) = true ∧
    noInline g_Buffer_getAsync_0 (is K.unlock S.Buffer_mutex) = true := by decide
/-- consumer.Get cancels its derived context on every return (so the combined context's hooks are released) -/
theorem get_cancels_derived_ctx :
    beforeExit g_consumer_Get (is K.withcancel S.ctx) (is K.cancelcall S.cancel) = true := by decide
/-- Notifier.SubscribeCancel's goroutine unsubscribes when the context is done -/
theorem subscribe_cancel_goroutine :
    dominates g_Notifier_SubscribeCancel_1 (is K.ctxdone S.ctx) (is K.call S.Notifier_Unsubscribe) = true ∧
    has g_Notifier_SubscribeCancel_1 (is K.call S.Notifier_Unsubscribe) = true := by decide

end BB.Conform.Lifecycle
