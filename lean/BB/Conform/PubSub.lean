/- T1 facts about ChanPubSub.Send / Add / Wait (C06, C07): the shape the protocol model `BB.PubSub` relies on. -/
import BB.Gen.Skel

namespace BB.Conform.PubSub
open BB.Skel BB.Gen.Skel

/-- Send: sendMu, then sendingMu (write), then the subscriber count is read and the caster is fed and drained;
    sendingMu is released before the pong phase; pongN is published and awaited under pongC.L; sendMu is released
    (deferred only) on every exit that took it -/
theorem send_shape :
    dominates g_ChanPubSub_Send (is K.lock S.ChanPubSub_sendMu) (is K.lock S.ChanPubSub_sendingMu) = true ∧
    between g_ChanPubSub_Send (is K.lock S.ChanPubSub_sendingMu) (is K.call S.ChanCaster_Add) (is K.atomicload S.ChanPubSub_subscribers) = true ∧
    dominates g_ChanPubSub_Send (is K.lock S.ChanPubSub_sendingMu) (is K.call S.ChanCaster_Add) = true ∧
    dominates g_ChanPubSub_Send (is K.call S.ChanCaster_Add) (is K.call S.ChanCaster_Send) = true ∧
    between g_ChanPubSub_Send (is K.call S.ChanCaster_Send) (is K.lock S.ChanPubSub_pongC_L) (is K.unlock S.ChanPubSub_sendingMu) = true ∧
    between g_ChanPubSub_Send (is K.call S.ChanCaster_Send) (is K.condwait S.ChanPubSub_pongC) (is K.unlock S.ChanPubSub_sendingMu) = true ∧
    dominates g_ChanPubSub_Send (is K.lock S.ChanPubSub_pongC_L) (is K.write S.ChanPubSub_pongN) = true ∧
    between g_ChanPubSub_Send (is K.write S.ChanPubSub_pongN) (is K.condwait S.ChanPubSub_pongC) (is K.broadcast S.ChanPubSub_pongC) = true ∧
    guardTrue g_ChanPubSub_Send S.c_sent_ne_0 (is K.write S.ChanPubSub_pongN) = true ∧
    beforeExit g_ChanPubSub_Send (is K.lock S.ChanPubSub_sendMu) (is K.unlock S.ChanPubSub_sendMu) = true ∧
    beforeExit g_ChanPubSub_Send (is K.lock S.ChanPubSub_pongC_L) (is K.unlock S.ChanPubSub_pongC_L) = true ∧
    noInline g_ChanPubSub_Send (is K.unlock S.ChanPubSub_sendMu) = true ∧
    has g_ChanPubSub_Send_0 (is K.unlock S.ChanPubSub_sendingMu) = true := by decide

/-- Add: subscribing increments under sendingMu.RLock; unsubscribing tries the read lock, polls the caster while it
    fails, decrements, releases the read lock if it got it, and otherwise routes the decrement through the caster -/
theorem add_shape :
    between g_ChanPubSub_Add (is K.rlock S.ChanPubSub_sendingMu) (isKind K.exit) (is K.call S.ChanPubSub_addSubscribers) = true ∧
    beforeExit g_ChanPubSub_Add (is K.rlock S.ChanPubSub_sendingMu) (is K.runlock S.ChanPubSub_sendingMu) = true ∧
    never g_ChanPubSub_Add (is K.rlock S.ChanPubSub_sendingMu) (is K.call S.ChanCaster_Add) = true ∧
    guardTrue g_ChanPubSub_Add S.c_delta_lt_0 (is K.tryrlock S.ChanPubSub_sendingMu) = true ∧
    dominates g_ChanPubSub_Add (is K.tryrlock S.ChanPubSub_sendingMu) (is K.call S.ChanCaster_Add) = true ∧
    between g_ChanPubSub_Add (is K.tryrlock S.ChanPubSub_sendingMu) (isKind K.exit) (is K.call S.ChanPubSub_addSubscribers) = true ∧
    guardTrue g_ChanPubSub_Add S.ok (fun n => is K.runlock S.ChanPubSub_sendingMu n && n.deferred == 0) = true ∧
    has g_ChanPubSub_Add (is K.lock S.ChanPubSub_sendingMu) = false ∧
    has g_ChanPubSub_Add (is K.lock S.ChanPubSub_sendMu) = false := by decide

/-- Wait: waits (under pongC.L) while no pong is available, consumes exactly one, wakes the sender when it was the last -/
theorem wait_shape :
    dominates g_ChanPubSub_Wait (is K.lock S.ChanPubSub_pongC_L) (is K.write S.ChanPubSub_pongN) = true ∧
    dominates g_ChanPubSub_Wait (is K.cond S.c_x_pongN_eq_0) (is K.write S.ChanPubSub_pongN) = true ∧
    guardTrue g_ChanPubSub_Wait S.c_x_pongN_eq_0 (is K.condwait S.ChanPubSub_pongC) = true ∧
    between g_ChanPubSub_Wait (is K.write S.ChanPubSub_pongN) (isKind K.exit) (is K.unlock S.ChanPubSub_pongC_L) = true ∧
    has g_ChanPubSub_Wait (is K.broadcast S.ChanPubSub_pongC) = true ∧
    noInline g_ChanPubSub_Wait (is K.unlock S.ChanPubSub_pongC_L) = true := by decide

end BB.Conform.PubSub
