/-
  T1 facts about buffer.go / consumer.go, decided by the kernel on the synchronisation skeletons
  regenerated from /repo on this run (BB/Gen/Skel.lean).  Each fact is the hypothesis under which the
  L1 model (one critical section = one atomic step) represents the code; one theorem per fact.
-/
import BB.Gen.Skel

namespace BB.Conform.Buffer
open BB.Skel BB.Gen.Skel

/-! ### consumer.Get: the consumer mutex is held across the whole call, the delta moves only after a value -/
theorem get_locks_consumer_mutex :
    dominates g_consumer_Get (is K.lock S.consumer_mutex) (is K.call S.getAsync) = true := by decide
theorem get_keeps_consumer_mutex_while_waiting :
    noInline g_consumer_Get (is K.unlock S.consumer_mutex) = true := by decide
theorem get_unlocks_at_every_exit :
    beforeExit g_consumer_Get (is K.lock S.consumer_mutex) (is K.unlock S.consumer_mutex) = true := by decide
theorem get_advances_after_getAsync :
    dominates g_consumer_Get (is K.call S.getAsync) (is K.write S.consumer_offset) = true := by decide
theorem get_checks_consumer_ctx_under_lock :
    between g_consumer_Get (is K.lock S.consumer_mutex) (is K.call S.getAsync) (is K.ctxerr S.consumer_ctx) = true := by decide

/-! ### consumer.Commit / Rollback -/
theorem commit_under_consumer_mutex :
    dominates g_consumer_Commit (is K.lock S.consumer_mutex) (is K.call S.commit) = true ∧
    noInline g_consumer_Commit (is K.unlock S.consumer_mutex) = true := by decide
theorem commit_zeroes_delta_after_buffer_commit :
    dominates g_consumer_Commit (is K.call S.commit) (is K.write S.consumer_offset) = true := by decide
theorem rollback_under_consumer_mutex :
    dominates g_consumer_Rollback (is K.lock S.consumer_mutex) (is K.write S.consumer_offset) = true ∧
    noInline g_consumer_Rollback (is K.unlock S.consumer_mutex) = true := by decide

/-! ### Buffer mutators: state change and broadcast inside one write-locked critical section -/
theorem put_append_and_broadcast_under_write_lock :
    dominates g_Buffer_Put (is K.lock S.Buffer_mutex) (is K.write S.Buffer_buffer) = true ∧
    beforeExit g_Buffer_Put (is K.write S.Buffer_buffer) (is K.broadcast S.Buffer_cond) = true ∧
    noInline g_Buffer_Put (is K.unlock S.Buffer_mutex) = true ∧
    between g_Buffer_Put (is K.lock S.Buffer_mutex) (is K.write S.Buffer_buffer) (is K.ctxerr S.Buffer_ctx) = true := by decide
theorem newConsumer_reads_offset_and_registers_in_one_write_locked_section :
    dominates g_Buffer_NewConsumer (is K.lock S.Buffer_mutex) (is K.read S.Buffer_offset) = true ∧
    dominates g_Buffer_NewConsumer (is K.read S.Buffer_offset) (is K.write S.Buffer_consumers) = true ∧
    noInline g_Buffer_NewConsumer (is K.unlock S.Buffer_mutex) = true ∧
    beforeExit g_Buffer_NewConsumer (is K.write S.Buffer_consumers) (is K.broadcast S.Buffer_cond) = true ∧
    between g_Buffer_NewConsumer (is K.lock S.Buffer_mutex) (is K.write S.Buffer_consumers) (is K.ctxerr S.Buffer_ctx) = true := by decide
theorem commit_updates_and_broadcasts_under_write_lock :
    dominates g_Buffer_commit (is K.lock S.Buffer_mutex) (is K.write S.Buffer_consumers) = true ∧
    beforeExit g_Buffer_commit (is K.write S.Buffer_consumers) (is K.broadcast S.Buffer_cond) = true ∧
    noInline g_Buffer_commit (is K.unlock S.Buffer_mutex) = true := by decide
theorem delete_updates_and_broadcasts_under_write_lock :
    dominates g_Buffer_delete (is K.lock S.Buffer_mutex) (is K.write S.Buffer_consumers) = true ∧
    beforeExit g_Buffer_delete (is K.write S.Buffer_consumers) (is K.broadcast S.Buffer_cond) = true ∧
    noInline g_Buffer_delete (is K.unlock S.Buffer_mutex) = true := by decide

/-! ### getAsync: synchronous attempt under the read lock, the waiter re-evaluates under the write lock -/
theorem getAsync_sync_attempt_under_read_lock :
    dominates g_Buffer_getAsync (is K.rlock S.Buffer_mutex) (is K.call S.Buffer_get) = true ∧
    noInline g_Buffer_getAsync (is K.runlock S.Buffer_mutex) = true := by decide
theorem getAsync_waiter_under_write_lock :
    dominates g_Buffer_getAsync_0 (is K.lock S.Buffer_mutex) (is K.call S.WaitCond) = true ∧
    noInline g_Buffer_getAsync_0 (is K.unlock S.Buffer_mutex) = true ∧
    dominates g_Buffer_getAsync_0 (is K.call S.WaitCond) (is K.send S.out) = true := by decide

/-! ### cleanupLogic / Slice / Size / Diff -/
theorem cleanupLogic_shift_and_broadcast :
    dominates g_Buffer_cleanupLogic (is K.write S.Buffer_buffer) (is K.write S.Buffer_offset) = true ∧
    beforeExit g_Buffer_cleanupLogic (is K.write S.Buffer_offset) (is K.broadcast S.Buffer_cond) = true := by decide
theorem diff_locks_consumer_then_buffer :
    dominates g_Buffer_Diff (is K.lock S.consumer_mutex) (is K.rlock S.Buffer_mutex) = true ∧
    dominates g_Buffer_Diff (is K.rlock S.Buffer_mutex) (is K.read S.Buffer_consumers) = true := by decide

end BB.Conform.Buffer
