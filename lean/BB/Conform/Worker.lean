/- T1 facts about worker.go (C17): the shape the `BB.Worker` model relies on — the watcher decides "no holder left", closes
   the stop channel, waits for the instance and resets the fields in ONE critical section of Worker.mu; the instance
   goroutine never needs that mutex. -/
import BB.Gen.Skel

namespace BB.Conform.Worker
open BB.Skel BB.Gen.Skel

/-- on the branch where the watcher found no wait group (nobody holds the worker), the stop channel is closed before the
    mutex is released: no Do can register a new holder between the decision and the close -/
theorem stop_closed_in_the_section_that_saw_no_holder :
    has g_Worker_wait (is K.close S.Worker_stop) = true ∧
    condTrueThrough g_Worker_wait S.c_wg_eq_nil (is K.close S.Worker_stop) (is K.unlock S.Worker_mu) = true ∧
    dominates g_Worker_wait (is K.cond S.c_wg_eq_nil) (is K.close S.Worker_stop) = true ∧
    -- whenever the mutex was released or (re)acquired, x.wg is read again before stop is closed: the decision is never stale
    between g_Worker_wait (is K.unlock S.Worker_mu) (is K.close S.Worker_stop) (is K.read S.Worker_wg) = true ∧
    between g_Worker_wait (is K.lock S.Worker_mu) (is K.close S.Worker_stop) (is K.read S.Worker_wg) = true ∧
    between g_Worker_wait (is K.read S.Worker_wg) (is K.close S.Worker_stop) (is K.cond S.c_wg_eq_nil) = true := by decide

/-- … and the mutex stays held until the instance has exited and the fields are reset (a Do arriving while the instance is
    stopping blocks, then starts a fresh instance) -/
theorem mutex_held_until_instance_exited_and_fields_reset :
    between g_Worker_wait (is K.close S.Worker_stop) (is K.unlock S.Worker_mu) (is K.recv S.Worker_done) = true ∧
    between g_Worker_wait (is K.recv S.Worker_done) (is K.unlock S.Worker_mu) (is K.write S.Worker_stop) = true ∧
    between g_Worker_wait (is K.recv S.Worker_done) (is K.unlock S.Worker_mu) (is K.write S.Worker_done) = true ∧
    beforeExit g_Worker_wait (is K.close S.Worker_stop) (is K.unlock S.Worker_mu) = true := by decide

/-- the wait group is taken (and cleared) under the mutex, and waited for outside it -/
theorem wait_group_taken_under_the_mutex_waited_outside :
    between g_Worker_wait (is K.write S.Worker_wg) (is K.wgwait S.wg) (is K.unlock S.Worker_mu) = true ∧
    between g_Worker_wait (is K.wgwait S.wg) (is K.read S.Worker_wg) (is K.lock S.Worker_mu) = true := by decide

/-- the instance goroutine never takes Worker.mu: the watcher holds it while it waits for that goroutine to exit -/
theorem instance_goroutine_needs_no_mutex :
    has g_Worker_do (is K.lock S.Worker_mu) = false ∧ has g_Worker_do (is K.close S.Worker_done) = true ∧
    dominates g_Worker_do (is K.callvar S.fn) (is K.close S.Worker_done) = true := by decide

/-- Do registers the holder and starts an instance in one critical section -/
theorem do_registers_under_the_mutex :
    dominates g_Worker_Do (is K.lock S.Worker_mu) (is K.wgadd S.Worker_wg) = true ∧
    noneBetween g_Worker_Do (is K.lock S.Worker_mu) (is K.wgadd S.Worker_wg) (is K.unlock S.Worker_mu) = true ∧
    dominates g_Worker_Do (is K.lock S.Worker_mu) (is K.go S.Worker_wait) = true := by decide

end BB.Conform.Worker
