/- T1 facts about channel.go (C13, C12): every method body is one critical section of Channel.mutex. -/
import BB.Gen.Skel

namespace BB.Conform.Channel
open BB.Skel BB.Gen.Skel

theorem get_poll_is_one_critical_section :
    dominates g_Channel_Get_0 (is K.lock S.Channel_mutex) (is K.ctxerr S.Channel_ctx) = true ∧
    noInline g_Channel_Get_0 (is K.unlock S.Channel_mutex) = true ∧
    beforeExit g_Channel_Get_0 (is K.lock S.Channel_mutex) (is K.unlock S.Channel_mutex) = true := by decide
theorem get_checks_close_state_before_touching_source :
    dominates g_Channel_Get_0 (is K.ctxerr S.Channel_ctx) (is K.call S.TryRecv) = true ∧
    dominates g_Channel_Get_0 (is K.ctxerr S.Channel_ctx) (is K.write S.Channel_rollback) = true ∧
    has g_Channel_Get_0 (is K.call S.TryRecv) = true := by decide
theorem get_appends_only_after_receive :
    dominates g_Channel_Get_0 (is K.call S.TryRecv) (is K.write S.Channel_buffer) = true := by decide
theorem get_rechecks_input_ctx_every_iteration :
    condTrueThrough g_Channel_Get S.c_ctx_ne_nil (is K.ctxerr S.ctx) (is K.callvar S.Channel_Get_0) = true := by decide
theorem commit_is_one_critical_section :
    dominates g_Channel_Commit (is K.lock S.Channel_mutex) (is K.ctxerr S.Channel_ctx) = true ∧
    dominates g_Channel_Commit (is K.ctxerr S.Channel_ctx) (is K.write S.Channel_buffer) = true ∧
    noInline g_Channel_Commit (is K.unlock S.Channel_mutex) = true := by decide
theorem rollback_is_one_critical_section :
    dominates g_Channel_Rollback (is K.lock S.Channel_mutex) (is K.write S.Channel_rollback) = true ∧
    noInline g_Channel_Rollback (is K.unlock S.Channel_mutex) = true := by decide
theorem buffer_copy_under_lock :
    dominates g_Channel_Buffer (is K.lock S.Channel_mutex) (is K.read S.Channel_buffer) = true ∧
    noInline g_Channel_Buffer (is K.unlock S.Channel_mutex) = true := by decide
theorem close_cancels_under_mutex_then_closes_done :
    dominates g_Channel_Close_0 (is K.lock S.Channel_mutex) (is K.cancelcall S.c_cancel) = true ∧
    between g_Channel_Close_0 (is K.cancelcall S.c_cancel) (is K.unlock S.Channel_mutex) (is K.close S.Channel_done) = true ∧
    dominates g_Channel_Close (is K.oncedo S.Channel_close) (is K.lit S.Channel_Close_0) = true := by decide
theorem cleanup_goroutine_closes_on_ctx :
    dominates g_Channel_cleanup (is K.ctxdone S.Channel_ctx) (is K.call S.Channel_Close) = true ∧
    has g_Channel_cleanup (is K.call S.Channel_Close) = true := by decide

end BB.Conform.Channel
