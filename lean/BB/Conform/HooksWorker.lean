/- T1 fact: the verifPoint hook calls of this component are where the harness (go/cmd/corr) expects them — same names, same
   enclosing functions, same multiplicity.  The event logs of the T3/T4 families are only meaningful while this holds; a change
   that drops or moves a hook call breaks this obligation instead of silently blinding the correspondence.  (7 calls) -/
import BB.Gen.Hooks

namespace BB.Conform.HooksWorker

theorem hook_points_in_place :
    (BB.Gen.Hooks.hooks.filter fun h => h.1.startsWith "worker.") =
     [("worker.do", "Worker.Do"),
      ("worker.exited", "Worker.wait"),
      ("worker.fnreturned", "Worker.do"),
      ("worker.start", "Worker.Do"),
      ("worker.stopclosed", "Worker.wait"),
      ("worker.take", "Worker.wait"),
      ("worker.waited", "Worker.wait")] := by decide +kernel

end BB.Conform.HooksWorker
