/- T1 fact for C19: the untyped-nil guard of `resolveArgs` (callable.go) names the nilable kinds of reflect. -/
import BB.Gen.Consts
import BB.Model.Callable

namespace BB.Conform.Callable
open BB.Gen.Consts

/-- the package refers to exactly these `reflect.Kind` constants with these values (reflect's numbering): Chan, Func, Interface,
    Map, Ptr, Slice, UnsafePointer are the kinds that have a nil value — the set the model's `nilable` stands for (every other
    kind, arrays and structs included, has none).  A guard rewritten over another set of kinds refers to other constants and
    this no longer elaborates. -/
theorem nil_guard_names_the_nilable_kinds :
    [extconst_reflect_Chan, extconst_reflect_Func, extconst_reflect_Interface, extconst_reflect_Map, extconst_reflect_Ptr,
      extconst_reflect_Slice, extconst_reflect_UnsafePointer] = [18, 19, 20, 21, 22, 23, 26] := by decide

/-- the model's classification of the harness's type universe: exactly the basic kinds and the array are not nilable -/
theorem model_nilable_table :
    ([.int, .str, .any, .err, .pint, .sl, .map, .fn, .ch, .named, .perr, .arr] : List BB.Callable.Ty).map BB.Callable.nilable =
      [false, false, true, true, true, true, true, true, true, false, true, false] := by decide

end BB.Conform.Callable
