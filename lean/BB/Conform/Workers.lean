/- T1 facts about workers.go (C14): the shape the `BB.Workers` model relies on — one critical section of Workers.mutex per model
   step (enqueue + top-up; take; exit), jobs executed outside the mutex, the last worker out wakes the waiters. -/
import BB.Gen.Skel
import BB.Gen.Consts

namespace BB.Conform.Workers
open BB.Skel BB.Gen.Skel

/-- Call enqueues, sets the target and tops the workers up in one critical section; it waits for its result outside it -/
theorem call_enqueues_and_tops_up_under_the_mutex :
    dominates g_Workers_Call (is K.lock S.Workers_mutex) (is K.write S.Workers_queue) = true ∧
    dominates g_Workers_Call (is K.write S.Workers_queue) (is K.go S.Workers_worker) = true ∧
    dominates g_Workers_Call (is K.write S.Workers_count) (is K.go S.Workers_worker) = true ∧
    dominates g_Workers_Call (is K.cond S.c_w_count_lt_count) (is K.go S.Workers_worker) = true ∧
    between g_Workers_Call (is K.lock S.Workers_mutex) (is K.recv S.output) (is K.unlock S.Workers_mutex) = true ∧
    between g_Workers_Call (is K.go S.Workers_worker) (is K.unlock S.Workers_mutex) (is K.cond S.c_w_count_lt_count) = true := by decide

/-- a worker decides "take the head of the queue" or "exit" under the mutex, on the condition the model uses -/
theorem worker_decides_under_the_mutex :
    dominates g_Workers_worker (is K.lock S.Workers_mutex) (is K.cond S.c_len_w_queue__eq_0_or_w_count_gt_w_target) = true ∧
    between g_Workers_worker (is K.lock S.Workers_mutex) (is K.write S.Workers_queue) (is K.cond S.c_len_w_queue__eq_0_or_w_count_gt_w_target) = true ∧
    between g_Workers_worker (is K.lock S.Workers_mutex) (is K.write S.Workers_count) (is K.cond S.c_len_w_queue__eq_0_or_w_count_gt_w_target) = true ∧
    between g_Workers_worker (is K.unlock S.Workers_mutex) (is K.cond S.c_len_w_queue__eq_0_or_w_count_gt_w_target) (is K.lock S.Workers_mutex) = true := by decide

/-- exit: the count is decremented, and the waiters are woken when it reaches 0, before the mutex is released; a worker that
    exits never takes a job, a worker that takes a job does not touch the count -/
theorem exit_accounts_under_the_mutex :
    condTrueThrough g_Workers_worker S.c_len_w_queue__eq_0_or_w_count_gt_w_target (is K.write S.Workers_count) (is K.unlock S.Workers_mutex) = true ∧
    condTrueThrough g_Workers_worker S.c_w_count_eq_0 (is K.broadcast S.Workers_cond) (is K.unlock S.Workers_mutex) = true ∧
    between g_Workers_worker (is K.write S.Workers_count) (isKind K.exit) (is K.cond S.c_w_count_eq_0) = true ∧
    never g_Workers_worker (is K.write S.Workers_count) (is K.callvar S.Workers_worker_0) = true ∧
    between g_Workers_worker (is K.write S.Workers_queue) (is K.write S.Workers_count) (is K.callvar S.Workers_worker_0) = true := by decide

/-- the job runs outside the mutex, exactly once per take, and its result channel is always closed -/
theorem job_runs_outside_the_mutex :
    between g_Workers_worker (is K.write S.Workers_queue) (is K.callvar S.Workers_worker_0) (is K.unlock S.Workers_mutex) = true ∧
    between g_Workers_worker (is K.callvar S.Workers_worker_0) (is K.callvar S.Workers_worker_0) (is K.write S.Workers_queue) = true ∧
    dominates g_Workers_worker_0 (is K.callvar S.item_value) (is K.send S.item_output) = true ∧
    beforeExit g_Workers_worker_0 (isKind K.entry) (is K.close S.item_output) = true := by decide

/-- the reply channel of a job has one buffer slot: a worker never blocks on a caller that has gone away (`finish` is always enabled) -/
theorem reply_channel_is_buffered : BB.Gen.Consts.chancap_Call_0 = 1 := by decide

end BB.Conform.Workers
