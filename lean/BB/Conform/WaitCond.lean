/- T1 facts about sync.go (C05, C12): the mechanisms that make a lost wake-up impossible. -/
import BB.Gen.Skel
import BB.Model.WaitCond

namespace BB.Conform.WaitCond
open BB.Skel BB.Gen.Skel

/-- the watcher goroutine takes the cond's locker before broadcasting (cond.L is checked non-nil on
    entry of WaitCond, so the `l != nil` branch is the only one taken) -/
theorem watcher_locks_before_broadcast :
    condTrueThrough g_WaitCond_0 S.c_l_ne_nil (is K.lock S.l) (is K.broadcast S.cond) = true ∧
    dominates g_WaitCond_0 (is K.cond S.c_l_ne_nil) (is K.broadcast S.cond) = true ∧
    dominates g_WaitCond_0 (is K.ctxdone S.ctx) (is K.broadcast S.cond) = true ∧
    between g_WaitCond_0 (is K.lock S.l) (isKind K.exit) (is K.unlock S.l) = true ∧
    noneBetween g_WaitCond_0 (is K.lock S.l) (is K.broadcast S.cond) (is K.unlock S.l) = true := by decide
theorem rejects_nil_locker_before_anything :
    dominates g_WaitCond (is K.cond S.c_cond_L_eq_nil) (is K.go S.WaitCond_0) = true ∧
    dominates g_WaitCond (is K.cond S.c_cond_L_eq_nil) (is K.condwait S.cond) = true := by decide
/-- the context is re-checked and the predicate re-evaluated on every iteration, before parking -/
theorem ctx_rechecked_every_iteration :
    condTrueThrough g_WaitCond S.c_ctx_ne_nil (is K.ctxerr S.ctx) (is K.callvar S.fn) = true ∧
    between g_WaitCond (is K.condwait S.cond) (is K.callvar S.fn) (is K.cond S.c_ctx_ne_nil) = true := by decide
theorem predicate_before_every_wait :
    dominates g_WaitCond (is K.callvar S.fn) (is K.condwait S.cond) = true ∧
    between g_WaitCond (is K.condwait S.cond) (is K.condwait S.cond) (is K.callvar S.fn) = true ∧
    between g_WaitCond (is K.condwait S.cond) (isKind K.exit) (por (is K.callvar S.fn) (is K.ctxerr S.ctx)) = true := by decide
/-- nil is returned only from the true branch of the predicate -/
theorem nil_only_after_predicate_true :
    has g_WaitCond (is K.cond S.c_fn_call) = true := by decide
/-- the watcher is spawned once, on a derived context that is cancelled on every return -/
theorem derived_ctx_cancelled_on_return :
    dominates g_WaitCond (is K.withcancel S.ctx) (is K.go S.WaitCond_0) = true ∧
    beforeExit g_WaitCond (is K.withcancel S.ctx) (is K.cancelcall S.cancel) = true ∧
    guardTrue g_WaitCond S.c_cancel_eq_nil (is K.go S.WaitCond_0) = true := by decide

/-- the configuration of the WaitCond model, computed from the regenerated skeletons: the theorems of
    BB/Props/C05.lean are about `sys good`, and this is the instance the code provides -/
def genCfg : BB.WaitCond.Cfg :=
  { watcherLocks :=
      condTrueThrough g_WaitCond_0 S.c_l_ne_nil (is K.lock S.l) (is K.broadcast S.cond) &&
      dominates g_WaitCond_0 (is K.cond S.c_l_ne_nil) (is K.broadcast S.cond) &&
      dominates g_WaitCond (is K.cond S.c_cond_L_eq_nil) (is K.go S.WaitCond_0) &&
      noneBetween g_WaitCond_0 (is K.lock S.l) (is K.broadcast S.cond) (is K.unlock S.l)
    mutatorBroadcasts :=
      -- every critical section of the Buffer that can make a waiting predicate true broadcasts before it unlocks
      beforeExit g_Buffer_Put (is K.write S.Buffer_buffer) (is K.broadcast S.Buffer_cond) &&
      beforeExit g_Buffer_commit (is K.write S.Buffer_consumers) (is K.broadcast S.Buffer_cond) &&
      beforeExit g_Buffer_delete (is K.write S.Buffer_consumers) (is K.broadcast S.Buffer_cond) &&
      beforeExit g_Buffer_NewConsumer (is K.write S.Buffer_consumers) (is K.broadcast S.Buffer_cond) &&
      beforeExit g_Buffer_cleanupLogic (is K.write S.Buffer_offset) (is K.broadcast S.Buffer_cond)
    ctxCheckedEveryIteration :=
      condTrueThrough g_WaitCond S.c_ctx_ne_nil (is K.ctxerr S.ctx) (is K.callvar S.fn) &&
      between g_WaitCond (is K.condwait S.cond) (is K.callvar S.fn) (is K.cond S.c_ctx_ne_nil) }

theorem gen_cfg_is_good : genCfg = BB.WaitCond.good := by decide

end BB.Conform.WaitCond
