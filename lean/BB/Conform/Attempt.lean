/- T1 facts about attempt.go (C20): the shape the `BB.Attempt` model and the stamp theorems rely on. -/
import BB.Gen.Skel
import BB.Gen.Consts

namespace BB.Conform.Attempt
open BB.Skel BB.Gen.Skel

/-- the context is checked before the first value is published; a cancelled context gets a closed, empty channel -/
theorem context_guarded_before_the_first_value :
    dominates g_LinearAttempt (is K.ctxerr S.ctx) (is K.send S.c) = true ∧
    dominates g_LinearAttempt (is K.cond S.c_ctx_Err_call_ne_nil) (is K.send S.c) = true ∧
    condTrueThrough g_LinearAttempt S.c_ctx_Err_call_ne_nil (is K.close S.c) (isKind K.exit) = true := by decide

/-- the first value is published inline, before the goroutine exists; the goroutine is only started when more values remain -/
theorem first_value_inline_goroutine_only_if_more :
    dominates g_LinearAttempt (is K.send S.c) (is K.go S.LinearAttempt_0) = true ∧
    dominates g_LinearAttempt (is K.cond S.c_count_le_0) (is K.go S.LinearAttempt_0) = true ∧
    condTrueThrough g_LinearAttempt S.c_count_le_0 (is K.close S.c) (isKind K.exit) = true := by decide

/-- ALWAYS CLOSED: every path of the goroutine to its exit closes the channel (deferred) and stops the ticker; every path of the
    constructor that does not start the goroutine and does not panic closes it -/
theorem channel_closed_on_every_path :
    beforeExit g_LinearAttempt_0 (isKind K.entry) (is K.close S.c) = true ∧
    beforeExit g_LinearAttempt_0 (is K.timernew S.NewTicker) (is K.timerstop S.ticker) = true ∧
    between g_LinearAttempt (is K.ctxerr S.ctx) (isKind K.exit) (por (is K.close S.c) (is K.go S.LinearAttempt_0)) = true := by decide

/-- every wait for a tick is a select that also watches ctx.Done(): cancellation never waits for the next tick -/
theorem every_tick_wait_watches_ctx :
    dominates g_LinearAttempt_0 (is K.ctxdone S.ctx) (is K.recv S.ticker_C) = true ∧
    between g_LinearAttempt_0 (is K.recv S.ticker_C) (is K.recv S.ticker_C) (is K.ctxdone S.ctx) = true := by decide

/-- at most one tick after cancellation: the context is re-checked between every tick and the send -/
theorem context_rechecked_between_tick_and_send :
    between g_LinearAttempt_0 (is K.recv S.ticker_C) (is K.send S.c) (is K.ctxerr S.ctx) = true ∧
    between g_LinearAttempt_0 (is K.ctxerr S.ctx) (is K.send S.c) (is K.cond S.c_ctx_Err_call_ne_nil) = true := by decide

/-- F7: the stamp guard sits between the re-check and every send of the goroutine -/
theorem stamp_guard_before_every_send :
    has g_LinearAttempt_0 (is K.cond S.c_t_Before_last_) = true ∧
    between g_LinearAttempt_0 (is K.ctxerr S.ctx) (is K.send S.c) (is K.cond S.c_t_Before_last_) = true := by decide

/-- at most count values: the loop condition is evaluated before every wait for a tick -/
theorem count_checked_every_iteration :
    dominates g_LinearAttempt_0 (is K.cond S.c_i_lt_count) (is K.recv S.ticker_C) = true ∧
    between g_LinearAttempt_0 (is K.send S.c) (is K.recv S.ticker_C) (is K.cond S.c_i_lt_count) = true := by decide

/-- the channel has exactly one buffer slot (`BB.Attempt.St.buf : Option Nat`) -/
theorem channel_has_one_slot : BB.Gen.Consts.chancap_LinearAttempt_0 = 1 := by decide

end BB.Conform.Attempt
