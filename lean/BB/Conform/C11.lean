/-
  C11 — theorems over the access table regenerated from /repo (policy and `offenders` are defined in
  BB/Conform/C11Policy.lean so that they can still be evaluated when a theorem below fails).
-/
import BB.Conform.C11Policy
import BB.Proofs.Lockset
import BB.Gen.Captured

namespace BB.Conform.C11
open BB.Lockset BB.Gen.Skel BB.Gen.Access

/-- every field access of the current /repo tree follows its field's lock policy -/
theorem access_table_consistent : offenders = [] := by decide +kernel

/-- the table is not trivially empty: it covers the guarded state of every type -/
theorem table_covers :
    (table.any fun a => a.field == S.Buffer_buffer && a.write) = true ∧
    (table.any fun a => a.field == S.consumer_offset && a.write) = true ∧
    (table.any fun a => a.field == S.Channel_buffer && a.write) = true ∧
    (table.any fun a => a.field == S.Workers_queue && a.write) = true ∧
    (table.any fun a => a.field == S.exclusiveItem_running && a.write) = true ∧
    (table.any fun a => a.field == S.Notifier_subscribers && a.write) = true ∧
    (table.any fun a => a.field == S.ChanPubSub_pongN && a.write) = true ∧
    (table.any fun a => a.field == S.Worker_wg && a.write) = true := by decide +kernel

/-- lock order: the consumer mutex is taken before the buffer mutex, the item mutex before the map
    mutex (no access holds them acquired in the other order in the functions that take both) -/
theorem lock_order_facts :
    BB.Skel.dominates g_Buffer_Diff (BB.Skel.is BB.Skel.K.lock S.consumer_mutex) (BB.Skel.is BB.Skel.K.rlock S.Buffer_mutex) = true ∧
    BB.Skel.dominates g_Exclusive_call (BB.Skel.is BB.Skel.K.lock S.exclusiveItem_mutex) (BB.Skel.is BB.Skel.K.write S.exclusiveItem_count) = true := by
  decide +kernel

/-- variables of a function shared with a goroutine / AfterFunc closure it launches are not assigned by the function
    after the launch.  Allowed: `WaitCond.ctx`, assigned once in the same `cancel == nil` block, textually before the
    `go` statement (the rule lists it because both sit in the wait loop). -/
def allowedCapturedWrites : List (String × String × String) := [("WaitCond", "WaitCond.ctx", "WaitCond$0")]

theorem no_captured_variable_written_after_launch :
    BB.Gen.Captured.writesAfterLaunch.filter (fun e => !allowedCapturedWrites.contains e) = [] := by decide

/-- CombineContext publishes its clean-up hook (which reads the slice of stop functions) only after the last append -/
theorem combine_publishes_cleanup_after_wiring :
    BB.Skel.never g_CombineContext (BB.Skel.is BB.Skel.K.afterfunc S.ctx) (BB.Skel.is BB.Skel.K.afterfunc S.other) = true := by decide

end BB.Conform.C11
