/- T1 fact: the verifPoint hook calls of this component are where the harness (go/cmd/corr) expects them — same names, same
   enclosing functions, same multiplicity.  The event logs of the T3/T4 families are only meaningful while this holds; a change
   that drops or moves a hook call breaks this obligation instead of silently blinding the correspondence.  (9 calls) -/
import BB.Gen.Hooks

namespace BB.Conform.HooksExclusive

theorem hook_points_in_place :
    (BB.Gen.Hooks.hooks.filter fun h => h.1.startsWith "excl.") =
     [("excl.attach", "Exclusive.call"),
      ("excl.clear", "Exclusive.call"),
      ("excl.deliver", "Exclusive.call"),
      ("excl.escape", "Exclusive.call"),
      ("excl.resolve", "Exclusive.call"),
      ("excl.returned", "Exclusive.call"),
      ("excl.run", "Exclusive.call"),
      ("excl.swap", "Exclusive.call"),
      ("excl.work", "Exclusive.call")] := by decide +kernel

end BB.Conform.HooksExclusive
