/- T1 facts about the Buffer's cleanup goroutine and cooldown timer (C04, C12). -/
import BB.Gen.Skel
import BB.Model.Cleanup

namespace BB.Conform.Cleanup
open BB.Skel BB.Gen.Skel

/-- the timer goroutine re-broadcasts while holding the buffer mutex (taken before the local mutex: the same
    order as the cleanup func, which runs under the buffer mutex) — fix of finding F1 -/
theorem timer_rebroadcast_under_buffer_mutex :
    dominates g_Buffer_cleanup_2 (is K.lock S.Buffer_mutex) (is K.broadcast S.Buffer_cond) = true ∧
    dominates g_Buffer_cleanup_2 (is K.lock S.Buffer_mutex) (is K.lock S.mutex) = true ∧
    noInline g_Buffer_cleanup_2 (is K.unlock S.Buffer_mutex) = true ∧
    has g_Buffer_cleanup_2 (is K.broadcast S.Buffer_cond) = true ∧
    guardTrue g_Buffer_cleanup_2 S.broadcast (is K.broadcast S.Buffer_cond) = true := by decide
/-- the timer goroutine also ends when the buffer is closed (fix of finding F3), and always runs its deferred re-broadcast -/
theorem timer_goroutine_selects_on_buffer_ctx :
    has g_Buffer_cleanup_1 (is K.ctxdone S.Buffer_ctx) = true ∧ has g_Buffer_cleanup_1 (is K.recv S.timer_C) = true ∧
    beforeExit g_Buffer_cleanup_1 (isKind K.entry) (is K.callvar S.Buffer_cleanup_2) = true := by decide
/-- the cleanup func: under the local mutex; a running cooldown only records the change; otherwise the cleaner
    runs and (for a positive cooldown) a timer and its goroutine are started -/
theorem cleanup_func_shape :
    dominates g_Buffer_cleanup_0 (is K.lock S.mutex) (is K.call S.Buffer_cleanupLogic) = true ∧
    noInline g_Buffer_cleanup_0 (is K.unlock S.mutex) = true ∧
    dominates g_Buffer_cleanup_0 (is K.call S.Buffer_cleanupLogic) (is K.go S.Buffer_cleanup_1) = true ∧
    dominates g_Buffer_cleanup_0 (is K.timernew S.NewTimer) (is K.go S.Buffer_cleanup_1) = true ∧
    has g_Buffer_cleanup_0 (is K.cond S.c_timer_ne_nil) = true := by decide
/-- the cleanup goroutine evaluates inside WaitCond under the buffer write lock, with the buffer context,
    and closes the buffer when it ends -/
theorem cleanup_goroutine_shape :
    dominates g_Buffer_cleanup (is K.lock S.Buffer_mutex) (is K.call S.WaitCond) = true ∧
    noInline g_Buffer_cleanup (is K.unlock S.Buffer_mutex) = true ∧
    beforeExit g_Buffer_cleanup (isKind K.entry) (is K.call S.Buffer_Close) = true ∧
    dominates g_Buffer_cleanup_3 (is K.read S.CleanerConfig_Cooldown) (is K.callvar S.cleanup) = true := by decide

/-- configuration of the Cleanup model computed from the regenerated skeletons -/
def genCfgLocks : Bool :=
  dominates g_Buffer_cleanup_2 (is K.lock S.Buffer_mutex) (is K.broadcast S.Buffer_cond) &&
  dominates g_Buffer_cleanup_2 (is K.lock S.Buffer_mutex) (is K.lock S.mutex) &&
  noInline g_Buffer_cleanup_2 (is K.unlock S.Buffer_mutex)

theorem gen_cfg_timer_locks_buffer : genCfgLocks = (({} : BB.Cleanup.Cfg).timerLocksBuffer) := by decide

end BB.Conform.Cleanup
