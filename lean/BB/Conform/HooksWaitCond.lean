/- T1 fact: the verifPoint hook calls of WaitCond are where the harness (go/cmd/corr) expects them — same names, same enclosing
   functions, same multiplicity (7 calls); see HooksBuffer.lean. -/
import BB.Gen.Hooks

namespace BB.Conform.HooksWaitCond

theorem hook_points_in_place :
    (BB.Gen.Hooks.hooks.filter fun h => h.1.startsWith "wc.") =
     [("wc.pred", "WaitCond"),
      ("wc.spawn", "WaitCond"),
      ("wc.wait", "WaitCond"),
      ("wc.watcher.cancelled", "WaitCond"),
      ("wc.watcher.locked", "WaitCond"),
      ("wc.watcher.start", "WaitCond"),
      ("wc.woke", "WaitCond")] := by decide +kernel

end BB.Conform.HooksWaitCond
