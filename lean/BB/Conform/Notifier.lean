/- T1 facts about notifier.go (C15): the shape the `BB.Notifier` fan-out model relies on. -/
import BB.Gen.Skel

namespace BB.Conform.Notifier
open BB.Skel BB.Gen.Skel

/-- the publisher's context is checked first; the subscriber set is read under the read lock, which is held (deferred unlock)
    for the whole publish: the set of subscriptions a publish serves is fixed when it starts -/
theorem publish_reads_subscribers_under_the_read_lock :
    dominates g_Notifier_PublishContext (is K.ctxerr S.ctx) (is K.rlock S.Notifier_mutex) = true ∧
    dominates g_Notifier_PublishContext (is K.rlock S.Notifier_mutex) (is K.read S.Notifier_subscribers) = true ∧
    dominates g_Notifier_PublishContext (is K.rlock S.Notifier_mutex) (is K.call S.reflect_Select) = true ∧
    beforeExit g_Notifier_PublishContext (is K.rlock S.Notifier_mutex) (is K.runlock S.Notifier_mutex) = true ∧
    noInline g_Notifier_PublishContext (is K.runlock S.Notifier_mutex) = true := by decide

/-- eligibility: every subscription's context is checked, and the value's assignability to the element type is tested (or, for an
    untyped nil, the element kind), before its target is read as a send case -/
theorem eligibility_checked_before_a_send_case_is_built :
    dominates g_Notifier_PublishContext (is K.ctxerr S.notifierSubscriber_ctx) (is K.call S.AssignableTo) = true ∧
    dominates g_Notifier_PublishContext (is K.cond S.c_keySubscriber_ctx_ne_nil_and_keySubscriber_ctx_Err_call_ne_nil) (is K.call S.AssignableTo) = true ∧
    dominates g_Notifier_PublishContext (is K.cond S.c_keySubscriber_ctx_ne_nil_and_keySubscriber_ctx_Err_call_ne_nil) (is K.call S.reflect_Zero) = true ∧
    between g_Notifier_PublishContext (is K.cond S.c_keySubscriber_ctx_ne_nil_and_keySubscriber_ctx_Err_call_ne_nil) (is K.ctxdone S.notifierSubscriber_ctx)
      (por (is K.call S.AssignableTo) (is K.call S.reflect_Zero)) = true := by decide

/-- every delivery is one reflect.Select over the exit, failure and success cases together; the loop ends only when no
    success case is left or the publisher's context fired -/
theorem one_select_per_delivery :
    dominates g_Notifier_PublishContext (is K.cond S.c_len_successCases__ne_0) (is K.call S.reflect_Select) = true ∧
    between g_Notifier_PublishContext (is K.call S.reflect_Select) (is K.call S.reflect_Select) (is K.cond S.c_len_successCases__ne_0) = true ∧
    between g_Notifier_PublishContext (is K.call S.reflect_Select) (isKind K.exit)
      (por (is K.cond S.c_len_successCases__ne_0) (is K.cond S.c_exitIndex_lt_len_exitCases_)) = true := by decide

end BB.Conform.Notifier
