/- T1 fact: the verifPoint hook calls of this component are where the harness (go/cmd/corr) expects them — same names, same
   enclosing functions, same multiplicity.  The event logs of the T3/T4 families are only meaningful while this holds; a change
   that drops or moves a hook call breaks this obligation instead of silently blinding the correspondence.  (4 calls) -/
import BB.Gen.Hooks

namespace BB.Conform.HooksNotifier

theorem hook_points_in_place :
    (BB.Gen.Hooks.hooks.filter fun h => h.1.startsWith "not.") =
     [("not.iter.cases", "Notifier.PublishContext"),
      ("not.iter.refs", "Notifier.PublishContext"),
      ("not.publish.begin", "Notifier.PublishContext"),
      ("not.select", "Notifier.PublishContext")] := by decide +kernel

end BB.Conform.HooksNotifier
