/- T1 facts about `Exclusive.call` (C09, C10): the shape the model `BB.Exclusive` relies on. -/
import BB.Gen.Skel
import BB.Gen.Access

namespace BB.Conform.Exclusive
open BB.Skel BB.Gen.Skel

def blocking : Pred := fun n =>
  n.kind == K.condwait || n.kind == K.sleep || n.kind == K.callvar || n.kind == K.send || n.kind == K.recv ||
  n.kind == K.select || n.kind == K.wgwait || (n.kind == K.lock && n.sym != S.Exclusive_mutex) || n.kind == K.go

/-- the map mutex (the only lock shared between keys) is never held across anything that can block:
    every path from a `Lock` of it reaches its `Unlock` before any blocking node -/
theorem map_mutex_never_held_across_blocking :
    between g_Exclusive_call (is K.lock S.Exclusive_mutex) blocking (is K.unlock S.Exclusive_mutex) = true ∧
    between g_Exclusive_call_0 (is K.lock S.Exclusive_mutex) blocking (is K.unlock S.Exclusive_mutex) = true ∧
    between g_Exclusive_call (is K.lock S.Exclusive_mutex) (isKind K.exit) (is K.unlock S.Exclusive_mutex) = true ∧
    between g_Exclusive_call_0 (is K.lock S.Exclusive_mutex) (isKind K.exit) (is K.unlock S.Exclusive_mutex) = true ∧
    has g_Exclusive_call_2 (is K.lock S.Exclusive_mutex) = false := by decide

/-- a call attaches (count, work, wait) only to the item it re-validated as the map's item (`v == item`),
    holding the item mutex (taken first) and the map mutex -/
theorem attach_validated_under_both_locks :
    guardTrue g_Exclusive_call S.c_v_eq_item (is K.write S.exclusiveItem_count) = true ∧
    guardTrue g_Exclusive_call S.c_v_eq_item (is K.write S.exclusiveItem_work) = true ∧
    dominates g_Exclusive_call (is K.lock S.exclusiveItem_mutex) (is K.write S.exclusiveItem_count) = true ∧
    between g_Exclusive_call (is K.lock S.exclusiveItem_mutex) (is K.write S.exclusiveItem_count) (is K.lock S.Exclusive_mutex) = true ∧
    between g_Exclusive_call (is K.lock S.Exclusive_mutex) (is K.write S.exclusiveItem_count) (is K.read S.Exclusive_work) = true := by decide

/-- every write of `count` in `Exclusive.call` holds both the item mutex and the map mutex (from the regenerated lockset table) -/
theorem attach_lockset :
    (BB.Gen.Access.table.all fun a =>
      !(a.field == S.exclusiveItem_count && a.write && a.fn == BB.Gen.Access.F.Exclusive_call) ||
        (a.locks.any (·.1 == S.exclusiveItem_mutex) && a.locks.any (·.1 == S.Exclusive_mutex))) = true ∧
    (BB.Gen.Access.table.any fun a => a.field == S.exclusiveItem_count && a.write && a.fn == BB.Gen.Access.F.Exclusive_call) = true := by
  decide +kernel

/-- the start-style escape returns without starting a goroutine; the valid path keeps the item mutex until the `go` -/
theorem escape_and_handoff :
    condTrueThrough g_Exclusive_call S.c_c_start_and_item_count_ne_1 (isKind K.ret) (isKind K.go) = true ∧
    condTrueThrough g_Exclusive_call S.c_c_start_and_item_count_ne_1 (is K.unlock S.exclusiveItem_mutex) (isKind K.ret) = true ∧
    condTrueThrough g_Exclusive_call S.valid (is K.go S.Exclusive_call_0) (is K.unlock S.exclusiveItem_mutex) = true ∧
    has g_Exclusive_call (is K.go S.Exclusive_call_0) = true := by decide

/-- the goroutine: waits while `running`; delivers without executing when `complete`; otherwise sets `running`,
    installs the successor in the map BEFORE releasing the item mutex and calling the work function -/
theorem runner_shape :
    dominates g_Exclusive_call_0 (is K.cond S.item_running) (is K.cond S.item_complete) = true ∧
    guardTrue g_Exclusive_call_0 S.item_running (is K.condwait S.exclusiveItem_cond) = true ∧
    condTrueThrough g_Exclusive_call_0 S.item_complete (isKind K.ret) (por (is K.callvar S.item_work) (is K.write S.Exclusive_work)) = true ∧
    condTrueThrough g_Exclusive_call_0 S.item_complete (is K.unlock S.exclusiveItem_mutex) (isKind K.ret) = true ∧
    dominates g_Exclusive_call_0 (is K.write S.exclusiveItem_running) (is K.write S.Exclusive_work) = true ∧
    dominates g_Exclusive_call_0 (is K.write S.Exclusive_work) (is K.callvar S.item_work) = true ∧
    between g_Exclusive_call_0 (is K.write S.Exclusive_work) (is K.callvar S.item_work) (is K.unlock S.exclusiveItem_mutex) = true ∧
    between g_Exclusive_call_0 (is K.lock S.exclusiveItem_mutex) (is K.callvar S.item_work) (is K.unlock S.exclusiveItem_mutex) = true ∧
    dominates g_Exclusive_call_0 (is K.unlock S.exclusiveItem_mutex) (is K.callvar S.item_work) = true := by decide

/-- after the work function returns: resolve is forced, then (under the item mutex again) the successor's
    `running` flag is cleared, the key deleted under the map mutex when nobody attached, and waiters woken -/
theorem after_work_shape :
    between g_Exclusive_call_0 (is K.callvar S.item_work) (isKind K.exit) (is K.callvar S.resolve) = true ∧
    between g_Exclusive_call_0 (is K.callvar S.resolve) (isKind K.exit) (is K.write S.exclusiveItem_running) = true ∧
    between g_Exclusive_call_0 (is K.callvar S.item_work) (is K.write S.exclusiveItem_running) (is K.callvar S.resolve) = true ∧
    between g_Exclusive_call_0 (is K.callvar S.resolve) (is K.write S.exclusiveItem_running) (is K.lock S.exclusiveItem_mutex) = true ∧
    between g_Exclusive_call_0 (is K.callvar S.resolve) (isKind K.exit) (is K.broadcast S.exclusiveItem_cond) = true ∧
    between g_Exclusive_call_0 (is K.callvar S.resolve) (isKind K.exit) (is K.unlock S.exclusiveItem_mutex) = true := by decide

/-- resolve: once-only; the outcome is recorded, `complete` set, `running` cleared and waiters woken under the item mutex -/
theorem resolve_shape :
    dominates g_Exclusive_call_1 (is K.oncedo S.once) (is K.lit S.Exclusive_call_2) = true ∧
    dominates g_Exclusive_call_2 (is K.lock S.exclusiveItem_mutex) (is K.write S.exclusiveItem_result) = true ∧
    between g_Exclusive_call_2 (is K.lock S.exclusiveItem_mutex) (is K.unlock S.exclusiveItem_mutex) (is K.write S.exclusiveItem_complete) = true ∧
    between g_Exclusive_call_2 (is K.write S.exclusiveItem_complete) (is K.unlock S.exclusiveItem_mutex) (is K.write S.exclusiveItem_running) = true ∧
    between g_Exclusive_call_2 (is K.write S.exclusiveItem_running) (is K.unlock S.exclusiveItem_mutex) (is K.broadcast S.exclusiveItem_cond) = true ∧
    beforeExit g_Exclusive_call_2 (is K.lock S.exclusiveItem_mutex) (is K.unlock S.exclusiveItem_mutex) = true := by decide

/-- the map of items (created lazily: the zero value is ready to use) is read, created and written only while the map mutex
    is held — in particular the "is it there yet?" test and the creation are one critical section, so first calls racing on a
    fresh instance cannot replace a map that already holds a running item -/
theorem work_map_only_touched_under_the_mutex :
    ((BB.Gen.Access.table.filter (fun a => a.field == S.Exclusive_work)).all
        (fun a => a.locks.any (fun l => l.1 == S.Exclusive_mutex && l.2 == 1))) = true ∧
    (BB.Gen.Access.table.any (fun a => a.field == S.Exclusive_work && a.write)) = true ∧
    has g_Exclusive_call (is K.cond S.c_e_work_eq_nil) = true := by
  decide +kernel

end BB.Conform.Exclusive
