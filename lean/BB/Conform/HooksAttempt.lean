/- T1 fact: the verifPoint hook calls of this component are where the harness (go/cmd/corr) expects them — same names, same
   enclosing functions, same multiplicity.  The event logs of the T3/T4 families are only meaningful while this holds; a change
   that drops or moves a hook call breaks this obligation instead of silently blinding the correspondence.  (8 calls) -/
import BB.Gen.Hooks

namespace BB.Conform.HooksAttempt

theorem hook_points_in_place :
    (BB.Gen.Hooks.hooks.filter fun h => h.1.startsWith "attempt.") =
     [("attempt.ctxdone", "LinearAttempt"),
      ("attempt.exit", "LinearAttempt"),
      ("attempt.full", "LinearAttempt"),
      ("attempt.recheck.begin", "LinearAttempt"),
      ("attempt.recheck.cancelled", "LinearAttempt"),
      ("attempt.recheck.ok", "LinearAttempt"),
      ("attempt.sent", "LinearAttempt"),
      ("attempt.tick", "LinearAttempt")] := by decide +kernel

end BB.Conform.HooksAttempt
