/- T1 facts quantified over EVERY function of the package (regenerated skeletons and lock table): rules whose violation
   is a hang that needs a particular schedule to show (C05, C07, C10, C12, C14). -/
import BB.Gen.Skel
import BB.Gen.Access

namespace BB.Conform.Generic
open BB.Skel

/-- every `cond.Wait()` in the package sits in a loop that re-checks its condition: a wake-up meant for somebody else
    (or a broadcast for another reason) can never be mistaken for "my condition holds"
    (Buffer.Close waiting for its consumers, consumer.Close, Workers.Wait, Exclusive's waiters, ChanPubSub.Wait / Send, WaitCond) -/
theorem every_cond_wait_is_in_a_loop : (BB.Gen.Skel.allGraphs.all fun p => waitsInLoops p.2) = true := by decide +kernel

/-- the fact is not vacuous: the package does contain cond waits -/
theorem cond_waits_exist : (BB.Gen.Skel.allGraphs.any fun p => has p.2 (isKind K.condwait)) = true := by decide +kernel

/-- no function acquires (blocking Lock / RLock, directly or inside a statically resolved callee) a lock it already holds:
    self-deadlock for a Mutex, and for an RWMutex read lock a deadlock as soon as a writer queues between the two RLocks -/
theorem no_reentrant_acquisition : BB.Gen.Access.reentrant = [] := by decide

end BB.Conform.Generic
