/- T1 facts about ChanCaster.Send / ChanCaster.Add (C08): the shape the protocol model `BB.Caster` relies on. -/
import BB.Gen.Skel
import BB.Gen.Consts
import BB.Model.CasterWord

namespace BB.Conform.Caster
open BB.Skel BB.Gen.Skel

/-- Send: the write lock is taken before the CAS loop and released (deferred only) on every exit; every send to C
    comes after a CAS and is followed, on every path to an exit, by the load and CAS that validate and reset the word -/
theorem send_shape :
    dominates g_ChanCaster_Send (is K.lock S.ChanCaster_mutex) (is K.atomiccas S.ChanCaster_state) = true ∧
    dominates g_ChanCaster_Send (is K.atomiccas S.ChanCaster_state) (is K.send S.ChanCaster_C) = true ∧
    beforeExit g_ChanCaster_Send (is K.send S.ChanCaster_C) (is K.atomiccas S.ChanCaster_state) = true ∧
    between g_ChanCaster_Send (is K.send S.ChanCaster_C) (is K.atomiccas S.ChanCaster_state) (is K.atomicload S.ChanCaster_state) = true ∧
    beforeExit g_ChanCaster_Send (is K.lock S.ChanCaster_mutex) (is K.unlock S.ChanCaster_mutex) = true ∧
    noInline g_ChanCaster_Send (is K.unlock S.ChanCaster_mutex) = true ∧
    has g_ChanCaster_Send (is K.recv S.ChanCaster_C) = false ∧
    has g_ChanCaster_Send (is K.atomicadd S.ChanCaster_state) = false := by decide

/-- Add: a non-negative delta reaches the atomic add only through RLock (released, deferred only, on every exit) and never
    receives from C; the receive loop is reached only after an atomic add; the read lock is never held while receiving -/
theorem add_shape :
    condTrueThrough g_ChanCaster_Add S.c_delta_ge_0 (is K.rlock S.ChanCaster_mutex) (is K.atomicadd S.ChanCaster_state) = true ∧
    beforeExit g_ChanCaster_Add (is K.rlock S.ChanCaster_mutex) (is K.runlock S.ChanCaster_mutex) = true ∧
    noInline g_ChanCaster_Add (is K.runlock S.ChanCaster_mutex) = true ∧
    never g_ChanCaster_Add (is K.rlock S.ChanCaster_mutex) (is K.recv S.ChanCaster_C) = true ∧
    dominates g_ChanCaster_Add (is K.atomicadd S.ChanCaster_state) (is K.recv S.ChanCaster_C) = true ∧
    has g_ChanCaster_Add (is K.recv S.ChanCaster_C) = true ∧
    has g_ChanCaster_Add (is K.lock S.ChanCaster_mutex) = false ∧
    has g_ChanCaster_Add (is K.send S.ChanCaster_C) = false ∧
    has g_ChanCaster_Add (is K.atomiccas S.ChanCaster_state) = false := by decide

/-- the constants of the word model are the source's: the receiver bound, and 32-bit halves (every shift is by 32) -/
theorem word_constants :
    BB.Gen.Consts.localconst_ChanCaster_Add_maxReceivers = (BB.Caster.MAXR : Int) ∧
    BB.Gen.Consts.extconst_math_MaxInt32 = (BB.Caster.MAXR : Int) ∧
    BB.Gen.Consts.shifts_ChanCaster_Add.all (· == 32) = true ∧ BB.Gen.Consts.shifts_ChanCaster_Send.all (· == 32) = true ∧
    BB.Caster.W32 = 2 ^ 32 ∧ BB.Caster.W64 = 2 ^ 64 := by decide

end BB.Conform.Caster
