/- T1 facts about retry.go (C18): the order of the checks in one iteration of the retry loop, as `BB.Retry` models it. -/
import BB.Gen.Skel
import BB.Gen.Consts
import BB.Model.Retry

namespace BB.Conform.Retry
open BB.Skel BB.Gen.Skel

/-- the context is checked before every call of the operation (also after every wait), and nothing is called once it failed -/
theorem context_checked_before_every_call :
    dominates g_ExponentialRetry_0 (is K.ctxerr S.ctx) (is K.callvar S.value) = true ∧
    between g_ExponentialRetry_0 (is K.callvar S.value) (is K.callvar S.value) (is K.ctxerr S.ctx) = true ∧
    between g_ExponentialRetry_0 (is K.callvar S.waitDuration) (is K.callvar S.value) (is K.ctxerr S.ctx) = true ∧
    condTrueThrough g_ExponentialRetry_0 S.c_err_ne_nil (isKind K.ret) (is K.callvar S.value) = true := by decide

/-- after a failed call: success is tested first, then fatality, and only a non-fatal failure waits; the result of a fatal
    failure is returned WITHOUT consulting the context again -/
theorem outcome_tested_in_order :
    between g_ExponentialRetry_0 (is K.callvar S.value) (is K.call S.isFatalError) (is K.cond S.c_err_eq_nil) = true ∧
    between g_ExponentialRetry_0 (is K.callvar S.value) (is K.callvar S.waitDuration) (is K.cond S.c_isFatalError_err_) = true ∧
    condTrueThrough g_ExponentialRetry_0 S.c_isFatalError_err_ (is K.call S.unpackFatalError) (isKind K.exit) = true ∧
    never g_ExponentialRetry_0 (is K.call S.unpackFatalError) (is K.ctxerr S.ctx) = true ∧
    between g_ExponentialRetry_0 (is K.callvar S.value) (is K.ctxerr S.ctx) (is K.callvar S.waitDuration) = true := by decide

/-- the delay is computed from the attempt counter right before the wait; the counter is bumped (bounded) before the call -/
theorem delay_computed_before_the_wait :
    dominates g_ExponentialRetry_0 (is K.callvar S.calcExponentialRetry) (is K.callvar S.waitDuration) = true ∧
    dominates g_ExponentialRetry_0 (is K.cond S.c_c_lt_maxShiftUint32) (is K.callvar S.value) = true ∧
    dominates g_ExponentialRetry (is K.cond S.c_rate_le_0) (is K.lit S.ExponentialRetry_0) = true := by decide

/-- the constants of the model are the source's: the shift cap (31) and the default rate substituted for rate <= 0 (300 ms) -/
theorem constants_are_the_sources :
    BB.Gen.Consts.maxShiftUint32 = (BB.Retry.maxShift : Int) ∧ BB.Gen.Consts.defaultExponentialRetryRate = 300000000 := by decide

end BB.Conform.Retry
