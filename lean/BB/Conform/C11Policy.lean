/-
  C11 — lock discipline of the library, decided by the kernel on the access table regenerated from
  /repo (BB/Gen/Access.lean: every read/write of a field of a struct declared in the package with the
  locks that are held there on every path, computed inter-procedurally by the translator).

  Every field must have a policy below; a new field without one fails the obligation.  Together with
  `BB.LocksetTheory.conflicting_accesses_ordered` (a common lock held in write mode by writers orders
  conflicting accesses) this gives: no unsynchronised conflicting access to these fields.
-/
import BB.Gen.Skel
import BB.Gen.Access

namespace BB.Conform.C11
open BB.Lockset BB.Gen.Skel BB.Gen.Access

inductive Policy
  /-- every access holds `lock` (writes in write mode); accesses in `exemptAll` functions and reads in
      `exemptReads` functions are exempt (constructor / lazy initialiser before the object is shared,
      or reads of a local copy of the same struct type) -/
  | guarded (lock : Nat) (exemptAll exemptReads : List Nat)
  /-- written only in the listed functions, which run before the object is shared -/
  | immutableAfter (ctors : List Nat)
  /-- values that only travel by value or through a channel hand-over (option/config/result structs) -/
  | notShared
  /-- guarded by `lock`, plus accesses that are ordered by something other than a lock (justified below) -/
  | guardedOrdered (lock : Nat) (allowed : List (Nat × Bool))

def holds (a : Access) (lock : Nat) : Bool :=
  a.locks.any fun p => p.1 == lock && (p.2 == 1 || !a.write)

def okAccess : Policy → Access → Bool
  | .guarded l exAll exReads, a => exAll.contains a.fn || (!a.write && exReads.contains a.fn) || holds a l
  | .immutableAfter ctors, a => !a.write || ctors.contains a.fn
  | .notShared, _ => true
  | .guardedOrdered l allowed, a => holds a l || allowed.contains (a.fn, a.write)

/-- `Buffer.ensure` and its change closures: the documented exception of the lazy initialiser (the
    first call on a zero-value Buffer must complete before the Buffer is shared) -/
def ensureFns : List Nat := [F.Buffer_ensure, F.Buffer_ensure_0, F.Buffer_ensure_1, F.Buffer_ensure_2, F.Buffer_ensure_3,
  F.Buffer_ensure_4, F.Buffer_ensure_5, F.Buffer_ensure_6]

def policy (field : Nat) : Option Policy :=
  -- Buffer: state under Buffer.mutex; the lazily initialised fields are written by ensure only
  if field == S.Buffer_buffer || field == S.Buffer_offset || field == S.Buffer_consumers then some (.guarded S.Buffer_mutex ensureFns [])
  else if field == S.Buffer_cleaner || field == S.Buffer_cond || field == S.Buffer_ctx || field == S.Buffer_cancel || field == S.Buffer_done then
    some (.immutableAfter ensureFns)
  else if field == S.CleanerConfig_ALL || field == S.CleanerConfig_Cleaner || field == S.CleanerConfig_Cooldown then
    -- the config object behind Buffer.cleaner; SetCleanerConfig / FixedBufferCleaner also read their own parameter copies
    some (.guarded S.Buffer_mutex ensureFns [F.Buffer_SetCleanerConfig])
  -- consumer
  else if field == S.consumer_offset then some (.guarded S.consumer_mutex [] [])
  else if field == S.consumer_cond || field == S.consumer_ctx || field == S.consumer_cancel || field == S.consumer_done || field == S.consumer_producer then
    some (.immutableAfter [F.Buffer_NewConsumer])
  -- Channel
  else if field == S.Channel_buffer || field == S.Channel_rollback then some (.guarded S.Channel_mutex [] [])
  else if field == S.Channel_ctx || field == S.Channel_cancel || field == S.Channel_done || field == S.Channel_rate ||
          field == S.Channel_source || field == S.Channel_valid then some (.immutableAfter [F.NewChannel])
  -- ChanCaster / ChanPubSub (the counters are atomics and do not appear in the table)
  else if field == S.ChanCaster_C || field == S.ChanPubSub_broken || field == S.ChanPubSub_pongC || field == S.ChanPubSub_ping then
    some (.immutableAfter [F.NewChanPubSub, F.NewChanCaster])
  else if field == S.ChanPubSub_pongN then some (.guarded S.ChanPubSub_pongC_L [] [])
  -- Exclusive
  else if field == S.Exclusive_work then some (.guarded S.Exclusive_mutex [] [])
  else if field == S.exclusiveItem_running || field == S.exclusiveItem_complete || field == S.exclusiveItem_result ||
          field == S.exclusiveItem_err || field == S.exclusiveItem_count || field == S.exclusiveItem_ts ||
          field == S.exclusiveItem_wait then some (.guarded S.exclusiveItem_mutex [] [])
  else if field == S.exclusiveItem_work then
    -- the runner reads item.work after unlocking: by then it has swapped the item out of the map under
    -- both locks, and writers only write to the item they found in the map (re-validated under both locks)
    some (.guardedOrdered S.exclusiveItem_mutex [(F.Exclusive_call_0, false)])
  else if field == S.exclusiveItem_mutex || field == S.exclusiveItem_cond then some (.immutableAfter [])
  -- Workers / Worker / Notifier
  else if field == S.Workers_cond || field == S.Workers_count || field == S.Workers_queue || field == S.Workers_target then
    some (.guarded S.Workers_mutex [] [])
  else if field == S.Worker_wg then some (.guarded S.Worker_mu [] [])
  else if field == S.Worker_stop || field == S.Worker_done then
    -- Worker.do reads stop/done without the mutex: it is started by the `go` statement after they were set
    -- under the mutex, and they are cleared only after `<-x.done`, i.e. after do's last access (close(x.done))
    some (.guardedOrdered S.Worker_mu [(F.Worker_do, false)])
  else if field == S.Notifier_subscribers || field == S.notifierSubscriber_ctx || field == S.notifierSubscriber_target then
    some (.guarded S.Notifier_mutex [] [])
  -- option / config / result structs that travel by value
  else if field == S.callConfig_this || field == S.callConfig_args || field == S.callConfig_results ||
          field == S.callable_callableValue || field == S.fatalError_err ||
          field == S.exclusiveConfig_key || field == S.exclusiveConfig_work || field == S.exclusiveConfig_wait ||
          field == S.exclusiveConfig_start || field == S.exclusiveConfig_wrappers ||
          field == S.ExclusiveOutcome_Result || field == S.ExclusiveOutcome_Error then some .notShared
  else none

def accessOk (a : Access) : Bool :=
  match policy a.field with
  | some p => okAccess p a
  | none => false

/-- the offending accesses (empty on a consistently locked tree) -/
def offenders : List Access := table.filter (fun a => !accessOk a)


/-- human-readable description of the offending accesses (used by bin/check when the obligation fails) -/
def describe (a : Access) : String :=
  let name (i : Nat) : String := (BB.Gen.Skel.symNames.lookup i).getD (toString i)
  s!"{if a.write then "write" else "read"} {name a.field} in {name a.fn} holding {a.locks.map fun p => (name p.1, p.2)}"

end BB.Conform.C11
