/- T1 fact: the verifPoint hook calls of this component are where the harness (go/cmd/corr) expects them — same names, same
   enclosing functions, same multiplicity.  The event logs of the T3/T4 families are only meaningful while this holds; a change
   that drops or moves a hook call breaks this obligation instead of silently blinding the correspondence.  (46 calls) -/
import BB.Gen.Hooks

namespace BB.Conform.HooksPubSub

theorem hook_points_in_place :
    (BB.Gen.Hooks.hooks.filter fun h => h.1.startsWith "pubsub." || h.1.startsWith "caster.") =
     [("caster.add.absorbed", "ChanCaster.Add"),
      ("caster.add.load", "ChanCaster.Add"),
      ("caster.add.neg", "ChanCaster.Add"),
      ("caster.add.pos", "ChanCaster.Add"),
      ("caster.add.rlocked", "ChanCaster.Add"),
      ("caster.add.runlock", "ChanCaster.Add"),
      ("caster.atomic.begin", "ChanCaster.Add"),
      ("caster.atomic.begin", "ChanCaster.Add"),
      ("caster.atomic.begin", "ChanCaster.Add"),
      ("caster.atomic.begin", "ChanCaster.Send"),
      ("caster.atomic.begin", "ChanCaster.Send"),
      ("caster.atomic.begin", "ChanCaster.Send"),
      ("caster.atomic.begin", "ChanCaster.Send"),
      ("caster.send.cas", "ChanCaster.Send"),
      ("caster.send.cas", "ChanCaster.Send"),
      ("caster.send.fast", "ChanCaster.Send"),
      ("caster.send.fast", "ChanCaster.Send"),
      ("caster.send.final", "ChanCaster.Send"),
      ("caster.send.final", "ChanCaster.Send"),
      ("caster.send.load", "ChanCaster.Send"),
      ("caster.send.locked", "ChanCaster.Send"),
      ("caster.send.sent", "ChanCaster.Send"),
      ("caster.send.unlock", "ChanCaster.Send"),
      ("pubsub.atomic.begin", "ChanPubSub.Add"),
      ("pubsub.atomic.begin", "ChanPubSub.Add"),
      ("pubsub.atomic.begin", "ChanPubSub.Send"),
      ("pubsub.atomic.begin", "ChanPubSub.Send"),
      ("pubsub.iter.recv", "ChanPubSub.SubscribeContext"),
      ("pubsub.send.done", "ChanPubSub.Send"),
      ("pubsub.send.fast", "ChanPubSub.Send"),
      ("pubsub.send.fast", "ChanPubSub.Send"),
      ("pubsub.send.pong", "ChanPubSub.Send"),
      ("pubsub.send.ponged", "ChanPubSub.Send"),
      ("pubsub.send.sending", "ChanPubSub.Send"),
      ("pubsub.send.sendmu", "ChanPubSub.Send"),
      ("pubsub.send.subs", "ChanPubSub.Send"),
      ("pubsub.send.unsending", "ChanPubSub.Send"),
      ("pubsub.send.unsending", "ChanPubSub.Send"),
      ("pubsub.sub.rlocked", "ChanPubSub.Add"),
      ("pubsub.sub.runlock", "ChanPubSub.Add"),
      ("pubsub.sub.subs", "ChanPubSub.Add"),
      ("pubsub.unsub.runlock", "ChanPubSub.Add"),
      ("pubsub.unsub.subs", "ChanPubSub.Add"),
      ("pubsub.unsub.try", "ChanPubSub.Add"),
      ("pubsub.unsub.try", "ChanPubSub.Add"),
      ("pubsub.wait.consumed", "ChanPubSub.Wait")] := by decide +kernel

end BB.Conform.HooksPubSub
