/- T1 facts about context.go (C16, C12). -/
import BB.Gen.Skel

namespace BB.Conform.Ctx
open BB.Skel BB.Gen.Skel

/-- the primary's hook calls f only when stop() returned true -/
theorem chain_f_only_if_stop_true :
    guardTrue g_ChainAfterFunc_0 S.c_stop_call (is K.callvar S.f) = true ∧
    dominates g_ChainAfterFunc_0 (is K.callvar S.stop) (is K.callvar S.f) = true := by decide
theorem chain_registers_other_then_ctx :
    dominates g_ChainAfterFunc (is K.afterfunc S.other) (is K.afterfunc S.ctx) = true ∧
    has g_ChainAfterFunc (is K.afterfunc S.ctx) = true := by decide
theorem combine_registers_every_other_and_cleanup :
    has g_CombineContext (is K.afterfunc S.other) = true ∧ has g_CombineContext (is K.afterfunc S.ctx) = true ∧
    dominates g_CombineContext (is K.withcancel S.ctx) (is K.afterfunc S.other) = true := by decide
theorem combine_stop_deregisters_all :
    has g_stopCallbackSlice_Stop (is K.callvar S.stop) = true := by decide
theorem conflated_waiter_cancels_after_all_done :
    dominates g_ConflatedContext_1 (is K.wgwait S.wg) (is K.cancelcall S.cancel) = true ∧
    has g_ConflatedContext_1 (is K.cancelcall S.cancel) = true := by decide
theorem conflated_one_chain_per_live_input :
    dominates g_ConflatedContext (is K.ctxerr S.ctx2) (is K.call S.ChainAfterFunc) = true ∧
    dominates g_ConflatedContext (is K.wgadd S.wg) (is K.call S.ChainAfterFunc) = true ∧
    dominates g_ConflatedContext (is K.wgdone S.wg) (is K.go S.ConflatedContext_1) = true ∧
    dominates g_ConflatedContext (is K.withoutcancel S.none_) (is K.withcancel S.c_context_WithoutCancel_call) = true := by decide

end BB.Conform.Ctx
