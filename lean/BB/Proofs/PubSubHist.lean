/-
  Whole-history form of the order clauses of C06.

  `BB.PubSub.sys` keeps, per subscription, only the position it expects next (`nextSeq`).  Here the system is wrapped
  with a pure *observer*: per subscriber the (0-based) position of the global order at which its current subscription
  started and the list of values it has received since; per Send call the position at which it was armed.  The
  observer never influences a step (`hstep` is defined from `sys.step`), so every run of the wrapped system projects
  to a run of `sys` (`hreach_proj`), and every run of `sys` lifts.

  Proved for every reachable state of the wrapped system (`HInv`):
    * the values a subscription has received are exactly `(log.drop start).take n` — a contiguous run of the one global
      order, beginning with the first Send armed after the subscription was made, no gap, no duplicate;
    * every armed Send call sits at its own position of `log` with its value, and positions are handed out in arming
      order (so a Send that returned before another began is earlier in the order).
-/
import BB.Proofs.PubSub4

namespace BB.PubSub
open BB.LTS BB.Fun BB.Caster

structure HSt where
  st : St := {}
  start : Nat → Nat := fun _ => 0          -- observer: log.length when the current subscription of t was made
  seen : Nat → List Nat := fun _ => []     -- observer: values received by the current subscription of t, in order
  armedAt : Nat → Option Nat := fun _ => none  -- observer: position in `log` of the value of Send call a

def hobserve (h : HSt) : Act → HSt → HSt
  | .subInc t, h' => { h' with start := upd h.start t h.st.log.length, seen := upd h.seen t [] }
  | .recv a t, h' => { h' with seen := upd h.seen t (h.seen t ++ [(h.st.senders a).val]) }
  | .ccas a, h' => if h'.st.log = h.st.log then h' else { h' with armedAt := upd h.armedAt a (some h.st.log.length) }
  | _, h' => h'

def hstep (h : HSt) (act : Act) : Option HSt :=
  match sys.step h.st act with
  | none => none
  | some s' => some (hobserve h act { h with st := s' })

def hsys : LTS.Sys HSt Act := { init := {}, step := hstep }

theorem hstep_st {h h' : HSt} {act : Act} (hs : hsys.step h act = some h') : sys.step h.st act = some h'.st := by
  simp only [hsys, hstep] at hs
  cases e : sys.step h.st act with
  | none => simp [e] at hs
  | some s' =>
    simp only [e] at hs
    cases hs
    cases act <;> simp only [hobserve]
    case ccas a => split <;> rfl

/-- the observer does not restrict the system: every run of the wrapped system is a run of `sys` -/
theorem hreach_proj (h : HSt) (hr : Reach hsys h) : Reach sys h.st := by
  induction hr with
  | init => exact Reach.init
  | step _ hs ih => exact Reach.step ih (hstep_st hs)

/-- … and every step of `sys` is a step of the wrapped system -/
theorem hstep_total (h : HSt) (act : Act) (s' : St) (hs : sys.step h.st act = some s') : ∃ h', hsys.step h act = some h' ∧ h'.st = s' := by
  refine ⟨hobserve h act { h with st := s' }, by simp [hsys, hstep, hs], ?_⟩
  cases act <;> simp only [hobserve]
  case ccas a => split <;> rfl

/-- frame: `nextSeq` of subscriber t is only touched by its own subscription and receptions -/
theorem nextSeq_frame {s s' : St} {act : Act} (hs : sys.step s act = some s') (t : Nat)
    (h1 : ∀ a, act ≠ .recv a t) (h2 : act ≠ .subInc t) : (s'.subs t).nextSeq = (s.subs t).nextSeq := by
  have hne : ∀ u, (act = .subInc u ∨ ∃ a, act = .recv a u) → t ≠ u := by
    intro u hu e; subst e
    rcases hu with hu | ⟨a, hu⟩
    · exact h2 hu
    · exact h1 a hu
  cases act
  case subInc u =>
    have := hne u (Or.inl rfl)
    simp only [sys, step] at hs; split at hs <;> cases hs
    simp [setSub, upd_apply, this]
  case recv a u =>
    have := hne u (Or.inr ⟨a, rfl⟩)
    simp only [sys, step] at hs; split at hs <;> cases hs
    simp [setSub, setSender, upd_apply, this]
  all_goals (simp only [sys, step] at hs <;> (repeat' (split at hs)) <;> cases hs <;> (try rfl))
  all_goals (simp only [setSub, setSender, upd_apply, markOwes]; (repeat' split) <;> (first | rfl | simp_all))

/-- frame: the value of a Send call is fixed when the call begins; a call never returns to `idle` -/
theorem sender_frame {s s' : St} {act : Act} (hs : sys.step s act = some s') (a : Nat) (hp : (s.senders a).pc ≠ .idle) :
    (s'.senders a).val = (s.senders a).val ∧ (s'.senders a).pc ≠ .idle := by
  cases act
  all_goals (simp only [sys, step] at hs <;> (repeat' (split at hs)) <;> cases hs <;> (try exact ⟨rfl, hp⟩))
  all_goals (simp only [setSub, setSender, upd_apply]; (repeat' split) <;> (first | exact ⟨rfl, hp⟩ | simp_all))

/-- the global order only grows, and only by the value of the Send that arms -/
theorem log_step {s s' : St} {act : Act} (hs : sys.step s act = some s') :
    s'.log = s.log ∨ ∃ a, act = .ccas a ∧ s'.log = s.log ++ [(s.senders a).val] ∧ (s.senders a).pc ≠ .idle := by
  cases act
  case ccas a =>
    simp only [sys, step] at hs
    split at hs
    · rename_i g
      split at hs
      · split at hs
        · cases hs; exact Or.inr ⟨a, rfl, rfl, by rw [g.1]; decide⟩
        · cases hs
      · cases hs; exact Or.inl rfl
    · cases hs
  all_goals (simp only [sys, step] at hs <;> (repeat' (split at hs)) <;> cases hs <;> (try exact Or.inl rfl))

def RunClause (log : List Nat) (ns st : Nat) (seen : List Nat) : Prop :=
  (ns = 0 ∧ seen = [] ∧ st ≤ log.length) ∨ (ns = st + seen.length + 1 ∧ seen = (log.drop st).take seen.length ∧ st + seen.length ≤ log.length)

/-- what the observer has recorded, related to the global order -/
structure HInv (h : HSt) : Prop where
  run : ∀ t, RunClause h.st.log (h.st.subs t).nextSeq (h.start t) (h.seen t)
  armed : ∀ a p, h.armedAt a = some p → h.st.log[p]? = some (h.st.senders a).val ∧ (h.st.senders a).pc ≠ .idle
  distinct : ∀ a b p, h.armedAt a = some p → h.armedAt b = some p → a = b

theorem hinv_init : HInv hsys.init := ⟨fun _ => Or.inl ⟨rfl, rfl, Nat.le_refl _⟩, fun _ _ h => by simp [hsys] at h, fun _ _ _ h => by simp [hsys] at h⟩

theorem take_succ_of_length {l : List Nat} {n : Nat} {v : Nat} (hl : l.length = n + 1) (hv : l.getLast? = some v) :
    l.take n ++ [v] = l.take (n + 1) := by
  have h1 : l.take (n + 1) = l := List.take_of_length_le (by omega)
  rw [h1]
  have h2 := List.take_append_drop n l
  have h3 : (l.drop n).length = 1 := by simp [hl]
  match hd : l.drop n, h3 with
  | [w], _ =>
    rw [hd] at h2
    have : l.getLast? = some w := by rw [← h2]; simp
    rw [this] at hv; cases hv; exact h2

theorem run_keep {log log' : List Nat} {ns st : Nat} {seen : List Nat} (hl : log' = log ∨ ∃ v, log' = log ++ [v])
    (hc : RunClause log ns st seen) : RunClause log' ns st seen := by
  rcases hl with hl | ⟨v, hl⟩
  · rw [hl]; exact hc
  · rcases hc with hc | ⟨h1, h2, h3⟩
    · exact Or.inl ⟨hc.1, hc.2.1, by rw [hl]; simp; omega⟩
    · refine Or.inr ⟨h1, ?_, by rw [hl]; simp; omega⟩
      rw [hl, List.drop_append_of_le_length (by omega), List.take_append_of_le_length (by simp; omega)]
      exact h2

theorem log_or {s s' : St} {act : Act} (hs : sys.step s act = some s') : s'.log = s.log ∨ ∃ v, s'.log = s.log ++ [v] := by
  rcases log_step hs with h | ⟨a, _, h, _⟩
  · exact Or.inl h
  · exact Or.inr ⟨_, h⟩

theorem subInc_effect {s s' : St} {t : Nat} (hs : sys.step s (.subInc t) = some s') :
    (s'.subs t).nextSeq = s.log.length + 1 ∧ s'.log = s.log := by
  simp only [sys, step] at hs
  split at hs
  · cases hs; simp [setSub]
  · cases hs

theorem recv_effect {s s' : St} {a t : Nat} (hs : sys.step s (.recv a t) = some s') :
    (s.senders a).pc = .sending ∧ (s.subs t).pc = .idle ∧ (s'.subs t).nextSeq = s.log.length + 1 ∧ s'.log = s.log := by
  simp only [sys, step] at hs
  split at hs
  · rename_i g; cases hs; exact ⟨g.1, g.2.2, by simp [setSub, setSender], rfl⟩
  · cases hs

theorem hinv_step {h h' : HSt} {act : Act} (hr : Reach sys h.st) (hi : HInv h) (hs : hsys.step h act = some h') : HInv h' := by
  have e := hstep_st hs
  have hlog := log_or e
  obtain ⟨p1, p2, p3⟩ := pinv123_reach _ hr
  -- the observer's new components
  have hobs : h' = hobserve h act { h with st := h'.st } := by
    simp only [hsys, hstep] at hs
    rw [e] at hs; simp only [Option.some.injEq] at hs; exact hs.symm
  refine ⟨?_, ?_, ?_⟩
  · -- contiguous runs
    intro t
    have base := hi.run t
    show RunClause h'.st.log (h'.st.subs t).nextSeq (h'.start t) (h'.seen t)
    by_cases c1 : act = .subInc t
    · subst c1
      have hst : h'.start t = h.st.log.length ∧ h'.seen t = [] := by rw [hobs]; simp [hobserve]
      obtain ⟨hn, hl⟩ := subInc_effect e
      rw [hst.1, hst.2, hn, hl]
      exact Or.inr ⟨by simp, by simp, by simp⟩
    · by_cases c2 : ∃ a, act = .recv a t
      · obtain ⟨a, c2⟩ := c2
        subst c2
        have hst : h'.start t = h.start t ∧ h'.seen t = h.seen t ++ [(h.st.senders a).val] := by rw [hobs]; simp [hobserve]
        obtain ⟨g1, g3, hn, hl⟩ := recv_effect e
        have ho := p2.idleOwes ⟨a, by simp [g1, inA]⟩ t (Or.inl g3)
        have hns : (h.st.subs t).nextSeq = h.st.log.length := p3.ordA t a (by simp [g3, pcIn]) ho g1
        have hlast : h.st.log.getLast? = some (h.st.senders a).val := p3.lastIs a g1
        rw [hst.1, hst.2, hn, hl]
        rcases base with ⟨b1, _⟩ | ⟨b1, b2, b3⟩
        · rw [hns] at b1
          have : h.st.log = [] := List.length_eq_zero_iff.mp b1
          rw [this] at hlast; simp at hlast
        · refine Or.inr ⟨by simp; omega, ?_, by simp; omega⟩
          have hlen : (h.st.log.drop (h.start t)).length = (h.seen t).length + 1 := by simp; omega
          have hlast' : (h.st.log.drop (h.start t)).getLast? = some (h.st.senders a).val := by
            rw [List.getLast?_drop]; simp [hlast]; omega
          have := take_succ_of_length hlen hlast'
          rw [List.length_append, List.length_singleton, ← this, ← b2]
      · -- the observer and nextSeq of t are untouched
        have hn := nextSeq_frame e t (fun a ea => c2 ⟨a, ea⟩) c1
        have hst : h'.start t = h.start t ∧ h'.seen t = h.seen t := by
          rw [hobs]
          cases act <;> simp only [hobserve]
          case subInc u => have : t ≠ u := fun e => c1 (by rw [e]); simp [upd_apply, this]
          case recv a u => have : t ≠ u := fun e => c2 ⟨a, by rw [e]⟩; simp [upd_apply, this]
          case ccas a => split <;> simp
          all_goals (first | exact ⟨rfl, rfl⟩ | simp)
        rw [hst.1, hst.2, hn]
        exact run_keep hlog base
  · -- armed Send calls sit at their position
    intro a p hp
    by_cases c : ∃ b, act = .ccas b ∧ h'.st.log ≠ h.st.log
    · obtain ⟨b, c, cl⟩ := c
      subst c
      have harm : h'.armedAt = upd h.armedAt b (some h.st.log.length) := by rw [hobs]; simp [hobserve, cl]
      rcases log_step e with hl | ⟨b', eb, hl, hpc⟩
      · exact absurd hl cl
      · cases eb
        rw [harm, upd_apply] at hp
        by_cases ab : a = b
        · subst ab
          simp only [↓reduceIte, Option.some.injEq] at hp
          have := sender_frame e a hpc
          rw [this.1, hl, ← hp]; simp [this.2]
        · simp only [ab, ↓reduceIte] at hp
          obtain ⟨q1, q2⟩ := hi.armed a p hp
          have := sender_frame e a q2
          have hlt : p < h.st.log.length := by
            rcases Nat.lt_or_ge p h.st.log.length with h | h
            · exact h
            · rw [List.getElem?_eq_none h] at q1; cases q1
          rw [this.1, hl, List.getElem?_append_left hlt]; exact ⟨q1, this.2⟩
    · have harm : h'.armedAt = h.armedAt := by
        rw [hobs]
        cases act <;> simp only [hobserve]
        case ccas b =>
          split
          · rfl
          · rename_i hne; exact absurd ⟨b, rfl, hne⟩ c
      rw [harm] at hp
      obtain ⟨q1, q2⟩ := hi.armed a p hp
      have := sender_frame e a q2
      have hlt : p < h.st.log.length := by
        rcases Nat.lt_or_ge p h.st.log.length with h | h
        · exact h
        · rw [List.getElem?_eq_none h] at q1; cases q1
      rw [this.1]
      refine ⟨?_, this.2⟩
      rcases hlog with hl | ⟨v, hl⟩
      · rw [hl]; exact q1
      · rw [hl, List.getElem?_append_left hlt]; exact q1
  · -- positions are handed out once
    intro a b p ha hb
    by_cases c : ∃ d, act = .ccas d ∧ h'.st.log ≠ h.st.log
    · obtain ⟨d, c, cl⟩ := c
      subst c
      have harm : h'.armedAt = upd h.armedAt d (some h.st.log.length) := by rw [hobs]; simp [hobserve, cl]
      rw [harm, upd_apply] at ha hb
      have old : ∀ x, h.armedAt x = some p → p < h.st.log.length := by
        intro x hx
        have := (hi.armed x p hx).1
        rcases Nat.lt_or_ge p h.st.log.length with h | h
        · exact h
        · rw [List.getElem?_eq_none h] at this; cases this
      by_cases ad : a = d <;> by_cases bd : b = d
      · rw [ad, bd]
      · simp only [ad, ↓reduceIte, Option.some.injEq, bd] at ha hb
        have := old b hb; omega
      · simp only [ad, ↓reduceIte, Option.some.injEq, bd] at ha hb
        have := old a ha; omega
      · simp only [ad, ↓reduceIte, bd] at ha hb
        exact hi.distinct a b p ha hb
    · have harm : h'.armedAt = h.armedAt := by
        rw [hobs]
        cases act <;> simp only [hobserve]
        case ccas b =>
          split
          · rfl
          · rename_i hne; exact absurd ⟨b, rfl, hne⟩ c
      rw [harm] at ha hb
      exact hi.distinct a b p ha hb

theorem hinv_reach : ∀ h, Reach hsys h → HInv h := by
  intro h hr
  induction hr with
  | init => exact hinv_init
  | step hr' hs ih => exact hinv_step (hreach_proj _ hr') ih hs

end BB.PubSub
