/- Order invariant of the ChanPubSub protocol model: every subscription sees exactly the next message of the one
   global order (helper for Props/C06). -/
import BB.Proofs.PubSub3

namespace BB.PubSub
open BB.Fun BB.Caster

/-- the subscriber may still receive within its current subscription -/
def pcIn (pc : UPc) : Bool := pc == .idle || pc == .got || pc == .subAdded

structure PInv3 (s : St) : Prop where
  ordA   : ∀ t a, pcIn (s.subs t).pc = true → (s.subs t).owes = true → (s.senders a).pc = .sending → (s.subs t).nextSeq = s.log.length
  ordB   : ∀ t, pcIn (s.subs t).pc = true → ((s.subs t).owes = false ∨ ∀ a, (s.senders a).pc ≠ .sending) → (s.subs t).nextSeq = s.log.length + 1
  lastIs : ∀ a, (s.senders a).pc = .sending → s.log.getLast? = some (s.senders a).val

theorem pinv3_init : PInv3 sys.init := by
  constructor <;> simp [sys, pcIn]

/-- a subscriber step: the log and the senders' pcs / values are untouched; the new record either starts a fresh
    expectation (not owing, next = length + 1) or keeps the old one -/
theorem pinv3_sub {s s' : St} (h : PInv3 s) (t : Nat) (u' : Sub)
    (e1 : s'.subs = upd s.subs t u') (e2 : s'.log = s.log)
    (e3 : ∀ a, (s'.senders a).pc = (s.senders a).pc ∧ (s'.senders a).val = (s.senders a).val)
    (hu : (pcIn u'.pc = true → u'.owes = false ∧ u'.nextSeq = s.log.length + 1) ∨
          (u'.owes = (s.subs t).owes ∧ u'.nextSeq = (s.subs t).nextSeq ∧ (pcIn u'.pc = true → pcIn (s.subs t).pc = true))) : PInv3 s' := by
  have hsub : ∀ v, v ≠ t → s'.subs v = s.subs v := fun v e => by rw [e1]; exact upd_other _ _ e
  have hself : s'.subs t = u' := by rw [e1]; exact upd_same _ _ _
  constructor
  · intro v a hv ho ha
    rw [(e3 a).1] at ha; rw [e2]
    by_cases e : v = t
    · subst e; rw [hself] at hv ho ⊢
      rcases hu with hu | ⟨h1, h2, h3⟩
      · rw [(hu hv).1] at ho; cases ho
      · rw [h2]; exact h.ordA v a (h3 hv) (by rw [← h1]; exact ho) ha
    · rw [hsub v e] at hv ho ⊢; exact h.ordA v a hv ho ha
  · intro v hv hc
    rw [e2]
    have hc' : ∀ w : Sub, (w.owes = false ∨ ∀ a, (s'.senders a).pc ≠ .sending) → (w.owes = false ∨ ∀ a, (s.senders a).pc ≠ .sending) := by
      intro w hw; rcases hw with hw | hw
      · exact Or.inl hw
      · exact Or.inr (fun a => by rw [← (e3 a).1]; exact hw a)
    by_cases e : v = t
    · subst e; rw [hself] at hv hc ⊢
      rcases hu with hu | ⟨h1, h2, h3⟩
      · exact (hu hv).2
      · rw [h2]; exact h.ordB v (h3 hv) (by have := hc' _ hc; rw [h1] at this; exact this)
    · rw [hsub v e] at hv hc ⊢; exact h.ordB v hv (hc' _ hc)
  · intro a ha
    rw [(e3 a).1] at ha; rw [e2, (e3 a).2]; exact h.lastIs a ha

/-- a sender step that neither enters nor leaves the send phase and does not touch the log or the subscribers -/
theorem pinv3_sender {s s' : St} (h : PInv3 s) (a : Nat) (x' : Sender)
    (e1 : s'.subs = s.subs) (e2 : s'.log = s.log) (e4 : s'.senders = upd s.senders a x')
    (hpc : (x'.pc = .sending ↔ (s.senders a).pc = .sending)) (hv : x'.val = (s.senders a).val ∨ x'.pc ≠ .sending) : PInv3 s' := by
  have hsen : ∀ b, b ≠ a → s'.senders b = s.senders b := fun b e => by rw [e4]; exact upd_other _ _ e
  have hsa : s'.senders a = x' := by rw [e4]; exact upd_same _ _ _
  have pcs : ∀ b, (s'.senders b).pc = .sending ↔ (s.senders b).pc = .sending := by
    intro b; by_cases e : b = a
    · subst e; rw [hsa]; exact hpc
    · rw [hsen b e]
  constructor
  · intro v b hvv ho hb
    rw [e1] at hvv ho ⊢; rw [e2]
    exact h.ordA v b hvv ho ((pcs b).mp hb)
  · intro v hvv hc
    rw [e1] at hvv hc ⊢; rw [e2]
    refine h.ordB v hvv ?_
    rcases hc with hc | hc
    · exact Or.inl hc
    · exact Or.inr (fun b hb => hc b ((pcs b).mpr hb))
  · intro b hb
    rw [e2]
    by_cases e : b = a
    · subst e
      have old := (pcs b).mp hb
      rw [hsa] at hb ⊢
      rcases hv with hv | hv
      · rw [hv]; exact h.lastIs b old
      · exact absurd hb hv
    · rw [hsen b e] at hb ⊢; exact h.lastIs b hb

end BB.PubSub

namespace BB.PubSub
open BB.Fun BB.Caster

theorem e3_same {s s' : St} (e : s'.senders = s.senders) : ∀ a, (s'.senders a).pc = (s.senders a).pc ∧ (s'.senders a).val = (s.senders a).val := by
  intro a; rw [e]; exact ⟨rfl, rfl⟩

theorem e3_upd {s s' : St} {a : Nat} {x' : Sender} (e : s'.senders = upd s.senders a x') (h1 : x'.pc = (s.senders a).pc) (h2 : x'.val = (s.senders a).val) :
    ∀ b, (s'.senders b).pc = (s.senders b).pc ∧ (s'.senders b).val = (s.senders b).val := by
  intro b; rw [e]; by_cases eb : b = a
  · subst eb; rw [upd_same]; exact ⟨h1, h2⟩
  · rw [upd_other _ _ eb]; exact ⟨rfl, rfl⟩

theorem pinv3_step {s s' : St} {act : Act} (h1 : PInv1 s) (h2 : PInv2 s) (h : PInv3 s) (hs : sys.step s act = some s') : PInv3 s' := by
  cases act with
  | subLock t =>
    simp only [sys, step] at hs
    split at hs
    · cases hs
      exact pinv3_sub h t _ rfl rfl (e3_same rfl) (Or.inl (fun hp => by simp [pcIn] at hp))
    · cases hs
  | subInc t =>
    simp only [sys, step] at hs
    split at hs
    · rename_i g; cases hs
      have hof := owes_false_of_pc h2 t (by simp [g.1])
      exact pinv3_sub h t _ rfl rfl (e3_same rfl) (Or.inl (fun _ => ⟨hof, rfl⟩))
    · cases hs
  | subUnlock t =>
    simp only [sys, step] at hs
    split at hs
    · rename_i g; cases hs
      exact pinv3_sub h t _ rfl rfl (e3_same rfl) (Or.inr ⟨rfl, rfl, fun _ => by simp [g, pcIn]⟩)
    · cases hs
  | recv a t =>
    simp only [sys, step] at hs
    split at hs
    · cases hs
      exact pinv3_sub h t _ rfl rfl (e3_upd (a := a) rfl rfl rfl) (Or.inl (fun _ => ⟨rfl, rfl⟩))
    · cases hs
  | consume t =>
    simp only [sys, step] at hs
    split at hs
    · rename_i g; cases hs
      exact pinv3_sub h t _ rfl rfl (e3_same rfl) (Or.inr ⟨rfl, rfl, fun _ => by simp [g.1, pcIn]⟩)
    · cases hs
  | tryOk t =>
    simp only [sys, step] at hs
    split at hs
    · cases hs
      exact pinv3_sub h t _ rfl rfl (e3_same rfl) (Or.inl (fun hp => by simp [pcIn] at hp))
    · cases hs
  | tryFail t =>
    simp only [sys, step] at hs
    split at hs
    · cases hs
      exact pinv3_sub h t _ rfl rfl (e3_same rfl) (Or.inl (fun hp => by simp [pcIn] at hp))
    · cases hs
  | pingZero t =>
    simp only [sys, step] at hs
    split at hs
    · obtain ⟨r, hr, _⟩ := add0_ok h2
      rw [hr] at hs
      simp only at hs
      split at hs
      · cases hs; exact h
      · cases hs
    · cases hs
  | pingNonZero t =>
    simp only [sys, step] at hs
    split at hs
    · obtain ⟨r, hr, _⟩ := add0_ok h2
      rw [hr] at hs
      simp only at hs
      split at hs
      · cases hs
        exact pinv3_sub h t _ rfl rfl (e3_same rfl) (Or.inl (fun hp => by simp [pcIn] at hp))
      · cases hs
    · cases hs
  | unsubDecL t =>
    simp only [sys, step] at hs
    split at hs
    · cases hs
      exact pinv3_sub h t _ rfl rfl (e3_same rfl) (Or.inl (fun hp => by simp [pcIn] at hp))
    · cases hs
  | unsubUnlock t =>
    simp only [sys, step] at hs
    split at hs
    · cases hs
      exact pinv3_sub h t _ rfl rfl (e3_same rfl) (Or.inl (fun hp => by simp [pcIn] at hp))
    · cases hs
  | unsubDecN t =>
    simp only [sys, step] at hs
    split at hs
    · cases hs
      exact pinv3_sub h t _ rfl rfl (e3_same rfl) (Or.inl (fun hp => by simp [pcIn] at hp))
    · cases hs
  | pingSub t =>
    have h2' := pinv2_step h1 h2 hs
    simp only [sys, step] at hs
    split at hs
    · split at hs
      · split at hs
        · cases hs
          exact pinv3_sub h t _ rfl rfl (e3_same rfl) (Or.inl (fun hp => by simp [pcIn] at hp))
        · cases hs
          exact pinv3_sub h t _ rfl rfl (e3_same rfl) (Or.inl (fun hp => by simp [pcIn] at hp))
      · cases hs; have := h2'.np; simp at this
    · cases hs
  | absorb a t =>
    simp only [sys, step] at hs
    split at hs
    · cases hs
      exact pinv3_sub (s' := setSender (setSub s t { s.subs t with pc := .out }) a { s.senders a with k := (s.senders a).k + 1 })
        h t _ rfl rfl (e3_upd (a := a) rfl rfl rfl) (Or.inl (fun hp => by simp [pcIn] at hp))
    · cases hs
  | sbegin a v =>
    simp only [sys, step] at hs
    split at hs
    · rename_i g
      split at hs
      · cases hs
        exact pinv3_sender h a _ rfl rfl rfl (by simp [g.1]) (Or.inr (by simp))
      · cases hs
        exact pinv3_sender h a _ rfl rfl rfl (by simp [g.1]) (Or.inr (by simp))
    · cases hs
  | sendMu a =>
    simp only [sys, step] at hs
    split at hs
    · rename_i g; cases hs
      exact pinv3_sender h a _ rfl rfl rfl (by simp [g.1]) (Or.inr (by simp))
    · cases hs
  | sending a =>
    simp only [sys, step] at hs
    split at hs
    · rename_i g; cases hs
      exact pinv3_sender h a _ rfl rfl rfl (by simp [g.1]) (Or.inr (by simp))
    · cases hs
  | count a =>
    simp only [sys, step] at hs
    split at hs
    · rename_i g
      split at hs
      · cases hs
        exact pinv3_sender h a _ rfl rfl rfl (by simp [g]) (Or.inr (by simp))
      · cases hs
        exact pinv3_sender h a _ rfl rfl rfl (by simp [g]) (Or.inr (by simp))
    · cases hs
  | pingAdd a =>
    have h2' := pinv2_step h1 h2 hs
    simp only [sys, step] at hs
    split at hs
    · rename_i g
      have haM : inM (s.senders a).pc = true := by simp [g.1, inM]
      have nosend : ∀ b, (s.senders b).pc ≠ .sending := by
        intro b hb
        have := h1.singleM b a (by rw [hb]; rfl) haM
        subst this; rw [g.1] at hb; cases hb
      split at hs
      · split at hs
        · cases hs
          have hsen : ∀ b, b ≠ a → (upd s.senders a { s.senders a with pc := .added }) b = s.senders b := fun b e => upd_other _ _ e
          have nosend' : ∀ b, ((upd s.senders a { s.senders a with pc := .added }) b).pc ≠ .sending := by
            intro b; by_cases e : b = a
            · subst e; simp
            · rw [hsen b e]; exact nosend b
          have hpc : ∀ t, (markOwes s t).pc = (s.subs t).pc := by intro t; simp only [markOwes]; split <;> rfl
          have hns : ∀ t, (markOwes s t).nextSeq = (s.subs t).nextSeq := by intro t; simp only [markOwes]; split <;> rfl
          constructor
          · intro t b _ _ hb; exact absurd hb (nosend' b)
          · intro t ht _
            simp only [setSender] at ht ⊢
            rw [hpc] at ht; rw [hns]
            exact h.ordB t ht (Or.inr nosend)
          · intro b hb; exact absurd hb (nosend' b)
        · cases hs; have := h2'.np; simp at this
      · cases hs; have := h2'.np; simp at this
    · cases hs
  | cfast a =>
    simp only [sys, step] at hs
    split at hs
    · rename_i g
      split at hs
      · cases hs
        exact pinv3_sender h a _ rfl rfl rfl (by simp [g]) (Or.inr (by simp))
      · cases hs
        exact pinv3_sender h a _ rfl rfl rfl (by simp [g]) (Or.inr (by simp))
    · cases hs
  | cload a =>
    have h2' := pinv2_step h1 h2 hs
    simp only [sys, step] at hs
    split at hs
    · rename_i g
      split at hs
      · cases hs
        exact pinv3_sender h a _ rfl rfl rfl (by simp [g.1]) (Or.inr (by simp))
      · cases hs; have := h2'.np; simp at this
      · cases hs
        exact pinv3_sender h a _ rfl rfl rfl (by simp [g.1]) (Or.inl rfl)
    · cases hs
  | ccas a =>
    simp only [sys, step] at hs
    split at hs
    · rename_i g; obtain ⟨g1, g2⟩ := g
      have haM : inM (s.senders a).pc = true := by simp [g1, inM]
      have hW := h1.wOf a (by simp [g1, inW])
      have nosend : ∀ b, (s.senders b).pc ≠ .sending := by
        intro b hb
        have := h1.singleM b a (by rw [hb]; rfl) haM
        subst this; rw [g1] at hb; cases hb
      obtain ⟨_, _, _, _, hG, _⟩ := h2.pre a (Or.inr g1)
      split at hs
      · split at hs
        · cases hs
          have hsen : ∀ (x' : Sender) b, b ≠ a → (upd s.senders a x') b = s.senders b := fun _ b e => upd_other _ _ e
          constructor
          · intro t b ht ho _
            simp only [setSender] at ht ho ⊢
            rw [List.length_append, List.length_singleton]
            exact h.ordB t ht (Or.inr nosend)
          · intro t ht hc
            simp only [setSender] at ht hc ⊢
            exfalso
            -- in the pre-arm phase every subscriber that may still receive is owed the message
            have hof : (s.subs t).owes = false := by
              rcases hc with hc | hc
              · exact hc
              · have := hc a; simp at this
            have g0 := SUM_zero_pt gotI hG rfl h1 t
            have r0 := h1.noRd hW t
            cases hp : (s.subs t).pc <;> simp [hp, pcIn, gotI, inRd] at ht g0 r0
            have := h2.idleOwes ⟨a, by simp [g1, inA]⟩ t (Or.inl hp)
            rw [hof] at this; cases this
          · intro b hb
            simp only [setSender] at hb ⊢
            by_cases e : b = a
            · subst e; simp
            · rw [hsen _ b e] at hb; exact absurd hb (nosend b)
        · cases hs
      · cases hs
        exact pinv3_sender h a _ rfl rfl rfl (by simp [g1]) (Or.inl rfl)
    · cases hs
  | cfinal a =>
    have h2' := pinv2_step h1 h2 hs
    simp only [sys, step] at hs
    split at hs
    · rename_i g; obtain ⟨g1, g2, g3⟩ := g
      have haM : inM (s.senders a).pc = true := by simp [g1, inM]
      obtain ⟨_, hsum, _, _, _, _⟩ := h2.arm a g1
      have hO : SUM oweI s = 0 := by omega
      split at hs
      · cases hs
        have nosend' : ∀ (x' : Sender), x'.pc = .checked → ∀ b, ((upd s.senders a x') b).pc ≠ .sending := by
          intro x' hx b; by_cases e : b = a
          · subst e; rw [upd_same, hx]; simp
          · rw [upd_other _ _ e]; intro hb
            have := h1.singleM b a (by rw [hb]; rfl) haM
            exact e this
        constructor
        · intro t b _ _ hb; exact absurd hb (nosend' _ rfl b)
        · intro t ht _
          simp only [setSender] at ht ⊢
          have o0 := SUM_zero_pt oweI hO rfl h1 t
          have hof : (s.subs t).owes = false := by
            cases ho : (s.subs t).owes <;> simp [oweI, ho] at o0 ⊢
          exact h.ordB t ht (Or.inl hof)
        · intro b hb; exact absurd hb (nosend' _ rfl b)
      · cases hs; have := h2'.np; simp at this
    · cases hs
  | unsending a =>
    simp only [sys, step] at hs
    split at hs
    · rename_i g; cases hs
      exact pinv3_sender h a _ rfl rfl rfl (by simp [g]) (Or.inr (by simp))
    · cases hs
  | pong a =>
    simp only [sys, step] at hs
    split at hs
    · rename_i g
      split at hs
      · cases hs
        exact pinv3_sender h a _ rfl rfl rfl (by simp [g]) (Or.inr (by simp))
      · split at hs
        · cases hs
          exact pinv3_sender h a _ rfl rfl rfl (by simp [g]) (Or.inr (by simp))
        · cases hs
    · cases hs
  | ponged a =>
    simp only [sys, step] at hs
    split at hs
    · rename_i g; cases hs
      exact pinv3_sender h a _ rfl rfl rfl (by simp [g.1]) (Or.inr (by simp))
    · cases hs
  | sdone a =>
    simp only [sys, step] at hs
    split at hs
    · rename_i g; cases hs
      exact pinv3_sender h a _ rfl rfl rfl (by simp [g]) (Or.inr (by simp))
    · cases hs

theorem pinv123_reach : ∀ s, LTS.Reach sys s → PInv1 s ∧ PInv2 s ∧ PInv3 s :=
  LTS.invariant sys (fun s => PInv1 s ∧ PInv2 s ∧ PInv3 s) ⟨pinv1_init, pinv2_init, pinv3_init⟩
    (fun _ _ _ h hs => ⟨pinv1_step h.1 hs, pinv2_step h.1 h.2.1 hs, pinv3_step h.1 h.2.1 h.2.2 hs⟩)

end BB.PubSub
