/- The inductive invariant of the ChanCaster protocol model (helper for Props/C08). -/
import BB.Model.Caster
import BB.Proofs.CasterWord

namespace BB.Caster
open BB.Fun

structure CInv (s : St) : Prop where
  np      : s.panicked = false
  singleW : ∀ a b, inW (s.senders a).pc = true → inW (s.senders b).pc = true → a = b
  wOf     : ∀ a, inW (s.senders a).pc = true → s.wlock = true
  wEx     : s.wlock = true → ∃ a, inW (s.senders a).pc = true
  noRd    : s.wlock = true → ∀ r, (s.recvs r).pc ≠ .rlocked ∧ (s.recvs r).pc ≠ .added
  fresh   : ∀ r, s.nRecv ≤ r → s.recvs r = {}
  sumT    : s.T = sumTo (fun r => (s.recvs r).regs) s.nRecv
  sumP    : s.P = sumTo (fun r => (s.recvs r).k) s.nRecv
  kZero   : ∀ r, (s.recvs r).pc ≠ .absorbing → (s.recvs r).k = 0
  kPos    : ∀ r, (s.recvs r).pc = .absorbing → 0 < (s.recvs r).k
  dPos    : ∀ r, (s.recvs r).pc = .rlocked → 0 < (s.recvs r).d
  idle    : (∀ a, (s.senders a).pc ≠ .sending) → s.word = idleWord s.T ∧ s.P = 0
  armed   : ∀ a, (s.senders a).pc = .sending →
              s.word = armedWord (s.T + s.delivered) ∧ s.T + s.delivered + s.removedDuring = (s.senders a).n ∧
              s.T + s.P + (s.senders a).k = (s.senders a).n ∧ (s.senders a).n ≤ MAXR
  snapNZ  : ∀ a, (s.senders a).pc = .loaded → (s.senders a).snap ≠ 0
  tb      : s.T ≤ MAXR
  conserve : ∀ r, (s.recvs r).registered = (s.recvs r).regs + (s.recvs r).got.length + (s.recvs r).removed

theorem cinv_init : CInv sys.init := by
  constructor <;> simp [sys, inW, sumTo, idleWord, pack]

theorem noReaders_spec {s : St} (h : noReaders s = true) (r : Nat) (hr : r < s.nRecv) :
    (s.recvs r).pc ≠ .rlocked ∧ (s.recvs r).pc ≠ .added := by
  unfold noReaders at h
  rw [List.all_eq_true] at h
  have := h r (List.mem_range.mpr hr)
  simp only [Bool.and_eq_true, bne_iff_ne, ne_eq] at this
  exact this

theorem sending_inW {pc : SPc} (h : pc = .sending) : inW pc = true := by simp [h, inW]

/-- a receiver that is not in its default state is below `nRecv` -/
theorem lt_nRecv {s : St} (h : CInv s) (r : Nat) (hne : s.recvs r ≠ {}) : r < s.nRecv := by
  cases Nat.lt_or_ge r s.nRecv with
  | inl h1 => exact h1
  | inr h1 => exact absurd (h.fresh r h1) hne

theorem nobody_sending_of_not_wlock {s : St} (h : CInv s) (hw : s.wlock = false) : ∀ a, (s.senders a).pc ≠ .sending := by
  intro a ha
  have := h.wOf a (sending_inW ha)
  rw [hw] at this; cases this

theorem cinv_rlock {s s' : St} {r d : Nat} (h : CInv s) (hs : step s (.rlock r d) = some s') : CInv s' := by
  simp only [step] at hs
  split at hs
  · rename_i g
    obtain ⟨gpc, gd, gdm, gw, gr, gp⟩ := g
    cases hs
    have hrec : ∀ u, u ≠ r → (upd s.recvs r { s.recvs r with pc := .rlocked, d := d }) u = s.recvs u := fun u e => upd_other _ _ e
    have hregs : ∀ u, ((upd s.recvs r { s.recvs r with pc := .rlocked, d := d }) u).regs = (s.recvs u).regs := by
      intro u; by_cases e : u = r
      · subst e; simp
      · rw [hrec u e]
    have hk : ∀ u, ((upd s.recvs r { s.recvs r with pc := .rlocked, d := d }) u).k = (s.recvs u).k := by
      intro u; by_cases e : u = r
      · subst e; simp
      · rw [hrec u e]
    have hsum : ∀ f : Nat → Nat, (r = s.nRecv → f s.nRecv = 0) →
        sumTo f (if r = s.nRecv then s.nRecv + 1 else s.nRecv) = sumTo f s.nRecv := by
      intro f hf
      split
      · rename_i e; simp only [sumTo]; rw [hf e]; rfl
      · rfl
    constructor
    · exact gp
    · exact h.singleW
    · exact h.wOf
    · exact h.wEx
    · intro hw; simp only at hw; rw [gw] at hw; cases hw
    · intro u hu
      simp only at hu
      have : u ≠ r := by split at hu <;> omega
      simp only [hrec u this]
      exact h.fresh u (by split at hu <;> omega)
    · simp only [hregs]
      rw [hsum _ (fun e => by rw [h.fresh _ (Nat.le_refl _)])]
      exact h.sumT
    · simp only [hk]
      rw [hsum _ (fun e => by rw [h.fresh _ (Nat.le_refl _)])]
      exact h.sumP
    · intro u hu
      rw [hk]
      by_cases e : u = r
      · subst e; exact h.kZero u (by rw [gpc]; simp)
      · simp only [hrec u e] at hu; exact h.kZero u hu
    · intro u hu
      rw [hk]
      by_cases e : u = r
      · subst e; simp at hu
      · simp only [hrec u e] at hu; exact h.kPos u hu
    · intro u hu
      by_cases e : u = r
      · subst e; simpa using gd
      · simp only [hrec u e] at hu ⊢; exact h.dPos u hu
    · exact h.idle
    · exact h.armed
    · exact h.snapNZ
    · exact h.tb
    · intro u
      by_cases e : u = r
      · subst e; simpa using h.conserve u
      · simp only [hrec u e]; exact h.conserve u
  · cases hs

theorem cinv_radd {s s' : St} {r : Nat} (h : CInv s) (hs : step s (.radd r) = some s') : CInv s' := by
  simp only [step] at hs
  split at hs
  · rename_i g
    obtain ⟨gpc, gb, gp⟩ := g
    have hw : s.wlock = false := by
      cases e : s.wlock with
      | false => rfl
      | true => exact absurd gpc (h.noRd e r).1
    have hns := nobody_sending_of_not_wlock h hw
    have hword := (h.idle hns).1
    have hd := h.dPos r gpc
    have hadd := add_pos_idle s.T (s.recvs r).d hd gb
    rw [hword, hadd] at hs
    cases hs
    have hr : r < s.nRecv := lt_nRecv h r (by intro e; rw [e] at gpc; cases gpc)
    have hrec : ∀ u, u ≠ r → (upd s.recvs r { s.recvs r with pc := .added, regs := (s.recvs r).regs + (s.recvs r).d, registered := (s.recvs r).registered + (s.recvs r).d }) u = s.recvs u := fun u e => upd_other _ _ e
    have hk : ∀ u, ((upd s.recvs r { s.recvs r with pc := .added, regs := (s.recvs r).regs + (s.recvs r).d, registered := (s.recvs r).registered + (s.recvs r).d }) u).k = (s.recvs u).k := by
      intro u; by_cases e : u = r
      · subst e; simp
      · rw [hrec u e]
    constructor
    · exact gp
    · exact h.singleW
    · exact h.wOf
    · exact h.wEx
    · intro hw'; simp only at hw'; rw [hw] at hw'; cases hw'
    · intro u hu
      have : u ≠ r := by simp only at hu; omega
      simp only [hrec u this]; exact h.fresh u hu
    · simp only
      have := sumTo_change (f := fun u => (s.recvs u).regs)
        (g := fun u => ((upd s.recvs r { s.recvs r with pc := .added, regs := (s.recvs r).regs + (s.recvs r).d, registered := (s.recvs r).registered + (s.recvs r).d }) u).regs)
        hr (fun u e => by simp only [hrec u e])
      simp only [upd_same] at this
      have := h.sumT
      omega
    · simp only [hk]; exact h.sumP
    · intro u hu
      rw [hk]
      by_cases e : u = r
      · subst e; exact h.kZero u (by rw [gpc]; simp)
      · simp only [hrec u e] at hu; exact h.kZero u hu
    · intro u hu
      rw [hk]
      by_cases e : u = r
      · subst e; simp at hu
      · simp only [hrec u e] at hu; exact h.kPos u hu
    · intro u hu
      by_cases e : u = r
      · subst e; simp at hu
      · simp only [hrec u e] at hu ⊢; exact h.dPos u hu
    · intro _; exact ⟨rfl, (h.idle hns).2⟩
    · intro a ha; exact absurd ha (hns a)
    · exact h.snapNZ
    · exact gb
    · intro u
      by_cases e : u = r
      · subst e; simp only [upd_same]; have := h.conserve u; omega
      · simp only [hrec u e]; exact h.conserve u
  · cases hs

theorem cinv_runlock {s s' : St} {r : Nat} (h : CInv s) (hs : step s (.runlock r) = some s') : CInv s' := by
  simp only [step] at hs
  split at hs
  · rename_i gpc
    cases hs
    have hrec : ∀ u, u ≠ r → (upd s.recvs r { s.recvs r with pc := .out, d := 0 }) u = s.recvs u := fun u e => upd_other _ _ e
    have hregs : ∀ u, ((upd s.recvs r { s.recvs r with pc := .out, d := 0 }) u).regs = (s.recvs u).regs := by
      intro u; by_cases e : u = r
      · subst e; simp
      · rw [hrec u e]
    have hk : ∀ u, ((upd s.recvs r { s.recvs r with pc := .out, d := 0 }) u).k = (s.recvs u).k := by
      intro u; by_cases e : u = r
      · subst e; simp
      · rw [hrec u e]
    constructor
    · exact h.np
    · exact h.singleW
    · exact h.wOf
    · exact h.wEx
    · intro hw u
      by_cases e : u = r
      · subst e; simp
      · simp only [hrec u e]; exact h.noRd hw u
    · intro u hu
      have : u ≠ r := by
        intro e; subst e
        have := h.fresh u hu; rw [this] at gpc; cases gpc
      simp only [hrec u this]; exact h.fresh u hu
    · simp only [hregs]; exact h.sumT
    · simp only [hk]; exact h.sumP
    · intro u hu
      rw [hk]
      by_cases e : u = r
      · subst e; exact h.kZero u (by rw [gpc]; simp)
      · simp only [hrec u e] at hu; exact h.kZero u hu
    · intro u hu
      rw [hk]
      by_cases e : u = r
      · subst e; simp at hu
      · simp only [hrec u e] at hu; exact h.kPos u hu
    · intro u hu
      by_cases e : u = r
      · subst e; simp at hu
      · simp only [hrec u e] at hu ⊢; exact h.dPos u hu
    · exact h.idle
    · exact h.armed
    · exact h.snapNZ
    · exact h.tb
    · intro u
      by_cases e : u = r
      · subst e; simpa using h.conserve u
      · simp only [hrec u e]; exact h.conserve u
  · cases hs

theorem cinv_neg {s s' : St} {r d : Nat} (h : CInv s) (hs : step s (.neg r d) = some s') : CInv s' := by
  simp only [step] at hs
  split at hs
  · rename_i g
    obtain ⟨gpc, gd, gdr, gp⟩ := g
    have hr : r < s.nRecv := lt_nRecv h r (by intro e; rw [e] at gdr; simp at gdr; omega)
    have hregsT : (s.recvs r).regs ≤ s.T := by
      rw [h.sumT]; exact sumTo_ge_term (fun u => (s.recvs u).regs) hr
    have hk0 := h.kZero r (by rw [gpc]; simp)
    have htb := h.tb
    by_cases hsend : ∃ a, (s.senders a).pc = .sending
    · -- a Send is armed: the decrement is routed through the channel
      obtain ⟨a, ha⟩ := hsend
      obtain ⟨hword, h1, h2, h3⟩ := h.armed a ha
      have hadd := add_neg_armed (s.T + s.delivered) d gd (by omega) (by omega)
      rw [hword, hadd] at hs
      cases hs
      have hd0 : ¬ d = 0 := by omega
      simp only [hd0, ↓reduceIte]
      have hrec : ∀ u, u ≠ r → (upd s.recvs r { s.recvs r with regs := (s.recvs r).regs - d, removed := (s.recvs r).removed + d, k := d, pc := .absorbing }) u = s.recvs u := fun u e => upd_other _ _ e
      constructor
      · exact gp
      · exact h.singleW
      · exact h.wOf
      · exact h.wEx
      · intro hw u
        by_cases e : u = r
        · subst e; simp
        · simp only [hrec u e]; exact h.noRd hw u
      · intro u hu
        have : u ≠ r := by simp only at hu; omega
        simp only [hrec u this]; exact h.fresh u hu
      · simp only
        have := sumTo_change (f := fun u => (s.recvs u).regs)
          (g := fun u => ((upd s.recvs r { s.recvs r with regs := (s.recvs r).regs - d, removed := (s.recvs r).removed + d, k := d, pc := .absorbing }) u).regs)
          hr (fun u e => by simp only [hrec u e])
        simp only [upd_same] at this
        have := h.sumT
        omega
      · simp only
        have := sumTo_change (f := fun u => (s.recvs u).k)
          (g := fun u => ((upd s.recvs r { s.recvs r with regs := (s.recvs r).regs - d, removed := (s.recvs r).removed + d, k := d, pc := .absorbing }) u).k)
          hr (fun u e => by simp only [hrec u e])
        simp only [upd_same] at this
        have := h.sumP
        omega
      · intro u hu
        by_cases e : u = r
        · subst e; simp at hu
        · simp only [hrec u e] at hu ⊢; exact h.kZero u hu
      · intro u hu
        by_cases e : u = r
        · subst e; simpa using gd
        · simp only [hrec u e] at hu ⊢; exact h.kPos u hu
      · intro u hu
        by_cases e : u = r
        · subst e; simp at hu
        · simp only [hrec u e] at hu ⊢; exact h.dPos u hu
      · intro hall; exact absurd ha (hall a)
      · intro b hb
        have hb' := h.armed b hb
        refine ⟨?_, ?_, ?_, hb'.2.2.2⟩
        · simp only; congr 1; omega
        · simp only; omega
        · simp only; omega
      · exact h.snapNZ
      · simp only; omega
      · intro u
        by_cases e : u = r
        · subst e; simp only [upd_same]; have := h.conserve u; omega
        · simp only [hrec u e]; exact h.conserve u
    · -- no Send is armed
      have hns : ∀ a, (s.senders a).pc ≠ .sending := fun a ha => hsend ⟨a, ha⟩
      obtain ⟨hword, hP⟩ := h.idle hns
      have hadd := add_neg_idle s.T d gd (by omega) htb
      rw [hword, hadd] at hs
      cases hs
      simp only [↓reduceIte]
      have hrec : ∀ u, u ≠ r → (upd s.recvs r { s.recvs r with regs := (s.recvs r).regs - d, removed := (s.recvs r).removed + d, k := 0, pc := .out }) u = s.recvs u := fun u e => upd_other _ _ e
      have hk : ∀ u, ((upd s.recvs r { s.recvs r with regs := (s.recvs r).regs - d, removed := (s.recvs r).removed + d, k := 0, pc := .out }) u).k = (s.recvs u).k := by
        intro u; by_cases e : u = r
        · subst e; simp [hk0]
        · rw [hrec u e]
      constructor
      · exact gp
      · exact h.singleW
      · exact h.wOf
      · exact h.wEx
      · intro hw u
        by_cases e : u = r
        · subst e; simp
        · simp only [hrec u e]; exact h.noRd hw u
      · intro u hu
        have : u ≠ r := by simp only at hu; omega
        simp only [hrec u this]; exact h.fresh u hu
      · simp only
        have := sumTo_change (f := fun u => (s.recvs u).regs)
          (g := fun u => ((upd s.recvs r { s.recvs r with regs := (s.recvs r).regs - d, removed := (s.recvs r).removed + d, k := 0, pc := .out }) u).regs)
          hr (fun u e => by simp only [hrec u e])
        simp only [upd_same] at this
        have := h.sumT
        omega
      · simp only [hk, Nat.add_zero]; exact h.sumP
      · intro u hu
        rw [hk]
        by_cases e : u = r
        · subst e; exact hk0
        · simp only [hrec u e] at hu; exact h.kZero u hu
      · intro u hu
        rw [hk]
        by_cases e : u = r
        · subst e; simp at hu
        · simp only [hrec u e] at hu; exact h.kPos u hu
      · intro u hu
        by_cases e : u = r
        · subst e; simp only [upd_same] at hu; cases hu
        · simp only [hrec u e] at hu ⊢; exact h.dPos u hu
      · intro _; exact ⟨rfl, by simp only [Nat.add_zero]; exact hP⟩
      · intro a ha; exact absurd ha (hns a)
      · exact h.snapNZ
      · simp only; omega
      · intro u
        by_cases e : u = r
        · subst e; simp only [upd_same]; have := h.conserve u; omega
        · simp only [hrec u e]; exact h.conserve u
  · cases hs

theorem cinv_deliver {s s' : St} {a r : Nat} (h : CInv s) (hs : step s (.deliver a r) = some s') : CInv s' := by
  simp only [step] at hs
  split at hs
  · rename_i g
    obtain ⟨ga, gk, gpc, gregs⟩ := g
    cases hs
    have hr : r < s.nRecv := lt_nRecv h r (by intro e; rw [e] at gregs; simp at gregs)
    have hregsT : (s.recvs r).regs ≤ s.T := by
      rw [h.sumT]; exact sumTo_ge_term (fun u => (s.recvs u).regs) hr
    obtain ⟨hword, h1, h2, h3⟩ := h.armed a ga
    have hrec : ∀ u, u ≠ r → (upd s.recvs r { s.recvs r with regs := (s.recvs r).regs - 1, got := (s.recvs r).got ++ [(s.senders a).val] }) u = s.recvs u := fun u e => upd_other _ _ e
    have hk : ∀ u, ((upd s.recvs r { s.recvs r with regs := (s.recvs r).regs - 1, got := (s.recvs r).got ++ [(s.senders a).val] }) u).k = (s.recvs u).k := by
      intro u; by_cases e : u = r
      · subst e; simp
      · rw [hrec u e]
    have hpcR : ∀ u, ((upd s.recvs r { s.recvs r with regs := (s.recvs r).regs - 1, got := (s.recvs r).got ++ [(s.senders a).val] }) u).pc = (s.recvs u).pc := by
      intro u; by_cases e : u = r
      · subst e; simp
      · rw [hrec u e]
    have hdR : ∀ u, ((upd s.recvs r { s.recvs r with regs := (s.recvs r).regs - 1, got := (s.recvs r).got ++ [(s.senders a).val] }) u).d = (s.recvs u).d := by
      intro u; by_cases e : u = r
      · subst e; simp
      · rw [hrec u e]
    have hsen : ∀ b, b ≠ a → (upd s.senders a { s.senders a with k := (s.senders a).k + 1 }) b = s.senders b := fun b e => upd_other _ _ e
    have hpcS : ∀ b, ((upd s.senders a { s.senders a with k := (s.senders a).k + 1 }) b).pc = (s.senders b).pc := by
      intro b; by_cases e : b = a
      · subst e; simp
      · rw [hsen b e]
    constructor
    · exact h.np
    · intro x y hx hy; simp only [hpcS] at hx hy; exact h.singleW x y hx hy
    · intro x hx; simp only [hpcS] at hx; exact h.wOf x hx
    · intro hw; obtain ⟨x, hx⟩ := h.wEx hw; exact ⟨x, by simp only [hpcS]; exact hx⟩
    · intro hw u; simp only [hpcR]; exact h.noRd hw u
    · intro u hu
      have : u ≠ r := by simp only at hu; omega
      simp only [hrec u this]; exact h.fresh u hu
    · simp only
      have := sumTo_change (f := fun u => (s.recvs u).regs)
        (g := fun u => ((upd s.recvs r { s.recvs r with regs := (s.recvs r).regs - 1, got := (s.recvs r).got ++ [(s.senders a).val] }) u).regs)
        hr (fun u e => by simp only [hrec u e])
      simp only [upd_same] at this
      have := h.sumT
      omega
    · simp only [hk]; exact h.sumP
    · intro u hu; rw [hk]; rw [hpcR] at hu; exact h.kZero u hu
    · intro u hu; rw [hk]; rw [hpcR] at hu; exact h.kPos u hu
    · intro u hu; rw [hdR]; rw [hpcR] at hu; exact h.dPos u hu
    · intro hall; have := hall a; simp only [hpcS] at this; exact absurd ga this
    · intro b hb
      simp only [hpcS] at hb
      have e : b = a := h.singleW b a (sending_inW hb) (sending_inW ga)
      subst e
      simp only [upd_same]
      refine ⟨?_, ?_, ?_, h3⟩
      · rw [hword]; congr 1; omega
      · omega
      · omega
    · intro b hb
      simp only [hpcS] at hb
      by_cases e : b = a
      · subst e; rw [ga] at hb; cases hb
      · simp only [hsen b e]; exact h.snapNZ b hb
    · simp only; have := h.tb; omega
    · intro u
      by_cases e : u = r
      · subst e; simp only [upd_same, List.length_append, List.length_singleton]; have := h.conserve u; omega
      · simp only [hrec u e]; exact h.conserve u
  · cases hs

theorem cinv_absorb {s s' : St} {a r : Nat} (h : CInv s) (hs : step s (.absorb a r) = some s') : CInv s' := by
  simp only [step] at hs
  split at hs
  · rename_i g
    obtain ⟨ga, gk, gpc, gkr⟩ := g
    cases hs
    have hr : r < s.nRecv := lt_nRecv h r (by intro e; rw [e] at gkr; simp at gkr)
    have hkP : (s.recvs r).k ≤ s.P := by
      rw [h.sumP]; exact sumTo_ge_term (fun u => (s.recvs u).k) hr
    obtain ⟨hword, h1, h2, h3⟩ := h.armed a ga
    have hrec : ∀ u, u ≠ r → (upd s.recvs r { s.recvs r with k := (s.recvs r).k - 1, pc := if (s.recvs r).k = 1 then .out else .absorbing }) u = s.recvs u := fun u e => upd_other _ _ e
    have hregs : ∀ u, ((upd s.recvs r { s.recvs r with k := (s.recvs r).k - 1, pc := if (s.recvs r).k = 1 then .out else .absorbing }) u).regs = (s.recvs u).regs := by
      intro u; by_cases e : u = r
      · subst e; simp
      · rw [hrec u e]
    have hsen : ∀ b, b ≠ a → (upd s.senders a { s.senders a with k := (s.senders a).k + 1 }) b = s.senders b := fun b e => upd_other _ _ e
    have hpcS : ∀ b, ((upd s.senders a { s.senders a with k := (s.senders a).k + 1 }) b).pc = (s.senders b).pc := by
      intro b; by_cases e : b = a
      · subst e; simp
      · rw [hsen b e]
    constructor
    · exact h.np
    · intro x y hx hy; simp only [hpcS] at hx hy; exact h.singleW x y hx hy
    · intro x hx; simp only [hpcS] at hx; exact h.wOf x hx
    · intro hw; obtain ⟨x, hx⟩ := h.wEx hw; exact ⟨x, by simp only [hpcS]; exact hx⟩
    · intro hw u
      by_cases e : u = r
      · subst e; simp only [upd_same]; split <;> simp
      · simp only [hrec u e]; exact h.noRd hw u
    · intro u hu
      have : u ≠ r := by simp only at hu; omega
      simp only [hrec u this]; exact h.fresh u hu
    · simp only [hregs]; exact h.sumT
    · simp only
      have := sumTo_change (f := fun u => (s.recvs u).k)
        (g := fun u => ((upd s.recvs r { s.recvs r with k := (s.recvs r).k - 1, pc := if (s.recvs r).k = 1 then .out else .absorbing }) u).k)
        hr (fun u e => by simp only [hrec u e])
      simp only [upd_same] at this
      have := h.sumP
      omega
    · intro u hu
      by_cases e : u = r
      · subst e; simp only [upd_same] at hu ⊢
        split at hu
        · omega
        · simp at hu
      · simp only [hrec u e] at hu ⊢; exact h.kZero u hu
    · intro u hu
      by_cases e : u = r
      · subst e; simp only [upd_same] at hu ⊢
        split at hu
        · cases hu
        · omega
      · simp only [hrec u e] at hu ⊢; exact h.kPos u hu
    · intro u hu
      by_cases e : u = r
      · subst e; simp only [upd_same] at hu; split at hu <;> cases hu
      · simp only [hrec u e] at hu ⊢; exact h.dPos u hu
    · intro hall; have := hall a; simp only [hpcS] at this; exact absurd ga this
    · intro b hb
      simp only [hpcS] at hb
      have e : b = a := h.singleW b a (sending_inW hb) (sending_inW ga)
      subst e
      simp only [upd_same]
      refine ⟨hword, h1, ?_, h3⟩
      omega
    · intro b hb
      simp only [hpcS] at hb
      by_cases e : b = a
      · subst e; rw [ga] at hb; cases hb
      · simp only [hsen b e]; exact h.snapNZ b hb
    · exact h.tb
    · intro u
      by_cases e : u = r
      · subst e; simpa using h.conserve u
      · simp only [hrec u e]; exact h.conserve u
  · cases hs

theorem not_inW_of {pc : SPc} (h : pc = .idle ∨ pc = .want ∨ pc = .done ∨ pc = .dead) : inW pc = false := by
  rcases h with h | h | h | h <;> simp [h, inW]

theorem cinv_sbegin {s s' : St} {a v : Nat} (h : CInv s) (hs : step s (.sbegin a v) = some s') : CInv s' := by
  simp only [step] at hs
  split at hs
  · rename_i g
    obtain ⟨ga, gp⟩ := g
    have key : ∀ sn' : Sender, inW sn'.pc = false → sn'.pc ≠ .sending → sn'.pc ≠ .loaded →
        CInv { s with senders := upd s.senders a sn' } := by
      intro sn' hnw hns hnl
      have hsen : ∀ b, b ≠ a → (upd s.senders a sn') b = s.senders b := fun b e => upd_other _ _ e
      have haW : inW (s.senders a).pc = false := by simp [ga, inW]
      constructor
      · exact gp
      · intro x y hx hy
        by_cases ex : x = a
        · subst ex; simp only [upd_same] at hx; rw [hnw] at hx; cases hx
        by_cases ey : y = a
        · subst ey; simp only [upd_same] at hy; rw [hnw] at hy; cases hy
        simp only [hsen x ex] at hx; simp only [hsen y ey] at hy
        exact h.singleW x y hx hy
      · intro x hx
        by_cases ex : x = a
        · subst ex; simp only [upd_same] at hx; rw [hnw] at hx; cases hx
        simp only [hsen x ex] at hx; exact h.wOf x hx
      · intro hw
        obtain ⟨x, hx⟩ := h.wEx hw
        have : x ≠ a := by intro e; subst e; rw [haW] at hx; cases hx
        exact ⟨x, by simp only [hsen x this]; exact hx⟩
      · exact h.noRd
      · exact h.fresh
      · exact h.sumT
      · exact h.sumP
      · exact h.kZero
      · exact h.kPos
      · exact h.dPos
      · intro hall
        apply h.idle
        intro b hb
        by_cases e : b = a
        · subst e; rw [ga] at hb; cases hb
        · have := hall b; simp only [hsen b e] at this; exact this hb
      · intro b hb
        by_cases e : b = a
        · subst e; simp only [upd_same] at hb; exact absurd hb hns
        · simp only [hsen b e] at hb ⊢; exact h.armed b hb
      · intro b hb
        by_cases e : b = a
        · subst e; simp only [upd_same] at hb; exact absurd hb hnl
        · simp only [hsen b e] at hb ⊢; exact h.snapNZ b hb
      · exact h.tb
      · exact h.conserve
    split at hs
    · cases hs; exact key _ (by simp [inW]) (by simp) (by simp)
    · cases hs; exact key _ (by simp [inW]) (by simp) (by simp)
  · cases hs

theorem cinv_slock {s s' : St} {a : Nat} (h : CInv s) (hs : step s (.slock a) = some s') : CInv s' := by
  simp only [step] at hs
  split at hs
  · rename_i g
    obtain ⟨ga, gw, gn⟩ := g
    cases hs
    have hsen : ∀ b, b ≠ a → (upd s.senders a { s.senders a with pc := .locked }) b = s.senders b := fun b e => upd_other _ _ e
    have hnoW : ∀ b, inW (s.senders b).pc = false := by
      intro b
      cases e : inW (s.senders b).pc with
      | false => rfl
      | true => have := h.wOf b e; rw [gw] at this; cases this
    constructor
    · exact h.np
    · intro x y hx hy
      by_cases ex : x = a
      · by_cases ey : y = a
        · rw [ex, ey]
        · simp only [hsen y ey] at hy; rw [hnoW y] at hy; cases hy
      · simp only [hsen x ex] at hx; rw [hnoW x] at hx; cases hx
    · intro _ _; rfl
    · intro _; exact ⟨a, by simp [inW]⟩
    · intro _ r
      cases Nat.lt_or_ge r s.nRecv with
      | inl hr => exact noReaders_spec gn r hr
      | inr hr => rw [h.fresh r hr]; simp
    · exact h.fresh
    · exact h.sumT
    · exact h.sumP
    · exact h.kZero
    · exact h.kPos
    · exact h.dPos
    · intro _
      apply h.idle
      intro b hb; have := hnoW b; rw [sending_inW hb] at this; cases this
    · intro b hb
      by_cases e : b = a
      · subst e; simp at hb
      · simp only [hsen b e] at hb; have := hnoW b; rw [sending_inW hb] at this; cases this
    · intro b hb
      by_cases e : b = a
      · subst e; simp at hb
      · simp only [hsen b e] at hb ⊢; exact h.snapNZ b hb
    · exact h.tb
    · exact h.conserve
  · cases hs

theorem only_writer {s : St} (h : CInv s) {a : Nat} (ha : inW (s.senders a).pc = true) {b : Nat} (e : b ≠ a) :
    inW (s.senders b).pc = false := by
  cases hb : inW (s.senders b).pc with
  | false => rfl
  | true => exact absurd (h.singleW b a hb ha) e

theorem idleWord_zero : idleWord 0 = 0 := by simp [idleWord, pack]
theorem idleWord_ne_zero {n : Nat} (h : 0 < n) : idleWord n ≠ 0 := by unfold idleWord pack W32; omega

/-- the writer moves inside its locked region without touching the word or the receivers -/
theorem cinv_writer_move {s : St} (h : CInv s) {a : Nat} (ha : inW (s.senders a).pc = true) (hns : (s.senders a).pc ≠ .sending)
    (sn' : Sender) (hw' : inW sn'.pc = true) (hns' : sn'.pc ≠ .sending) (hl' : sn'.pc = .loaded → sn'.snap ≠ 0) :
    CInv { s with senders := upd s.senders a sn' } := by
  have hsen : ∀ b, b ≠ a → (upd s.senders a sn') b = s.senders b := fun b e => upd_other _ _ e
  have nobody : ∀ b, (s.senders b).pc ≠ .sending := by
    intro b hb
    by_cases e : b = a
    · subst e; exact hns hb
    · have := only_writer h ha e; rw [sending_inW hb] at this; cases this
  constructor
  · exact h.np
  · intro x y hx hy
    by_cases ex : x = a
    · by_cases ey : y = a
      · rw [ex, ey]
      · simp only [hsen y ey] at hy; rw [only_writer h ha ey] at hy; cases hy
    · simp only [hsen x ex] at hx; rw [only_writer h ha ex] at hx; cases hx
  · intro _ _; exact h.wOf a ha
  · intro _; exact ⟨a, by simp only [upd_same]; exact hw'⟩
  · exact h.noRd
  · exact h.fresh
  · exact h.sumT
  · exact h.sumP
  · exact h.kZero
  · exact h.kPos
  · exact h.dPos
  · intro _; exact h.idle nobody
  · intro b hb
    by_cases e : b = a
    · subst e; simp only [upd_same] at hb; exact absurd hb hns'
    · simp only [hsen b e] at hb; exact absurd hb (nobody b)
  · intro b hb
    by_cases e : b = a
    · subst e; simp only [upd_same] at hb ⊢; exact hl' hb
    · simp only [hsen b e] at hb ⊢; exact h.snapNZ b hb
  · exact h.tb
  · exact h.conserve

theorem cinv_sload {s s' : St} {a : Nat} (h : CInv s) (hs : step s (.sload a) = some s') : CInv s' := by
  simp only [step] at hs
  split at hs
  · rename_i g
    obtain ⟨ga, gp⟩ := g
    have haW : inW (s.senders a).pc = true := by simp [ga, inW]
    have hns : (s.senders a).pc ≠ .sending := by simp [ga]
    have nobody : ∀ b, (s.senders b).pc ≠ .sending := by
      intro b hb
      by_cases e : b = a
      · subst e; exact hns hb
      · have := only_writer h haW e; rw [sending_inW hb] at this; cases this
    have hword := (h.idle nobody).1
    by_cases hT : s.T = 0
    · have harm : arm s.word = .zero := by rw [hword, hT, idleWord_zero, arm_zero]
      rw [harm] at hs
      cases hs
      exact cinv_writer_move h haW hns { s.senders a with pc := .unlocking, ret := some 0 } (by simp [inW]) (by simp) (by simp)
    · have hpos : 0 < s.T := by omega
      have harm : arm s.word = .armed (armedWord s.T) s.T := by rw [hword, arm_idle s.T hpos h.tb]
      rw [harm] at hs
      cases hs
      exact cinv_writer_move h haW hns { s.senders a with pc := .loaded, snap := s.word } (by simp [inW]) (by simp)
        (fun _ => by simp only; rw [hword]; exact idleWord_ne_zero hpos)
  · cases hs

theorem cinv_scas {s s' : St} {a : Nat} (h : CInv s) (hs : step s (.scas a) = some s') : CInv s' := by
  simp only [step] at hs
  split at hs
  · rename_i ga
    have haW : inW (s.senders a).pc = true := by simp [ga, inW]
    have hns : (s.senders a).pc ≠ .sending := by simp [ga]
    have nobody : ∀ b, (s.senders b).pc ≠ .sending := by
      intro b hb
      by_cases e : b = a
      · subst e; exact hns hb
      · have := only_writer h haW e; rw [sending_inW hb] at this; cases this
    obtain ⟨hword, hP⟩ := h.idle nobody
    split at hs
    · rename_i heq
      have hsnap := h.snapNZ a ga
      have hpos : 0 < s.T := by
        cases Nat.eq_zero_or_pos s.T with
        | inl e => rw [← heq, hword, e, idleWord_zero] at hsnap; exact absurd rfl hsnap
        | inr e => exact e
      have harm : arm (s.senders a).snap = .armed (armedWord s.T) s.T := by rw [← heq, hword, arm_idle s.T hpos h.tb]
      rw [harm] at hs
      cases hs
      have hsen : ∀ b, b ≠ a → (upd s.senders a { s.senders a with pc := .sending, n := s.T, k := 0 }) b = s.senders b := fun b e => upd_other _ _ e
      constructor
      · exact h.np
      · intro x y hx hy
        by_cases ex : x = a
        · by_cases ey : y = a
          · rw [ex, ey]
          · simp only [hsen y ey] at hy; rw [only_writer h haW ey] at hy; cases hy
        · simp only [hsen x ex] at hx; rw [only_writer h haW ex] at hx; cases hx
      · intro _ _; exact h.wOf a haW
      · intro _; exact ⟨a, by simp [inW]⟩
      · exact h.noRd
      · exact h.fresh
      · exact h.sumT
      · exact h.sumP
      · exact h.kZero
      · exact h.kPos
      · exact h.dPos
      · intro hall; have := hall a; simp at this
      · intro b hb
        by_cases e : b = a
        · subst e
          simp only [upd_same, Nat.add_zero]
          exact ⟨trivial, trivial, by omega, h.tb⟩
        · simp only [hsen b e] at hb; exact absurd hb (nobody b)
      · intro b hb
        by_cases e : b = a
        · subst e; simp at hb
        · simp only [hsen b e] at hb
          have := only_writer h haW e; rw [hb] at this; simp [inW] at this
      · exact h.tb
      · exact h.conserve
    · cases hs
      exact cinv_writer_move h haW hns { s.senders a with pc := .locked } (by simp [inW]) (by simp) (by simp)
  · cases hs

theorem cinv_scheck {s s' : St} {a : Nat} (h : CInv s) (hs : step s (.scheck a) = some s') : CInv s' := by
  simp only [step] at hs
  split at hs
  · rename_i g
    obtain ⟨ga, gk, gp⟩ := g
    have haW : inW (s.senders a).pc = true := by simp [ga, inW]
    obtain ⟨hword, h1, h2, h3⟩ := h.armed a ga
    have hT : s.T = 0 := by omega
    have hP : s.P = 0 := by omega
    have hfin : finish s.word (s.senders a).n = some s.delivered := by
      rw [hword, hT, Nat.zero_add]; exact finish_armed s.delivered (s.senders a).n (by omega) (by omega)
    rw [hfin] at hs
    cases hs
    have hsen : ∀ b, b ≠ a → (upd s.senders a { s.senders a with pc := .unlocking, ret := some s.delivered }) b = s.senders b := fun b e => upd_other _ _ e
    have others : ∀ b, b ≠ a → (s.senders b).pc ≠ .sending ∧ (s.senders b).pc ≠ .loaded := by
      intro b e
      have := only_writer h haW e
      constructor <;> intro hb <;> rw [hb] at this <;> simp [inW] at this
    constructor
    · exact h.np
    · intro x y hx hy
      by_cases ex : x = a
      · by_cases ey : y = a
        · rw [ex, ey]
        · simp only [hsen y ey] at hy; rw [only_writer h haW ey] at hy; cases hy
      · simp only [hsen x ex] at hx; rw [only_writer h haW ex] at hx; cases hx
    · intro _ _; exact h.wOf a haW
    · intro _; exact ⟨a, by simp [inW]⟩
    · exact h.noRd
    · exact h.fresh
    · exact h.sumT
    · exact h.sumP
    · exact h.kZero
    · exact h.kPos
    · exact h.dPos
    · intro _; simp only; rw [hT, idleWord_zero]; exact ⟨rfl, hP⟩
    · intro b hb
      by_cases e : b = a
      · subst e; simp at hb
      · simp only [hsen b e] at hb; exact absurd hb (others b e).1
    · intro b hb
      by_cases e : b = a
      · subst e; simp at hb
      · simp only [hsen b e] at hb; exact absurd hb (others b e).2
    · exact h.tb
    · exact h.conserve
  · cases hs

theorem cinv_sunlock {s s' : St} {a : Nat} (h : CInv s) (hs : step s (.sunlock a) = some s') : CInv s' := by
  simp only [step] at hs
  split at hs
  · rename_i ga
    cases hs
    have haW : inW (s.senders a).pc = true := by simp [ga, inW]
    have hsen : ∀ b, b ≠ a → (upd s.senders a { s.senders a with pc := .done }) b = s.senders b := fun b e => upd_other _ _ e
    have nobody : ∀ b, (s.senders b).pc ≠ .sending := by
      intro b hb
      by_cases e : b = a
      · subst e; rw [ga] at hb; cases hb
      · have := only_writer h haW e; rw [sending_inW hb] at this; cases this
    have noW : ∀ b, inW ((upd s.senders a { s.senders a with pc := .done }) b).pc = false := by
      intro b
      by_cases e : b = a
      · subst e; simp [inW]
      · rw [hsen b e]; exact only_writer h haW e
    constructor
    · exact h.np
    · intro x y hx _; rw [noW x] at hx; cases hx
    · intro x hx; rw [noW x] at hx; cases hx
    · intro hw; cases hw
    · intro hw; cases hw
    · exact h.fresh
    · exact h.sumT
    · exact h.sumP
    · exact h.kZero
    · exact h.kPos
    · exact h.dPos
    · intro _; exact h.idle nobody
    · intro b hb; have := noW b; rw [sending_inW hb] at this; cases this
    · intro b hb; have := noW b; rw [hb] at this; simp [inW] at this
    · exact h.tb
    · exact h.conserve
  · cases hs

theorem cinv_step {s s' : St} {a : Act} (h : CInv s) (hs : sys.step s a = some s') : CInv s' := by
  cases a with
  | rlock r d => exact cinv_rlock h hs
  | radd r => exact cinv_radd h hs
  | runlock r => exact cinv_runlock h hs
  | neg r d => exact cinv_neg h hs
  | deliver a r => exact cinv_deliver h hs
  | absorb a r => exact cinv_absorb h hs
  | sbegin a v => exact cinv_sbegin h hs
  | slock a => exact cinv_slock h hs
  | sload a => exact cinv_sload h hs
  | scas a => exact cinv_scas h hs
  | scheck a => exact cinv_scheck h hs
  | sunlock a => exact cinv_sunlock h hs

theorem cinv_reach : ∀ s, LTS.Reach sys s → CInv s :=
  LTS.invariant sys CInv cinv_init (fun _ _ _ h hs => cinv_step h hs)

end BB.Caster
