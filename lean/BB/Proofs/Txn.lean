/- Frame lemmas for one consumer's transaction state (helper for Props/C02). -/
import BB.Proofs.Chain

namespace BB.Buffer

/-- (committed, delta) of consumer `c` -/
def view (s : St) (c : Nat) : Option (Nat × Nat) := (s.cons[c]?).map (fun k => (k.committed, k.delta))

theorem view_setCons_ne {s : St} {c c' : Nat} (k' : Cons) (h : c' ≠ c) :
    view (setCons s c' k') c = view s c := by
  simp [view, setCons, List.getElem?_set_ne h]

theorem view_setCons_same {s : St} {c : Nat} {k : Cons} (k' : Cons) (hk : s.cons[c]? = some k) :
    view (setCons s c k') c = some (k'.committed, k'.delta) := by
  have hl : c < s.cons.length := (List.getElem?_eq_some_iff.mp hk).1
  simp [view, setCons, List.getElem?_set_self hl]

theorem view_setCons_flags {s : St} {c c' : Nat} {k : Cons} (k' : Cons) (hk : s.cons[c']? = some k)
    (h1 : k'.committed = k.committed) (h2 : k'.delta = k.delta) :
    view (setCons s c' k') c = view s c := by
  by_cases h : c' = c
  · subst h
    rw [view_setCons_same k' hk]; simp [view, hk, h1, h2]
  · exact view_setCons_ne k' h

theorem readsOf_setCons (s : St) (c c' : Nat) (k' : Cons) : readsOf (setCons s c' k') c = readsOf s c := rfl

/-- operations that are not a Get/Commit/Rollback of consumer `c` -/
def Touches (c : Nat) : Op → Prop
  | .get c' => c' = c
  | .commit c' => c' = c
  | .rollback c' => c' = c
  | _ => False

theorem step_other {s : St} {c : Nat} {m d : Nat} (hv : view s c = some (m, d)) (op : Op) (h : ¬ Touches c op) :
    view (step s op) c = some (m, d) ∧ readsOf (step s op) c = readsOf s c := by
  cases op with
  | put vs => simp only [step, put]; split <;> exact ⟨hv, rfl⟩
  | newConsumer =>
    simp only [step, newConsumer]; split
    · exact ⟨hv, rfl⟩
    · refine ⟨?_, rfl⟩
      have hl : c < s.cons.length := by
        simp only [view] at hv
        cases hk : s.cons[c]? with
        | none => simp [hk] at hv
        | some k => exact (List.getElem?_eq_some_iff.mp hk).1
      simpa [view, List.getElem?_append_left hl] using hv
  | get c' =>
    have hne : c' ≠ c := fun e => h e
    simp only [step, BB.Buffer.get]; split
    · refine ⟨?_, ?_⟩
      · simpa [view, List.getElem?_set_ne hne] using hv
      · have : (c' == c) = false := by simpa using hne
        simp [readsOf, List.filter_append, this]
    · exact ⟨hv, rfl⟩
  | commit c' =>
    have hne : c' ≠ c := fun e => h e
    simp only [step, commit]; split
    · exact ⟨hv, rfl⟩
    · split
      · exact ⟨hv, rfl⟩
      · split
        · exact ⟨hv, rfl⟩
        · exact ⟨by rw [view_setCons_ne _ hne]; exact hv, rfl⟩
  | rollback c' =>
    have hne : c' ≠ c := fun e => h e
    simp only [step, rollback]; split
    · exact ⟨hv, rfl⟩
    · split
      · exact ⟨hv, rfl⟩
      · exact ⟨by rw [view_setCons_ne _ hne]; exact hv, rfl⟩
  | cancelCons c' =>
    simp only [step, cancelCons]; split
    · exact ⟨hv, rfl⟩
    · rename_i k hk
      exact ⟨(view_setCons_flags { k with cancelled := true } hk rfl rfl).trans hv, rfl⟩
  | finishClose c' =>
    simp only [step, finishClose]; split
    · exact ⟨hv, rfl⟩
    · rename_i k hk
      split
      · exact ⟨(view_setCons_flags { k with registered := false } hk rfl rfl).trans hv, rfl⟩
      · exact ⟨hv, rfl⟩
  | closeBuf =>
    refine ⟨?_, rfl⟩
    simp only [view, step, closeBuf, List.getElem?_map] at hv ⊢
    cases hk : s.cons[c]? with
    | none => simp [hk] at hv
    | some k => simpa [hk] using hv
  | clean k => exact ⟨hv, rfl⟩
  | cleanDefault => exact ⟨hv, rfl⟩
  | cleanFixed a b => exact ⟨hv, rfl⟩

/-- a Get of `c` either changes nothing for `c` or reads exactly position `committed + delta` -/
theorem step_get {s : St} {c : Nat} {m d : Nat} (hv : view s c = some (m, d)) :
    (view (step s (.get c)) c = some (m, d) ∧ readsOf (step s (.get c)) c = readsOf s c) ∨
    (view (step s (.get c)) c = some (m, d + 1) ∧ readsOf (step s (.get c)) c = readsOf s c ++ [m + d]) := by
  simp only [step, BB.Buffer.get]
  split
  · rename_i v k hgv hk
    right
    have hl : c < s.cons.length := (List.getElem?_eq_some_iff.mp hk).1
    simp only [view, hk, Option.map_some, Option.some.injEq, Prod.mk.injEq] at hv
    obtain ⟨h1, h2⟩ := hv
    subst h1; subst h2
    refine ⟨by simp [view, List.getElem?_set_self hl], ?_⟩
    simp [readsOf, List.filter_append]
  · left; exact ⟨hv, rfl⟩

/-- Between two commits/rollbacks of `c`, whatever everybody else does (including any cleaning),
    the positions `c` reads are consecutive, starting at its position. -/
theorem reads_consecutive (c : Nat) (ops : List Op)
    (hno : ∀ op ∈ ops, op ≠ Op.commit c ∧ op ≠ Op.rollback c) :
    ∀ (s : St) (m d : Nat), view s c = some (m, d) →
    ∃ n, readsOf (run s ops) c = readsOf s c ++ List.range' (m + d) n ∧
         view (run s ops) c = some (m, d + n) := by
  induction ops with
  | nil => intro s m d hv; exact ⟨0, by simp [run], by simpa [run] using hv⟩
  | cons op ops ih =>
    intro s m d hv
    have hno' : ∀ op ∈ ops, op ≠ Op.commit c ∧ op ≠ Op.rollback c := fun o ho => hno o (by simp [ho])
    have hop := hno op (by simp)
    by_cases ht : Touches c op
    · cases op with
      | get c' =>
        have : c' = c := ht
        subst this
        rcases step_get hv with ⟨h1, h2⟩ | ⟨h1, h2⟩
        · obtain ⟨n, hr, hv'⟩ := ih hno' _ m d h1
          exact ⟨n, by simp only [run, List.foldl] at hr ⊢; rw [hr, h2], by simpa [run] using hv'⟩
        · obtain ⟨n, hr, hv'⟩ := ih hno' _ m (d + 1) h1
          refine ⟨n + 1, ?_, ?_⟩
          · simp only [run, List.foldl] at hr ⊢
            rw [hr, h2, List.append_assoc]
            simp [List.range'_succ, Nat.add_assoc]
          · simp only [run, List.foldl] at hv' ⊢
            rw [hv']; congr 2; omega
      | commit c' => exact absurd (show Op.commit c' = Op.commit c by rw [show c' = c from ht]) hop.1
      | rollback c' => exact absurd (show Op.rollback c' = Op.rollback c by rw [show c' = c from ht]) hop.2
      | _ => exact absurd ht (by simp [Touches])
    · obtain ⟨h1, h2⟩ := step_other hv op ht
      obtain ⟨n, hr, hv'⟩ := ih hno' _ m d h1
      exact ⟨n, by simp only [run, List.foldl] at hr ⊢; rw [hr, h2], by simpa [run] using hv'⟩

/-- the committed offset of a consumer never decreases -/
theorem committed_mono (c : Nat) (ops : List Op) :
    ∀ (s : St) (m d : Nat), view s c = some (m, d) →
    ∃ m' d', view (run s ops) c = some (m', d') ∧ m ≤ m' := by
  induction ops with
  | nil => intro s m d hv; exact ⟨m, d, by simpa [run] using hv, Nat.le_refl _⟩
  | cons op ops ih =>
    intro s m d hv
    have key : ∃ m1 d1, view (step s op) c = some (m1, d1) ∧ m ≤ m1 := by
      by_cases ht : Touches c op
      · cases op with
        | get c' =>
          have : c' = c := ht
          subst this
          rcases step_get hv with ⟨h1, _⟩ | ⟨h1, _⟩
          · exact ⟨m, d, h1, Nat.le_refl _⟩
          · exact ⟨m, d + 1, h1, Nat.le_refl _⟩
        | commit c' =>
          have : c' = c := ht
          subst this
          simp only [step, commit]
          cases hk : s.cons[c']? with
          | none => simp [view, hk] at hv
          | some k =>
            simp only [view, hk, Option.map_some, Option.some.injEq, Prod.mk.injEq] at hv
            simp only
            split
            · exact ⟨m, d, by simp [view, hk, hv], Nat.le_refl _⟩
            · split
              · exact ⟨m, d, by simp [view, hk, hv], Nat.le_refl _⟩
              · exact ⟨_, _, view_setCons_same _ hk, by simp; omega⟩
        | rollback c' =>
          have : c' = c := ht
          subst this
          simp only [step, rollback]
          cases hk : s.cons[c']? with
          | none => simp [view, hk] at hv
          | some k =>
            simp only [view, hk, Option.map_some, Option.some.injEq, Prod.mk.injEq] at hv
            simp only
            split
            · exact ⟨m, d, by simp [view, hk, hv], Nat.le_refl _⟩
            · exact ⟨_, _, view_setCons_same _ hk, by simp; omega⟩
        | _ => exact absurd ht (by simp [Touches])
      · exact ⟨m, d, (step_other hv op ht).1, Nat.le_refl _⟩
    obtain ⟨m1, d1, h1, hle⟩ := key
    obtain ⟨m', d', h2, hle'⟩ := ih _ m1 d1 h1
    exact ⟨m', d', by simpa [run] using h2, Nat.le_trans hle hle'⟩

end BB.Buffer
