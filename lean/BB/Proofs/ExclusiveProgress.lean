/- Ownership invariants of the Exclusive model: who will clear a running flag, who holds a map entry;
   used for "no per-key state remains" and deadlock freedom (helper for Props/C10, C09). -/
import BB.Proofs.ExclusiveFrame

namespace BB.Exclusive

structure InvC (s : St) : Prop where
  firstWaiter : ∀ j, s.map = some j → (s.items j).count ≠ 0 →
                  ∃ t, ((s.threads t).pc = .waiting ∨ (s.threads t).pc = .running) ∧ (s.threads t).item = j
  zeroOwner   : ∀ j, s.map = some j → (s.items j).count = 0 → ∃ t, past (s.threads t).pc ∧ (s.threads t).next = j
  completeNotRunning : ∀ j, (s.items j).complete = true → (s.items j).running = false
  returnedComplete   : ∀ t, (s.threads t).pc = .returned → (s.items (s.threads t).item).complete = true
  runningOwner : ∀ j, (s.items j).running = true →
                  ∃ t, (inR (s.threads t).pc = true ∧ (s.threads t).item = j) ∨ (past (s.threads t).pc ∧ (s.threads t).next = j)

theorem invC_init : InvC sys.init := by
  constructor <;> simp [sys]

theorem not_idle_of_wr {pc : Pc} (h : pc = .waiting ∨ pc = .running) : pc ≠ .idle := by
  rcases h with h | h <;> simp [h]
theorem not_idle_of_inR {pc : Pc} (h : inR pc = true) : pc ≠ .idle := by
  intro e; rw [e] at h; cases h
theorem not_idle_of_past {pc : Pc} (h : past pc) : pc ≠ .idle := not_idle_of_inR (inR_of_past h)

theorem invC_alloc_attach {s : St} (t fn : Nat) (st : Bool) (h : Inv s) (hC : InvC s) (hm : s.map = none)
    (hidle : (s.threads t).pc = .idle) : InvC (attach (alloc s) s.nItems t fn st) := by
  have hcount0 : ((alloc s).items s.nItems).count = 0 := by simp [upd_apply]
  have hself := attach_threads_self (alloc s) s.nItems t fn st
  have hselfpc : ((attach (alloc s) s.nItems t fn st).threads t).pc = .waiting := by
    rw [hself, hcount0]; simp
  have hother : ∀ u, u ≠ t → (attach (alloc s) s.nItems t fn st).threads u = s.threads u := by
    intro u e; rw [attach_threads_other _ _ _ _ _ e]; rfl
  have hitems : ∀ k, k ≠ s.nItems → (attach (alloc s) s.nItems t fn st).items k = s.items k := by
    intro k e; rw [attach_items_other _ _ _ _ _ e]; simp [upd_apply, e]
  have hNrun : ((attach (alloc s) s.nItems t fn st).items s.nItems).running = false := by
    rw [attach_items_running]; simp [upd_apply]
  have hNcomp : ((attach (alloc s) s.nItems t fn st).items s.nItems).complete = false := by
    rw [attach_items_complete]; simp [upd_apply]
  have hne : ∀ u, (s.threads u).pc ≠ .idle → u ≠ t := fun u hu e => hu (e ▸ hidle)
  constructor
  · intro j hj _
    simp only [attach_map, alloc_map] at hj; cases hj
    exact ⟨t, Or.inl hselfpc, by rw [hself]⟩
  · intro j hj hc
    simp only [attach_map, alloc_map] at hj; cases hj
    rw [attach_items_self, hcount0] at hc; simp at hc
  · intro k hk
    by_cases e : k = s.nItems
    · subst e; rw [hNcomp] at hk; cases hk
    · rw [hitems k e] at hk ⊢; exact hC.completeNotRunning k hk
  · intro u hu
    by_cases e : u = t
    · subst e; rw [hselfpc] at hu; cases hu
    · rw [hother u e] at hu ⊢
      have hb := h.bounded u (by simp [hu])
      rw [hitems _ (by omega)]; exact hC.returnedComplete u hu
  · intro k hk
    by_cases e : k = s.nItems
    · subst e; rw [hNrun] at hk; cases hk
    · rw [hitems k e] at hk
      obtain ⟨u, hu⟩ := hC.runningOwner k hk
      refine ⟨u, ?_⟩
      have : u ≠ t := by
        rcases hu with hu | hu
        · exact hne u (not_idle_of_inR hu.1)
        · exact hne u (not_idle_of_past hu.1)
      rw [hother u this]; exact hu

theorem invC_micro {s s' : St} (h : Inv s) (hC : InvC s) (hm : Micro s s') (hmap : s.map = none → s'.map = none) : InvC s' := by
  cases hm with
  | alloc hm => have := hmap hm; simp at this
  | @attach j t fn st hm hidle =>
    have hne : ∀ u, (s.threads u).pc ≠ .idle → u ≠ t := fun u hu e => hu (e ▸ hidle)
    have hother := fun u (e : u ≠ t) => attach_threads_other s j t fn st e
    constructor
    · intro k hk _
      simp only [attach_map] at hk
      have : k = j := by rw [hm] at hk; exact (Option.some.inj hk).symm
      subst this
      by_cases hc : (s.items k).count = 0
      · refine ⟨t, Or.inl ?_, by rw [attach_threads_self]⟩
        rw [attach_threads_self, hc]; simp
      · obtain ⟨u, hu1, hu2⟩ := hC.firstWaiter k hm hc
        exact ⟨u, by rw [hother u (hne u (not_idle_of_wr hu1))]; exact ⟨hu1, hu2⟩⟩
    · intro k hk hc
      simp only [attach_map] at hk
      have : k = j := by rw [hm] at hk; exact (Option.some.inj hk).symm
      subst this
      rw [attach_items_self] at hc; simp at hc
    · intro k hk
      rw [attach_items_complete] at hk; rw [attach_items_running]; exact hC.completeNotRunning k hk
    · intro u hu
      by_cases e : u = t
      · subst e; rcases attach_self_pc s j u fn st with e | e <;> rw [e] at hu <;> cases hu
      · rw [hother u e] at hu ⊢; rw [attach_items_complete]; exact hC.returnedComplete u hu
    · intro k hk
      rw [attach_items_running] at hk
      obtain ⟨u, hu⟩ := hC.runningOwner k hk
      refine ⟨u, ?_⟩
      have : u ≠ t := by
        rcases hu with hu | hu
        · exact hne u (not_idle_of_inR hu.1)
        · exact hne u (not_idle_of_past hu.1)
      rw [hother u this]; exact hu
  | @deliver t ht hr hc =>
    have hother : ∀ u, u ≠ t → (deliverSt s t).threads u = s.threads u := by
      intro u e; simp [deliverSt, upd_apply, e]
    have hpct : ((deliverSt s t).threads t).pc = .done := by simp [deliverSt, upd_apply]
    have hnotR : ∀ u, inR (s.threads u).pc = true → u ≠ t := fun u hu e => by subst e; rw [ht] at hu; cases hu
    constructor
    · intro j hj hcnt
      obtain ⟨u, hu1, hu2⟩ := hC.firstWaiter j hj hcnt
      have : u ≠ t := by
        intro e; subst e
        rw [hu2] at hc; rw [(h.mapFresh j hj).1] at hc; cases hc
      exact ⟨u, by rw [hother u this]; exact ⟨hu1, hu2⟩⟩
    · intro j hj hcnt
      obtain ⟨u, hu1, hu2⟩ := hC.zeroOwner j hj hcnt
      exact ⟨u, by rw [hother u (hnotR u (inR_of_past hu1))]; exact ⟨hu1, hu2⟩⟩
    · exact hC.completeNotRunning
    · intro u hu
      by_cases e : u = t
      · subst e; rw [hpct] at hu; cases hu
      · rw [hother u e] at hu ⊢; exact hC.returnedComplete u hu
    · intro k hk
      obtain ⟨u, hu⟩ := hC.runningOwner k hk
      refine ⟨u, ?_⟩
      have : u ≠ t := by
        rcases hu with hu | hu
        · exact hnotR u hu.1
        · exact hnotR u (inR_of_past hu.1)
      rw [hother u this]; exact hu
  | @run t ht hr hc =>
    obtain ⟨hnoR, hmp⟩ := h.waitOk t ht hr hc
    have hother : ∀ u, u ≠ t → (runSt s t).threads u = s.threads u := by
      intro u e; simp [runSt, upd_apply, e]
    have hself : (runSt s t).threads t = { s.threads t with pc := .running } := by simp [runSt, upd_apply]
    have hiother : ∀ k, k ≠ (s.threads t).item → (runSt s t).items k = s.items k := by
      intro k e; simp [runSt, upd_apply, e]
    have hiself : (runSt s t).items (s.threads t).item = { s.items (s.threads t).item with running := true } := by
      simp [runSt, upd_apply]
    have hmap' : (runSt s t).map = s.map := rfl
    constructor
    · intro j hj _
      rw [hmap', hmp] at hj; cases hj
      exact ⟨t, by rw [hself]; exact ⟨Or.inr rfl, rfl⟩⟩
    · intro j hj hcnt
      rw [hmap', hmp] at hj; cases hj
      rw [hiself] at hcnt
      exact absurd rfl (h.countZero _ hcnt t (by simp [ht]))
    · intro k hk
      by_cases e : k = (s.threads t).item
      · subst e; rw [hiself] at hk; simp only at hk; rw [hc] at hk; cases hk
      · rw [hiother k e] at hk ⊢; exact hC.completeNotRunning k hk
    · intro u hu
      by_cases e : u = t
      · subst e; rw [hself] at hu; cases hu
      · rw [hother u e] at hu
        have := hnoR u; rw [hu] at this; cases this
    · intro k hk
      by_cases e : k = (s.threads t).item
      · subst e; exact ⟨t, Or.inl (by rw [hself]; exact ⟨rfl, rfl⟩)⟩
      · rw [hiother k e] at hk
        obtain ⟨u, hu⟩ := hC.runningOwner k hk
        rcases hu with hu | hu
        · have := hnoR u; rw [hu.1] at this; cases this
        · have := hnoR u; rw [inR_of_past hu.1] at this; cases this
  | @swap t ht =>
    have htR : inR (s.threads t).pc = true := by simp [ht, inR]
    have hother : ∀ u, u ≠ t → (swapSt s t).threads u = s.threads u := by
      intro u e; simp [swapSt, upd_apply, e]
    have hself : (swapSt s t).threads t = { s.threads t with pc := .swapped, next := s.nItems } := by simp [swapSt, upd_apply]
    have hiother : ∀ k, k ≠ s.nItems → (swapSt s t).items k = s.items k := by
      intro k e; simp [swapSt, upd_apply, e]
    have hiself : (swapSt s t).items s.nItems = { running := true } := by simp [swapSt, upd_apply]
    have hmap' : (swapSt s t).map = some s.nItems := rfl
    constructor
    · intro j hj hcnt
      rw [hmap'] at hj; cases hj
      rw [hiself] at hcnt; simp at hcnt
    · intro j hj _
      rw [hmap'] at hj; cases hj
      exact ⟨t, by rw [hself]; exact ⟨Or.inl rfl, rfl⟩⟩
    · intro k hk
      by_cases e : k = s.nItems
      · subst e; rw [hiself] at hk; cases hk
      · rw [hiother k e] at hk ⊢; exact hC.completeNotRunning k hk
    · intro u hu
      by_cases e : u = t
      · subst e; rw [hself] at hu; cases hu
      · rw [hother u e] at hu ⊢
        have hb := h.bounded u (by simp [hu])
        rw [hiother _ (by omega)]; exact hC.returnedComplete u hu
    · intro k hk
      by_cases e : k = s.nItems
      · subst e; exact ⟨t, Or.inr (by rw [hself]; exact ⟨Or.inl rfl, rfl⟩)⟩
      · rw [hiother k e] at hk
        obtain ⟨u, hu⟩ := hC.runningOwner k hk
        by_cases eu : u = t
        · subst eu
          rcases hu with hu | hu
          · exact ⟨u, Or.inl (by rw [hself]; exact ⟨rfl, hu.2⟩)⟩
          · rcases hu.1 with p | p | p <;> rw [ht] at p <;> cases p
        · exact ⟨u, by rw [hother u eu]; exact hu⟩
  | @start t ht =>
    have hother : ∀ u, u ≠ t → (startSt s t).threads u = s.threads u := by
      intro u e; simp [startSt, upd_apply, e]
    have hself : (startSt s t).threads t = { s.threads t with pc := .working } := by simp [startSt, upd_apply]
    have hrun : ∀ k, ((startSt s t).items k).running = (s.items k).running := by
      intro k; by_cases e : k = (s.threads t).item
      · subst e; simp [startSt, upd_apply]
      · simp [startSt, upd_apply, e]
    have hcomp : ∀ k, ((startSt s t).items k).complete = (s.items k).complete := by
      intro k; by_cases e : k = (s.threads t).item
      · subst e; simp [startSt, upd_apply]
      · simp [startSt, upd_apply, e]
    have hcount : ∀ k, ((startSt s t).items k).count = (s.items k).count := by
      intro k; by_cases e : k = (s.threads t).item
      · subst e; simp [startSt, upd_apply]
      · simp [startSt, upd_apply, e]
    have hmap' : (startSt s t).map = s.map := rfl
    constructor
    · intro j hj hcnt
      rw [hmap'] at hj; rw [hcount] at hcnt
      obtain ⟨u, hu1, hu2⟩ := hC.firstWaiter j hj hcnt
      have : u ≠ t := by intro e; subst e; rcases hu1 with p | p <;> rw [ht] at p <;> cases p
      exact ⟨u, by rw [hother u this]; exact ⟨hu1, hu2⟩⟩
    · intro j hj hcnt
      rw [hmap'] at hj; rw [hcount] at hcnt
      obtain ⟨u, hu1, hu2⟩ := hC.zeroOwner j hj hcnt
      by_cases e : u = t
      · subst e; exact ⟨u, by rw [hself]; exact ⟨Or.inr (Or.inl rfl), hu2⟩⟩
      · exact ⟨u, by rw [hother u e]; exact ⟨hu1, hu2⟩⟩
    · intro k hk; rw [hcomp] at hk; rw [hrun]; exact hC.completeNotRunning k hk
    · intro u hu
      by_cases e : u = t
      · subst e; rw [hself] at hu; cases hu
      · rw [hother u e] at hu ⊢; rw [hcomp]; exact hC.returnedComplete u hu
    · intro k hk
      rw [hrun] at hk
      obtain ⟨u, hu⟩ := hC.runningOwner k hk
      by_cases e : u = t
      · subst e
        rcases hu with hu | hu
        · exact ⟨u, Or.inl (by rw [hself]; exact ⟨rfl, hu.2⟩)⟩
        · exact ⟨u, Or.inr (by rw [hself]; exact ⟨Or.inr (Or.inl rfl), hu.2⟩)⟩
      · exact ⟨u, by rw [hother u e]; exact hu⟩
  | @finish t r pc' ht hc hp =>
    have htR : inR (s.threads t).pc = true := by simp [ht, inR]
    have hpast' : past pc' := by rcases hp with p | p <;> simp [p, past]
    have hother : ∀ u, u ≠ t → (finishSt s t r pc').threads u = s.threads u := by
      intro u e; simp [finishSt, upd_apply, e]
    have hself : (finishSt s t r pc').threads t = { s.threads t with pc := pc', outcome := if (s.threads t).start then none else some r } := by
      simp [finishSt, upd_apply]
    have hiother : ∀ k, k ≠ (s.threads t).item → (finishSt s t r pc').items k = s.items k := by
      intro k e; simp [finishSt, upd_apply, e]
    have hiself : (finishSt s t r pc').items (s.threads t).item = { s.items (s.threads t).item with result := some r, complete := true, running := false } := by
      simp [finishSt, upd_apply]
    have hcount : ∀ k, ((finishSt s t r pc').items k).count = (s.items k).count := by
      intro k; by_cases e : k = (s.threads t).item
      · subst e; rw [hiself]
      · rw [hiother k e]
    have hmap' : (finishSt s t r pc').map = s.map := rfl
    constructor
    · intro j hj hcnt
      rw [hmap'] at hj; rw [hcount] at hcnt
      obtain ⟨u, hu1, hu2⟩ := hC.firstWaiter j hj hcnt
      have : u ≠ t := by intro e; subst e; rcases hu1 with p | p <;> rw [ht] at p <;> cases p
      exact ⟨u, by rw [hother u this]; exact ⟨hu1, hu2⟩⟩
    · intro j hj hcnt
      rw [hmap'] at hj; rw [hcount] at hcnt
      obtain ⟨u, hu1, hu2⟩ := hC.zeroOwner j hj hcnt
      by_cases e : u = t
      · subst e; exact ⟨u, by rw [hself]; exact ⟨hpast', hu2⟩⟩
      · exact ⟨u, by rw [hother u e]; exact ⟨hu1, hu2⟩⟩
    · intro k hk
      by_cases e : k = (s.threads t).item
      · subst e; rw [hiself]
      · rw [hiother k e] at hk ⊢; exact hC.completeNotRunning k hk
    · intro u hu
      by_cases e : u = t
      · subst e; rw [hself]; simp only; rw [hiself]
      · rw [hother u e] at hu
        have := only_runner h htR e; rw [hu] at this; cases this
    · intro k hk
      by_cases e : k = (s.threads t).item
      · subst e; rw [hiself] at hk; cases hk
      · rw [hiother k e] at hk
        obtain ⟨u, hu⟩ := hC.runningOwner k hk
        by_cases eu : u = t
        · subst eu
          rcases hu with hu | hu
          · exact absurd hu.2.symm e
          · exact ⟨u, Or.inr (by rw [hself]; exact ⟨hpast', hu.2⟩)⟩
        · exact ⟨u, by rw [hother u eu]; exact hu⟩
  | @ret t ht hc =>
    have hother : ∀ u, u ≠ t → (retSt s t).threads u = s.threads u := by
      intro u e; simp [retSt, upd_apply, e]
    have hself : (retSt s t).threads t = { s.threads t with pc := .returned } := by simp [retSt, upd_apply]
    have hitems : (retSt s t).items = s.items := rfl
    have hmap' : (retSt s t).map = s.map := rfl
    constructor
    · intro j hj hcnt
      rw [hmap'] at hj; rw [hitems] at hcnt
      obtain ⟨u, hu1, hu2⟩ := hC.firstWaiter j hj hcnt
      have : u ≠ t := by intro e; subst e; rcases hu1 with p | p <;> rw [ht] at p <;> cases p
      exact ⟨u, by rw [hother u this]; exact ⟨hu1, hu2⟩⟩
    · intro j hj hcnt
      rw [hmap'] at hj; rw [hitems] at hcnt
      obtain ⟨u, hu1, hu2⟩ := hC.zeroOwner j hj hcnt
      by_cases e : u = t
      · subst e; exact ⟨u, by rw [hself]; exact ⟨Or.inr (Or.inr rfl), hu2⟩⟩
      · exact ⟨u, by rw [hother u e]; exact ⟨hu1, hu2⟩⟩
    · exact hC.completeNotRunning
    · intro u hu
      rw [hitems]
      by_cases e : u = t
      · subst e; rw [hself]; exact hc
      · rw [hother u e] at hu ⊢; exact hC.returnedComplete u hu
    · intro k hk
      rw [hitems] at hk
      obtain ⟨u, hu⟩ := hC.runningOwner k hk
      by_cases e : u = t
      · subst e
        rcases hu with hu | hu
        · exact ⟨u, Or.inl (by rw [hself]; exact ⟨rfl, hu.2⟩)⟩
        · exact ⟨u, Or.inr (by rw [hself]; exact ⟨Or.inr (Or.inr rfl), hu.2⟩)⟩
      · exact ⟨u, by rw [hother u e]; exact hu⟩
  | @clear t ht =>
    have hsm := h.succMap t (Or.inr (Or.inr ht))
    have hother : ∀ u, u ≠ t → (clearSt s t).threads u = s.threads u := by
      intro u e; simp [clearSt, upd_apply, e]
    have hself : (clearSt s t).threads t = { s.threads t with pc := .done } := by simp [clearSt, upd_apply]
    have hiother : ∀ k, k ≠ (s.threads t).next → (clearSt s t).items k = s.items k := by
      intro k e; simp [clearSt, upd_apply, e]
    have hiself : (clearSt s t).items (s.threads t).next = { s.items (s.threads t).next with running := false } := by
      simp [clearSt, upd_apply]
    have hcount : ∀ k, ((clearSt s t).items k).count = (s.items k).count := by
      intro k; by_cases e : k = (s.threads t).next
      · subst e; rw [hiself]
      · rw [hiother k e]
    have hcomp : ∀ k, ((clearSt s t).items k).complete = (s.items k).complete := by
      intro k; by_cases e : k = (s.threads t).next
      · subst e; rw [hiself]
      · rw [hiother k e]
    have hmapcases : ∀ j, (clearSt s t).map = some j → s.map = some j ∧ (s.items (s.threads t).next).count ≠ 0 := by
      intro j hj
      simp only [clearSt] at hj
      split at hj
      · cases hj
      · rename_i hne; exact ⟨hj, hne⟩
    constructor
    · intro j hj hcnt
      rw [hcount] at hcnt
      obtain ⟨u, hu1, hu2⟩ := hC.firstWaiter j (hmapcases j hj).1 hcnt
      have : u ≠ t := by intro e; subst e; rcases hu1 with p | p <;> rw [ht] at p <;> cases p
      exact ⟨u, by rw [hother u this]; exact ⟨hu1, hu2⟩⟩
    · intro j hj hcnt
      rw [hcount] at hcnt
      have := hmapcases j hj
      have e : j = (s.threads t).next := by
        have := this.1; rw [hsm.1] at this; exact (Option.some.inj this).symm
      rw [e] at hcnt; exact absurd hcnt this.2
    · intro k hk
      rw [hcomp] at hk
      by_cases e : k = (s.threads t).next
      · subst e; rw [hiself]
      · rw [hiother k e]; exact hC.completeNotRunning k hk
    · intro u hu
      rw [hcomp]
      by_cases e : u = t
      · subst e; rw [hself] at hu; cases hu
      · rw [hother u e] at hu ⊢; exact hC.returnedComplete u hu
    · intro k hk
      by_cases e : k = (s.threads t).next
      · subst e; rw [hiself] at hk; cases hk
      · rw [hiother k e] at hk
        obtain ⟨u, hu⟩ := hC.runningOwner k hk
        by_cases eu : u = t
        · subst eu
          rcases hu with hu | hu
          · have := hC.completeNotRunning _ (hC.returnedComplete u ht)
            rw [hu.2, hk] at this; cases this
          · exact absurd hu.2.symm e
        · exact ⟨u, by rw [hother u eu]; exact hu⟩

theorem invC_reach : ∀ s, LTS.Reach sys s → InvC s :=
  micro_invariant3 InvC invC_init (fun _ _ h hC hm hmap => invC_micro h hC hm hmap)
    (fun _ t fn st h hC hm hidle => invC_alloc_attach t fn st h hC hm hidle)

end BB.Exclusive
