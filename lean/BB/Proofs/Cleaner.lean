/- Helper lemmas about the cleaner functions (used by Props/C03, Props/C04). -/
import BB.Model.Cleaner

namespace BB.Cleaner

theorem defaultStep_none (l : List Int) : l.foldl defaultStep none = none := by
  induction l with
  | nil => rfl
  | cons a l ih => simpa [List.foldl, defaultStep] using ih

theorem defaultStep_comm (z : Option (Int × Bool)) (x y : Int) :
    defaultStep (defaultStep z x) y = defaultStep (defaultStep z y) x := by
  cases z with
  | none => rfl
  | some p =>
    obtain ⟨l, a⟩ := p
    simp only [defaultStep]
    by_cases hx0 : x = 0 <;> by_cases hy0 : y = 0 <;> by_cases hx : x < 0 <;> by_cases hy : y < 0 <;>
      simp [hx0, hy0, hx, hy] <;>
      (try by_cases h1 : x < l) <;> (try by_cases h2 : y < l) <;>
      simp_all <;> (try omega) <;>
      (try (by_cases h3 : y < x <;> by_cases h4 : x < y <;> simp_all <;> omega))

/-- the fold of `DefaultCleaner` when no offset is zero: the running minimum of the positive
    offsets (starting from `l`) and whether a positive offset was seen -/
theorem fold_some (offs : List Int) (l : Int) (a : Bool) (h0 : ∀ o ∈ offs, o ≠ 0) :
    ∃ l' a', offs.foldl defaultStep (some (l, a)) = some (l', a') ∧
      l' ≤ l ∧ (∀ o ∈ offs, 0 < o → l' ≤ o) ∧ (l' = l ∨ (l' ∈ offs ∧ 0 < l')) ∧
      (a' = true ↔ (a = true ∨ ∃ o ∈ offs, 0 < o)) := by
  induction offs generalizing l a with
  | nil => exact ⟨l, a, rfl, Int.le_refl _, by simp, Or.inl rfl, by simp⟩
  | cons o offs ih =>
    have ho : o ≠ 0 := h0 o (by simp)
    have h0' : ∀ o ∈ offs, o ≠ 0 := fun x hx => h0 x (by simp [hx])
    by_cases hneg : o < 0
    · obtain ⟨l', a', he, h1, h2, h3, h4⟩ := ih l a h0'
      refine ⟨l', a', ?_, h1, ?_, ?_, ?_⟩
      · simp [List.foldl, defaultStep, ho, hneg, he]
      · intro x hx hpos
        rcases List.mem_cons.mp hx with rfl | hx
        · omega
        · exact h2 x hx hpos
      · rcases h3 with h | ⟨h, hp⟩
        · exact Or.inl h
        · exact Or.inr ⟨by simp [h], hp⟩
      · rw [h4]
        constructor
        · rintro (h | ⟨x, hx, hp⟩)
          · exact Or.inl h
          · exact Or.inr ⟨x, by simp [hx], hp⟩
        · rintro (h | ⟨x, hx, hp⟩)
          · exact Or.inl h
          · rcases List.mem_cons.mp hx with rfl | hx
            · omega
            · exact Or.inr ⟨x, hx, hp⟩
    · have hpos : 0 < o := by omega
      obtain ⟨l', a', he, h1, h2, h3, h4⟩ := ih (if o < l then o else l) true h0'
      refine ⟨l', a', ?_, ?_, ?_, ?_, ?_⟩
      · simp [List.foldl, defaultStep, ho, hneg, he]
      · split at h1 <;> omega
      · intro x hx hp
        rcases List.mem_cons.mp hx with rfl | hx
        · split at h1 <;> omega
        · exact h2 x hx hp
      · rcases h3 with h | ⟨h, hp⟩
        · by_cases hol : o < l
          · simp [hol] at h
            exact Or.inr ⟨by simp [h], by omega⟩
          · simp [hol] at h
            exact Or.inl h
        · exact Or.inr ⟨by simp [h], hp⟩
      · constructor
        · intro _; exact Or.inr ⟨o, by simp, hpos⟩
        · intro _; exact h4.mpr (Or.inl rfl)

theorem fold_zero (offs : List Int) (acc : Option (Int × Bool)) (h0 : (0 : Int) ∈ offs) :
    offs.foldl defaultStep acc = none := by
  induction offs generalizing acc with
  | nil => simp at h0
  | cons o offs ih =>
    rcases List.mem_cons.mp h0 with h | h
    · subst h
      cases acc with
      | none => simpa [List.foldl, defaultStep] using defaultStep_none offs
      | some p => simpa [List.foldl, defaultStep] using defaultStep_none offs
    · simpa [List.foldl] using ih _ h

end BB.Cleaner
