/-
  Liveness of ChanPubSub.Send (C07: "every Send … terminates").

  For a Send `a` that holds sendingMu or is past it (pc ∈ holding … unlocking) a rank is defined that no step of anybody
  increases and that every step of the class `sendProgress a` strictly decreases:

      rank = phase(a) + Σ_t w(subscriber t)

  w = work a subscriber still owes to the Send in progress: idle & owing 6 (it may still start to unsubscribe), tryFailed &
  owing 5, sawPing 4, decNoLock 3, absorbing 1, got 1 (one Wait), everything else 0.  phase: holding 6·subscribers+30,
  counted 6·subscribers+29, added 28, loaded 27 / 26 / 28 (nothing loaded / loaded word still current / word changed: the CAS
  will fail — paid for by the ping.Add(-1) that changed it, 3 → 0), sending 20, checked 8, released 7, ponging 6, unlocking 1.

  `sendProgress a` = the Send's own steps, the two rendezvous, Wait's pong consumption and the non-spin steps of the
  unsubscribe path (seeing the ping, the decrement, ping.Add(-1)).  The spin steps (a failed TryRLock, ping.Add(0) = 0) are not in
  the class and never increase the rank.  Every step is analysed through PInv1/PInv2 of the state before AND after it.
-/
import BB.Proofs.PubSub3
import BB.Core.Fair

namespace BB.PubSub
open BB.Fun BB.Caster BB.LTS

/-- past the acquisition of sendingMu, not yet returned -/
def inH (pc : SPc) : Bool :=
  pc == .holding || pc == .counted || pc == .added || pc == .loaded || pc == .sending ||
  pc == .checked || pc == .released || pc == .ponging || pc == .unlocking

theorem inM_of_inH {pc : SPc} (h : inH pc = true) : inM pc = true := by cases pc <;> simp [inH, inM] at h ⊢

def wI (u : Sub) : Nat :=
  match u.pc with
  | .idle => if u.owes then 6 else 0
  | .tryFailed => if u.owes then 5 else 0
  | .sawPing => 4
  | .decNoLock => 3
  | .absorbing => 1
  | .got => 1
  | _ => 0

def phase (s : St) (x : Sender) : Nat :=
  match x.pc with
  | .holding => 6 * s.subsCount + 30
  | .counted => 6 * s.subsCount + 29
  | .added => 28
  | .loaded => if x.snap = 0 then 27 else if s.word = x.snap then 26 else 28
  | .sending => 20
  | .checked => 8
  | .released => 7
  | .ponging => 6
  | .unlocking => 1
  | _ => 0

def sendRank (a : Nat) (s : St) : Nat := phase s (s.senders a) + SUM wI s

def sendProgress (a : Nat) : Act → Prop
  | .count b | .pingAdd b | .cfast b | .cload b | .ccas b | .cfinal b | .unsending b | .pong b | .ponged b | .sdone b => b = a
  | .recv b _ | .absorb b _ => b = a
  | .consume _ | .pingNonZero _ | .unsubDecN _ | .pingSub _ => True
  | _ => False

/-- a subscriber record changes: effect on Σ w -/
theorem SUM_wI_set {s s' : St} {t : Nat} {u' : Sub} (ht : t < s.nSubs) (e1 : s'.subs = upd s.subs t u') (e2 : s'.nSubs = s.nSubs) :
    SUM wI s' + wI (s.subs t) = SUM wI s + wI u' := SUM_set wI ht e1 e2

theorem phase_congr {s s' : St} (x : Sender) (e1 : s'.subsCount = s.subsCount) (e2 : s'.word = s.word) : phase s' x = phase s x := by
  unfold phase; rw [e1, e2]

/-- phases that read neither the subscriber counter nor the word -/
theorem phase_const {s s' : St} (x : Sender) (h : x.pc ≠ .holding ∧ x.pc ≠ .counted ∧ x.pc ≠ .loaded) : phase s' x = phase s x := by
  unfold phase; cases hp : x.pc <;> simp_all

theorem add_zero_zero : add 0 0 = .ok 0 0 0 := by decide

/-- the only sender inside sendMu is `a` -/
theorem holderH {s : St} (h1 : PInv1 s) {a b : Nat} (ha : inH (s.senders a).pc = true) (hb : inM (s.senders b).pc = true) : b = a :=
  h1.singleM b a hb (inM_of_inH ha)

/-- nobody but `a` can be between ping.Add and the end of the send phase -/
theorem quiet_of_notA {s : St} (h1 : PInv1 s) {a : Nat} (ha : inH (s.senders a).pc = true) (hna : inA (s.senders a).pc = false) :
    ∀ b, inA (s.senders b).pc = false := by
  intro b
  cases hb : inA (s.senders b).pc with
  | false => rfl
  | true => have := holderH h1 ha (inM_of_inA hb); subst this; rw [hna] at hb; cases hb

theorem notA_of_notW {pc : SPc} (h : inW pc = false) : inA pc = false := by cases pc <;> simp [inW, inA] at h ⊢

/-- with sendingMu free (a reader is inside, or a lock attempt succeeded) nobody owes anything -/
theorem owes_false_of_free {s : St} (h1 : PInv1 s) (h2 : PInv2 s) {a : Nat} (ha : inH (s.senders a).pc = true) (hw : s.sendingW = false) (t : Nat) :
    (s.subs t).owes = false := by
  have hnw : inW (s.senders a).pc = false := by
    cases e : inW (s.senders a).pc with
    | false => rfl
    | true => have := h1.wOf a e; rw [hw] at this; cases this
  exact ((h2.quiet (quiet_of_notA h1 ha (notA_of_notW hnw))).2 t).1

theorem wI_le_cnt (u : Sub) (h1 : u.pc ≠ .decNoLock) (h2 : u.pc ≠ .absorbing) : wI u ≤ 6 * cntI u := by
  unfold wI cntI; cases hp : u.pc <;> simp_all <;> split <;> omega

theorem phase_eq {s s' : St} (x : Sender) (h1 : s'.subsCount = s.subsCount ∨ (x.pc ≠ .holding ∧ x.pc ≠ .counted))
    (h2 : s'.word = s.word ∨ x.pc ≠ .loaded) : phase s' x = phase s x := by
  unfold phase
  cases hp : x.pc <;> simp_all

def RankOK (a : Nat) (s s' : St) (act : Act) : Prop :=
  inH (s'.senders a).pc = false ∨ (sendRank a s' ≤ sendRank a s ∧ (sendProgress a act → sendRank a s' < sendRank a s))

/-- a step that rewrites one subscriber record and leaves the senders alone -/
theorem rk_sub {a : Nat} {s s' : St} {act : Act} {t : Nat} {u' : Sub} (ht : t < s.nSubs)
    (e1 : s'.subs = upd s.subs t u') (e2 : s'.nSubs = s.nSubs) (e3 : s'.senders = s.senders)
    (hle : phase s' (s.senders a) + wI u' ≤ phase s (s.senders a) + wI (s.subs t))
    (hlt : sendProgress a act → phase s' (s.senders a) + wI u' < phase s (s.senders a) + wI (s.subs t)) : RankOK a s s' act := by
  right
  unfold sendRank
  rw [e3]
  have := SUM_wI_set ht e1 e2
  exact ⟨by omega, fun h => by have := hlt h; omega⟩

/-- the same when the step also moves the sender `a` -/
theorem rk_sub_send {a : Nat} {s s' : St} {act : Act} {t : Nat} {u' : Sub} (ht : t < s.nSubs)
    (e1 : s'.subs = upd s.subs t u') (e2 : s'.nSubs = s.nSubs)
    (hle : phase s' (s'.senders a) + wI u' ≤ phase s (s.senders a) + wI (s.subs t))
    (hlt : sendProgress a act → phase s' (s'.senders a) + wI u' < phase s (s.senders a) + wI (s.subs t)) : RankOK a s s' act := by
  right
  unfold sendRank
  have := SUM_wI_set ht e1 e2
  exact ⟨by omega, fun h => by have := hlt h; omega⟩

theorem notW_phases {pc : SPc} (h : inW pc = false) : pc ≠ .holding ∧ pc ≠ .counted ∧ pc ≠ .loaded := by
  cases pc <;> simp [inW] at h ⊢

theorem inW_false_of_free {s : St} (h1 : PInv1 s) (a : Nat) (hw : s.sendingW = false) : inW (s.senders a).pc = false := by
  cases e : inW (s.senders a).pc with
  | false => rfl
  | true => have := h1.wOf a e; rw [hw] at this; cases this

/-! ### subscriber steps -/

theorem rk_subLock {a : Nat} {s s' : St} {t : Nat} (h1 : PInv1 s) (ha : inH (s.senders a).pc = true)
    (hs : sys.step s (.subLock t) = some s') : RankOK a s s' (.subLock t) := by
  simp only [sys, step] at hs
  split at hs
  · rename_i g
    obtain ⟨g1, g2, g3, g4⟩ := g
    cases hs
    right
    have hph : phase { setSub s t { s.subs t with pc := .subRlocked } with nSubs := if t = s.nSubs then s.nSubs + 1 else s.nSubs }
        (s.senders a) = phase s (s.senders a) := rfl
    have hsum : SUM wI { setSub s t { s.subs t with pc := .subRlocked } with nSubs := if t = s.nSubs then s.nSubs + 1 else s.nSubs } = SUM wI s := by
      by_cases e : t = s.nSubs
      · have hz : wI (s.subs s.nSubs) = 0 := by rw [h1.fresh s.nSubs (Nat.le_refl _)]; rfl
        have := SUM_grow wI (s := s) (s' := { setSub s t { s.subs t with pc := .subRlocked } with nSubs := if t = s.nSubs then s.nSubs + 1 else s.nSubs })
          (u' := { s.subs t with pc := .subRlocked }) hz (by subst e; rfl) (by simp [e, setSub])
        rw [this]; simp [wI]
      · have ht : t < s.nSubs := by omega
        have := SUM_wI_set (s := s) (s' := { setSub s t { s.subs t with pc := .subRlocked } with nSubs := if t = s.nSubs then s.nSubs + 1 else s.nSubs })
          (u' := { s.subs t with pc := .subRlocked }) ht rfl (by simp [e, setSub])
        have w0 : wI (s.subs t) = 0 := by simp [wI, g1]
        have w1 : wI { s.subs t with pc := UPc.subRlocked } = 0 := by simp [wI]
        omega
    unfold sendRank
    refine ⟨?_, fun h => by cases h⟩
    show phase _ (s.senders a) + SUM wI _ ≤ _
    rw [hph, hsum]; exact Nat.le_refl _
  · cases hs

theorem rk_subInc {a : Nat} {s s' : St} {t : Nat} (h1 : PInv1 s) (ha : inH (s.senders a).pc = true)
    (hs : sys.step s (.subInc t) = some s') : RankOK a s s' (.subInc t) := by
  simp only [sys, step] at hs
  split at hs
  · rename_i g
    cases hs
    have hw := no_readers_of_W h1 (t := t) (by simp [g.1, inRd])
    have hp := notW_phases (inW_false_of_free h1 a hw)
    refine rk_sub (lt_nSubs h1 t (by simp [g.1])) rfl rfl rfl ?_ (fun h => by cases h)
    rw [phase_eq (s := s) (s.senders a) (Or.inr ⟨hp.1, hp.2.1⟩) (Or.inr hp.2.2)]
    simp [wI, g.1]
  · cases hs

theorem rk_subUnlock {a : Nat} {s s' : St} {t : Nat} (h1 : PInv1 s) (h2 : PInv2 s) (ha : inH (s.senders a).pc = true)
    (hs : sys.step s (.subUnlock t) = some s') : RankOK a s s' (.subUnlock t) := by
  simp only [sys, step] at hs
  split at hs
  · rename_i g
    cases hs
    have hw := no_readers_of_W h1 (t := t) (by simp [g, inRd])
    have ho := owes_false_of_free h1 h2 ha hw t
    refine rk_sub (lt_nSubs h1 t (by simp [g])) rfl rfl rfl ?_ (fun h => by cases h)
    show phase s (s.senders a) + _ ≤ _
    simp [wI, g, ho]
  · cases hs

theorem rk_recv {a : Nat} {s s' : St} {b t : Nat} (h1 : PInv1 s) (h2 : PInv2 s) (ha : inH (s.senders a).pc = true)
    (hs : sys.step s (.recv b t) = some s') : RankOK a s s' (.recv b t) := by
  simp only [sys, step] at hs
  split at hs
  · rename_i g
    obtain ⟨g1, g2, g3⟩ := g
    have e : b = a := holderH h1 ha (by simp [g1, inM])
    subst e
    cases hs
    have ho := h2.idleOwes ⟨b, by simp [g1, inA]⟩ t (Or.inl g3)
    have ht := lt_nSubs h1 t (by simp [g3])
    refine rk_sub_send ht rfl rfl ?_ (fun _ => ?_)
    · simp [phase, setSender, g1, wI, g3, ho]
    · simp [phase, setSender, g1, wI, g3, ho]
  · cases hs

theorem got_not_owing {s : St} (h2 : PInv2 s) {t : Nat} (hg : (s.subs t).pc = .got) : (s.subs t).owes = false := by
  cases e : (s.subs t).owes with
  | false => rfl
  | true => rcases h2.owesWhere t e with h | h | h | h <;> rw [hg] at h <;> cases h

theorem rk_consume {a : Nat} {s s' : St} {t : Nat} (h1 : PInv1 s) (h2 : PInv2 s) (ha : inH (s.senders a).pc = true)
    (hs : sys.step s (.consume t) = some s') : RankOK a s s' (.consume t) := by
  simp only [sys, step] at hs
  split at hs
  · rename_i g
    cases hs
    have ho := got_not_owing h2 g.1
    refine rk_sub (lt_nSubs h1 t (by simp [g.1])) rfl rfl rfl ?_ (fun _ => ?_)
    · show phase s (s.senders a) + _ ≤ _
      simp [wI, g.1, ho]
    · show phase s (s.senders a) + _ < _
      simp [wI, g.1, ho]
  · cases hs

theorem rk_tryOk {a : Nat} {s s' : St} {t : Nat} (h1 : PInv1 s) (h2 : PInv2 s) (ha : inH (s.senders a).pc = true)
    (hs : sys.step s (.tryOk t) = some s') : RankOK a s s' (.tryOk t) := by
  simp only [sys, step] at hs
  split at hs
  · rename_i g
    cases hs
    have ho := owes_false_of_free h1 h2 ha g.2 t
    have hne : (s.subs t).pc ≠ .out := by rcases g.1 with e | e <;> simp [e]
    refine rk_sub (lt_nSubs h1 t hne) rfl rfl rfl ?_ (fun h => by cases h)
    show phase s (s.senders a) + _ ≤ _
    rcases g.1 with e | e <;> simp [wI, e, ho]
  · cases hs

theorem rk_tryFail {a : Nat} {s s' : St} {t : Nat} (h1 : PInv1 s) (ha : inH (s.senders a).pc = true)
    (hs : sys.step s (.tryFail t) = some s') : RankOK a s s' (.tryFail t) := by
  simp only [sys, step] at hs
  split at hs
  · rename_i g
    cases hs
    have hne : (s.subs t).pc ≠ .out := by rcases g with e | e <;> simp [e]
    refine rk_sub (lt_nSubs h1 t hne) rfl rfl rfl ?_ (fun h => by cases h)
    show phase s (s.senders a) + _ ≤ _
    rcases g with e | e <;> simp [wI, e] <;> split <;> omega
  · cases hs

theorem rk_pingZero {a : Nat} {s s' : St} {t : Nat} (h2' : PInv2 s') (ha : inH (s.senders a).pc = true)
    (hs : sys.step s (.pingZero t) = some s') : RankOK a s s' (.pingZero t) := by
  simp only [sys, step] at hs
  split at hs
  · split at hs
    · split at hs
      · cases hs; right; exact ⟨Nat.le_refl _, fun h => by cases h⟩
      · cases hs
    · cases hs; have := h2'.np; simp at this
  · cases hs

theorem rk_pingNonZero {a : Nat} {s s' : St} {t : Nat} (h1 : PInv1 s) (h2 : PInv2 s) (h2' : PInv2 s') (ha : inH (s.senders a).pc = true)
    (hs : sys.step s (.pingNonZero t) = some s') : RankOK a s s' (.pingNonZero t) := by
  simp only [sys, step] at hs
  split at hs
  · rename_i g
    split at hs
    · rename_i w r ab hadd
      split at hs
      · rename_i hr
        cases hs
        -- the caster is non-zero: a Send is between ping.Add and the end of its send phase, so this subscriber owes
        have hA : ∃ b, inA (s.senders b).pc = true := by
          apply Classical.byContradiction
          intro hn
          have hq : ∀ b, inA (s.senders b).pc = false := fun b => by
            cases e : inA (s.senders b).pc with
            | false => rfl
            | true => exact absurd ⟨b, e⟩ hn
          have hw0 := (h2.quiet hq).1
          rw [hw0, add_zero_zero] at hadd
          cases hadd
          exact hr rfl
        have ho := h2.idleOwes hA t (Or.inr g.1)
        refine rk_sub (lt_nSubs h1 t (by simp [g.1])) rfl rfl rfl ?_ (fun _ => ?_)
        · show phase s (s.senders a) + _ ≤ _
          simp [wI, g.1, ho]
        · show phase s (s.senders a) + _ < _
          simp [wI, g.1, ho]
      · cases hs
    · cases hs; have := h2'.np; simp at this
  · cases hs

theorem rk_unsubDecL {a : Nat} {s s' : St} {t : Nat} (h1 : PInv1 s) (ha : inH (s.senders a).pc = true)
    (hs : sys.step s (.unsubDecL t) = some s') : RankOK a s s' (.unsubDecL t) := by
  simp only [sys, step] at hs
  split at hs
  · rename_i g
    cases hs
    have hw := no_readers_of_W h1 (t := t) (by simp [g.1, inRd])
    have hp := notW_phases (inW_false_of_free h1 a hw)
    refine rk_sub (lt_nSubs h1 t (by simp [g.1])) rfl rfl rfl ?_ (fun h => by cases h)
    rw [phase_eq (s := s) (s.senders a) (Or.inr ⟨hp.1, hp.2.1⟩) (Or.inr hp.2.2)]
    simp [wI, g.1]
  · cases hs

theorem rk_unsubUnlock {a : Nat} {s s' : St} {t : Nat} (h1 : PInv1 s) (ha : inH (s.senders a).pc = true)
    (hs : sys.step s (.unsubUnlock t) = some s') : RankOK a s s' (.unsubUnlock t) := by
  simp only [sys, step] at hs
  split at hs
  · rename_i g
    cases hs
    refine rk_sub (lt_nSubs h1 t (by simp [g])) rfl rfl rfl ?_ (fun h => by cases h)
    show phase s (s.senders a) + _ ≤ _
    simp [wI, g]
  · cases hs

/-- a subscriber that saw the ping (or is past it) implies the Send `a` is between ping.Add and the end of its send phase -/
theorem holder_inA_of {s : St} (h1 : PInv1 s) (h2 : PInv2 s) {a : Nat} (ha : inH (s.senders a).pc = true) {t : Nat}
    (ht : (s.subs t).pc = .sawPing ∨ (s.subs t).pc = .decNoLock ∨ (s.subs t).pc = .absorbing) : inA (s.senders a).pc = true := by
  cases e : inA (s.senders a).pc with
  | true => rfl
  | false =>
    have := (h2.quiet (quiet_of_notA h1 ha e)).2 t
    rcases ht with h | h | h
    · exact absurd h this.2.1
    · exact absurd h this.2.2.1
    · exact absurd h this.2.2.2

theorem inA_phases {pc : SPc} (h : inA pc = true) : pc ≠ .holding ∧ pc ≠ .counted := by
  cases pc <;> simp [inA] at h ⊢

theorem rk_unsubDecN {a : Nat} {s s' : St} {t : Nat} (h1 : PInv1 s) (h2 : PInv2 s) (ha : inH (s.senders a).pc = true)
    (hs : sys.step s (.unsubDecN t) = some s') : RankOK a s s' (.unsubDecN t) := by
  simp only [sys, step] at hs
  split at hs
  · rename_i g
    cases hs
    have hp := inA_phases (holder_inA_of h1 h2 ha (Or.inl g.1))
    have hph := phase_eq (s := s) (s' := { setSub s t { s.subs t with pc := .decNoLock } with subsCount := s.subsCount - 1 })
      (s.senders a) (Or.inr hp) (Or.inl rfl)
    refine rk_sub (lt_nSubs h1 t (by simp [g.1])) rfl rfl rfl ?_ (fun _ => ?_)
    · rw [hph]; simp [wI, g.1]
    · rw [hph]; simp [wI, g.1]
  · cases hs

theorem rk_absorb {a : Nat} {s s' : St} {b t : Nat} (h1 : PInv1 s) (ha : inH (s.senders a).pc = true)
    (hs : sys.step s (.absorb b t) = some s') : RankOK a s s' (.absorb b t) := by
  simp only [sys, step] at hs
  split at hs
  · rename_i g
    obtain ⟨g1, g2, g3⟩ := g
    have e : b = a := holderH h1 ha (by simp [g1, inM])
    subst e
    cases hs
    have ht := lt_nSubs h1 t (by simp [g3])
    refine rk_sub_send ht rfl rfl ?_ (fun _ => ?_)
    · simp [phase, setSender, g1, wI, g3]
    · simp [phase, setSender, g1, wI, g3]
  · cases hs

theorem phase_loaded_bounds (s : St) (x : Sender) (h : x.pc = .loaded) : 26 ≤ phase s x ∧ phase s x ≤ 28 := by
  unfold phase; rw [h]; simp only; split
  · omega
  · split <;> omega

theorem inA_cases {pc : SPc} (h : inA pc = true) : pc = .added ∨ pc = .loaded ∨ pc = .sending := by
  cases pc <;> simp [inA] at h ⊢

theorem rk_pingSub {a : Nat} {s s' : St} {t : Nat} (h1 : PInv1 s) (h2 : PInv2 s) (h1' : PInv1 s') (h2' : PInv2 s')
    (ha : inH (s.senders a).pc = true) (hs : sys.step s (.pingSub t) = some s') : RankOK a s s' (.pingSub t) := by
  simp only [sys, step] at hs
  split at hs
  · rename_i g
    have hA := holder_inA_of h1 h2 ha (Or.inr (Or.inl g.1))
    have ht := lt_nSubs h1 t (by simp [g.1])
    have w0 : wI (s.subs t) = 3 := by simp [wI, g.1]
    split at hs
    · rename_i w r ab hsub
      split at hs
      · -- nothing to absorb: the subscriber is out
        cases hs
        refine rk_sub ht rfl rfl rfl ?_ (fun _ => ?_)
        · rw [w0]
          rcases inA_cases hA with e | e | e
          · simp [phase, e, wI]
          · have b1 := (phase_loaded_bounds s (s.senders a) e).1
            have hb : ∀ s2 : St, phase s2 (s.senders a) ≤ 28 := fun s2 => (phase_loaded_bounds s2 _ e).2
            refine Nat.le_trans (Nat.add_le_add (hb _) (Nat.le_of_eq (show wI _ = 0 by simp [wI]))) (by omega)
          · simp [phase, e, wI]
        · rw [w0]
          rcases inA_cases hA with e | e | e
          · simp [phase, e, wI]
          · have b1 := (phase_loaded_bounds s (s.senders a) e).1
            have hb : ∀ s2 : St, phase s2 (s.senders a) ≤ 28 := fun s2 => (phase_loaded_bounds s2 _ e).2
            refine Nat.lt_of_le_of_lt (Nat.add_le_add (hb _) (Nat.le_of_eq (show wI _ = 0 by simp [wI]))) (by omega)
          · simp [phase, e, wI]
      · -- it has to absorb one value: only possible while the Send is in its send phase
        cases hs
        have hnl : (s.senders a).pc ≠ .loaded ∧ (s.senders a).pc ≠ .added := by
          constructor <;> intro e
          · have := (h2'.pre a (Or.inr (by simpa [setSub] using e))).2.2.2.1
            have hpt := this ▸ (SUM_pos_pt absI (t := t) (by exact ht))
            simp [setSub, absI] at hpt
          · have := (h2'.pre a (Or.inl (by simpa [setSub] using e))).2.2.2.1
            have hpt := this ▸ (SUM_pos_pt absI (t := t) (by exact ht))
            simp [setSub, absI] at hpt
        have e : (s.senders a).pc = .sending := by
          rcases inA_cases hA with e | e | e
          · exact absurd e hnl.2
          · exact absurd e hnl.1
          · exact e
        refine rk_sub ht rfl rfl rfl ?_ (fun _ => ?_)
        · rw [w0]; simp [phase, e, wI]
        · rw [w0]; simp [phase, e, wI]
    · cases hs; have := h2'.np; simp at this
  · cases hs

/-! ### sender steps -/

/-- a step of the Send `a` itself that leaves the subscribers alone and lowers its phase -/
theorem rk_send {a : Nat} {s s' : St} {act : Act} (e1 : s'.subs = s.subs) (e2 : s'.nSubs = s.nSubs)
    (hlt : phase s' (s'.senders a) < phase s (s.senders a)) : RankOK a s s' act := by
  right
  unfold sendRank
  rw [SUM_same wI e1 e2]
  exact ⟨by omega, fun _ => by omega⟩

theorem rk_sbegin {a : Nat} {s s' : St} {b v : Nat} (ha : inH (s.senders a).pc = true)
    (hs : sys.step s (.sbegin b v) = some s') : RankOK a s s' (.sbegin b v) := by
  simp only [sys, step] at hs
  split at hs
  · rename_i g
    have e : a ≠ b := by intro e; subst e; rw [g.1] at ha; simp [inH] at ha
    split at hs <;> cases hs <;> right <;> refine ⟨?_, fun h => by cases h⟩
    · unfold sendRank; simp only [setSender, upd_other _ _ e]
      exact Nat.le_refl _
    · unfold sendRank; simp only [setSender, upd_other _ _ e]
      exact Nat.le_refl _
  · cases hs

theorem rk_sendMu {a : Nat} {s s' : St} {b : Nat} (h1 : PInv1 s) (ha : inH (s.senders a).pc = true)
    (hs : sys.step s (.sendMu b) = some s') : RankOK a s s' (.sendMu b) := by
  simp only [sys, step] at hs
  split at hs
  · rename_i g; have := h1.muOf a (inM_of_inH ha); rw [g.2] at this; cases this
  · cases hs

theorem rk_sending {a : Nat} {s s' : St} {b : Nat} (h1 : PInv1 s) (ha : inH (s.senders a).pc = true)
    (hs : sys.step s (.sending b) = some s') : RankOK a s s' (.sending b) := by
  simp only [sys, step] at hs
  split at hs
  · rename_i g
    have e : b = a := holderH h1 ha (by simp [g.1, inM])
    subst e; rw [g.1] at ha; simp [inH] at ha
  · cases hs

theorem rk_count {a : Nat} {s s' : St} {b : Nat} (h1 : PInv1 s) (ha : inH (s.senders a).pc = true)
    (hs : sys.step s (.count b) = some s') : RankOK a s s' (.count b) := by
  simp only [sys, step] at hs
  split at hs
  · rename_i g
    have e : b = a := holderH h1 ha (by simp [g, inM])
    subst e
    split at hs
    · cases hs; left; simp [setSender, inH]
    · cases hs
      refine rk_send rfl rfl ?_
      simp [phase, setSender, g]
  · cases hs

theorem rk_cfast {a : Nat} {s s' : St} {b : Nat} (h1 : PInv1 s) (ha : inH (s.senders a).pc = true)
    (hs : sys.step s (.cfast b) = some s') : RankOK a s s' (.cfast b) := by
  simp only [sys, step] at hs
  split at hs
  · rename_i g
    have e : b = a := holderH h1 ha (by simp [g, inM])
    subst e
    split at hs <;> cases hs <;> refine rk_send rfl rfl ?_ <;> simp [phase, setSender, g]
  · cases hs

theorem rk_cload {a : Nat} {s s' : St} {b : Nat} (h1 : PInv1 s) (h2' : PInv2 s') (ha : inH (s.senders a).pc = true)
    (hs : sys.step s (.cload b) = some s') : RankOK a s s' (.cload b) := by
  simp only [sys, step] at hs
  split at hs
  · rename_i g
    obtain ⟨g1, g2, g3⟩ := g
    have e : b = a := holderH h1 ha (by simp [g1, inM])
    subst e
    split at hs
    · cases hs; refine rk_send rfl rfl ?_; simp [phase, setSender, g1, g2]
    · cases hs; have := h2'.np; simp at this
    · rename_i w n harm
      cases hs
      have hw : s.word ≠ 0 := by intro e0; rw [e0, arm_zero] at harm; cases harm
      refine rk_send rfl rfl ?_
      simp [phase, setSender, g1, g2, hw]
  · cases hs

theorem rk_ccas {a : Nat} {s s' : St} {b : Nat} (h1 : PInv1 s) (ha : inH (s.senders a).pc = true)
    (hs : sys.step s (.ccas b) = some s') : RankOK a s s' (.ccas b) := by
  simp only [sys, step] at hs
  split at hs
  · rename_i g
    obtain ⟨g1, g2⟩ := g
    have e : b = a := holderH h1 ha (by simp [g1, inM])
    subst e
    split at hs
    · rename_i hword
      split at hs
      · cases hs; refine rk_send rfl rfl ?_; simp [phase, setSender, g1, g2, hword]
      · cases hs
    · rename_i hword
      cases hs; refine rk_send rfl rfl ?_; simp [phase, setSender, g1, g2, hword]
  · cases hs

theorem rk_cfinal {a : Nat} {s s' : St} {b : Nat} (h1 : PInv1 s) (h2' : PInv2 s') (ha : inH (s.senders a).pc = true)
    (hs : sys.step s (.cfinal b) = some s') : RankOK a s s' (.cfinal b) := by
  simp only [sys, step] at hs
  split at hs
  · rename_i g
    have e : b = a := holderH h1 ha (by simp [g.1, inM])
    subst e
    split at hs
    · cases hs; refine rk_send rfl rfl ?_; simp [phase, setSender, g.1]
    · cases hs; have := h2'.np; simp at this
  · cases hs

theorem rk_unsending {a : Nat} {s s' : St} {b : Nat} (h1 : PInv1 s) (ha : inH (s.senders a).pc = true)
    (hs : sys.step s (.unsending b) = some s') : RankOK a s s' (.unsending b) := by
  simp only [sys, step] at hs
  split at hs
  · rename_i g
    have e : b = a := holderH h1 ha (by simp [g, inM])
    subst e
    cases hs; refine rk_send rfl rfl ?_; simp [phase, setSender, g]
  · cases hs

theorem rk_pong {a : Nat} {s s' : St} {b : Nat} (h1 : PInv1 s) (ha : inH (s.senders a).pc = true)
    (hs : sys.step s (.pong b) = some s') : RankOK a s s' (.pong b) := by
  simp only [sys, step] at hs
  split at hs
  · rename_i g
    have e : b = a := holderH h1 ha (by simp [g, inM])
    subst e
    split at hs
    · cases hs; refine rk_send rfl rfl ?_; simp [phase, setSender, g]
    · split at hs
      · cases hs; refine rk_send rfl rfl ?_; simp [phase, setSender, g]
      · cases hs
  · cases hs

theorem rk_ponged {a : Nat} {s s' : St} {b : Nat} (h1 : PInv1 s) (ha : inH (s.senders a).pc = true)
    (hs : sys.step s (.ponged b) = some s') : RankOK a s s' (.ponged b) := by
  simp only [sys, step] at hs
  split at hs
  · rename_i g
    have e : b = a := holderH h1 ha (by simp [g.1, inM])
    subst e
    cases hs; refine rk_send rfl rfl ?_; simp [phase, setSender, g.1]
  · cases hs

theorem rk_sdone {a : Nat} {s s' : St} {b : Nat} (h1 : PInv1 s) (ha : inH (s.senders a).pc = true)
    (hs : sys.step s (.sdone b) = some s') : RankOK a s s' (.sdone b) := by
  simp only [sys, step] at hs
  split at hs
  · rename_i g
    have e : b = a := holderH h1 ha (by simp [g, inM])
    subst e
    cases hs; left; simp [setSender, inH]
  · cases hs

theorem sumTo_le_mul {f g : Nat → Nat} {n : Nat} (h : ∀ j, j < n → f j ≤ 6 * g j) : sumTo f n ≤ 6 * sumTo g n := by
  induction n with
  | zero => simp [sumTo]
  | succ n ih =>
    simp only [sumTo]
    have := ih (fun j hj => h j (by omega)); have := h n (by omega); omega

theorem markOwes_pc (s : St) (t : Nat) : (markOwes s t).pc = (s.subs t).pc := by
  unfold markOwes; split <;> rfl

theorem rk_pingAdd {a : Nat} {s s' : St} {b : Nat} (h1 : PInv1 s) (h2 : PInv2 s) (h2' : PInv2 s') (ha : inH (s.senders a).pc = true)
    (hs : sys.step s (.pingAdd b) = some s') : RankOK a s s' (.pingAdd b) := by
  simp only [sys, step] at hs
  split at hs
  · rename_i g
    have e : b = a := holderH h1 ha (by simp [g.1, inM])
    subst e
    have hq := (h2.quiet (quiet_of_notA h1 ha (by simp [g.1, inA]))).2
    split at hs
    · rename_i w r ab hadd
      split at hs
      · have e := Option.some.inj hs
        have esubs : s'.subs = markOwes s := by rw [← e]; rfl
        have en : s'.nSubs = s.nSubs := by rw [← e]; rfl
        have esc : s'.subsCount = s.subsCount := by rw [← e]; rfl
        have epc : (s'.senders b).pc = .added := by rw [← e]; simp [setSender]
        right
        -- afterwards every subscriber weighs at most 6, and only counted subscribers weigh anything
        have hbound : SUM wI s' ≤ 6 * SUM cntI s' := by
          unfold SUM
          rw [esubs, en]
          apply sumTo_le_mul
          intro j _
          apply wI_le_cnt
          · rw [markOwes_pc]; exact (hq j).2.2.1
          · rw [markOwes_pc]; exact (hq j).2.2.2
        have hcnt := h2'.cntSum
        have hp0 : phase s (s.senders b) = 6 * s.subsCount + 29 := by simp [phase, g.1]
        have hp1 : phase s' (s'.senders b) = 28 := by simp [phase, epc]
        unfold sendRank
        rw [hp0, hp1]
        exact ⟨by omega, fun _ => by omega⟩
      · cases hs; have := h2'.np; simp at this
    · cases hs; have := h2'.np; simp at this
  · cases hs

/-- the effect of ANY step on the rank of the Send `a` -/
theorem sendRank_step {a : Nat} {s s' : St} {act : Act} (h1 : PInv1 s) (h2 : PInv2 s) (h1' : PInv1 s') (h2' : PInv2 s')
    (ha : inH (s.senders a).pc = true) (hs : sys.step s act = some s') : RankOK a s s' act := by
  cases act with
  | subLock t => exact rk_subLock h1 ha hs
  | subInc t => exact rk_subInc h1 ha hs
  | subUnlock t => exact rk_subUnlock h1 h2 ha hs
  | recv b t => exact rk_recv h1 h2 ha hs
  | consume t => exact rk_consume h1 h2 ha hs
  | tryOk t => exact rk_tryOk h1 h2 ha hs
  | tryFail t => exact rk_tryFail h1 ha hs
  | pingZero t => exact rk_pingZero h2' ha hs
  | pingNonZero t => exact rk_pingNonZero h1 h2 h2' ha hs
  | unsubDecL t => exact rk_unsubDecL h1 ha hs
  | unsubUnlock t => exact rk_unsubUnlock h1 ha hs
  | unsubDecN t => exact rk_unsubDecN h1 h2 ha hs
  | pingSub t => exact rk_pingSub h1 h2 h1' h2' ha hs
  | absorb b t => exact rk_absorb h1 ha hs
  | sbegin b v => exact rk_sbegin ha hs
  | sendMu b => exact rk_sendMu h1 ha hs
  | sending b => exact rk_sending h1 ha hs
  | count b => exact rk_count h1 ha hs
  | pingAdd b => exact rk_pingAdd h1 h2 h2' ha hs
  | cfast b => exact rk_cfast h1 ha hs
  | cload b => exact rk_cload h1 h2' ha hs
  | ccas b => exact rk_ccas h1 ha hs
  | cfinal b => exact rk_cfinal h1 h2' ha hs
  | unsending b => exact rk_unsending h1 ha hs
  | pong b => exact rk_pong h1 ha hs
  | ponged b => exact rk_ponged h1 ha hs
  | sdone b => exact rk_sdone h1 ha hs

/-- while `a` is past the acquisition of sendingMu, a progress step of the class is enabled -/
theorem send_enabled {s : St} (h1 : PInv1 s) (h2 : PInv2 s) (a : Nat) (ha : inH (s.senders a).pc = true) :
    ∃ act, sendProgress a act ∧ (sys.step s act).isSome = true := by
  have np := h2.np
  cases hp : (s.senders a).pc with
  | idle => rw [hp] at ha; simp [inH] at ha
  | wantSendMu => rw [hp] at ha; simp [inH] at ha
  | wantSending => rw [hp] at ha; simp [inH] at ha
  | done => rw [hp] at ha; simp [inH] at ha
  | holding => exact ⟨.count a, rfl, by simp only [sys, step, hp, ↓reduceIte]; split <;> rfl⟩
  | counted =>
    refine ⟨.pingAdd a, rfl, ?_⟩
    simp only [sys, step, hp, np, and_self, ↓reduceIte]
    cases add s.word ((s.senders a).n : Int) with
    | ok w r ab => simp only; split <;> rfl
    | panic w => rfl
  | added => exact ⟨.cfast a, rfl, by simp only [sys, step, hp, ↓reduceIte]; split <;> rfl⟩
  | loaded =>
    by_cases hz : (s.senders a).snap = 0
    · refine ⟨.cload a, rfl, ?_⟩
      simp only [sys, step, hp, hz, np, and_self, ↓reduceIte]
      cases arm s.word <;> rfl
    · refine ⟨.ccas a, rfl, ?_⟩
      obtain ⟨hw, hb, _⟩ := h2.pre a (Or.inr hp)
      simp only [sys, step, hp, hz, ne_eq, not_false_eq_true, and_self, ↓reduceIte]
      split
      · rename_i heq
        have hpos : 0 < SUM oweI s := by
          cases Nat.eq_zero_or_pos (SUM oweI s) with
          | inl e => rw [← heq, hw, e, idleWord0] at hz; exact absurd rfl hz
          | inr e => exact e
        rw [← heq, hw, arm_idle _ hpos hb]; rfl
      · rfl
  | sending =>
    obtain ⟨hw, hsum, hb, hgd, hpn, hdk⟩ := h2.arm a hp
    by_cases hk : (s.senders a).k = (s.senders a).armedN
    · refine ⟨.cfinal a, rfl, ?_⟩
      simp only [sys, step, hp, hk, np, and_self, ↓reduceIte]
      cases finish s.word (s.senders a).armedN <;> rfl
    · have hklt : (s.senders a).k < (s.senders a).armedN := by omega
      by_cases hab : 0 < SUM absI s
      · obtain ⟨t, _, htp⟩ := sumTo_pos_witness _ hab
        have : (s.subs t).pc = .absorbing := by
          cases e : (s.subs t).pc <;> simp [absI, e] at htp ⊢
        exact ⟨.absorb a t, rfl, by simp [sys, step, hp, hklt, this]⟩
      · have ho : 0 < SUM oweI s := by omega
        obtain ⟨t, _, htp⟩ := sumTo_pos_witness _ ho
        have howes : (s.subs t).owes = true := by
          cases e : (s.subs t).owes <;> simp [oweI, e] at htp ⊢
        have hc1 : ∀ (hne : (s.subs t).pc ≠ .out), cntI (s.subs t) ≤ SUM cntI s := fun hne => SUM_pos_pt cntI (lt_nSubs h1 t hne)
        rcases h2.owesWhere t howes with e | e | e | e
        · exact ⟨.recv a t, rfl, by simp [sys, step, hp, hklt, e]⟩
        · refine ⟨.pingNonZero t, trivial, ?_⟩
          have h0 := add_zero_armed (SUM oweI s + s.delivered) (by omega)
          simp only [sys, step, e, np, and_self, ↓reduceIte, hw, h0]
          have : ¬ (SUM oweI s + s.delivered = 0) := by omega
          simp only [ne_eq, this, not_false_eq_true, ↓reduceIte]; rfl
        · have hc := hc1 (by simp [e])
          have : 0 < s.subsCount := by rw [h2.cntSum]; simp [cntI, e] at hc; omega
          exact ⟨.unsubDecN t, trivial, by simp [sys, step, e, this]⟩
        · refine ⟨.pingSub t, trivial, ?_⟩
          simp only [sys, step, e, np, and_self, ↓reduceIte]
          cases subOne s.word with
          | ok w r ab => by_cases hab' : ab = 0 <;> simp [hab']
          | panic w => simp
  | checked => exact ⟨.unsending a, rfl, by simp [sys, step, hp]⟩
  | released =>
    refine ⟨.pong a, rfl, ?_⟩
    have hpn := (h2.chk a (Or.inr hp)).2
    simp only [sys, step, hp, ↓reduceIte, hpn]
    split <;> rfl
  | ponging =>
    by_cases hz : s.pongN = 0
    · exact ⟨.ponged a, rfl, by simp [sys, step, hp, hz]⟩
    · have hg := h2.png a hp
      have hpos : 0 < SUM gotI s := by omega
      obtain ⟨t, _, htp⟩ := sumTo_pos_witness _ hpos
      have : (s.subs t).pc = .got := by
        cases e : (s.subs t).pc <;> simp [gotI, e] at htp ⊢
      exact ⟨.consume t, trivial, by simp [sys, step, this]; omega⟩
  | unlocking => exact ⟨.sdone a, rfl, by simp [sys, step, hp]⟩

/-- **A Send that has acquired sendingMu always gets out.**  Along every run that is weakly fair for `sendProgress a`, from every
    point a state is reached in which `a` is not inside (it has returned, or had not reached that point). -/
theorem send_leadsTo_out (a : Nat) (r : Run sys) (hfair : WeakFair sys (fun _ act => sendProgress a act) r) :
    ∀ i, ∃ j, i ≤ j ∧ inH ((r.st j).senders a).pc = false := by
  apply leadsTo sys (fun _ act => sendProgress a act) r (fun s => Reach sys s) (fun s => inH (s.senders a).pc = false) (sendRank a) hfair
    (fun i => run_reach _ r i)
  · intro s hr hg
    have ha : inH (s.senders a).pc = true := by cases e : inH (s.senders a).pc <;> simp_all
    obtain ⟨h1, h2⟩ := pinv12_reach s hr
    exact send_enabled h1 h2 a ha
  · intro s act s' hr hg hs
    have ha : inH (s.senders a).pc = true := by cases e : inH (s.senders a).pc <;> simp_all
    obtain ⟨h1, h2⟩ := pinv12_reach s hr
    obtain ⟨h1', h2'⟩ := pinv12_reach s' (Reach.step hr hs)
    rcases sendRank_step h1 h2 h1' h2' ha hs with h | h
    · exact Or.inl h
    · exact Or.inr h.1
  · intro s act s' hr hg hH hs
    have ha : inH (s.senders a).pc = true := by cases e : inH (s.senders a).pc <;> simp_all
    obtain ⟨h1, h2⟩ := pinv12_reach s hr
    obtain ⟨h1', h2'⟩ := pinv12_reach s' (Reach.step hr hs)
    rcases sendRank_step h1 h2 h1' h2' ha hs with h | h
    · exact Or.inl h
    · exact Or.inr (h.2 hH)

/-- the control flow of a Send call: its pc either stays or moves along these edges -/
def nextOK : SPc → SPc → Bool
  | .idle, .wantSendMu | .idle, .done | .wantSendMu, .wantSending | .wantSending, .holding
  | .holding, .counted | .holding, .done | .counted, .added | .added, .checked | .added, .loaded
  | .loaded, .checked | .loaded, .sending | .sending, .checked | .checked, .released | .released, .ponging
  | .ponging, .unlocking | .unlocking, .done => true
  | p, q => p == q

theorem pc_next {s s' : St} {act : Act} (a : Nat) (hs : sys.step s act = some s') :
    nextOK (s.senders a).pc (s'.senders a).pc = true := by
  have hrefl : ∀ p : SPc, nextOK p p = true := by intro p; cases p <;> rfl
  cases act
  all_goals (simp only [sys, step] at hs <;> (repeat' (split at hs)) <;> cases hs <;> (try exact hrefl _))
  all_goals (simp only [setSender, setSub, upd_apply]; (repeat' split) <;> (first | exact hrefl _ | (subst_vars; simp_all [nextOK])))

/-- the only way out of the region is the return of the call -/
theorem send_exit_is_done {s s' : St} {act : Act} (a : Nat) (ha : inH (s.senders a).pc = true)
    (hs : sys.step s act = some s') (hout : inH (s'.senders a).pc = false) : (s'.senders a).pc = .done := by
  have := pc_next a hs
  revert this ha hout
  cases (s.senders a).pc <;> cases (s'.senders a).pc <;> simp [inH, nextOK]

/-- the step by which a Send leaves the region releases sendMu -/
theorem exit_releases_sendMu {s s' : St} {act : Act} (a : Nat) (ha : inH (s.senders a).pc = true)
    (hs : sys.step s act = some s') (hout : inH (s'.senders a).pc = false) : s'.sendMu = false := by
  cases act
  all_goals (simp only [sys, step] at hs <;> (repeat' (split at hs)) <;> cases hs)
  all_goals (first | rfl | (exfalso; (try simp only [setSender, setSub, upd_apply] at hout); (repeat' (split at hout)) <;> simp_all [inH]))

/-- when the Send has returned, no subscriber is left between a receive and the end of its Wait, and nobody owes anything -/
theorem after_return_all_acknowledged {s : St} (h1 : PInv1 s) (h2 : PInv2 s) (hmu : s.sendMu = false) (t : Nat) :
    (s.subs t).pc ≠ .got ∧ (s.subs t).pc ≠ .absorbing ∧ (s.subs t).owes = false := by
  have noM := nobody_inM_of_free h1 hmu
  have noG : ∀ b, inG (s.senders b).pc = false := by
    intro b; cases e : inG (s.senders b).pc with
    | false => rfl
    | true => have := noM b; rw [inM_of_inG e] at this; cases this
  have noA : ∀ b, inA (s.senders b).pc = false := by
    intro b; cases e : inA (s.senders b).pc with
    | false => rfl
    | true => have := noM b; rw [inM_of_inA e] at this; cases this
  have hg := SUM_zero_pt gotI (h2.gotIdle noG).1 rfl h1 t
  have hq := (h2.quiet noA).2 t
  refine ⟨?_, hq.2.2.2, hq.1⟩
  intro e; simp [gotI, e] at hg

end BB.PubSub
