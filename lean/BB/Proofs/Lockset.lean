/-
  Consistent locking implies ordering of conflicting accesses (the "Eraser" lemma), over an abstract
  trace semantics of mutexes / RW mutexes.  This is the theory behind C11's table check: if every
  access to a location holds one common lock (in write mode for writes), then between two conflicting
  accesses by different threads the first thread released that lock — a release/acquire pair, i.e. a
  happens-before edge in Go's memory model (which is modelled here, not verified).
-/
namespace BB.LocksetTheory

inductive Ev
  | acq (t l : Nat) (w : Bool)     -- thread t acquires lock l (w = write / exclusive mode)
  | rel (t l : Nat)                -- thread t releases lock l
  | acc (t x : Nat) (w : Bool)     -- thread t accesses location x (w = write)
deriving DecidableEq, Repr

/-- holders of every lock -/
abbrev LS := Nat → List (Nat × Bool)

def removeFirst (t : Nat) : List (Nat × Bool) → List (Nat × Bool)
  | [] => []
  | h :: rest => if h.1 = t then rest else h :: removeFirst t rest

/-- one step; `none` if the event is not allowed by the lock semantics -/
def step (σ : LS) : Ev → Option LS
  | .acq t l w =>
    if (w = true → σ l = []) ∧ (w = false → ∀ h ∈ σ l, h.2 = false) then
      some (fun l' => if l' = l then (t, w) :: σ l else σ l')
    else none
  | .rel t l =>
    if (σ l).any (·.1 == t) then some (fun l' => if l' = l then removeFirst t (σ l) else σ l') else none
  | .acc _ _ _ => some σ

def run (σ : LS) : List Ev → Option LS
  | [] => some σ
  | e :: es => match step σ e with
    | none => none
    | some σ' => run σ' es

/-- exclusion invariant: a write holder is the only holder -/
def Excl (σ : LS) : Prop := ∀ l h, h ∈ σ l → h.2 = true → σ l = [h]

theorem mem_removeFirst {t : Nat} {h : Nat × Bool} : ∀ {l : List (Nat × Bool)}, h ∈ removeFirst t l → h ∈ l
  | [], hm => by simp [removeFirst] at hm
  | x :: rest, hm => by
    simp only [removeFirst] at hm
    split at hm
    · exact List.mem_cons_of_mem _ hm
    · rcases List.mem_cons.mp hm with rfl | hm
      · exact List.mem_cons_self
      · exact List.mem_cons_of_mem _ (mem_removeFirst hm)

theorem excl_step {σ σ' : LS} {e : Ev} (hx : Excl σ) (hs : step σ e = some σ') : Excl σ' := by
  cases e with
  | acq t l w =>
    simp only [step] at hs
    split at hs
    · rename_i hc
      cases hs
      intro l' h hm hw
      by_cases hl : l' = l
      · subst hl
        simp only [if_true] at hm ⊢
        rcases List.mem_cons.mp hm with heq | hm'
        · -- the new holder is a writer: the lock was free
          subst heq
          have := hc.1 hw
          simp [this]
        · -- an old holder is a writer: impossible, since then the new one could not be added
          cases w with
          | true => have hfree := hc.1 rfl; rw [hfree] at hm'; cases hm'
          | false => have := hc.2 rfl h hm'; rw [hw] at this; cases this
      · simp only [hl, if_false] at hm ⊢
        exact hx l' h hm hw
    · cases hs
  | rel t l =>
    simp only [step] at hs
    split at hs
    · cases hs
      intro l' h hm hw
      by_cases hl : l' = l
      · subst hl
        simp only [if_true] at hm ⊢
        have hin := mem_removeFirst hm
        have hold := hx l' h hin hw
        rw [hold] at hm ⊢
        simp only [removeFirst] at hm ⊢
        split at hm
        · cases hm
        · rename_i hne; simp [hne]
      · simp only [hl, if_false] at hm ⊢
        exact hx l' h hm hw
    · cases hs
  | acc t x w => simp only [step] at hs; cases hs; exact hx

theorem excl_run {σ σ' : LS} {es : List Ev} (hx : Excl σ) (hr : run σ es = some σ') : Excl σ' := by
  induction es generalizing σ with
  | nil => simp [run] at hr; subst hr; exact hx
  | cons e es ih =>
    simp only [run] at hr
    cases hs : step σ e with
    | none => simp [hs] at hr
    | some σ1 => simp only [hs] at hr; exact ih (excl_step hx hs) hr

theorem mem_removeFirst_of_ne {t : Nat} {h : Nat × Bool} (hne : h.1 ≠ t) :
    ∀ {l : List (Nat × Bool)}, h ∈ l → h ∈ removeFirst t l
  | [], hm => by cases hm
  | x :: rest, hm => by
    simp only [removeFirst]
    rcases List.mem_cons.mp hm with rfl | hm
    · simp [hne]
    · split
      · exact hm
      · exact List.mem_cons_of_mem _ (mem_removeFirst_of_ne hne hm)

/-- holding persists as long as the holder does not release that lock -/
theorem holds_persists {σ σ' : LS} {es : List Ev} {t l : Nat} {m : Bool} (hh : (t, m) ∈ σ l)
    (hno : ∀ e ∈ es, e ≠ .rel t l) (hr : run σ es = some σ') : (t, m) ∈ σ' l := by
  induction es generalizing σ with
  | nil => simp [run] at hr; subst hr; exact hh
  | cons e es ih =>
    simp only [run] at hr
    cases hs : step σ e with
    | none => simp [hs] at hr
    | some σ1 =>
      simp only [hs] at hr
      refine ih ?_ (fun e' he' => hno e' (by simp [he'])) hr
      cases e with
      | acq t' l' w =>
        simp only [step] at hs
        split at hs
        · cases hs
          by_cases hl : l = l'
          · subst hl; simp only [if_true]; exact List.mem_cons_of_mem _ hh
          · simp only [hl, if_false]; exact hh
        · cases hs
      | rel t' l' =>
        simp only [step] at hs
        split at hs
        · cases hs
          by_cases hl : l = l'
          · subst hl
            simp only [if_true]
            have hne : t ≠ t' := by
              intro he; subst he
              exact hno (.rel t l) (by simp) rfl
            exact mem_removeFirst_of_ne (by simpa using hne) hh
          · simp only [hl, if_false]; exact hh
        · cases hs
      | acc t' x w => simp only [step] at hs; cases hs; exact hh

/-- **Consistent locking orders conflicting accesses.**  In a trace allowed by the lock semantics, let
    thread `t1` access `x` while holding `l` (mode `m1`) and later thread `t2 ≠ t1` access `x` while
    holding `l` (mode `m2`), where each write access holds `l` in write mode and at least one of the
    accesses is a write.  Then `t1` released `l` in between. -/
theorem conflicting_accesses_ordered (pre mid : List Ev) (σ0 σ1 σ2 : LS) (t1 t2 l : Nat) (m1 m2 : Bool)
    (hx0 : Excl σ0) (hr1 : run σ0 pre = some σ1) (hr2 : run σ1 mid = some σ2)
    (hne : t1 ≠ t2) (h1 : (t1, m1) ∈ σ1 l) (h2 : (t2, m2) ∈ σ2 l) (hw : m1 = true ∨ m2 = true) :
    ∃ e ∈ mid, e = .rel t1 l := by
  by_cases hrel : ∃ e ∈ mid, e = Ev.rel t1 l
  · exact hrel
  · exfalso
    have hno : ∀ e ∈ mid, e ≠ Ev.rel t1 l := fun e he heq => hrel ⟨e, he, heq⟩
    have h1' := holds_persists h1 hno hr2
    have hx2 : Excl σ2 := excl_run (excl_run hx0 hr1) hr2
    rcases hw with hw | hw
    · have := hx2 l (t1, m1) h1' hw
      rw [this] at h2
      simp at h2
      exact hne h2.1.symm
    · have := hx2 l (t2, m2) h2 hw
      rw [this] at h1'
      simp at h1'
      exact hne h1'.1

end BB.LocksetTheory
