/- The per-consumer read-position chain invariant (helper for Props/C01, C02). -/
import BB.Proofs.Buffer

namespace BB.Buffer

/-- positions read by consumer `c`, oldest first -/
def readsOf (s : St) (c : Nat) : List Nat :=
  (s.reads.filter (fun r => r.1 == c)).map (fun r => r.2.1)

/-- on the list of read positions, most recent first: the first read is at `start`, and every
    read is at most one past the previous one and never below `start` -/
def RevChain (start : Nat) : List Nat → Prop
  | [] => True
  | [p] => p = start
  | q :: p :: rest => q ≤ p + 1 ∧ start ≤ q ∧ RevChain start (p :: rest)

/-- consumer bookkeeping versus its read history (most recent first) -/
def ConsChain (committed delta start : Nat) : List Nat → Prop
  | [] => committed = start ∧ delta = 0
  | q :: rest => start ≤ committed ∧ committed + delta ≤ q + 1 ∧ RevChain start (q :: rest)

structure ChainInv (s : St) : Prop where
  reads_lt : ∀ r ∈ s.reads, r.1 < s.cons.length
  chain : ∀ c k, s.cons[c]? = some k → ConsChain k.committed k.delta k.start (readsOf s c).reverse

theorem chainInv_init : ChainInv init := ⟨by simp [init], by simp [init]⟩

theorem readsOf_nil_of_ge {s : St} (h : ∀ r ∈ s.reads, r.1 < s.cons.length) {c : Nat}
    (hc : s.cons.length ≤ c) : readsOf s c = [] := by
  unfold readsOf
  have : s.reads.filter (fun r => r.1 == c) = [] := by
    apply List.filter_eq_nil_iff.mpr
    intro r hr
    have := h r hr
    simp; omega
  simp [this]

/-- operations that leave `reads` alone and keep (committed, delta, start) of every consumer -/
theorem chainInv_frame {s s' : St} (h : ChainInv s) (hr : s'.reads = s.reads)
    (hlen : s.cons.length ≤ s'.cons.length)
    (hc : ∀ (c : Nat) (k' : Cons), s'.cons[c]? = some k' →
      ∃ k : Cons, s.cons[c]? = some k ∧ k'.committed = k.committed ∧ k'.delta = k.delta ∧ k'.start = k.start) :
    ChainInv s' := by
  refine ⟨?_, ?_⟩
  · intro r hr'
    rw [hr] at hr'
    exact Nat.lt_of_lt_of_le (h.reads_lt r hr') hlen
  · intro c k' hk'
    obtain ⟨k, hk, h1, h2, h3⟩ := hc c k' hk'
    have := h.chain c k hk
    unfold readsOf at *
    rw [hr, h1, h2, h3]; exact this

theorem chainInv_setCons {s : St} (h : ChainInv s) (c' : Nat) (k k' : Cons) (hk : s.cons[c']? = some k)
    (hk' : ConsChain k'.committed k'.delta k'.start (readsOf s c').reverse) :
    ChainInv (setCons s c' k') := by
  refine ⟨?_, ?_⟩
  · intro r hr
    simpa [setCons] using h.reads_lt r hr
  · intro c x hx
    by_cases hcc : c' = c
    · subst hcc
      have hl : c' < s.cons.length := (List.getElem?_eq_some_iff.mp hk).1
      simp only [setCons, List.getElem?_set_self hl] at hx
      cases hx
      exact hk'
    · simp only [setCons, List.getElem?_set_ne hcc] at hx
      exact h.chain c x hx

theorem consChain_flags {a b c : Nat} {l : List Nat} (h : ConsChain a b c l) : ConsChain a b c l := h

/-- rollback: `delta := 0` -/
theorem consChain_rollback {committed delta start : Nat} {l : List Nat}
    (h : ConsChain committed delta start l) : ConsChain committed 0 start l := by
  cases l with
  | nil => exact ⟨h.1, rfl⟩
  | cons q rest => exact ⟨h.1, by have := h.2.1; omega, h.2.2⟩

/-- commit: `committed += delta; delta := 0` -/
theorem consChain_commit {committed delta start : Nat} {l : List Nat}
    (h : ConsChain committed delta start l) : ConsChain (committed + delta) 0 start l := by
  cases l with
  | nil => exact ⟨by have := h.1; have := h.2; omega, rfl⟩
  | cons q rest => exact ⟨by have := h.1; omega, by have := h.2.1; omega, h.2.2⟩

/-- a successful read at `committed + delta` -/
theorem consChain_get {committed delta start : Nat} {l : List Nat}
    (h : ConsChain committed delta start l) :
    ConsChain committed (delta + 1) start ((committed + delta) :: l) := by
  cases l with
  | nil =>
    obtain ⟨h1, h2⟩ := h
    subst h2
    exact ⟨by omega, by omega, by simp [RevChain, h1]⟩
  | cons q rest =>
    obtain ⟨h1, h2, h3⟩ := h
    exact ⟨h1, by omega, ⟨h2, by omega, h3⟩⟩

theorem chainInv_step {s : St} (h : ChainInv s) (op : Op) : ChainInv (step s op) := by
  have same : ∀ s' : St, s'.reads = s.reads → s'.cons = s.cons → ChainInv s' := by
    intro s' hr hc
    exact chainInv_frame h hr (by rw [hc]; exact Nat.le_refl _) (fun c k' hk' => ⟨k', by rw [← hc]; exact hk', rfl, rfl, rfl⟩)
  cases op with
  | put vs =>
    simp only [step, put]; split
    · exact h
    · exact same _ rfl rfl
  | newConsumer =>
    simp only [step, newConsumer]; split
    · exact h
    · refine ⟨?_, ?_⟩
      · intro r hr
        have := h.reads_lt r hr
        simp; omega
      · intro c k hk
        rcases Nat.lt_or_ge c s.cons.length with hlt | hge
        · simp only [List.getElem?_append_left hlt] at hk
          exact h.chain c k hk
        · have hnil : readsOf s c = [] := readsOf_nil_of_ge h.reads_lt hge
          have hc : c = s.cons.length := by
            have := (List.getElem?_eq_some_iff.mp hk).1
            simp at this; omega
          subst hc
          simp at hk
          subst hk
          show ConsChain _ _ _ (readsOf s s.cons.length).reverse
          rw [hnil]
          exact ⟨rfl, rfl⟩
  | get c' =>
    simp only [step, get]; split
    · rename_i v k hv hk
      have hl : c' < s.cons.length := (List.getElem?_eq_some_iff.mp hk).1
      refine ⟨?_, ?_⟩
      · intro r hr
        simp only [List.mem_append, List.mem_singleton] at hr
        rcases hr with hr | rfl
        · simpa using h.reads_lt r hr
        · simpa using hl
      · intro c x hx
        by_cases hcc : c' = c
        · subst hcc
          simp only [List.getElem?_set_self hl] at hx
          cases hx
          have := consChain_get (h.chain c' k hk)
          simpa [readsOf, List.filter_append] using this
        · simp only [List.getElem?_set_ne hcc] at hx
          have := h.chain c x hx
          have hne : (c' == c) = false := by simpa using hcc
          simpa [readsOf, List.filter_append, hne] using this
    · exact h
  | commit c' =>
    simp only [step, commit]; split
    · exact h
    · rename_i k hk
      split
      · exact h
      · split
        · exact h
        · exact chainInv_setCons h c' k _ hk (consChain_commit (h.chain c' k hk))
  | rollback c' =>
    simp only [step, rollback]; split
    · exact h
    · rename_i k hk
      split
      · exact h
      · exact chainInv_setCons h c' k _ hk (consChain_rollback (h.chain c' k hk))
  | cancelCons c' =>
    simp only [step, cancelCons]; split
    · exact h
    · rename_i k hk
      exact chainInv_setCons h c' k _ hk (h.chain c' k hk)
  | finishClose c' =>
    simp only [step, finishClose]; split
    · exact h
    · rename_i k hk
      split
      · exact chainInv_setCons h c' k _ hk (h.chain c' k hk)
      · exact h
  | closeBuf =>
    refine chainInv_frame (s' := closeBuf s) h rfl (by simp [closeBuf]) ?_
    intro c k' hk'
    simp only [closeBuf, List.getElem?_map] at hk'
    cases hk : s.cons[c]? with
    | none => simp [hk] at hk'
    | some k =>
      simp [hk] at hk'
      subst hk'
      exact ⟨k, rfl, rfl, rfl, rfl⟩
  | clean k => exact same _ rfl rfl
  | cleanDefault => exact same _ rfl rfl
  | cleanFixed m t => exact same _ rfl rfl

theorem chainInv_run {s : St} (h : ChainInv s) (ops : List Op) : ChainInv (run s ops) := by
  induction ops generalizing s with
  | nil => exact h
  | cons op ops ih => exact ih (chainInv_step h op)

/-! consequences of `RevChain` stated on the oldest-first list -/

/-- every read position is at least `start` -/
theorem revChain_ge {start : Nat} : ∀ {l : List Nat}, RevChain start l → ∀ p ∈ l, start ≤ p
  | [], _, p, hp => by simp at hp
  | [q], h, p, hp => by
    simp at hp; subst hp; exact Nat.le_of_eq h.symm
  | q :: p' :: rest, h, p, hp => by
    rcases List.mem_cons.mp hp with rfl | hp
    · exact h.2.1
    · exact revChain_ge h.2.2 p hp

/-- no gap: every position between `start` and the most recent read has been read -/
theorem revChain_no_gap {start : Nat} : ∀ {l : List Nat}, RevChain start l →
    ∀ q ∈ l, ∀ p, start ≤ p → p ≤ q → p ∈ l
  | [], _, q, hq, _, _, _ => by simp at hq
  | [x], h, q, hq, p, hp1, hp2 => by
    simp at hq; subst hq
    have : q = start := h
    simp; omega
  | x :: y :: rest, h, q, hq, p, hp1, hp2 => by
    rcases List.mem_cons.mp hq with rfl | hq
    · by_cases hpe : p = q
      · simp [hpe]
      · have hy : p ≤ y := by have := h.1; omega
        exact List.mem_cons_of_mem _ (revChain_no_gap h.2.2 y (by simp) p hp1 hy)
    · exact List.mem_cons_of_mem _ (revChain_no_gap h.2.2 q hq p hp1 hp2)

end BB.Buffer
