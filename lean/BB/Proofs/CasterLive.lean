/-
  Liveness of ChanCaster.Send (C08: "neither call can block forever when receivers follow the contract").

  For a sender `a` that holds the mutex (pc ∈ locked, loaded, sending, unlocking) a rank is defined that no step of
  anybody increases and every step of the class `holderStep a` (the sender's own steps and the rendezvous in which a
  receiver — registered or absorbing — takes its next value) strictly decreases:

      locked    3·T + 12                      T = registrations outstanding
      loaded    3·T + 11  (13 if the word changed since the load: the CAS will fail and retry)
      sending   T + (n − k) + 2               n − k = sends still to perform
      unlocking 1

  A failed CAS is paid for by the deregistration that changed the word (T dropped); registrations cannot happen while
  the mutex is write-held.  Every step is analysed through the invariant `CInv` of the state before AND after the step,
  so no word arithmetic is redone here.
-/
import BB.Proofs.Caster
import BB.Core.Fair

namespace BB.Caster
open BB.Fun BB.LTS

def holderStep (a : Nat) (act : Act) : Prop :=
  act = .sload a ∨ act = .scas a ∨ act = .scheck a ∨ act = .sunlock a ∨ (∃ r, act = .deliver a r) ∨ (∃ r, act = .absorb a r)

def holdRank (a : Nat) (s : St) : Nat :=
  match (s.senders a).pc with
  | .locked => 3 * s.T + 12
  | .loaded => 3 * s.T + (if s.word = (s.senders a).snap then 11 else 13)
  | .sending => s.T + ((s.senders a).n - (s.senders a).k) + 2
  | .unlocking => 1
  | _ => 0

theorem regs_le_T {s : St} (h : CInv s) (r : Nat) : (s.recvs r).regs ≤ s.T := by
  by_cases hr : r < s.nRecv
  · rw [h.sumT]; exact sumTo_ge_term (fun r => (s.recvs r).regs) hr
  · have := h.fresh r (by omega); rw [this]; simp

theorem nobody_sending_of {s : St} (h : CInv s) {a : Nat} (ha : inW (s.senders a).pc = true) (hns : (s.senders a).pc ≠ .sending) :
    ∀ b, (s.senders b).pc ≠ .sending := by
  intro b hb
  by_cases e : b = a
  · subst e; exact hns hb
  · have := only_writer h ha e; rw [sending_inW hb] at this; cases this

/-- a sender whose pc is in the locked region is THE holder -/
theorem holder_eq {s : St} (h : CInv s) {a b : Nat} (ha : inW (s.senders a).pc = true) (hb : inW (s.senders b).pc = true) : b = a :=
  h.singleW b a hb ha

/-- the effect of any step on the rank of the holder `a` -/
theorem holdRank_step {s s' : St} {act : Act} (a : Nat) (h : CInv s) (h' : CInv s') (ha : inW (s.senders a).pc = true)
    (hs : sys.step s act = some s') :
    inW (s'.senders a).pc = false ∨ (holdRank a s' ≤ holdRank a s ∧ (holderStep a act → holdRank a s' < holdRank a s)) := by
  have hw : s.wlock = true := h.wOf a ha
  cases act with
  | rlock r d =>
    simp only [sys, step] at hs
    split at hs
    · rename_i g; rw [hw] at g; simp at g
    · cases hs
  | radd r =>
    simp only [sys, step] at hs
    split at hs
    · rename_i g; exact absurd g.1 (h.noRd hw r).1
    · cases hs
  | runlock r =>
    simp only [sys, step] at hs
    split at hs
    · rename_i g; exact absurd g (h.noRd hw r).2
    · cases hs
  | neg r d =>
    simp only [sys, step] at hs
    split at hs
    · rename_i g
      obtain ⟨g1, g2, g3, g4⟩ := g
      have hdT : d ≤ s.T := Nat.le_trans g3 (regs_le_T h r)
      split at hs
      · cases hs
        right
        refine ⟨?_, ?_⟩
        · unfold holdRank
          simp only
          cases hp : (s.senders a).pc <;> simp only [] <;> (try split) <;> (try split) <;> omega
        · intro hH
          rcases hH with e | e | e | e | ⟨_, e⟩ | ⟨_, e⟩ <;> cases e
      · cases hs; have := h'.np; simp at this
    · cases hs
  | deliver sd r =>
    simp only [sys, step] at hs
    split at hs
    · rename_i g
      obtain ⟨g1, g2, g3, g4⟩ := g
      have e : sd = a := holder_eq h ha (sending_inW g1)
      subst e
      cases hs
      have hT : 0 < s.T := Nat.lt_of_lt_of_le g4 (regs_le_T h r)
      right
      refine ⟨Nat.le_of_lt ?_, fun _ => ?_⟩ <;> (unfold holdRank; simp only [upd_same, g1]; omega)
    · cases hs
  | absorb sd r =>
    simp only [sys, step] at hs
    split at hs
    · rename_i g
      obtain ⟨g1, g2, g3, g4⟩ := g
      have e : sd = a := holder_eq h ha (sending_inW g1)
      subst e
      cases hs
      right
      refine ⟨Nat.le_of_lt ?_, fun _ => ?_⟩ <;> (unfold holdRank; simp only [upd_same, g1]; omega)
    · cases hs
  | sbegin sd v =>
    simp only [sys, step] at hs
    split at hs
    · rename_i g
      have e : sd ≠ a := by intro e; subst e; rw [g.1] at ha; simp [inW] at ha
      have hsame : ∀ x : Sender, (upd s.senders sd x) a = s.senders a := fun x => upd_other _ _ (Ne.symm e)
      split at hs <;> cases hs <;> right <;> refine ⟨?_, ?_⟩
      · unfold holdRank; simp only [hsame]; exact Nat.le_refl _
      · intro hH; rcases hH with e' | e' | e' | e' | ⟨_, e'⟩ | ⟨_, e'⟩ <;> cases e'
      · unfold holdRank; simp only [hsame]; exact Nat.le_refl _
      · intro hH; rcases hH with e' | e' | e' | e' | ⟨_, e'⟩ | ⟨_, e'⟩ <;> cases e'
    · cases hs
  | slock sd =>
    simp only [sys, step] at hs
    split at hs
    · rename_i g; rw [hw] at g; simp at g
    · cases hs
  | sload sd =>
    simp only [sys, step] at hs
    split at hs
    · rename_i g
      have e : sd = a := holder_eq h ha (by simp [g.1, inW])
      subst e
      split at hs
      · cases hs; right
        refine ⟨Nat.le_of_lt ?_, fun _ => ?_⟩ <;> (unfold holdRank; simp only [upd_same, g.1]; omega)
      · cases hs; have := h'.np; simp at this
      · cases hs; right
        refine ⟨Nat.le_of_lt ?_, fun _ => ?_⟩ <;> (unfold holdRank; simp only [upd_same, g.1, ↓reduceIte]; omega)
    · cases hs
  | scas sd =>
    simp only [sys, step] at hs
    split at hs
    · rename_i g
      have e : sd = a := holder_eq h ha (by simp [g, inW])
      subst e
      split at hs
      · rename_i hword
        split at hs
        · rename_i w n harm
          cases hs
          -- the armed count is the number of registrations outstanding
          have hn := (h'.armed sd (by simp)).2.1
          simp only [upd_same, Nat.add_zero] at hn
          right
          refine ⟨Nat.le_of_lt ?_, fun _ => ?_⟩ <;> (unfold holdRank; simp only [upd_same, g, hword, ↓reduceIte]; omega)
        · cases hs
      · rename_i hword
        cases hs; right
        refine ⟨Nat.le_of_lt ?_, fun _ => ?_⟩ <;> (unfold holdRank; simp only [upd_same, g, hword, ↓reduceIte]; omega)
    · cases hs
  | scheck sd =>
    simp only [sys, step] at hs
    split at hs
    · rename_i g
      have e : sd = a := holder_eq h ha (sending_inW g.1)
      subst e
      split at hs
      · cases hs; right
        refine ⟨Nat.le_of_lt ?_, fun _ => ?_⟩ <;> (unfold holdRank; simp only [upd_same, g.1]; omega)
      · cases hs; have := h'.np; simp at this
    · cases hs
  | sunlock sd =>
    simp only [sys, step] at hs
    split at hs
    · rename_i g
      have e : sd = a := holder_eq h ha (by simp [g, inW])
      subst e
      cases hs; left; simp [inW]
    · cases hs

/-- while `a` holds the mutex one of its own steps, or a rendezvous with a receiver, is enabled -/
theorem holder_enabled {s : St} (h : CInv s) (a : Nat) (ha : inW (s.senders a).pc = true) :
    ∃ act, holderStep a act ∧ (sys.step s act).isSome = true := by
  cases hp : (s.senders a).pc with
  | idle => rw [hp] at ha; simp [inW] at ha
  | want => rw [hp] at ha; simp [inW] at ha
  | done => rw [hp] at ha; simp [inW] at ha
  | dead => rw [hp] at ha; simp [inW] at ha
  | locked =>
    refine ⟨.sload a, Or.inl rfl, ?_⟩
    simp only [sys, step, hp, h.np, and_self, ↓reduceIte]
    cases arm s.word <;> rfl
  | loaded =>
    refine ⟨.scas a, Or.inr (Or.inl rfl), ?_⟩
    simp only [sys, step, hp, ↓reduceIte]
    by_cases hword : s.word = (s.senders a).snap
    · obtain ⟨hidle, _⟩ := h.idle (nobody_sending_of h ha (by simp [hp]))
      have hsnap := h.snapNZ a hp
      have hpos : 0 < s.T := by
        cases Nat.eq_zero_or_pos s.T with
        | inl e => rw [← hword, hidle, e, idleWord_zero] at hsnap; exact absurd rfl hsnap
        | inr e => exact e
      have harm : arm (s.senders a).snap = .armed (armedWord s.T) s.T := by rw [← hword, hidle, arm_idle s.T hpos h.tb]
      simp [hword, harm]
    · simp [hword]
  | unlocking =>
    exact ⟨.sunlock a, Or.inr (Or.inr (Or.inr (Or.inl rfl))), by simp [sys, step, hp]⟩
  | sending =>
    obtain ⟨_, _, h2, _⟩ := h.armed a hp
    by_cases hk : (s.senders a).k < (s.senders a).n
    · -- some receiver can take the next value (as in `send_never_stuck`)
      have hw := h.wOf a ha
      by_cases hP : 0 < s.P
      · rw [h.sumP] at hP
        obtain ⟨r, _, hkr⟩ := sumTo_pos_witness _ hP
        have hpc : (s.recvs r).pc = .absorbing := by
          cases e : (s.recvs r).pc <;> first | rfl | (have := h.kZero r (by rw [e]; simp); omega)
        exact ⟨.absorb a r, Or.inr (Or.inr (Or.inr (Or.inr (Or.inr ⟨r, rfl⟩)))), by simp [sys, step, hp, hk, hpc, hkr]⟩
      · have hT : 0 < s.T := by omega
        rw [h.sumT] at hT
        obtain ⟨r, _, hrr⟩ := sumTo_pos_witness _ hT
        have hnr := h.noRd hw r
        cases e : (s.recvs r).pc with
        | out => exact ⟨.deliver a r, Or.inr (Or.inr (Or.inr (Or.inr (Or.inl ⟨r, rfl⟩)))), by simp [sys, step, hp, hk, e, hrr]⟩
        | absorbing => exact ⟨.absorb a r, Or.inr (Or.inr (Or.inr (Or.inr (Or.inr ⟨r, rfl⟩)))), by simp [sys, step, hp, hk, e, h.kPos r e]⟩
        | rlocked => exact absurd e hnr.1
        | added => exact absurd e hnr.2
    · refine ⟨.scheck a, Or.inr (Or.inr (Or.inl rfl)), ?_⟩
      have hkn : (s.senders a).k = (s.senders a).n := by omega
      simp only [sys, step, hp, hkn, h.np, and_self, ↓reduceIte]
      cases finish s.word (s.senders a).n <;> rfl

/-- the only way out of the locked region is the final unlock: the Send has returned a value -/
theorem holder_exit_is_return {s s' : St} {act : Act} (a : Nat) (h : CInv s) (h' : CInv s') (ha : inW (s.senders a).pc = true)
    (hs : sys.step s act = some s') (hout : inW (s'.senders a).pc = false) : (s'.senders a).pc = .done ∧ act = .sunlock a := by
  have hw : s.wlock = true := h.wOf a ha
  -- steps of anybody else leave `senders a` alone; the holder's own steps stay inside, except sunlock
  cases act with
  | rlock r d => simp only [sys, step] at hs; split at hs <;> cases hs; rw [ha] at hout; cases hout
  | radd r =>
    simp only [sys, step] at hs
    split at hs
    · split at hs <;> cases hs <;> (rw [ha] at hout; cases hout)
    · cases hs
  | runlock r => simp only [sys, step] at hs; split at hs <;> cases hs; rw [ha] at hout; cases hout
  | neg r d =>
    simp only [sys, step] at hs
    split at hs
    · split at hs <;> cases hs <;> (rw [ha] at hout; cases hout)
    · cases hs
  | deliver sd r =>
    simp only [sys, step] at hs
    split at hs
    · rename_i g
      have e : sd = a := holder_eq h ha (sending_inW g.1)
      subst e; cases hs; simp only [upd_same, g.1, inW] at hout; simp at hout
    · cases hs
  | absorb sd r =>
    simp only [sys, step] at hs
    split at hs
    · rename_i g
      have e : sd = a := holder_eq h ha (sending_inW g.1)
      subst e; cases hs; simp only [upd_same, g.1, inW] at hout; simp at hout
    · cases hs
  | sbegin sd v =>
    simp only [sys, step] at hs
    split at hs
    · rename_i g
      have e : sd ≠ a := by intro e; subst e; rw [g.1] at ha; simp [inW] at ha
      split at hs <;> cases hs <;> (simp only [upd_other _ _ (Ne.symm e)] at hout; rw [ha] at hout; cases hout)
    · cases hs
  | slock sd =>
    simp only [sys, step] at hs
    split at hs
    · rename_i g; rw [hw] at g; simp at g
    · cases hs
  | sload sd =>
    simp only [sys, step] at hs
    split at hs
    · rename_i g
      have e : sd = a := holder_eq h ha (by simp [g.1, inW])
      subst e
      split at hs
      · cases hs; simp [inW] at hout
      · cases hs; have := h'.np; simp at this
      · cases hs; simp [inW] at hout
    · cases hs
  | scas sd =>
    simp only [sys, step] at hs
    split at hs
    · rename_i g
      have e : sd = a := holder_eq h ha (by simp [g, inW])
      subst e
      split at hs
      · split at hs
        · cases hs; simp [inW] at hout
        · cases hs
      · cases hs; simp [inW] at hout
    · cases hs
  | scheck sd =>
    simp only [sys, step] at hs
    split at hs
    · rename_i g
      have e : sd = a := holder_eq h ha (sending_inW g.1)
      subst e
      split at hs
      · cases hs; simp [inW] at hout
      · cases hs; have := h'.np; simp at this
    · cases hs
  | sunlock sd =>
    simp only [sys, step] at hs
    split at hs
    · rename_i g
      have e : sd = a := holder_eq h ha (by simp [g, inW])
      subst e; cases hs; exact ⟨by simp, rfl⟩
    · cases hs

/-- **A Send that holds the mutex always gets out.**  Along every run that is weakly fair for the holder's steps and the
    rendezvous with receivers, from every point a state is reached in which `a` is outside the locked region. -/
theorem holder_leadsTo_out (a : Nat) (r : Run sys) (hfair : WeakFair sys (fun _ act => holderStep a act) r) :
    ∀ i, ∃ j, i ≤ j ∧ inW ((r.st j).senders a).pc = false := by
  apply leadsTo sys (fun _ act => holderStep a act) r (fun s => Reach sys s) (fun s => inW (s.senders a).pc = false) (holdRank a) hfair
    (fun i => run_reach _ r i)
  · intro s hr hg
    have ha : inW (s.senders a).pc = true := by cases e : inW (s.senders a).pc <;> simp_all
    exact holder_enabled (cinv_reach s hr) a ha
  · intro s act s' hr hg hs
    have ha : inW (s.senders a).pc = true := by cases e : inW (s.senders a).pc <;> simp_all
    rcases holdRank_step a (cinv_reach s hr) (cinv_reach s' (Reach.step hr hs)) ha hs with h | h
    · exact Or.inl h
    · exact Or.inr h.1
  · intro s act s' hr hg hH hs
    have ha : inW (s.senders a).pc = true := by cases e : inW (s.senders a).pc <;> simp_all
    rcases holdRank_step a (cinv_reach s hr) (cinv_reach s' (Reach.step hr hs)) ha hs with h | h
    · exact Or.inl h
    · exact Or.inr (h.2 hH)

/-- **An absorbing negative Add gets out.**  While receiver `r` is absorbing, the Send that armed is still in its send phase and
    owes it a value; along every run weakly fair for that Send's class, a state is reached in which `r` is no longer absorbing or
    `a` is no longer the sending Send. -/
theorem absorbing_leadsTo (a r0 : Nat) (r : Run sys) (hfair : WeakFair sys (fun _ act => holderStep a act) r) :
    ∀ i, ∃ j, i ≤ j ∧ (((r.st j).recvs r0).pc ≠ .absorbing ∨ ((r.st j).senders a).pc ≠ .sending) := by
  apply leadsTo sys (fun _ act => holderStep a act) r (fun s => Reach sys s)
    (fun s => (s.recvs r0).pc ≠ .absorbing ∨ (s.senders a).pc ≠ .sending) (holdRank a) hfair (fun i => run_reach _ r i)
  · intro s hr hg
    have hs : (s.senders a).pc = .sending := by
      cases e : (s.senders a).pc <;> first | rfl | (exfalso; apply hg; right; rw [e]; simp)
    exact holder_enabled (cinv_reach s hr) a (sending_inW hs)
  · intro s act s' hr hg hs
    have hsd : (s.senders a).pc = .sending := by
      cases e : (s.senders a).pc <;> first | rfl | (exfalso; apply hg; right; rw [e]; simp)
    rcases holdRank_step a (cinv_reach s hr) (cinv_reach s' (Reach.step hr hs)) (sending_inW hsd) hs with h | h
    · left; right; intro e; rw [e] at h; simp [inW] at h
    · exact Or.inr h.1
  · intro s act s' hr hg hH hs
    have hsd : (s.senders a).pc = .sending := by
      cases e : (s.senders a).pc <;> first | rfl | (exfalso; apply hg; right; rw [e]; simp)
    rcases holdRank_step a (cinv_reach s hr) (cinv_reach s' (Reach.step hr hs)) (sending_inW hsd) hs with h | h
    · left; right; intro e; rw [e] at h; simp [inW] at h
    · exact Or.inr (h.2 hH)

/-- the control flow of a Send call -/
def nextOKc : SPc → SPc → Bool
  | .idle, .want | .idle, .done | .want, .locked | .locked, .unlocking | .locked, .dead | .locked, .loaded
  | .loaded, .sending | .loaded, .locked | .sending, .unlocking | .sending, .dead | .unlocking, .done => true
  | p, q => p == q

theorem pc_next_c {s s' : St} {act : Act} (b : Nat) (hs : sys.step s act = some s') :
    nextOKc (s.senders b).pc (s'.senders b).pc = true := by
  have hrefl : ∀ p : SPc, nextOKc p p = true := by intro p; cases p <;> rfl
  cases act
  all_goals (simp only [sys, step] at hs <;> (repeat' (split at hs)) <;> cases hs <;> (try exact hrefl _))
  all_goals (simp only [upd_apply]; (repeat' split) <;> (first | exact hrefl _ | (subst_vars; simp_all [nextOKc])))

/-- when the armed Send leaves its send phase nobody is absorbing any more -/
theorem no_absorber_after_send_phase {s s' : St} {act : Act} (a : Nat) (h : CInv s) (h' : CInv s') (hs : sys.step s act = some s')
    (ha : (s.senders a).pc = .sending) (ha' : (s'.senders a).pc ≠ .sending) (r0 : Nat) : (s'.recvs r0).pc ≠ .absorbing := by
  intro hab
  -- in s' somebody absorbs, so some Send is sending
  have hk := h'.kPos r0 hab
  have hrn : r0 < s'.nRecv := lt_nRecv h' r0 (by intro e; rw [e] at hab; cases hab)
  have hP : 0 < s'.P := by
    have := sumTo_ge_term (fun u => (s'.recvs u).k) hrn
    rw [← h'.sumP] at this; omega
  have hex : ∃ b, (s'.senders b).pc = .sending := by
    apply Classical.byContradiction
    intro hn
    have := (h'.idle (fun b hb => hn ⟨b, hb⟩)).2
    omega
  obtain ⟨b, hb⟩ := hex
  by_cases e : b = a
  · subst e; exact ha' hb
  · -- b was outside the locked region in s (a held the mutex) and cannot be sending one step later
    have hbs := only_writer h (sending_inW ha) e
    have := pc_next_c b hs
    rw [hb] at this
    revert this hbs
    cases (s.senders b).pc <;> simp [nextOKc, inW]

end BB.Caster
