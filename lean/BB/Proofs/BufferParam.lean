/-
  Values are opaque to the Buffer: renaming the values (any `f : Nat → Nat`, injective or not) commutes with every operation
  of the L1 model, and leaves every non-value observable (errors, sizes, diffs, cleaner decisions) unchanged.  In particular no
  value — the nil interface value included — is treated as "absent": availability of a read depends on positions only.
-/
import BB.Model.Buffer

namespace BB.Buffer

def St.mapV (f : Nat → Nat) (s : St) : St :=
  { s with log := s.log.map f, buf := s.buf.map f, reads := s.reads.map fun r => (r.1, r.2.1, f r.2.2) }

def GetR.mapV (f : Nat → Nat) : GetR → GetR
  | .val v => .val (f v)
  | .pending => .pending
  | .err e => .err e

@[simp] theorem mapV_cons (f : Nat → Nat) (s : St) : (s.mapV f).cons = s.cons := rfl
@[simp] theorem mapV_base (f : Nat → Nat) (s : St) : (s.mapV f).base = s.base := rfl
@[simp] theorem mapV_closed (f : Nat → Nat) (s : St) : (s.mapV f).closed = s.closed := rfl
@[simp] theorem mapV_buf (f : Nat → Nat) (s : St) : (s.mapV f).buf = s.buf.map f := rfl

theorem getTry_mapV (f : Nat → Nat) (s : St) (c : Nat) : getTry (s.mapV f) c = (getTry s c).mapV f := by
  unfold getTry
  simp only [mapV_cons, mapV_base, mapV_closed, mapV_buf]
  cases hk : s.cons[c]? with
  | none => rfl
  | some k =>
    simp only
    by_cases h1 : k.cancelled = true
    · simp [h1, GetR.mapV]
    by_cases h2 : s.closed = true
    · simp [h1, h2, GetR.mapV]
    by_cases h3 : (!k.registered) = true
    · simp [h1, h2, h3, GetR.mapV]
    by_cases h4 : k.committed + k.delta < s.base
    · simp [h1, h2, h3, h4, GetR.mapV]
    · simp only [h1, h2, h3, h4, if_false, Bool.false_eq_true]
      rw [List.getElem?_map]
      cases s.buf[k.committed + k.delta - s.base]? <;> simp [GetR.mapV]

theorem get_mapV (f : Nat → Nat) (s : St) (c : Nat) :
    get (s.mapV f) c = ((get s c).1.mapV f, (get s c).2.mapV f) := by
  unfold get
  rw [getTry_mapV]
  simp only [mapV_cons]
  cases hg : getTry s c with
  | val v =>
    cases hk : s.cons[c]? with
    | none => simp [GetR.mapV, St.mapV]
    | some k => simp [GetR.mapV, St.mapV]
  | pending => cases s.cons[c]? <;> simp [GetR.mapV]
  | err e => cases s.cons[c]? <;> simp [GetR.mapV]

theorem put_mapV (f : Nat → Nat) (s : St) (vs : List Nat) :
    put (s.mapV f) (vs.map f) = ((put s vs).1.mapV f, (put s vs).2) := by
  by_cases h : s.closed = true <;> simp [put, St.mapV, h]

theorem newConsumer_mapV (f : Nat → Nat) (s : St) :
    newConsumer (s.mapV f) = ((newConsumer s).1.mapV f, (newConsumer s).2) := by
  by_cases h : s.closed = true <;> simp [newConsumer, St.mapV, h]

theorem commit_mapV (f : Nat → Nat) (s : St) (c : Nat) :
    commit (s.mapV f) c = ((commit s c).1.mapV f, (commit s c).2) := by
  unfold commit
  simp only [mapV_cons]
  cases s.cons[c]? with
  | none => rfl
  | some k =>
    simp only
    by_cases h1 : k.delta = 0
    · simp [h1]
    · by_cases h2 : (!k.registered) = true
      · simp [h1, h2]
      · simp only [h1, h2, if_false, Bool.false_eq_true]; rfl

theorem rollback_mapV (f : Nat → Nat) (s : St) (c : Nat) :
    rollback (s.mapV f) c = ((rollback s c).1.mapV f, (rollback s c).2) := by
  unfold rollback
  simp only [mapV_cons]
  cases s.cons[c]? with
  | none => rfl
  | some k => simp only; split <;> rfl

theorem cancelCons_mapV (f : Nat → Nat) (s : St) (c : Nat) : cancelCons (s.mapV f) c = (cancelCons s c).mapV f := by
  unfold cancelCons
  simp only [mapV_cons]
  cases s.cons[c]? <;> rfl

theorem finishClose_mapV (f : Nat → Nat) (s : St) (c : Nat) : finishClose (s.mapV f) c = (finishClose s c).mapV f := by
  unfold finishClose
  simp only [mapV_cons]
  cases s.cons[c]? with
  | none => rfl
  | some k => simp only; split <;> rfl

theorem closeBuf_mapV (f : Nat → Nat) (s : St) : closeBuf (s.mapV f) = (closeBuf s).mapV f := rfl

theorem offsets_mapV (f : Nat → Nat) (s : St) : offsets (s.mapV f) = offsets s := rfl

theorem size_mapV (f : Nat → Nat) (s : St) : size (s.mapV f) = size s := by simp [size]

theorem diff_mapV (f : Nat → Nat) (s : St) (c : Nat) : diff (s.mapV f) c = diff s c := by
  simp [diff]

theorem clean_mapV (f : Nat → Nat) (s : St) (k : Int) : clean (s.mapV f) k = (clean s k).mapV f := by
  simp [clean, St.mapV, List.map_drop]

theorem cleanDefault_mapV (f : Nat → Nat) (s : St) :
    cleanDefault (s.mapV f) = ((cleanDefault s).1.mapV f, (cleanDefault s).2) := by
  simp [cleanDefault, offsets_mapV, clean_mapV]

theorem cleanFixed_mapV (f : Nat → Nat) (s : St) (mx tg : Int) :
    cleanFixed (s.mapV f) mx tg = ((cleanFixed s mx tg).1.mapV f, (cleanFixed s mx tg).2) := by
  simp [cleanFixed, offsets_mapV, clean_mapV]

end BB.Buffer
