/- Counting invariants of the ChanPubSub protocol model: the caster word always equals the number of subscribers
   that still owe a receive-or-remove to the Send in progress, so no state-invariant panic can occur, and pongs
   published = values received (helper for Props/C06, C07). -/
import BB.Proofs.PubSub1
import BB.Proofs.CasterWord

namespace BB.PubSub
open BB.Fun BB.Caster

theorem idleWord0 : idleWord 0 = 0 := by simp [idleWord, pack]
theorem idleWord_pos {n : Nat} (h : 0 < n) : idleWord n ≠ 0 := by unfold idleWord pack W32; omega

/-- sum of `f` over the subscriber records in use -/
def SUM (f : Sub → Nat) (s : St) : Nat := sumTo (fun t => f (s.subs t)) s.nSubs

def cntI (u : Sub) : Nat :=
  if u.pc = .subAdded ∨ u.pc = .idle ∨ u.pc = .got ∨ u.pc = .tryFailed ∨ u.pc = .unsubLocked ∨ u.pc = .sawPing then 1 else 0
def oweI (u : Sub) : Nat := if u.owes then 1 else 0
def absI (u : Sub) : Nat := if u.pc = .absorbing then 1 else 0
def gotI (u : Sub) : Nat := if u.pc = .got then 1 else 0

theorem SUM_same (f : Sub → Nat) {s s' : St} (e1 : s'.subs = s.subs) (e2 : s'.nSubs = s.nSubs) : SUM f s' = SUM f s := by
  unfold SUM; rw [e1, e2]

theorem SUM_set (f : Sub → Nat) {s s' : St} {t : Nat} {u' : Sub} (ht : t < s.nSubs)
    (e1 : s'.subs = upd s.subs t u') (e2 : s'.nSubs = s.nSubs) : SUM f s' + f (s.subs t) = SUM f s + f u' := by
  unfold SUM; rw [e1, e2]
  have := sumTo_change (f := fun v => f (s.subs v)) (g := fun v => f (upd s.subs t u' v)) ht
    (fun k e => by simp only [upd_other _ _ e])
  simp only [upd_same] at this
  exact this

theorem SUM_grow (f : Sub → Nat) {s s' : St} {u' : Sub} (hz : f (s.subs s.nSubs) = 0)
    (e1 : s'.subs = upd s.subs s.nSubs u') (e2 : s'.nSubs = s.nSubs + 1) : SUM f s' = SUM f s + f u' := by
  unfold SUM; rw [e1, e2]
  simp only [sumTo, upd_same]
  congr 1
  apply sumTo_congr
  intro j hj
  have : j ≠ s.nSubs := by omega
  simp only [upd_other _ _ this]

theorem SUM_zero_pt (f : Sub → Nat) {s : St} (hz : SUM f s = 0) (hd : f {} = 0) (h1 : PInv1 s) (t : Nat) : f (s.subs t) = 0 := by
  cases Nat.lt_or_ge t s.nSubs with
  | inl x =>
    have := sumTo_ge_term (fun v => f (s.subs v)) x
    unfold SUM at hz; omega
  | inr x => rw [h1.fresh t x]; exact hd

theorem SUM_pos_pt (f : Sub → Nat) {s : St} {t : Nat} (ht : t < s.nSubs) : f (s.subs t) ≤ SUM f s :=
  sumTo_ge_term (fun v => f (s.subs v)) ht

/-- a sender is between ping.Add and the end of ping.Send's send phase -/
def inA (pc : SPc) : Bool := pc == .added || pc == .loaded || pc == .sending
/-- a sender whose Send has values received but not yet fully acknowledged -/
def inG (pc : SPc) : Bool := pc == .sending || pc == .checked || pc == .released || pc == .ponging

structure PInv2 (s : St) : Prop where
  np        : s.panicked = false
  cntSum    : s.subsCount = SUM cntI s
  cntBound  : s.subsCount ≤ MAXR
  quiet     : (∀ a, inA (s.senders a).pc = false) →
                s.word = 0 ∧ ∀ t, (s.subs t).owes = false ∧ (s.subs t).pc ≠ .sawPing ∧ (s.subs t).pc ≠ .decNoLock ∧ (s.subs t).pc ≠ .absorbing
  pre       : ∀ a, ((s.senders a).pc = .added ∨ (s.senders a).pc = .loaded) →
                s.word = idleWord (SUM oweI s) ∧ SUM oweI s ≤ MAXR ∧ s.delivered = 0 ∧ SUM absI s = 0 ∧ SUM gotI s = 0 ∧ s.pongN = 0
  arm       : ∀ a, (s.senders a).pc = .sending →
                s.word = armedWord (SUM oweI s + s.delivered) ∧ SUM oweI s + SUM absI s + (s.senders a).k = (s.senders a).armedN ∧
                (s.senders a).armedN ≤ MAXR ∧ SUM gotI s = s.delivered ∧ s.pongN = 0 ∧ s.delivered ≤ (s.senders a).k
  owesWhere : ∀ t, (s.subs t).owes = true →
                (s.subs t).pc = .idle ∨ (s.subs t).pc = .tryFailed ∨ (s.subs t).pc = .sawPing ∨ (s.subs t).pc = .decNoLock
  mustOwe   : ∀ t, ((s.subs t).pc = .sawPing ∨ (s.subs t).pc = .decNoLock) → (s.subs t).owes = true
  idleOwes  : (∃ a, inA (s.senders a).pc = true) → ∀ t, ((s.subs t).pc = .idle ∨ (s.subs t).pc = .tryFailed) → (s.subs t).owes = true
  counted   : ∀ a, (s.senders a).pc = .counted → (s.senders a).n = s.subsCount ∧ 0 < (s.senders a).n
  gotIdle   : (∀ a, inG (s.senders a).pc = false) → SUM gotI s = 0 ∧ s.pongN = 0
  chk       : ∀ a, ((s.senders a).pc = .checked ∨ (s.senders a).pc = .released) → SUM gotI s = (s.senders a).sent ∧ s.pongN = 0
  png       : ∀ a, (s.senders a).pc = .ponging → SUM gotI s = s.pongN

theorem pinv2_init : PInv2 sys.init := by
  constructor <;> simp [sys, SUM, sumTo, inA, inG, MAXR]

end BB.PubSub

namespace BB.PubSub
open BB.Fun BB.Caster

theorem inM_of_inA {pc : SPc} (h : inA pc = true) : inM pc = true := by cases pc <;> simp [inA, inM] at h ⊢
theorem inM_of_inG {pc : SPc} (h : inG pc = true) : inM pc = true := by cases pc <;> simp [inG, inM] at h ⊢

/-- a subscriber step that changes none of the four sums, no counter and not the word: only pointwise facts about
    the new record are needed (core form: the sum equalities are supplied) -/
theorem pinv2_sub_core {s s' : St} (h : PInv2 s) (t : Nat) (u' : Sub)
    (e1 : s'.subs = upd s.subs t u') (e3 : s'.panicked = s.panicked) (e4 : s'.senders = s.senders)
    (e5 : s'.word = s.word) (e6 : s'.subsCount = s.subsCount) (e7 : s'.pongN = s.pongN) (e8 : s'.delivered = s.delivered)
    (sC : SUM cntI s' = SUM cntI s) (sO : SUM oweI s' = SUM oweI s) (sA : SUM absI s' = SUM absI s) (sG : SUM gotI s' = SUM gotI s)
    (ho : u'.owes = (s.subs t).owes)
    (p1 : u'.owes = true → u'.pc = .idle ∨ u'.pc = .tryFailed ∨ u'.pc = .sawPing ∨ u'.pc = .decNoLock)
    (p2 : (u'.pc = .sawPing ∨ u'.pc = .decNoLock) → u'.owes = true)
    (p3 : (∃ a, inA (s.senders a).pc = true) → (u'.pc = .idle ∨ u'.pc = .tryFailed) → u'.owes = true)
    (p4 : (∀ a, inA (s.senders a).pc = false) → u'.pc ≠ .sawPing ∧ u'.pc ≠ .decNoLock ∧ u'.pc ≠ .absorbing) : PInv2 s' := by
  have hsub : ∀ v, v ≠ t → s'.subs v = s.subs v := fun v e => by rw [e1]; exact upd_other _ _ e
  have hself : s'.subs t = u' := by rw [e1]; exact upd_same _ _ _
  constructor
  · rw [e3]; exact h.np
  · rw [e6, sC]; exact h.cntSum
  · rw [e6]; exact h.cntBound
  · intro hq
    rw [e4] at hq
    obtain ⟨hw, hp⟩ := h.quiet hq
    refine ⟨by rw [e5]; exact hw, fun v => ?_⟩
    by_cases e : v = t
    · subst e; rw [hself]
      exact ⟨by rw [ho]; exact (hp v).1, p4 hq⟩
    · rw [hsub v e]; exact hp v
  · intro a ha'
    rw [e4] at ha'
    rw [e5, sO, sA, sG, e7, e8]; exact h.pre a ha'
  · intro a ha'
    rw [e4] at ha' ⊢
    rw [e5, sO, sA, sG, e7, e8]; exact h.arm a ha'
  · intro v hv
    by_cases e : v = t
    · subst e; rw [hself] at hv ⊢; exact p1 hv
    · rw [hsub v e] at hv ⊢; exact h.owesWhere v hv
  · intro v hv
    by_cases e : v = t
    · subst e; rw [hself] at hv ⊢; exact p2 hv
    · rw [hsub v e] at hv ⊢; exact h.mustOwe v hv
  · intro hex v hv
    rw [e4] at hex
    by_cases e : v = t
    · subst e; rw [hself] at hv ⊢; exact p3 hex hv
    · rw [hsub v e] at hv ⊢; exact h.idleOwes hex v hv
  · intro a ha'
    rw [e4] at ha' ⊢; rw [e6]; exact h.counted a ha'
  · intro hq
    rw [e4] at hq; rw [sG, e7]; exact h.gotIdle hq
  · intro a ha'
    rw [e4] at ha' ⊢; rw [sG, e7]; exact h.chk a ha'
  · intro a ha'
    rw [e4] at ha'; rw [sG, e7]; exact h.png a ha'

theorem pinv2_sub_neutral {s s' : St} (h : PInv2 s) (t : Nat) (ht : t < s.nSubs) (u' : Sub)
    (e1 : s'.subs = upd s.subs t u') (e2 : s'.nSubs = s.nSubs) (e3 : s'.panicked = s.panicked) (e4 : s'.senders = s.senders)
    (e5 : s'.word = s.word) (e6 : s'.subsCount = s.subsCount) (e7 : s'.pongN = s.pongN) (e8 : s'.delivered = s.delivered)
    (hc : cntI u' = cntI (s.subs t)) (ho : u'.owes = (s.subs t).owes) (ha : absI u' = absI (s.subs t)) (hg : gotI u' = gotI (s.subs t))
    (p1 : u'.owes = true → u'.pc = .idle ∨ u'.pc = .tryFailed ∨ u'.pc = .sawPing ∨ u'.pc = .decNoLock)
    (p2 : (u'.pc = .sawPing ∨ u'.pc = .decNoLock) → u'.owes = true)
    (p3 : (∃ a, inA (s.senders a).pc = true) → (u'.pc = .idle ∨ u'.pc = .tryFailed) → u'.owes = true)
    (p4 : (∀ a, inA (s.senders a).pc = false) → u'.pc ≠ .sawPing ∧ u'.pc ≠ .decNoLock ∧ u'.pc ≠ .absorbing) : PInv2 s' := by
  have sC : SUM cntI s' = SUM cntI s := by have := SUM_set cntI ht e1 e2; omega
  have sO : SUM oweI s' = SUM oweI s := by
    have := SUM_set oweI ht e1 e2
    have : oweI u' = oweI (s.subs t) := by simp only [oweI, ho]
    omega
  have sA : SUM absI s' = SUM absI s := by have := SUM_set absI ht e1 e2; omega
  have sG : SUM gotI s' = SUM gotI s := by have := SUM_set gotI ht e1 e2; omega
  exact pinv2_sub_core h t u' e1 e3 e4 e5 e6 e7 e8 sC sO sA sG ho p1 p2 p3 p4

end BB.PubSub
