/- Liveness of the Exclusive model: a call that has been made is eventually answered, under weak fairness of the
   steps it is waiting for (which includes: work functions return).  Helper for Props/C10. -/
import BB.Proofs.ExclusiveProgress
import BB.Core.Fair

namespace BB.Exclusive
open BB.LTS

/-- the ghost `owner` is the call inside the runner region -/
structure InvO (s : St) : Prop where
  ownR    : ∀ u, inR (s.threads u).pc = true → s.owner = some u
  ownSome : ∀ u, s.owner = some u → inR (s.threads u).pc = true

theorem invO_init : InvO sys.init := by constructor <;> simp [sys, inR]

theorem invO_micro {s s' : St} (h : Inv s) (hO : InvO s) (hm : Micro s s') : InvO s' := by
  -- a micro step that keeps the owner and, for every thread, its membership in the runner region
  have keep : s'.owner = s.owner → (∀ u, inR (s'.threads u).pc = inR (s.threads u).pc) → InvO s' := by
    intro e1 e2
    exact ⟨fun u hu => by rw [e1]; exact hO.ownR u (by rw [← e2]; exact hu), fun u hu => by rw [e2]; exact hO.ownSome u (by rw [← e1]; exact hu)⟩
  cases hm with
  | alloc hm => exact keep rfl (fun _ => rfl)
  | @attach j t fn st hm hidle =>
    refine keep rfl (fun u => ?_)
    by_cases e : u = t
    · subst e; rw [hidle]; rcases attach_self_pc s j u fn st with e | e <;> rw [e] <;> rfl
    · rw [attach_threads_other _ _ _ _ _ e]
  | @deliver t ht _ _ =>
    refine keep rfl (fun u => ?_)
    by_cases e : u = t
    · subst e; have : ((deliverSt s u).threads u).pc = .done := by simp [deliverSt, upd_apply]
      rw [this, ht]; rfl
    · simp [deliverSt, upd_apply, e]
  | @run t ht hr hc =>
    obtain ⟨hnoR, _⟩ := h.waitOk t ht hr hc
    constructor
    · intro u hu
      by_cases e : u = t
      · subst e; rfl
      · simp only [runSt, upd_apply, if_neg e] at hu; rw [hnoR u] at hu; cases hu
    · intro u hu
      simp only [runSt] at hu
      cases hu
      simp [runSt, upd_apply, inR]
  | @swap t ht =>
    refine keep rfl (fun u => ?_)
    by_cases e : u = t
    · subst e; have : ((swapSt s u).threads u).pc = .swapped := by simp [swapSt, upd_apply]
      rw [this, ht]; rfl
    · simp [swapSt, upd_apply, e]
  | @start t ht =>
    refine keep rfl (fun u => ?_)
    by_cases e : u = t
    · subst e; have : ((startSt s u).threads u).pc = .working := by simp [startSt, upd_apply]
      rw [this, ht]; rfl
    · simp [startSt, upd_apply, e]
  | @finish t r pc' ht hc hp =>
    refine keep rfl (fun u => ?_)
    by_cases e : u = t
    · subst e; have : ((finishSt s u r pc').threads u).pc = pc' := by simp [finishSt, upd_apply]
      rw [this, ht]; rcases hp with hp | hp <;> rw [hp] <;> rfl
    · simp [finishSt, upd_apply, e]
  | @ret t ht hc =>
    refine keep rfl (fun u => ?_)
    by_cases e : u = t
    · subst e; have : ((retSt s u).threads u).pc = .returned := by simp [retSt, upd_apply]
      rw [this, ht]; rfl
    · simp [retSt, upd_apply, e]
  | @clear t ht =>
    have htR : inR (s.threads t).pc = true := by simp [ht, inR]
    constructor
    · intro u hu
      by_cases e : u = t
      · subst e; simp [clearSt, upd_apply, inR] at hu
      · simp only [clearSt, upd_apply, if_neg e] at hu
        rw [only_runner h htR e] at hu; cases hu
    · intro u hu; simp [clearSt] at hu

end BB.Exclusive

namespace BB.Exclusive
open BB.LTS

def tblItem : Pc → Nat
  | .running => 5 | .swapped => 4 | .working => 3 | _ => 0
def tblNext : Pc → Nat
  | .swapped => 9 | .working => 8 | .returned => 7 | _ => 0

/-- measure of a call parked on item `j` -/
def muWait (s : St) (j : Nat) : Nat :=
  if (s.items j).running = true then
    match s.owner with
    | none => 0
    | some u => if (s.threads u).item = j then tblItem (s.threads u).pc else tblNext (s.threads u).pc
  else if (s.items j).complete = true then 1 else 6

/-- the number of helpful steps (at most) that separate call `t` from its answer -/
def mu (t : Nat) (s : St) : Nat :=
  match (s.threads t).pc with
  | .waiting => muWait s (s.threads t).item
  | .running => 5 | .swapped => 4 | .working => 3 | .returned => 2
  | _ => 0

structure LI (t : Nat) (s : St) : Prop where
  inv : Inv s
  invC : InvC s
  invO : InvO s
  made : (s.threads t).pc ≠ .idle

/-- who is responsible for a running item -/
theorem running_owner {s : St} (h : Inv s) (hC : InvC s) (hO : InvO s) {j : Nat} (hr : (s.items j).running = true) :
    ∃ u, s.owner = some u ∧
      (((s.threads u).item = j ∧ ((s.threads u).pc = .running ∨ (s.threads u).pc = .swapped ∨ (s.threads u).pc = .working)) ∨
       ((s.threads u).item ≠ j ∧ (s.threads u).next = j ∧ past (s.threads u).pc)) := by
  obtain ⟨u, hu⟩ := hC.runningOwner j hr
  rcases hu with ⟨hR, hi⟩ | ⟨hp, hn⟩
  · refine ⟨u, hO.ownR u hR, Or.inl ⟨hi, ?_⟩⟩
    cases hpc : (s.threads u).pc <;> simp [hpc, inR] at hR ⊢
    -- returned: the item would be complete, hence not running
    have := hC.completeNotRunning _ (hC.returnedComplete u hpc)
    rw [hi, hr] at this; cases this
  · exact ⟨u, hO.ownR u (inR_of_past hp), Or.inr ⟨by rw [← hn]; exact (h.succMap u hp).2.2.2.1, hn, hp⟩⟩

theorem owner_unique {s : St} (h : Inv s) (hO : InvO s) {u v : Nat} (hu : s.owner = some u) (hv : inR (s.threads v).pc = true) : v = u := by
  have := hO.ownR v hv; rw [hu] at this; exact (Option.some.inj this).symm

theorem muWait_free {s : St} {j : Nat} (hr : (s.items j).running = false) :
    muWait s j = if (s.items j).complete = true then 1 else 6 := by
  simp [muWait, hr]

theorem muWait_item {s : St} {j u : Nat} (hr : (s.items j).running = true) (ho : s.owner = some u) (hi : (s.threads u).item = j) :
    muWait s j = tblItem (s.threads u).pc := by simp [muWait, hr, ho, hi]

theorem muWait_next {s : St} {j u : Nat} (hr : (s.items j).running = true) (ho : s.owner = some u) (hi : (s.threads u).item ≠ j) :
    muWait s j = tblNext (s.threads u).pc := by simp [muWait, hr, ho, hi]

end BB.Exclusive

namespace BB.Exclusive
open BB.LTS

theorem tblItem_le (pc : Pc) : tblItem pc ≤ 5 := by cases pc <;> simp [tblItem]

/-- the owner of the runner region takes a step that changes its program counter -/
def ownerMoved (s s' : St) : Prop := ∀ u, s.owner = some u → (s'.threads u).pc ≠ (s.threads u).pc

/-- the measure of item `j` does not grow, and shrinks when the item is running and its owner moves -/
def Dec (s s' : St) (j : Nat) : Prop :=
  muWait s' j ≤ muWait s j ∧ ((s.items j).running = true → ownerMoved s s' → muWait s' j < muWait s j)

theorem dec_of_free {s s' : St} {j : Nat} (hrj : (s.items j).running = false) (hle : muWait s' j ≤ muWait s j) : Dec s s' j :=
  ⟨hle, fun h => by rw [hrj] at h; cases h⟩

theorem dec_of_lt {s s' : St} {j : Nat} (h : muWait s' j < muWait s j) : Dec s s' j := ⟨Nat.le_of_lt h, fun _ _ => h⟩

theorem dec_of_same {s s' : St} {j : Nat} (h : Inv s) (hC : InvC s) (hO : InvO s) (hle : muWait s' j ≤ muWait s j)
    (hsame : ∀ u, s.owner = some u → s'.threads u = s.threads u) : Dec s s' j := by
  refine ⟨hle, fun hr hmv => ?_⟩
  obtain ⟨u, ho, _⟩ := running_owner h hC hO hr
  exact absurd (by rw [hsame u ho]) (hmv u ho)

/-- no micro step increases the measure of an allocated item; the step of the owner of a running item decreases it -/
theorem muWait_micro {s s' : St} (h : Inv s) (hC : InvC s) (hO : InvO s) (hm : Micro s s') {j : Nat} (hj : j < s.nItems) :
    Dec s s' j := by
  cases hm with
  | alloc hm =>
    have e : j ≠ s.nItems := by omega
    have : (alloc s).items j = s.items j := by simp [upd_apply, e]
    refine dec_of_same h hC hO ?_ (fun _ _ => rfl)
    simp only [muWait, this]; exact Nat.le_refl _
  | @attach j0 u fn st hm hidle =>
    have hr := attach_items_running s j0 u fn st j
    have hc := attach_items_complete s j0 u fn st j
    have hth : ∀ o, s.owner = some o → (attach s j0 u fn st).threads o = s.threads o := by
      intro o ho
      have : o ≠ u := by intro e; subst e; have := hO.ownSome o ho; rw [hidle] at this; cases this
      exact attach_threads_other _ _ _ _ _ this
    have hown : (attach s j0 u fn st).owner = s.owner := rfl
    refine dec_of_same h hC hO ?_ hth
    unfold muWait
    rw [hr, hc, hown]
    cases ho : s.owner with
    | none => exact Nat.le_refl _
    | some o => simp only [hth o ho]; exact Nat.le_refl _
  | @deliver u hu _ _ =>
    have hth : ∀ o, s.owner = some o → (deliverSt s u).threads o = s.threads o := by
      intro o ho
      have : o ≠ u := by intro e; subst e; have := hO.ownSome o ho; rw [hu] at this; cases this
      simp [deliverSt, upd_apply, this]
    have hitems : (deliverSt s u).items = s.items := rfl
    have hown : (deliverSt s u).owner = s.owner := rfl
    refine dec_of_same h hC hO ?_ hth
    unfold muWait
    rw [hitems, hown]
    cases ho : s.owner with
    | none => exact Nat.le_refl _
    | some o => simp only [hth o ho]; exact Nat.le_refl _
  | @run u hu hr hc =>
    obtain ⟨hnoR, hmp⟩ := h.waitOk u hu hr hc
    have hown : s.owner = none := by
      cases ho : s.owner with
      | none => rfl
      | some o => have := hO.ownSome o ho; rw [hnoR o] at this; cases this
    by_cases e : j = (s.threads u).item
    · subst e
      have h1 : muWait s (s.threads u).item = 6 := by rw [muWait_free hr]; simp [hc]
      have h2 : muWait (runSt s u) (s.threads u).item = 5 := by
        simp [muWait, runSt, upd_apply, tblItem]
      exact dec_of_lt (by omega)
    · -- another item: it cannot be running (nobody owns anything)
      have hrj : (s.items j).running = false := by
        cases hrr : (s.items j).running with
        | false => rfl
        | true => obtain ⟨o, ho, _⟩ := running_owner h hC hO hrr; rw [hown] at ho; cases ho
      have hitem : (runSt s u).items j = s.items j := by simp [runSt, upd_apply, e]
      have h1 := muWait_free (s := s) hrj
      have h2 : muWait (runSt s u) j = if (s.items j).complete = true then 1 else 6 := by
        rw [muWait_free (by rw [hitem]; exact hrj), hitem]
      exact dec_of_free hrj (by omega)
  | @swap u hu =>
    have huR : inR (s.threads u).pc = true := by simp [hu, inR]
    have hown := hO.ownR u huR
    have e : j ≠ s.nItems := by omega
    have hitem : (swapSt s u).items j = s.items j := by simp [swapSt, upd_apply, e]
    have hown' : (swapSt s u).owner = some u := hown
    have hthu : (swapSt s u).threads u = { s.threads u with pc := .swapped, next := s.nItems } := by simp [swapSt, upd_apply]
    cases hrj : (s.items j).running with
    | false =>
      refine dec_of_free hrj ?_
      rw [muWait_free hrj, muWait_free (by rw [hitem]; exact hrj), hitem]; exact Nat.le_refl _
    | true =>
      obtain ⟨o, ho, hcase⟩ := running_owner h hC hO hrj
      have : o = u := by rw [hown] at ho; exact (Option.some.inj ho).symm
      subst this
      rcases hcase with ⟨hi, _⟩ | ⟨_, _, hp⟩
      · refine dec_of_lt ?_
        rw [muWait_item hrj hown hi, hu, muWait_item (by rw [hitem]; exact hrj) hown' (by rw [hthu]; exact hi), hthu]
        simp [tblItem]
      · rcases hp with p | p | p <;> rw [hu] at p <;> cases p
  | @start u hu =>
    have huR : inR (s.threads u).pc = true := by simp [hu, inR]
    have hown := hO.ownR u huR
    have hrun : ((startSt s u).items j).running = (s.items j).running := by
      by_cases e : j = (s.threads u).item
      · subst e; simp [startSt, upd_apply]
      · simp [startSt, upd_apply, e]
    have hcomp : ((startSt s u).items j).complete = (s.items j).complete := by
      by_cases e : j = (s.threads u).item
      · subst e; simp [startSt, upd_apply]
      · simp [startSt, upd_apply, e]
    have hown' : (startSt s u).owner = some u := hown
    have hthu : (startSt s u).threads u = { s.threads u with pc := .working } := by simp [startSt, upd_apply]
    cases hrj : (s.items j).running with
    | false =>
      refine dec_of_free hrj ?_
      rw [muWait_free hrj, muWait_free (by rw [hrun]; exact hrj), hcomp]; exact Nat.le_refl _
    | true =>
      obtain ⟨o, ho, hcase⟩ := running_owner h hC hO hrj
      have : o = u := by rw [hown] at ho; exact (Option.some.inj ho).symm
      subst this
      refine dec_of_lt ?_
      rcases hcase with ⟨hi, _⟩ | ⟨hi, _, _⟩
      · rw [muWait_item hrj hown hi, hu, muWait_item (by rw [hrun]; exact hrj) hown' (by rw [hthu]; exact hi), hthu]
        simp [tblItem]
      · rw [muWait_next hrj hown hi, hu, muWait_next (by rw [hrun]; exact hrj) hown' (by rw [hthu]; exact hi), hthu]
        simp [tblNext]
  | @finish u r pc' hu hc hp =>
    have huR : inR (s.threads u).pc = true := by simp [hu, inR]
    have hown := hO.ownR u huR
    have hown' : (finishSt s u r pc').owner = some u := hown
    have hthu : (finishSt s u r pc').threads u = { s.threads u with pc := pc', outcome := if (s.threads u).start then none else some r } := by
      simp [finishSt, upd_apply]
    by_cases e : j = (s.threads u).item
    · subst e
      have h2 : muWait (finishSt s u r pc') (s.threads u).item = 1 := by simp [muWait, finishSt, upd_apply]
      cases hrj : (s.items (s.threads u).item).running with
      | false =>
        refine dec_of_free hrj ?_
        rw [h2, muWait_free hrj]; simp [hc]
      | true =>
        refine dec_of_lt ?_
        rw [h2, muWait_item hrj hown rfl, hu]; simp [tblItem]
    · have hitem : (finishSt s u r pc').items j = s.items j := by simp [finishSt, upd_apply, e]
      cases hrj : (s.items j).running with
      | false =>
        refine dec_of_free hrj ?_
        rw [muWait_free hrj, muWait_free (by rw [hitem]; exact hrj), hitem]; exact Nat.le_refl _
      | true =>
        have hne : (s.threads u).item ≠ j := fun e' => e e'.symm
        have e1 := muWait_next hrj hown hne
        have e2 := muWait_next (s := finishSt s u r pc') (by rw [hitem]; exact hrj) hown' (by rw [hthu]; exact hne)
        rw [hu] at e1; rw [hthu] at e2
        rcases hp with p | p
        · subst p
          refine ⟨by rw [e1, e2]; exact Nat.le_refl _, fun _ hmv => ?_⟩
          exact absurd (by rw [hthu, hu]) (hmv u hown)
        · subst p
          refine dec_of_lt ?_
          rw [e1, e2]; simp [tblNext]
  | @ret u hu hc =>
    have huR : inR (s.threads u).pc = true := by simp [hu, inR]
    have hown := hO.ownR u huR
    have hown' : (retSt s u).owner = some u := hown
    have hitems : (retSt s u).items = s.items := rfl
    have hthu : (retSt s u).threads u = { s.threads u with pc := .returned } := by simp [retSt, upd_apply]
    cases hrj : (s.items j).running with
    | false =>
      refine dec_of_free hrj ?_
      rw [muWait_free hrj, muWait_free (by rw [hitems]; exact hrj), hitems]; exact Nat.le_refl _
    | true =>
      have hne : (s.threads u).item ≠ j := by
        intro e; subst e
        have := hC.completeNotRunning _ hc; rw [hrj] at this; cases this
      refine dec_of_lt ?_
      rw [muWait_next hrj hown hne, hu, muWait_next (by rw [hitems]; exact hrj) hown' (by rw [hthu]; exact hne), hthu]
      simp [tblNext]
  | @clear u hu =>
    have huR : inR (s.threads u).pc = true := by simp [hu, inR]
    have hown := hO.ownR u huR
    have hsm := h.succMap u (Or.inr (Or.inr hu))
    by_cases e : j = (s.threads u).next
    · subst e
      have h1 : muWait s (s.threads u).next = 7 := by
        rw [muWait_next hsm.2.1 hown hsm.2.2.2.1, hu]; rfl
      have h2 : muWait (clearSt s u) (s.threads u).next = 6 := by
        simp [muWait, clearSt, upd_apply, hsm.2.2.1]
      exact dec_of_lt (by omega)
    · have hitem : (clearSt s u).items j = s.items j := by simp [clearSt, upd_apply, e]
      have hrj : (s.items j).running = false := by
        cases hrr : (s.items j).running with
        | false => rfl
        | true =>
          obtain ⟨o, ho, hcase⟩ := running_owner h hC hO hrr
          have : o = u := by rw [hown] at ho; exact (Option.some.inj ho).symm
          subst this
          rcases hcase with ⟨hi, _⟩ | ⟨_, hn, _⟩
          · have := hC.completeNotRunning _ (hC.returnedComplete o hu); rw [hi, hrr] at this; cases this
          · exact absurd hn.symm e
      refine dec_of_free hrj ?_
      rw [muWait_free hrj, muWait_free (by rw [hitem]; exact hrj), hitem]; exact Nat.le_refl _

end BB.Exclusive

namespace BB.Exclusive
open BB.LTS

/-- the program-counter transitions a micro step can make -/
def trans (s : St) (t : Nat) : Pc → Pc → Prop
  | .idle, q => q = .waiting ∨ q = .done
  | .waiting, q => q = .done ∨ (q = .running ∧ (s.items (s.threads t).item).running = false ∧ (s.items (s.threads t).item).complete = false)
  | .running, q => q = .swapped
  | .swapped, q => q = .working
  | .working, q => q = .working ∨ q = .returned
  | .returned, q => q = .done
  | .done, _ => False

theorem micro_pc {s s' : St} (hm : Micro s s') (t : Nat) :
    s'.threads t = s.threads t ∨ trans s t (s.threads t).pc (s'.threads t).pc := by
  cases hm with
  | alloc hm => exact Or.inl rfl
  | @attach j u fn st hm hidle =>
    by_cases e : t = u
    · subst e; right; rw [hidle]; exact attach_self_pc s j t fn st
    · left; exact attach_threads_other _ _ _ _ _ e
  | @deliver u hu _ _ =>
    by_cases e : t = u
    · subst e; right; rw [hu]; left; simp [deliverSt, upd_apply]
    · left; simp [deliverSt, upd_apply, e]
  | @run u hu hr hc =>
    by_cases e : t = u
    · subst e; right; rw [hu]; right; exact ⟨by simp [runSt, upd_apply], hr, hc⟩
    · left; simp [runSt, upd_apply, e]
  | @swap u hu =>
    by_cases e : t = u
    · subst e; right; rw [hu]; simp [trans, swapSt, upd_apply]
    · left; simp [swapSt, upd_apply, e]
  | @start u hu =>
    by_cases e : t = u
    · subst e; right; rw [hu]; simp [trans, startSt, upd_apply]
    · left; simp [startSt, upd_apply, e]
  | @finish u r pc' hu hc hp =>
    by_cases e : t = u
    · subst e; right; rw [hu]; simpa [trans, finishSt, upd_apply] using hp
    · left; simp [finishSt, upd_apply, e]
  | @ret u hu hc =>
    by_cases e : t = u
    · subst e; right; rw [hu]; simp [trans, retSt, upd_apply]
    · left; simp [retSt, upd_apply, e]
  | @clear u hu =>
    by_cases e : t = u
    · subst e; right; rw [hu]; simp [trans, clearSt, upd_apply]
    · left; simp [clearSt, upd_apply, e]

def answered (t : Nat) (s : St) : Prop := (s.threads t).pc = .done

theorem mu_waiting {s : St} {t : Nat} (hp : (s.threads t).pc = .waiting) : mu t s = muWait s (s.threads t).item := by
  simp [mu, hp]

/-- no micro step increases the measure of a call that has been made -/
theorem mu_micro {s s' : St} {t : Nat} (hL : LI t s) (hm : Micro s s') : answered t s' ∨ mu t s' ≤ mu t s := by
  rcases micro_pc hm t with e | htr
  · -- the call itself did not move
    cases hp : (s.threads t).pc with
    | waiting =>
      right
      have hj := hL.inv.bounded t hL.made
      have hp' : (s'.threads t).pc = .waiting := by rw [e]; exact hp
      rw [mu_waiting hp, mu_waiting hp', e]
      exact (muWait_micro hL.inv hL.invC hL.invO hm hj).1
    | idle => exact absurd hp hL.made
    | done => left; unfold answered; rw [e]; exact hp
    | running => right; simp [mu, e, hp]
    | swapped => right; simp [mu, e, hp]
    | working => right; simp [mu, e, hp]
    | returned => right; simp [mu, e, hp]
  · cases hp : (s.threads t).pc with
    | idle => exact absurd hp hL.made
    | done => rw [hp] at htr; cases htr
    | waiting =>
      rw [hp] at htr
      rcases htr with h1 | ⟨h1, hr, hc⟩
      · left; exact h1
      · right
        rw [mu_waiting hp, muWait_free hr]
        simp [mu, h1, hc]
    | running => rw [hp] at htr; right; simp [trans] at htr; simp [mu, hp, htr]
    | swapped => rw [hp] at htr; right; simp [trans] at htr; simp [mu, hp, htr]
    | working => rw [hp] at htr; right; rcases htr with h1 | h1 <;> simp [mu, hp, h1]
    | returned => rw [hp] at htr; left; exact htr

/-- the next step of a call -/
def nextAct (s : St) (u : Nat) : Act :=
  match (s.threads u).pc with
  | .running => .swap u
  | .swapped => .startWork u
  | .working => .workReturn u
  | .returned => .clearNext u
  | _ => .wake u

/-- whose step call `t` is waiting for: its own, or — parked on a running item — that of the item's owner -/
def helper (t : Nat) (s : St) : Nat :=
  if (s.threads t).pc = .waiting ∧ (s.items (s.threads t).item).running = true then s.owner.getD t else t

/-- the helpful step for call `t` -/
def helpful (t : Nat) (s : St) (a : Act) : Prop := a = nextAct s (helper t s)

theorem nextAct_enabled {s : St} {u : Nat} (h1 : (s.threads u).pc ≠ .idle) (h2 : (s.threads u).pc ≠ .done) :
    enabled sys s (nextAct s u) := by
  unfold enabled nextAct
  cases hp : (s.threads u).pc <;> simp [sys, step, hp] at h1 h2 ⊢
  split <;> simp

end BB.Exclusive

namespace BB.Exclusive
open BB.LTS

/-- the next step of a call that is not parked on a running item is a micro step that moves the call -/
theorem nextAct_micro {s s' : St} {u : Nat} (h1 : (s.threads u).pc ≠ .idle) (h2 : (s.threads u).pc ≠ .done)
    (h3 : (s.threads u).pc = .waiting → (s.items (s.threads u).item).running = false)
    (hs : sys.step s (nextAct s u) = some s') : Micro s s' ∧ (s'.threads u).pc ≠ (s.threads u).pc := by
  unfold nextAct at hs
  cases hp : (s.threads u).pc with
  | idle => exact absurd hp h1
  | done => exact absurd hp h2
  | waiting =>
    have hr := h3 hp
    simp only [hp, sys, step, ↓reduceIte, enter, hr] at hs
    cases hc : (s.items (s.threads u).item).complete with
    | true =>
      simp only [hc, ↓reduceIte, Bool.false_eq_true] at hs; cases hs
      exact ⟨.deliver hp hr hc, by simp [deliverSt, upd_apply]⟩
    | false =>
      simp only [hc, ↓reduceIte, Bool.false_eq_true] at hs; cases hs
      exact ⟨.run hp hr hc, by simp [runSt, upd_apply]⟩
  | running =>
    simp only [hp, sys, step, ↓reduceIte] at hs; cases hs
    exact ⟨.swap hp, by simp [swapSt, upd_apply]⟩
  | swapped =>
    simp only [hp, sys, step, ↓reduceIte] at hs; cases hs
    exact ⟨.start hp, by simp [startSt, upd_apply]⟩
  | working =>
    simp only [hp, sys, step, ↓reduceIte] at hs
    cases hc : (s.items (s.threads u).item).complete with
    | true =>
      simp only [hc, ↓reduceIte] at hs; cases hs
      exact ⟨.ret hp hc, by simp [retSt, upd_apply]⟩
    | false =>
      simp only [hc, ↓reduceIte, Bool.false_eq_true] at hs; cases hs
      exact ⟨.finish 0 .returned hp hc (Or.inr rfl), by simp [finishSt, upd_apply]⟩
  | returned =>
    simp only [hp, sys, step, ↓reduceIte] at hs; cases hs
    exact ⟨.clear hp, by simp [clearSt, upd_apply]⟩

/-- a micro step that moves call `t` brings it closer to its answer -/
theorem mu_moved {s s' : St} {t : Nat} (hL : LI t s) (hm : Micro s s') (hne : (s'.threads t).pc ≠ (s.threads t).pc) :
    answered t s' ∨ mu t s' < mu t s := by
  rcases micro_pc hm t with e | htr
  · exact absurd (by rw [e]) hne
  · cases hp : (s.threads t).pc with
    | idle => exact absurd hp hL.made
    | done => rw [hp] at htr; cases htr
    | waiting =>
      rw [hp] at htr
      rcases htr with h1 | ⟨h1, hr, hc⟩
      · left; exact h1
      · right
        rw [mu_waiting hp, muWait_free hr]
        simp [mu, h1, hc]
    | running => rw [hp] at htr; right; simp [trans] at htr; simp [mu, hp, htr]
    | swapped => rw [hp] at htr; right; simp [trans] at htr; simp [mu, hp, htr]
    | working =>
      rw [hp] at htr hne; right
      rcases htr with h1 | h1
      · exact absurd h1 hne
      · simp [mu, hp, h1]
    | returned => rw [hp] at htr; left; exact htr

end BB.Exclusive

namespace BB.Exclusive
open BB.LTS

theorem invO_reach : ∀ s, Reach sys s → InvO s :=
  micro_invariant2 InvO invO_init (fun _ _ h hO hm => invO_micro h hO hm)

/-- while call `t` is unanswered its helpful step is enabled -/
theorem helpful_enabled {s : St} {t : Nat} (hL : LI t s) (hnG : ¬ answered t s) :
    ∃ a, helpful t s a ∧ enabled sys s a := by
  refine ⟨_, rfl, ?_⟩
  unfold helper
  split
  · rename_i hw
    obtain ⟨u, ho, hcase⟩ := running_owner hL.inv hL.invC hL.invO hw.2
    have hR := hL.invO.ownSome u ho
    rw [ho]; simp only [Option.getD_some]
    exact nextAct_enabled (not_idle_of_inR hR) (by intro e; rw [e] at hR; cases hR)
  · exact nextAct_enabled hL.made hnG

/-- no step increases the measure -/
theorem mu_step {s s' : St} {a : Act} {t : Nat} (hL : LI t s) (hs : sys.step s a = some s') :
    answered t s' ∨ mu t s' ≤ mu t s := by
  rcases step_micro' hL.inv hs with e | ⟨hm, _⟩ | ⟨t0, fn, st, hmap, hidle, e⟩
  · right; rw [e]; exact Nat.le_refl _
  · exact mu_micro hL hm
  · -- the first call of an empty map: nobody is inside the runner region, no item is running
    right
    have hne : t ≠ t0 := fun e' => hL.made (e' ▸ hidle)
    have hth : s'.threads t = s.threads t := by rw [e, attach_threads_other _ _ _ _ _ hne]; rfl
    cases hp : (s.threads t).pc with
    | waiting =>
      have hj := hL.inv.bounded t hL.made
      have hp' : (s'.threads t).pc = .waiting := by rw [hth]; exact hp
      have hnoR := no_runner_of_no_map hL.inv hmap
      have hrj : ∀ k, (s.items k).running = false := by
        intro k
        cases hrr : (s.items k).running with
        | false => rfl
        | true =>
          obtain ⟨o, ho, _⟩ := running_owner hL.inv hL.invC hL.invO hrr
          have := hL.invO.ownSome o ho; rw [hnoR o] at this; cases this
      have hitem : ∀ k, k < s.nItems → (s'.items k).running = (s.items k).running ∧ (s'.items k).complete = (s.items k).complete := by
        intro k hk
        have e' : k ≠ s.nItems := by omega
        rw [e, attach_items_running, attach_items_complete]; simp [alloc, upd_apply, e']
      rw [mu_waiting hp, mu_waiting hp', hth]
      have := hitem _ hj
      rw [muWait_free (hrj _), muWait_free (by rw [this.1]; exact hrj _), this.2]
      exact Nat.le_refl _
    | idle => exact absurd hp hL.made
    | done => simp [mu, hth, hp]
    | running => simp [mu, hth, hp]
    | swapped => simp [mu, hth, hp]
    | working => simp [mu, hth, hp]
    | returned => simp [mu, hth, hp]

/-- the helpful step decreases the measure (or answers the call) -/
theorem mu_helpful {s s' : St} {a : Act} {t : Nat} (hL : LI t s) (hnG : ¬ answered t s) (hH : helpful t s a)
    (hs : sys.step s a = some s') : answered t s' ∨ mu t s' < mu t s := by
  unfold helpful helper at hH
  split at hH
  · rename_i hw
    obtain ⟨hp, hr⟩ := hw
    obtain ⟨u, ho, hcase⟩ := running_owner hL.inv hL.invC hL.invO hr
    have hR := hL.invO.ownSome u ho
    rw [ho] at hH; simp only [Option.getD_some] at hH
    subst hH
    have hwu : (s.threads u).pc ≠ .waiting := by intro e; rw [e] at hR; cases hR
    obtain ⟨hm, hmv⟩ := nextAct_micro (not_idle_of_inR hR) (by intro e; rw [e] at hR; cases hR) (fun e => absurd e hwu) hs
    have hj := hL.inv.bounded t hL.made
    have hdec := (muWait_micro hL.inv hL.invC hL.invO hm hj).2 hr
      (fun v hv => by rw [ho] at hv; cases hv; exact hmv)
    rcases micro_pc hm t with e | htr
    · right
      have hp' : (s'.threads t).pc = .waiting := by rw [e]; exact hp
      rw [mu_waiting hp, mu_waiting hp', e]; exact hdec
    · rw [hp] at htr
      rcases htr with h1 | ⟨_, hr', _⟩
      · left; exact h1
      · rw [hr] at hr'; cases hr'
  · rename_i hw
    subst hH
    have h3 : (s.threads t).pc = .waiting → (s.items (s.threads t).item).running = false := by
      intro hp
      cases hrr : (s.items (s.threads t).item).running with
      | false => rfl
      | true => exact absurd ⟨hp, hrr⟩ hw
    obtain ⟨hm, hmv⟩ := nextAct_micro hL.made hnG h3 hs
    exact mu_moved hL hm hmv

/-- **Every call is answered.**  Along a run in which the step a call is waiting for (its own next step, or the
    next step of the call that owns the item it is parked on; "the work function returns" is such a step) is not
    neglected for ever, a call that has been made eventually ends: with its outcome, by `done_calls_answered`. -/
theorem call_leadsTo_done (t : Nat) (r : Run sys) (hfair : WeakFair sys (helpful t) r)
    (i : Nat) (hmade : ((r.st i).threads t).pc ≠ .idle) :
    ∃ j, i ≤ j ∧ ((r.st j).threads t).pc = .done := by
  -- shift the run: from `i` on the call is made in every state
  have made : ∀ k, ((r.st (i + k)).threads t).pc ≠ .idle := by
    intro k
    induction k with
    | zero => exact hmade
    | succ k ih =>
      have hn := r.next (i + k)
      have hI := inv_reach _ (run_reach sys r (i + k))
      cases ha : r.act (i + k) with
      | none => simp only [ha] at hn; rw [show i + (k + 1) = i + k + 1 by omega, hn]; exact ih
      | some a =>
        simp only [ha] at hn
        rw [show i + (k + 1) = i + k + 1 by omega]
        rcases step_micro hn with e | h1 | ⟨m, h1, h2⟩
        · rw [e]; exact ih
        · exact (micro_thread_frame h1 t ih).2.2.2.2
        · exact (micro_thread_frame h2 t (micro_thread_frame h1 t ih).2.2.2.2).2.2.2.2
  -- the rule, with "the call is made" folded into the goal for the states before `i`
  have key := leadsTo sys (helpful t) r
    (fun s => Inv s ∧ InvC s ∧ InvO s) (fun s => (s.threads t).pc = .idle ∨ answered t s) (mu t) hfair
    (fun k => ⟨inv_reach _ (run_reach sys r k), invC_reach _ (run_reach sys r k), invO_reach _ (run_reach sys r k)⟩)
    (fun s hI hnG => helpful_enabled ⟨hI.1, hI.2.1, hI.2.2, fun e => hnG (Or.inl e)⟩ (fun e => hnG (Or.inr e)))
    (fun s a s' hI hnG hs => by
      rcases mu_step ⟨hI.1, hI.2.1, hI.2.2, fun e => hnG (Or.inl e)⟩ hs with h | h
      · exact Or.inl (Or.inr h)
      · exact Or.inr h)
    (fun s a s' hI hnG hH hs => by
      rcases mu_helpful ⟨hI.1, hI.2.1, hI.2.2, fun e => hnG (Or.inl e)⟩ (fun e => hnG (Or.inr e)) hH hs with h | h
      · exact Or.inl (Or.inr h)
      · exact Or.inr h)
  obtain ⟨j, hj, hg⟩ := key i
  rcases hg with hg | hg
  · exact absurd hg (by have := made (j - i); rwa [show i + (j - i) = j by omega] at this)
  · exact ⟨j, hj, hg⟩

end BB.Exclusive
