/- Structural invariants of the ChanPubSub protocol model: who holds sendMu / sendingMu (helper for Props/C06, C07). -/
import BB.Model.PubSub

namespace BB.PubSub
open BB.Fun

/-- the sender holds sendMu -/
def inM (pc : SPc) : Bool :=
  pc == .wantSending || pc == .holding || pc == .counted || pc == .added || pc == .loaded || pc == .sending ||
  pc == .checked || pc == .released || pc == .ponging || pc == .unlocking
/-- the sender holds sendingMu (write) -/
def inW (pc : SPc) : Bool :=
  pc == .holding || pc == .counted || pc == .added || pc == .loaded || pc == .sending || pc == .checked
/-- the subscriber is inside a read-locked section of sendingMu -/
def inRd (pc : UPc) : Bool := pc == .subRlocked || pc == .subAdded || pc == .unsubLocked || pc == .unsubDec

theorem inM_of_inW {pc : SPc} (h : inW pc = true) : inM pc = true := by
  cases pc <;> simp [inW, inM] at h ⊢

structure PInv1 (s : St) : Prop where
  singleM : ∀ a b, inM (s.senders a).pc = true → inM (s.senders b).pc = true → a = b
  muOf    : ∀ a, inM (s.senders a).pc = true → s.sendMu = true
  muEx    : s.sendMu = true → ∃ a, inM (s.senders a).pc = true
  wOf     : ∀ a, inW (s.senders a).pc = true → s.sendingW = true
  wEx     : s.sendingW = true → ∃ a, inW (s.senders a).pc = true
  noRd    : s.sendingW = true → ∀ t, inRd (s.subs t).pc = false
  fresh   : ∀ t, s.nSubs ≤ t → s.subs t = {}

theorem pinv1_init : PInv1 sys.init := by
  constructor <;> simp [sys, inM, inW, inRd]

theorem noReaders_spec {s : St} (h : noReaders s = true) (t : Nat) (ht : t < s.nSubs) : inRd (s.subs t).pc = false := by
  unfold noReaders at h
  rw [List.all_eq_true] at h
  have := h t (List.mem_range.mpr ht)
  simp only [Bool.and_eq_true, bne_iff_ne, ne_eq] at this
  cases hp : (s.subs t).pc <;> simp [inRd, hp] at this ⊢

/-- only the fields PInv1 mentions matter -/
theorem pinv1_congr {s s' : St} (h : PInv1 s) (e1 : s'.subs = s.subs) (e2 : s'.senders = s.senders)
    (e3 : s'.sendMu = s.sendMu) (e4 : s'.sendingW = s.sendingW) (e5 : s'.nSubs = s.nSubs) : PInv1 s' := by
  constructor
  · rw [e2]; exact h.singleM
  · rw [e2, e3]; exact h.muOf
  · rw [e2, e3]; exact h.muEx
  · rw [e2, e4]; exact h.wOf
  · rw [e2, e4]; exact h.wEx
  · rw [e1, e4]; exact h.noRd
  · rw [e1, e5]; exact h.fresh

/-- a subscriber step: its record changes; it is not fresh; it does not enter a read section while a Send holds the lock -/
theorem pinv1_setSub {s : St} (h : PInv1 s) (t : Nat) (u' : Sub) (n' : Nat)
    (hn : n' = s.nSubs ∨ (t = s.nSubs ∧ n' = s.nSubs + 1)) (ht : t < n')
    (hrd : s.sendingW = true → inRd u'.pc = false) : PInv1 { setSub s t u' with nSubs := n' } := by
  constructor
  · exact h.singleM
  · exact h.muOf
  · exact h.muEx
  · exact h.wOf
  · exact h.wEx
  · intro hw v
    by_cases e : v = t
    · subst e; simp only [setSub, upd_same]; exact hrd hw
    · simp only [setSub, upd_other _ _ e]; exact h.noRd hw v
  · intro v hv
    simp only at hv
    have : v ≠ t := by omega
    simp only [setSub, upd_other _ _ this]
    exact h.fresh v (by rcases hn with e | ⟨_, e⟩ <;> omega)

/-- a sender moves between two pcs with the same lock status -/
theorem pinv1_setSender_same {s : St} (h : PInv1 s) (a : Nat) (x' : Sender)
    (hM : inM x'.pc = inM (s.senders a).pc) (hW : inW x'.pc = inW (s.senders a).pc) : PInv1 (setSender s a x') := by
  have hsen : ∀ b, b ≠ a → (setSender s a x').senders b = s.senders b := fun b e => upd_other _ _ e
  have hself : (setSender s a x').senders a = x' := upd_same _ _ _
  have pcM : ∀ b, inM ((setSender s a x').senders b).pc = inM (s.senders b).pc := by
    intro b; by_cases e : b = a
    · subst e; rw [hself, hM]
    · rw [hsen b e]
  have pcW : ∀ b, inW ((setSender s a x').senders b).pc = inW (s.senders b).pc := by
    intro b; by_cases e : b = a
    · subst e; rw [hself, hW]
    · rw [hsen b e]
  constructor
  · intro b c hb hc; rw [pcM] at hb hc; exact h.singleM b c hb hc
  · intro b hb; rw [pcM] at hb; exact h.muOf b hb
  · intro hm; obtain ⟨b, hb⟩ := h.muEx hm; exact ⟨b, by rw [pcM]; exact hb⟩
  · intro b hb; rw [pcW] at hb; exact h.wOf b hb
  · intro hw; obtain ⟨b, hb⟩ := h.wEx hw; exact ⟨b, by rw [pcW]; exact hb⟩
  · exact h.noRd
  · exact h.fresh

theorem only_M {s : St} (h : PInv1 s) {a : Nat} (ha : inM (s.senders a).pc = true) {b : Nat} (e : b ≠ a) :
    inM (s.senders b).pc = false := by
  cases hb : inM (s.senders b).pc with
  | false => rfl
  | true => exact absurd (h.singleM b a hb ha) e

theorem only_W {s : St} (h : PInv1 s) {a : Nat} (ha : inM (s.senders a).pc = true) {b : Nat} (e : b ≠ a) :
    inW (s.senders b).pc = false := by
  cases hb : inW (s.senders b).pc with
  | false => rfl
  | true => have := only_M h ha e; rw [inM_of_inW hb] at this; cases this

end BB.PubSub

namespace BB.PubSub
open BB.Fun

/-- a sender changes its lock status; the caller supplies the new lock flags and their justification -/
theorem pinv1_setSender_move {s : St} (h : PInv1 s) (a : Nat) (x' : Sender) (mu' w' : Bool)
    (hothers : ∀ b, b ≠ a → inM (s.senders b).pc = false)
    (hmu : mu' = inM x'.pc) (hw : w' = inW x'.pc)
    (hrd : w' = true → ∀ t, inRd (s.subs t).pc = false) :
    PInv1 { setSender s a x' with sendMu := mu', sendingW := w' } := by
  have hsen : ∀ b, b ≠ a → (upd s.senders a x') b = s.senders b := fun b e => upd_other _ _ e
  have hothersW : ∀ b, b ≠ a → inW (s.senders b).pc = false := by
    intro b e
    cases hb : inW (s.senders b).pc with
    | false => rfl
    | true => have := hothers b e; rw [inM_of_inW hb] at this; cases this
  constructor
  · intro b c hb hc
    simp only [setSender] at hb hc
    by_cases eb : b = a
    · by_cases ec : c = a
      · rw [eb, ec]
      · rw [hsen c ec, hothers c ec] at hc; cases hc
    · rw [hsen b eb, hothers b eb] at hb; cases hb
  · intro b hb
    simp only [setSender] at hb ⊢
    by_cases eb : b = a
    · subst eb; rw [upd_same] at hb; rw [hmu, hb]
    · rw [hsen b eb, hothers b eb] at hb; cases hb
  · intro hm
    simp only at hm
    exact ⟨a, by simp only [setSender, upd_same]; rw [← hmu]; exact hm⟩
  · intro b hb
    simp only [setSender] at hb ⊢
    by_cases eb : b = a
    · subst eb; rw [upd_same] at hb; rw [hw, hb]
    · rw [hsen b eb, hothersW b eb] at hb; cases hb
  · intro hww
    simp only at hww
    exact ⟨a, by simp only [setSender, upd_same]; rw [← hw]; exact hww⟩
  · intro hww t; exact hrd hww t
  · exact h.fresh

theorem nobody_inM_of_free {s : St} (h : PInv1 s) (hf : s.sendMu = false) : ∀ b, inM (s.senders b).pc = false := by
  intro b
  cases hb : inM (s.senders b).pc with
  | false => rfl
  | true => have := h.muOf b hb; rw [hf] at this; cases this

theorem no_readers_of_W {s : St} (h : PInv1 s) {t : Nat} (ht : inRd (s.subs t).pc = true) : s.sendingW = false := by
  cases hw : s.sendingW with
  | false => rfl
  | true => have := h.noRd hw t; rw [ht] at this; cases this

theorem lt_nSubs {s : St} (h : PInv1 s) (t : Nat) (hne : (s.subs t).pc ≠ .out) : t < s.nSubs := by
  cases Nat.lt_or_ge t s.nSubs with
  | inl x => exact x
  | inr x => have := h.fresh t x; rw [this] at hne; exact absurd rfl hne

/-- the common shape of a subscriber step -/
theorem pinv1_sub {s : St} (h : PInv1 s) (t : Nat) (u' : Sub) (s' : St) (hne : (s.subs t).pc ≠ .out)
    (hrd : s.sendingW = true → inRd u'.pc = false)
    (e1 : s'.subs = upd s.subs t u') (e2 : s'.senders = s.senders) (e3 : s'.sendMu = s.sendMu)
    (e4 : s'.sendingW = s.sendingW) (e5 : s'.nSubs = s.nSubs) : PInv1 s' :=
  pinv1_congr (pinv1_setSub h t u' s.nSubs (Or.inl rfl) (lt_nSubs h t hne) hrd) (by rw [e1]; rfl) e2 e3 e4 e5

theorem pinv1_markOwes {s : St} (h : PInv1 s) (w d : Nat) : PInv1 { s with word := w, delivered := d, subs := markOwes s } := by
  constructor
  · exact h.singleM
  · exact h.muOf
  · exact h.muEx
  · exact h.wOf
  · exact h.wEx
  · intro hw t
    have := h.noRd hw t
    simp only [markOwes]; split <;> exact this
  · intro t ht
    have := h.fresh t ht
    simp only [markOwes, this]; simp

theorem pinv1_subLock {s s' : St} {t : Nat} (h : PInv1 s) (hs : sys.step s (.subLock t) = some s') : PInv1 s' := by
  simp only [sys, step] at hs
  split at hs
  · rename_i g; obtain ⟨g1, g2, g3, g4⟩ := g; cases hs
    refine pinv1_setSub h t _ _ ?_ ?_ (fun hw => by rw [g2] at hw; cases hw)
    · by_cases e : t = s.nSubs
      · right; exact ⟨e, by simp [e]⟩
      · left; simp [e]
    · by_cases e : t = s.nSubs
      · simp [e]
      · simp only [if_neg e]; omega
  · cases hs

theorem pinv1_subInc {s s' : St} {t : Nat} (h : PInv1 s) (hs : sys.step s (.subInc t) = some s') : PInv1 s' := by
  simp only [sys, step] at hs
  split at hs
  · rename_i g; cases hs
    have hw := no_readers_of_W h (t := t) (by simp [g.1, inRd])
    have ht : t < s.nSubs := by
      cases Nat.lt_or_ge t s.nSubs with
      | inl x => exact x
      | inr x => have := h.fresh t x; rw [this] at g; simp at g
    exact pinv1_congr (pinv1_setSub h t _ s.nSubs (Or.inl rfl) ht (fun hw' => by rw [hw] at hw'; cases hw')) rfl rfl rfl rfl rfl
  · cases hs

theorem pinv1_subUnlock {s s' : St} {t : Nat} (h : PInv1 s) (hs : sys.step s (.subUnlock t) = some s') : PInv1 s' := by
  simp only [sys, step] at hs
  split at hs
  · rename_i g; cases hs
    have ht : t < s.nSubs := by
      cases Nat.lt_or_ge t s.nSubs with
      | inl x => exact x
      | inr x => have := h.fresh t x; rw [this] at g; simp at g
    exact pinv1_congr (pinv1_setSub h t _ s.nSubs (Or.inl rfl) ht (fun _ => by simp [inRd])) rfl rfl rfl rfl rfl
  · cases hs

theorem pinv1_recv {s s' : St} {a t : Nat} (h : PInv1 s) (hs : sys.step s (.recv a t) = some s') : PInv1 s' := by
  simp only [sys, step] at hs
  split at hs
  · rename_i g; obtain ⟨g1, g2, g3⟩ := g; cases hs
    have h1 := pinv1_setSender_same h a { s.senders a with k := (s.senders a).k + 1 } rfl rfl
    exact pinv1_sub h1 t _ _ (by simp [setSender, g3]) (fun _ => by simp [inRd]) rfl rfl rfl rfl rfl
  · cases hs

theorem pinv1_consume {s s' : St} {t : Nat} (h : PInv1 s) (hs : sys.step s (.consume t) = some s') : PInv1 s' := by
  simp only [sys, step] at hs
  split at hs
  · rename_i g; cases hs
    exact pinv1_sub h t _ _ (by simp [g.1]) (fun _ => by simp [inRd]) rfl rfl rfl rfl rfl
  · cases hs

theorem pinv1_tryOk {s s' : St} {t : Nat} (h : PInv1 s) (hs : sys.step s (.tryOk t) = some s') : PInv1 s' := by
  simp only [sys, step] at hs
  split at hs
  · rename_i g; cases hs
    exact pinv1_sub h t _ _ (by rcases g.1 with e | e <;> simp [e]) (fun hw => by rw [g.2] at hw; cases hw) rfl rfl rfl rfl rfl
  · cases hs

theorem pinv1_tryFail {s s' : St} {t : Nat} (h : PInv1 s) (hs : sys.step s (.tryFail t) = some s') : PInv1 s' := by
  simp only [sys, step] at hs
  split at hs
  · rename_i g; cases hs
    exact pinv1_sub h t _ _ (by rcases g with e | e <;> simp [e]) (fun _ => by simp [inRd]) rfl rfl rfl rfl rfl
  · cases hs

theorem pinv1_pingZero {s s' : St} {t : Nat} (h : PInv1 s) (hs : sys.step s (.pingZero t) = some s') : PInv1 s' := by
  simp only [sys, step] at hs
  split at hs
  · split at hs
    · split at hs
      · cases hs; exact h
      · cases hs
    · cases hs; exact pinv1_congr h rfl rfl rfl rfl rfl
  · cases hs

theorem pinv1_pingNonZero {s s' : St} {t : Nat} (h : PInv1 s) (hs : sys.step s (.pingNonZero t) = some s') : PInv1 s' := by
  simp only [sys, step] at hs
  split at hs
  · rename_i g
    split at hs
    · split at hs
      · cases hs
        exact pinv1_sub h t _ _ (by simp [g.1]) (fun _ => by simp [inRd]) rfl rfl rfl rfl rfl
      · cases hs
    · cases hs; exact pinv1_congr h rfl rfl rfl rfl rfl
  · cases hs

theorem pinv1_unsubDecL {s s' : St} {t : Nat} (h : PInv1 s) (hs : sys.step s (.unsubDecL t) = some s') : PInv1 s' := by
  simp only [sys, step] at hs
  split at hs
  · rename_i g; cases hs
    have hw := no_readers_of_W h (t := t) (by simp [g.1, inRd])
    exact pinv1_sub h t _ _ (by simp [g.1]) (fun hw' => by rw [hw] at hw'; cases hw') rfl rfl rfl rfl rfl
  · cases hs

theorem pinv1_unsubUnlock {s s' : St} {t : Nat} (h : PInv1 s) (hs : sys.step s (.unsubUnlock t) = some s') : PInv1 s' := by
  simp only [sys, step] at hs
  split at hs
  · rename_i g; cases hs
    exact pinv1_sub h t _ _ (by simp [g]) (fun _ => by simp [inRd]) rfl rfl rfl rfl rfl
  · cases hs

theorem pinv1_unsubDecN {s s' : St} {t : Nat} (h : PInv1 s) (hs : sys.step s (.unsubDecN t) = some s') : PInv1 s' := by
  simp only [sys, step] at hs
  split at hs
  · rename_i g; cases hs
    exact pinv1_sub h t _ _ (by simp [g.1]) (fun _ => by simp [inRd]) rfl rfl rfl rfl rfl
  · cases hs

theorem pinv1_pingSub {s s' : St} {t : Nat} (h : PInv1 s) (hs : sys.step s (.pingSub t) = some s') : PInv1 s' := by
  simp only [sys, step] at hs
  split at hs
  · rename_i g
    split at hs
    · split at hs
      · cases hs
        exact pinv1_sub h t _ _ (by simp [g.1]) (fun _ => by simp [inRd]) rfl rfl rfl rfl rfl
      · cases hs
        exact pinv1_sub h t _ _ (by simp [g.1]) (fun _ => by simp [inRd]) rfl rfl rfl rfl rfl
    · cases hs; exact pinv1_congr h rfl rfl rfl rfl rfl
  · cases hs

theorem pinv1_absorb {s s' : St} {a t : Nat} (h : PInv1 s) (hs : sys.step s (.absorb a t) = some s') : PInv1 s' := by
  simp only [sys, step] at hs
  split at hs
  · rename_i g; obtain ⟨g1, g2, g3⟩ := g; cases hs
    have h0 := pinv1_sub h t { s.subs t with pc := .out } (setSub s t { s.subs t with pc := .out }) (by simp [g3]) (fun _ => by simp [inRd]) rfl rfl rfl rfl rfl
    exact pinv1_setSender_same h0 a _ rfl rfl
  · cases hs

theorem pinv1_sbegin {s s' : St} {a v : Nat} (h : PInv1 s) (hs : sys.step s (.sbegin a v) = some s') : PInv1 s' := by
  simp only [sys, step] at hs
  split at hs
  · rename_i g
    split at hs
    · cases hs
      exact pinv1_congr (pinv1_setSender_same h a { s.senders a with pc := .done, val := v, ret := some 0 } (by rw [g.1] <;> rfl) (by rw [g.1] <;> rfl)) rfl rfl rfl rfl rfl
    · cases hs
      exact pinv1_setSender_same h a _ (by rw [g.1] <;> rfl) (by rw [g.1] <;> rfl)
  · cases hs

theorem pinv1_sendMu {s s' : St} {a : Nat} (h : PInv1 s) (hs : sys.step s (.sendMu a) = some s') : PInv1 s' := by
  simp only [sys, step] at hs
  split at hs
  · rename_i g; cases hs
    have hno := nobody_inM_of_free h g.2
    have hwf : s.sendingW = false := by
      cases hw : s.sendingW with
      | false => rfl
      | true => obtain ⟨b, hb⟩ := h.wEx hw; have := hno b; rw [inM_of_inW hb] at this; cases this
    have := pinv1_setSender_move h a { s.senders a with pc := .wantSending } true false (fun b _ => hno b) (by simp [inM]) (by simp [inW]) (fun hw => by cases hw)
    exact pinv1_congr this rfl rfl rfl (by simp [setSender, hwf]) rfl
  · cases hs

theorem pinv1_sending {s s' : St} {a : Nat} (h : PInv1 s) (hs : sys.step s (.sending a) = some s') : PInv1 s' := by
  simp only [sys, step] at hs
  split at hs
  · rename_i g; obtain ⟨g1, g2, g3⟩ := g; cases hs
    have haM : inM (s.senders a).pc = true := by simp [g1, inM]
    have := pinv1_setSender_move h a { s.senders a with pc := .holding } true true (fun b e => only_M h haM e) (by simp [inM]) (by simp [inW])
      (fun _ t => by
        cases Nat.lt_or_ge t s.nSubs with
        | inl x => exact noReaders_spec g3 t x
        | inr x => rw [h.fresh t x]; simp [inRd])
    exact pinv1_congr this rfl rfl (by simp [setSender, h.muOf a haM]) rfl rfl
  · cases hs

theorem pinv1_count {s s' : St} {a : Nat} (h : PInv1 s) (hs : sys.step s (.count a) = some s') : PInv1 s' := by
  simp only [sys, step] at hs
  split at hs
  · rename_i g
    have haM : inM (s.senders a).pc = true := by simp [g, inM]
    split at hs
    · cases hs
      have := pinv1_setSender_move h a { s.senders a with pc := .done, ret := some 0 } false false (fun b e => only_M h haM e) (by simp [inM]) (by simp [inW]) (fun hw => by cases hw)
      exact pinv1_congr this rfl rfl rfl rfl rfl
    · cases hs
      exact pinv1_setSender_same h a _ (by rw [g] <;> rfl) (by rw [g] <;> rfl)
  · cases hs

theorem pinv1_pingAdd {s s' : St} {a : Nat} (h : PInv1 s) (hs : sys.step s (.pingAdd a) = some s') : PInv1 s' := by
  simp only [sys, step] at hs
  split at hs
  · rename_i g
    split at hs
    · split at hs
      · cases hs
        exact pinv1_setSender_same (pinv1_markOwes h _ 0) a _ (by rw [g.1] <;> rfl) (by rw [g.1] <;> rfl)
      · cases hs; exact pinv1_congr h rfl rfl rfl rfl rfl
    · cases hs; exact pinv1_congr h rfl rfl rfl rfl rfl
  · cases hs

theorem pinv1_cfast {s s' : St} {a : Nat} (h : PInv1 s) (hs : sys.step s (.cfast a) = some s') : PInv1 s' := by
  simp only [sys, step] at hs
  split at hs
  · rename_i g
    split at hs
    · cases hs; exact pinv1_setSender_same h a _ (by rw [g] <;> rfl) (by rw [g] <;> rfl)
    · cases hs; exact pinv1_setSender_same h a _ (by rw [g] <;> rfl) (by rw [g] <;> rfl)
  · cases hs

theorem pinv1_cload {s s' : St} {a : Nat} (h : PInv1 s) (hs : sys.step s (.cload a) = some s') : PInv1 s' := by
  simp only [sys, step] at hs
  split at hs
  · rename_i g
    split at hs
    · cases hs; exact pinv1_setSender_same h a _ (by rw [g.1] <;> rfl) (by rw [g.1] <;> rfl)
    · cases hs; exact pinv1_congr h rfl rfl rfl rfl rfl
    · cases hs; exact pinv1_setSender_same h a _ (by rw [g.1] <;> rfl) (by rw [g.1] <;> rfl)
  · cases hs

theorem pinv1_ccas {s s' : St} {a : Nat} (h : PInv1 s) (hs : sys.step s (.ccas a) = some s') : PInv1 s' := by
  simp only [sys, step] at hs
  split at hs
  · rename_i g
    split at hs
    · split at hs
      · cases hs
        exact pinv1_congr (pinv1_setSender_same h a { s.senders a with pc := .sending, armedN := _, k := 0 } (by rw [g.1] <;> rfl) (by rw [g.1] <;> rfl)) rfl rfl rfl rfl rfl
      · cases hs
    · cases hs; exact pinv1_setSender_same h a _ (by rw [g.1] <;> rfl) (by rw [g.1] <;> rfl)
  · cases hs

theorem pinv1_cfinal {s s' : St} {a : Nat} (h : PInv1 s) (hs : sys.step s (.cfinal a) = some s') : PInv1 s' := by
  simp only [sys, step] at hs
  split at hs
  · rename_i g
    split at hs
    · cases hs
      exact pinv1_congr (pinv1_setSender_same h a { s.senders a with pc := .checked, sent := _ } (by rw [g.1] <;> rfl) (by rw [g.1] <;> rfl)) rfl rfl rfl rfl rfl
    · cases hs; exact pinv1_congr h rfl rfl rfl rfl rfl
  · cases hs

theorem pinv1_unsending {s s' : St} {a : Nat} (h : PInv1 s) (hs : sys.step s (.unsending a) = some s') : PInv1 s' := by
  simp only [sys, step] at hs
  split at hs
  · rename_i g; cases hs
    have haM : inM (s.senders a).pc = true := by simp [g, inM]
    have := pinv1_setSender_move h a { s.senders a with pc := .released } true false (fun b e => only_M h haM e) (by simp [inM]) (by simp [inW]) (fun hw => by cases hw)
    exact pinv1_congr this rfl rfl (by simp [setSender, h.muOf a haM]) rfl rfl
  · cases hs

theorem pinv1_pong {s s' : St} {a : Nat} (h : PInv1 s) (hs : sys.step s (.pong a) = some s') : PInv1 s' := by
  simp only [sys, step] at hs
  split at hs
  · rename_i g
    split at hs
    · cases hs; exact pinv1_setSender_same h a _ (by rw [g] <;> rfl) (by rw [g] <;> rfl)
    · split at hs
      · cases hs
        exact pinv1_congr (pinv1_setSender_same h a { s.senders a with pc := .ponging } (by rw [g] <;> rfl) (by rw [g] <;> rfl)) rfl rfl rfl rfl rfl
      · cases hs
  · cases hs

theorem pinv1_ponged {s s' : St} {a : Nat} (h : PInv1 s) (hs : sys.step s (.ponged a) = some s') : PInv1 s' := by
  simp only [sys, step] at hs
  split at hs
  · rename_i g; cases hs
    exact pinv1_setSender_same h a _ (by rw [g.1] <;> rfl) (by rw [g.1] <;> rfl)
  · cases hs

theorem pinv1_sdone {s s' : St} {a : Nat} (h : PInv1 s) (hs : sys.step s (.sdone a) = some s') : PInv1 s' := by
  simp only [sys, step] at hs
  split at hs
  · rename_i g; cases hs
    have haM : inM (s.senders a).pc = true := by simp [g, inM]
    have hwf : s.sendingW = false := by
      cases hw : s.sendingW with
      | false => rfl
      | true =>
        obtain ⟨b, hb⟩ := h.wEx hw
        by_cases e : b = a
        · subst e; rw [g] at hb; simp [inW] at hb
        · have := only_W h haM e; rw [hb] at this; cases this
    have := pinv1_setSender_move h a { s.senders a with pc := .done } false false (fun b e => only_M h haM e) (by simp [inM]) (by simp [inW]) (fun hw => by cases hw)
    exact pinv1_congr this rfl rfl rfl (by simp [setSender, hwf]) rfl
  · cases hs

theorem pinv1_step {s s' : St} {act : Act} (h : PInv1 s) (hs : sys.step s act = some s') : PInv1 s' := by
  cases act with
  | subLock t => exact pinv1_subLock h hs
  | subInc t => exact pinv1_subInc h hs
  | subUnlock t => exact pinv1_subUnlock h hs
  | recv a t => exact pinv1_recv h hs
  | consume t => exact pinv1_consume h hs
  | tryOk t => exact pinv1_tryOk h hs
  | tryFail t => exact pinv1_tryFail h hs
  | pingZero t => exact pinv1_pingZero h hs
  | pingNonZero t => exact pinv1_pingNonZero h hs
  | unsubDecL t => exact pinv1_unsubDecL h hs
  | unsubUnlock t => exact pinv1_unsubUnlock h hs
  | unsubDecN t => exact pinv1_unsubDecN h hs
  | pingSub t => exact pinv1_pingSub h hs
  | absorb a t => exact pinv1_absorb h hs
  | sbegin a v => exact pinv1_sbegin h hs
  | sendMu a => exact pinv1_sendMu h hs
  | sending a => exact pinv1_sending h hs
  | count a => exact pinv1_count h hs
  | pingAdd a => exact pinv1_pingAdd h hs
  | cfast a => exact pinv1_cfast h hs
  | cload a => exact pinv1_cload h hs
  | ccas a => exact pinv1_ccas h hs
  | cfinal a => exact pinv1_cfinal h hs
  | unsending a => exact pinv1_unsending h hs
  | pong a => exact pinv1_pong h hs
  | ponged a => exact pinv1_ponged h hs
  | sdone a => exact pinv1_sdone h hs

theorem pinv1_reach : ∀ s, LTS.Reach sys s → PInv1 s :=
  LTS.invariant sys PInv1 pinv1_init (fun _ _ _ h hs => pinv1_step h hs)

end BB.PubSub
