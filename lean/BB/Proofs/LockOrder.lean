/-
  Lock-order theory: if every blocking acquisition "wanted while held" respects a ranking of the locks, no set of
  goroutines can wait for each other in a cycle (each holding a lock the next one wants).
-/
namespace BB.LockOrder

/-- consecutive waits are linked: what one goroutine wants is what the next one holds -/
def linked : List (Nat × Nat) → Bool
  | [] => true
  | [_] => true
  | a :: b :: t => a.2 == b.1 && linked (b :: t)

theorem rank_increases (r : Nat → Nat) : ∀ (l : List (Nat × Nat)) (hne : l ≠ []), linked l = true →
    (∀ p ∈ l, r p.1 < r p.2) → r (l.head hne).1 < r (l.getLast hne).2
  | [a], _, _, hr => by simpa using hr a (by simp)
  | a :: b :: t, _, hl, hr => by
    simp only [linked, Bool.and_eq_true, beq_iff_eq] at hl
    have ih := rank_increases r (b :: t) (by simp) hl.2 (fun p hp => hr p (by simp [hp]))
    have ha := hr a (by simp)
    simp only [List.head_cons, List.getLast_cons_cons] at ih ⊢
    rw [hl.1] at ha
    exact Nat.lt_trans ha ih

/-- no wait-for cycle: a chain of goroutines, each holding `p.1` and blocked acquiring `p.2`, the last one wanting
    what the first one holds, cannot exist when every (held, wanted) pair respects the ranking -/
theorem no_wait_cycle (r : Nat → Nat) (l : List (Nat × Nat)) (hne : l ≠ []) (hl : linked l = true)
    (hr : ∀ p ∈ l, r p.1 < r p.2) (hcyc : (l.getLast hne).2 = (l.head hne).1) : False := by
  have := rank_increases r l hne hl hr
  rw [hcyc] at this
  exact Nat.lt_irrefl _ this

/-- one round of transitive closure -/
def closeStep (e : List (Nat × Nat)) : List (Nat × Nat) :=
  (e ++ e.flatMap (fun p => (e.filter (fun q => q.1 == p.2)).map (fun q => (p.1, q.2)))).eraseDups

def closure (e : List (Nat × Nat)) : Nat → List (Nat × Nat)
  | 0 => e
  | n + 1 => closeStep (closure e n)

/-- number of locks that come before `v` in the closed order -/
def rankOf (c : List (Nat × Nat)) (v : Nat) : Nat :=
  ((c.map (·.1)).eraseDups.filter (fun u => c.contains (u, v))).length

/-- the edges respect the ranking computed from their own transitive closure (true exactly when they are acyclic) -/
def ranked (e : List (Nat × Nat)) : Bool :=
  let c := closure e e.length
  e.all (fun p => rankOf c p.1 < rankOf c p.2)

theorem ranked_spec {e : List (Nat × Nat)} (h : ranked e = true) :
    ∀ p ∈ e, rankOf (closure e e.length) p.1 < rankOf (closure e e.length) p.2 := by
  intro p hp
  unfold ranked at h
  simp only [List.all_eq_true, decide_eq_true_eq] at h
  exact h p hp

/-- acyclic lock graph ⇒ no wait-for cycle among acquisitions listed in it -/
theorem no_deadlock_of_ranked {e : List (Nat × Nat)} (h : ranked e = true) (l : List (Nat × Nat)) (hne : l ≠ [])
    (hsub : ∀ p ∈ l, p ∈ e) (hl : linked l = true) (hcyc : (l.getLast hne).2 = (l.head hne).1) : False :=
  no_wait_cycle (rankOf (closure e e.length)) l hne hl (fun p hp => ranked_spec h p (hsub p hp)) hcyc

example : ranked [(1, 2), (2, 3), (1, 3)] = true := by decide
example : ranked [(1, 2), (2, 1)] = false := by decide

end BB.LockOrder
