/-
  FIFO order of Workers (C14): the model wrapped with a passive observer recording the order in which jobs were called and the
  order in which workers took them.  Invariant: called = taken ++ queue — jobs leave the queue in exactly the order they entered
  it, so a job is overtaken by no job called after it (the basis of "no starvation").
-/
import BB.Model.Workers

namespace BB.Workers
open BB.LTS

structure OSt where
  st : St := {}
  called : List Nat := []     -- observer: job ids in the order Call enqueued them
  taken : List Nat := []      -- observer: job ids in the order workers dequeued them

def ostep (o : OSt) (a : Act) : Option OSt :=
  match sys.step o.st a with
  | none => none
  | some s' =>
    match a with
    | .call j _ => some { o with st := s', called := o.called ++ [j] }
    | .take _ => some { o with st := s', taken := o.taken ++ (o.st.queue.head?.toList) }
    | _ => some { o with st := s' }

def osys : LTS.Sys OSt Act := { init := {}, step := ostep }

theorem ostep_st {o o' : OSt} {a : Act} (h : osys.step o a = some o') : sys.step o.st a = some o'.st := by
  simp only [osys, ostep] at h
  cases e : sys.step o.st a with
  | none => simp [e] at h
  | some s' => simp only [e] at h; cases a <;> (cases h; rfl)

/-- the observer neither adds nor removes behaviour -/
theorem oreach_proj (o : OSt) (hr : Reach osys o) : Reach sys o.st := by
  induction hr with
  | init => exact Reach.init
  | step _ hs ih => exact Reach.step ih (ostep_st hs)

theorem ostep_total (o : OSt) (a : Act) (s' : St) (hs : sys.step o.st a = some s') : ∃ o', osys.step o a = some o' ∧ o'.st = s' := by
  cases a <;> simp [osys, ostep, hs]

/-- FIFO: the jobs called so far are the jobs taken so far, in the same order, followed by the queue -/
theorem fifo_inv (o : OSt) (hr : Reach osys o) : o.called = o.taken ++ o.st.queue := by
  induction hr with
  | init => rfl
  | @step o1 o2 a _ hs ih =>
    simp only [osys, ostep] at hs
    cases e : sys.step o1.st a with
    | none => simp [e] at hs
    | some s' =>
      simp only [e] at hs
      cases a with
      | call j n =>
        cases hs
        simp only [sys, step] at e
        split at e
        · cases e
        · cases e; simp [ih]
      | take i =>
        cases hs
        simp only [sys, step] at e
        split at e
        · rename_i j rest hw hq
          split at e
          · cases e
          · cases e; simp [ih, hq]
        · cases e
      | finish i =>
        cases hs
        simp only [sys, step] at e
        split at e
        · cases e; exact ih
        · cases e
      | exit i =>
        cases hs
        simp only [sys, step] at e
        split at e
        · split at e
          · cases e; exact ih
          · cases e
        · cases e

end BB.Workers
