/- PInv2 is preserved by every step of the ChanPubSub protocol model (helper for Props/C06, C07). -/
import BB.Proofs.PubSub2

namespace BB.PubSub
open BB.Fun BB.Caster

theorem owes_false_of_pc {s : St} (h : PInv2 s) (t : Nat)
    (hp : (s.subs t).pc ≠ .idle ∧ (s.subs t).pc ≠ .tryFailed ∧ (s.subs t).pc ≠ .sawPing ∧ (s.subs t).pc ≠ .decNoLock) :
    (s.subs t).owes = false := by
  cases ho : (s.subs t).owes with
  | false => rfl
  | true =>
    rcases h.owesWhere t ho with e | e | e | e
    · exact absurd e hp.1
    · exact absurd e hp.2.1
    · exact absurd e hp.2.2.1
    · exact absurd e hp.2.2.2

theorem pinv2_subLock {s s' : St} {t : Nat} (h1 : PInv1 s) (h : PInv2 s) (hs : sys.step s (.subLock t) = some s') : PInv2 s' := by
  simp only [sys, step] at hs
  split at hs
  · rename_i g; obtain ⟨g1, g2, g3, g4⟩ := g; cases hs
    have hof := owes_false_of_pc h t (by simp [g1])
    by_cases e : t = s.nSubs
    · subst e
      have hd := h1.fresh s.nSubs (Nat.le_refl _)
      have key : ∀ f : Sub → Nat, f {} = 0 → f { s.subs s.nSubs with pc := .subRlocked } = 0 →
          SUM f { setSub s s.nSubs { s.subs s.nSubs with pc := .subRlocked } with nSubs := if s.nSubs = s.nSubs then s.nSubs + 1 else s.nSubs } = SUM f s := by
        intro f hz hu
        have := SUM_grow f (s := s) (u' := { s.subs s.nSubs with pc := .subRlocked })
          (s' := { setSub s s.nSubs { s.subs s.nSubs with pc := .subRlocked } with nSubs := if s.nSubs = s.nSubs then s.nSubs + 1 else s.nSubs })
          (by rw [hd]; exact hz) rfl (by simp)
        rw [this, hu]; rfl
      refine pinv2_sub_core h s.nSubs { s.subs s.nSubs with pc := .subRlocked } rfl rfl rfl rfl rfl rfl rfl
        (key cntI rfl (by simp [cntI])) (key oweI rfl (by simp [oweI, hof])) (key absI rfl (by simp [absI])) (key gotI rfl (by simp [gotI])) rfl ?_ ?_ ?_ ?_
      · intro ho; simp only at ho; rw [hof] at ho; cases ho
      · intro hp; simp at hp
      · intro _ hp; simp at hp
      · intro _; simp
    · have ht : t < s.nSubs := by omega
      refine pinv2_sub_neutral h t ht { s.subs t with pc := .subRlocked } rfl (by simp [e]) rfl rfl rfl rfl rfl rfl ?_ rfl ?_ ?_ ?_ ?_ ?_ ?_
      · simp [cntI, g1]
      · simp [absI, g1]
      · simp [gotI, g1]
      · intro ho; simp only at ho; rw [hof] at ho; cases ho
      · intro hp; simp at hp
      · intro _ hp; simp at hp
      · intro _; simp
  · cases hs

end BB.PubSub

namespace BB.PubSub
open BB.Fun BB.Caster

theorem not_inA_of_not_W {s : St} (h1 : PInv1 s) (hw : s.sendingW = false) : ∀ a, inA (s.senders a).pc = false := by
  intro a
  cases ha : inA (s.senders a).pc with
  | false => rfl
  | true =>
    have : inW (s.senders a).pc = true := by cases hp : (s.senders a).pc <;> simp [hp, inA, inW] at ha ⊢
    have := h1.wOf a this; rw [hw] at this; cases this

theorem W_of_inA {s : St} (h1 : PInv1 s) {a : Nat} (ha : inA (s.senders a).pc = true) : s.sendingW = true := by
  have : inW (s.senders a).pc = true := by cases hp : (s.senders a).pc <;> simp [hp, inA, inW] at ha ⊢
  exact h1.wOf a this

/-- the caster word is always one on which `Add(0)` does not panic; it is non-zero only while a Send is between
    ping.Add and the end of its send phase -/
theorem add0_ok {s : St} (h : PInv2 s) : ∃ r, add s.word 0 = .ok s.word r 0 ∧ (r ≠ 0 → ∃ a, inA (s.senders a).pc = true) := by
  by_cases hq : ∀ a, inA (s.senders a).pc = false
  · have := (h.quiet hq).1
    rw [this]
    exact ⟨0, by have := add_zero_idle 0 (by unfold MAXR; omega); rw [idleWord0] at this; exact this, fun e => absurd rfl e⟩
  · have : ∃ a, inA (s.senders a).pc = true := by
      apply Classical.byContradiction
      intro hn; apply hq; intro a
      cases ha : inA (s.senders a).pc with
      | false => rfl
      | true => exact absurd ⟨a, ha⟩ hn
    obtain ⟨a, ha⟩ := this
    cases hp : (s.senders a).pc <;> simp [hp, inA] at ha
    · obtain ⟨hw, hb, _⟩ := h.pre a (Or.inl hp)
      rw [hw]; exact ⟨_, add_zero_idle _ hb, fun _ => ⟨a, by simp [hp, inA]⟩⟩
    · obtain ⟨hw, hb, _⟩ := h.pre a (Or.inr hp)
      rw [hw]; exact ⟨_, add_zero_idle _ hb, fun _ => ⟨a, by simp [hp, inA]⟩⟩
    · obtain ⟨hw, hsum, hb, _, _, hd⟩ := h.arm a hp
      rw [hw]; exact ⟨_, add_zero_armed _ (by omega), fun _ => ⟨a, by simp [hp, inA]⟩⟩

theorem pinv2_subUnlock {s s' : St} {t : Nat} (h1 : PInv1 s) (h : PInv2 s) (hs : sys.step s (.subUnlock t) = some s') : PInv2 s' := by
  simp only [sys, step] at hs
  split at hs
  · rename_i g; cases hs
    have hof := owes_false_of_pc h t (by simp [g])
    have hwf := no_readers_of_W h1 (t := t) (by simp [g, inRd])
    have hnA := not_inA_of_not_W h1 hwf
    refine pinv2_sub_neutral h t (lt_nSubs h1 t (by simp [g])) { s.subs t with pc := .idle } rfl rfl rfl rfl rfl rfl rfl rfl ?_ rfl ?_ ?_ ?_ ?_ ?_ ?_
    · simp [cntI, g]
    · simp [absI, g]
    · simp [gotI, g]
    · intro ho; simp only at ho; rw [hof] at ho; cases ho
    · intro hp; simp at hp
    · intro ⟨a, ha⟩; rw [hnA a] at ha; cases ha
    · intro _; simp
  · cases hs

theorem pinv2_tryFail {s s' : St} {t : Nat} (h1 : PInv1 s) (h : PInv2 s) (hs : sys.step s (.tryFail t) = some s') : PInv2 s' := by
  simp only [sys, step] at hs
  split at hs
  · rename_i g; cases hs
    refine pinv2_sub_neutral h t (lt_nSubs h1 t (by rcases g with e | e <;> simp [e])) { s.subs t with pc := .tryFailed } rfl rfl rfl rfl rfl rfl rfl rfl ?_ rfl ?_ ?_ ?_ ?_ ?_ ?_
    · rcases g with e | e <;> simp [cntI, e]
    · rcases g with e | e <;> simp [absI, e]
    · rcases g with e | e <;> simp [gotI, e]
    · intro _; simp
    · intro hp; simp at hp
    · intro hex _; exact h.idleOwes hex t g
    · intro _; simp
  · cases hs

theorem pinv2_unsubUnlock {s s' : St} {t : Nat} (h1 : PInv1 s) (h : PInv2 s) (hs : sys.step s (.unsubUnlock t) = some s') : PInv2 s' := by
  simp only [sys, step] at hs
  split at hs
  · rename_i g; cases hs
    have hof := owes_false_of_pc h t (by simp [g])
    refine pinv2_sub_neutral h t (lt_nSubs h1 t (by simp [g])) { s.subs t with pc := .out } rfl rfl rfl rfl rfl rfl rfl rfl ?_ rfl ?_ ?_ ?_ ?_ ?_ ?_
    · simp [cntI, g]
    · simp [absI, g]
    · simp [gotI, g]
    · intro ho; simp only at ho; rw [hof] at ho; cases ho
    · intro hp; simp at hp
    · intro _ hp; simp at hp
    · intro _; simp
  · cases hs

theorem pinv2_tryOk {s s' : St} {t : Nat} (h1 : PInv1 s) (h : PInv2 s) (hs : sys.step s (.tryOk t) = some s') : PInv2 s' := by
  simp only [sys, step] at hs
  split at hs
  · rename_i g; cases hs
    have hnA := not_inA_of_not_W h1 g.2
    have hof := ((h.quiet hnA).2 t).1
    refine pinv2_sub_neutral h t (lt_nSubs h1 t (by rcases g.1 with e | e <;> simp [e])) { s.subs t with pc := .unsubLocked } rfl rfl rfl rfl rfl rfl rfl rfl ?_ rfl ?_ ?_ ?_ ?_ ?_ ?_
    · rcases g.1 with e | e <;> simp [cntI, e]
    · rcases g.1 with e | e <;> simp [absI, e]
    · rcases g.1 with e | e <;> simp [gotI, e]
    · intro ho; simp only at ho; rw [hof] at ho; cases ho
    · intro hp; simp at hp
    · intro _ hp; simp at hp
    · intro _; simp
  · cases hs

theorem pinv2_pingZero {s s' : St} {t : Nat} (h : PInv2 s) (hs : sys.step s (.pingZero t) = some s') : PInv2 s' := by
  simp only [sys, step] at hs
  split at hs
  · obtain ⟨r, hr, _⟩ := add0_ok h
    rw [hr] at hs
    simp only at hs
    split at hs
    · cases hs; exact h
    · cases hs
  · cases hs

theorem pinv2_pingNonZero {s s' : St} {t : Nat} (h1 : PInv1 s) (h : PInv2 s) (hs : sys.step s (.pingNonZero t) = some s') : PInv2 s' := by
  simp only [sys, step] at hs
  split at hs
  · rename_i g
    obtain ⟨r, hr, hex⟩ := add0_ok h
    rw [hr] at hs
    simp only at hs
    split at hs
    · rename_i hne; cases hs
      have hA := hex hne
      have ho := h.idleOwes hA t (Or.inr g.1)
      refine pinv2_sub_neutral h t (lt_nSubs h1 t (by simp [g.1])) { s.subs t with pc := .sawPing } rfl rfl rfl rfl rfl rfl rfl rfl ?_ rfl ?_ ?_ ?_ ?_ ?_ ?_
      · simp [cntI, g.1]
      · simp [absI, g.1]
      · simp [gotI, g.1]
      · intro _; simp
      · intro _; exact ho
      · intro _ hp; simp at hp
      · intro hq; obtain ⟨a, ha⟩ := hA; rw [hq a] at ha; cases ha
    · cases hs
  · cases hs

end BB.PubSub

namespace BB.PubSub
open BB.Fun BB.Caster

/-- a subscriber step that changes the subscriber counter (and nothing else the sender clauses mention), taken while
    no sender is between reading the counter and ping.Add -/
theorem pinv2_sub_cnt {s s' : St} (h : PInv2 s) (t : Nat) (ht : t < s.nSubs) (u' : Sub) (c' : Nat)
    (e1 : s'.subs = upd s.subs t u') (e2 : s'.nSubs = s.nSubs) (e3 : s'.panicked = s.panicked) (e4 : s'.senders = s.senders)
    (e5 : s'.word = s.word) (e6 : s'.subsCount = c') (e7 : s'.pongN = s.pongN) (e8 : s'.delivered = s.delivered)
    (hnc : ∀ a, (s.senders a).pc ≠ .counted)
    (hc : c' + cntI (s.subs t) = s.subsCount + cntI u') (hb : c' ≤ MAXR)
    (ho : u'.owes = (s.subs t).owes) (ha : absI u' = absI (s.subs t)) (hg : gotI u' = gotI (s.subs t))
    (p1 : u'.owes = true → u'.pc = .idle ∨ u'.pc = .tryFailed ∨ u'.pc = .sawPing ∨ u'.pc = .decNoLock)
    (p2 : (u'.pc = .sawPing ∨ u'.pc = .decNoLock) → u'.owes = true)
    (p3 : (∃ a, inA (s.senders a).pc = true) → (u'.pc = .idle ∨ u'.pc = .tryFailed) → u'.owes = true)
    (p4 : (∀ a, inA (s.senders a).pc = false) → u'.pc ≠ .sawPing ∧ u'.pc ≠ .decNoLock ∧ u'.pc ≠ .absorbing) : PInv2 s' := by
  have sC := SUM_set cntI ht e1 e2
  have sO : SUM oweI s' = SUM oweI s := by
    have := SUM_set oweI ht e1 e2
    have : oweI u' = oweI (s.subs t) := by simp only [oweI, ho]
    omega
  have sA : SUM absI s' = SUM absI s := by have := SUM_set absI ht e1 e2; omega
  have sG : SUM gotI s' = SUM gotI s := by have := SUM_set gotI ht e1 e2; omega
  have hsub : ∀ v, v ≠ t → s'.subs v = s.subs v := fun v e => by rw [e1]; exact upd_other _ _ e
  have hself : s'.subs t = u' := by rw [e1]; exact upd_same _ _ _
  constructor
  · rw [e3]; exact h.np
  · rw [e6]; have := h.cntSum; omega
  · rw [e6]; exact hb
  · intro hq
    rw [e4] at hq
    obtain ⟨hw, hp⟩ := h.quiet hq
    refine ⟨by rw [e5]; exact hw, fun v => ?_⟩
    by_cases e : v = t
    · subst e; rw [hself]
      exact ⟨by rw [ho]; exact (hp v).1, p4 hq⟩
    · rw [hsub v e]; exact hp v
  · intro a ha'
    rw [e4] at ha'
    rw [e5, sO, sA, sG, e7, e8]; exact h.pre a ha'
  · intro a ha'
    rw [e4] at ha' ⊢
    rw [e5, sO, sA, sG, e7, e8]; exact h.arm a ha'
  · intro v hv
    by_cases e : v = t
    · subst e; rw [hself] at hv ⊢; exact p1 hv
    · rw [hsub v e] at hv ⊢; exact h.owesWhere v hv
  · intro v hv
    by_cases e : v = t
    · subst e; rw [hself] at hv ⊢; exact p2 hv
    · rw [hsub v e] at hv ⊢; exact h.mustOwe v hv
  · intro hex v hv
    rw [e4] at hex
    by_cases e : v = t
    · subst e; rw [hself] at hv ⊢; exact p3 hex hv
    · rw [hsub v e] at hv ⊢; exact h.idleOwes hex v hv
  · intro a ha'
    rw [e4] at ha'; exact absurd ha' (hnc a)
  · intro hq
    rw [e4] at hq; rw [sG, e7]; exact h.gotIdle hq
  · intro a ha'
    rw [e4] at ha' ⊢; rw [sG, e7]; exact h.chk a ha'
  · intro a ha'
    rw [e4] at ha'; rw [sG, e7]; exact h.png a ha'

theorem not_counted_of_not_W {s : St} (h1 : PInv1 s) (hw : s.sendingW = false) : ∀ a, (s.senders a).pc ≠ .counted := by
  intro a ha
  have := h1.wOf a (by simp [ha, inW]); rw [hw] at this; cases this

theorem pinv2_subInc {s s' : St} {t : Nat} (h1 : PInv1 s) (h : PInv2 s) (hs : sys.step s (.subInc t) = some s') : PInv2 s' := by
  simp only [sys, step] at hs
  split at hs
  · rename_i g; cases hs
    have hof := owes_false_of_pc h t (by simp [g.1])
    have hwf := no_readers_of_W h1 (t := t) (by simp [g.1, inRd])
    have hnA := not_inA_of_not_W h1 hwf
    refine pinv2_sub_cnt h t (lt_nSubs h1 t (by simp [g.1])) { s.subs t with pc := .subAdded, since := s.returned, nextSeq := s.log.length + 1 } (s.subsCount + 1)
      rfl rfl rfl rfl rfl rfl rfl rfl (not_counted_of_not_W h1 hwf) ?_ ?_ rfl ?_ ?_ ?_ ?_ ?_ ?_
    · simp [cntI, g.1]
    · have := g.2; omega
    · simp [absI, g.1]
    · simp [gotI, g.1]
    · intro ho; simp only at ho; rw [hof] at ho; cases ho
    · intro hp; simp at hp
    · intro _ hp; simp at hp
    · intro _; simp
  · cases hs

theorem pinv2_unsubDecL {s s' : St} {t : Nat} (h1 : PInv1 s) (h : PInv2 s) (hs : sys.step s (.unsubDecL t) = some s') : PInv2 s' := by
  simp only [sys, step] at hs
  split at hs
  · rename_i g; cases hs
    have hof := owes_false_of_pc h t (by simp [g.1])
    have hwf := no_readers_of_W h1 (t := t) (by simp [g.1, inRd])
    refine pinv2_sub_cnt h t (lt_nSubs h1 t (by simp [g.1])) { s.subs t with pc := .unsubDec } (s.subsCount - 1)
      rfl rfl rfl rfl rfl rfl rfl rfl (not_counted_of_not_W h1 hwf) ?_ ?_ rfl ?_ ?_ ?_ ?_ ?_ ?_
    · have := g.2; simp [cntI, g.1]; omega
    · have := h.cntBound; omega
    · simp [absI, g.1]
    · simp [gotI, g.1]
    · intro ho; simp only at ho; rw [hof] at ho; cases ho
    · intro hp; simp at hp
    · intro _ hp; simp at hp
    · intro _; simp
  · cases hs

theorem exists_inA_of_not_quiet {s : St} (hn : ¬ ∀ a, inA (s.senders a).pc = false) : ∃ a, inA (s.senders a).pc = true := by
  apply Classical.byContradiction
  intro hne; apply hn; intro a
  cases ha : inA (s.senders a).pc with
  | false => rfl
  | true => exact absurd ⟨a, ha⟩ hne

theorem pinv2_unsubDecN {s s' : St} {t : Nat} (h1 : PInv1 s) (h : PInv2 s) (hs : sys.step s (.unsubDecN t) = some s') : PInv2 s' := by
  simp only [sys, step] at hs
  split at hs
  · rename_i g; cases hs
    have ho := h.mustOwe t (Or.inl g.1)
    have hA : ∃ a, inA (s.senders a).pc = true :=
      exists_inA_of_not_quiet (fun hq => absurd g.1 ((h.quiet hq).2 t).2.1)
    obtain ⟨a, ha⟩ := hA
    have hnc : ∀ b, (s.senders b).pc ≠ .counted := by
      intro b hb
      have := h1.singleM b a (by simp [hb, inM]) (inM_of_inA ha)
      subst this; rw [hb] at ha; simp [inA] at ha
    refine pinv2_sub_cnt h t (lt_nSubs h1 t (by simp [g.1])) { s.subs t with pc := .decNoLock } (s.subsCount - 1)
      rfl rfl rfl rfl rfl rfl rfl rfl hnc ?_ ?_ rfl ?_ ?_ ?_ ?_ ?_ ?_
    · have := g.2; simp [cntI, g.1]; omega
    · have := h.cntBound; omega
    · simp [absI, g.1]
    · simp [gotI, g.1]
    · intro _; simp
    · intro _; exact ho
    · intro _ hp; simp at hp
    · intro hq; rw [hq a] at ha; cases ha
  · cases hs

end BB.PubSub

namespace BB.PubSub
open BB.Fun BB.Caster

theorem exists_inG_of {s : St} (hn : ¬ ∀ a, inG (s.senders a).pc = false) : ∃ a, inG (s.senders a).pc = true := by
  apply Classical.byContradiction
  intro hne; apply hn; intro a
  cases ha : inG (s.senders a).pc with
  | false => rfl
  | true => exact absurd ⟨a, ha⟩ hne

/-- a pong can only be outstanding while some Send is in its pong phase -/
theorem ponging_of_pong {s : St} (h : PInv2 s) (hp : 0 < s.pongN) : ∃ a, (s.senders a).pc = .ponging := by
  have : ∃ a, inG (s.senders a).pc = true := exists_inG_of (fun hq => by have := (h.gotIdle hq).2; omega)
  obtain ⟨a, ha⟩ := this
  cases hpc : (s.senders a).pc <;> simp [hpc, inG] at ha
  · have := (h.arm a hpc).2.2.2.2.1; omega
  · have := (h.chk a (Or.inl hpc)).2; omega
  · have := (h.chk a (Or.inr hpc)).2; omega
  · exact ⟨a, hpc⟩

theorem pinv2_consume_core {s s' : St} (h1 : PInv1 s) (h : PInv2 s) (t : Nat) (u' : Sub)
    (g1 : (s.subs t).pc = .got) (g2 : 0 < s.pongN)
    (e1 : s'.subs = upd s.subs t u') (e2 : s'.nSubs = s.nSubs) (e3 : s'.panicked = s.panicked) (e4 : s'.senders = s.senders)
    (e5 : s'.word = s.word) (e6 : s'.subsCount = s.subsCount) (e7 : s'.pongN = s.pongN - 1) (e8 : s'.delivered = s.delivered)
    (up : u'.pc = .idle) (uo : u'.owes = (s.subs t).owes) : PInv2 s' := by
  obtain ⟨a, ha⟩ := ponging_of_pong h g2
  have haM : inM (s.senders a).pc = true := by simp [ha, inM]
  have uniq : ∀ b, inM (s.senders b).pc = true → b = a := fun b hb => h1.singleM b a hb haM
  have noA : ∀ b, inA (s.senders b).pc = false := by
    intro b
    cases hb : inA (s.senders b).pc with
    | false => rfl
    | true => have := uniq b (inM_of_inA hb); subst this; rw [ha] at hb; simp [inA] at hb
  have ht := lt_nSubs h1 t (by simp [g1])
  have hof := owes_false_of_pc h t (by simp [g1])
  have hpng := h.png a ha
  have hgt : 1 ≤ SUM gotI s := by have := SUM_pos_pt gotI (s := s) ht; simp [gotI, g1] at this; exact this
  have hq := h.quiet noA
  have sC : SUM cntI s' = SUM cntI s := by
    have := SUM_set cntI ht e1 e2; simp [cntI, up, g1] at this; omega
  have sO : SUM oweI s' = SUM oweI s := by
    have := SUM_set oweI ht e1 e2; simp [oweI, uo, hof] at this; omega
  have sG : SUM gotI s' + 1 = SUM gotI s := by
    have := SUM_set gotI ht e1 e2; simp [gotI, up, g1] at this; omega
  have hsub : ∀ v, v ≠ t → s'.subs v = s.subs v := fun v e => by rw [e1]; exact upd_other _ _ e
  have hself : s'.subs t = u' := by rw [e1]; exact upd_same _ _ _
  have vac : ∀ b, (s.senders b).pc ≠ .ponging → inM (s.senders b).pc = true → False := by
    intro b hb hm; have := uniq b hm; subst this; exact hb ha
  constructor
  · rw [e3]; exact h.np
  · rw [e6, sC]; exact h.cntSum
  · rw [e6]; exact h.cntBound
  · intro _
    refine ⟨by rw [e5]; exact hq.1, fun v => ?_⟩
    by_cases e : v = t
    · subst e; rw [hself, uo, up]; exact ⟨hof, by simp, by simp, by simp⟩
    · rw [hsub v e]; exact hq.2 v
  · intro b hb; exfalso; rw [e4] at hb
    rcases hb with hb | hb <;> exact vac b (by rw [hb]; simp) (by rw [hb]; rfl)
  · intro b hb; exfalso; rw [e4] at hb
    exact vac b (by rw [hb]; simp) (by rw [hb]; rfl)
  · intro v hv
    by_cases e : v = t
    · subst e; rw [hself, uo, hof] at hv; cases hv
    · rw [hsub v e] at hv ⊢; exact h.owesWhere v hv
  · intro v hv
    by_cases e : v = t
    · subst e; rw [hself, up] at hv; simp at hv
    · rw [hsub v e] at hv ⊢; exact h.mustOwe v hv
  · intro ⟨b, hb⟩; rw [e4] at hb; have := noA b; rw [hb] at this; cases this
  · intro b hb; exfalso; rw [e4] at hb
    exact vac b (by rw [hb]; simp) (by rw [hb]; rfl)
  · intro hq'; have := hq' a; rw [e4, ha] at this; simp [inG] at this
  · intro b hb; exfalso; rw [e4] at hb
    rcases hb with hb | hb <;> exact vac b (by rw [hb]; simp) (by rw [hb]; rfl)
  · intro b _
    rw [e7]; omega

theorem pinv2_consume {s s' : St} {t : Nat} (h1 : PInv1 s) (h : PInv2 s) (hs : sys.step s (.consume t) = some s') : PInv2 s' := by
  simp only [sys, step] at hs
  split at hs
  · rename_i g; cases hs
    exact pinv2_consume_core h1 h t _ g.1 g.2 rfl rfl rfl rfl rfl rfl rfl rfl rfl rfl
  · cases hs

end BB.PubSub

namespace BB.PubSub
open BB.Fun BB.Caster

/-- facts available while sender `a` is in its send phase -/
theorem sending_facts {s : St} (h1 : PInv1 s) {a : Nat} (ha : (s.senders a).pc = .sending) :
    (∀ b, inM (s.senders b).pc = true → b = a) ∧ (∃ b, inA (s.senders b).pc = true) := by
  have haM : inM (s.senders a).pc = true := by simp [ha, inM]
  exact ⟨fun b hb => h1.singleM b a hb haM, ⟨a, by simp [ha, inA]⟩⟩

/-- a rendezvous in the send phase of `a`: subscriber `t` changes from `u` to `u'`, the sender's `k` grows by one -/
theorem pinv2_xfer_core {s s' : St} (h1 : PInv1 s) (h : PInv2 s) (a t : Nat) (u' : Sub) (x' : Sender)
    (ga : (s.senders a).pc = .sending) (ht : t < s.nSubs)
    (e1 : s'.subs = upd s.subs t u') (e2 : s'.nSubs = s.nSubs) (e3 : s'.panicked = s.panicked) (e4 : s'.senders = upd s.senders a x')
    (e5 : s'.word = s.word) (e6 : s'.subsCount = s.subsCount) (e7 : s'.pongN = s.pongN)
    (xpc : x'.pc = .sending) (xk : x'.k = (s.senders a).k + 1) (xn : x'.armedN = (s.senders a).armedN)
    (hc : cntI u' = cntI (s.subs t)) (uo : u'.owes = false)
    (up : u'.pc ≠ .idle ∧ u'.pc ≠ .tryFailed ∧ u'.pc ≠ .sawPing ∧ u'.pc ≠ .decNoLock)
    -- either a genuine delivery (one less owing, one more got, one more delivered) or an absorb (one less absorbing)
    (hkind : (oweI (s.subs t) = 1 ∧ absI u' = absI (s.subs t) ∧ gotI u' = gotI (s.subs t) + 1 ∧ s'.delivered = s.delivered + 1) ∨
             (oweI (s.subs t) = 0 ∧ absI (s.subs t) = absI u' + 1 ∧ gotI u' = gotI (s.subs t) ∧ s'.delivered = s.delivered)) :
    PInv2 s' := by
  obtain ⟨uniq, hex⟩ := sending_facts h1 ga
  obtain ⟨hw, hsum, hbnd, hgd, hpn, hdk⟩ := h.arm a ga
  have sC : SUM cntI s' = SUM cntI s := by have := SUM_set cntI ht e1 e2; omega
  have sO := SUM_set oweI ht e1 e2
  have sA := SUM_set absI ht e1 e2
  have sG := SUM_set gotI ht e1 e2
  have ou' : oweI u' = 0 := by simp [oweI, uo]
  have hsub : ∀ v, v ≠ t → s'.subs v = s.subs v := fun v e => by rw [e1]; exact upd_other _ _ e
  have hself : s'.subs t = u' := by rw [e1]; exact upd_same _ _ _
  have hsen : ∀ b, b ≠ a → s'.senders b = s.senders b := fun b e => by rw [e4]; exact upd_other _ _ e
  have hsa : s'.senders a = x' := by rw [e4]; exact upd_same _ _ _
  have pcs : ∀ b, (s'.senders b).pc = (s.senders b).pc := by
    intro b; by_cases e : b = a
    · subst e; rw [hsa, xpc, ga]
    · rw [hsen b e]
  have vac : ∀ b, (s.senders b).pc ≠ .sending → inM (s.senders b).pc = true → False := by
    intro b hne hm; have := uniq b hm; subst this; exact hne ga
  constructor
  · rw [e3]; exact h.np
  · rw [e6, sC]; exact h.cntSum
  · rw [e6]; exact h.cntBound
  · intro hq; have := hq a; rw [pcs, ga] at this; simp [inA] at this
  · intro b hb; exfalso; rw [pcs] at hb
    rcases hb with hb | hb <;> exact vac b (by rw [hb]; simp) (by rw [hb]; rfl)
  · intro b hb
    rw [pcs] at hb
    have := uniq b (by rw [hb]; rfl); subst this
    rw [hsa, xk, xn, e5, e7]
    rcases hkind with ⟨k1, k2, k3, k4⟩ | ⟨k1, k2, k3, k4⟩
    · refine ⟨?_, by omega, hbnd, by omega, hpn, by omega⟩
      rw [hw]; congr 1; omega
    · refine ⟨?_, by omega, hbnd, by omega, hpn, by omega⟩
      rw [hw]; congr 1; omega
  · intro v hv
    by_cases e : v = t
    · subst e; rw [hself, uo] at hv; cases hv
    · rw [hsub v e] at hv ⊢; exact h.owesWhere v hv
  · intro v hv
    by_cases e : v = t
    · subst e; rw [hself] at hv; rcases hv with hv | hv
      · exact absurd hv up.2.2.1
      · exact absurd hv up.2.2.2
    · rw [hsub v e] at hv ⊢; exact h.mustOwe v hv
  · intro _ v hv
    by_cases e : v = t
    · subst e; rw [hself] at hv; rcases hv with hv | hv
      · exact absurd hv up.1
      · exact absurd hv up.2.1
    · rw [hsub v e] at hv ⊢; exact h.idleOwes hex v hv
  · intro b hb; exfalso; rw [pcs] at hb
    exact vac b (by rw [hb]; simp) (by rw [hb]; rfl)
  · intro hq; have := hq a; rw [pcs, ga] at this; simp [inG] at this
  · intro b hb; exfalso; rw [pcs] at hb
    rcases hb with hb | hb <;> exact vac b (by rw [hb]; simp) (by rw [hb]; rfl)
  · intro b hb; exfalso; rw [pcs] at hb
    exact vac b (by rw [hb]; simp) (by rw [hb]; rfl)

theorem pinv2_recv {s s' : St} {a t : Nat} (h1 : PInv1 s) (h : PInv2 s) (hs : sys.step s (.recv a t) = some s') : PInv2 s' := by
  simp only [sys, step] at hs
  split at hs
  · rename_i g; obtain ⟨g1, g2, g3⟩ := g; cases hs
    have hex : ∃ b, inA (s.senders b).pc = true := ⟨a, by simp [g1, inA]⟩
    have ho := h.idleOwes hex t (Or.inl g3)
    exact pinv2_xfer_core h1 h a t { s.subs t with pc := .got, cur := (s.senders a).val, owes := false, nextSeq := s.log.length + 1 } { s.senders a with k := (s.senders a).k + 1 }
      g1 (lt_nSubs h1 t (by simp [g3])) rfl rfl rfl rfl rfl rfl rfl g1 rfl rfl (by simp [cntI, g3]) rfl (by simp)
      (Or.inl ⟨by simp [oweI, ho], by simp [absI, g3], by simp [gotI, g3], rfl⟩)
  · cases hs

theorem pinv2_absorb {s s' : St} {a t : Nat} (h1 : PInv1 s) (h : PInv2 s) (hs : sys.step s (.absorb a t) = some s') : PInv2 s' := by
  simp only [sys, step] at hs
  split at hs
  · rename_i g; obtain ⟨g1, g2, g3⟩ := g; cases hs
    have hof := owes_false_of_pc h t (by simp [g3])
    exact pinv2_xfer_core h1 h a t { s.subs t with pc := .out } { s.senders a with k := (s.senders a).k + 1 }
      g1 (lt_nSubs h1 t (by simp [g3])) rfl rfl rfl rfl rfl rfl rfl g1 rfl rfl (by simp [cntI, g3]) hof (by simp)
      (Or.inr ⟨by simp [oweI, hof], by simp [absI, g3], by simp [gotI, g3], rfl⟩)
  · cases hs

end BB.PubSub

namespace BB.PubSub
open BB.Fun BB.Caster

/-- `ping.Add(-1)` by a subscriber that took the no-lock path; `armedPhase` tells which phase the Send is in -/
theorem pinv2_pingSub_core {s s' : St} (h1 : PInv1 s) (h : PInv2 s) (a t : Nat) (u' : Sub) (w' : Nat)
    (gt : (s.subs t).pc = .decNoLock) (ht : t < s.nSubs)
    (e1 : s'.subs = upd s.subs t u') (e2 : s'.nSubs = s.nSubs) (e3 : s'.panicked = s.panicked) (e4 : s'.senders = s.senders)
    (e5 : s'.word = w') (e6 : s'.subsCount = s.subsCount) (e7 : s'.pongN = s.pongN) (e8 : s'.delivered = s.delivered)
    (uo : u'.owes = false)
    (hphase : (((s.senders a).pc = .added ∨ (s.senders a).pc = .loaded) ∧ u'.pc = .out ∧ w' = idleWord (SUM oweI s - 1)) ∨
              ((s.senders a).pc = .sending ∧ u'.pc = .absorbing ∧ w' = armedWord (SUM oweI s - 1 + s.delivered))) :
    PInv2 s' := by
  have ho := h.mustOwe t (Or.inr gt)
  have ho1 : oweI (s.subs t) = 1 := by simp [oweI, ho]
  have hO1 : 1 ≤ SUM oweI s := by have := SUM_pos_pt oweI (s := s) ht; omega
  have haA : inA (s.senders a).pc = true := by
    rcases hphase with ⟨hp | hp, _⟩ | ⟨hp, _⟩ <;> simp [hp, inA]
  have haM := inM_of_inA haA
  have uniq : ∀ b, inM (s.senders b).pc = true → b = a := fun b hb => h1.singleM b a hb haM
  have sC : SUM cntI s' = SUM cntI s := by
    have := SUM_set cntI ht e1 e2
    have c1 : cntI (s.subs t) = 0 := by simp [cntI, gt]
    have c2 : cntI u' = 0 := by rcases hphase with ⟨_, hp, _⟩ | ⟨_, hp, _⟩ <;> simp [cntI, hp]
    omega
  have sO : SUM oweI s' + 1 = SUM oweI s := by
    have := SUM_set oweI ht e1 e2
    have : oweI u' = 0 := by simp [oweI, uo]
    omega
  have sG : SUM gotI s' = SUM gotI s := by
    have := SUM_set gotI ht e1 e2
    have c1 : gotI (s.subs t) = 0 := by simp [gotI, gt]
    have c2 : gotI u' = 0 := by rcases hphase with ⟨_, hp, _⟩ | ⟨_, hp, _⟩ <;> simp [gotI, hp]
    omega
  have sA := SUM_set absI ht e1 e2
  have a1 : absI (s.subs t) = 0 := by simp [absI, gt]
  have hsub : ∀ v, v ≠ t → s'.subs v = s.subs v := fun v e => by rw [e1]; exact upd_other _ _ e
  have hself : s'.subs t = u' := by rw [e1]; exact upd_same _ _ _
  have upc : u'.pc ≠ .idle ∧ u'.pc ≠ .tryFailed ∧ u'.pc ≠ .sawPing ∧ u'.pc ≠ .decNoLock := by
    rcases hphase with ⟨_, hp, _⟩ | ⟨_, hp, _⟩ <;> simp [hp]
  constructor
  · rw [e3]; exact h.np
  · rw [e6, sC]; exact h.cntSum
  · rw [e6]; exact h.cntBound
  · intro hq; have := hq a; rw [e4, haA] at this; cases this
  · intro b hb
    rw [e4] at hb
    have hbM : inM (s.senders b).pc = true := by rcases hb with hb | hb <;> rw [hb] <;> rfl
    have := uniq b hbM; subst this
    rcases hphase with ⟨_, hp, hw⟩ | ⟨hp, _, _⟩
    · obtain ⟨p1, p2, p3, p4, p5, p6⟩ := h.pre b hb
      have a2 : absI u' = 0 := by simp [absI, hp]
      refine ⟨?_, by omega, by rw [e8]; exact p3, by omega, by omega, by rw [e7]; exact p6⟩
      rw [e5, hw]; congr 1; omega
    · rcases hb with hb | hb <;> rw [hp] at hb <;> cases hb
  · intro b hb
    rw [e4] at hb ⊢
    have := uniq b (by rw [hb]; rfl); subst this
    rcases hphase with ⟨hp | hp, _, _⟩ | ⟨_, hp, hw⟩
    · rw [hb] at hp; cases hp
    · rw [hb] at hp; cases hp
    · obtain ⟨p1, p2, p3, p4, p5, p6⟩ := h.arm b hb
      have a2 : absI u' = 1 := by simp [absI, hp]
      refine ⟨?_, by omega, p3, by rw [e8]; omega, by rw [e7]; exact p5, by rw [e8]; exact p6⟩
      rw [e5, hw, e8]; congr 1; omega
  · intro v hv
    by_cases e : v = t
    · subst e; rw [hself, uo] at hv; cases hv
    · rw [hsub v e] at hv ⊢; exact h.owesWhere v hv
  · intro v hv
    by_cases e : v = t
    · subst e; rw [hself] at hv; rcases hv with hv | hv
      · exact absurd hv upc.2.2.1
      · exact absurd hv upc.2.2.2
    · rw [hsub v e] at hv ⊢; exact h.mustOwe v hv
  · intro _ v hv
    by_cases e : v = t
    · subst e; rw [hself] at hv; rcases hv with hv | hv
      · exact absurd hv upc.1
      · exact absurd hv upc.2.1
    · rw [hsub v e] at hv ⊢; exact h.idleOwes ⟨a, haA⟩ v hv
  · intro b hb; exfalso; rw [e4] at hb
    have := uniq b (by rw [hb]; rfl); subst this
    rw [hb] at haA; simp [inA] at haA
  · intro hq; rw [e4] at hq; rw [sG, e7]; exact h.gotIdle hq
  · intro b hb; rw [e4] at hb ⊢; rw [sG, e7]; exact h.chk b hb
  · intro b hb; rw [e4] at hb; rw [sG, e7]; exact h.png b hb

theorem pinv2_pingSub {s s' : St} {t : Nat} (h1 : PInv1 s) (h : PInv2 s) (hs : sys.step s (.pingSub t) = some s') : PInv2 s' := by
  simp only [sys, step] at hs
  split at hs
  · rename_i g
    have ht := lt_nSubs h1 t (by simp [g.1])
    have ho := h.mustOwe t (Or.inr g.1)
    have hO1 : 1 ≤ SUM oweI s := by have := SUM_pos_pt oweI (s := s) ht; simp [oweI, ho] at this; exact this
    obtain ⟨a, ha⟩ := exists_inA_of_not_quiet (fun hq => absurd g.1 ((h.quiet hq).2 t).2.2.1)
    cases hp : (s.senders a).pc <;> simp [hp, inA] at ha
    · -- added
      obtain ⟨hw, hb, _⟩ := h.pre a (Or.inl hp)
      have hadd := add_neg_idle (SUM oweI s) 1 (by omega) hO1 hb
      rw [subOne_eq, hw, hadd] at hs
      simp only [↓reduceIte] at hs
      cases hs
      exact pinv2_pingSub_core h1 h a t _ _ g.1 ht rfl rfl rfl rfl rfl rfl rfl rfl rfl (Or.inl ⟨Or.inl hp, rfl, rfl⟩)
    · -- loaded
      obtain ⟨hw, hb, _⟩ := h.pre a (Or.inr hp)
      have hadd := add_neg_idle (SUM oweI s) 1 (by omega) hO1 hb
      rw [subOne_eq, hw, hadd] at hs
      simp only [↓reduceIte] at hs
      cases hs
      exact pinv2_pingSub_core h1 h a t _ _ g.1 ht rfl rfl rfl rfl rfl rfl rfl rfl rfl (Or.inl ⟨Or.inr hp, rfl, rfl⟩)
    · -- sending
      obtain ⟨hw, hsum, hb, _, _, hdk⟩ := h.arm a hp
      have hadd := add_neg_armed (SUM oweI s + s.delivered) 1 (by omega) (by omega) (by omega)
      rw [subOne_eq, hw, hadd] at hs
      have one_ne : ¬ (1 = 0) := by omega
      simp only [one_ne, ↓reduceIte] at hs
      cases hs
      have earith : SUM oweI s + s.delivered - 1 = SUM oweI s - 1 + s.delivered := by omega
      refine pinv2_pingSub_core h1 h a t _ _ g.1 ht rfl rfl rfl rfl rfl rfl rfl rfl rfl (Or.inr ⟨hp, rfl, ?_⟩)
      rw [earith]
  · cases hs

end BB.PubSub

namespace BB.PubSub
open BB.Fun BB.Caster

theorem inM_of_special {pc : SPc}
    (h : pc = .counted ∨ pc = .added ∨ pc = .loaded ∨ pc = .sending ∨ pc = .checked ∨ pc = .released ∨ pc = .ponging) : inM pc = true := by
  rcases h with h | h | h | h | h | h | h <;> rw [h] <;> rfl

/-- a sender step that leaves the subscriber records alone.  The clauses about the acting sender `a` and the global
    clauses are obligations on the new state; for the other senders either nothing they can see changed, or none of
    them holds sendMu (so no clause speaks about them). -/
theorem pinv2_sender_core {s s' : St} (h : PInv2 s) (a : Nat) (x' : Sender)
    (e1 : s'.subs = s.subs) (e2 : s'.nSubs = s.nSubs) (e3 : s'.panicked = s.panicked) (e4 : s'.senders = upd s.senders a x')
    (e6 : s'.subsCount = s.subsCount)
    (hoth : (∀ b, b ≠ a → inM (s.senders b).pc = false) ∨ (s'.word = s.word ∧ s'.pongN = s.pongN ∧ s'.delivered = s.delivered))
    (q : (∀ b, inA (s'.senders b).pc = false) →
           s'.word = 0 ∧ ∀ t, (s.subs t).owes = false ∧ (s.subs t).pc ≠ .sawPing ∧ (s.subs t).pc ≠ .decNoLock ∧ (s.subs t).pc ≠ .absorbing)
    (hpre : (x'.pc = .added ∨ x'.pc = .loaded) →
           s'.word = idleWord (SUM oweI s) ∧ SUM oweI s ≤ MAXR ∧ s'.delivered = 0 ∧ SUM absI s = 0 ∧ SUM gotI s = 0 ∧ s'.pongN = 0)
    (harm : x'.pc = .sending →
           s'.word = armedWord (SUM oweI s + s'.delivered) ∧ SUM oweI s + SUM absI s + x'.k = x'.armedN ∧
           x'.armedN ≤ MAXR ∧ SUM gotI s = s'.delivered ∧ s'.pongN = 0 ∧ s'.delivered ≤ x'.k)
    (hio : (∃ b, inA (s'.senders b).pc = true) → ∀ t, ((s.subs t).pc = .idle ∨ (s.subs t).pc = .tryFailed) → (s.subs t).owes = true)
    (hcnt : x'.pc = .counted → x'.n = s.subsCount ∧ 0 < x'.n)
    (hgi : (∀ b, inG (s'.senders b).pc = false) → SUM gotI s = 0 ∧ s'.pongN = 0)
    (hchk : (x'.pc = .checked ∨ x'.pc = .released) → SUM gotI s = x'.sent ∧ s'.pongN = 0)
    (hpng : x'.pc = .ponging → SUM gotI s = s'.pongN) : PInv2 s' := by
  have sums : ∀ f, SUM f s' = SUM f s := fun f => SUM_same f e1 e2
  have hsen : ∀ b, b ≠ a → s'.senders b = s.senders b := fun b e => by rw [e4]; exact upd_other _ _ e
  have hsa : s'.senders a = x' := by rw [e4]; exact upd_same _ _ _
  -- a clause about another sender carries over
  have other : ∀ b, b ≠ a →
      ((s.senders b).pc = .counted ∨ (s.senders b).pc = .added ∨ (s.senders b).pc = .loaded ∨ (s.senders b).pc = .sending ∨
       (s.senders b).pc = .checked ∨ (s.senders b).pc = .released ∨ (s.senders b).pc = .ponging) →
      s'.word = s.word ∧ s'.pongN = s.pongN ∧ s'.delivered = s.delivered := by
    intro b e hb
    rcases hoth with ho | ho
    · have := ho b e; rw [inM_of_special hb] at this; cases this
    · exact ho
  constructor
  · rw [e3]; exact h.np
  · rw [e6, sums]; exact h.cntSum
  · rw [e6]; exact h.cntBound
  · intro hq; rw [e1]; exact q hq
  · intro b hb
    by_cases e : b = a
    · subst e; rw [hsa] at hb; rw [sums, sums, sums]; exact hpre hb
    · rw [hsen b e] at hb
      obtain ⟨o1, o2, o3⟩ := other b e (by rcases hb with hb | hb <;> simp [hb])
      rw [o1, o2, o3, sums, sums, sums]; exact h.pre b hb
  · intro b hb
    by_cases e : b = a
    · subst e; rw [hsa] at hb ⊢; rw [sums, sums, sums]; exact harm hb
    · rw [hsen b e] at hb ⊢
      obtain ⟨o1, o2, o3⟩ := other b e (by simp [hb])
      rw [o1, o2, o3, sums, sums, sums]; exact h.arm b hb
  · rw [e1]; exact h.owesWhere
  · rw [e1]; exact h.mustOwe
  · intro hex; rw [e1]; exact hio hex
  · intro b hb
    by_cases e : b = a
    · subst e; rw [hsa] at hb ⊢; rw [e6]; exact hcnt hb
    · rw [hsen b e] at hb ⊢; rw [e6]; exact h.counted b hb
  · intro hq; rw [sums]; exact hgi hq
  · intro b hb
    by_cases e : b = a
    · subst e; rw [hsa] at hb ⊢; rw [sums]; exact hchk hb
    · rw [hsen b e] at hb ⊢
      obtain ⟨o1, o2, o3⟩ := other b e (by rcases hb with hb | hb <;> simp [hb])
      rw [o2, sums]; exact h.chk b hb
  · intro b hb
    by_cases e : b = a
    · subst e; rw [hsa] at hb; rw [sums]; exact hpng hb
    · rw [hsen b e] at hb
      obtain ⟨o1, o2, o3⟩ := other b e (by simp [hb])
      rw [o2, sums]; exact h.png b hb

end BB.PubSub

namespace BB.PubSub
open BB.Fun BB.Caster

/-- a sender step outside the phases the counting clauses speak about -/
theorem pinv2_sender_neutral {s s' : St} (h : PInv2 s) (a : Nat) (x' : Sender)
    (e1 : s'.subs = s.subs) (e2 : s'.nSubs = s.nSubs) (e3 : s'.panicked = s.panicked) (e4 : s'.senders = upd s.senders a x')
    (e5 : s'.word = s.word) (e6 : s'.subsCount = s.subsCount) (e7 : s'.pongN = s.pongN) (e8 : s'.delivered = s.delivered)
    (oA : inA (s.senders a).pc = false) (nA : inA x'.pc = false) (oG : inG (s.senders a).pc = false) (nG : inG x'.pc = false)
    (hcnt : x'.pc = .counted → x'.n = s.subsCount ∧ 0 < x'.n) : PInv2 s' := by
  have hsen : ∀ b, b ≠ a → s'.senders b = s.senders b := fun b e => by rw [e4]; exact upd_other _ _ e
  have hsa : s'.senders a = x' := by rw [e4]; exact upd_same _ _ _
  have qA : (∀ b, inA (s'.senders b).pc = false) → ∀ b, inA (s.senders b).pc = false := by
    intro hq b; by_cases e : b = a
    · subst e; exact oA
    · have := hq b; rw [hsen b e] at this; exact this
  have qG : (∀ b, inG (s'.senders b).pc = false) → ∀ b, inG (s.senders b).pc = false := by
    intro hq b; by_cases e : b = a
    · subst e; exact oG
    · have := hq b; rw [hsen b e] at this; exact this
  refine pinv2_sender_core h a x' e1 e2 e3 e4 e6 (Or.inr ⟨e5, e7, e8⟩) ?_ ?_ ?_ ?_ hcnt ?_ ?_ ?_
  · intro hq; rw [e5]; exact h.quiet (qA hq)
  · intro hp; rcases hp with hp | hp <;> rw [hp] at nA <;> simp [inA] at nA
  · intro hp; rw [hp] at nA; simp [inA] at nA
  · intro ⟨b, hb⟩
    by_cases e : b = a
    · subst e; rw [hsa, nA] at hb; cases hb
    · rw [hsen b e] at hb; exact h.idleOwes ⟨b, hb⟩
  · intro hq; rw [e7]; exact h.gotIdle (qG hq)
  · intro hp; rcases hp with hp | hp <;> rw [hp] at nG <;> simp [inG] at nG
  · intro hp; rw [hp] at nG; simp [inG] at nG

theorem pinv2_sbegin {s s' : St} {a v : Nat} (h : PInv2 s) (hs : sys.step s (.sbegin a v) = some s') : PInv2 s' := by
  simp only [sys, step] at hs
  split at hs
  · rename_i g
    split at hs
    · cases hs
      exact pinv2_sender_neutral h a _ rfl rfl rfl rfl rfl rfl rfl rfl (by simp [g.1, inA]) (by simp [inA]) (by simp [g.1, inG]) (by simp [inG]) (by simp)
    · cases hs
      exact pinv2_sender_neutral h a _ rfl rfl rfl rfl rfl rfl rfl rfl (by simp [g.1, inA]) (by simp [inA]) (by simp [g.1, inG]) (by simp [inG]) (by simp)
  · cases hs

theorem pinv2_sendMu {s s' : St} {a : Nat} (h : PInv2 s) (hs : sys.step s (.sendMu a) = some s') : PInv2 s' := by
  simp only [sys, step] at hs
  split at hs
  · rename_i g; cases hs
    exact pinv2_sender_neutral h a _ rfl rfl rfl rfl rfl rfl rfl rfl (by simp [g.1, inA]) (by simp [inA]) (by simp [g.1, inG]) (by simp [inG]) (by simp)
  · cases hs

theorem pinv2_sending {s s' : St} {a : Nat} (h : PInv2 s) (hs : sys.step s (.sending a) = some s') : PInv2 s' := by
  simp only [sys, step] at hs
  split at hs
  · rename_i g; cases hs
    exact pinv2_sender_neutral h a _ rfl rfl rfl rfl rfl rfl rfl rfl (by simp [g.1, inA]) (by simp [inA]) (by simp [g.1, inG]) (by simp [inG]) (by simp)
  · cases hs

theorem pinv2_count {s s' : St} {a : Nat} (h : PInv2 s) (hs : sys.step s (.count a) = some s') : PInv2 s' := by
  simp only [sys, step] at hs
  split at hs
  · rename_i g
    split at hs
    · cases hs
      exact pinv2_sender_neutral h a _ rfl rfl rfl rfl rfl rfl rfl rfl (by simp [g, inA]) (by simp [inA]) (by simp [g, inG]) (by simp [inG]) (by simp)
    · rename_i hne; cases hs
      exact pinv2_sender_neutral h a _ rfl rfl rfl rfl rfl rfl rfl rfl (by simp [g, inA]) (by simp [inA]) (by simp [g, inG]) (by simp [inG])
        (fun _ => ⟨rfl, by simp only; omega⟩)
  · cases hs

theorem pinv2_sdone {s s' : St} {a : Nat} (h : PInv2 s) (hs : sys.step s (.sdone a) = some s') : PInv2 s' := by
  simp only [sys, step] at hs
  split at hs
  · rename_i g; cases hs
    exact pinv2_sender_neutral h a _ rfl rfl rfl rfl rfl rfl rfl rfl (by simp [g, inA]) (by simp [inA]) (by simp [g, inG]) (by simp [inG]) (by simp)
  · cases hs

end BB.PubSub

namespace BB.PubSub
open BB.Fun BB.Caster

theorem others_not_M {s : St} (h1 : PInv1 s) {a : Nat} (ha : inM (s.senders a).pc = true) : ∀ b, b ≠ a → inM (s.senders b).pc = false :=
  fun _ e => only_M h1 ha e

/-- the send phase (or the attempt to start it) ends: nobody owes anything any more, the word is 0 -/
theorem pinv2_to_checked {s s' : St} (h1 : PInv1 s) (h : PInv2 s) (a : Nat) (x' : Sender)
    (haA : inA (s.senders a).pc = true)
    (e1 : s'.subs = s.subs) (e2 : s'.nSubs = s.nSubs) (e3 : s'.panicked = s.panicked) (e4 : s'.senders = upd s.senders a x')
    (e5 : s'.word = 0) (e6 : s'.subsCount = s.subsCount) (e7 : s'.pongN = s.pongN) (e8 : s'.delivered = s.delivered)
    (xpc : x'.pc = .checked) (hO : SUM oweI s = 0) (hAb : SUM absI s = 0) (hsent : x'.sent = SUM gotI s) (hpn : s.pongN = 0) : PInv2 s' := by
  have haM := inM_of_inA haA
  have hsen : ∀ b, b ≠ a → s'.senders b = s.senders b := fun b e => by rw [e4]; exact upd_other _ _ e
  have hsa : s'.senders a = x' := by rw [e4]; exact upd_same _ _ _
  have noA' : ∀ b, inA (s'.senders b).pc = false := by
    intro b; by_cases e : b = a
    · subst e; rw [hsa, xpc]; rfl
    · rw [hsen b e]
      cases hb : inA (s.senders b).pc with
      | false => rfl
      | true => have := only_M h1 haM e; rw [inM_of_inA hb] at this; cases this
  refine pinv2_sender_core h a x' e1 e2 e3 e4 e6 (Or.inl (others_not_M h1 haM)) ?_ ?_ ?_ ?_ ?_ ?_ ?_ ?_
  · intro _
    refine ⟨e5, fun t => ?_⟩
    have o0 := SUM_zero_pt oweI hO rfl h1 t
    have a0 := SUM_zero_pt absI hAb rfl h1 t
    have hof : (s.subs t).owes = false := by
      cases ho : (s.subs t).owes with
      | false => rfl
      | true => simp [oweI, ho] at o0
    refine ⟨hof, ?_, ?_, ?_⟩
    · intro hp; have := h.mustOwe t (Or.inl hp); rw [hof] at this; cases this
    · intro hp; have := h.mustOwe t (Or.inr hp); rw [hof] at this; cases this
    · intro hp; simp [absI, hp] at a0
  · intro hp; rcases hp with hp | hp <;> rw [xpc] at hp <;> cases hp
  · intro hp; rw [xpc] at hp; cases hp
  · intro ⟨b, hb⟩; rw [noA' b] at hb; cases hb
  · intro hp; rw [xpc] at hp; cases hp
  · intro hq; have := hq a; rw [hsa, xpc] at this; simp [inG] at this
  · intro _; exact ⟨hsent.symm, by rw [e7]; exact hpn⟩
  · intro hp; rw [xpc] at hp; cases hp

theorem pinv2_cfinal {s s' : St} {a : Nat} (h1 : PInv1 s) (h : PInv2 s) (hs : sys.step s (.cfinal a) = some s') : PInv2 s' := by
  simp only [sys, step] at hs
  split at hs
  · rename_i g; obtain ⟨g1, g2, g3⟩ := g
    obtain ⟨hw, hsum, hb, hgd, hpn, hdk⟩ := h.arm a g1
    have hO : SUM oweI s = 0 := by omega
    have hAb : SUM absI s = 0 := by omega
    have hfin : finish s.word (s.senders a).armedN = some s.delivered := by
      rw [hw, hO, Nat.zero_add]; exact finish_armed _ _ (by omega) (by omega)
    rw [hfin] at hs
    cases hs
    exact pinv2_to_checked h1 h a _ (by simp [g1, inA]) rfl rfl rfl rfl rfl rfl rfl rfl rfl hO hAb (by simp only; omega) hpn
  · cases hs

theorem pinv2_cfast {s s' : St} {a : Nat} (h1 : PInv1 s) (h : PInv2 s) (hs : sys.step s (.cfast a) = some s') : PInv2 s' := by
  simp only [sys, step] at hs
  split at hs
  · rename_i g
    obtain ⟨hw, hb, hd, hAb, hG, hpn⟩ := h.pre a (Or.inl g)
    have haM : inM (s.senders a).pc = true := by simp [g, inM]
    split at hs
    · rename_i hz; cases hs
      have hO : SUM oweI s = 0 := by
        cases Nat.eq_zero_or_pos (SUM oweI s) with
        | inl e => exact e
        | inr e => rw [hw] at hz; exact absurd hz (idleWord_pos e)
      exact pinv2_to_checked h1 h a _ (by simp [g, inA]) rfl rfl rfl rfl hz rfl rfl rfl rfl hO hAb (by simp only; omega) hpn
    · cases hs
      have hsa : ∀ b, b ≠ a → (upd s.senders a { s.senders a with pc := .loaded, snap := 0 }) b = s.senders b := fun b e => upd_other _ _ e
      refine pinv2_sender_core h a { s.senders a with pc := .loaded, snap := 0 } rfl rfl rfl rfl rfl (Or.inr ⟨rfl, rfl, rfl⟩) ?_ ?_ ?_ ?_ ?_ ?_ ?_ ?_
      · intro hq; have := hq a; simp [setSender, inA] at this
      · intro _; exact ⟨hw, hb, hd, hAb, hG, hpn⟩
      · intro hp; cases hp
      · intro _; exact h.idleOwes ⟨a, by simp [g, inA]⟩
      · intro hp; cases hp
      · intro hq
        apply h.gotIdle
        intro b; by_cases e : b = a
        · subst e; simp [g, inG]
        · have := hq b; simp only [setSender, hsa b e] at this; exact this
      · intro hp; rcases hp with hp | hp <;> cases hp
      · intro hp; cases hp
  · cases hs

theorem pinv2_cload {s s' : St} {a : Nat} (h1 : PInv1 s) (h : PInv2 s) (hs : sys.step s (.cload a) = some s') : PInv2 s' := by
  simp only [sys, step] at hs
  split at hs
  · rename_i g; obtain ⟨g1, g2, g3⟩ := g
    obtain ⟨hw, hb, hd, hAb, hG, hpn⟩ := h.pre a (Or.inr g1)
    by_cases hO : SUM oweI s = 0
    · have harm : arm s.word = .zero := by rw [hw, hO, idleWord0]; exact arm_zero
      rw [harm] at hs
      cases hs
      exact pinv2_to_checked h1 h a _ (by simp [g1, inA]) rfl rfl rfl rfl (by show s.word = 0; rw [hw, hO, idleWord0]) rfl rfl rfl rfl hO hAb (by simp only; omega) hpn
    · have hpos : 0 < SUM oweI s := by omega
      have harm : arm s.word = .armed (armedWord (SUM oweI s)) (SUM oweI s) := by rw [hw]; exact arm_idle _ hpos hb
      rw [harm] at hs
      cases hs
      have hsa : ∀ b, b ≠ a → (upd s.senders a { s.senders a with snap := s.word }) b = s.senders b := fun b e => upd_other _ _ e
      refine pinv2_sender_core h a { s.senders a with snap := s.word } rfl rfl rfl rfl rfl (Or.inr ⟨rfl, rfl, rfl⟩) ?_ ?_ ?_ ?_ ?_ ?_ ?_ ?_
      · intro hq; have := hq a; simp [setSender, inA, g1] at this
      · intro _; exact ⟨hw, hb, hd, hAb, hG, hpn⟩
      · intro hp; simp only at hp; rw [g1] at hp; cases hp
      · intro _; exact h.idleOwes ⟨a, by simp [g1, inA]⟩
      · intro hp; simp only at hp; rw [g1] at hp; cases hp
      · intro hq
        apply h.gotIdle
        intro b; by_cases e : b = a
        · subst e; simp [g1, inG]
        · have := hq b; simp only [setSender, hsa b e] at this; exact this
      · intro hp; simp only at hp; rcases hp with hp | hp <;> rw [g1] at hp <;> cases hp
      · intro hp; simp only at hp; rw [g1] at hp; cases hp
  · cases hs

end BB.PubSub

namespace BB.PubSub
open BB.Fun BB.Caster

theorem pinv2_ccas {s s' : St} {a : Nat} (h1 : PInv1 s) (h : PInv2 s) (hs : sys.step s (.ccas a) = some s') : PInv2 s' := by
  simp only [sys, step] at hs
  split at hs
  · rename_i g; obtain ⟨g1, g2⟩ := g
    obtain ⟨hw, hb, hd, hAb, hG, hpn⟩ := h.pre a (Or.inr g1)
    have haM : inM (s.senders a).pc = true := by simp [g1, inM]
    split at hs
    · rename_i heq
      have hpos : 0 < SUM oweI s := by
        cases Nat.eq_zero_or_pos (SUM oweI s) with
        | inl e => rw [← heq, hw, e, idleWord0] at g2; exact absurd rfl g2
        | inr e => exact e
      have harm : arm (s.senders a).snap = .armed (armedWord (SUM oweI s)) (SUM oweI s) := by rw [← heq, hw]; exact arm_idle _ hpos hb
      rw [harm] at hs
      cases hs
      refine pinv2_sender_core h a { s.senders a with pc := .sending, armedN := SUM oweI s, k := 0 } rfl rfl rfl rfl rfl
        (Or.inl (others_not_M h1 haM)) ?_ ?_ ?_ ?_ ?_ ?_ ?_ ?_
      · intro hq; have := hq a; simp [setSender, inA] at this
      · intro hp; rcases hp with hp | hp <;> cases hp
      · intro _
        refine ⟨?_, by simp only; omega, hb, by simp only [setSender]; omega, hpn, by simp only [setSender]; omega⟩
        show armedWord (SUM oweI s) = armedWord (SUM oweI s + s.delivered)
        rw [hd, Nat.add_zero]
      · intro _; exact h.idleOwes ⟨a, by simp [g1, inA]⟩
      · intro hp; cases hp
      · intro hq; have := hq a; simp [setSender, inG] at this
      · intro hp; rcases hp with hp | hp <;> cases hp
      · intro hp; cases hp
    · cases hs
      have hsa : ∀ b, b ≠ a → (upd s.senders a { s.senders a with snap := 0 }) b = s.senders b := fun b e => upd_other _ _ e
      refine pinv2_sender_core h a { s.senders a with snap := 0 } rfl rfl rfl rfl rfl (Or.inr ⟨rfl, rfl, rfl⟩) ?_ ?_ ?_ ?_ ?_ ?_ ?_ ?_
      · intro hq; have := hq a; simp [setSender, inA, g1] at this
      · intro _; exact ⟨hw, hb, hd, hAb, hG, hpn⟩
      · intro hp; simp only at hp; rw [g1] at hp; cases hp
      · intro _; exact h.idleOwes ⟨a, by simp [g1, inA]⟩
      · intro hp; simp only at hp; rw [g1] at hp; cases hp
      · intro hq
        apply h.gotIdle
        intro b; by_cases e : b = a
        · subst e; simp [g1, inG]
        · have := hq b; simp only [setSender, hsa b e] at this; exact this
      · intro hp; simp only at hp; rcases hp with hp | hp <;> rw [g1] at hp <;> cases hp
      · intro hp; simp only at hp; rw [g1] at hp; cases hp
  · cases hs

/-- a sender step between `checked`, `released`, `ponging` and `unlocking`: nobody is inA before or after -/
theorem pinv2_post_phase {s s' : St} (h1 : PInv1 s) (h : PInv2 s) (a : Nat) (x' : Sender)
    (haM : inM (s.senders a).pc = true) (oA : inA (s.senders a).pc = false) (nA : inA x'.pc = false)
    (e1 : s'.subs = s.subs) (e2 : s'.nSubs = s.nSubs) (e3 : s'.panicked = s.panicked) (e4 : s'.senders = upd s.senders a x')
    (e5 : s'.word = s.word) (e6 : s'.subsCount = s.subsCount) (e8 : s'.delivered = s.delivered)
    (xnc : x'.pc ≠ .counted)
    (hgi : inG x'.pc = false → SUM gotI s = 0 ∧ s'.pongN = 0)
    (hchk : (x'.pc = .checked ∨ x'.pc = .released) → SUM gotI s = x'.sent ∧ s'.pongN = 0)
    (hpng : x'.pc = .ponging → SUM gotI s = s'.pongN) : PInv2 s' := by
  have hsen : ∀ b, b ≠ a → s'.senders b = s.senders b := fun b e => by rw [e4]; exact upd_other _ _ e
  have hsa : s'.senders a = x' := by rw [e4]; exact upd_same _ _ _
  have noA : ∀ b, inA (s.senders b).pc = false := by
    intro b; by_cases e : b = a
    · subst e; exact oA
    · cases hb : inA (s.senders b).pc with
      | false => rfl
      | true => have := only_M h1 haM e; rw [inM_of_inA hb] at this; cases this
  have noA' : ∀ b, inA (s'.senders b).pc = false := by
    intro b; by_cases e : b = a
    · subst e; rw [hsa]; exact nA
    · rw [hsen b e]; exact noA b
  refine pinv2_sender_core h a x' e1 e2 e3 e4 e6 (Or.inl (others_not_M h1 haM)) ?_ ?_ ?_ ?_ ?_ ?_ hchk hpng
  · intro _; rw [e5]; exact h.quiet noA
  · intro hp; rcases hp with hp | hp <;> rw [hp] at nA <;> simp [inA] at nA
  · intro hp; rw [hp] at nA; simp [inA] at nA
  · intro ⟨b, hb⟩; rw [noA' b] at hb; cases hb
  · intro hp; exact absurd hp xnc
  · intro hq; have := hq a; rw [hsa] at this; exact hgi this

theorem pinv2_unsending {s s' : St} {a : Nat} (h1 : PInv1 s) (h : PInv2 s) (hs : sys.step s (.unsending a) = some s') : PInv2 s' := by
  simp only [sys, step] at hs
  split at hs
  · rename_i g; cases hs
    have hc := h.chk a (Or.inl g)
    exact pinv2_post_phase h1 h a _ (by simp [g, inM]) (by simp [g, inA]) (by simp [inA]) rfl rfl rfl rfl rfl rfl rfl (by simp)
      (fun hp => by simp [inG] at hp) (fun _ => hc) (fun hp => by cases hp)
  · cases hs

theorem pinv2_pong {s s' : St} {a : Nat} (h1 : PInv1 s) (h : PInv2 s) (hs : sys.step s (.pong a) = some s') : PInv2 s' := by
  simp only [sys, step] at hs
  split at hs
  · rename_i g
    have hc := h.chk a (Or.inr g)
    split at hs
    · rename_i hz; cases hs
      exact pinv2_post_phase h1 h a _ (by simp [g, inM]) (by simp [g, inA]) (by simp [inA]) rfl rfl rfl rfl rfl rfl rfl (by simp)
        (fun hp => by simp [inG] at hp) (fun hp => by rcases hp with hp | hp <;> cases hp) (fun _ => by simp only [setSender]; omega)
    · split at hs
      · cases hs
        exact pinv2_post_phase h1 h a _ (by simp [g, inM]) (by simp [g, inA]) (by simp [inA]) rfl rfl rfl rfl rfl rfl rfl (by simp)
          (fun hp => by simp [inG] at hp) (fun hp => by rcases hp with hp | hp <;> cases hp) (fun _ => hc.1)
      · cases hs
  · cases hs

theorem pinv2_ponged {s s' : St} {a : Nat} (h1 : PInv1 s) (h : PInv2 s) (hs : sys.step s (.ponged a) = some s') : PInv2 s' := by
  simp only [sys, step] at hs
  split at hs
  · rename_i g; cases hs
    have hp := h.png a g.1
    exact pinv2_post_phase h1 h a _ (by simp [g.1, inM]) (by simp [g.1, inA]) (by simp [inA]) rfl rfl rfl rfl rfl rfl rfl (by simp)
      (fun _ => ⟨by omega, g.2⟩) (fun hp => by rcases hp with hp | hp <;> cases hp) (fun hp => by cases hp)
  · cases hs

end BB.PubSub

namespace BB.PubSub
open BB.Fun BB.Caster

theorem pinv2_pingAdd_core {s s' : St} (h1 : PInv1 s) (h : PInv2 s) (a : Nat) (x' : Sender)
    (ga : (s.senders a).pc = .counted)
    (e1 : s'.subs = markOwes s) (e2 : s'.nSubs = s.nSubs) (e3 : s'.panicked = s.panicked) (e4 : s'.senders = upd s.senders a x')
    (e5 : s'.word = idleWord s.subsCount) (e6 : s'.subsCount = s.subsCount) (e7 : s'.pongN = s.pongN) (e8 : s'.delivered = 0)
    (xpc : x'.pc = .added) : PInv2 s' := by
  have haM : inM (s.senders a).pc = true := by simp [ga, inM]
  have hW : s.sendingW = true := h1.wOf a (by simp [ga, inW])
  have hsen : ∀ b, b ≠ a → s'.senders b = s.senders b := fun b e => by rw [e4]; exact upd_other _ _ e
  have hsa : s'.senders a = x' := by rw [e4]; exact upd_same _ _ _
  have noA : ∀ b, inA (s.senders b).pc = false := by
    intro b; by_cases e : b = a
    · subst e; simp [ga, inA]
    · cases hb : inA (s.senders b).pc with
      | false => rfl
      | true => have := only_M h1 haM e; rw [inM_of_inA hb] at this; cases this
  have noG : ∀ b, inG (s.senders b).pc = false := by
    intro b; by_cases e : b = a
    · subst e; simp [ga, inG]
    · cases hb : inG (s.senders b).pc with
      | false => rfl
      | true => have := only_M h1 haM e; rw [inM_of_inG hb] at this; cases this
  obtain ⟨hw0, hpt⟩ := h.quiet noA
  obtain ⟨hG0, hp0⟩ := h.gotIdle noG
  obtain ⟨hn, hnpos⟩ := h.counted a ga
  have vacM : ∀ b, b ≠ a → inM (s.senders b).pc = true → False := by
    intro b e hb; have := only_M h1 haM e; rw [hb] at this; cases this
  -- the marked records
  have hpc : ∀ t, (markOwes s t).pc = (s.subs t).pc := by intro t; simp only [markOwes]; split <;> rfl
  have howes : ∀ t, (markOwes s t).owes = decide ((s.subs t).pc = .idle ∨ (s.subs t).pc = .tryFailed ∨ (s.subs t).pc = .sawPing) := by
    intro t; simp only [markOwes]
    split
    · rename_i hc; simp [hc]
    · rename_i hc; simp [hc, (hpt t).1]
  have sC : SUM cntI s' = SUM cntI s := by
    unfold SUM; rw [e1, e2]; apply sumTo_congr; intro t _; simp only [cntI, hpc]
  have sA : SUM absI s' = 0 := by
    unfold SUM; rw [e1, e2]; apply sumTo_zero; intro t _; simp only [absI, hpc]; simp [(hpt t).2.2.2]
  have sG : SUM gotI s' = 0 := by
    have : SUM gotI s' = SUM gotI s := by unfold SUM; rw [e1, e2]; apply sumTo_congr; intro t _; simp only [gotI, hpc]
    omega
  have sO : SUM oweI s' = SUM cntI s := by
    unfold SUM; rw [e1, e2]; apply sumTo_congr; intro t _
    have g0 := SUM_zero_pt gotI hG0 rfl h1 t
    have r0 := h1.noRd hW t
    simp only [oweI, howes, cntI]
    cases hp : (s.subs t).pc <;> simp [hp, gotI, inRd] at g0 r0 ⊢
  constructor
  · rw [e3]; exact h.np
  · rw [e6, sC]; exact h.cntSum
  · rw [e6]; exact h.cntBound
  · intro hq; have := hq a; rw [hsa, xpc] at this; simp [inA] at this
  · intro b hb
    by_cases e : b = a
    · rw [sO, ← h.cntSum, sA, sG, e5, e7, e8]
      exact ⟨rfl, h.cntBound, rfl, rfl, rfl, hp0⟩
    · rw [hsen b e] at hb; exfalso
      exact vacM b e (by rcases hb with hb | hb <;> rw [hb] <;> rfl)
  · intro b hb
    by_cases e : b = a
    · subst e; rw [hsa, xpc] at hb; cases hb
    · rw [hsen b e] at hb; exfalso; exact vacM b e (by rw [hb]; rfl)
  · intro t ht
    rw [e1] at ht ⊢; rw [hpc]; rw [howes] at ht
    simp only [decide_eq_true_eq] at ht
    rcases ht with ht | ht | ht
    · exact Or.inl ht
    · exact Or.inr (Or.inl ht)
    · exact Or.inr (Or.inr (Or.inl ht))
  · intro t ht
    rw [e1] at ht ⊢; rw [hpc] at ht; rw [howes]
    rcases ht with ht | ht
    · simp [ht]
    · exact absurd ht (hpt t).2.2.1
  · intro _ t ht
    rw [e1] at ht ⊢; rw [hpc] at ht; rw [howes]
    rcases ht with ht | ht <;> simp [ht]
  · intro b hb
    by_cases e : b = a
    · subst e; rw [hsa, xpc] at hb; cases hb
    · rw [hsen b e] at hb; exfalso; exact vacM b e (by rw [hb]; rfl)
  · intro _; exact ⟨sG, by rw [e7]; exact hp0⟩
  · intro b hb
    by_cases e : b = a
    · subst e; rw [hsa, xpc] at hb; rcases hb with hb | hb <;> cases hb
    · rw [hsen b e] at hb; exfalso
      exact vacM b e (by rcases hb with hb | hb <;> rw [hb] <;> rfl)
  · intro b hb
    by_cases e : b = a
    · subst e; rw [hsa, xpc] at hb; cases hb
    · rw [hsen b e] at hb; exfalso; exact vacM b e (by rw [hb]; rfl)

theorem pinv2_pingAdd {s s' : St} {a : Nat} (h1 : PInv1 s) (h : PInv2 s) (hs : sys.step s (.pingAdd a) = some s') : PInv2 s' := by
  simp only [sys, step] at hs
  split at hs
  · rename_i g
    have haM : inM (s.senders a).pc = true := by simp [g.1, inM]
    have noA : ∀ b, inA (s.senders b).pc = false := by
      intro b; by_cases e : b = a
      · subst e; simp [g.1, inA]
      · cases hb : inA (s.senders b).pc with
        | false => rfl
        | true => have := only_M h1 haM e; rw [inM_of_inA hb] at this; cases this
    have hw0 := (h.quiet noA).1
    obtain ⟨hn, hnpos⟩ := h.counted a g.1
    have hadd : add s.word ((s.senders a).n : Int) = .ok (idleWord s.subsCount) s.subsCount 0 := by
      rw [hw0, hn]
      have := add_pos_idle 0 s.subsCount (by omega) (by have := h.cntBound; omega)
      rw [idleWord0, Nat.zero_add] at this
      exact this
    rw [hadd] at hs
    simp only [hn, ↓reduceIte] at hs
    cases hs
    exact pinv2_pingAdd_core h1 h a _ g.1 rfl rfl rfl rfl rfl rfl rfl rfl rfl
  · cases hs

theorem pinv2_step {s s' : St} {act : Act} (h1 : PInv1 s) (h : PInv2 s) (hs : sys.step s act = some s') : PInv2 s' := by
  cases act with
  | subLock t => exact pinv2_subLock h1 h hs
  | subInc t => exact pinv2_subInc h1 h hs
  | subUnlock t => exact pinv2_subUnlock h1 h hs
  | recv a t => exact pinv2_recv h1 h hs
  | consume t => exact pinv2_consume h1 h hs
  | tryOk t => exact pinv2_tryOk h1 h hs
  | tryFail t => exact pinv2_tryFail h1 h hs
  | pingZero t => exact pinv2_pingZero h hs
  | pingNonZero t => exact pinv2_pingNonZero h1 h hs
  | unsubDecL t => exact pinv2_unsubDecL h1 h hs
  | unsubUnlock t => exact pinv2_unsubUnlock h1 h hs
  | unsubDecN t => exact pinv2_unsubDecN h1 h hs
  | pingSub t => exact pinv2_pingSub h1 h hs
  | absorb a t => exact pinv2_absorb h1 h hs
  | sbegin a v => exact pinv2_sbegin h hs
  | sendMu a => exact pinv2_sendMu h hs
  | sending a => exact pinv2_sending h hs
  | count a => exact pinv2_count h hs
  | pingAdd a => exact pinv2_pingAdd h1 h hs
  | cfast a => exact pinv2_cfast h1 h hs
  | cload a => exact pinv2_cload h1 h hs
  | ccas a => exact pinv2_ccas h1 h hs
  | cfinal a => exact pinv2_cfinal h1 h hs
  | unsending a => exact pinv2_unsending h1 h hs
  | pong a => exact pinv2_pong h1 h hs
  | ponged a => exact pinv2_ponged h1 h hs
  | sdone a => exact pinv2_sdone h hs

theorem pinv12_reach : ∀ s, LTS.Reach sys s → PInv1 s ∧ PInv2 s :=
  LTS.invariant sys (fun s => PInv1 s ∧ PInv2 s) ⟨pinv1_init, pinv2_init⟩
    (fun _ _ _ h hs => ⟨pinv1_step h.1 hs, pinv2_step h.1 h.2 hs⟩)

end BB.PubSub
