/- Outcome invariants of the Exclusive model: what a call receives is the (write-once) result of the
   item it attached to; every finished non-start call has received one (helper for Props/C10). -/
import BB.Proofs.ExclusiveFrame

namespace BB.Exclusive

structure InvB (s : St) : Prop where
  completeResult   : ∀ j, (s.items j).complete = true → (s.items j).result.isSome = true
  outcomeOk        : ∀ t r, (s.threads t).pc ≠ .idle → (s.threads t).outcome = some r →
                       (s.items (s.threads t).item).result = some r ∧ (s.items (s.threads t).item).complete = true
  startNoOutcome   : ∀ t, (s.threads t).pc ≠ .idle → (s.threads t).start = true → (s.threads t).outcome = none
  workingAnswered  : ∀ t, (s.threads t).pc = .working → (s.items (s.threads t).item).complete = true →
                       (s.threads t).start = false → (s.threads t).outcome.isSome = true
  returnedAnswered : ∀ t, (s.threads t).pc = .returned → (s.threads t).start = false → (s.threads t).outcome.isSome = true
  doneAnswered     : ∀ t, (s.threads t).pc = .done → (s.threads t).start = false → (s.threads t).outcome.isSome = true

theorem invB_init : InvB sys.init := by
  constructor <;> simp [sys]

theorem invB_micro {s s' : St} (h : Inv s) (hB : InvB s) (hm : Micro s s') : InvB s' := by
  cases hm with
  | alloc hm =>
    have hit : ∀ u, (s.threads u).pc ≠ .idle → (alloc s).items (s.threads u).item = s.items (s.threads u).item := by
      intro u hu
      have := h.bounded u hu
      have e : (s.threads u).item ≠ s.nItems := by omega
      simp [upd_apply, e]
    constructor
    · intro j hj
      by_cases e : j = s.nItems
      · subst e; simp [upd_apply] at hj
      · simp only [alloc_items, upd_apply, if_neg e] at hj ⊢; exact hB.completeResult j hj
    · intro u r hu ho
      simp only [alloc_threads] at hu ho ⊢
      rw [hit u hu]; exact hB.outcomeOk u r hu ho
    · exact hB.startNoOutcome
    · intro u hu hc hst
      simp only [alloc_threads] at hu hc hst ⊢
      rw [hit u (by simp [hu])] at hc; exact hB.workingAnswered u hu hc hst
    · exact hB.returnedAnswered
    · exact hB.doneAnswered
  | @attach j t fn st hm hidle =>
    have hres : ∀ k, ((attach s j t fn st).items k).result = (s.items k).result := by
      intro k; by_cases e : k = j
      · subst e; rw [attach_items_self]
      · rw [attach_items_other _ _ _ _ _ e]
    have hself := attach_threads_self s j t fn st
    constructor
    · intro k hk
      rw [attach_items_complete] at hk; rw [hres]; exact hB.completeResult k hk
    · intro u r hu ho
      rw [hres, attach_items_complete]
      by_cases e : u = t
      · subst e; rw [hself] at ho; cases ho
      · rw [attach_threads_other _ _ _ _ _ e] at hu ho ⊢; exact hB.outcomeOk u r hu ho
    · intro u hu hst
      by_cases e : u = t
      · subst e; rw [hself]
      · rw [attach_threads_other _ _ _ _ _ e] at hu hst ⊢; exact hB.startNoOutcome u hu hst
    · intro u hu hc hst
      rw [attach_items_complete] at hc
      by_cases e : u = t
      · subst e; rcases attach_self_pc s j u fn st with e | e <;> rw [e] at hu <;> cases hu
      · rw [attach_threads_other _ _ _ _ _ e] at hu hc hst ⊢; exact hB.workingAnswered u hu hc hst
    · intro u hu hst
      by_cases e : u = t
      · subst e; rcases attach_self_pc s j u fn st with e | e <;> rw [e] at hu <;> cases hu
      · rw [attach_threads_other _ _ _ _ _ e] at hu hst ⊢; exact hB.returnedAnswered u hu hst
    · intro u hu hst
      by_cases e : u = t
      · subst e
        rw [hself] at hu hst; simp only at hu hst
        split at hu
        · rename_i hc; rw [hst] at hc; simp at hc
        · cases hu
      · rw [attach_threads_other _ _ _ _ _ e] at hu hst ⊢; exact hB.doneAnswered u hu hst
  | @deliver t ht hr hc =>
    have hne : (s.threads t).pc ≠ .idle := by simp [ht]
    constructor
    · exact hB.completeResult
    · intro u r hu ho
      by_cases e : u = t
      · subst e
        simp only [deliverSt, upd_apply, ↓reduceIte] at ho ⊢
        split at ho
        · cases ho
        · exact ⟨ho, hc⟩
      · simp only [deliverSt, upd_apply, if_neg e] at hu ho ⊢; exact hB.outcomeOk u r hu ho
    · intro u hu hst
      by_cases e : u = t
      · subst e; simp only [deliverSt, upd_apply, ↓reduceIte] at hst ⊢; simp [hst]
      · simp only [deliverSt, upd_apply, if_neg e] at hu hst ⊢; exact hB.startNoOutcome u hu hst
    · intro u hu hc' hst
      by_cases e : u = t
      · subst e; simp [deliverSt, upd_apply] at hu
      · simp only [deliverSt, upd_apply, if_neg e] at hu hc' hst ⊢; exact hB.workingAnswered u hu hc' hst
    · intro u hu hst
      by_cases e : u = t
      · subst e; simp [deliverSt, upd_apply] at hu
      · simp only [deliverSt, upd_apply, if_neg e] at hu hst ⊢; exact hB.returnedAnswered u hu hst
    · intro u hu hst
      by_cases e : u = t
      · subst e
        simp only [deliverSt, upd_apply, ↓reduceIte] at hst ⊢
        simp only [hst]; exact hB.completeResult _ hc
      · simp only [deliverSt, upd_apply, if_neg e] at hu hst ⊢; exact hB.doneAnswered u hu hst
  | @run t ht hr hc =>
    have hres : ∀ k, ((runSt s t).items k).result = (s.items k).result := by
      intro k; by_cases e : k = (s.threads t).item
      · subst e; simp [runSt, upd_apply]
      · simp [runSt, upd_apply, e]
    have hcomp : ∀ k, ((runSt s t).items k).complete = (s.items k).complete := by
      intro k; by_cases e : k = (s.threads t).item
      · subst e; simp [runSt, upd_apply]
      · simp [runSt, upd_apply, e]
    have hth : ∀ u, ((runSt s t).threads u).item = (s.threads u).item ∧ ((runSt s t).threads u).outcome = (s.threads u).outcome ∧
        ((runSt s t).threads u).start = (s.threads u).start := by
      intro u; by_cases e : u = t
      · subst e; simp [runSt, upd_apply]
      · simp [runSt, upd_apply, e]
    have hpc : ∀ u, u ≠ t → ((runSt s t).threads u).pc = (s.threads u).pc := by
      intro u e; simp [runSt, upd_apply, e]
    have hpct : ((runSt s t).threads t).pc = .running := by simp [runSt, upd_apply]
    constructor
    · intro k hk; rw [hcomp] at hk; rw [hres]; exact hB.completeResult k hk
    · intro u r hu ho
      rw [(hth u).1, hres, hcomp]; rw [(hth u).2.1] at ho
      by_cases e : u = t
      · subst e; exact hB.outcomeOk u r (by simp [ht]) ho
      · rw [hpc u e] at hu; exact hB.outcomeOk u r hu ho
    · intro u hu hst
      rw [(hth u).2.1]; rw [(hth u).2.2] at hst
      by_cases e : u = t
      · subst e; exact hB.startNoOutcome u (by simp [ht]) hst
      · rw [hpc u e] at hu; exact hB.startNoOutcome u hu hst
    · intro u hu hc' hst
      by_cases e : u = t
      · subst e; rw [hpct] at hu; cases hu
      · rw [hpc u e] at hu; rw [(hth u).1, hcomp] at hc'; rw [(hth u).2.2] at hst; rw [(hth u).2.1]
        exact hB.workingAnswered u hu hc' hst
    · intro u hu hst
      by_cases e : u = t
      · subst e; rw [hpct] at hu; cases hu
      · rw [hpc u e] at hu; rw [(hth u).2.2] at hst; rw [(hth u).2.1]; exact hB.returnedAnswered u hu hst
    · intro u hu hst
      by_cases e : u = t
      · subst e; rw [hpct] at hu; cases hu
      · rw [hpc u e] at hu; rw [(hth u).2.2] at hst; rw [(hth u).2.1]; exact hB.doneAnswered u hu hst
  | @swap t ht =>
    have hit : ∀ u, (s.threads u).pc ≠ .idle → (swapSt s t).items (s.threads u).item = s.items (s.threads u).item := by
      intro u hu
      have := h.bounded u hu
      have e : (s.threads u).item ≠ s.nItems := by omega
      simp [swapSt, upd_apply, e]
    have hth : ∀ u, ((swapSt s t).threads u).item = (s.threads u).item ∧ ((swapSt s t).threads u).outcome = (s.threads u).outcome ∧
        ((swapSt s t).threads u).start = (s.threads u).start := by
      intro u; by_cases e : u = t
      · subst e; simp [swapSt, upd_apply]
      · simp [swapSt, upd_apply, e]
    have hpc : ∀ u, u ≠ t → ((swapSt s t).threads u).pc = (s.threads u).pc := by
      intro u e; simp [swapSt, upd_apply, e]
    have hpct : ((swapSt s t).threads t).pc = .swapped := by simp [swapSt, upd_apply]
    have hnid : ∀ u, ((swapSt s t).threads u).pc ≠ .idle → (s.threads u).pc ≠ .idle := by
      intro u hu; by_cases e : u = t
      · subst e; simp [ht]
      · rw [hpc u e] at hu; exact hu
    constructor
    · intro k hk
      by_cases e : k = s.nItems
      · subst e; simp [swapSt, upd_apply] at hk
      · simp only [swapSt, upd_apply, if_neg e] at hk ⊢; exact hB.completeResult k hk
    · intro u r hu ho
      rw [(hth u).1, hit u (hnid u hu)]; rw [(hth u).2.1] at ho
      exact hB.outcomeOk u r (hnid u hu) ho
    · intro u hu hst
      rw [(hth u).2.1]; rw [(hth u).2.2] at hst
      exact hB.startNoOutcome u (hnid u hu) hst
    · intro u hu hc' hst
      by_cases e : u = t
      · subst e; rw [hpct] at hu; cases hu
      · rw [hpc u e] at hu; rw [(hth u).1, hit u (by simp [hu])] at hc'; rw [(hth u).2.2] at hst; rw [(hth u).2.1]
        exact hB.workingAnswered u hu hc' hst
    · intro u hu hst
      by_cases e : u = t
      · subst e; rw [hpct] at hu; cases hu
      · rw [hpc u e] at hu; rw [(hth u).2.2] at hst; rw [(hth u).2.1]; exact hB.returnedAnswered u hu hst
    · intro u hu hst
      by_cases e : u = t
      · subst e; rw [hpct] at hu; cases hu
      · rw [hpc u e] at hu; rw [(hth u).2.2] at hst; rw [(hth u).2.1]; exact hB.doneAnswered u hu hst
  | @start t ht =>
    have hres : ∀ k, ((startSt s t).items k).result = (s.items k).result := by
      intro k; by_cases e : k = (s.threads t).item
      · subst e; simp [startSt, upd_apply]
      · simp [startSt, upd_apply, e]
    have hcomp : ∀ k, ((startSt s t).items k).complete = (s.items k).complete := by
      intro k; by_cases e : k = (s.threads t).item
      · subst e; simp [startSt, upd_apply]
      · simp [startSt, upd_apply, e]
    have hth : ∀ u, ((startSt s t).threads u).item = (s.threads u).item ∧ ((startSt s t).threads u).outcome = (s.threads u).outcome ∧
        ((startSt s t).threads u).start = (s.threads u).start := by
      intro u; by_cases e : u = t
      · subst e; simp [startSt, upd_apply]
      · simp [startSt, upd_apply, e]
    have hpc : ∀ u, u ≠ t → ((startSt s t).threads u).pc = (s.threads u).pc := by
      intro u e; simp [startSt, upd_apply, e]
    have hpct : ((startSt s t).threads t).pc = .working := by simp [startSt, upd_apply]
    have hnid : ∀ u, ((startSt s t).threads u).pc ≠ .idle → (s.threads u).pc ≠ .idle := by
      intro u hu; by_cases e : u = t
      · subst e; simp [ht]
      · rw [hpc u e] at hu; exact hu
    constructor
    · intro k hk; rw [hcomp] at hk; rw [hres]; exact hB.completeResult k hk
    · intro u r hu ho
      rw [(hth u).1, hres, hcomp]; rw [(hth u).2.1] at ho
      exact hB.outcomeOk u r (hnid u hu) ho
    · intro u hu hst
      rw [(hth u).2.1]; rw [(hth u).2.2] at hst
      exact hB.startNoOutcome u (hnid u hu) hst
    · intro u hu hc' hst
      rw [(hth u).1, hcomp] at hc'
      by_cases e : u = t
      · subst e
        have := (h.runnerItem u (Or.inr ht)).2
        rw [this] at hc'; cases hc'
      · rw [hpc u e] at hu; rw [(hth u).2.2] at hst; rw [(hth u).2.1]
        exact hB.workingAnswered u hu hc' hst
    · intro u hu hst
      by_cases e : u = t
      · subst e; rw [hpct] at hu; cases hu
      · rw [hpc u e] at hu; rw [(hth u).2.2] at hst; rw [(hth u).2.1]; exact hB.returnedAnswered u hu hst
    · intro u hu hst
      by_cases e : u = t
      · subst e; rw [hpct] at hu; cases hu
      · rw [hpc u e] at hu; rw [(hth u).2.2] at hst; rw [(hth u).2.1]; exact hB.doneAnswered u hu hst
  | @finish t r pc' ht hc hp =>
    have htR : inR (s.threads t).pc = true := by simp [ht, inR]
    have hiself : (finishSt s t r pc').items (s.threads t).item = { s.items (s.threads t).item with result := some r, complete := true, running := false } := by
      simp [finishSt, upd_apply]
    have hiother : ∀ k, k ≠ (s.threads t).item → (finishSt s t r pc').items k = s.items k := by
      intro k e; simp [finishSt, upd_apply, e]
    have htself : (finishSt s t r pc').threads t = { s.threads t with pc := pc', outcome := if (s.threads t).start then none else some r } := by
      simp [finishSt, upd_apply]
    have htother : ∀ u, u ≠ t → (finishSt s t r pc').threads u = s.threads u := by
      intro u e; simp [finishSt, upd_apply, e]
    constructor
    · intro k hk
      by_cases e : k = (s.threads t).item
      · subst e; rw [hiself]; rfl
      · rw [hiother k e] at hk ⊢; exact hB.completeResult k hk
    · intro u r' hu ho
      by_cases e : u = t
      · subst e
        rw [htself] at ho ⊢; simp only at ho ⊢
        rw [hiself]
        split at ho
        · cases ho
        · cases ho; exact ⟨rfl, rfl⟩
      · rw [htother u e] at hu ho ⊢
        have old := hB.outcomeOk u r' hu ho
        by_cases e2 : (s.threads u).item = (s.threads t).item
        · rw [e2] at old; rw [hc] at old; cases old.2
        · rw [hiother _ e2]; exact old
    · intro u hu hst
      by_cases e : u = t
      · subst e; rw [htself] at hst ⊢; simp only at hst ⊢; simp [hst]
      · rw [htother u e] at hu hst ⊢; exact hB.startNoOutcome u hu hst
    · intro u hu hc' hst
      by_cases e : u = t
      · subst e; rw [htself] at hst ⊢; simp only at hst ⊢; simp [hst]
      · rw [htother u e] at hu
        have := only_runner h htR e
        rw [hu] at this; cases this
    · intro u hu hst
      by_cases e : u = t
      · subst e; rw [htself] at hst ⊢; simp only at hst ⊢; simp [hst]
      · rw [htother u e] at hu
        have := only_runner h htR e
        rw [hu] at this; cases this
    · intro u hu hst
      by_cases e : u = t
      · subst e; rw [htself] at hu; simp only at hu
        rcases hp with hp | hp <;> rw [hp] at hu <;> cases hu
      · rw [htother u e] at hu hst ⊢; exact hB.doneAnswered u hu hst
  | @ret t ht hc =>
    have htself : (retSt s t).threads t = { s.threads t with pc := .returned } := by simp [retSt, upd_apply]
    have htother : ∀ u, u ≠ t → (retSt s t).threads u = s.threads u := by
      intro u e; simp [retSt, upd_apply, e]
    have hitems : (retSt s t).items = s.items := rfl
    constructor
    · exact hB.completeResult
    · intro u r hu ho
      rw [hitems]
      by_cases e : u = t
      · subst e; rw [htself] at ho ⊢; exact hB.outcomeOk u r (by simp [ht]) ho
      · rw [htother u e] at hu ho ⊢; exact hB.outcomeOk u r hu ho
    · intro u hu hst
      by_cases e : u = t
      · subst e; rw [htself] at hst ⊢; exact hB.startNoOutcome u (by simp [ht]) hst
      · rw [htother u e] at hu hst ⊢; exact hB.startNoOutcome u hu hst
    · intro u hu hc' hst
      by_cases e : u = t
      · subst e; rw [htself] at hu; cases hu
      · rw [hitems] at hc'; rw [htother u e] at hu hc' hst ⊢; exact hB.workingAnswered u hu hc' hst
    · intro u hu hst
      by_cases e : u = t
      · subst e; rw [htself] at hst ⊢; exact hB.workingAnswered u ht hc hst
      · rw [htother u e] at hu hst ⊢; exact hB.returnedAnswered u hu hst
    · intro u hu hst
      by_cases e : u = t
      · subst e; rw [htself] at hu; cases hu
      · rw [htother u e] at hu hst ⊢; exact hB.doneAnswered u hu hst
  | @clear t ht =>
    have htself : (clearSt s t).threads t = { s.threads t with pc := .done } := by simp [clearSt, upd_apply]
    have htother : ∀ u, u ≠ t → (clearSt s t).threads u = s.threads u := by
      intro u e; simp [clearSt, upd_apply, e]
    have hres : ∀ k, ((clearSt s t).items k).result = (s.items k).result := by
      intro k; by_cases e : k = (s.threads t).next
      · subst e; simp [clearSt, upd_apply]
      · simp [clearSt, upd_apply, e]
    have hcomp : ∀ k, ((clearSt s t).items k).complete = (s.items k).complete := by
      intro k; by_cases e : k = (s.threads t).next
      · subst e; simp [clearSt, upd_apply]
      · simp [clearSt, upd_apply, e]
    constructor
    · intro k hk; rw [hcomp] at hk; rw [hres]; exact hB.completeResult k hk
    · intro u r hu ho
      rw [hres, hcomp]
      by_cases e : u = t
      · subst e; rw [htself] at ho ⊢; exact hB.outcomeOk u r (by simp [ht]) ho
      · rw [htother u e] at hu ho ⊢; exact hB.outcomeOk u r hu ho
    · intro u hu hst
      by_cases e : u = t
      · subst e; rw [htself] at hst ⊢; exact hB.startNoOutcome u (by simp [ht]) hst
      · rw [htother u e] at hu hst ⊢; exact hB.startNoOutcome u hu hst
    · intro u hu hc' hst
      rw [hcomp] at hc'
      by_cases e : u = t
      · subst e; rw [htself] at hu; cases hu
      · rw [htother u e] at hu hc' hst ⊢; exact hB.workingAnswered u hu hc' hst
    · intro u hu hst
      by_cases e : u = t
      · subst e; rw [htself] at hu; cases hu
      · rw [htother u e] at hu hst ⊢; exact hB.returnedAnswered u hu hst
    · intro u hu hst
      by_cases e : u = t
      · subst e; rw [htself] at hst ⊢; exact hB.returnedAnswered u ht hst
      · rw [htother u e] at hu hst ⊢; exact hB.doneAnswered u hu hst

theorem invB_reach : ∀ s, LTS.Reach sys s → InvB s :=
  micro_invariant2 InvB invB_init (fun _ _ h hB hm => invB_micro h hB hm)

/-- a result is only ever present on a complete item -/
def ResultComplete (s : St) : Prop := ∀ j, (s.items j).result ≠ none → (s.items j).complete = true

theorem resultComplete_micro {s s' : St} (hR : ResultComplete s) (hm : Micro s s') : ResultComplete s' := by
  intro j hj
  cases hm with
  | alloc hm =>
    by_cases e : j = s.nItems
    · subst e; simp [upd_apply] at hj
    · simp only [alloc_items, upd_apply, if_neg e] at hj ⊢; exact hR j hj
  | @attach k t fn st hm hidle =>
    rw [attach_items_complete]
    by_cases e : j = k
    · subst e; rw [attach_items_self] at hj; exact hR j hj
    · rw [attach_items_other _ _ _ _ _ e] at hj; exact hR j hj
  | @deliver t ht hr hc => exact hR j hj
  | @run t ht hr hc =>
    by_cases e : j = (s.threads t).item
    · subst e; simp only [runSt, upd_apply, ↓reduceIte] at hj ⊢; exact hR _ hj
    · simp only [runSt, upd_apply, if_neg e] at hj ⊢; exact hR j hj
  | @swap t ht =>
    by_cases e : j = s.nItems
    · subst e; simp [swapSt, upd_apply] at hj
    · simp only [swapSt, upd_apply, if_neg e] at hj ⊢; exact hR j hj
  | @start t ht =>
    by_cases e : j = (s.threads t).item
    · subst e; simp only [startSt, upd_apply, ↓reduceIte] at hj ⊢; exact hR _ hj
    · simp only [startSt, upd_apply, if_neg e] at hj ⊢; exact hR j hj
  | @finish t r pc' ht hc hp =>
    by_cases e : j = (s.threads t).item
    · subst e; simp [finishSt, upd_apply]
    · simp only [finishSt, upd_apply, if_neg e] at hj ⊢; exact hR j hj
  | @ret t ht hc => exact hR j hj
  | @clear t ht =>
    by_cases e : j = (s.threads t).next
    · subst e; simp only [clearSt, upd_apply, ↓reduceIte] at hj ⊢; exact hR _ hj
    · simp only [clearSt, upd_apply, if_neg e] at hj ⊢; exact hR j hj

theorem resultComplete_reach : ∀ s, LTS.Reach sys s → ResultComplete s :=
  micro_invariant ResultComplete (by intro j hj; simp [sys] at hj) (fun _ _ hR hm => resultComplete_micro hR hm)

/-- an item's result is written once: no micro step changes a result that is set -/
theorem result_stable {s s' : St} (h : Inv s) (hR : ResultComplete s) (hm : Micro s s') (j r : Nat)
    (hr : (s.items j).result = some r) : (s'.items j).result = some r := by
  have hcj : (s.items j).complete = true := hR j (by rw [hr]; simp)
  cases hm with
  | alloc hm =>
    by_cases e : j = s.nItems
    · subst e; rw [h.fresh _ (Nat.le_refl _)] at hr; cases hr
    · simp only [alloc_items, upd_apply, if_neg e]; exact hr
  | @attach k t fn st hm hidle =>
    by_cases e : j = k
    · subst e; rw [attach_items_self]; exact hr
    · rw [attach_items_other _ _ _ _ _ e]; exact hr
  | @deliver t ht hr' hc => exact hr
  | @run t ht hr' hc =>
    by_cases e : j = (s.threads t).item
    · subst e; simp only [runSt, upd_apply, ↓reduceIte]; exact hr
    · simp only [runSt, upd_apply, if_neg e]; exact hr
  | @swap t ht =>
    by_cases e : j = s.nItems
    · subst e; rw [h.fresh _ (Nat.le_refl _)] at hr; cases hr
    · simp only [swapSt, upd_apply, if_neg e]; exact hr
  | @start t ht =>
    by_cases e : j = (s.threads t).item
    · subst e; simp only [startSt, upd_apply, ↓reduceIte]; exact hr
    · simp only [startSt, upd_apply, if_neg e]; exact hr
  | @finish t r' pc' ht hc hp =>
    by_cases e : j = (s.threads t).item
    · subst e; rw [hc] at hcj; cases hcj
    · simp only [finishSt, upd_apply, if_neg e]; exact hr
  | @ret t ht hc => exact hr
  | @clear t ht =>
    by_cases e : j = (s.threads t).next
    · subst e; simp only [clearSt, upd_apply, ↓reduceIte]; exact hr
    · simp only [clearSt, upd_apply, if_neg e]; exact hr

end BB.Exclusive
