/-
  The reply path of Workers.Call (C14): every job carries its own reply channel with room for ONE value.  The worker that finishes
  job j sends `res j` on it (the `finish` step); the caller of j receives it (`recv j`).  A `finish` whose channel is occupied is
  NOT enabled in this layer (the worker would block) — `BB.Props.C14.worker_never_waits_for_the_caller` shows that this never
  happens, so the layer adds no blocking to `BB.Workers.sys`.
-/
import BB.Model.Workers

namespace BB.Workers
open BB.LTS

inductive RAct
  | base (a : Act)
  | recv (j : Nat)      -- the caller of job j receives from its reply channel
deriving Repr, DecidableEq

structure RSt where
  st : St := {}
  slot : List (Nat × Nat) := []    -- (job, value): the values sitting in reply channels
  got : List (Nat × Nat) := []     -- (job, value): what callers have received, in order
deriving Repr, DecidableEq

def rstep (res : Nat → Nat) (o : RSt) : RAct → Option RSt
  | .base a =>
    match sys.step o.st a with
    | none => none
    | some s' =>
      match a with
      | .finish i =>
        match o.st.workers[i]? with
        | some (some j) => if (o.slot.map (·.1)).contains j then none else some { o with st := s', slot := o.slot ++ [(j, res j)] }
        | _ => none
      | _ => some { o with st := s' }
  | .recv j =>
    match o.slot.find? (·.1 == j) with
    | some p => some { o with slot := o.slot.filter (·.1 != j), got := o.got ++ [p] }
    | none => none

def rsys (res : Nat → Nat) : LTS.Sys RSt RAct := { init := {}, step := rstep res }

theorem rstep_st {res : Nat → Nat} {o o' : RSt} {a : Act} (h : (rsys res).step o (.base a) = some o') :
    sys.step o.st a = some o'.st := by
  simp only [rsys, rstep] at h
  cases e : sys.step o.st a with
  | none => simp [e] at h
  | some s' =>
    simp only [e] at h
    cases a with
    | finish i =>
      simp only at h
      split at h
      · split at h
        · cases h
        · cases h; rfl
      · cases h
    | call j n => cases h; rfl
    | take i => cases h; rfl
    | exit i => cases h; rfl

theorem rstep_recv_st {res : Nat → Nat} {o o' : RSt} {j : Nat} (h : (rsys res).step o (.recv j) = some o') : o'.st = o.st := by
  simp only [rsys, rstep] at h
  split at h
  · cases h; rfl
  · cases h

/-- the layer only restricts: every reachable layered state projects to a reachable state of `sys` -/
theorem rreach_proj {res : Nat → Nat} (o : RSt) (hr : Reach (rsys res) o) : Reach sys o.st := by
  induction hr with
  | init => exact Reach.init
  | @step o1 o2 a _ hs ih =>
    cases a with
    | base a => exact Reach.step ih (rstep_st hs)
    | recv j => rw [rstep_recv_st hs]; exact ih

end BB.Workers
