/- Helper lemmas for the retention half of C03 (NoEvict invariant, eviction is permanent). -/
import BB.Proofs.Buffer
import BB.Props.C03Cleaners

namespace BB.Buffer
open BB.Cleaner BB.Props.C03

/-- traces in which every cleaner run uses `DefaultCleaner` -/
def DefaultOnly : Op → Prop
  | .clean _ => False
  | .cleanFixed _ _ => False
  | _ => True

/-- every registered consumer's committed offset is still retained -/
def NoEvict (s : St) : Prop := ∀ k ∈ s.cons, k.registered = true → s.base ≤ k.committed

theorem mem_offsets {s : St} {k : Cons} (hk : k ∈ s.cons) (hr : k.registered = true) :
    ((k.committed : Int) - (s.base : Int)) ∈ offsets s := by
  unfold offsets
  exact List.mem_map.mpr ⟨k, List.mem_filter.mpr ⟨hk, by simpa using hr⟩, rfl⟩

theorem clampShift_le_of_nonneg (k : Int) (len : Nat) (hk : 0 ≤ k) : (clampShift k len : Int) ≤ k := by
  unfold clampShift
  by_cases h1 : k > (len : Int)
  · simp [h1]; omega
  · by_cases h2 : k ≤ 0
    · simp [h1, h2]; omega
    · simp [h1, h2]; omega

theorem noEvict_cleanDefault {s : St} (h : NoEvict s) : NoEvict (cleanDefault s).1 := by
  intro k hk hr
  simp only [cleanDefault, clean] at hk ⊢
  have hb := defaultCleaner_bounds (s.buf.length : Int) (offsets s) (by omega)
  have hle := hb.2.2 _ (mem_offsets hk hr) (by have := h k hk hr; omega)
  have hc := clampShift_le_of_nonneg (defaultCleaner (s.buf.length : Int) (offsets s)) s.buf.length hb.1
  omega

theorem noEvict_setCons {s : St} (h : NoEvict s) (c : Nat) (k k' : Cons) (hk : s.cons[c]? = some k)
    (hc : k.committed ≤ k'.committed) (hreg : k'.registered = true → k.registered = true) :
    NoEvict (setCons s c k') := by
  intro x hx hr
  rcases List.mem_or_eq_of_mem_set hx with h1 | rfl
  · exact h x h1 hr
  · exact Nat.le_trans (h k (List.mem_of_getElem? hk) (hreg hr)) hc

theorem noEvict_step {s : St} (h : NoEvict s) (op : Op) (hd : DefaultOnly op) : NoEvict (step s op) := by
  cases op with
  | put vs =>
    simp only [step, put]; split
    · exact h
    · exact h
  | newConsumer =>
    simp only [step, newConsumer]; split
    · exact h
    · intro k hk hr
      simp only [List.mem_append, List.mem_singleton] at hk
      rcases hk with hk | rfl
      · exact h k hk hr
      · exact Nat.le_refl _
  | get c =>
    simp only [step, get]; split
    · rename_i v k hv hk
      exact noEvict_setCons h c k _ hk (Nat.le_refl _) (fun x => x)
    · exact h
  | commit c =>
    simp only [step, commit]; split
    · exact h
    · rename_i k hk
      split
      · exact h
      · split
        · exact h
        · exact noEvict_setCons h c k _ hk (Nat.le_add_right _ _) (fun x => x)
  | rollback c =>
    simp only [step, rollback]; split
    · exact h
    · rename_i k hk
      split
      · exact h
      · exact noEvict_setCons h c k _ hk (Nat.le_refl _) (fun x => x)
  | cancelCons c =>
    simp only [step, cancelCons]; split
    · exact h
    · rename_i k hk
      exact noEvict_setCons h c k _ hk (Nat.le_refl _) (fun x => x)
  | finishClose c =>
    simp only [step, finishClose]; split
    · exact h
    · rename_i k hk
      split
      · exact noEvict_setCons h c k _ hk (Nat.le_refl _) (fun x => by simp at x)
      · exact h
  | closeBuf =>
    intro k hk hr
    simp only [step, closeBuf, List.mem_map] at hk
    obtain ⟨k0, hk0, rfl⟩ := hk
    exact h k0 hk0 hr
  | clean k => exact absurd hd (by simp [DefaultOnly])
  | cleanDefault => exact noEvict_cleanDefault h
  | cleanFixed m t => exact absurd hd (by simp [DefaultOnly])

/-- position of a consumer is below the base: its next value was evicted -/
def Evicted (s : St) (c : Nat) : Prop :=
  ∃ k, s.cons[c]? = some k ∧ k.committed + k.delta < s.base

theorem clean_base_le (s : St) (k : Int) : s.base ≤ (clean s k).base := by simp [clean]

theorem getElem?_set_self' {l : List Cons} {c : Nat} {k k' : Cons} (h : l[c]? = some k) :
    (l.set c k')[c]? = some k' := by
  have hl : c < l.length := (List.getElem?_eq_some_iff.mp h).1
  simp [hl]

theorem evicted_setCons {s : St} {c : Nat} {k : Cons} (hk : s.cons[c]? = some k)
    (hlt : k.committed + k.delta < s.base) (c' : Nat) (k' : Cons)
    (hpos : c' = c → k'.committed + k'.delta ≤ k.committed + k.delta) : Evicted (setCons s c' k') c := by
  by_cases hcc : c' = c
  · subst hcc
    exact ⟨k', getElem?_set_self' hk, by have := hpos rfl; simp only [setCons]; omega⟩
  · exact ⟨k, by simp only [setCons, List.getElem?_set_ne hcc]; exact hk, hlt⟩

/-- eviction is permanent: no operation of anybody brings the position back above the base -/
theorem evicted_step {s : St} {c : Nat} (h : Evicted s c) (op : Op) : Evicted (step s op) c := by
  obtain ⟨k, hk, hlt⟩ := h
  cases op with
  | put vs =>
    simp only [step, put]; split
    · exact ⟨k, hk, hlt⟩
    · exact ⟨k, hk, hlt⟩
  | newConsumer =>
    simp only [step, newConsumer]; split
    · exact ⟨k, hk, hlt⟩
    · refine ⟨k, ?_, hlt⟩
      have hl : c < s.cons.length := (List.getElem?_eq_some_iff.mp hk).1
      simp only [List.getElem?_append_left hl]; exact hk
  | get c' =>
    simp only [step, get]; split
    · rename_i v k' hv hk'
      by_cases hcc : c' = c
      · subst hcc
        -- an evicted consumer never gets a value
        rw [hk] at hk'; cases hk'
        unfold getTry at hv
        simp only [hk] at hv
        by_cases h1 : k.cancelled = true
        · simp [h1] at hv
        · by_cases h2 : s.closed = true
          · simp [h1, h2] at hv
          · by_cases h3 : k.registered = true
            · simp [h1, h2, h3, hlt] at hv
            · simp [h1, h2, h3] at hv
      · exact ⟨k, by simp only [List.getElem?_set_ne hcc]; exact hk, hlt⟩
    · exact ⟨k, hk, hlt⟩
  | commit c' =>
    simp only [step, commit]; split
    · exact ⟨k, hk, hlt⟩
    · rename_i k' hk'
      split
      · exact ⟨k, hk, hlt⟩
      · split
        · exact ⟨k, hk, hlt⟩
        · exact evicted_setCons hk hlt c' _ (by intro hcc; subst hcc; rw [hk] at hk'; cases hk'; simp)
  | rollback c' =>
    simp only [step, rollback]; split
    · exact ⟨k, hk, hlt⟩
    · rename_i k' hk'
      split
      · exact ⟨k, hk, hlt⟩
      · exact evicted_setCons hk hlt c' _ (by intro hcc; subst hcc; rw [hk] at hk'; cases hk'; simp)
  | cancelCons c' =>
    simp only [step, cancelCons]; split
    · exact ⟨k, hk, hlt⟩
    · rename_i k' hk'
      exact evicted_setCons hk hlt c' _ (by intro hcc; subst hcc; rw [hk] at hk'; cases hk'; simp)
  | finishClose c' =>
    simp only [step, finishClose]; split
    · exact ⟨k, hk, hlt⟩
    · rename_i k' hk'
      split
      · exact evicted_setCons hk hlt c' _ (by intro hcc; subst hcc; rw [hk] at hk'; cases hk'; simp)
      · exact ⟨k, hk, hlt⟩
  | closeBuf =>
    refine ⟨{ k with cancelled := true }, ?_, hlt⟩
    simp [step, closeBuf, List.getElem?_map, hk]
  | clean x => exact ⟨k, hk, Nat.lt_of_lt_of_le hlt (clean_base_le s x)⟩
  | cleanDefault => exact ⟨k, hk, Nat.lt_of_lt_of_le hlt (clean_base_le s _)⟩
  | cleanFixed m t => exact ⟨k, hk, Nat.lt_of_lt_of_le hlt (clean_base_le s _)⟩

end BB.Buffer
