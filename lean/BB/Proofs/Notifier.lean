/- Index re-basing lemmas for the publish loop of Notifier (helpers for Props/C15). -/
import BB.Model.Notifier

namespace BB.Notifier

def succOf (l : List (Nat × Bool)) : List Nat := l.map (·.1)
def failOf (l : List (Nat × Bool)) : List Nat := (l.filter (·.2)).map (·.1)
def refsOf : Nat → List (Nat × Bool) → List Nat
  | _, [] => []
  | off, (_, c) :: rest => if c then off :: refsOf (off + 1) rest else refsOf (off + 1) rest
def cnt (l : List (Nat × Bool)) : Nat := (l.filter (·.2)).length

theorem buildFrom_eq (off : Nat) (l : List (Nat × Bool)) :
    buildFrom off l = (succOf l, failOf l, refsOf off l) := by
  induction l generalizing off with
  | nil => rfl
  | cons x rest ih =>
    obtain ⟨id, c⟩ := x
    simp only [buildFrom, ih (off + 1)]
    cases c <;> simp [succOf, failOf, refsOf]

def dec (k x : Nat) : Nat := if x ≤ k then x else x - 1

theorem refsOf_ge (off : Nat) (l : List (Nat × Bool)) : ∀ x ∈ refsOf off l, off ≤ x := by
  induction l generalizing off with
  | nil => intro x hx; simp [refsOf] at hx
  | cons y rest ih =>
    obtain ⟨id, c⟩ := y
    intro x hx
    cases c with
    | false => simp only [refsOf] at hx; have := ih (off + 1) x (by simpa using hx); omega
    | true =>
      simp only [refsOf, if_true, List.mem_cons] at hx
      rcases hx with rfl | hx
      · exact Nat.le_refl _
      · have := ih (off + 1) x hx; omega

theorem refsOf_sorted (off : Nat) (l : List (Nat × Bool)) : (refsOf off l).Pairwise (· < ·) := by
  induction l generalizing off with
  | nil => simp [refsOf]
  | cons y rest ih =>
    obtain ⟨id, c⟩ := y
    cases c with
    | false => simpa [refsOf] using ih (off + 1)
    | true =>
      simp only [refsOf, if_true, List.pairwise_cons]
      exact ⟨fun x hx => by have := refsOf_ge (off + 1) rest x hx; omega, ih (off + 1)⟩

theorem decRev_eq_map (k : Nat) : ∀ (l : List Nat), l.Pairwise (· > ·) → decRev k l = l.map (dec k)
  | [], _ => rfl
  | r :: rest, h => by
    have ht := (List.pairwise_cons.mp h).2
    have hh := (List.pairwise_cons.mp h).1
    simp only [decRev, List.map_cons]
    split
    · rename_i hr
      have : rest.map (dec k) = rest := by
        rw [List.map_congr_left (g := id)]
        · simp
        · intro x hx; have := hh x hx; simp [dec]; omega
      simp [dec, hr, this]
    · rename_i hr
      simp [dec, hr, decRev_eq_map k rest ht]

theorem decLoop_eq_map (k : Nat) (refs : List Nat) (h : refs.Pairwise (· < ·)) :
    decLoop k refs = refs.map (dec k) := by
  unfold decLoop
  rw [decRev_eq_map k refs.reverse (by simpa [List.pairwise_reverse] using h)]
  simp

theorem refsOf_shift (off : Nat) (l : List (Nat × Bool)) :
    refsOf off l = (refsOf (off + 1) l).map (· - 1) := by
  induction l generalizing off with
  | nil => rfl
  | cons y rest ih =>
    obtain ⟨id, c⟩ := y
    cases c with
    | false => simp only [refsOf]; exact ih (off + 1)
    | true => simp only [refsOf, if_true, List.map_cons]; rw [← ih (off + 1)]; simp

theorem map_dec_of_gt (k : Nat) (l : List Nat) (h : ∀ x ∈ l, k < x) : l.map (dec k) = l.map (· - 1) := by
  apply List.map_congr_left
  intro x hx; have := h x hx; simp [dec]; omega

theorem succOf_erase (l : List (Nat × Bool)) (k : Nat) : succOf (l.eraseIdx k) = (succOf l).eraseIdx k := by
  induction l generalizing k with
  | nil => simp [succOf]
  | cons y rest ih =>
    cases k with
    | zero => simp [succOf]
    | succ k => simpa [succOf] using ih k

theorem failOf_erase (l : List (Nat × Bool)) (k : Nat) (y : Nat × Bool) (hy : l[k]? = some y) :
    failOf (l.eraseIdx k) = if y.2 then (failOf l).eraseIdx (cnt (l.take k)) else failOf l := by
  induction l generalizing k with
  | nil => simp at hy
  | cons z rest ih =>
    obtain ⟨id, c⟩ := z
    cases k with
    | zero =>
      simp at hy; subst hy
      cases c <;> simp [failOf, cnt]
    | succ k =>
      simp at hy
      have := ih k hy
      cases c with
      | false =>
        simp only [List.eraseIdx_cons_succ, failOf, cnt, List.take_succ_cons] at this ⊢
        simpa using this
      | true =>
        simp only [List.eraseIdx_cons_succ, failOf, cnt, List.take_succ_cons] at this ⊢
        cases hy2 : y.2 <;> simp [hy2] at this ⊢ <;> exact this

theorem refsOf_erase (off : Nat) (l : List (Nat × Bool)) (k : Nat) (y : Nat × Bool) (hy : l[k]? = some y) :
    refsOf off (l.eraseIdx k) =
      if y.2 then ((refsOf off l).map (dec (off + k))).eraseIdx (cnt (l.take k))
      else (refsOf off l).map (dec (off + k)) := by
  induction l generalizing off k with
  | nil => simp at hy
  | cons z rest ih =>
    obtain ⟨id, c⟩ := z
    cases k with
    | zero =>
      simp at hy; subst hy
      have hgt : ∀ x ∈ refsOf (off + 1) rest, off + 0 < x := fun x hx => by
        have := refsOf_ge (off + 1) rest x hx; omega
      cases c with
      | false =>
        simp only [List.eraseIdx_cons_zero, refsOf, Bool.false_eq_true, if_false]
        rw [map_dec_of_gt _ _ hgt]; exact refsOf_shift off rest
      | true =>
        simp only [List.eraseIdx_cons_zero, refsOf, if_true, List.map_cons, cnt, List.take_zero,
          List.filter_nil, List.length_nil, List.eraseIdx_cons_zero]
        rw [map_dec_of_gt _ _ hgt]; exact refsOf_shift off rest
    | succ k =>
      simp at hy
      have := ih (off + 1) k hy
      have hoff : off + 1 + k = off + (k + 1) := by omega
      rw [hoff] at this
      cases c with
      | false =>
        simp only [List.eraseIdx_cons_succ, refsOf, Bool.false_eq_true, if_false, cnt, List.take_succ_cons,
          List.filter_cons] at this ⊢
        simpa [cnt] using this
      | true =>
        have hd : dec (off + (k + 1)) off = off := by simp [dec]
        simp only [List.eraseIdx_cons_succ, refsOf, if_true, List.map_cons, hd]
        rw [this]
        cases hy2 : y.2 <;> simp [cnt, List.take_succ_cons, List.filter_cons]

/-- the ref of the guard of the `k`-th subscriber, when it has a context -/
theorem refsOf_at (off : Nat) (l : List (Nat × Bool)) (k : Nat) (id : Nat) (hy : l[k]? = some (id, true)) :
    (refsOf off l)[cnt (l.take k)]? = some (off + k) ∧ (failOf l)[cnt (l.take k)]? = some id := by
  induction l generalizing off k with
  | nil => simp at hy
  | cons z rest ih =>
    obtain ⟨id', c⟩ := z
    cases k with
    | zero => simp at hy; obtain ⟨rfl, rfl⟩ := hy; simp [refsOf, cnt, failOf]
    | succ k =>
      simp at hy
      obtain ⟨h1, h2⟩ := ih (off + 1) k hy
      have hoff : off + 1 + k = off + (k + 1) := by omega
      rw [hoff] at h1
      cases c <;> simp [refsOf, cnt, failOf, List.take_succ_cons, List.filter_cons] at h1 h2 ⊢ <;> exact ⟨h1, h2⟩

/-- conversely: the `i`-th guard refers to a subscriber with a context, whose id is `fail[i]` -/
theorem refsOf_inv (off : Nat) (l : List (Nat × Bool)) (i : Nat) (hi : i < (failOf l).length) :
    ∃ k id, l[k]? = some (id, true) ∧ cnt (l.take k) = i ∧ (refsOf off l)[i]? = some (off + k) ∧ (failOf l)[i]? = some id := by
  induction l generalizing off i with
  | nil => simp [failOf] at hi
  | cons z rest ih =>
    obtain ⟨id', c⟩ := z
    cases c with
    | false =>
      have hi' : i < (failOf rest).length := by simpa [failOf] using hi
      obtain ⟨k, id, h1, h2, h3, h4⟩ := ih (off + 1) i hi'
      refine ⟨k + 1, id, by simpa using h1, by simpa [cnt, List.take_succ_cons, List.filter_cons] using h2, ?_, by simpa [failOf] using h4⟩
      have hoff : off + 1 + k = off + (k + 1) := by omega
      simpa [refsOf, hoff] using h3
    | true =>
      cases i with
      | zero => exact ⟨0, id', by simp, by simp [cnt], by simp [refsOf], by simp [failOf]⟩
      | succ i =>
        have hi' : i < (failOf rest).length := by simpa [failOf] using hi
        obtain ⟨k, id, h1, h2, h3, h4⟩ := ih (off + 1) i hi'
        refine ⟨k + 1, id, by simpa using h1, by simpa [cnt, List.take_succ_cons, List.filter_cons] using h2, ?_, by simpa [failOf] using h4⟩
        have hoff : off + 1 + k = off + (k + 1) := by omega
        simpa [refsOf, hoff] using h3

/-- a subscriber without a context has no guard: its index is not among the refs -/
theorem refsOf_not_mem (off : Nat) (l : List (Nat × Bool)) (k : Nat) (id : Nat) (hy : l[k]? = some (id, false)) :
    (off + k) ∉ refsOf off l := by
  induction l generalizing off k with
  | nil => simp at hy
  | cons z rest ih =>
    obtain ⟨id', c⟩ := z
    cases k with
    | zero =>
      simp at hy; obtain ⟨rfl, rfl⟩ := hy
      simp only [refsOf, Bool.false_eq_true, if_false]
      intro hm; have := refsOf_ge (off + 1) rest _ hm; omega
    | succ k =>
      simp at hy
      have := ih (off + 1) k hy
      have hoff : off + 1 + k = off + (k + 1) := by omega
      rw [hoff] at this
      cases c with
      | false => simpa [refsOf] using this
      | true =>
        simp only [refsOf, if_true, List.mem_cons, not_or]
        exact ⟨by omega, this⟩

end BB.Notifier
