/- Word-level lemmas for ChanCaster's packed state (every delta, every count): helper for Props/C08. -/
import BB.Model.CasterWord
namespace BB.Caster

theorem hi_pack (h l : Nat) (hl : l < W32) : hi (pack h l) = h := by
  unfold hi pack W32 at *; omega
theorem lo_pack (h l : Nat) (hl : l < W32) : lo (pack h l) = l := by
  unfold lo pack W32 at *; omega

theorem add_pos_idle (n d : Nat) (hd : 0 < d) (h : n + d ≤ MAXR) :
    add (idleWord n) (d : Int) = .ok (idleWord (n + d)) (n + d) 0 := by
  have hs : (idleWord n + pack d d) % W64 = idleWord (n + d) := by
    unfold idleWord pack W32 W64 MAXR at *; omega
  have hlt : n + d < W32 := by unfold MAXR W32 at *; omega
  have h0 : (d : Int) ≥ 0 := Int.natCast_nonneg d
  have hdm : ¬ d > MAXR := by omega
  have hd0 : ¬ d = 0 := by omega
  unfold add
  simp only [h0, ↓reduceIte, Int.toNat_natCast, hdm, hd0, hs]
  simp only [idleWord, hi_pack _ _ hlt, lo_pack _ _ hlt]
  simp [h]

theorem add_pos_overflow (n d : Nat) (hn : n ≤ MAXR) (h : n + d > MAXR) :
    ∃ w, add (idleWord n) (d : Int) = .panic w := by
  have h0 : (d : Int) ≥ 0 := Int.natCast_nonneg d
  unfold add
  simp only [h0, ↓reduceIte, Int.toNat_natCast]
  by_cases hdm : d > MAXR
  · exact ⟨idleWord n, by simp [hdm]⟩
  · have hd0 : ¬ d = 0 := by omega
    have hs : (idleWord n + pack d d) % W64 = idleWord (n + d) := by
      unfold idleWord pack W32 W64 MAXR at *; omega
    have hlt : n + d < W32 := by unfold MAXR W32 at *; omega
    simp only [hdm, ↓reduceIte, hd0, hs]
    simp only [idleWord, hi_pack _ _ hlt, lo_pack _ _ hlt]
    have : ¬ n + d ≤ MAXR := by omega
    exact ⟨pack (n + d) (n + d), by simp [this]⟩

theorem add_zero_idle (n : Nat) (hn : n ≤ MAXR) : add (idleWord n) 0 = .ok (idleWord n) n 0 := by
  have hlt : n < W32 := by unfold MAXR W32 at *; omega
  unfold add
  simp only [ge_iff_le, Int.le_refl, ↓reduceIte, Int.toNat_zero]
  simp only [idleWord, hi_pack _ _ hlt, lo_pack _ _ hlt]
  have : ¬ 0 > MAXR := by unfold MAXR; omega
  simp [hn, this]

theorem add_zero_armed (h : Nat) (hh : h ≤ MAXR) : add (armedWord h) 0 = .ok (armedWord h) h 0 := by
  have hlt : h + MAXR < W32 := by unfold MAXR W32 at *; omega
  unfold add
  simp only [ge_iff_le, Int.le_refl, ↓reduceIte, Int.toNat_zero]
  simp only [armedWord, hi_pack _ _ hlt, lo_pack _ _ hlt]
  have : ¬ 0 > MAXR := by unfold MAXR; omega
  simp [hh, this]

theorem neg_cast (d : Nat) (hd : 0 < d) : ¬ (-(d : Int) ≥ 0) ∧ (- -(d : Int)).toNat = d := by
  constructor
  · omega
  · simp

theorem add_neg_idle (n d : Nat) (hd : 0 < d) (hdn : d ≤ n) (hn : n ≤ MAXR) :
    add (idleWord n) (-(d : Int)) = .ok (idleWord (n - d)) (n - d) 0 := by
  have hs : (idleWord n + (W64 - pack d d)) % W64 = idleWord (n - d) := by
    unfold idleWord pack W32 W64 MAXR at *; omega
  have hlt : n - d < W32 := by unfold MAXR W32 at *; omega
  have hdm : ¬ d > MAXR := by omega
  obtain ⟨c1, c2⟩ := neg_cast d hd
  unfold add
  simp only [c1, ↓reduceIte, c2, hdm, hs]
  simp only [idleWord, hi_pack _ _ hlt, lo_pack _ _ hlt]
  have : n - d ≤ MAXR ∧ MAXR - (n - d) ≥ d := by omega
  simp [this]

theorem add_neg_armed (h d : Nat) (hd : 0 < d) (hdh : d ≤ h) (hh : h ≤ MAXR) :
    add (armedWord h) (-(d : Int)) = .ok (armedWord (h - d)) (h - d) d := by
  have hs : (armedWord h + (W64 - pack d d)) % W64 = armedWord (h - d) := by
    unfold armedWord pack W32 W64 MAXR at *; omega
  have hlt : h - d + MAXR < W32 := by unfold MAXR W32 at *; omega
  have hdm : ¬ d > MAXR := by omega
  obtain ⟨c1, c2⟩ := neg_cast d hd
  unfold add
  simp only [c1, ↓reduceIte, c2, hdm, hs]
  simp only [armedWord, hi_pack _ _ hlt, lo_pack _ _ hlt]
  have h1 : h - d ≤ MAXR ∧ MAXR - (h - d) ≥ d := by omega
  have h2 : ¬ h - d + MAXR = h - d := by unfold MAXR; omega
  have h3 : h - d + MAXR = MAXR + (h - d) := by omega
  rw [if_pos h1, if_neg h2, if_pos h3]

theorem hi_underflow_idle (n d : Nat) (hn : n ≤ 2147483647) (hd : d ≤ 2147483647) (h : n < d) :
    ((n * 4294967296 + n + (18446744073709551616 - (d * 4294967296 + d))) % 18446744073709551616) / 4294967296 > 2147483647 := by
  have e : n * 4294967296 + n + (18446744073709551616 - (d * 4294967296 + d)) =
      (4294967296 - (d - n) - 1) * 4294967296 + (4294967296 - (d - n)) := by omega
  have l : (4294967296 - (d - n) - 1) * 4294967296 + (4294967296 - (d - n)) < 18446744073709551616 := by omega
  rw [e, Nat.mod_eq_of_lt l]
  have := hi_pack (4294967296 - (d - n) - 1) (4294967296 - (d - n)) (by unfold W32; omega)
  unfold hi pack W32 at this
  rw [this]; omega
theorem hi_underflow_armed (n d : Nat) (hn : n ≤ 2147483647) (hd : d ≤ 2147483647) (h : n < d) :
    ((n * 4294967296 + (n + 2147483647) + (18446744073709551616 - (d * 4294967296 + d))) % 18446744073709551616) / 4294967296 > 2147483647 := by
  have e : n * 4294967296 + (n + 2147483647) + (18446744073709551616 - (d * 4294967296 + d)) =
      (4294967296 - (d - n)) * 4294967296 + (2147483647 - (d - n)) := by omega
  have l : (4294967296 - (d - n)) * 4294967296 + (2147483647 - (d - n)) < 18446744073709551616 := by omega
  rw [e, Nat.mod_eq_of_lt l]
  have := hi_pack (4294967296 - (d - n)) (2147483647 - (d - n)) (by unfold W32; omega)
  unfold hi pack W32 at this
  rw [this]; omega

theorem add_neg_underflow_idle (n d : Nat) (hn : n ≤ MAXR) (hdn : n < d) :
    ∃ w, add (idleWord n) (-(d : Int)) = .panic w := by
  have hd : 0 < d := by omega
  obtain ⟨c1, c2⟩ := neg_cast d hd
  unfold add
  simp only [c1, ↓reduceIte, c2]
  by_cases hdm : d > MAXR
  · exact ⟨idleWord n, by simp [hdm]⟩
  · simp only [hdm, ↓reduceIte]
    have hhi : hi ((idleWord n + (W64 - pack d d)) % W64) > MAXR :=
      hi_underflow_idle n d hn (by unfold MAXR at hdm; omega) hdn
    have : ¬ (hi ((idleWord n + (W64 - pack d d)) % W64) ≤ MAXR ∧ MAXR - hi ((idleWord n + (W64 - pack d d)) % W64) ≥ d) := by omega
    exact ⟨(idleWord n + (W64 - pack d d)) % W64, by simp only [this, ↓reduceIte]⟩

theorem add_neg_underflow_armed (h d : Nat) (hh : h ≤ MAXR) (hdh : h < d) :
    ∃ w, add (armedWord h) (-(d : Int)) = .panic w := by
  have hd : 0 < d := by omega
  obtain ⟨c1, c2⟩ := neg_cast d hd
  unfold add
  simp only [c1, ↓reduceIte, c2]
  by_cases hdm : d > MAXR
  · exact ⟨armedWord h, by simp [hdm]⟩
  · simp only [hdm, ↓reduceIte]
    have hhi : hi ((armedWord h + (W64 - pack d d)) % W64) > MAXR :=
      hi_underflow_armed h d hh (by unfold MAXR at hdm; omega) hdh
    have : ¬ (hi ((armedWord h + (W64 - pack d d)) % W64) ≤ MAXR ∧ MAXR - hi ((armedWord h + (W64 - pack d d)) % W64) ≥ d) := by omega
    exact ⟨(armedWord h + (W64 - pack d d)) % W64, by simp only [this, ↓reduceIte]⟩

theorem add_out_of_bounds (w : Nat) (delta : Int) (h : delta > (MAXR : Int) ∨ delta < -(MAXR : Int)) :
    add w delta = .panic w := by
  unfold add
  rcases h with h | h
  · have h0 : delta ≥ 0 := by unfold MAXR at h; omega
    have : delta.toNat > MAXR := by unfold MAXR at *; omega
    simp [h0, this]
  · have h0 : ¬ delta ≥ 0 := by unfold MAXR at h; omega
    have : (-delta).toNat > MAXR := by unfold MAXR at *; omega
    simp [h0, this]

theorem arm_zero : arm 0 = .zero := by simp [arm]

theorem arm_idle (n : Nat) (h0 : 0 < n) (hn : n ≤ MAXR) : arm (idleWord n) = .armed (armedWord n) n := by
  have hlt : n < W32 := by unfold MAXR W32 at *; omega
  have hne : pack n n ≠ 0 := by unfold pack W32; omega
  have hm : (n + MAXR) % W32 = n + MAXR := by unfold MAXR W32 at *; omega
  have hgt : ¬ MAXR < n := by omega
  unfold arm idleWord
  simp only [hne, ↓reduceIte, hi_pack _ _ hlt, lo_pack _ _ hlt, hm]
  simp [hgt, armedWord]

theorem finish_armed (h n : Nat) (hhn : h ≤ n) (hn : h ≤ MAXR) : finish (armedWord h) n = some h := by
  have hlt : h + MAXR < W32 := by unfold MAXR W32 at *; omega
  have hm : (h + MAXR) % W32 = h + MAXR := by unfold MAXR W32 at *; omega
  unfold finish
  simp only [armedWord, hi_pack _ _ hlt, lo_pack _ _ hlt, hm]
  have : ¬ (h > n ∨ h + MAXR ≠ h + MAXR) := by omega
  rw [if_neg this]

/-- Send's final check rejects a word that is not armed (somebody reset or re-registered it) -/
theorem finish_rejects_idle (m n : Nat) (hm : m ≤ MAXR) : finish (idleWord m) n = none := by
  have hlt : m < W32 := by unfold MAXR W32 at *; omega
  have hne : m ≠ (m + MAXR) % W32 := by unfold MAXR W32 at *; omega
  unfold finish
  simp only [idleWord, hi_pack _ _ hlt, lo_pack _ _ hlt]
  simp [hne]

/-- a word whose hi half is out of range makes every later call panic at once -/
theorem bad_word_panics (w : Nat) (hw : hi w > MAXR) (hlt : w < W64) :
    add w 0 = .panic w ∧ arm w = .panic := by
  constructor
  · unfold add
    have : ¬ hi w ≤ MAXR := by omega
    simp [this]
  · have hne : w ≠ 0 := by
      intro e; subst e; unfold hi MAXR W32 at hw; omega
    unfold arm
    simp [hne, hw]

/-- the word an in-range but unbalanced / overflowing Add leaves behind has an out-of-range hi half -/
theorem overflow_leaves_bad_word (n d : Nat) (hn : n ≤ MAXR) (hd : d ≤ MAXR) (h : n + d > MAXR) :
    add (idleWord n) (d : Int) = .panic (idleWord (n + d)) ∧ hi (idleWord (n + d)) > MAXR ∧ idleWord (n + d) < W64 := by
  have h0 : (d : Int) ≥ 0 := Int.natCast_nonneg d
  have hdm : ¬ d > MAXR := by omega
  have hd0 : ¬ d = 0 := by omega
  have hs : (idleWord n + pack d d) % W64 = idleWord (n + d) := by
    unfold idleWord pack W32 W64 MAXR at *; omega
  have hlt : n + d < W32 := by unfold MAXR W32 at *; omega
  refine ⟨?_, ?_, ?_⟩
  · unfold add
    simp only [h0, ↓reduceIte, Int.toNat_natCast, hdm, hd0, hs]
    simp only [idleWord, hi_pack _ _ hlt, lo_pack _ _ hlt]
    have : ¬ n + d ≤ MAXR := by omega
    simp [this]
  · simp only [idleWord, hi_pack _ _ hlt]; exact h
  · unfold idleWord pack W32 W64 MAXR at *; omega

theorem underflow_leaves_bad_word (n d : Nat) (hn : n ≤ MAXR) (hd : d ≤ MAXR) (h : n < d) :
    ∃ w, add (idleWord n) (-(d : Int)) = .panic w ∧ hi w > MAXR ∧ w < W64 := by
  have hd0 : 0 < d := by omega
  obtain ⟨c1, c2⟩ := neg_cast d hd0
  have hdm : ¬ d > MAXR := by omega
  have hhi : hi ((idleWord n + (W64 - pack d d)) % W64) > MAXR := hi_underflow_idle n d hn hd h
  refine ⟨(idleWord n + (W64 - pack d d)) % W64, ?_, hhi, ?_⟩
  · unfold add
    simp only [c1, ↓reduceIte, c2, hdm]
    have : ¬ (hi ((idleWord n + (W64 - pack d d)) % W64) ≤ MAXR ∧ MAXR - hi ((idleWord n + (W64 - pack d d)) % W64) ≥ d) := by omega
    simp only [this, ↓reduceIte]
  · exact Nat.mod_lt _ (by unfold W64; omega)

end BB.Caster
