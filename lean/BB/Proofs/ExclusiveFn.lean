/- The executed work function was supplied by one of the calls coalesced into the execution (helper for Props/C10). -/
import BB.Proofs.ExclusiveFrame

namespace BB.Exclusive

/-- how a micro step can change the bookkeeping fields of item `j` -/
theorem micro_item_frame {s s' : St} (hm : Micro s s') (j : Nat) :
    ((s'.items j).count = (s.items j).count ∧ (s'.items j).fn = (s.items j).fn ∧
       (s'.items j).ranFn = (s.items j).ranFn ∧ (s'.items j).started = (s.items j).started) ∨
    ((s'.items j).count = 0 ∧ (s'.items j).started = false) ∨
    (∃ t fn st, (s.threads t).pc = .idle ∧ s' = attach s j t fn st) ∨
    (∃ t, (s.threads t).pc = .swapped ∧ j = (s.threads t).item ∧ (s'.items j).count = (s.items j).count ∧
       (s'.items j).fn = (s.items j).fn ∧ (s'.items j).ranFn = (s.items j).fn ∧ (s'.items j).started = true) := by
  cases hm with
  | alloc hm =>
    by_cases e : j = s.nItems
    · subst e; right; left; simp [upd_apply]
    · left; simp [upd_apply, e]
  | @attach k t fn st hm hidle =>
    by_cases e : j = k
    · subst e; right; right; left; exact ⟨t, fn, st, hidle, rfl⟩
    · left; rw [attach_items_other _ _ _ _ _ e]; exact ⟨rfl, rfl, rfl, rfl⟩
  | @deliver t ht _ _ => left; exact ⟨rfl, rfl, rfl, rfl⟩
  | @run t ht _ _ =>
    left
    by_cases e : j = (s.threads t).item
    · subst e; simp [runSt, upd_apply]
    · simp [runSt, upd_apply, e]
  | @swap t ht =>
    by_cases e : j = s.nItems
    · subst e; right; left; simp [swapSt, upd_apply]
    · left; simp [swapSt, upd_apply, e]
  | @start t ht =>
    by_cases e : j = (s.threads t).item
    · subst e; right; right; right; exact ⟨t, ht, rfl, by simp [startSt, upd_apply]⟩
    · left; simp [startSt, upd_apply, e]
  | @finish t r pc' ht hc hp =>
    left
    by_cases e : j = (s.threads t).item
    · subst e; simp [finishSt, upd_apply]
    · simp [finishSt, upd_apply, e]
  | @ret t ht hc => left; exact ⟨rfl, rfl, rfl, rfl⟩
  | @clear t ht =>
    left
    by_cases e : j = (s.threads t).next
    · subst e; simp [clearSt, upd_apply]
    · simp [clearSt, upd_apply, e]

structure InvD (s : St) : Prop where
  fnSupplied  : ∀ j, (s.items j).count ≠ 0 → ∃ t, (s.threads t).pc ≠ .idle ∧ (s.threads t).item = j ∧ (s.threads t).fn = (s.items j).fn
  ranSupplied : ∀ j, (s.items j).started = true → ∃ t, (s.threads t).pc ≠ .idle ∧ (s.threads t).item = j ∧ (s.threads t).fn = (s.items j).ranFn

theorem invD_init : InvD sys.init := by
  constructor <;> simp [sys]

theorem carry {s s' : St} (hm : Micro s s') {j x : Nat}
    (hw : ∃ t, (s.threads t).pc ≠ .idle ∧ (s.threads t).item = j ∧ (s.threads t).fn = x) :
    ∃ t, (s'.threads t).pc ≠ .idle ∧ (s'.threads t).item = j ∧ (s'.threads t).fn = x := by
  obtain ⟨t, h1, h2, h3⟩ := hw
  have := micro_thread_frame hm t h1
  exact ⟨t, this.2.2.2.2, by rw [this.1]; exact h2, by rw [this.2.2.2.1]; exact h3⟩

theorem invD_micro {s s' : St} (h : Inv s) (hD : InvD s) (hm : Micro s s') : InvD s' := by
  constructor
  · intro j hj
    rcases micro_item_frame hm j with ⟨h1, h2, _, _⟩ | ⟨h1, _⟩ | ⟨t, fn, st, hidle, e⟩ | ⟨t, ht, _, h1, h2, _, _⟩
    · rw [h1] at hj; rw [h2]; exact carry hm (hD.fnSupplied j hj)
    · exact absurd h1 hj
    · subst e
      exact ⟨t, by rcases attach_self_pc s j t fn st with e | e <;> simp [e], by rw [attach_threads_self],
        by rw [attach_threads_self, attach_items_self]⟩
    · rw [h1] at hj; rw [h2]; exact carry hm (hD.fnSupplied j hj)
  · intro j hj
    rcases micro_item_frame hm j with ⟨_, _, h3, h4⟩ | ⟨_, h1⟩ | ⟨t, fn, st, hidle, e⟩ | ⟨t, ht, hjt, _, _, h3, _⟩
    · rw [h4] at hj; rw [h3]; exact carry hm (hD.ranSupplied j hj)
    · rw [h1] at hj; cases hj
    · subst e
      rw [attach_items_self] at hj ⊢; simp only at hj ⊢
      exact carry hm (hD.ranSupplied j hj)
    · rw [h3]
      have hcnt : (s.items j).count ≠ 0 := fun h0 => h.countZero j h0 t (by simp [ht]) hjt.symm
      exact carry hm (hD.fnSupplied j hcnt)

theorem invD_reach : ∀ s, LTS.Reach sys s → InvD s :=
  micro_invariant2 InvD invD_init (fun _ _ h hD hm => invD_micro h hD hm)

end BB.Exclusive
