/- The inductive invariant of the Exclusive model (helper for Props/C09, C10). -/
import BB.Model.Exclusive

namespace BB.Exclusive

def past (pc : Pc) : Prop := pc = .swapped ∨ pc = .working ∨ pc = .returned

structure Inv (s : St) : Prop where
  single     : ∀ t1 t2, inR (s.threads t1).pc = true → inR (s.threads t2).pc = true → t1 = t2
  runnerMap  : ∀ t, (s.threads t).pc = .running → s.map = some (s.threads t).item
  succMap    : ∀ t, past (s.threads t).pc → s.map = some (s.threads t).next ∧
                 (s.items (s.threads t).next).running = true ∧ (s.items (s.threads t).next).complete = false ∧
                 (s.threads t).item ≠ (s.threads t).next ∧ (s.threads t).next < s.nItems
  waitOk     : ∀ t, (s.threads t).pc = .waiting → (s.items (s.threads t).item).running = false →
                 (s.items (s.threads t).item).complete = false →
                 (∀ u, inR (s.threads u).pc = false) ∧ s.map = some (s.threads t).item
  mapFresh   : ∀ j, s.map = some j → (s.items j).complete = false ∧ j < s.nItems
  bounded    : ∀ t, (s.threads t).pc ≠ .idle → (s.threads t).item < s.nItems
  countZero  : ∀ j, (s.items j).count = 0 → ∀ t, (s.threads t).pc ≠ .idle → (s.threads t).item ≠ j
  fresh      : ∀ j, s.nItems ≤ j → s.items j = {}
  runnerItem : ∀ t, ((s.threads t).pc = .running ∨ (s.threads t).pc = .swapped) →
                 (s.items (s.threads t).item).running = true ∧ (s.items (s.threads t).item).complete = false

theorem inv_init : Inv sys.init := by
  constructor <;> simp [sys, inR, past]

theorem inR_of_past {pc : Pc} (h : past pc) : inR pc = true := by
  rcases h with h | h | h <;> simp [h, inR]

theorem inR_cases {pc : Pc} (h : inR pc = true) : pc = .running ∨ past pc := by
  cases pc <;> simp [inR, past] at h ⊢

/-- in a state where the map item `j` is neither running nor complete, nobody is in the runner region -/
theorem no_runner_of_idle_map {s : St} (h : Inv s) {j : Nat} (hm : s.map = some j)
    (hr : (s.items j).running = false) : ∀ u, inR (s.threads u).pc = false := by
  intro u
  cases hu : inR (s.threads u).pc with
  | false => rfl
  | true =>
    exfalso
    rcases inR_cases hu with h1 | h1
    · have := h.runnerMap u h1
      rw [hm] at this; cases this
      have := (h.runnerItem u (Or.inl h1)).1
      rw [hr] at this; cases this
    · have := h.succMap u h1
      rw [hm] at this
      obtain ⟨e, r, _⟩ := this
      cases e
      rw [hr] at r; cases r

theorem no_runner_of_no_map {s : St} (h : Inv s) (hm : s.map = none) : ∀ u, inR (s.threads u).pc = false := by
  intro u
  cases hu : inR (s.threads u).pc with
  | false => rfl
  | true =>
    exfalso
    rcases inR_cases hu with h1 | h1
    · have := h.runnerMap u h1; rw [hm] at this; cases this
    · have := (h.succMap u h1).1; rw [hm] at this; cases this

theorem upd_apply {α : Type} (f : Nat → α) (i j : Nat) (v : α) : upd f i v j = if j = i then v else f j := rfl

theorem pc_attach_not_inR (start : Bool) (c : Nat) : inR (if (start && decide (c + 1 ≠ 1)) = true then Pc.done else Pc.waiting) = false := by
  split <;> rfl

@[simp] theorem alloc_threads (s : St) : (alloc s).threads = s.threads := rfl
@[simp] theorem alloc_map (s : St) : (alloc s).map = some s.nItems := rfl
@[simp] theorem alloc_nItems (s : St) : (alloc s).nItems = s.nItems + 1 := rfl
@[simp] theorem alloc_items (s : St) : (alloc s).items = upd s.items s.nItems {} := rfl

theorem inv_alloc {s : St} (h : Inv s) (hm : s.map = none) : Inv (alloc s) := by
  have hnoR := no_runner_of_no_map h hm
  have hnoPast : ∀ u, ¬ past (s.threads u).pc := fun u hp => by
    have := hnoR u; rw [inR_of_past hp] at this; cases this
  constructor
  · exact h.single
  · intro t ht; have := h.runnerMap t ht; rw [hm] at this; cases this
  · intro t ht; exact absurd ht (hnoPast t)
  · intro t ht hr hc
    simp only [alloc_threads] at ht hr hc
    have hb := h.bounded t (by simp [ht])
    have hne : (s.threads t).item ≠ s.nItems := by omega
    simp only [alloc_items, upd_apply, if_neg hne] at hr hc
    have := (h.waitOk t ht hr hc).2; rw [hm] at this; cases this
  · intro j hj
    simp only [alloc_map] at hj; cases hj
    simp [upd_apply]
  · intro t ht; have := h.bounded t ht; simp only [alloc_nItems, alloc_threads]; omega
  · intro j hj t ht
    simp only [alloc_items, upd_apply] at hj
    split at hj
    · subst_vars; have := h.bounded t ht; simp only [alloc_threads]; omega
    · exact h.countZero j hj t ht
  · intro j hj
    simp only [alloc_nItems] at hj
    have hne : j ≠ s.nItems := by omega
    simp only [alloc_items, upd_apply, if_neg hne]
    exact h.fresh j (by omega)
  · intro t ht
    rcases ht with ht | ht
    · have := h.runnerMap t ht; rw [hm] at this; cases this
    · exact absurd (Or.inl ht) (hnoPast t)

@[simp] theorem attach_map (s : St) (j t fn : Nat) (st : Bool) : (attach s j t fn st).map = s.map := rfl
@[simp] theorem attach_nItems (s : St) (j t fn : Nat) (st : Bool) : (attach s j t fn st).nItems = s.nItems := rfl
theorem attach_threads_self (s : St) (j t fn : Nat) (st : Bool) :
    (attach s j t fn st).threads t = { pc := if st && (s.items j).count + 1 ≠ 1 then .done else .waiting, item := j, start := st, attachClock := s.clock, fn := fn } := by
  simp [attach, upd_apply]
theorem attach_threads_other (s : St) (j t fn : Nat) (st : Bool) {u : Nat} (h : u ≠ t) : (attach s j t fn st).threads u = s.threads u := by
  simp [attach, upd_apply, h]
theorem attach_items_self (s : St) (j t fn : Nat) (st : Bool) :
    (attach s j t fn st).items j = { s.items j with count := (s.items j).count + 1, fn := fn } := by
  simp [attach, upd_apply]
theorem attach_items_other (s : St) (j t fn : Nat) (st : Bool) {k : Nat} (h : k ≠ j) : (attach s j t fn st).items k = s.items k := by
  simp [attach, upd_apply, h]
theorem attach_items_running (s : St) (j t fn : Nat) (st : Bool) (k : Nat) : ((attach s j t fn st).items k).running = (s.items k).running := by
  by_cases h : k = j
  · subst h; rw [attach_items_self]
  · rw [attach_items_other _ _ _ _ _ h]
theorem attach_items_complete (s : St) (j t fn : Nat) (st : Bool) (k : Nat) : ((attach s j t fn st).items k).complete = (s.items k).complete := by
  by_cases h : k = j
  · subst h; rw [attach_items_self]
  · rw [attach_items_other _ _ _ _ _ h]

theorem attach_self_pc (s : St) (j t fn : Nat) (st : Bool) :
    ((attach s j t fn st).threads t).pc = .waiting ∨ ((attach s j t fn st).threads t).pc = .done := by
  rw [attach_threads_self]; simp only; split <;> simp

theorem inv_attach {s : St} (h : Inv s) {j t : Nat} (fn : Nat) (st : Bool) (hm : s.map = some j)
    (hidle : (s.threads t).pc = .idle) : Inv (attach s j t fn st) := by
  have hself := attach_self_pc s j t fn st
  have hselfR : inR ((attach s j t fn st).threads t).pc = false := by rcases hself with e | e <;> simp [e, inR]
  have hselfItem : ((attach s j t fn st).threads t).item = j := by rw [attach_threads_self]
  have hjf := h.mapFresh j hm
  constructor
  · intro t1 t2 h1 h2
    by_cases e1 : t1 = t
    · subst e1; rw [hselfR] at h1; cases h1
    by_cases e2 : t2 = t
    · subst e2; rw [hselfR] at h2; cases h2
    rw [attach_threads_other _ _ _ _ _ e1] at h1
    rw [attach_threads_other _ _ _ _ _ e2] at h2
    exact h.single t1 t2 h1 h2
  · intro u hu
    by_cases e : u = t
    · subst e; rcases hself with e | e <;> rw [e] at hu <;> cases hu
    rw [attach_threads_other _ _ _ _ _ e] at hu ⊢
    exact h.runnerMap u hu
  · intro u hu
    by_cases e : u = t
    · subst e; have := inR_of_past hu; rw [hselfR] at this; cases this
    rw [attach_threads_other _ _ _ _ _ e] at hu ⊢
    simp only [attach_items_running, attach_items_complete, attach_map, attach_nItems]
    exact h.succMap u hu
  · intro u hu hr hc
    simp only [attach_items_running, attach_items_complete] at hr hc
    have key : (∀ v, inR (s.threads v).pc = false) → ∀ v, inR ((attach s j t fn st).threads v).pc = false := by
      intro hv v
      by_cases e : v = t
      · subst e; exact hselfR
      · rw [attach_threads_other _ _ _ _ _ e]; exact hv v
    by_cases e : u = t
    · subst e
      rw [hselfItem] at hr hc ⊢
      exact ⟨key (no_runner_of_idle_map h hm hr), hm⟩
    rw [attach_threads_other _ _ _ _ _ e] at hu hr hc ⊢
    have := h.waitOk u hu hr hc
    exact ⟨key this.1, this.2⟩
  · intro k hk
    simp only [attach_map] at hk
    simp only [attach_items_complete, attach_nItems]
    exact h.mapFresh k hk
  · intro u hu
    by_cases e : u = t
    · subst e; rw [hselfItem]; exact hjf.2
    rw [attach_threads_other _ _ _ _ _ e] at hu ⊢
    exact h.bounded u hu
  · intro k hk u hu
    by_cases ek : k = j
    · subst ek; rw [attach_items_self] at hk; simp at hk
    rw [attach_items_other _ _ _ _ _ ek] at hk
    by_cases e : u = t
    · subst e; rw [hselfItem]; exact fun e' => ek e'.symm
    rw [attach_threads_other _ _ _ _ _ e] at hu ⊢
    exact h.countZero k hk u hu
  · intro k hk
    simp only [attach_nItems] at hk
    have : k ≠ j := by omega
    rw [attach_items_other _ _ _ _ _ this]
    exact h.fresh k hk
  · intro u hu
    by_cases e : u = t
    · subst e; rcases hself with e | e <;> rw [e] at hu <;> simp at hu
    rw [attach_threads_other _ _ _ _ _ e] at hu ⊢
    simp only [attach_items_running, attach_items_complete]
    exact h.runnerItem u hu

theorem inv_deliver {s : St} (h : Inv s) {t : Nat} (ht : (s.threads t).pc = .waiting) : Inv (deliverSt s t) := by
  unfold deliverSt
  simp only
  constructor
  · intro t1 t2 h1 h2
    simp only [upd_apply] at h1 h2
    split at h1
    · simp [inR] at h1
    split at h2
    · simp [inR] at h2
    exact h.single t1 t2 h1 h2
  · intro u hu
    simp only [upd_apply] at hu ⊢
    split at hu
    · cases hu
    rename_i e; simp only [if_neg e]; exact h.runnerMap u hu
  · intro u hu
    simp only [upd_apply] at hu ⊢
    split at hu
    · rcases hu with hu | hu | hu <;> cases hu
    rename_i e; simp only [if_neg e]; exact h.succMap u hu
  · intro u hu hr hc
    simp only [upd_apply] at hu hr hc ⊢
    split at hu
    · cases hu
    rename_i e; simp only [if_neg e] at hr hc ⊢
    have := h.waitOk u hu hr hc
    refine ⟨fun v => ?_, this.2⟩
    split
    · rfl
    · exact this.1 v
  · exact h.mapFresh
  · intro u hu
    simp only [upd_apply] at hu ⊢
    split
    · exact h.bounded t (by simp [ht])
    · rename_i e; simp only [if_neg e] at hu; exact h.bounded u hu
  · intro k hk u hu
    simp only [upd_apply] at hu ⊢
    split
    · exact h.countZero k hk t (by simp [ht])
    · rename_i e; simp only [if_neg e] at hu; exact h.countZero k hk u hu
  · exact h.fresh
  · intro u hu
    simp only [upd_apply] at hu ⊢
    split at hu
    · simp at hu
    rename_i e; simp only [if_neg e]; exact h.runnerItem u hu

theorem inv_run {s : St} (h : Inv s) {t : Nat} (ht : (s.threads t).pc = .waiting)
    (hrun : (s.items (s.threads t).item).running = false) (hcomp : (s.items (s.threads t).item).complete = false) :
    Inv (runSt s t) := by
  unfold runSt
  simp only
  obtain ⟨hnoR, hm⟩ := h.waitOk t ht hrun hcomp
  have hjf := h.mapFresh _ hm
  constructor
  · intro t1 t2 h1 h2
    simp only [upd_apply] at h1 h2
    split at h1
    · split at h2
      · subst_vars; rfl
      · rw [hnoR t2] at h2; cases h2
    · rw [hnoR t1] at h1; cases h1
  · intro u hu
    simp only [upd_apply] at hu ⊢
    split
    · exact hm
    · rename_i e; simp only [if_neg e] at hu; have := hnoR u; rw [hu] at this; cases this
  · intro u hu
    simp only [upd_apply] at hu
    split at hu
    · rcases hu with hu | hu | hu <;> cases hu
    · have := hnoR u; rw [inR_of_past hu] at this; cases this
  · intro u hu hr hc
    by_cases e : u = t
    · subst e; simp [upd_apply] at hu
    simp only [upd_apply, if_neg e] at hu hr hc
    by_cases e2 : (s.threads u).item = (s.threads t).item
    · simp [e2] at hr
    simp only [if_neg e2] at hr hc
    have := (h.waitOk u hu hr hc).2
    rw [hm] at this; exact absurd (Option.some.inj this).symm e2
  · intro k hk
    simp only at hk
    rw [hm] at hk; cases hk
    simp only [upd_apply, if_pos rfl]
    exact ⟨hcomp, hjf.2⟩
  · intro u hu
    simp only [upd_apply] at hu ⊢
    split
    · exact hjf.2
    · rename_i e; simp only [if_neg e] at hu; exact h.bounded u hu
  · intro k hk u hu
    simp only [upd_apply] at hk hu ⊢
    have hk' : (s.items k).count = 0 := by
      split at hk
      · subst_vars; exact hk
      · exact hk
    split
    · exact h.countZero k hk' t (by simp [ht])
    · rename_i e; simp only [if_neg e] at hu; exact h.countZero k hk' u hu
  · intro k hk
    simp only at hk
    have : k ≠ (s.threads t).item := by omega
    simp only [upd_apply, if_neg this]
    exact h.fresh k hk
  · intro u hu
    simp only [upd_apply] at hu ⊢
    split
    · simp only [if_pos rfl]; exact ⟨rfl, hcomp⟩
    · rename_i e; simp only [if_neg e] at hu
      have := hnoR u
      rcases hu with hu | hu <;> rw [hu] at this <;> cases this

/-- the only thread in the runner region -/
theorem only_runner {s : St} (h : Inv s) {t : Nat} (ht : inR (s.threads t).pc = true) {u : Nat} (e : u ≠ t) :
    inR (s.threads u).pc = false := by
  cases hu : inR (s.threads u).pc with
  | false => rfl
  | true => exact absurd (h.single u t hu ht) e

theorem inv_swap {s : St} (h : Inv s) {t : Nat} (ht : (s.threads t).pc = .running) :
    Inv { s with items := upd s.items s.nItems { running := true }, nItems := s.nItems + 1, map := some s.nItems,
                 threads := upd s.threads t { s.threads t with pc := .swapped, next := s.nItems } } := by
  have htR : inR (s.threads t).pc = true := by simp [ht, inR]
  have hRI := h.runnerItem t (Or.inl ht)
  have hb := h.bounded t (by simp [ht])
  have hne : (s.threads t).item ≠ s.nItems := by omega
  constructor
  · intro t1 t2 h1 h2
    by_cases e1 : t1 = t <;> by_cases e2 : t2 = t
    · rw [e1, e2]
    · simp only [upd_apply, if_neg e2] at h2; rw [only_runner h htR e2] at h2; cases h2
    · simp only [upd_apply, if_neg e1] at h1; rw [only_runner h htR e1] at h1; cases h1
    · simp only [upd_apply, if_neg e1] at h1; rw [only_runner h htR e1] at h1; cases h1
  · intro u hu
    by_cases e : u = t
    · subst e; simp [upd_apply] at hu
    · simp only [upd_apply, if_neg e] at hu; have := only_runner h htR e; rw [hu] at this; cases this
  · intro u hu
    by_cases e : u = t
    · subst e; simp [upd_apply]; omega
    · simp only [upd_apply, if_neg e] at hu; have := only_runner h htR e; rw [inR_of_past hu] at this; cases this
  · intro u hu hr hc
    by_cases e : u = t
    · subst e; simp [upd_apply] at hu
    simp only [upd_apply, if_neg e] at hu hr hc
    have hbu := h.bounded u (by simp [hu])
    have hneu : (s.threads u).item ≠ s.nItems := by omega
    simp only [if_neg hneu] at hr hc
    have := (h.waitOk u hu hr hc).1 t
    rw [htR] at this; cases this
  · intro k hk
    simp only at hk; cases hk
    simp [upd_apply]
  · intro u hu
    by_cases e : u = t
    · subst e; simp only [upd_apply, ↓reduceIte]; omega
    · simp only [upd_apply, if_neg e] at hu ⊢; have := h.bounded u hu; omega
  · intro k hk u hu
    by_cases ek : k = s.nItems
    · subst ek
      by_cases e : u = t
      · subst e; simp only [upd_apply, ↓reduceIte]; exact hne
      · simp only [upd_apply, if_neg e] at hu ⊢; have := h.bounded u hu; omega
    · simp only [upd_apply, if_neg ek] at hk
      by_cases e : u = t
      · subst e; simp only [upd_apply, ↓reduceIte]; exact h.countZero k hk u (by simp [ht])
      · simp only [upd_apply, if_neg e] at hu ⊢; exact h.countZero k hk u hu
  · intro k hk
    simp only at hk
    have : k ≠ s.nItems := by omega
    simp only [upd_apply, if_neg this]
    exact h.fresh k (by omega)
  · intro u hu
    by_cases e : u = t
    · subst e; simp only [upd_apply, ↓reduceIte, if_neg hne]; exact hRI
    · simp only [upd_apply, if_neg e] at hu
      have := only_runner h htR e
      rcases hu with hu | hu <;> rw [hu] at this <;> cases this

theorem inv_startWork {s : St} (h : Inv s) {t : Nat} (ht : (s.threads t).pc = .swapped) :
    Inv { s with threads := upd s.threads t { s.threads t with pc := .working },
                 items := upd s.items (s.threads t).item { s.items (s.threads t).item with started := true, startClock := s.clock, ranFn := (s.items (s.threads t).item).fn },
                 clock := s.clock + 1, execs := s.execs + 1 } := by
  have htR : inR (s.threads t).pc = true := by simp [ht, inR]
  have hpast : past (s.threads t).pc := Or.inl ht
  have hb := h.bounded t (by simp [ht])
  have hrun : ∀ k, (upd s.items (s.threads t).item { s.items (s.threads t).item with started := true, startClock := s.clock, ranFn := (s.items (s.threads t).item).fn } k).running = (s.items k).running := by
    intro k; by_cases e : k = (s.threads t).item
    · subst e; simp [upd_apply]
    · simp [upd_apply, e]
  have hcomp : ∀ k, (upd s.items (s.threads t).item { s.items (s.threads t).item with started := true, startClock := s.clock, ranFn := (s.items (s.threads t).item).fn } k).complete = (s.items k).complete := by
    intro k; by_cases e : k = (s.threads t).item
    · subst e; simp [upd_apply]
    · simp [upd_apply, e]
  have hcount : ∀ k, (upd s.items (s.threads t).item { s.items (s.threads t).item with started := true, startClock := s.clock, ranFn := (s.items (s.threads t).item).fn } k).count = (s.items k).count := by
    intro k; by_cases e : k = (s.threads t).item
    · subst e; simp [upd_apply]
    · simp [upd_apply, e]
  have hinR : ∀ u, inR (upd s.threads t { s.threads t with pc := .working } u).pc = inR (s.threads u).pc := by
    intro u; by_cases e : u = t
    · subst e; rw [htR]; simp [upd_apply, inR]
    · simp [upd_apply, e]
  have hitem : ∀ u, (upd s.threads t { s.threads t with pc := .working } u).item = (s.threads u).item := by
    intro u; by_cases e : u = t
    · subst e; simp [upd_apply]
    · simp [upd_apply, e]
  have hnext : ∀ u, (upd s.threads t { s.threads t with pc := .working } u).next = (s.threads u).next := by
    intro u; by_cases e : u = t
    · subst e; simp [upd_apply]
    · simp [upd_apply, e]
  constructor
  · intro t1 t2 h1 h2
    simp only [hinR] at h1 h2
    exact h.single t1 t2 h1 h2
  · intro u hu
    simp only [hitem]
    by_cases e : u = t
    · subst e; simp [upd_apply] at hu
    · simp only [upd_apply, if_neg e] at hu; exact h.runnerMap u hu
  · intro u hu
    simp only [hitem, hnext, hrun, hcomp]
    by_cases e : u = t
    · subst e; exact h.succMap u hpast
    · simp only [upd_apply, if_neg e] at hu; exact h.succMap u hu
  · intro u hu hr hc
    simp only [hitem, hrun, hcomp, hinR] at hr hc ⊢
    by_cases e : u = t
    · subst e; simp [upd_apply] at hu
    · simp only [upd_apply, if_neg e] at hu; exact h.waitOk u hu hr hc
  · intro k hk
    simp only [hcomp]
    exact h.mapFresh k hk
  · intro u hu
    simp only [hitem]
    by_cases e : u = t
    · subst e; exact hb
    · simp only [upd_apply, if_neg e] at hu; exact h.bounded u hu
  · intro k hk u hu
    simp only [hitem, hcount] at hk ⊢
    by_cases e : u = t
    · subst e; exact h.countZero k hk u (by simp [ht])
    · simp only [upd_apply, if_neg e] at hu; exact h.countZero k hk u hu
  · intro k hk
    simp only at hk
    have : k ≠ (s.threads t).item := by omega
    simp only [upd_apply, if_neg this]
    exact h.fresh k hk
  · intro u hu
    simp only [hitem, hrun, hcomp]
    by_cases e : u = t
    · subst e; simp [upd_apply] at hu
    · simp only [upd_apply, if_neg e] at hu; exact h.runnerItem u hu

/-- the working runner's item becomes complete (resolve, or the forced resolve after the work function returned) -/
theorem inv_complete {s : St} (h : Inv s) {t : Nat} (ht : (s.threads t).pc = .working) (r : Option Nat) :
    Inv { s with items := upd s.items (s.threads t).item { s.items (s.threads t).item with result := r, complete := true, running := false } } := by
  have htR : inR (s.threads t).pc = true := by simp [ht, inR]
  have hpast : past (s.threads t).pc := Or.inr (Or.inl ht)
  have hsm := h.succMap t hpast
  have hb := h.bounded t (by simp [ht])
  have eqt : ∀ u, inR (s.threads u).pc = true → u = t := fun u hu => h.single u t hu htR
  constructor
  · exact h.single
  · exact h.runnerMap
  · intro u hu
    have e := eqt u (inR_of_past hu)
    subst e
    have hne : (s.threads u).next ≠ (s.threads u).item := fun e => hsm.2.2.2.1 e.symm
    simp only [upd_apply, if_neg hne]
    exact hsm
  · intro u hu hr hc
    by_cases e : (s.threads u).item = (s.threads t).item
    · simp [upd_apply, e] at hc
    · simp only [upd_apply, if_neg e] at hr hc
      have := (h.waitOk u hu hr hc).1 t
      rw [htR] at this; cases this
  · intro k hk
    have : k = (s.threads t).next := by
      have := hsm.1; simp only at hk; rw [hk] at this; exact Option.some.inj this
    subst this
    have hne : (s.threads t).next ≠ (s.threads t).item := fun e => hsm.2.2.2.1 e.symm
    simp only [upd_apply, if_neg hne]
    exact ⟨hsm.2.2.1, hsm.2.2.2.2⟩
  · exact h.bounded
  · intro k hk u hu
    have hk' : (s.items k).count = 0 := by
      by_cases e : k = (s.threads t).item
      · subst e; simpa [upd_apply] using hk
      · simpa [upd_apply, e] using hk
    exact h.countZero k hk' u hu
  · intro k hk
    simp only at hk
    have : k ≠ (s.threads t).item := by omega
    simp only [upd_apply, if_neg this]
    exact h.fresh k hk
  · intro u hu
    simp only at hu
    have e : u = t := eqt u (by rcases hu with hu | hu <;> rw [hu] <;> rfl)
    subst e
    rcases hu with hu | hu <;> rw [ht] at hu <;> cases hu

/-- the working runner's thread record changes without touching its item/successor and stays working or becomes returned -/
theorem inv_thread {s : St} (h : Inv s) {t : Nat} (ht : (s.threads t).pc = .working) (th' : Thread)
    (hi : th'.item = (s.threads t).item) (hn : th'.next = (s.threads t).next)
    (hp : th'.pc = .working ∨ th'.pc = .returned) :
    Inv { s with threads := upd s.threads t th' } := by
  have htR : inR (s.threads t).pc = true := by simp [ht, inR]
  have hpast : past (s.threads t).pc := Or.inr (Or.inl ht)
  have hinR : ∀ u, inR (upd s.threads t th' u).pc = inR (s.threads u).pc := by
    intro u; by_cases e : u = t
    · subst e; rw [htR]; rcases hp with hp | hp <;> simp [upd_apply, hp, inR]
    · simp [upd_apply, e]
  have hitem : ∀ u, (upd s.threads t th' u).item = (s.threads u).item := by
    intro u; by_cases e : u = t
    · subst e; simp [upd_apply, hi]
    · simp [upd_apply, e]
  have hnext : ∀ u, (upd s.threads t th' u).next = (s.threads u).next := by
    intro u; by_cases e : u = t
    · subst e; simp [upd_apply, hn]
    · simp [upd_apply, e]
  constructor
  · intro t1 t2 h1 h2
    simp only [hinR] at h1 h2
    exact h.single t1 t2 h1 h2
  · intro u hu
    simp only [hitem]
    by_cases e : u = t
    · subst e; simp only [upd_apply, ↓reduceIte] at hu; rcases hp with hp | hp <;> rw [hp] at hu <;> cases hu
    · simp only [upd_apply, if_neg e] at hu; exact h.runnerMap u hu
  · intro u hu
    simp only [hitem, hnext]
    by_cases e : u = t
    · subst e; exact h.succMap u hpast
    · simp only [upd_apply, if_neg e] at hu; exact h.succMap u hu
  · intro u hu hr hc
    simp only [hitem, hinR] at hr hc ⊢
    by_cases e : u = t
    · subst e; simp only [upd_apply, ↓reduceIte] at hu; rcases hp with hp | hp <;> rw [hp] at hu <;> cases hu
    · simp only [upd_apply, if_neg e] at hu; exact h.waitOk u hu hr hc
  · exact h.mapFresh
  · intro u hu
    simp only [hitem]
    by_cases e : u = t
    · subst e; exact h.bounded u (by simp [ht])
    · simp only [upd_apply, if_neg e] at hu; exact h.bounded u hu
  · intro k hk u hu
    simp only [hitem]
    by_cases e : u = t
    · subst e; exact h.countZero k hk u (by simp [ht])
    · simp only [upd_apply, if_neg e] at hu; exact h.countZero k hk u hu
  · exact h.fresh
  · intro u hu
    simp only [hitem]
    by_cases e : u = t
    · subst e; simp only [upd_apply, ↓reduceIte] at hu
      rcases hp with hp | hp <;> rw [hp] at hu <;> simp at hu
    · simp only [upd_apply, if_neg e] at hu; exact h.runnerItem u hu

theorem inv_clearNext {s : St} (h : Inv s) {t : Nat} (ht : (s.threads t).pc = .returned) :
    Inv { s with items := upd s.items (s.threads t).next { s.items (s.threads t).next with running := false },
                 map := if (s.items (s.threads t).next).count = 0 then none else s.map,
                 threads := upd s.threads t { s.threads t with pc := .done } } := by
  have htR : inR (s.threads t).pc = true := by simp [ht, inR]
  have hpast : past (s.threads t).pc := Or.inr (Or.inr ht)
  have hsm := h.succMap t hpast
  have hnoR : ∀ u, inR (upd s.threads t { s.threads t with pc := .done } u).pc = false := by
    intro u; by_cases e : u = t
    · subst e; simp [upd_apply, inR]
    · simp only [upd_apply, if_neg e]; exact only_runner h htR e
  have hitem : ∀ u, (upd s.threads t { s.threads t with pc := .done } u).item = (s.threads u).item := by
    intro u; by_cases e : u = t
    · subst e; simp [upd_apply]
    · simp [upd_apply, e]
  have hcount : ∀ k, (upd s.items (s.threads t).next { s.items (s.threads t).next with running := false } k).count = (s.items k).count := by
    intro k; by_cases e : k = (s.threads t).next
    · subst e; simp [upd_apply]
    · simp [upd_apply, e]
  constructor
  · intro t1 t2 h1 h2
    rw [hnoR t1] at h1; cases h1
  · intro u hu
    have := hnoR u; simp only at hu; rw [hu] at this; cases this
  · intro u hu
    have := hnoR u; simp only at hu; rw [inR_of_past hu] at this; cases this
  · intro u hu hr hc
    refine ⟨hnoR, ?_⟩
    by_cases e : u = t
    · subst e; simp [upd_apply] at hu
    simp only [upd_apply, if_neg e] at hu hr hc ⊢
    by_cases ek : (s.threads u).item = (s.threads t).next
    · have hcnt : (s.items (s.threads t).next).count ≠ 0 := fun h0 => h.countZero _ h0 u (by simp [hu]) ek
      simp only [if_neg hcnt, ek]; exact hsm.1
    · simp only [if_neg ek] at hr hc
      have := (h.waitOk u hu hr hc).1 t
      rw [htR] at this; cases this
  · intro k hk
    simp only at hk
    split at hk
    · cases hk
    · have : k = (s.threads t).next := by
        have := hsm.1; rw [hk] at this; exact Option.some.inj this
      subst this
      simp only [upd_apply, ↓reduceIte]
      exact ⟨hsm.2.2.1, hsm.2.2.2.2⟩
  · intro u hu
    simp only [hitem]
    by_cases e : u = t
    · subst e; exact h.bounded u (by simp [ht])
    · simp only [upd_apply, if_neg e] at hu; exact h.bounded u hu
  · intro k hk u hu
    simp only [hitem, hcount] at hk ⊢
    by_cases e : u = t
    · subst e; exact h.countZero k hk u (by simp [ht])
    · simp only [upd_apply, if_neg e] at hu; exact h.countZero k hk u hu
  · intro k hk
    simp only at hk
    have : k ≠ (s.threads t).next := by omega
    simp only [upd_apply, if_neg this]
    exact h.fresh k hk
  · intro u hu
    have := hnoR u; simp only at hu
    rcases hu with hu | hu <;> rw [hu] at this <;> cases this

/-- the ghost `owner` is not mentioned by `Inv` -/
theorem inv_owner {s : St} (h : Inv s) (o : Option Nat) : Inv { s with owner := o } :=
  ⟨h.single, h.runnerMap, h.succMap, h.waitOk, h.mapFresh, h.bounded, h.countZero, h.fresh, h.runnerItem⟩

theorem inv_micro {s s' : St} (h : Inv s) (hm : Micro s s') : Inv s' := by
  cases hm with
  | alloc hm => exact inv_alloc h hm
  | attach fn st hm hidle => exact inv_attach h fn st hm hidle
  | deliver ht _ _ => exact inv_deliver h ht
  | run ht hr hc => exact inv_run h ht hr hc
  | swap ht => exact inv_swap h ht
  | start ht => exact inv_startWork h ht
  | finish r pc' ht hc hp =>
    exact inv_thread (inv_complete h ht (some r)) (t := _) ht _ rfl rfl hp
  | ret ht hc => exact inv_thread h ht _ rfl rfl (Or.inr rfl)
  | clear ht => exact inv_owner (inv_clearNext h ht) none

theorem inv_reach_step {s s' : St} {a : Act} (h : Inv s) (hs : sys.step s a = some s') : Inv s' := by
  rcases step_micro hs with e | h1 | ⟨m, h1, h2⟩
  · rw [e]; exact h
  · exact inv_micro h h1
  · exact inv_micro (inv_micro h h1) h2

theorem inv_reach : ∀ s, LTS.Reach sys s → Inv s :=
  micro_invariant Inv inv_init (fun _ _ h hm => inv_micro h hm)

/-- invariants proved on top of `Inv`: `J` holds initially and every micro step from a state satisfying `Inv` and `J` keeps it -/
theorem micro_invariant2 (J : St → Prop) (h0 : J sys.init) (hm : ∀ s s', Inv s → J s → Micro s s' → J s') :
    ∀ s, LTS.Reach sys s → J s := by
  have := micro_invariant (fun s => Inv s ∧ J s) ⟨inv_init, h0⟩
    (fun s s' h m => ⟨inv_micro h.1 m, hm s s' h.1 h.2 m⟩)
  exact fun s hr => (this s hr).2

/-- `step_micro` with the first `call` of a key kept as one unit: every step is a stutter, a micro step other
    than `alloc` (it keeps an empty map empty), or `alloc` followed at once by `attach` -/
theorem step_micro' {s s' : St} {a : Act} (h : Inv s) (hs : sys.step s a = some s') :
    s' = s ∨ (Micro s s' ∧ (s.map = none → s'.map = none)) ∨
    ∃ t fn st, s.map = none ∧ (s.threads t).pc = .idle ∧ s' = attach (alloc s) s.nItems t fn st := by
  cases a with
  | call t fn start =>
    simp only [sys, step] at hs
    split at hs
    · cases hs
    rename_i hidle
    have hidle : (s.threads t).pc = .idle := by simpa using hidle
    split at hs
    · rename_i j hm; cases hs; exact Or.inr (Or.inl ⟨.attach fn start hm hidle, fun e => by rw [hm] at e; cases e⟩)
    · rename_i hm; cases hs
      exact Or.inr (Or.inr ⟨t, fn, start, hm, hidle, rfl⟩)
  | wake t =>
    simp only [sys, step] at hs
    split at hs
    · rename_i ht; cases hs
      unfold enter; simp only
      split
      · exact Or.inl rfl
      · rename_i hr
        split
        · rename_i hc; exact Or.inr (Or.inl ⟨.deliver ht (by simpa using hr) hc, fun e => e⟩)
        · rename_i hc; exact Or.inr (Or.inl ⟨.run ht (by simpa using hr) (by simpa using hc), fun e => e⟩)
    · cases hs
  | swap t =>
    simp only [sys, step] at hs
    split at hs
    · rename_i ht; cases hs
      exact Or.inr (Or.inl ⟨.swap ht, fun e => by have := h.runnerMap t ht; rw [e] at this; cases this⟩)
    · cases hs
  | startWork t =>
    simp only [sys, step] at hs
    split at hs
    · rename_i ht; cases hs; exact Or.inr (Or.inl ⟨.start ht, fun e => e⟩)
    · cases hs
  | resolve t r =>
    simp only [sys, step] at hs
    split at hs
    · rename_i ht
      split at hs
      · cases hs; exact Or.inl rfl
      · rename_i hc; cases hs; exact Or.inr (Or.inl ⟨.finish r .working ht (by simpa using hc) (Or.inl rfl), fun e => e⟩)
    · cases hs
  | workReturn t =>
    simp only [sys, step] at hs
    split at hs
    · rename_i ht
      split at hs
      · rename_i hc; cases hs; exact Or.inr (Or.inl ⟨.ret ht hc, fun e => e⟩)
      · rename_i hc; cases hs; exact Or.inr (Or.inl ⟨.finish 0 .returned ht (by simpa using hc) (Or.inr rfl), fun e => e⟩)
    · cases hs
  | clearNext t =>
    simp only [sys, step] at hs
    split at hs
    · rename_i ht; cases hs
      refine Or.inr (Or.inl ⟨.clear ht, fun e => ?_⟩)
      simp only [clearSt, e]; split <;> rfl
    · cases hs

/-- the invariant rule for properties that need the first `call` of a key as one unit -/
theorem micro_invariant3 (J : St → Prop) (h0 : J sys.init)
    (hm : ∀ s s', Inv s → J s → Micro s s' → (s.map = none → s'.map = none) → J s')
    (ha : ∀ s t fn st, Inv s → J s → s.map = none → (s.threads t).pc = .idle → J (attach (alloc s) s.nItems t fn st)) :
    ∀ s, LTS.Reach sys s → J s := by
  have := LTS.invariant sys (fun s => Inv s ∧ J s) ⟨inv_init, h0⟩ (fun s a s' hI hs => by
    refine ⟨inv_reach_step hI.1 hs, ?_⟩
    rcases step_micro' hI.1 hs with e | ⟨h1, h2⟩ | ⟨t, fn, st, h1, h2, e⟩
    · rw [e]; exact hI.2
    · exact hm _ _ hI.1 hI.2 h1 h2
    · rw [e]; exact ha s t fn st hI.1 hI.2 h1 h2)
  exact fun s hr => (this s hr).2

end BB.Exclusive
