/- Ghost-clock invariants of the Exclusive model: a call is only ever answered by an execution that
   began after the call attached (helper for Props/C10). -/
import BB.Proofs.ExclusiveFrame

namespace BB.Exclusive

structure InvA (s : St) : Prop where
  startedClock  : ∀ j, (s.items j).started = true → (s.items j).startClock < s.clock
  attachBefore  : ∀ t, (s.threads t).pc ≠ .idle → (s.threads t).attachClock < s.clock
  mapNotStarted : ∀ j, s.map = some j → (s.items j).started = false
  answeredAfter : ∀ t, (s.threads t).pc ≠ .idle → (s.items (s.threads t).item).started = true →
                    (s.threads t).attachClock < (s.items (s.threads t).item).startClock

theorem invA_init : InvA sys.init := by
  constructor <;> simp [sys]

/-- steps that touch neither the clock nor the `started` ghosts -/
theorem invA_frame {s s' : St} (hA : InvA s) (hclock : s'.clock = s.clock)
    (hst : ∀ j, (s'.items j).started = true → (s.items j).started = true ∧ (s'.items j).startClock = (s.items j).startClock)
    (hmap : ∀ j, s'.map = some j → s.map = some j ∨ (s'.items j).started = false)
    (hth : ∀ u, (s'.threads u).pc ≠ .idle → (s.threads u).pc ≠ .idle ∧
       (s'.threads u).attachClock = (s.threads u).attachClock ∧ (s'.threads u).item = (s.threads u).item) : InvA s' := by
  constructor
  · intro j hj
    have := hst j hj
    rw [this.2, hclock]; exact hA.startedClock j this.1
  · intro t ht
    have := hth t ht
    rw [this.2.1, hclock]; exact hA.attachBefore t this.1
  · intro j hj
    rcases hmap j hj with h1 | h1
    · cases hs : (s'.items j).started with
      | false => rfl
      | true => have := (hst j hs).1; rw [hA.mapNotStarted j h1] at this; cases this
    · exact h1
  · intro t ht hs
    have h1 := hth t ht
    rw [h1.2.2] at hs ⊢
    have h2 := hst _ hs
    rw [h1.2.1, h2.2]
    exact hA.answeredAfter t h1.1 h2.1

theorem invA_micro {s s' : St} (h : Inv s) (hA : InvA s) (hm : Micro s s') : InvA s' := by
  cases hm with
  | alloc hm =>
    refine invA_frame hA rfl ?_ ?_ (fun u hu => ⟨hu, rfl, rfl⟩)
    · intro j hj
      by_cases e : j = s.nItems
      · subst e; simp [upd_apply] at hj
      · simp only [alloc_items, upd_apply, if_neg e] at hj ⊢; exact ⟨hj, trivial⟩
    · intro j hj
      simp only [alloc_map] at hj; cases hj
      right; simp [upd_apply]
  | @attach j t fn st hm hidle =>
    have hstarted : ∀ k, ((attach s j t fn st).items k).started = (s.items k).started := by
      intro k; by_cases e : k = j
      · subst e; rw [attach_items_self]
      · rw [attach_items_other _ _ _ _ _ e]
    have hsc : ∀ k, ((attach s j t fn st).items k).startClock = (s.items k).startClock := by
      intro k; by_cases e : k = j
      · subst e; rw [attach_items_self]
      · rw [attach_items_other _ _ _ _ _ e]
    have hclock : (attach s j t fn st).clock = s.clock + 1 := rfl
    constructor
    · intro k hk
      rw [hstarted] at hk; rw [hsc, hclock]
      have := hA.startedClock k hk; omega
    · intro u hu
      rw [hclock]
      by_cases e : u = t
      · subst e; rw [attach_threads_self]; simp
      · rw [attach_threads_other _ _ _ _ _ e] at hu ⊢
        have := hA.attachBefore u hu; omega
    · intro k hk
      rw [hstarted]; exact hA.mapNotStarted k hk
    · intro u hu hs
      rw [hstarted] at hs; rw [hsc]
      by_cases e : u = t
      · subst e; rw [attach_threads_self] at hs; simp only at hs
        rw [hA.mapNotStarted j hm] at hs; cases hs
      · rw [attach_threads_other _ _ _ _ _ e] at hu hs ⊢
        exact hA.answeredAfter u hu hs
  | @deliver t ht _ _ =>
    refine invA_frame hA rfl (fun j hj => ⟨hj, rfl⟩) (fun j hj => Or.inl hj) ?_
    intro u hu
    by_cases e : u = t
    · subst e; simp [deliverSt, upd_apply, ht]
    · simp only [deliverSt, upd_apply, if_neg e] at hu ⊢; exact ⟨hu, trivial, trivial⟩
  | @run t ht _ _ =>
    refine invA_frame hA rfl ?_ (fun j hj => Or.inl hj) ?_
    · intro j hj
      by_cases e : j = (s.threads t).item
      · subst e; simpa [runSt, upd_apply] using hj
      · simp only [runSt, upd_apply, if_neg e] at hj ⊢; exact ⟨hj, trivial⟩
    · intro u hu
      by_cases e : u = t
      · subst e; simp [runSt, upd_apply, ht]
      · simp only [runSt, upd_apply, if_neg e] at hu ⊢; exact ⟨hu, trivial, trivial⟩
  | @swap t ht =>
    refine invA_frame hA rfl ?_ ?_ ?_
    · intro j hj
      by_cases e : j = s.nItems
      · subst e; simp [swapSt, upd_apply] at hj
      · simp only [swapSt, upd_apply, if_neg e] at hj ⊢; exact ⟨hj, trivial⟩
    · intro j hj
      simp only [swapSt] at hj; cases hj
      right; simp [swapSt, upd_apply]
    · intro u hu
      by_cases e : u = t
      · subst e; simp [swapSt, upd_apply, ht]
      · simp only [swapSt, upd_apply, if_neg e] at hu ⊢; exact ⟨hu, trivial, trivial⟩
  | @start t ht =>
    have hsm := h.succMap t (Or.inl ht)
    have hclock : (startSt s t).clock = s.clock + 1 := rfl
    have hmap : (startSt s t).map = s.map := rfl
    have hitems : ∀ k, k ≠ (s.threads t).item → (startSt s t).items k = s.items k := by
      intro k e; simp [startSt, upd_apply, e]
    have hself : ((startSt s t).items (s.threads t).item).started = true ∧
        ((startSt s t).items (s.threads t).item).startClock = s.clock := by
      simp [startSt, upd_apply]
    have hth : ∀ u, ((startSt s t).threads u).pc ≠ .idle → (s.threads u).pc ≠ .idle ∧
        ((startSt s t).threads u).attachClock = (s.threads u).attachClock ∧ ((startSt s t).threads u).item = (s.threads u).item := by
      intro u hu
      by_cases e : u = t
      · subst e; simp [startSt, upd_apply, ht]
      · simp only [startSt, upd_apply, if_neg e] at hu ⊢; exact ⟨hu, trivial, trivial⟩
    constructor
    · intro k hk
      rw [hclock]
      by_cases e : k = (s.threads t).item
      · subst e; rw [hself.2]; omega
      · rw [hitems k e] at hk ⊢; have := hA.startedClock k hk; omega
    · intro u hu
      have := hth u hu
      rw [this.2.1, hclock]; have := hA.attachBefore u this.1; omega
    · intro k hk
      rw [hmap, hsm.1] at hk
      have e : k ≠ (s.threads t).item := by
        intro e; rw [e] at hk; exact hsm.2.2.2.1 (Option.some.inj hk).symm
      rw [hitems k e]
      exact hA.mapNotStarted k (by rw [hsm.1]; exact hk)
    · intro u hu hs
      have h1 := hth u hu
      rw [h1.2.2] at hs ⊢; rw [h1.2.1]
      by_cases e : (s.threads u).item = (s.threads t).item
      · rw [e, hself.2]; exact hA.attachBefore u h1.1
      · rw [hitems _ e] at hs ⊢; exact hA.answeredAfter u h1.1 hs
  | @finish t r pc' ht hc hp =>
    refine invA_frame hA rfl ?_ (fun j hj => Or.inl hj) ?_
    · intro j hj
      by_cases e : j = (s.threads t).item
      · subst e; simpa [finishSt, upd_apply] using hj
      · simp only [finishSt, upd_apply, if_neg e] at hj ⊢; exact ⟨hj, trivial⟩
    · intro u hu
      by_cases e : u = t
      · subst e; simp [finishSt, upd_apply, ht]
      · simp only [finishSt, upd_apply, if_neg e] at hu ⊢; exact ⟨hu, trivial, trivial⟩
  | @ret t ht hc =>
    refine invA_frame hA rfl (fun j hj => ⟨hj, rfl⟩) (fun j hj => Or.inl hj) ?_
    intro u hu
    by_cases e : u = t
    · subst e; simp [retSt, upd_apply, ht]
    · simp only [retSt, upd_apply, if_neg e] at hu ⊢; exact ⟨hu, trivial, trivial⟩
  | @clear t ht =>
    refine invA_frame hA rfl ?_ ?_ ?_
    · intro j hj
      by_cases e : j = (s.threads t).next
      · subst e; simpa [clearSt, upd_apply] using hj
      · simp only [clearSt, upd_apply, if_neg e] at hj ⊢; exact ⟨hj, trivial⟩
    · intro j hj
      simp only [clearSt] at hj
      split at hj
      · cases hj
      · exact Or.inl hj
    · intro u hu
      by_cases e : u = t
      · subst e; simp [clearSt, upd_apply, ht]
      · simp only [clearSt, upd_apply, if_neg e] at hu ⊢; exact ⟨hu, trivial, trivial⟩

theorem invA_reach : ∀ s, LTS.Reach sys s → InvA s :=
  micro_invariant2 InvA invA_init (fun _ _ h hA hm => invA_micro h hA hm)

end BB.Exclusive
