/- Executions never outnumber calls (helper for Props/C10): `execs` and `attaches` are sums over the items. -/
import BB.Proofs.ExclusiveClock
import BB.Proofs.ExclusiveFn

namespace BB.Exclusive

def sumTo (f : Nat → Nat) : Nat → Nat
  | 0 => 0
  | n + 1 => sumTo f n + f n

theorem sumTo_congr {f g : Nat → Nat} {n : Nat} (h : ∀ j, j < n → f j = g j) : sumTo f n = sumTo g n := by
  induction n with
  | zero => rfl
  | succ n ih =>
    simp only [sumTo]
    rw [ih (fun j hj => h j (by omega)), h n (by omega)]

theorem sumTo_le {f g : Nat → Nat} {n : Nat} (h : ∀ j, j < n → f j ≤ g j) : sumTo f n ≤ sumTo g n := by
  induction n with
  | zero => exact Nat.le_refl _
  | succ n ih =>
    simp only [sumTo]
    have := ih (fun j hj => h j (by omega)); have := h n (by omega); omega

theorem sumTo_bump {f g : Nat → Nat} {n j : Nat} (hj : j < n) (ho : ∀ k, k ≠ j → g k = f k) (hb : g j = f j + 1) :
    sumTo g n = sumTo f n + 1 := by
  induction n with
  | zero => omega
  | succ n ih =>
    simp only [sumTo]
    by_cases e : j = n
    · subst e
      rw [hb, sumTo_congr (f := g) (g := f) (fun k hk => ho k (by omega))]; omega
    · rw [ih (by omega), ho n (fun e' => e e'.symm)]; omega

def cnt (s : St) (j : Nat) : Nat := (s.items j).count
def ind (s : St) (j : Nat) : Nat := if (s.items j).started then 1 else 0

structure InvE (s : St) : Prop where
  execsSum    : s.execs = sumTo (ind s) s.nItems
  attachesSum : s.attaches = sumTo (cnt s) s.nItems
  notStarted  : ∀ t, ((s.threads t).pc = .running ∨ (s.threads t).pc = .swapped) → (s.items (s.threads t).item).started = false

theorem invE_init : InvE sys.init := by
  constructor <;> simp [sys, sumTo]

/-- steps that change neither counts nor `started` flags nor the counters -/
theorem invE_same {s s' : St} (hE : InvE s) (hn : s'.nItems = s.nItems) (he : s'.execs = s.execs) (ha : s'.attaches = s.attaches)
    (hc : ∀ j, (s'.items j).count = (s.items j).count) (hs : ∀ j, (s'.items j).started = (s.items j).started) :
    s'.execs = sumTo (ind s') s'.nItems ∧ s'.attaches = sumTo (cnt s') s'.nItems := by
  rw [hn, he, ha, hE.execsSum, hE.attachesSum]
  exact ⟨sumTo_congr (fun j _ => by simp [ind, hs]), sumTo_congr (fun j _ => by simp [cnt, hc])⟩

theorem invE_micro {s s' : St} (h : Inv s) (hA : InvA s) (hE : InvE s) (hm : Micro s s') : InvE s' := by
  cases hm with
  | alloc hm =>
    have hlt : ∀ j, j < s.nItems → (alloc s).items j = s.items j := by
      intro j hj; have : j ≠ s.nItems := by omega
      simp [upd_apply, this]
    refine ⟨?_, ?_, ?_⟩
    · show s.execs = sumTo (ind (alloc s)) (s.nItems + 1)
      simp only [sumTo]
      rw [sumTo_congr (g := ind s) (fun j hj => by simp only [ind, hlt j hj]), ← hE.execsSum]
      simp [ind, upd_apply]
    · show s.attaches = sumTo (cnt (alloc s)) (s.nItems + 1)
      simp only [sumTo]
      rw [sumTo_congr (g := cnt s) (fun j hj => by simp only [cnt, hlt j hj]), ← hE.attachesSum]
      simp [cnt, upd_apply]
    · intro u hu
      simp only [alloc_threads] at hu ⊢
      have hb := h.bounded u (by rcases hu with p | p <;> simp [p])
      rw [hlt _ hb]; exact hE.notStarted u hu
  | @attach j t fn st hm hidle =>
    have hjf := h.mapFresh j hm
    have hstarted : ∀ k, ((attach s j t fn st).items k).started = (s.items k).started := by
      intro k; by_cases e : k = j
      · subst e; rw [attach_items_self]
      · rw [attach_items_other _ _ _ _ _ e]
    refine ⟨?_, ?_, ?_⟩
    · show s.execs = sumTo (ind (attach s j t fn st)) s.nItems
      rw [hE.execsSum]; exact sumTo_congr (fun k _ => by simp [ind, hstarted])
    · show s.attaches + 1 = sumTo (cnt (attach s j t fn st)) s.nItems
      rw [hE.attachesSum]
      exact (sumTo_bump hjf.2 (fun k e => by simp only [cnt]; rw [attach_items_other _ _ _ _ _ e])
        (by simp only [cnt]; rw [attach_items_self])).symm
    · intro u hu
      rw [hstarted]
      by_cases e : u = t
      · subst e; rcases attach_self_pc s j u fn st with e | e <;> rw [e] at hu <;> simp at hu
      · rw [attach_threads_other _ _ _ _ _ e] at hu ⊢; exact hE.notStarted u hu
  | @deliver t ht hr hc =>
    obtain ⟨h1, h2⟩ := invE_same (s' := deliverSt s t) hE rfl rfl rfl (fun _ => rfl) (fun _ => rfl)
    refine ⟨h1, h2, ?_⟩
    intro u hu
    by_cases e : u = t
    · subst e; simp [deliverSt, upd_apply] at hu
    · simp only [deliverSt, upd_apply, if_neg e] at hu ⊢; exact hE.notStarted u hu
  | @run t ht hr hc =>
    have hcount : ∀ k, ((runSt s t).items k).count = (s.items k).count := by
      intro k; by_cases e : k = (s.threads t).item
      · subst e; simp [runSt, upd_apply]
      · simp [runSt, upd_apply, e]
    have hstarted : ∀ k, ((runSt s t).items k).started = (s.items k).started := by
      intro k; by_cases e : k = (s.threads t).item
      · subst e; simp [runSt, upd_apply]
      · simp [runSt, upd_apply, e]
    obtain ⟨h1, h2⟩ := invE_same (s' := runSt s t) hE rfl rfl rfl hcount hstarted
    refine ⟨h1, h2, ?_⟩
    intro u hu
    rw [hstarted]
    by_cases e : u = t
    · subst e
      simp only [runSt, upd_apply, ↓reduceIte]
      exact hA.mapNotStarted _ (h.waitOk u ht hr hc).2
    · simp only [runSt, upd_apply, if_neg e] at hu ⊢; exact hE.notStarted u hu
  | @swap t ht =>
    have hlt : ∀ j, j < s.nItems → (swapSt s t).items j = s.items j := by
      intro j hj; have : j ≠ s.nItems := by omega
      simp [swapSt, upd_apply, this]
    refine ⟨?_, ?_, ?_⟩
    · show s.execs = sumTo (ind (swapSt s t)) (s.nItems + 1)
      simp only [sumTo]
      rw [sumTo_congr (g := ind s) (fun j hj => by simp only [ind, hlt j hj]), ← hE.execsSum]
      simp [ind, swapSt, upd_apply]
    · show s.attaches = sumTo (cnt (swapSt s t)) (s.nItems + 1)
      simp only [sumTo]
      rw [sumTo_congr (g := cnt s) (fun j hj => by simp only [cnt, hlt j hj]), ← hE.attachesSum]
      simp [cnt, swapSt, upd_apply]
    · intro u hu
      by_cases e : u = t
      · subst e
        have hb := h.bounded u (by simp [ht])
        simp only [swapSt, upd_apply, ↓reduceIte]
        have : (s.threads u).item ≠ s.nItems := by omega
        simp only [if_neg this]
        exact hE.notStarted u (Or.inl ht)
      · simp only [swapSt, upd_apply, if_neg e] at hu ⊢
        have hb := h.bounded u (by rcases hu with p | p <;> simp [p])
        have : (s.threads u).item ≠ s.nItems := by omega
        simp only [if_neg this]
        exact hE.notStarted u hu
  | @start t ht =>
    have htR : inR (s.threads t).pc = true := by simp [ht, inR]
    have hb := h.bounded t (by simp [ht])
    have hns := hE.notStarted t (Or.inr ht)
    have hcount : ∀ k, ((startSt s t).items k).count = (s.items k).count := by
      intro k; by_cases e : k = (s.threads t).item
      · subst e; simp [startSt, upd_apply]
      · simp [startSt, upd_apply, e]
    refine ⟨?_, ?_, ?_⟩
    · show s.execs + 1 = sumTo (ind (startSt s t)) s.nItems
      rw [hE.execsSum]
      exact (sumTo_bump hb (fun k e => by simp [ind, startSt, upd_apply, e])
        (by simp [ind, startSt, upd_apply, hns])).symm
    · show s.attaches = sumTo (cnt (startSt s t)) s.nItems
      rw [hE.attachesSum]; exact sumTo_congr (fun k _ => by simp [cnt, hcount])
    · intro u hu
      by_cases e : u = t
      · subst e; simp [startSt, upd_apply] at hu
      · simp only [startSt, upd_apply, if_neg e] at hu
        have := only_runner h htR e
        rcases hu with p | p <;> rw [p] at this <;> cases this
  | @finish t r pc' ht hc hp =>
    have htR : inR (s.threads t).pc = true := by simp [ht, inR]
    have hcount : ∀ k, ((finishSt s t r pc').items k).count = (s.items k).count := by
      intro k; by_cases e : k = (s.threads t).item
      · subst e; simp [finishSt, upd_apply]
      · simp [finishSt, upd_apply, e]
    have hstarted : ∀ k, ((finishSt s t r pc').items k).started = (s.items k).started := by
      intro k; by_cases e : k = (s.threads t).item
      · subst e; simp [finishSt, upd_apply]
      · simp [finishSt, upd_apply, e]
    obtain ⟨h1, h2⟩ := invE_same (s' := finishSt s t r pc') hE rfl rfl rfl hcount hstarted
    refine ⟨h1, h2, ?_⟩
    intro u hu
    by_cases e : u = t
    · subst e; simp only [finishSt, upd_apply, ↓reduceIte] at hu
      rcases hp with p | p <;> rw [p] at hu <;> simp at hu
    · simp only [finishSt, upd_apply, if_neg e] at hu
      have := only_runner h htR e
      rcases hu with p | p <;> rw [p] at this <;> cases this
  | @ret t ht hc =>
    have htR : inR (s.threads t).pc = true := by simp [ht, inR]
    obtain ⟨h1, h2⟩ := invE_same (s' := retSt s t) hE rfl rfl rfl (fun _ => rfl) (fun _ => rfl)
    refine ⟨h1, h2, ?_⟩
    intro u hu
    by_cases e : u = t
    · subst e; simp [retSt, upd_apply] at hu
    · simp only [retSt, upd_apply, if_neg e] at hu
      have := only_runner h htR e
      rcases hu with p | p <;> rw [p] at this <;> cases this
  | @clear t ht =>
    have htR : inR (s.threads t).pc = true := by simp [ht, inR]
    have hcount : ∀ k, ((clearSt s t).items k).count = (s.items k).count := by
      intro k; by_cases e : k = (s.threads t).next
      · subst e; simp [clearSt, upd_apply]
      · simp [clearSt, upd_apply, e]
    have hstarted : ∀ k, ((clearSt s t).items k).started = (s.items k).started := by
      intro k; by_cases e : k = (s.threads t).next
      · subst e; simp [clearSt, upd_apply]
      · simp [clearSt, upd_apply, e]
    obtain ⟨h1, h2⟩ := invE_same (s' := clearSt s t) hE rfl rfl rfl hcount hstarted
    refine ⟨h1, h2, ?_⟩
    intro u hu
    by_cases e : u = t
    · subst e; simp [clearSt, upd_apply] at hu
    · simp only [clearSt, upd_apply, if_neg e] at hu
      have := only_runner h htR e
      rcases hu with p | p <;> rw [p] at this <;> cases this

theorem invAE_reach : ∀ s, LTS.Reach sys s → InvA s ∧ InvE s :=
  micro_invariant2 (fun s => InvA s ∧ InvE s) ⟨invA_init, invE_init⟩
    (fun _ _ h hAE hm => ⟨invA_micro h hAE.1 hm, invE_micro h hAE.1 hAE.2 hm⟩)

/-- executions never outnumber calls -/
theorem execs_le_attaches {s : St} (hr : LTS.Reach sys s) : s.execs ≤ s.attaches := by
  have h := inv_reach s hr
  have hD := invD_reach s hr
  have hE := (invAE_reach s hr).2
  rw [hE.execsSum, hE.attachesSum]
  apply sumTo_le
  intro j _
  simp only [ind, cnt]
  split
  · rename_i hs
    obtain ⟨t, h1, h2, _⟩ := hD.ranSupplied j hs
    have : (s.items j).count ≠ 0 := fun h0 => h.countZero j h0 t h1 h2
    omega
  · omega

end BB.Exclusive
