/- Invariants of the Buffer L1 model (helper lemmas for Props/C01–C03). -/
import BB.Model.Buffer
import BB.Proofs.Cleaner

namespace BB.Buffer

structure ConsOk (s : St) (k : Cons) : Prop where
  start_le : k.start ≤ k.committed
  pos_le   : k.committed + k.delta ≤ s.log.length

/-- the main invariant: the retained buffer is exactly the not-yet-evicted suffix of the put order -/
structure Inv (s : St) : Prop where
  buf_eq   : s.buf = s.log.drop s.base
  base_le  : s.base ≤ s.log.length
  cons_ok  : ∀ k ∈ s.cons, ConsOk s k
  reads_ok : ∀ r ∈ s.reads, s.log[r.2.1]? = some r.2.2

theorem clampShift_le (k : Int) (len : Nat) : Cleaner.clampShift k len ≤ len := by
  unfold Cleaner.clampShift
  split
  · exact Nat.le_refl _
  · split
    · exact Nat.zero_le _
    · omega

theorem inv_init : Inv init :=
  ⟨rfl, Nat.le_refl _, by simp [init], by simp [init]⟩

theorem buf_length {s : St} (h : Inv s) : s.buf.length = s.log.length - s.base := by
  rw [h.buf_eq]; simp

/-- a value obtained by the non-blocking part of Get is the value at the consumer's position of
    the put order -/
theorem getTry_val {s : St} (h : Inv s) {c : Nat} {v : Nat} (hv : getTry s c = .val v) :
    ∃ k, s.cons[c]? = some k ∧ k.registered = true ∧ k.cancelled = false ∧ s.closed = false ∧
      s.base ≤ k.committed + k.delta ∧ s.log[k.committed + k.delta]? = some v := by
  unfold getTry at hv
  cases hk : s.cons[c]? with
  | none => simp [hk] at hv
  | some k =>
    simp only [hk] at hv
    by_cases h1 : k.cancelled = true
    · simp [h1] at hv
    · by_cases h2 : s.closed = true
      · simp [h1, h2] at hv
      · by_cases h3 : k.registered = true
        · by_cases h4 : k.committed + k.delta < s.base
          · simp [h1, h2, h3, h4] at hv
          · simp only [h1, h2, h3, h4] at hv
            cases hb : s.buf[k.committed + k.delta - s.base]? with
            | none => simp [hb] at hv
            | some w =>
              simp [hb] at hv
              subst hv
              refine ⟨k, rfl, h3, by simpa using h1, by simpa using h2, by omega, ?_⟩
              rw [h.buf_eq, List.getElem?_drop] at hb
              have : s.base + (k.committed + k.delta - s.base) = k.committed + k.delta := by omega
              rwa [this] at hb
        · simp [h1, h2, h3] at hv

theorem consOk_mono {s s' : St} {k : Cons} (hl : s.log.length ≤ s'.log.length) (h : ConsOk s k) :
    ConsOk s' k := ⟨h.start_le, Nat.le_trans h.pos_le hl⟩

theorem inv_put {s : St} (h : Inv s) (vs : List Nat) : Inv (put s vs).1 := by
  unfold put
  split
  · exact h
  · refine ⟨?_, ?_, ?_, ?_⟩
    · simp only
      rw [List.drop_append_of_le_length h.base_le, h.buf_eq]
    · simp; have := h.base_le; omega
    · intro k hk; exact consOk_mono (by simp) (h.cons_ok k hk)
    · intro r hr
      have := h.reads_ok r hr
      simp only
      rw [List.getElem?_append_left]
      · exact this
      · exact (List.getElem?_eq_some_iff.mp this).1

theorem inv_newConsumer {s : St} (h : Inv s) : Inv (newConsumer s).1 := by
  unfold newConsumer
  split
  · exact h
  · refine ⟨h.buf_eq, h.base_le, ?_, h.reads_ok⟩
    intro k hk
    simp only [List.mem_append, List.mem_singleton] at hk
    rcases hk with hk | rfl
    · exact ⟨(h.cons_ok k hk).start_le, (h.cons_ok k hk).pos_le⟩
    · exact ⟨Nat.le_refl _, by simpa using h.base_le⟩

theorem inv_setCons {s : St} (h : Inv s) (c : Nat) (k : Cons) (hk : ConsOk s k) :
    Inv (setCons s c k) := by
  refine ⟨h.buf_eq, h.base_le, ?_, h.reads_ok⟩
  intro k' hk'
  rcases List.mem_or_eq_of_mem_set hk' with h1 | rfl
  · exact ⟨(h.cons_ok k' h1).start_le, (h.cons_ok k' h1).pos_le⟩
  · exact ⟨hk.start_le, hk.pos_le⟩

theorem inv_get {s : St} (h : Inv s) (c : Nat) : Inv (get s c).1 := by
  unfold get
  split
  · rename_i v k hv hk
    obtain ⟨k', hk', _, _, _, _, hlog⟩ := getTry_val h hv
    rw [hk] at hk'; cases hk'
    have hmem : k ∈ s.cons := List.mem_of_getElem? hk
    have hlt : k.committed + k.delta < s.log.length := (List.getElem?_eq_some_iff.mp hlog).1
    refine ⟨h.buf_eq, h.base_le, ?_, ?_⟩
    · intro k' hk'
      rcases List.mem_or_eq_of_mem_set hk' with h1 | rfl
      · exact ⟨(h.cons_ok k' h1).start_le, (h.cons_ok k' h1).pos_le⟩
      · exact ⟨(h.cons_ok k hmem).start_le, by simp; omega⟩
    · intro r hr
      simp only [List.mem_append, List.mem_singleton] at hr
      rcases hr with hr | rfl
      · exact h.reads_ok r hr
      · exact hlog
  · exact h

theorem inv_commit {s : St} (h : Inv s) (c : Nat) : Inv (commit s c).1 := by
  unfold commit
  split
  · exact h
  · rename_i k hk
    have hmem : k ∈ s.cons := List.mem_of_getElem? hk
    split
    · exact h
    · split
      · exact h
      · exact inv_setCons h c _ ⟨Nat.le_trans (h.cons_ok k hmem).start_le (Nat.le_add_right _ _),
          by simpa using (h.cons_ok k hmem).pos_le⟩

theorem inv_rollback {s : St} (h : Inv s) (c : Nat) : Inv (rollback s c).1 := by
  unfold rollback
  split
  · exact h
  · rename_i k hk
    have hmem : k ∈ s.cons := List.mem_of_getElem? hk
    split
    · exact h
    · exact inv_setCons h c _ ⟨(h.cons_ok k hmem).start_le,
        by have := (h.cons_ok k hmem).pos_le; simp; omega⟩

theorem inv_cancelCons {s : St} (h : Inv s) (c : Nat) : Inv (cancelCons s c) := by
  unfold cancelCons
  split
  · exact h
  · rename_i k hk
    have hmem : k ∈ s.cons := List.mem_of_getElem? hk
    exact inv_setCons h c _ ⟨(h.cons_ok k hmem).start_le, (h.cons_ok k hmem).pos_le⟩

theorem inv_finishClose {s : St} (h : Inv s) (c : Nat) : Inv (finishClose s c) := by
  unfold finishClose
  split
  · exact h
  · rename_i k hk
    have hmem : k ∈ s.cons := List.mem_of_getElem? hk
    split
    · exact inv_setCons h c _ ⟨(h.cons_ok k hmem).start_le, (h.cons_ok k hmem).pos_le⟩
    · exact h

theorem inv_closeBuf {s : St} (h : Inv s) : Inv (closeBuf s) := by
  refine ⟨h.buf_eq, h.base_le, ?_, h.reads_ok⟩
  intro k hk
  simp only [closeBuf, List.mem_map] at hk
  obtain ⟨k0, hk0, rfl⟩ := hk
  exact ⟨(h.cons_ok k0 hk0).start_le, (h.cons_ok k0 hk0).pos_le⟩

theorem inv_clean {s : St} (h : Inv s) (k : Int) : Inv (clean s k) := by
  have hle := clampShift_le k s.buf.length
  rw [buf_length h] at hle
  refine ⟨?_, ?_, ?_, h.reads_ok⟩
  · simp only [clean]
    rw [h.buf_eq, List.drop_drop]
  · simp only [clean]
    rw [buf_length h]
    have := h.base_le
    omega
  · intro k' hk'; exact ⟨(h.cons_ok k' hk').start_le, (h.cons_ok k' hk').pos_le⟩

theorem inv_step {s : St} (h : Inv s) (op : Op) : Inv (step s op) := by
  cases op with
  | put vs => exact inv_put h vs
  | newConsumer => exact inv_newConsumer h
  | get c => exact inv_get h c
  | commit c => exact inv_commit h c
  | rollback c => exact inv_rollback h c
  | cancelCons c => exact inv_cancelCons h c
  | finishClose c => exact inv_finishClose h c
  | closeBuf => exact inv_closeBuf h
  | clean k => exact inv_clean h k
  | cleanDefault => exact inv_clean h _
  | cleanFixed m t => exact inv_clean h _

theorem inv_run {s : St} (h : Inv s) (ops : List Op) : Inv (run s ops) := by
  induction ops generalizing s with
  | nil => exact h
  | cons op ops ih => exact ih (inv_step h op)

end BB.Buffer
