/- Field-by-field description of the micro steps of the Exclusive model (helper lemmas). -/
import BB.Proofs.Exclusive

namespace BB.Exclusive

/-- what no micro step ever changes about a call once it is made -/
theorem micro_thread_frame {s s' : St} (hm : Micro s s') (u : Nat) (hu : (s.threads u).pc ≠ .idle) :
    (s'.threads u).item = (s.threads u).item ∧ (s'.threads u).start = (s.threads u).start ∧
    (s'.threads u).attachClock = (s.threads u).attachClock ∧ (s'.threads u).fn = (s.threads u).fn ∧
    (s'.threads u).pc ≠ .idle := by
  cases hm with
  | alloc hm => exact ⟨rfl, rfl, rfl, rfl, hu⟩
  | @attach j t fn st hm hidle =>
    have e : u ≠ t := fun e => hu (e ▸ hidle)
    rw [attach_threads_other _ _ _ _ _ e]; exact ⟨rfl, rfl, rfl, rfl, hu⟩
  | @deliver t ht _ _ =>
    by_cases e : u = t
    · subst e; simp [deliverSt, upd_apply]
    · simp [deliverSt, upd_apply, e, hu]
  | @run t ht _ _ =>
    by_cases e : u = t
    · subst e; simp [runSt, upd_apply]
    · simp [runSt, upd_apply, e, hu]
  | @swap t ht =>
    by_cases e : u = t
    · subst e; simp [swapSt, upd_apply]
    · simp [swapSt, upd_apply, e, hu]
  | @start t ht =>
    by_cases e : u = t
    · subst e; simp [startSt, upd_apply]
    · simp [startSt, upd_apply, e, hu]
  | @finish t r pc' ht hc hp =>
    by_cases e : u = t
    · subst e; rcases hp with hp | hp <;> simp [finishSt, upd_apply, hp]
    · simp [finishSt, upd_apply, e, hu]
  | @ret t ht hc =>
    by_cases e : u = t
    · subst e; simp [retSt, upd_apply]
    · simp [retSt, upd_apply, e, hu]
  | @clear t ht =>
    by_cases e : u = t
    · subst e; simp [clearSt, upd_apply]
    · simp [clearSt, upd_apply, e, hu]

/-- the only micro step that makes a call is `attach` -/
theorem micro_new_thread {s s' : St} (hm : Micro s s') (u : Nat) (hu : (s.threads u).pc = .idle)
    (hu' : (s'.threads u).pc ≠ .idle) :
    ∃ j fn st, s.map = some j ∧ s' = attach s j u fn st := by
  cases hm with
  | alloc hm => exact absurd hu hu'
  | @attach j t fn st hm hidle =>
    by_cases e : u = t
    · subst e; exact ⟨j, fn, st, hm, rfl⟩
    · rw [attach_threads_other _ _ _ _ _ e] at hu'; exact absurd hu hu'
  | @deliver t ht _ _ =>
    have e : u ≠ t := fun e => by subst e; rw [hu] at ht; cases ht
    simp [deliverSt, upd_apply, e, hu] at hu'
  | @run t ht _ _ =>
    have e : u ≠ t := fun e => by subst e; rw [hu] at ht; cases ht
    simp [runSt, upd_apply, e, hu] at hu'
  | @swap t ht =>
    have e : u ≠ t := fun e => by subst e; rw [hu] at ht; cases ht
    simp [swapSt, upd_apply, e, hu] at hu'
  | @start t ht =>
    have e : u ≠ t := fun e => by subst e; rw [hu] at ht; cases ht
    simp [startSt, upd_apply, e, hu] at hu'
  | @finish t r pc' ht hc hp =>
    have e : u ≠ t := fun e => by subst e; rw [hu] at ht; cases ht
    simp [finishSt, upd_apply, e, hu] at hu'
  | @ret t ht hc =>
    have e : u ≠ t := fun e => by subst e; rw [hu] at ht; cases ht
    simp [retSt, upd_apply, e, hu] at hu'
  | @clear t ht =>
    have e : u ≠ t := fun e => by subst e; rw [hu] at ht; cases ht
    simp [clearSt, upd_apply, e, hu] at hu'

end BB.Exclusive
