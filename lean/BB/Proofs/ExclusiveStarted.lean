/- A result only ever comes from an execution; a parked call has no outcome yet (helper for Props/C10). -/
import BB.Proofs.ExclusiveFrame

namespace BB.Exclusive

structure InvF (s : St) : Prop where
  workingStarted   : ∀ t, ((s.threads t).pc = .working ∨ (s.threads t).pc = .returned) → (s.items (s.threads t).item).started = true
  completeStarted  : ∀ j, (s.items j).complete = true → (s.items j).started = true
  waitingNoOutcome : ∀ t, (s.threads t).pc = .waiting → (s.threads t).outcome = none

theorem invF_init : InvF sys.init := by
  constructor <;> simp [sys]

theorem invF_micro {s s' : St} (h : Inv s) (hF : InvF s) (hm : Micro s s') : InvF s' := by
  cases hm with
  | alloc hm =>
    refine ⟨?_, ?_, hF.waitingNoOutcome⟩
    · intro u hu
      simp only [alloc_threads] at hu ⊢
      have hb := h.bounded u (by rcases hu with p | p <;> simp [p])
      have : (s.threads u).item ≠ s.nItems := by omega
      simp only [alloc_items, upd_apply, if_neg this]; exact hF.workingStarted u hu
    · intro k hk
      by_cases e : k = s.nItems
      · subst e; simp [upd_apply] at hk
      · simp only [alloc_items, upd_apply, if_neg e] at hk ⊢; exact hF.completeStarted k hk
  | @attach j t fn st hm hidle =>
    have hstarted : ∀ k, ((attach s j t fn st).items k).started = (s.items k).started := by
      intro k; by_cases e : k = j
      · subst e; rw [attach_items_self]
      · rw [attach_items_other _ _ _ _ _ e]
    refine ⟨?_, ?_, ?_⟩
    · intro u hu
      rw [hstarted]
      by_cases e : u = t
      · subst e; rcases attach_self_pc s j u fn st with e | e <;> rw [e] at hu <;> simp at hu
      · rw [attach_threads_other _ _ _ _ _ e] at hu ⊢; exact hF.workingStarted u hu
    · intro k hk; rw [attach_items_complete] at hk; rw [hstarted]; exact hF.completeStarted k hk
    · intro u hu
      by_cases e : u = t
      · subst e; rw [attach_threads_self]
      · rw [attach_threads_other _ _ _ _ _ e] at hu ⊢; exact hF.waitingNoOutcome u hu
  | @deliver t ht hr hc =>
    refine ⟨?_, hF.completeStarted, ?_⟩
    · intro u hu
      by_cases e : u = t
      · subst e; simp [deliverSt, upd_apply] at hu
      · simp only [deliverSt, upd_apply, if_neg e] at hu ⊢; exact hF.workingStarted u hu
    · intro u hu
      by_cases e : u = t
      · subst e; simp [deliverSt, upd_apply] at hu
      · simp only [deliverSt, upd_apply, if_neg e] at hu ⊢; exact hF.waitingNoOutcome u hu
  | @run t ht hr hc =>
    have hstarted : ∀ k, ((runSt s t).items k).started = (s.items k).started := by
      intro k; by_cases e : k = (s.threads t).item
      · subst e; simp [runSt, upd_apply]
      · simp [runSt, upd_apply, e]
    have hcomp : ∀ k, ((runSt s t).items k).complete = (s.items k).complete := by
      intro k; by_cases e : k = (s.threads t).item
      · subst e; simp [runSt, upd_apply]
      · simp [runSt, upd_apply, e]
    refine ⟨?_, ?_, ?_⟩
    · intro u hu
      rw [hstarted]
      by_cases e : u = t
      · subst e; simp [runSt, upd_apply] at hu
      · simp only [runSt, upd_apply, if_neg e] at hu ⊢; exact hF.workingStarted u hu
    · intro k hk; rw [hcomp] at hk; rw [hstarted]; exact hF.completeStarted k hk
    · intro u hu
      by_cases e : u = t
      · subst e; simp [runSt, upd_apply] at hu
      · simp only [runSt, upd_apply, if_neg e] at hu ⊢; exact hF.waitingNoOutcome u hu
  | @swap t ht =>
    refine ⟨?_, ?_, ?_⟩
    · intro u hu
      by_cases e : u = t
      · subst e; simp [swapSt, upd_apply] at hu
      · simp only [swapSt, upd_apply, if_neg e] at hu ⊢
        have hb := h.bounded u (by rcases hu with p | p <;> simp [p])
        have : (s.threads u).item ≠ s.nItems := by omega
        simp only [if_neg this]; exact hF.workingStarted u hu
    · intro k hk
      by_cases e : k = s.nItems
      · subst e; simp [swapSt, upd_apply] at hk
      · simp only [swapSt, upd_apply, if_neg e] at hk ⊢; exact hF.completeStarted k hk
    · intro u hu
      by_cases e : u = t
      · subst e; simp [swapSt, upd_apply] at hu
      · simp only [swapSt, upd_apply, if_neg e] at hu ⊢; exact hF.waitingNoOutcome u hu
  | @start t ht =>
    have hcomp : ∀ k, ((startSt s t).items k).complete = (s.items k).complete := by
      intro k; by_cases e : k = (s.threads t).item
      · subst e; simp [startSt, upd_apply]
      · simp [startSt, upd_apply, e]
    have hmono : ∀ k, (s.items k).started = true → ((startSt s t).items k).started = true := by
      intro k hk; by_cases e : k = (s.threads t).item
      · subst e; simp [startSt, upd_apply]
      · simp [startSt, upd_apply, e, hk]
    refine ⟨?_, ?_, ?_⟩
    · intro u hu
      by_cases e : u = t
      · subst e; simp [startSt, upd_apply]
      · simp only [startSt, upd_apply, if_neg e] at hu
        have : ((startSt s t).threads u).item = (s.threads u).item := by simp [startSt, upd_apply, e]
        rw [this]; exact hmono _ (hF.workingStarted u hu)
    · intro k hk; rw [hcomp] at hk; exact hmono k (hF.completeStarted k hk)
    · intro u hu
      by_cases e : u = t
      · subst e; simp [startSt, upd_apply] at hu
      · simp only [startSt, upd_apply, if_neg e] at hu ⊢; exact hF.waitingNoOutcome u hu
  | @finish t r pc' ht hc hp =>
    have hstarted : ∀ k, ((finishSt s t r pc').items k).started = (s.items k).started := by
      intro k; by_cases e : k = (s.threads t).item
      · subst e; simp [finishSt, upd_apply]
      · simp [finishSt, upd_apply, e]
    have hitem : ∀ u, ((finishSt s t r pc').threads u).item = (s.threads u).item := by
      intro u; by_cases e : u = t
      · subst e; simp [finishSt, upd_apply]
      · simp [finishSt, upd_apply, e]
    refine ⟨?_, ?_, ?_⟩
    · intro u hu
      rw [hstarted, hitem]
      by_cases e : u = t
      · subst e; exact hF.workingStarted u (Or.inl ht)
      · simp only [finishSt, upd_apply, if_neg e] at hu; exact hF.workingStarted u hu
    · intro k hk
      rw [hstarted]
      by_cases e : k = (s.threads t).item
      · subst e; exact hF.workingStarted t (Or.inl ht)
      · simp only [finishSt, upd_apply, if_neg e] at hk; exact hF.completeStarted k hk
    · intro u hu
      by_cases e : u = t
      · subst e; simp only [finishSt, upd_apply, ↓reduceIte] at hu
        rcases hp with p | p <;> rw [p] at hu <;> cases hu
      · simp only [finishSt, upd_apply, if_neg e] at hu ⊢; exact hF.waitingNoOutcome u hu
  | @ret t ht hc =>
    refine ⟨?_, hF.completeStarted, ?_⟩
    · intro u hu
      by_cases e : u = t
      · subst e; simp only [retSt, upd_apply, ↓reduceIte]; exact hF.workingStarted u (Or.inl ht)
      · simp only [retSt, upd_apply, if_neg e] at hu ⊢; exact hF.workingStarted u hu
    · intro u hu
      by_cases e : u = t
      · subst e; simp [retSt, upd_apply] at hu
      · simp only [retSt, upd_apply, if_neg e] at hu ⊢; exact hF.waitingNoOutcome u hu
  | @clear t ht =>
    have hstarted : ∀ k, ((clearSt s t).items k).started = (s.items k).started := by
      intro k; by_cases e : k = (s.threads t).next
      · subst e; simp [clearSt, upd_apply]
      · simp [clearSt, upd_apply, e]
    have hcomp : ∀ k, ((clearSt s t).items k).complete = (s.items k).complete := by
      intro k; by_cases e : k = (s.threads t).next
      · subst e; simp [clearSt, upd_apply]
      · simp [clearSt, upd_apply, e]
    refine ⟨?_, ?_, ?_⟩
    · intro u hu
      rw [hstarted]
      by_cases e : u = t
      · subst e; simp [clearSt, upd_apply] at hu
      · simp only [clearSt, upd_apply, if_neg e] at hu ⊢; exact hF.workingStarted u hu
    · intro k hk; rw [hcomp] at hk; rw [hstarted]; exact hF.completeStarted k hk
    · intro u hu
      by_cases e : u = t
      · subst e; simp [clearSt, upd_apply] at hu
      · simp only [clearSt, upd_apply, if_neg e] at hu ⊢; exact hF.waitingNoOutcome u hu

theorem invF_reach : ∀ s, LTS.Reach sys s → InvF s :=
  micro_invariant2 InvF invF_init (fun _ _ h hF hm => invF_micro h hF hm)

end BB.Exclusive
