/- Helper lemmas for the construction models of the context combinators (BB/Model/CtxBuild.lean). -/
import BB.Model.CtxBuild

namespace BB.Ctx

/-! ### Combine: frame lemmas over steps -/

theorem cancelResult_others (s : Combine) : s.cancelResult.others = s.others ∧ s.cancelResult.primaryC = s.primaryC := by
  unfold Combine.cancelResult; split
  · exact ⟨rfl, rfl⟩
  · split <;> exact ⟨rfl, rfl⟩

theorem combine_step_length (s : Combine) (a : CombineAct) : (s.step a).others.length = s.others.length := by
  cases a with
  | cancelPrimary => simp only [Combine.step]; split <;> simp [cancelResult_others]
  | cancelOther i =>
    simp only [Combine.step]
    split <;> simp
  | runCancel => simp only [Combine.step]; split <;> simp [cancelResult_others]
  | runStop => simp only [Combine.step]; split <;> simp

theorem combine_run_length (s : Combine) (as : List CombineAct) : (s.run as).others.length = s.others.length := by
  induction as generalizing s with
  | nil => rfl
  | cons a as ih => simp only [Combine.run, List.foldl_cons] at *; rw [ih, combine_step_length]

/-- the "cancelled" flag of an other, and of the primary, is never reset -/
theorem combine_step_flag_mono (s : Combine) (a : CombineAct) (i : Nat) (h : (s.others[i]?).map (·.1) = some true) :
    ((s.step a).others[i]?).map (·.1) = some true := by
  cases a with
  | cancelPrimary => simp only [Combine.step]; split <;> simp [cancelResult_others, h]
  | cancelOther j =>
    simp only [Combine.step]
    split
    · rename_i hj
      by_cases e : i = j
      · subst e; rw [hj] at h; simp at h
      · simp [List.getElem?_set, Ne.symm e, h]
    · rename_i r hj
      by_cases e : i = j
      · subst e; rw [hj] at h; simp at h
      · simp [List.getElem?_set, Ne.symm e, h]
    · exact h
  | runCancel => simp only [Combine.step]; split <;> simp [cancelResult_others, h]
  | runStop =>
    simp only [Combine.step]; split
    · simp only [List.getElem?_map]
      cases hx : s.others[i]? with
      | none => rw [hx] at h; simp at h
      | some p => rw [hx] at h; simpa using h
    · exact h

theorem combine_run_flag_mono (s : Combine) (as : List CombineAct) (i : Nat) (h : (s.others[i]?).map (·.1) = some true) :
    (((s.run as).others[i]?).map (·.1)) = some true := by
  induction as generalizing s with
  | nil => exact h
  | cons a as ih => simp only [Combine.run, List.foldl_cons] at *; exact ih _ (combine_step_flag_mono s a i h)

theorem combine_step_prim_mono (s : Combine) (a : CombineAct) (h : s.primaryC = true) : (s.step a).primaryC = true := by
  cases a with
  | cancelPrimary => simp only [Combine.step]; split <;> simp [cancelResult_others, h]
  | cancelOther j => simp only [Combine.step]; split <;> simp [h]
  | runCancel => simp only [Combine.step]; split <;> simp [cancelResult_others, h]
  | runStop => simp only [Combine.step]; split <;> simp [h]

theorem combine_run_prim_mono (s : Combine) (as : List CombineAct) (h : s.primaryC = true) : (s.run as).primaryC = true := by
  induction as generalizing s with
  | nil => exact h
  | cons a as ih => simp only [Combine.run, List.foldl_cons] at *; exact ih _ (combine_step_prim_mono s a h)

/-- cancelling other i marks it cancelled -/
theorem combine_cancelOther_sets (s : Combine) (i : Nat) (hi : i < s.others.length) :
    ((s.step (.cancelOther i)).others[i]?).map (·.1) = some true := by
  have hx : s.others[i]? = some s.others[i] := List.getElem?_eq_getElem hi
  simp only [Combine.step, hx]
  generalize hp : s.others[i] = p at hx ⊢
  obtain ⟨c, r⟩ := p
  cases c <;> cases r <;> simp [List.getElem?_set, hi, hx, hp]

theorem combine_cancelPrimary_sets (s : Combine) : (s.step .cancelPrimary).primaryC = true := by
  simp only [Combine.step]; split
  · assumption
  · simp [cancelResult_others]

/-- an action in a prefix has taken effect after the whole run -/
theorem combine_run_mem_cancelOther (s : Combine) (as : List CombineAct) (i : Nat) (hi : i < s.others.length)
    (hm : CombineAct.cancelOther i ∈ as) : (((s.run as).others[i]?).map (·.1)) = some true := by
  induction as generalizing s with
  | nil => simp at hm
  | cons a as ih =>
    simp only [Combine.run, List.foldl_cons]
    by_cases e : a = .cancelOther i
    · subst e
      exact combine_run_flag_mono _ as i (combine_cancelOther_sets s i hi)
    · have hm' : CombineAct.cancelOther i ∈ as := by
        rcases List.mem_cons.mp hm with h | h
        · exact absurd h.symm e
        · exact h
      exact ih (s.step a) (by rw [combine_step_length]; exact hi) hm'

theorem combine_run_mem_cancelPrimary (s : Combine) (as : List CombineAct) (hm : CombineAct.cancelPrimary ∈ as) :
    (s.run as).primaryC = true := by
  induction as generalizing s with
  | nil => simp at hm
  | cons a as ih =>
    simp only [Combine.run, List.foldl_cons]
    by_cases e : a = .cancelPrimary
    · subst e; exact combine_run_prim_mono _ as (combine_cancelPrimary_sets s)
    · have hm' : CombineAct.cancelPrimary ∈ as := by
        rcases List.mem_cons.mp hm with h | h
        · exact absurd h.symm e
        · exact h
      exact ih (s.step a) hm'

theorem combine_run_append (s : Combine) (as bs : List CombineAct) : s.run (as ++ bs) = (s.run as).run bs := by
  simp [Combine.run, List.foldl_append]

/-! ### positions -/

theorem liveIndex_lt (l : List In) (j : Nat) (x : In) (h : l[j]? = some x) (hx : x ≠ .nil) :
    liveIndex l j < (l.filter (· ≠ .nil)).length := by
  have hj : j < l.length := by
    rcases Nat.lt_or_ge j l.length with h' | h'
    · exact h'
    · rw [List.getElem?_eq_none h'] at h; cases h
  have e : l = l.take j ++ (x :: l.drop (j + 1)) := by
    have h1 := List.take_append_drop j l
    have h2 : l.drop j = x :: l.drop (j + 1) := by
      rw [List.drop_eq_getElem_cons hj]
      have : l[j] = x := by
        have := List.getElem?_eq_getElem hj; rw [this] at h; exact Option.some.inj h
      rw [this]
    rw [h2] at h1; exact h1.symm
  unfold liveIndex
  conv => rhs; rw [e]
  simp [List.filter_append, hx]

/-- the pre-check loop reports "cancelled" only if it really saw a cancelled input -/
theorem combineScan_true (trig : Nat → List Nat) (js : List Nat) (x : Ins) :
    (combineScan trig x js).2 = true → ∃ j : Nat, (combineScan trig x js).1.others[j]? = some In.dead := by
  induction js generalizing x with
  | nil => intro h; simp [combineScan] at h
  | cons j js ih =>
    intro h
    unfold combineScan at h ⊢
    split at h
    · exact ih _ h
    · exact ih _ h
    · simp only at h ⊢
      split at h
      · rename_i hd; rw [if_pos hd]; exact ⟨j, hd⟩
      · rename_i hd; rw [if_neg hd]; exact ih _ h

end BB.Ctx
