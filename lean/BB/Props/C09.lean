/-
  C09 — Exclusive: at most one work function per key at a time; keys are independent.

  Model: `BB.Exclusive.sys` (BB/Model/Exclusive.lean), one key, an unbounded population of calls and items; the
  multi-key system `msys` below is the product of per-key copies (what ties the product to the code — nothing is
  shared between keys but the map mutex, which is never held across a blocking operation — are the T1 facts
  `BB.Conform.Exclusive.map_mutex_never_held_across_blocking`, and the two-key T3 runs of the `exclusive` family).
-/
import BB.Proofs.ExclusiveProgress

namespace BB.Props.C09
open BB.LTS BB.Exclusive

/-- at most one call per key is anywhere between "set running" and "cleared the successor" -/
theorem single_runner_region (s : St) (hr : Reach sys s) (t1 t2 : Nat)
    (h1 : inR (s.threads t1).pc = true) (h2 : inR (s.threads t2).pc = true) : t1 = t2 :=
  (inv_reach s hr).single t1 t2 h1 h2

/-- two executions of work functions of one key never overlap -/
theorem exclusive_per_key (s : St) (hr : Reach sys s) (t1 t2 : Nat)
    (h1 : (s.threads t1).pc = .working) (h2 : (s.threads t2).pc = .working) : t1 = t2 :=
  single_runner_region s hr t1 t2 (by simp [h1, inR]) (by simp [h2, inR])

/-- a work function can start only when every other call of the key is outside the runner region: in particular the
    previous runner has passed `clearNext`, which comes after its work function RETURNED (not merely resolved) -/
theorem start_requires_previous_returned (s s' : St) (hr : Reach sys s) (t2 : Nat)
    (hs : sys.step s (.startWork t2) = some s') (t1 : Nat) (hne : t1 ≠ t2) :
    (s.threads t1).pc = .idle ∨ (s.threads t1).pc = .waiting ∨ (s.threads t1).pc = .done := by
  have h2 : (s.threads t2).pc = .swapped := by
    simp only [sys, step] at hs
    split at hs
    · assumption
    · cases hs
  have := only_runner (inv_reach s hr) (t := t2) (by simp [h2, inR]) hne
  cases hp : (s.threads t1).pc <;> simp [hp, inR] at this ⊢

/-- while a runner is between the swap and `clearNext` — even after it has resolved — the successor item keeps its
    running flag, so a call parked on it stays parked (its `wake` is a stutter) -/
theorem successor_blocked_until_clear (s : St) (hr : Reach sys s) (t u : Nat) (ht : past (s.threads t).pc)
    (hu : (s.threads u).pc = .waiting) (hi : (s.threads u).item = (s.threads t).next) :
    sys.step s (.wake u) = some s := by
  have := ((inv_reach s hr).succMap t ht).2.1
  simp [sys, step, hu, enter, hi, this]

/-- and nobody else can be made the runner in that window: any call that attaches meanwhile attaches to the successor -/
theorem attaches_go_to_successor (s : St) (hr : Reach sys s) (t : Nat) (ht : past (s.threads t).pc) :
    s.map = some (s.threads t).next := ((inv_reach s hr).succMap t ht).1

/-- non-vacuity: the resolve-to-return gap exists.  Call 0 runs and resolves; call 1 arrives and is parked on the
    successor; it cannot start until call 0 has returned and cleared the successor -/
example :
    (sys.run sys.init [.call 0 7 false, .wake 0, .swap 0, .startWork 0, .resolve 0 5, .call 1 8 false, .wake 1]).map
      (fun s => ((s.threads 0).pc, (s.items 0).complete, (s.threads 0).outcome, (s.threads 1).pc, (s.threads 1).item, s.map,
                 (sys.step s (.startWork 1)).isSome)) =
      some (Pc.working, true, some 5, Pc.waiting, 1, some 1, false) := by rfl
example :
    (sys.run sys.init [.call 0 7 false, .wake 0, .swap 0, .startWork 0, .resolve 0 5, .call 1 8 false, .wake 1,
        .workReturn 0, .wake 1, .clearNext 0, .wake 1, .swap 1, .startWork 1]).map
      (fun s => ((s.threads 0).pc, (s.threads 1).pc, (s.items 1).ranFn, s.execs)) =
      some (Pc.done, Pc.working, 8, 2) := by rfl

/-! ### several keys -/

/-- the multi-key system: one independent copy of `sys` per key -/
def msys : Sys (Nat → St) (Nat × Act) :=
  { init := fun _ => sys.init,
    step := fun m ka => (sys.step (m ka.1) ka.2).map (fun s' => upd m ka.1 s') }

theorem component_reach (m : Nat → St) (hr : Reach msys m) (k : Nat) : Reach sys (m k) := by
  induction hr with
  | init => exact Reach.init
  | @step m m' ka _ hs ih =>
    simp only [msys] at hs
    cases h1 : sys.step (m ka.1) ka.2 with
    | none => rw [h1] at hs; cases hs
    | some s' =>
      rw [h1] at hs; simp only [Option.map] at hs; cases hs
      by_cases e : k = ka.1
      · subst e; simp only [upd_apply, ↓reduceIte]; exact Reach.step ih h1
      · simp only [upd_apply, if_neg e]; exact ih

/-- every per-key theorem holds for every key of the multi-key system -/
theorem exclusive_every_key (m : Nat → St) (hr : Reach msys m) (k t1 t2 : Nat)
    (h1 : ((m k).threads t1).pc = .working) (h2 : ((m k).threads t2).pc = .working) : t1 = t2 :=
  exclusive_per_key (m k) (component_reach m hr k) t1 t2 h1 h2

/-- a step of one key changes nothing another key can observe, and neither enables nor disables any of its steps:
    a long-running work function of key `k` (a state in which `workReturn` for `k` has not happened) delays no
    call, wake-up, execution or completion of key `k'` -/
theorem keys_independent (m m' : Nat → St) (k k' : Nat) (a a' : Act) (hk : k ≠ k')
    (hs : msys.step m (k, a) = some m') :
    m' k' = m k' ∧ (msys.step m' (k', a')).isSome = (msys.step m (k', a')).isSome := by
  simp only [msys] at hs
  cases h1 : sys.step (m k) a with
  | none => rw [h1] at hs; cases hs
  | some s' =>
    rw [h1] at hs; simp only [Option.map] at hs; cases hs
    have e : k' ≠ k := fun e => hk e.symm
    refine ⟨by simp [upd_apply, e], ?_⟩
    simp [msys, upd_apply, e]

/-- steps of different keys commute -/
theorem keys_commute (m m1 m2 : Nat → St) (k k' : Nat) (a a' : Act) (hk : k ≠ k')
    (h1 : msys.step m (k, a) = some m1) (h2 : msys.step m (k', a') = some m2) :
    ∃ m3, msys.step m1 (k', a') = some m3 ∧ msys.step m2 (k, a) = some m3 := by
  simp only [msys] at h1 h2
  cases e1 : sys.step (m k) a with
  | none => rw [e1] at h1; cases h1
  | some s1 =>
    cases e2 : sys.step (m k') a' with
    | none => rw [e2] at h2; cases h2
    | some s2 =>
      rw [e1] at h1; rw [e2] at h2; simp only [Option.map] at h1 h2; cases h1; cases h2
      have e : k' ≠ k := fun e => hk e.symm
      refine ⟨upd (upd m k s1) k' s2, ?_, ?_⟩
      · simp [msys, upd_apply, e, e2]
      · simp only [msys, upd_apply, if_neg hk, e1, Option.map]
        congr 1; funext j
        simp only [upd_apply]
        by_cases ej : j = k
        · subst ej; simp [hk]
        · simp [ej]

end BB.Props.C09
