/-
  C12 — Close/cancel completes, fails later calls cleanly, leaves no goroutine behind.
  (a) sequential clauses on the Buffer and Channel models: after Close, Put / NewConsumer / Get / Commit fail,
      contents stay readable, consumers are closed; a second Close errors (Channel model; for the Buffer the
      sync.Once guard is a T1 fact + differential check);
  (b) goroutine exit: the Buffer's cleanup goroutine, its WaitCond watcher and the cooldown timer goroutine all
      exit after Close using scheduler steps only — no timer expiry needed (leadsTo under weak fairness);
      the WaitCond watcher of any call exits once the call returned and its caller unlocked;
      Workers / Worker / LinearAttempt / ConflatedContext goroutine exit is proved in C14 / C17 / C20 / C16.
-/
import BB.Model.Lifecycle
import BB.Model.Buffer
import BB.Model.Channel
import BB.Core.Fair
import BB.Props.C05

namespace BB.Props.C12
open BB.LTS

/-! ### (a) sequential lifecycle on the Buffer model -/
section buffer
open BB.Buffer

/-- after Buffer.Close began (context cancelled): Put and NewConsumer fail and change nothing -/
theorem put_new_fail_after_close (s : St) (h : s.closed = true) (vs : List Nat) :
    put s vs = (s, some .canceled) ∧ newConsumer s = (s, some .canceled) := by
  simp [put, newConsumer, h]

/-- … every Get fails (never blocks, never returns a value) … -/
theorem get_fails_after_close (s : St) (h : s.closed = true) (c : Nat) : ∃ e, getTry s c = .err e := by
  unfold getTry
  cases hk : s.cons[c]? with
  | none => exact ⟨_, rfl⟩
  | some k =>
    simp only
    by_cases h1 : k.cancelled = true
    · exact ⟨.canceled, by simp [h1]⟩
    · exact ⟨.canceled, by simp [h1, h]⟩

/-- … Commit of a consumer whose Close completed (nothing pending) reports an error … -/
theorem commit_fails_when_nothing_pending (s : St) (c : Nat) (k : Cons) (hk : s.cons[c]? = some k) (hd : k.delta = 0) :
    (commit s c).2 = some .nothingToCommit := by
  simp [commit, hk, hd]

/-- … the contents stay readable, and every consumer without uncommitted reads is deregistered (closed) -/
theorem close_keeps_contents_and_closes_consumers (s : St) :
    (settle (closeBuf s)).buf = s.buf ∧ (settle (closeBuf s)).log = s.log ∧ (closeBuf s).closed = true ∧
    ∀ k ∈ (closeBuf s).cons, k.cancelled = true := by
  have hfin : ∀ (s : St) (c : Nat), (finishClose s c).buf = s.buf ∧ (finishClose s c).log = s.log := by
    intro s c
    unfold finishClose
    split
    · exact ⟨rfl, rfl⟩
    · split <;> exact ⟨rfl, rfl⟩
  have hfold : ∀ (l : List Nat) (s : St), (l.foldl finishClose s).buf = s.buf ∧ (l.foldl finishClose s).log = s.log := by
    intro l
    induction l with
    | nil => intro s; exact ⟨rfl, rfl⟩
    | cons c l ih =>
      intro s
      have h1 := ih (finishClose s c)
      have h2 := hfin s c
      exact ⟨h1.1.trans h2.1, h1.2.trans h2.2⟩
  refine ⟨(hfold _ _).1, (hfold _ _).2, rfl, ?_⟩
  intro k hk
  simp only [closeBuf, List.mem_map] at hk
  obtain ⟨k0, _, rfl⟩ := hk
  rfl

end buffer

/-! ### (a') Channel: see C13.after_close_errors / nothing_taken_after_close (Get, Commit fail; second Close errors) -/

/-! ### (b) goroutine exit after Buffer.Close -/
section goroutines
open BB.Lifecycle

def allCG : List CG := [.top, .pred, .parked, .notified, .exited]
def allW : List W := [.waitDone, .wantLock, .locked, .done]
def allTG : List TG := [.none, .waiting, .fired, .locked]
def allH : List Holder := [.free, .cg, .w, .tg]
def allB : List Bool := [true, false]
def allN : List Nat := [0, 1, 2]

def allStates : List St :=
  allCG.flatMap fun c => allW.flatMap fun w => allTG.flatMap fun t => allH.flatMap fun h => allB.flatMap fun cl =>
    allB.flatMap fun d => allN.map fun n => { cg := c, w := w, tg := t, bm := h, closed := cl, derived := d, fires := n }

def allActs : List Act := [.close, .change, .cgStep, .wStep, .tgStep, .fire]

theorem act_mem (a : Act) : a ∈ allActs := by cases a <;> simp [allActs]

theorem mem_allStates (s : St) (hf : s.fires ≤ 2) : s ∈ allStates := by
  obtain ⟨c, w, t, h, cl, d, n⟩ := s
  simp only [allStates, List.mem_flatMap, List.mem_map]
  refine ⟨c, by cases c <;> simp [allCG], w, by cases w <;> simp [allW], t, by cases t <;> simp [allTG], h, by cases h <;> simp [allH],
    cl, by cases cl <;> simp [allB], d, by cases d <;> simp [allB], n, ?_, rfl⟩
  simp only at hf
  simp only [allN, List.mem_cons, List.mem_nil_iff, or_false]
  omega

def invB (s : St) : Bool :=
  (s.fires ≤ 2) &&
  ((s.cg == .top || s.cg == .pred) == (s.bm == .cg)) &&
  ((s.w == .locked) == (s.bm == .w)) &&
  ((s.tg == .locked) == (s.bm == .tg)) &&
  (s.derived == (s.closed || s.cg == .exited)) &&
  ((s.w == .wantLock || s.w == .locked || s.w == .done) → s.derived) &&
  -- once the watcher has broadcast after a Close, the cleanup goroutine is awake (it will see the closed context)
  ((s.w == .done && s.closed) → (s.cg == .notified || s.cg == .top || s.cg == .exited)) &&
  (s.cg == .pred → s.w != .done || !s.closed)

theorem inv_step_table : (allStates.all fun s => allActs.all fun a =>
    !invB s || (match step {} s a with | some s' => invB s' | none => true)) = true := by decide +kernel

theorem inv_step (s : St) (a : Act) (s' : St) (h : invB s = true) (hs : (sys {}).step s a = some s') : invB s' = true := by
  have hf : s.fires ≤ 2 := by
    simp only [invB, Bool.and_eq_true, decide_eq_true_eq] at h; exact h.1.1.1.1.1.1.1
  have h2 := List.all_eq_true.mp (List.all_eq_true.mp inv_step_table s (mem_allStates s hf)) a (act_mem a)
  simp only [sys] at hs
  simpa [h, hs] using h2

theorem inv_reach : ∀ s, Reach (sys {}) s → invB s = true :=
  invariant (sys {}) (fun s => invB s = true) (by show invB ({} : St) = true; decide) inv_step

/-- only scheduler steps of the three goroutines — NOT timer expiry — are assumed fair -/
def procAct (_ : St) (a : Act) : Prop := a = .cgStep ∨ a = .wStep ∨ a = .tgStep

def rank (s : St) : Nat :=
  8 * (match s.cg with | .pred => 4 | .parked => 3 | .notified => 2 | .top => 1 | .exited => 0) +
  (match s.w with | .waitDone => 3 | .wantLock => 2 | .locked => 1 | .done => 0) +
  (match s.tg with | .waiting => 3 | .fired => 2 | .locked => 1 | .none => 0)

/-- **After Buffer.Close every goroutine the Buffer started exits**, along every run that is weakly fair for the
    goroutines' own steps — no timer expiry is needed, whatever the cooldown. -/
theorem close_leadsTo_no_goroutine (r : Run (sys {})) (hfair : WeakFair (sys {}) procAct r) :
    ∀ i, ∃ j, i ≤ j ∧ (allGone (r.st j) = true ∨ (r.st j).closed = false) := by
  apply leadsTo (sys {}) procAct r (fun s => invB s = true) (fun s => allGone s = true ∨ s.closed = false) rank hfair
  · intro i; exact inv_reach _ (run_reach _ r i)
  · intro s hi hng
    have hf : s.fires ≤ 2 := by simp only [invB, Bool.and_eq_true, decide_eq_true_eq] at hi; exact hi.1.1.1.1.1.1.1
    have hg : allGone s = false := by cases h : allGone s <;> simp_all
    have hc : s.closed = true := by cases h : s.closed <;> simp_all
    have key : (allStates.all fun s => !invB s || allGone s || !s.closed ||
        (step {} s .cgStep).isSome || (step {} s .wStep).isSome || (step {} s .tgStep).isSome) = true := by decide +kernel
    have := List.all_eq_true.mp key s (mem_allStates s hf)
    simp only [hi, hg, hc, Bool.not_true, Bool.false_or, Bool.or_eq_true] at this
    rcases this with (h | h) | h
    · exact ⟨.cgStep, Or.inl rfl, h⟩
    · exact ⟨.wStep, Or.inr (Or.inl rfl), h⟩
    · exact ⟨.tgStep, Or.inr (Or.inr rfl), h⟩
  · intro s a s' hi hng hs
    have hf : s.fires ≤ 2 := by simp only [invB, Bool.and_eq_true, decide_eq_true_eq] at hi; exact hi.1.1.1.1.1.1.1
    have hg : allGone s = false := by cases h : allGone s <;> simp_all
    have hc : s.closed = true := by cases h : s.closed <;> simp_all
    have key : (allStates.all fun s => allActs.all fun a => !invB s || allGone s || !s.closed ||
        (match step {} s a with | some s' => allGone s' || !s'.closed || decide (rank s' ≤ rank s) | none => true)) = true := by decide +kernel
    have := List.all_eq_true.mp (List.all_eq_true.mp key s (mem_allStates s hf)) a (act_mem a)
    simp only [sys] at hs
    simp only [hi, hg, hc, hs, Bool.not_true, Bool.false_or, Bool.or_eq_true, Bool.not_eq_true', decide_eq_true_eq] at this
    rcases this with (h | h) | h
    · exact Or.inl (Or.inl h)
    · exact Or.inl (Or.inr h)
    · exact Or.inr h
  · intro s a s' hi hng hH hs
    have hf : s.fires ≤ 2 := by simp only [invB, Bool.and_eq_true, decide_eq_true_eq] at hi; exact hi.1.1.1.1.1.1.1
    have hg : allGone s = false := by cases h : allGone s <;> simp_all
    have hc : s.closed = true := by cases h : s.closed <;> simp_all
    have key : (allStates.all fun s => allActs.all fun a => !invB s || allGone s || !s.closed ||
        !(a == .cgStep || a == .wStep || a == .tgStep) ||
        (match step {} s a with | some s' => allGone s' || !s'.closed || decide (rank s' < rank s) | none => true)) = true := by decide +kernel
    have := List.all_eq_true.mp (List.all_eq_true.mp key s (mem_allStates s hf)) a (act_mem a)
    have ha : (a == Act.cgStep || a == Act.wStep || a == Act.tgStep) = true := by rcases hH with h | h | h <;> simp [h]
    simp only [sys] at hs
    simp only [hi, hg, hc, ha, hs, Bool.not_true, Bool.false_or, Bool.or_eq_true, Bool.not_eq_true', decide_eq_true_eq] at this
    rcases this with (h | h) | h
    · exact Or.inl (Or.inl h)
    · exact Or.inl (Or.inr h)
    · exact Or.inr h

/-- **witness of finding F3** (fixed in /repo): a timer goroutine that waits on the timer only is stuck after
    Close — cleanup goroutine and watcher are gone, the timer goroutine can only be released by a timer expiry -/
theorem timer_goroutine_outlives_close_without_ctx_select :
    ((sys { timerSelectsCtx := false }).run {} [.cgStep, .close, .wStep, .wStep, .wStep, .cgStep, .cgStep]).map
      (fun s => (s.cg, s.w, s.tg, (step { timerSelectsCtx := false } s .cgStep).isSome, (step { timerSelectsCtx := false } s .wStep).isSome,
                 (step { timerSelectsCtx := false } s .tgStep).isSome)) = some (.exited, .done, .waiting, false, false, false) := by decide

end goroutines

/-! ### the watcher goroutine of any WaitCond call exits once the call returned and its caller unlocked -/
section watcher
open BB.WaitCond BB.Props.C05

def rankW (s : BB.WaitCond.St) : Nat :=
  (if s.unlocked then 0 else 1) +
  (match s.w with | .unborn => 0 | .waitDone => 3 | .wantLock => 2 | .locked => 1 | .done => 0)

def wAct (_ : BB.WaitCond.St) (a : BB.WaitCond.Act) : Prop := a = .wstep ∨ a = .unlock

theorem waitcond_watcher_exits (r : Run (BB.WaitCond.sys good)) (hfair : WeakFair (BB.WaitCond.sys good) wAct r) :
    ∀ i, ∃ j, i ≤ j ∧ (returnedB (r.st j) = false ∨ (r.st j).w = .done ∨ (r.st j).w = .unborn) := by
  apply leadsTo (BB.WaitCond.sys good) wAct r (fun s => BB.Props.C05.invB s = true)
    (fun s => returnedB s = false ∨ s.w = .done ∨ s.w = .unborn) rankW hfair
  · intro i; exact BB.Props.C05.inv_reach _ (run_reach _ r i)
  · intro s hi hng
    have key := forall_states (fun s => !BB.Props.C05.invB s || !returnedB s || s.w == .done || s.w == .unborn ||
        (BB.WaitCond.step good s .wstep).isSome || (BB.WaitCond.step good s .unlock).isSome) (by decide +kernel) s
    have hr : returnedB s = true := by cases h : returnedB s <;> simp_all
    have h1 : (s.w == WPc.done) = false := by cases h : s.w <;> simp_all
    have h2 : (s.w == WPc.unborn) = false := by cases h : s.w <;> simp_all
    simp only [hi, hr, h1, h2, Bool.not_true, Bool.false_or, Bool.or_eq_true] at key
    rcases key with h | h
    · exact ⟨.wstep, Or.inl rfl, h⟩
    · exact ⟨.unlock, Or.inr rfl, h⟩
  · intro s a s' hi hng hs
    have key := forall_states_acts (fun s a => !BB.Props.C05.invB s || !returnedB s || s.w == .done || s.w == .unborn ||
        (match BB.WaitCond.step good s a with
         | some s' => !returnedB s' || s'.w == .done || s'.w == .unborn || decide (rankW s' ≤ rankW s) | none => true)) (by decide +kernel) s a
    have hr : returnedB s = true := by cases h : returnedB s <;> simp_all
    have h1 : (s.w == WPc.done) = false := by cases h : s.w <;> simp_all
    have h2 : (s.w == WPc.unborn) = false := by cases h : s.w <;> simp_all
    simp only [BB.WaitCond.sys] at hs
    simp only [hi, hr, h1, h2, hs, Bool.not_true, Bool.false_or, Bool.or_eq_true, Bool.not_eq_true', beq_iff_eq, decide_eq_true_eq] at key
    rcases key with ((h | h) | h) | h
    · exact Or.inl (Or.inl h)
    · exact Or.inl (Or.inr (Or.inl h))
    · exact Or.inl (Or.inr (Or.inr h))
    · exact Or.inr h
  · intro s a s' hi hng hH hs
    have key := forall_states_acts (fun s a => !BB.Props.C05.invB s || !returnedB s || s.w == .done || s.w == .unborn ||
        !(a == .wstep || a == .unlock) ||
        (match BB.WaitCond.step good s a with
         | some s' => !returnedB s' || s'.w == .done || s'.w == .unborn || decide (rankW s' < rankW s) | none => true)) (by decide +kernel) s a
    have hr : returnedB s = true := by cases h : returnedB s <;> simp_all
    have h1 : (s.w == WPc.done) = false := by cases h : s.w <;> simp_all
    have h2 : (s.w == WPc.unborn) = false := by cases h : s.w <;> simp_all
    have ha : (a == BB.WaitCond.Act.wstep || a == BB.WaitCond.Act.unlock) = true := by rcases hH with h | h <;> simp [h]
    simp only [BB.WaitCond.sys] at hs
    simp only [hi, hr, h1, h2, ha, hs, Bool.not_true, Bool.false_or, Bool.or_eq_true, Bool.not_eq_true', beq_iff_eq, decide_eq_true_eq] at key
    rcases key with ((h | h) | h) | h
    · exact Or.inl (Or.inl h)
    · exact Or.inl (Or.inr (Or.inl h))
    · exact Or.inl (Or.inr (Or.inr h))
    · exact Or.inr h

end watcher

end BB.Props.C12
