/-
  C19 — Callable: Call equals a direct call or errors without calling; never panics.
  `call true` is the guarded behaviour (what the property demands and what /repo implements after the
  `fix:` commit for finding F5); `call false` models unguarded use of reflect and is kept to show the
  failing witness.  Quantification: every signature over the type universe, every argument list
  (typed values, typed nil, untyped nil, wrong kinds, wrong lengths), every result-target list.
-/
import BB.Model.Callable

namespace BB.Props.C19
open BB.Callable

theorem passAll_strict_no_panic (ps : List Ty) (args : List Val) : passAll true ps args ≠ .error true := by
  induction ps generalizing args with
  | nil => cases args <;> simp [passAll]
  | cons p ps ih =>
    cases args with
    | nil => simp [passAll]
    | cons a as =>
      simp only [passAll, Bool.not_true, Bool.false_and]
      cases hp : passOne p a with
      | none => simp
      | some v =>
        have := ih as
        cases h : passAll true ps as with
        | ok vs => simp
        | error e =>
          simp
          cases e with
          | false => rfl
          | true => exact absurd h this

theorem checkResults_strict_no_panic (sig : Sig) (mode : Mode) : checkResults true sig mode ≠ .error true := by
  cases mode with
  | none => simp [checkResults]
  | results ts =>
    simp only [checkResults]
    split
    · simp
    · suffices ∀ outs ts, checkResults.go true outs ts ≠ .error true from this _ _
      intro outs
      induction outs with
      | nil => intro ts; simp [checkResults.go]
      | cons o outs ih =>
        intro ts
        cases ts with
        | nil => simp [checkResults.go]
        | cons t ts =>
          cases t with
          | unil => simp [checkResults.go]
          | nonPtr _ => simp [checkResults.go]
          | nilPtr _ => simp [checkResults.go]
          | ptr e => simp only [checkResults.go]; split
                     · exact ih ts
                     · simp
  | slice t =>
    cases t <;> simp [checkResults] <;> split <;> simp

/-- Call never panics on its own account, for any signature, arguments and result targets. -/
theorem call_total (sig : Sig) (args : List Val) (mode : Mode) (rets : List Val) :
    call true sig args mode rets ≠ .panic := by
  unfold call
  cases h1 : checkArgs true sig args with
  | error e =>
    cases e with
    | true =>
      exfalso
      unfold checkArgs at h1
      split at h1
      · cases h1
      · exact passAll_strict_no_panic _ _ h1
    | false => simp
  | ok passed =>
    cases h2 : checkResults true sig mode with
    | error e =>
      cases e with
      | true => exact absurd h2 (checkResults_strict_no_panic sig mode)
      | false => simp
    | ok u => cases mode <;> simp

/-- the arguments the function receives: exactly the given ones, position by position -/
theorem passAll_exact (strict : Bool) (ps : List Ty) (args passed : List Val) (hlen : ps.length = args.length)
    (h : passAll strict ps args = .ok passed) :
    passed.length = args.length ∧
    ∀ (i : Nat) (p : Ty) (a : Val), ps[i]? = some p → args[i]? = some a → passed[i]? = passOne p a := by
  induction ps generalizing args passed with
  | nil =>
    cases args with
    | nil => simp [passAll] at h; subst h; simp
    | cons a as => simp at hlen
  | cons p ps ih =>
    cases args with
    | nil => simp at hlen
    | cons a as =>
      simp only [passAll] at h
      split at h
      · cases h
      · cases hp : passOne p a with
        | none => simp [hp] at h
        | some v =>
          simp only [hp] at h
          cases hr : passAll strict ps as with
          | error e => simp [hr] at h
          | ok vs =>
            simp only [hr, Except.ok.injEq] at h
            subst h
            obtain ⟨h1, h2⟩ := ih as vs (by simpa using hlen) hr
            refine ⟨by simp [h1], ?_⟩
            intro i p' a' hp' ha'
            cases i with
            | zero => simp at hp' ha'; subst hp'; subst ha'; simp [hp]
            | succ i => simp at hp' ha' ⊢; exact h2 i p' a' hp' ha'

/-- a typed argument is passed through unchanged; untyped nil becomes the nil of the parameter type -/
theorem passOne_exact (p : Ty) (a v : Val) (h : passOne p a = some v) :
    (∀ t x, a = .typed t x → v = .typed t x ∧ assignable t p = true) ∧
    (a = .unil → nilable p = true ∧ v = (if p.isIface then .unil else .typed p none)) := by
  constructor
  · intro t x ha; subst ha
    simp only [passOne] at h
    split at h
    · rename_i hh; cases h; exact ⟨rfl, hh⟩
    · cases h
  · intro ha; subst ha
    simp only [passOne] at h
    split at h
    · rename_i hh; cases h; exact ⟨hh, rfl⟩
    · cases h

/-- `ok` means: invoked once with exactly the expanded arguments, and exactly the function's return
    values are stored (nothing when no result option was given) -/
theorem ok_is_direct_call (strict : Bool) (sig : Sig) (args : List Val) (mode : Mode) (rets passed stored : List Val)
    (h : call strict sig args mode rets = .ok passed stored) :
    (∃ ps, expand sig args.length = some ps ∧ passAll strict ps args = .ok passed) ∧
    (stored = rets ∨ (stored = [] ∧ ∃ _ : True, match mode with | .none => True | _ => False)) := by
  unfold call at h
  cases h1 : checkArgs strict sig args with
  | error e => cases e <;> simp [h1] at h
  | ok p =>
    simp only [h1] at h
    cases h2 : checkResults strict sig mode with
    | error e => cases e <;> simp [h2] at h
    | ok u =>
      simp only [h2] at h
      constructor
      · unfold checkArgs at h1
        split at h1
        · cases h1
        · rename_i ps hps
          cases mode <;> simp at h <;> obtain ⟨rfl, _⟩ := h <;> exact ⟨ps, hps, h1⟩
      · cases mode with
        | none => simp at h; right; exact ⟨h.2, trivial, trivial⟩
        | results ts => simp at h; left; exact h.2.symm
        | slice t => simp at h; left; exact h.2.symm

/-- the expansion has exactly one parameter type per argument (variadic tail repeated) -/
theorem expand_length (sig : Sig) (n : Nat) (ps : List Ty) (h : expand sig n = some ps) : ps.length = n := by
  unfold expand at h
  split at h
  · split at h
    · cases h
    · simp only at h
      split at h
      · cases h
      · rename_i hn; cases h; simp only [List.length_reverse] at hn; simp; omega
  · split at h
    · cases h; rename_i hh; exact hh.symm
    · cases h

/-- witness of finding F5 (unguarded reflect): an untyped nil argument for a pointer parameter, or an
    untyped nil result target, panics -/
theorem unguarded_panics :
    call false ⟨[.pint], false, []⟩ [.unil] .none [] = .panic ∧
    call false ⟨[], false, [.int]⟩ [] (.results [.unil]) [.typed .int (some 1)] = .panic := by
  decide

/-! non-vacuity: variadic expansion with nil for a nilable element type -/
example : call true ⟨[.int, .any], true, [.err]⟩ [.typed .int (some 1), .unil, .typed .str (some 2)]
    (.results [.ptr .any]) [.unil] = .ok [.typed .int (some 1), .unil, .typed .str (some 2)] [.unil] := by decide

example : call true ⟨[.int], false, []⟩ [.unil] .none [] = .err := by decide

/-! ### Untyped nil where the parameter type has no nil value (basic kinds, arrays, structs): an error, the function is not run -/

theorem passAll_nil_mismatch (ps : List Ty) (args : List Val) (i : Nat) (p : Ty)
    (hp : ps[i]? = some p) (ha : args[i]? = some .unil) (hn : nilable p = false) :
    ∃ e, passAll true ps args = .error e := by
  induction ps generalizing args i with
  | nil => simp at hp
  | cons q qs ih =>
    cases args with
    | nil => simp at ha
    | cons a as =>
      cases i with
      | zero =>
        simp only [List.getElem?_cons_zero, Option.some.injEq] at hp ha
        subst hp; subst ha
        exact ⟨false, by simp [passAll, passOne, hn]⟩
      | succ j =>
        simp only [List.getElem?_cons_succ] at hp ha
        obtain ⟨e, he⟩ := ih as j hp ha
        cases h1 : passOne q a with
        | none => exact ⟨false, by simp [passAll, h1]⟩
        | some v => exact ⟨e, by simp [passAll, h1, he]⟩

/-- whatever else the call looks like: an untyped nil in the position of a parameter whose type has no nil value makes `Call`
    return a descriptive error — `Outcome.err`: the function is not invoked, no target is touched, nothing panics -/
theorem untyped_nil_for_a_type_without_nil_is_an_error (sig : Sig) (args : List Val) (mode : Mode) (rets : List Val)
    (ps : List Ty) (i : Nat) (p : Ty) (he : expand sig args.length = some ps)
    (hp : ps[i]? = some p) (ha : args[i]? = some .unil) (hn : nilable p = false) :
    call true sig args mode rets = .err := by
  obtain ⟨e, h⟩ := passAll_nil_mismatch ps args i p hp ha hn
  have : e = false := by
    cases e with
    | false => rfl
    | true => exact absurd h (passAll_strict_no_panic ps args)
  subst this
  simp [call, checkArgs, he, h]

/-- non-vacuity: an array parameter, mandatory or as the element of the variadic tail -/
example : call true ⟨[.arr], false, []⟩ [.unil] .none [] = .err ∧
    call true ⟨[.int, .arr], true, []⟩ [.typed .int (some 1), .typed .arr (some 2), .unil] .none [] = .err ∧
    call true ⟨[.int, .arr], true, []⟩ [.typed .int (some 1), .typed .arr (some 2)] .none [] =
      .ok [.typed .int (some 1), .typed .arr (some 2)] [] := by decide

end BB.Props.C19
