/-
  C10 — Exclusive: every call is answered by an execution begun after it; none lost.

  Model: `BB.Exclusive.sys`; the ghost clock counts attach and start-of-execution events, `attachClock` is the
  instant a call was made (it attaches under the locks that decide which item it joins), `startClock` the instant
  the item's work function was called.  Safety parts are proved for every reachable state of an unbounded
  population of calls; the liveness part ("receives exactly one outcome") is proved as deadlock freedom
  (`no_deadlock`: as long as a call is unanswered some step that changes the state is enabled) and as a leads-to
  theorem (`every_call_is_eventually_answered`: along every run that does not neglect for ever the step a call is
  waiting for, the call ends, with its outcome), by a ranking function over the ghost owner of the runner region.
-/
import BB.Proofs.ExclusiveCount
import BB.Proofs.ExclusiveOutcome
import BB.Proofs.ExclusiveProgress
import BB.Proofs.ExclusiveStarted
import BB.Proofs.ExclusiveLive

namespace BB.Props.C10
open BB.LTS BB.Exclusive

/-- a call's item is never an execution that had already begun: if the item the call attached to has started,
    it started after the call was made (blocking, async and start-style calls alike) -/
theorem execution_began_after_call (s : St) (hr : Reach sys s) (t : Nat) (ht : (s.threads t).pc ≠ .idle)
    (hs : (s.items (s.threads t).item).started = true) :
    (s.threads t).attachClock < (s.items (s.threads t).item).startClock :=
  (invAE_reach s hr).1.answeredAfter t ht hs

/-- the outcome a call holds is the result of the item it attached to, which is the result of an execution
    (never a stale value), and that execution began after the call -/
theorem answered_by_later_execution (s : St) (hr : Reach sys s) (t r : Nat) (ht : (s.threads t).pc ≠ .idle)
    (ho : (s.threads t).outcome = some r) :
    (s.items (s.threads t).item).result = some r ∧ (s.items (s.threads t).item).started = true ∧
    (s.threads t).attachClock < (s.items (s.threads t).item).startClock := by
  have h1 := (invB_reach s hr).outcomeOk t r ht ho
  have h2 := (invF_reach s hr).completeStarted _ h1.2
  exact ⟨h1.1, h2, execution_began_after_call s hr t ht h2⟩

/-- every finished blocking/async call has received an outcome -/
theorem done_calls_answered (s : St) (hr : Reach sys s) (t : Nat) (ht : (s.threads t).pc = .done)
    (hst : (s.threads t).start = false) : ∃ r, (s.threads t).outcome = some r := by
  have := (invB_reach s hr).doneAnswered t ht hst
  cases ho : (s.threads t).outcome with
  | none => rw [ho] at this; cases this
  | some r => exact ⟨r, rfl⟩

/-- start-style calls receive none -/
theorem start_calls_get_no_outcome (s : St) (hr : Reach sys s) (t : Nat) (ht : (s.threads t).pc ≠ .idle)
    (hst : (s.threads t).start = true) : (s.threads t).outcome = none :=
  (invB_reach s hr).startNoOutcome t ht hst

/-- exactly one: an outcome, once received, is never replaced (and an item's result is written once) -/
theorem outcome_received_once (s s' : St) (a : Act) (hr : Reach sys s) (hs : sys.step s a = some s') (t r : Nat)
    (ht : (s.threads t).pc ≠ .idle) (ho : (s.threads t).outcome = some r) : (s'.threads t).outcome = some r := by
  have h := inv_reach s hr
  have hB := invB_reach s hr
  have hF := invF_reach s hr
  have hr' : Reach sys s' := Reach.step hr hs
  have hB' := invB_reach s' hr'
  -- the call's item and its result do not change; whatever outcome it holds afterwards is that result
  have hcomplete := (hB.outcomeOk t r ht ho)
  have key : ∀ m m', BB.Exclusive.Inv m → ResultComplete m → InvB m → InvF m → Micro m m' → (m.threads t).pc ≠ .idle →
      (m.threads t).outcome = some r → (m'.threads t).outcome = some r := by
    intro m m' hI hR hBm hFm hm hti hto
    have hc := (hBm.outcomeOk t r hti hto).2
    cases hm with
    | alloc _ => exact hto
    | @attach j u fn st hmm hidle =>
      have : t ≠ u := fun e => hti (e ▸ hidle)
      rw [attach_threads_other _ _ _ _ _ this]; exact hto
    | @deliver u hu _ _ =>
      by_cases e : t = u
      · subst e; have := hFm.waitingNoOutcome t hu; rw [hto] at this; cases this
      · simp only [deliverSt, upd_apply, if_neg e]; exact hto
    | @run u hu _ _ =>
      by_cases e : t = u
      · subst e; simp only [runSt, upd_apply, ↓reduceIte]; exact hto
      · simp only [runSt, upd_apply, if_neg e]; exact hto
    | @swap u hu =>
      by_cases e : t = u
      · subst e; simp only [swapSt, upd_apply, ↓reduceIte]; exact hto
      · simp only [swapSt, upd_apply, if_neg e]; exact hto
    | @start u hu =>
      by_cases e : t = u
      · subst e; simp only [startSt, upd_apply, ↓reduceIte]; exact hto
      · simp only [startSt, upd_apply, if_neg e]; exact hto
    | @finish u r' pc' hu hcu hp =>
      by_cases e : t = u
      · subst e; rw [hc] at hcu; cases hcu
      · simp only [finishSt, upd_apply, if_neg e]; exact hto
    | @ret u hu _ =>
      by_cases e : t = u
      · subst e; simp only [retSt, upd_apply, ↓reduceIte]; exact hto
      · simp only [retSt, upd_apply, if_neg e]; exact hto
    | @clear u hu =>
      by_cases e : t = u
      · subst e; simp only [clearSt, upd_apply, ↓reduceIte]; exact hto
      · simp only [clearSt, upd_apply, if_neg e]; exact hto
  rcases step_micro hs with e | h1 | ⟨m, h1, h2⟩
  · rw [e]; exact ho
  · exact key s s' h (resultComplete_reach s hr) hB hF h1 ht ho
  · exact key _ _ (inv_micro h h1) (resultComplete_micro (resultComplete_reach s hr) h1) (invB_micro h hB h1)
      (invF_micro h hF h1) h2 (micro_thread_frame h1 t ht).2.2.2.2 (key s _ h (resultComplete_reach s hr) hB hF h1 ht ho)

/-- callers coalesced into one execution receive the identical outcome -/
theorem coalesced_identical (s : St) (hr : Reach sys s) (t1 t2 r1 r2 : Nat)
    (h1 : (s.threads t1).pc ≠ .idle) (h2 : (s.threads t2).pc ≠ .idle)
    (hi : (s.threads t1).item = (s.threads t2).item)
    (o1 : (s.threads t1).outcome = some r1) (o2 : (s.threads t2).outcome = some r2) : r1 = r2 := by
  have a := ((invB_reach s hr).outcomeOk t1 r1 h1 o1).1
  have b := ((invB_reach s hr).outcomeOk t2 r2 h2 o2).1
  rw [hi, b] at a; exact (Option.some.inj a).symm

/-- the function that was executed was supplied by one of the calls coalesced into that execution -/
theorem executed_function_supplied (s : St) (hr : Reach sys s) (j : Nat) (hs : (s.items j).started = true) :
    ∃ t, (s.threads t).pc ≠ .idle ∧ (s.threads t).item = j ∧ (s.threads t).fn = (s.items j).ranFn :=
  (invD_reach s hr).ranSupplied j hs

/-- a work function that returns without resolving yields the resolve-not-called error (encoded `0`), not a hang:
    the item is complete afterwards and the runner (if not start-style) holds that outcome -/
theorem resolve_not_called (s : St) (t : Nat) (ht : (s.threads t).pc = .working)
    (hc : (s.items (s.threads t).item).complete = false) :
    ∃ s', sys.step s (.workReturn t) = some s' ∧ (s'.items (s.threads t).item).result = some 0 ∧
      (s'.items (s.threads t).item).complete = true ∧ (s'.items (s.threads t).item).running = false ∧
      ((s.threads t).start = false → (s'.threads t).outcome = some 0) := by
  refine ⟨finishSt s t 0 .returned, by simp [sys, step, ht, hc], ?_, ?_, ?_, ?_⟩ <;>
    simp (config := { contextual := true }) [finishSt, upd_apply]

/-- executions never outnumber calls -/
theorem executions_le_calls (s : St) (hr : Reach sys s) : s.execs ≤ s.attaches := execs_le_attaches hr

/-- once all calls are answered and all work has finished, no per-key state remains -/
theorem no_state_remains (s : St) (hr : Reach sys s)
    (hq : ∀ t, (s.threads t).pc = .idle ∨ (s.threads t).pc = .done) : s.map = none := by
  have hC := invC_reach s hr
  cases hm : s.map with
  | none => rfl
  | some j =>
    exfalso
    by_cases hc : (s.items j).count = 0
    · obtain ⟨t, hp, _⟩ := hC.zeroOwner j hm hc
      rcases hq t with e | e <;> rcases hp with p | p | p <;> rw [e] at p <;> cases p
    · obtain ⟨t, hp, _⟩ := hC.firstWaiter j hm hc
      rcases hq t with e | e <;> rcases hp with p | p <;> rw [e] at p <;> cases p

/-- no hang: while some call is neither unmade nor finished, a step that changes some call's state is enabled
    (the work function returning is such a step: the theorem assumes nothing else about work functions) -/
theorem no_deadlock (s : St) (hr : Reach sys s) (t : Nat)
    (ht : (s.threads t).pc ≠ .idle) (ht' : (s.threads t).pc ≠ .done) :
    ∃ a s' u, sys.step s a = some s' ∧ (s'.threads u).pc ≠ (s.threads u).pc := by
  have h := inv_reach s hr
  have hC := invC_reach s hr
  -- a call inside the runner region can always take its next step
  have runner : ∀ u, inR (s.threads u).pc = true → ∃ a s' u, sys.step s a = some s' ∧ (s'.threads u).pc ≠ (s.threads u).pc := by
    intro u hu
    cases hp : (s.threads u).pc with
    | idle => rw [hp] at hu; cases hu
    | waiting => rw [hp] at hu; cases hu
    | done => rw [hp] at hu; cases hu
    | running => exact ⟨.swap u, swapSt s u, u, by simp [sys, step, hp], by simp [swapSt, upd_apply, hp]⟩
    | swapped => exact ⟨.startWork u, startSt s u, u, by simp [sys, step, hp], by simp [startSt, upd_apply, hp]⟩
    | returned => exact ⟨.clearNext u, clearSt s u, u, by simp [sys, step, hp], by simp [clearSt, upd_apply, hp]⟩
    | working =>
      cases hc : (s.items (s.threads u).item).complete with
      | true => exact ⟨.workReturn u, retSt s u, u, by simp [sys, step, hp, hc], by simp [retSt, upd_apply, hp]⟩
      | false => exact ⟨.workReturn u, finishSt s u 0 .returned, u, by simp [sys, step, hp, hc], by simp [finishSt, upd_apply, hp]⟩
  cases hp : (s.threads t).pc with
  | idle => exact absurd hp ht
  | done => exact absurd hp ht'
  | running => exact runner t (by simp [hp, inR])
  | swapped => exact runner t (by simp [hp, inR])
  | working => exact runner t (by simp [hp, inR])
  | returned => exact runner t (by simp [hp, inR])
  | waiting =>
    cases hrun : (s.items (s.threads t).item).running with
    | true =>
      obtain ⟨u, hu⟩ := hC.runningOwner _ hrun
      rcases hu with hu | hu
      · exact runner u hu.1
      · exact runner u (inR_of_past hu.1)
    | false =>
      cases hc : (s.items (s.threads t).item).complete with
      | true => exact ⟨.wake t, deliverSt s t, t, by simp [sys, step, hp, enter, hrun, hc], by simp [deliverSt, upd_apply, hp]⟩
      | false => exact ⟨.wake t, runSt s t, t, by simp [sys, step, hp, enter, hrun, hc], by simp [runSt, upd_apply, hp]⟩

/-- **every call is answered**: along every run — any number of calls, any interleaving — in which the step the
    call is waiting for is not neglected for ever (weak fairness for `helpful t`: the call's own next step or, while
    it is parked on a running item, the next step of the call that owns that item; "the work function returns" is
    one of these steps and is the only assumption about work functions), a call that has been made ends, and a
    blocking/async call ends holding an outcome -/
theorem every_call_is_eventually_answered (t : Nat) (r : Run sys) (hfair : WeakFair sys (helpful t) r)
    (i : Nat) (hmade : ((r.st i).threads t).pc ≠ .idle) :
    ∃ j, i ≤ j ∧ ((r.st j).threads t).pc = .done ∧
      (((r.st j).threads t).start = false → ∃ o, ((r.st j).threads t).outcome = some o) := by
  obtain ⟨j, hj, hd⟩ := call_leadsTo_done t r hfair i hmade
  exact ⟨j, hj, hd, fun hst => done_calls_answered _ (run_reach sys r j) t hd hst⟩

/-- the ranking function is bounded: at most nine helpful steps separate a made call from its answer -/
theorem answer_distance_bounded (t : Nat) (s : St) : mu t s ≤ 9 := by
  have h1 : ∀ pc, tblItem pc ≤ 9 := fun pc => by cases pc <;> simp [tblItem]
  have h2 : ∀ pc, tblNext pc ≤ 9 := fun pc => by cases pc <;> simp [tblNext]
  unfold mu
  split <;> try omega
  unfold muWait
  split
  · cases s.owner with
    | none => simp
    | some u => simp only; split
                · exact h1 _
                · exact h2 _
  · split <;> omega

/-- non-vacuity of the fairness hypothesis: a run in which call 0 is made and which is weakly fair for it -/
def demoActs : Nat → Option Act
  | 0 => some (.call 0 7 false) | 1 => some (.wake 0) | 2 => some (.swap 0) | 3 => some (.startWork 0)
  | 4 => some (.workReturn 0) | 5 => some (.clearNext 0) | _ => none

def demoSt : Nat → St
  | 0 => sys.init
  | k + 1 => match demoActs k with
    | some a => (sys.step (demoSt k) a).getD (demoSt k)
    | none => demoSt k

def demoRun : Run sys where
  st := demoSt
  act := demoActs
  start := rfl
  next := by
    intro i
    match i with
    | 0 => rfl
    | 1 => rfl
    | 2 => rfl
    | 3 => rfl
    | 4 => rfl
    | 5 => rfl
    | k + 6 => rfl

example : ((demoRun.st 1).threads 0).pc ≠ .idle := by decide

theorem demoSt_final (k : Nat) : demoSt (k + 6) = demoSt 6 := by
  induction k with
  | zero => rfl
  | succ k ih => show demoSt (k + 6) = demoSt 6; exact ih

theorem demoRun_fair : WeakFair sys (helpful 0) demoRun := by
  intro i hen
  by_cases hi : i < 6
  · refine ⟨i, Nat.le_refl _, ?_⟩
    match i, hi with
    | 0, _ =>
      -- before the call is made the helpful step (`wake 0`) is not enabled
      exfalso
      obtain ⟨a, hH, he⟩ := hen 0 (Nat.le_refl _)
      have : a = .wake 0 := hH
      subst this
      exact absurd he (by unfold enabled; decide)
    | 1, _ => exact ⟨_, rfl, rfl⟩
    | 2, _ => exact ⟨_, rfl, rfl⟩
    | 3, _ => exact ⟨_, rfl, rfl⟩
    | 4, _ => exact ⟨_, rfl, rfl⟩
    | 5, _ => exact ⟨_, rfl, rfl⟩
  · exfalso
    obtain ⟨a, hH, he⟩ := hen i (Nat.le_refl _)
    have hst : demoRun.st i = demoSt 6 := by
      have := demoSt_final (i - 6); rwa [show i - 6 + 6 = i by omega] at this
    rw [hst] at hH he
    have : a = .wake 0 := hH
    subst this
    exact absurd he (by unfold enabled; decide)

/-- the liveness theorem applies to the demonstration run -/
example : ∃ j, 1 ≤ j ∧ ((demoRun.st j).threads 0).pc = .done ∧ ∃ o, ((demoRun.st j).threads 0).outcome = some o := by
  obtain ⟨j, h1, h2, h3⟩ := every_call_is_eventually_answered 0 demoRun demoRun_fair 1 (by decide)
  refine ⟨j, h1, h2, h3 ?_⟩
  have := (micro_frame_start j)
  exact this
where
  micro_frame_start (j : Nat) : ((demoRun.st j).threads 0).start = false := by
    match j with
    | 0 => rfl
    | 1 => rfl
    | 2 => rfl
    | 3 => rfl
    | 4 => rfl
    | 5 => rfl
    | k + 6 => show ((demoSt (k + 6)).threads 0).start = false; rw [demoSt_final]; rfl

/-- non-vacuity: three calls, two executions; the call made during the first execution is answered by the second,
    the two coalesced calls get the same result, and the map is empty at the end -/
example :
    (sys.run sys.init [.call 0 7 false, .wake 0, .swap 0, .startWork 0, .call 1 8 false, .call 2 9 true, .wake 1,
        .resolve 0 5, .workReturn 0, .clearNext 0, .wake 1, .swap 1, .startWork 1, .workReturn 1, .clearNext 1]).map
      (fun s => ((s.threads 0).outcome, (s.threads 1).outcome, (s.threads 2).outcome, (s.threads 2).pc, (s.items 1).ranFn,
                 (s.threads 1).attachClock, (s.items 1).startClock, s.execs, s.attaches, s.map)) =
      some (some 5, some 0, none, Pc.done, 9, 2, 4, 2, 3, none) := by rfl

end BB.Props.C10
