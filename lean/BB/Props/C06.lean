/-
  C06 — ChanPubSub: each message reaches every standing subscriber once, in one order.

  Model and invariants as for C07 (`BB.PubSub.sys`, `PInv1`, `PInv2`).  Proved here: what a Send returns, who is
  served, that nobody is served twice in a round, that Send returns only after every receiver acknowledged, that
  Sends are serialised (one global order: the ghost `log`) and that a Send with nobody subscribed returns 0 at once.
  Order: `PInv3` (BB/Proofs/PubSub4.lean) — every subscription expects exactly the next position of the global order;
  `received_message_is_next_in_order` is the contiguity / no-duplicate / no-stale-message statement.
-/
import BB.Proofs.PubSub4
import BB.Proofs.PubSubHist

namespace BB.Props.C06
open BB.LTS BB.PubSub BB.Caster BB.Fun

/-- Sends are serialised: at most one sender is inside sendMu, so the Sends that reach their send phase form one
    sequence (the ghost `log`), which extends every sender's program order -/
theorem sends_serialised (s : St) (hr : Reach sys s) (a b : Nat)
    (ha : inM (s.senders a).pc = true) (hb : inM (s.senders b).pc = true) : a = b := (pinv12_reach s hr).1.singleM a b ha hb

/-- every subscriber that is subscribed and between rounds when a Send feeds the caster is owed a copy, and stays so
    until it receives it or withdraws -/
theorem standing_subscribers_are_owed (s : St) (hr : Reach sys s) (a : Nat) (ha : inA (s.senders a).pc = true) (t : Nat)
    (ht : (s.subs t).pc = .idle ∨ (s.subs t).pc = .tryFailed) : (s.subs t).owes = true :=
  (pinv12_reach s hr).2.idleOwes ⟨a, ha⟩ t ht

/-- the send phase can only end when nobody is owed a copy any more; the value ping.Send returns is then the number
    of subscribers that received the value (and are holding it, unacknowledged); the caster is back to 0 -/
theorem send_phase_result (s s' : St) (hr : Reach sys s) (a : Nat) (hs : sys.step s (.cfinal a) = some s') :
    SUM oweI s = 0 ∧ SUM absI s = 0 ∧ (s'.senders a).sent = s.delivered ∧ s.delivered = SUM gotI s ∧ s'.word = 0 ∧ s'.panicked = false := by
  obtain ⟨h1, h2⟩ := pinv12_reach s hr
  simp only [sys, step] at hs
  split at hs
  · rename_i g; obtain ⟨g1, g2, g3⟩ := g
    obtain ⟨hw, hsum, hb, hgd, hpn, hdk⟩ := h2.arm a g1
    have hO : SUM oweI s = 0 := by omega
    have hAb : SUM absI s = 0 := by omega
    have hfin : finish s.word (s.senders a).armedN = some s.delivered := by
      rw [hw, hO, Nat.zero_add]; exact finish_armed _ _ (by omega) (by omega)
    rw [hfin] at hs
    cases hs
    exact ⟨hO, hAb, by simp [setSender], hgd.symm, rfl, g3⟩
  · cases hs

/-- nobody is served twice in one round: while a Send is in its send phase no pong is available, so a subscriber that
    received its copy stays blocked in Wait (and cannot be back at the channel) -/
theorem no_second_copy_in_a_round (s : St) (hr : Reach sys s) (a : Nat) (ha : (s.senders a).pc = .sending) (t : Nat) :
    sys.step s (.consume t) = none := by
  have := ((pinv12_reach s hr).2.arm a ha).2.2.2.2.1
  simp [sys, step, this]

/-- the number of pongs published is the number of subscribers holding an unacknowledged value -/
theorem pongs_match_receptions (s : St) (hr : Reach sys s) (a : Nat) (ha : (s.senders a).pc = .ponging) :
    SUM gotI s = s.pongN := (pinv12_reach s hr).2.png a ha

/-- Send returns only after every subscriber that received the value has acknowledged it with Wait; it returns the
    number of receptions -/
theorem send_returns_after_all_acks (s s' : St) (hr : Reach sys s) (a : Nat) (hs : sys.step s (.ponged a) = some s') :
    SUM gotI s = 0 ∧ (s'.senders a).ret = some (s.senders a).sent := by
  obtain ⟨h1, h2⟩ := pinv12_reach s hr
  simp only [sys, step] at hs
  split at hs
  · rename_i g; cases hs
    have := h2.png a g.1
    exact ⟨by omega, by simp [setSender]⟩
  · cases hs

/-- subscriptions cannot be made while a Send holds sendingMu (from reading the count to the end of the send phase):
    nobody subscribed later can take a standing subscriber's copy -/
theorem no_subscription_during_send_phase (s : St) (hr : Reach sys s) (hw : s.sendingW = true) (t : Nat) :
    sys.step s (.subLock t) = none ∧ sys.step s (.subInc t) = none := by
  have := (pinv12_reach s hr).1.noRd hw t
  constructor
  · simp [sys, step, hw]
  · have hp : (s.subs t).pc ≠ .subRlocked := by intro e; rw [e] at this; simp [inRd] at this
    simp [sys, step, hp]

/-- with nobody subscribed Send returns 0 at once, without taking any lock -/
theorem send_zero_when_nobody (s : St) (a v : Nat) (hi : (s.senders a).pc = .idle) (hp : s.panicked = false) (h0 : s.subsCount = 0) :
    ∃ s', sys.step s (.sbegin a v) = some s' ∧ (s'.senders a).pc = .done ∧ (s'.senders a).ret = some 0 ∧ s'.sendMu = s.sendMu := by
  refine ⟨{ setSender s a { s.senders a with pc := .done, val := v, ret := some 0 } with returned := s.returned + 1 }, ?_, ?_, ?_, rfl⟩
  · simp only [sys, step, hi, hp, and_self, ↓reduceIte, h0]
  · simp [setSender]
  · simp [setSender]

/-- ORDER. The message a subscriber receives is the LAST element of the global order `log` (the Send being served),
    and its position is exactly the one this subscription expects next: `nextSeq` was set to `log.length + 1` when
    the subscription was made (so nothing armed earlier — in particular no Send that had already returned — can reach
    it) and is advanced by one at every reception.  Hence within one subscription the received positions are
    consecutive: no gap, no duplicate, one global order for everybody. -/
theorem received_message_is_next_in_order (s s' : St) (hr : Reach sys s) (a t : Nat) (hs : sys.step s (.recv a t) = some s') :
    (s.subs t).nextSeq = s.log.length ∧ s.log.getLast? = some (s.senders a).val ∧
    (s'.subs t).cur = (s.senders a).val ∧ (s'.subs t).nextSeq = s.log.length + 1 := by
  obtain ⟨h1, h2, h3⟩ := pinv123_reach s hr
  simp only [sys, step] at hs
  split at hs
  · rename_i g; obtain ⟨g1, g2, g3⟩ := g; cases hs
    have ho := h2.idleOwes ⟨a, by simp [g1, inA]⟩ t (Or.inl g3)
    refine ⟨h3.ordA t a (by simp [g3, pcIn]) ho g1, h3.lastIs a g1, ?_, ?_⟩
    · by_cases e : t = t <;> simp [setSender, setSub, upd_apply]
    · simp [setSender, setSub, upd_apply]
  · cases hs

/-- a new subscription expects the position after everything armed so far -/
theorem subscription_starts_after_current_log (s s' : St) (t : Nat) (hs : sys.step s (.subInc t) = some s') :
    (s'.subs t).nextSeq = s.log.length + 1 ∧ s'.log = s.log := by
  simp only [sys, step] at hs
  split at hs
  · cases hs; simp [setSub, upd_apply]
  · cases hs

/-- the global order only grows, by the value of the Send that arms -/
theorem global_order_grows_by_arming (s s' : St) (act : Act) (hs : sys.step s act = some s') :
    s'.log = s.log ∨ ∃ a, act = .ccas a ∧ s'.log = s.log ++ [(s.senders a).val] := by
  cases act <;> simp only [sys, step] at hs
  case ccas a =>
    split at hs
    · split at hs
      · split at hs
        · cases hs; exact Or.inr ⟨a, rfl, rfl⟩
        · cases hs
      · cases hs; exact Or.inl rfl
    · cases hs
  all_goals
    first
      | (split at hs <;> first | (cases hs; exact Or.inl rfl) | (split at hs <;> first | (cases hs; exact Or.inl rfl) | (split at hs <;> first | (cases hs; exact Or.inl rfl) | cases hs) | cases hs) | cases hs)

/-! ### Whole histories (the observer of `BB/Proofs/PubSubHist.lean`)

The wrapped system `hsys` is `sys` plus a passive observer recording, per subscriber, where in the global order its
current subscription started and which values it has received since, and per Send call the position at which it was
armed.  Every run of `sys` is a run of `hsys` and vice versa (`history_observer_is_passive`). -/

/-- the observer neither adds nor removes behaviour -/
theorem history_observer_is_passive :
    (∀ h, Reach hsys h → Reach sys h.st) ∧ (∀ s, Reach sys s → ∃ h, Reach hsys h ∧ h.st = s) := by
  refine ⟨hreach_proj, ?_⟩
  intro s hr
  induction hr with
  | init => exact ⟨hsys.init, Reach.init, rfl⟩
  | step _ hs ih =>
    obtain ⟨h, hr', rfl⟩ := ih
    obtain ⟨h', e1, e2⟩ := hstep_total h _ _ hs
    exact ⟨h', Reach.step hr' e1, e2⟩

/-- WHOLE-HISTORY ORDER.  In every reachable state, the values a subscription has received so far are exactly the
    `n` consecutive elements of the one global order `log` that start at the position the order had reached when the
    subscription was made: a contiguous run — no gap, no duplicate, nothing armed before the subscription (so no
    message whose Send had already returned), the same order for every subscription. -/
theorem subscription_sees_contiguous_run (h : HSt) (hr : Reach hsys h) (t : Nat) :
    h.seen t = (h.st.log.drop (h.start t)).take (h.seen t).length ∧ h.start t + (h.seen t).length ≤ h.st.log.length := by
  rcases (hinv_reach h hr).run t with ⟨_, h2, h3⟩ | ⟨_, h2, h3⟩
  · rw [h2]; simpa using h3
  · exact ⟨h2, h3⟩

/-- element-wise form: the i-th value received by a subscription is the element of the global order at position
    `start + i`; two subscriptions overlapping in time therefore agree on the order of the messages both receive -/
theorem ith_reception_is_ith_position (h : HSt) (hr : Reach hsys h) (t i : Nat) (hi : i < (h.seen t).length) :
    (h.seen t)[i]? = h.st.log[h.start t + i]? := by
  obtain ⟨h1, h2⟩ := subscription_sees_contiguous_run h hr t
  rw [h1, List.getElem?_take_of_lt hi, List.getElem?_drop]

/-- two subscriptions see the messages they have in common in the same relative order, because both read the same
    list: if t received position p as its i-th and u as its j-th message, the values agree -/
theorem common_messages_agree (h : HSt) (hr : Reach hsys h) (t u i j : Nat) (hi : i < (h.seen t).length)
    (hj : j < (h.seen u).length) (hp : h.start t + i = h.start u + j) : (h.seen t)[i]? = (h.seen u)[j]? := by
  rw [ith_reception_is_ith_position h hr t i hi, ith_reception_is_ith_position h hr u j hj, hp]

/-- every armed Send call sits at its own position of the global order, with the value it was called with; no two
    calls share a position -/
theorem armed_send_has_its_own_position (h : HSt) (hr : Reach hsys h) (a p : Nat) (ha : h.armedAt a = some p) :
    h.st.log[p]? = some (h.st.senders a).val ∧ ∀ b, h.armedAt b = some p → b = a :=
  ⟨((hinv_reach h hr).armed a p ha).1, fun b hb => (hinv_reach h hr).distinct b a p hb ha⟩

/-- the order extends real time (and hence every sender's program order): a Send that arms now is placed after every
    Send armed earlier — in particular after every Send that had returned before this one began -/
theorem later_send_is_later_in_order (h h' : HSt) (hr : Reach hsys h) (b : Nat) (hs : hsys.step h (.ccas b) = some h')
    (hne : h'.st.log ≠ h.st.log) : h'.armedAt b = some h.st.log.length ∧ ∀ a p, a ≠ b → h'.armedAt a = some p → p < h.st.log.length := by
  have e := hstep_st hs
  have hobs : h' = hobserve h (.ccas b) { h with st := h'.st } := by
    simp only [hsys, hstep] at hs
    rw [e] at hs; simp only [Option.some.injEq] at hs; exact hs.symm
  have harm : h'.armedAt = upd h.armedAt b (some h.st.log.length) := by rw [hobs]; simp [hobserve, hne]
  refine ⟨by rw [harm]; simp, ?_⟩
  intro a p hab hp
  rw [harm, upd_apply] at hp
  simp only [hab, ↓reduceIte] at hp
  have := ((hinv_reach h hr).armed a p hp).1
  rcases Nat.lt_or_ge p h.st.log.length with hlt | hge
  · exact hlt
  · rw [List.getElem?_eq_none hge] at this; cases this

unseal subOne in
/-- non-vacuity of the history theorems: subscriber 0 subscribes, Send 7 (armed at position 0) is received, subscriber
    1 subscribes afterwards, Send 8 (position 1) is received by both: 0 has seen [7, 8] from position 0, 1 has seen [8]
    from position 1 -/
example :
    (hsys.run hsys.init [.subLock 0, .subInc 0, .subUnlock 0,
        .sbegin 0 7, .sendMu 0, .sending 0, .count 0, .pingAdd 0, .cfast 0, .cload 0, .ccas 0, .recv 0 0, .cfinal 0,
        .unsending 0, .pong 0, .consume 0, .ponged 0, .sdone 0,
        .subLock 1, .subInc 1, .subUnlock 1,
        .sbegin 1 8, .sendMu 1, .sending 1, .count 1, .pingAdd 1, .cfast 1, .cload 1, .ccas 1, .recv 1 1, .recv 1 0, .cfinal 1,
        .unsending 1, .pong 1, .consume 0, .consume 1, .ponged 1, .sdone 1]).map
      (fun h => (h.seen 0, h.start 0, h.seen 1, h.start 1, h.armedAt 0, h.armedAt 1, h.st.log, (h.st.senders 1).ret)) =
      some ([7, 8], 0, [8], 1, some 0, some 1, [7, 8], some 2) := by rfl

unseal subOne in
/-- non-vacuity: two subscribers, one Send; one receives, the other unsubscribes in the middle of the Send and
    absorbs its copy; Send returns 1 after the receiver's Wait -/
example :
    (sys.run sys.init [.subLock 0, .subInc 0, .subUnlock 0, .subLock 1, .subInc 1, .subUnlock 1,
        .sbegin 0 7, .sendMu 0, .sending 0, .count 0, .pingAdd 0, .cfast 0, .cload 0, .ccas 0,
        .tryFail 1, .pingNonZero 1, .unsubDecN 1, .pingSub 1, .recv 0 0, .absorb 0 1, .cfinal 0, .unsending 0,
        .pong 0, .consume 0, .ponged 0, .sdone 0]).map
      (fun s => ((s.senders 0).ret, (s.subs 0).got, (s.subs 1).pc, s.subsCount, s.word, s.pongN, s.log, s.panicked)) =
      some (some 1, [7], UPc.out, 1, 0, 0, [7], false) := by rfl

end BB.Props.C06
