/-
  C04 — Buffer reclamation: fully consumed prefixes are freed without further activity.
  The cleanup sub-system model is finite (everything unbounded is in the environment actions), so the
  inductive steps are discharged by kernel evaluation over the whole state table; the statements are
  about all reachable states and all weakly fair runs.  "Bounded delay" is formalised as: at most one
  timer expiry plus finitely many scheduler steps.
-/
import BB.Model.Cleanup
import BB.Model.Cleaner
import BB.Core.Fair

namespace BB.Props.C04
open BB.Cleanup BB.LTS

def cfgs : List Cfg := [{ cooldown := true }, { cooldown := false }]

def allCG : List CG := [.eval, .afterEval, .parked, .notified]
def allTG : List TG := [.none, .waiting, .fired, .locked]
def allHolder : List Holder := [.free, .cg, .tg]
def allB : List Bool := [true, false]
def allN : List Nat := [0, 1, 2, 3]

def allStates : List St :=
  allCG.flatMap fun c => allTG.flatMap fun t => allHolder.flatMap fun h => allB.flatMap fun ti => allB.flatMap fun f =>
    allB.flatMap fun d => allN.flatMap fun n => allB.map fun q => { cg := c, tg := t, bm := h, timer := ti, flag := f, dirty := d, fires := n, quiet := q }

def allActs : List Act := [.change true, .change false, .cgStep, .tgStep, .fire, .quiesce]

theorem act_mem (a : Act) : a ∈ allActs := by
  cases a with
  | change d => cases d <;> simp [allActs]
  | _ => simp [allActs]

/-- the table contains every state whose expiry counter is saturated at 3 -/
theorem mem_allStates (s : St) (hf : s.fires ≤ 3) : s ∈ allStates := by
  obtain ⟨c, t, h, ti, f, d, n, q⟩ := s
  simp only [allStates, List.mem_flatMap, List.mem_map]
  refine ⟨c, by cases c <;> simp [allCG], t, by cases t <;> simp [allTG], h, by cases h <;> simp [allHolder],
    ti, by cases ti <;> simp [allB], f, by cases f <;> simp [allB], d, by cases d <;> simp [allB], n, ?_, q, by cases q <;> simp [allB], rfl⟩
  simp only at hf
  simp only [allN, List.mem_cons, List.mem_nil_iff, or_false]
  omega

/-- the invariant (Boolean).  The key clause: whenever something is reclaimable, the cleanup goroutine is
    about to evaluate, or is notified, or a cooldown is running with the re-broadcast flag set and a timer
    goroutine that has not re-broadcast yet. -/
def invB (s : St) : Bool :=
  (s.fires ≤ 3) &&
  (s.dirty → (s.cg == .eval || s.cg == .notified || (s.timer && s.flag && s.tg != .none))) &&
  ((s.cg == .eval || s.cg == .afterEval) == (s.bm == .cg)) &&
  ((s.tg == .locked) == (s.bm == .tg)) &&
  (s.timer == (s.tg != .none)) &&
  (s.flag → s.timer)

theorem inv_step_table (cfg : Cfg) (hc : cfg ∈ cfgs) : (allStates.all fun s => allActs.all fun a =>
    !invB s || (match step cfg s a with | some s' => invB s' | none => true)) = true := by
  simp only [cfgs, List.mem_cons, List.mem_nil_iff, or_false] at hc
  rcases hc with rfl | rfl <;> decide +kernel

theorem inv_step (cfg : Cfg) (hc : cfg ∈ cfgs) (s : St) (a : Act) (s' : St) (h : invB s = true)
    (hs : (sys cfg).step s a = some s') : invB s' = true := by
  have hf : s.fires ≤ 3 := by
    simp only [invB, Bool.and_eq_true, decide_eq_true_eq] at h; exact h.1.1.1.1.1
  have h1 := List.all_eq_true.mp (inv_step_table cfg hc) s (mem_allStates s hf)
  have h2 := List.all_eq_true.mp h1 a (act_mem a)
  simp only [sys] at hs
  simpa [h, hs] using h2

theorem inv_reach (cfg : Cfg) (hc : cfg ∈ cfgs) : ∀ s, Reach (sys cfg) s → invB s = true :=
  invariant (sys cfg) (fun s => invB s = true) (by show invB ({} : St) = true; decide) (inv_step cfg hc)

/-- **No change is forgotten.**  In every reachable state (every cooldown incl. 0, wherever the last commit /
    close falls relative to a cooldown window) a reclaimable prefix implies that a re-evaluation is coming:
    the cleanup goroutine is evaluating or notified, or the cooldown timer is armed with the re-broadcast
    flag set and its goroutine still to run. -/
theorem pending_evaluation (cfg : Cfg) (hc : cfg ∈ cfgs) (s : St) (h : Reach (sys cfg) s) (hd : s.dirty = true) :
    s.cg = .eval ∨ s.cg = .notified ∨ (s.timer = true ∧ s.flag = true ∧ s.tg ≠ .none) := by
  have hi := inv_reach cfg hc s h
  simp only [invB, Bool.and_eq_true, decide_eq_true_eq] at hi
  have := hi.1.1.1.1.2
  simp only [hd, Bool.or_eq_true, Bool.and_eq_true, beq_iff_eq, bne_iff_ne, ne_eq, true_implies, Bool.decide_eq_true] at this
  rcases this with (h1 | h1) | h1
  · exact Or.inl h1
  · exact Or.inr (Or.inl h1)
  · exact Or.inr (Or.inr ⟨h1.1.1, h1.1.2, h1.2⟩)

def procAct (_ : St) (a : Act) : Prop := a = .cgStep ∨ a = .tgStep ∨ a = .fire

/-- ranking function: distance of the cleanup goroutine / timer goroutine from the next evaluation -/
def rank (s : St) : Nat :=
  (match s.cg with | .notified => 4 | .eval => 3 | .afterEval => 2 | .parked => 1) +
  (match s.tg with | .waiting => 30 | .fired => 20 | .locked => 10 | .none => 0)

/-- **Reclamation without further activity.**  Along every weakly fair run (cleanup goroutine, timer
    goroutine and timer expiry are eventually served), from every point the reclaimable prefix is
    eventually gone — even if no operation is ever performed again. -/
theorem reclaim_leadsTo (cfg : Cfg) (hc : cfg ∈ cfgs) (r : Run (sys cfg)) (hfair : WeakFair (sys cfg) procAct r) :
    ∀ i, ∃ j, i ≤ j ∧ ((r.st j).dirty = false ∨ (r.st j).quiet = false) := by
  apply leadsTo (sys cfg) procAct r (fun s => invB s = true) (fun s => s.dirty = false ∨ s.quiet = false) rank hfair
  · intro i; exact inv_reach cfg hc _ (run_reach _ r i)
  · intro s hi hng
    have hf : s.fires ≤ 3 := by simp only [invB, Bool.and_eq_true, decide_eq_true_eq] at hi; exact hi.1.1.1.1.1
    have hd : s.dirty = true := by cases h : s.dirty <;> simp_all
    have hq : s.quiet = true := by cases h : s.quiet <;> simp_all
    have key : ∀ cfg ∈ cfgs, (allStates.all fun s => !invB s || !s.dirty || !s.quiet ||
        (step cfg s .cgStep).isSome || (step cfg s .tgStep).isSome || (step cfg s .fire).isSome) = true := by
      intro cfg hc; simp only [cfgs, List.mem_cons, List.mem_nil_iff, or_false] at hc
      rcases hc with rfl | rfl <;> decide +kernel
    have := List.all_eq_true.mp (key cfg hc) s (mem_allStates s hf)
    simp only [hi, hd, hq, Bool.not_true, Bool.false_or, Bool.or_eq_true] at this
    rcases this with (h | h) | h
    · exact ⟨.cgStep, Or.inl rfl, h⟩
    · exact ⟨.tgStep, Or.inr (Or.inl rfl), h⟩
    · exact ⟨.fire, Or.inr (Or.inr rfl), h⟩
  · intro s a s' hi hng hs
    have hf : s.fires ≤ 3 := by simp only [invB, Bool.and_eq_true, decide_eq_true_eq] at hi; exact hi.1.1.1.1.1
    have hd : s.dirty = true := by cases h : s.dirty <;> simp_all
    have hq : s.quiet = true := by cases h : s.quiet <;> simp_all
    have key : ∀ cfg ∈ cfgs, (allStates.all fun s => allActs.all fun a => !invB s || !s.dirty || !s.quiet ||
        (match step cfg s a with | some s' => !s'.dirty || !s'.quiet || decide (rank s' ≤ rank s) | none => true)) = true := by
      intro cfg hc; simp only [cfgs, List.mem_cons, List.mem_nil_iff, or_false] at hc
      rcases hc with rfl | rfl <;> decide +kernel
    have := List.all_eq_true.mp (List.all_eq_true.mp (key cfg hc) s (mem_allStates s hf)) a (act_mem a)
    simp only [sys] at hs
    simp only [hi, hd, hq, hs, Bool.not_true, Bool.false_or, Bool.or_eq_true, Bool.not_eq_true', decide_eq_true_eq] at this
    rcases this with (h | h) | h
    · exact Or.inl (Or.inl h)
    · exact Or.inl (Or.inr h)
    · exact Or.inr h
  · intro s a s' hi hng hH hs
    have hf : s.fires ≤ 3 := by simp only [invB, Bool.and_eq_true, decide_eq_true_eq] at hi; exact hi.1.1.1.1.1
    have hd : s.dirty = true := by cases h : s.dirty <;> simp_all
    have hq : s.quiet = true := by cases h : s.quiet <;> simp_all
    have key : ∀ cfg ∈ cfgs, (allStates.all fun s => allActs.all fun a => !invB s || !s.dirty || !s.quiet ||
        !(a == .cgStep || a == .tgStep || a == .fire) ||
        (match step cfg s a with | some s' => !s'.dirty || !s'.quiet || decide (rank s' < rank s) | none => true)) = true := by
      intro cfg hc; simp only [cfgs, List.mem_cons, List.mem_nil_iff, or_false] at hc
      rcases hc with rfl | rfl <;> decide +kernel
    have := List.all_eq_true.mp (List.all_eq_true.mp (key cfg hc) s (mem_allStates s hf)) a (act_mem a)
    have ha : (a == Act.cgStep || a == Act.tgStep || a == Act.fire) = true := by
      rcases hH with h | h | h <;> simp [h]
    simp only [sys] at hs
    simp only [hi, hd, hq, ha, hs, Bool.not_true, Bool.false_or, Bool.or_eq_true, Bool.not_eq_true', decide_eq_true_eq] at this
    rcases this with (h | h) | h
    · exact Or.inl (Or.inl h)
    · exact Or.inl (Or.inr h)
    · exact Or.inr h

/-- … and it needs at most one timer expiry: once the workload is quiet (the expiry counter restarts at
    `quiesce`), a reclaimable prefix is never still there after a second expiry. -/
def invQ (s : St) : Bool := invB s && ((s.quiet && s.dirty) → s.fires ≤ 1) &&
  ((s.quiet && s.dirty && s.fires == 1) → s.tg != .waiting)

theorem at_most_one_expiry_table (cfg : Cfg) (hc : cfg ∈ cfgs) : (allStates.all fun s => allActs.all fun a =>
    !invQ s || (match step cfg s a with | some s' => invQ s' | none => true)) = true := by
  simp only [cfgs, List.mem_cons, List.mem_nil_iff, or_false] at hc
  rcases hc with rfl | rfl <;> decide +kernel

theorem at_most_one_expiry (cfg : Cfg) (hc : cfg ∈ cfgs) (s : St) (h : Reach (sys cfg) s)
    (hq : s.quiet = true) (hd : s.dirty = true) : s.fires ≤ 1 := by
  have hi : invQ s = true := by
    refine invariant (sys cfg) (fun s => invQ s = true) (by show invQ ({} : St) = true; decide) ?_ s h
    intro s a s' hs hst
    have hf : s.fires ≤ 3 := by
      simp only [invQ, invB, Bool.and_eq_true, decide_eq_true_eq] at hs; exact hs.1.1.1.1.1.1.1
    have h1 := List.all_eq_true.mp (List.all_eq_true.mp (at_most_one_expiry_table cfg hc) s (mem_allStates s hf)) a (act_mem a)
    simp only [sys] at hst
    simpa [hs, hst] using h1
  simp only [invQ, Bool.and_eq_true, decide_eq_true_eq] at hi
  have := hi.1.2
  simpa [hq, hd] using this

/-- **witness of finding F1** (fixed in /repo): if the timer goroutine re-broadcasts WITHOUT the buffer
    mutex, the re-broadcast can fall between "the cleanup goroutine recorded the pending change" and "it
    parked": the change is forgotten — reclaimable prefix, nobody will ever evaluate again. -/
theorem rebroadcast_lost_without_buffer_mutex :
    ((sys { timerLocksBuffer := false }).run {} [.cgStep, .cgStep, .fire, .change true, .cgStep, .cgStep, .tgStep, .tgStep, .cgStep]).map
      (fun s => (s.dirty, s.cg, s.tg, s.timer, s.flag)) = some (true, .parked, .none, false, false) := by decide

/-! ### FixedBufferCleaner: quiescent size bound -/

open BB.Cleaner in
/-- with `FixedBufferCleaner(max, target)`, `0 ≤ target ≤ max`: one evaluation of the cleaner on a buffer of
    any size leaves at most `max` elements (so once the buffer is quiescent — by `reclaim_leadsTo` the last
    state has been evaluated — its size is at most `max`) -/
theorem fixed_quiescent_bound (max target : Int) (size : Nat) (offs : List Int) (h0 : 0 ≤ target) (h1 : target ≤ max) :
    ((size : Int) - (clampShift (fixedCleaner max target size offs) size : Int)) ≤ (if max ≤ (size : Int) then (size : Int) else max) ∧
    ((size : Int) > max → (size : Int) - (clampShift (fixedCleaner max target size offs) size : Int) ≤ max) := by
  constructor
  · have : (0 : Int) ≤ (clampShift (fixedCleaner max target size offs) size : Int) := Int.natCast_nonneg _
    split <;> omega
  · intro hs
    unfold fixedCleaner clampShift
    simp only [hs, if_true]
    by_cases hb : (size : Int) - target > size
    · simp only [hb, if_true]; omega
    · simp only [hb, if_false]
      by_cases hz : (size : Int) - target ≤ 0
      · omega
      · simp only [hz, if_false]
        have : (((size : Int) - target).toNat : Int) = (size : Int) - target := Int.toNat_of_nonneg (by omega)
        omega

/-! non-vacuity: a commit during the cooldown is flagged, re-broadcast when the timer fires, and cleaned -/
example : ((sys {}).run {} [.cgStep, .cgStep, .change true, .cgStep, .cgStep, .cgStep, .fire, .tgStep, .tgStep, .cgStep, .cgStep]).map
    (fun s => (s.dirty, s.fires)) = some (false, 1) := by decide

end BB.Props.C04
