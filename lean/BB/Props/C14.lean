/-
  C14 — Workers: exactly-once execution, bounded concurrency, no starvation.
  Safety theorems for every reachable state of the Workers transition system: any number of callers,
  any sequence of count arguments, any interleaving of calls with workers taking, finishing, exiting.
-/
import BB.Model.Workers

namespace BB.Props.C14
open BB.Workers BB.LTS

theorem fm_set_some {l : List (Option Nat)} {i j : Nat} (h : l[i]? = some none) :
    ((l.set i (some j)).filterMap id).Perm (j :: l.filterMap id) := by
  induction l generalizing i with
  | nil => simp at h
  | cons x xs ih =>
    cases i with
    | zero => simp at h; subst h; simp
    | succ i =>
      simp at h
      have := ih h
      cases x with
      | none => simpa using this
      | some y =>
        simp only [List.set_cons_succ, List.filterMap_cons, id]
        exact (List.Perm.cons y this).trans (List.Perm.swap j y _)

theorem fm_set_none {l : List (Option Nat)} {i j : Nat} (h : l[i]? = some (some j)) :
    (l.filterMap id).Perm (j :: (l.set i none).filterMap id) := by
  induction l generalizing i with
  | nil => simp at h
  | cons x xs ih =>
    cases i with
    | zero => simp at h; subst h; simp
    | succ i =>
      simp at h
      have := ih h
      cases x with
      | none => simpa using this
      | some y =>
        simp only [List.set_cons_succ, List.filterMap_cons, id]
        exact (List.Perm.cons y this).trans (List.Perm.swap j y _)

theorem fm_erase_none {l : List (Option Nat)} {i : Nat} (h : l[i]? = some none) :
    (l.eraseIdx i).filterMap id = l.filterMap id := by
  induction l generalizing i with
  | nil => simp at h
  | cons x xs ih =>
    cases i with
    | zero => simp at h; subst h; simp
    | succ i =>
      simp at h
      cases x <;> simp [ih h]

theorem fm_append_none (l : List (Option Nat)) (k : Nat) :
    (l ++ List.replicate k none).filterMap id = l.filterMap id := by
  induction k with
  | zero => simp
  | succ k ih => simp [List.replicate_succ', ← List.append_assoc, ih]

structure Inv (s : St) : Prop where
  nodup    : (allJobs s).Nodup
  cntLe    : count s ≤ s.maxReq
  tgtLe    : s.target ≤ s.maxReq
  pristine : s.target = 0 → s.queue = [] ∧ s.workers = []
  qw       : s.queue ≠ [] → s.workers ≠ []

theorem inv_init : Inv sys.init := by
  constructor <;> simp [sys, allJobs, running, count]

theorem inv_step (s : St) (a : Act) (s' : St) (h : Inv s) (hs : sys.step s a = some s') : Inv s' := by
  simp only [sys] at hs
  cases a with
  | call j n =>
    simp only [step] at hs
    split at hs
    · cases hs
    · rename_i hc
      simp only [not_or] at hc
      cases hs
      refine ⟨?_, ?_, ?_, ?_, ?_⟩
      · simp only [allJobs, running, fm_append_none]
        have : (s.queue ++ [j] ++ s.workers.filterMap id ++ s.done).Perm (j :: (s.queue ++ s.workers.filterMap id ++ s.done)) := by
          simp only [List.append_assoc]
          exact List.perm_middle
        rw [this.nodup_iff, List.nodup_cons]
        exact ⟨hc.2, h.nodup⟩
      · simp only [count, List.length_append, List.length_replicate]
        have := h.cntLe; simp only [count] at this; omega
      · simp only; omega
      · intro h0; simp only at h0; omega
      · intro _
        simp only [count]
        intro he
        have := congrArg List.length he
        simp only [List.length_append, List.length_replicate, List.length_nil] at this
        omega
  | take i =>
    simp only [step] at hs
    split at hs
    · rename_i j rest hw hq
      split at hs
      · cases hs
      · cases hs
        refine ⟨?_, ?_, h.tgtLe, ?_, ?_⟩
        · have hp := fm_set_some (j := j) hw
          have hnd := h.nodup
          simp only [allJobs, running, hq] at hnd ⊢
          have : (rest ++ (s.workers.set i (some j)).filterMap id ++ s.done).Perm
              (j :: rest ++ s.workers.filterMap id ++ s.done) := by
            simp only [List.append_assoc, List.cons_append]
            refine (List.Perm.append_left rest (List.Perm.append_right s.done hp)).trans ?_
            simp only [List.cons_append]
            exact List.perm_middle
          exact this.nodup_iff.mpr hnd
        · simpa [count] using h.cntLe
        · intro h0
          have := h.pristine h0
          rw [hq] at this; cases this.1
        · intro _
          have hl : i < s.workers.length := (List.getElem?_eq_some_iff.mp hw).1
          intro he
          have hlen : (s.workers.set i (some j)).length = s.workers.length := List.length_set ..
          simp only at he
          rw [he] at hlen; simp at hlen; omega
    · cases hs
  | finish i =>
    simp only [step] at hs
    split at hs
    · rename_i j hw
      cases hs
      refine ⟨?_, ?_, h.tgtLe, ?_, ?_⟩
      · have hp := fm_set_none hw
        have hnd := h.nodup
        simp only [allJobs, running] at hnd ⊢
        have : (s.queue ++ (s.workers.set i none).filterMap id ++ (s.done ++ [j])).Perm
            (s.queue ++ s.workers.filterMap id ++ s.done) := by
          simp only [List.append_assoc]
          refine List.Perm.append_left _ ?_
          refine List.Perm.trans ?_ (List.Perm.append_right s.done hp.symm)
          rw [← List.append_assoc, List.cons_append]
          exact List.perm_append_comm (l₁ := (s.workers.set i none).filterMap id ++ s.done) (l₂ := [j])
        exact this.nodup_iff.mpr hnd
      · simpa [count] using h.cntLe
      · intro h0
        have := h.pristine h0
        rw [this.2] at hw; simp at hw
      · intro hq he
        have hl : i < s.workers.length := (List.getElem?_eq_some_iff.mp hw).1
        have hlen : (s.workers.set i none).length = s.workers.length := List.length_set ..
        simp only at he
        rw [he] at hlen; simp at hlen; omega
    · cases hs
  | exit i =>
    simp only [step] at hs
    split at hs
    · rename_i hw
      split at hs
      · rename_i hcond
        cases hs
        have hl : i < s.workers.length := (List.getElem?_eq_some_iff.mp hw).1
        refine ⟨?_, ?_, h.tgtLe, ?_, ?_⟩
        · simpa [allJobs, running, fm_erase_none hw] using h.nodup
        · have := h.cntLe; simp only [count, List.length_eraseIdx, hl, if_true] at this ⊢; omega
        · intro h0
          have := h.pristine h0
          rw [this.2] at hw; simp at hw
        · intro hq he
          rcases hcond with hq0 | hgt
          · exact hq hq0
          · -- count > target ≥ 1, so at least one worker remains
            have ht : s.target ≠ 0 := fun h0 => by
              have := (h.pristine h0).2; rw [this] at hl; simp at hl
            have := congrArg List.length he
            simp only [List.length_eraseIdx, hl, if_true, List.length_nil, count] at this hgt
            omega
      · cases hs
    · cases hs

theorem inv_reach : ∀ s, Reach sys s → Inv s := invariant sys Inv inv_init inv_step

/-- at no instant are more functions executing than there are live workers, and there are never
    more live workers than the largest count any caller has requested so far -/
theorem bounded (s : St) (h : Reach sys s) : (running s).length ≤ count s ∧ count s ≤ s.maxReq :=
  ⟨List.length_filterMap_le _ _, (inv_reach s h).cntLe⟩

/-- every job is in exactly one place — queued, executing, or finished — exactly once: no job is
    executed twice or lost -/
theorem exactly_once (s : St) (h : Reach sys s) : (s.queue ++ running s ++ s.done).Nodup :=
  (inv_reach s h).nodup

/-- a queued job always has a live worker that can take it, even when callers pass different or
    decreasing counts (the invariant that a wrong exit comparison breaks) -/
theorem queue_has_worker (s : St) (h : Reach sys s) (hq : s.queue ≠ []) : count s ≥ 1 := by
  have := (inv_reach s h).qw hq
  simp only [count]
  cases hw : s.workers with
  | nil => exact absurd hw this
  | cons _ _ => simp

/-- the worker that finishes reports exactly the job it took -/
theorem finish_own_job (s s' : St) (i : Nat) (h : sys.step s (.finish i) = some s') :
    ∃ j, s.workers[i]? = some (some j) ∧ s'.done = s.done ++ [j] := by
  simp only [sys, step] at h
  split at h
  · rename_i j hw; cases h; exact ⟨j, hw, rfl⟩
  · cases h

/-- Wait returns only when the count is zero, and then no function is executing -/
theorem wait_sound (s : St) (h : count s = 0) : running s = [] := by
  simp only [count] at h
  have : s.workers = [] := List.length_eq_zero_iff.mp h
  simp [running, this]

/-- progress: whenever a job is queued and no worker is executing, some worker step is enabled
    (take, or exit of a surplus worker) — the system is never stuck with work pending -/
theorem queued_not_stuck (s : St) (h : Reach sys s) (hq : s.queue ≠ []) (hidle : running s = []) :
    ∃ a s', sys.step s a = some s' ∧ (∃ i, a = .take i ∨ a = .exit i) := by
  have hw := (inv_reach s h).qw hq
  cases hws : s.workers with
  | nil => exact absurd hws hw
  | cons w ws =>
    have hw0 : s.workers[0]? = some none := by
      rw [hws]
      cases w with
      | none => rfl
      | some j => simp [running, hws] at hidle
    cases hqs : s.queue with
    | nil => exact absurd hqs hq
    | cons j rest =>
      by_cases hgt : count s > s.target
      · have : sys.step s (.exit 0) = some { s with workers := s.workers.eraseIdx 0 } := by
          simp [sys, step, hw0, hgt]
        exact ⟨_, _, this, 0, Or.inr rfl⟩
      · have : sys.step s (.take 0) = some { s with queue := rest, workers := s.workers.set 0 (some j) } := by
          simp [sys, step, hw0, hqs, hgt]
        exact ⟨_, _, this, 0, Or.inl rfl⟩

/-! non-vacuity: three callers with decreasing counts; the queue drains with one worker left -/
example : (sys.run sys.init [.call 1 3, .take 0, .call 2 1, .call 3 1, .exit 1, .exit 1, .finish 0, .take 0]).map
    (fun s => (s.queue, s.workers, s.done, s.maxReq)) = some ([3], [some 2], [1], 3) := by decide

end BB.Props.C14
