/-
  C14 — Workers: exactly-once execution, bounded concurrency, no starvation.
  Safety theorems for every reachable state of the Workers transition system: any number of callers,
  any sequence of count arguments, any interleaving of calls with workers taking, finishing, exiting.
-/
import BB.Model.Workers
import BB.Core.Fair
import BB.Proofs.WorkersFifo
import BB.Proofs.WorkersReply

namespace BB.Props.C14
open BB.Workers BB.LTS

theorem fm_set_some {l : List (Option Nat)} {i j : Nat} (h : l[i]? = some none) :
    ((l.set i (some j)).filterMap id).Perm (j :: l.filterMap id) := by
  induction l generalizing i with
  | nil => simp at h
  | cons x xs ih =>
    cases i with
    | zero => simp at h; subst h; simp
    | succ i =>
      simp at h
      have := ih h
      cases x with
      | none => simpa using this
      | some y =>
        simp only [List.set_cons_succ, List.filterMap_cons, id]
        exact (List.Perm.cons y this).trans (List.Perm.swap j y _)

theorem fm_set_none {l : List (Option Nat)} {i j : Nat} (h : l[i]? = some (some j)) :
    (l.filterMap id).Perm (j :: (l.set i none).filterMap id) := by
  induction l generalizing i with
  | nil => simp at h
  | cons x xs ih =>
    cases i with
    | zero => simp at h; subst h; simp
    | succ i =>
      simp at h
      have := ih h
      cases x with
      | none => simpa using this
      | some y =>
        simp only [List.set_cons_succ, List.filterMap_cons, id]
        exact (List.Perm.cons y this).trans (List.Perm.swap j y _)

theorem fm_erase_none {l : List (Option Nat)} {i : Nat} (h : l[i]? = some none) :
    (l.eraseIdx i).filterMap id = l.filterMap id := by
  induction l generalizing i with
  | nil => simp at h
  | cons x xs ih =>
    cases i with
    | zero => simp at h; subst h; simp
    | succ i =>
      simp at h
      cases x <;> simp [ih h]

theorem fm_append_none (l : List (Option Nat)) (k : Nat) :
    (l ++ List.replicate k none).filterMap id = l.filterMap id := by
  induction k with
  | zero => simp
  | succ k ih => simp [List.replicate_succ', ← List.append_assoc, ih]

structure Inv (s : St) : Prop where
  nodup    : (allJobs s).Nodup
  cntLe    : count s ≤ s.maxReq
  tgtLe    : s.target ≤ s.maxReq
  pristine : s.target = 0 → s.queue = [] ∧ s.workers = []
  qw       : s.queue ≠ [] → s.workers ≠ []

theorem inv_init : Inv sys.init := by
  constructor <;> simp [sys, allJobs, running, count]

theorem inv_step (s : St) (a : Act) (s' : St) (h : Inv s) (hs : sys.step s a = some s') : Inv s' := by
  simp only [sys] at hs
  cases a with
  | call j n =>
    simp only [step] at hs
    split at hs
    · cases hs
    · rename_i hc
      simp only [not_or] at hc
      cases hs
      refine ⟨?_, ?_, ?_, ?_, ?_⟩
      · simp only [allJobs, running, fm_append_none]
        have : (s.queue ++ [j] ++ s.workers.filterMap id ++ s.done).Perm (j :: (s.queue ++ s.workers.filterMap id ++ s.done)) := by
          simp only [List.append_assoc]
          exact List.perm_middle
        rw [this.nodup_iff, List.nodup_cons]
        exact ⟨hc.2, h.nodup⟩
      · simp only [count, List.length_append, List.length_replicate]
        have := h.cntLe; simp only [count] at this; omega
      · simp only; omega
      · intro h0; simp only at h0; omega
      · intro _
        simp only [count]
        intro he
        have := congrArg List.length he
        simp only [List.length_append, List.length_replicate, List.length_nil] at this
        omega
  | take i =>
    simp only [step] at hs
    split at hs
    · rename_i j rest hw hq
      split at hs
      · cases hs
      · cases hs
        refine ⟨?_, ?_, h.tgtLe, ?_, ?_⟩
        · have hp := fm_set_some (j := j) hw
          have hnd := h.nodup
          simp only [allJobs, running, hq] at hnd ⊢
          have : (rest ++ (s.workers.set i (some j)).filterMap id ++ s.done).Perm
              (j :: rest ++ s.workers.filterMap id ++ s.done) := by
            simp only [List.append_assoc, List.cons_append]
            refine (List.Perm.append_left rest (List.Perm.append_right s.done hp)).trans ?_
            simp only [List.cons_append]
            exact List.perm_middle
          exact this.nodup_iff.mpr hnd
        · simpa [count] using h.cntLe
        · intro h0
          have := h.pristine h0
          rw [hq] at this; cases this.1
        · intro _
          have hl : i < s.workers.length := (List.getElem?_eq_some_iff.mp hw).1
          intro he
          have hlen : (s.workers.set i (some j)).length = s.workers.length := List.length_set ..
          simp only at he
          rw [he] at hlen; simp at hlen; omega
    · cases hs
  | finish i =>
    simp only [step] at hs
    split at hs
    · rename_i j hw
      cases hs
      refine ⟨?_, ?_, h.tgtLe, ?_, ?_⟩
      · have hp := fm_set_none hw
        have hnd := h.nodup
        simp only [allJobs, running] at hnd ⊢
        have : (s.queue ++ (s.workers.set i none).filterMap id ++ (s.done ++ [j])).Perm
            (s.queue ++ s.workers.filterMap id ++ s.done) := by
          simp only [List.append_assoc]
          refine List.Perm.append_left _ ?_
          refine List.Perm.trans ?_ (List.Perm.append_right s.done hp.symm)
          rw [← List.append_assoc, List.cons_append]
          exact List.perm_append_comm (l₁ := (s.workers.set i none).filterMap id ++ s.done) (l₂ := [j])
        exact this.nodup_iff.mpr hnd
      · simpa [count] using h.cntLe
      · intro h0
        have := h.pristine h0
        rw [this.2] at hw; simp at hw
      · intro hq he
        have hl : i < s.workers.length := (List.getElem?_eq_some_iff.mp hw).1
        have hlen : (s.workers.set i none).length = s.workers.length := List.length_set ..
        simp only at he
        rw [he] at hlen; simp at hlen; omega
    · cases hs
  | exit i =>
    simp only [step] at hs
    split at hs
    · rename_i hw
      split at hs
      · rename_i hcond
        cases hs
        have hl : i < s.workers.length := (List.getElem?_eq_some_iff.mp hw).1
        refine ⟨?_, ?_, h.tgtLe, ?_, ?_⟩
        · simpa [allJobs, running, fm_erase_none hw] using h.nodup
        · have := h.cntLe; simp only [count, List.length_eraseIdx, hl, if_true] at this ⊢; omega
        · intro h0
          have := h.pristine h0
          rw [this.2] at hw; simp at hw
        · intro hq he
          rcases hcond with hq0 | hgt
          · exact hq hq0
          · -- count > target ≥ 1, so at least one worker remains
            have ht : s.target ≠ 0 := fun h0 => by
              have := (h.pristine h0).2; rw [this] at hl; simp at hl
            have := congrArg List.length he
            simp only [List.length_eraseIdx, hl, if_true, List.length_nil, count] at this hgt
            omega
      · cases hs
    · cases hs

theorem inv_reach : ∀ s, Reach sys s → Inv s := invariant sys Inv inv_init inv_step

/-- at no instant are more functions executing than there are live workers, and there are never
    more live workers than the largest count any caller has requested so far -/
theorem bounded (s : St) (h : Reach sys s) : (running s).length ≤ count s ∧ count s ≤ s.maxReq :=
  ⟨List.length_filterMap_le _ _, (inv_reach s h).cntLe⟩

/-- every job is in exactly one place — queued, executing, or finished — exactly once: no job is
    executed twice or lost -/
theorem exactly_once (s : St) (h : Reach sys s) : (s.queue ++ running s ++ s.done).Nodup :=
  (inv_reach s h).nodup

/-- a queued job always has a live worker that can take it, even when callers pass different or
    decreasing counts (the invariant that a wrong exit comparison breaks) -/
theorem queue_has_worker (s : St) (h : Reach sys s) (hq : s.queue ≠ []) : count s ≥ 1 := by
  have := (inv_reach s h).qw hq
  simp only [count]
  cases hw : s.workers with
  | nil => exact absurd hw this
  | cons _ _ => simp

/-- the worker that finishes reports exactly the job it took -/
theorem finish_own_job (s s' : St) (i : Nat) (h : sys.step s (.finish i) = some s') :
    ∃ j, s.workers[i]? = some (some j) ∧ s'.done = s.done ++ [j] := by
  simp only [sys, step] at h
  split at h
  · rename_i j hw; cases h; exact ⟨j, hw, rfl⟩
  · cases h

/-- Wait returns only when the count is zero, and then no function is executing -/
theorem wait_sound (s : St) (h : count s = 0) : running s = [] := by
  simp only [count] at h
  have : s.workers = [] := List.length_eq_zero_iff.mp h
  simp [running, this]

/-- progress: whenever a job is queued and no worker is executing, some worker step is enabled
    (take, or exit of a surplus worker) — the system is never stuck with work pending -/
theorem queued_not_stuck (s : St) (h : Reach sys s) (hq : s.queue ≠ []) (hidle : running s = []) :
    ∃ a s', sys.step s a = some s' ∧ (∃ i, a = .take i ∨ a = .exit i) := by
  have hw := (inv_reach s h).qw hq
  cases hws : s.workers with
  | nil => exact absurd hws hw
  | cons w ws =>
    have hw0 : s.workers[0]? = some none := by
      rw [hws]
      cases w with
      | none => rfl
      | some j => simp [running, hws] at hidle
    cases hqs : s.queue with
    | nil => exact absurd hqs hq
    | cons j rest =>
      by_cases hgt : count s > s.target
      · have : sys.step s (.exit 0) = some { s with workers := s.workers.eraseIdx 0 } := by
          simp [sys, step, hw0, hgt]
        exact ⟨_, _, this, 0, Or.inr rfl⟩
      · have : sys.step s (.take 0) = some { s with queue := rest, workers := s.workers.set 0 (some j) } := by
          simp [sys, step, hw0, hqs, hgt]
        exact ⟨_, _, this, 0, Or.inl rfl⟩


/-- no step loses a job -/
theorem job_kept (s s' : St) (a : Act) (j : Nat) (hs : sys.step s a = some s') (hj : j ∈ allJobs s) : j ∈ allJobs s' := by
  simp only [allJobs, List.mem_append] at hj ⊢
  cases a with
  | call j' n =>
    simp only [sys, step] at hs
    split at hs
    · cases hs
    · cases hs
      have : running { s with queue := s.queue ++ [j'], target := n, workers := s.workers ++ List.replicate (n - count s) none,
                              maxReq := max s.maxReq n } = running s := by
        simp only [running]; exact fm_append_none _ _
      rw [this]
      rcases hj with (h | h) | h
      · exact Or.inl (Or.inl (List.mem_append_left _ h))
      · exact Or.inl (Or.inr h)
      · exact Or.inr h
  | take i =>
    simp only [sys, step] at hs
    split at hs
    · rename_i k rest hw hq
      split at hs
      · cases hs
      · cases hs
        have hp := fm_set_some (j := k) hw
        rcases hj with (h | h) | h
        · rw [hq] at h
          rcases List.mem_cons.mp h with e | h
          · subst e; exact Or.inl (Or.inr (hp.mem_iff.mpr (List.mem_cons_self)))
          · exact Or.inl (Or.inl h)
        · exact Or.inl (Or.inr (hp.mem_iff.mpr (List.mem_cons_of_mem _ h)))
        · exact Or.inr h
    · cases hs
  | finish i =>
    simp only [sys, step] at hs
    split at hs
    · rename_i k hw
      cases hs
      have hp := fm_set_none hw
      rcases hj with (h | h) | h
      · exact Or.inl (Or.inl h)
      · rcases List.mem_cons.mp (hp.mem_iff.mp h) with e | h
        · subst e; exact Or.inr (List.mem_append_right _ (List.mem_singleton.mpr rfl))
        · exact Or.inl (Or.inr h)
      · exact Or.inr (List.mem_append_left _ h)
    · cases hs
  | exit i =>
    simp only [sys, step] at hs
    split at hs
    · rename_i hw
      split at hs
      · cases hs
        have : running { s with workers := s.workers.eraseIdx i } = running s := by
          simp only [running]; exact fm_erase_none hw
        rw [this]; exact hj
      · cases hs
    · cases hs

/-! ### No starvation as a leads-to theorem

  Once no new `Call` arrives (finitely many callers, whatever counts they passed and in whatever order), every
  queued job is eventually taken by a worker, along every run that is weakly fair for the worker steps
  (take / finish / exit; "the job function returns" is the `finish` step).  The measure is
  `2 * (position in the queue) + (jobs executing) + (live workers)`: a take moves the queue, a finish frees a
  worker, an exit of a surplus worker brings the count down to the target, which re-enables takes.
  With infinitely many callers alternating a large and a small count a queued job *can* wait for ever under
  weak fairness alone (every worker can find itself surplus each time it looks), so that hypothesis is needed. -/

def workerStep : Act → Prop
  | .call _ _ => False
  | _ => True

def mu (j : Nat) (s : St) : Nat := 2 * s.queue.idxOf j + (running s).length + count s

theorem worker_step_enabled (s : St) (h : Inv s) (hq : s.queue ≠ []) :
    ∃ a, workerStep a ∧ enabled sys s a := by
  have hw := h.qw hq
  cases hws : s.workers with
  | nil => exact absurd hws hw
  | cons w ws =>
    cases hqs : s.queue with
    | nil => exact absurd hqs hq
    | cons j rest =>
      cases w with
      | some k => exact ⟨.finish 0, trivial, by simp [enabled, sys, step, hws]⟩
      | none =>
        by_cases hgt : count s > s.target
        · exact ⟨.exit 0, trivial, by simp [enabled, sys, step, hws, hgt]⟩
        · exact ⟨.take 0, trivial, by simp [enabled, sys, step, hws, hqs, hgt]⟩

/-- every worker step brings a queued job strictly closer to being taken -/
theorem mu_worker_step (j : Nat) (s s' : St) (a : Act) (h : Inv s) (hj : j ∈ s.queue) (ha : workerStep a)
    (hs : sys.step s a = some s') : j ∉ s'.queue ∨ mu j s' < mu j s := by
  cases a with
  | call _ _ => exact absurd ha (by simp [workerStep])
  | take i =>
    simp only [sys, step] at hs
    split at hs
    · rename_i k rest hw hq
      split at hs
      · cases hs
      · cases hs
        by_cases e : k = j
        · -- the job itself is taken
          left
          subst e
          have hnd := h.nodup
          simp only [allJobs, hq] at hnd
          have := (List.nodup_append.mp (List.nodup_append.mp hnd).1).1
          simp only [List.nodup_cons] at this
          exact this.1
        · right
          have hlen : (running { s with queue := rest, workers := s.workers.set i (some k) }).length = (running s).length + 1 := by
            have := (fm_set_some (j := k) hw).length_eq
            simpa [running] using this
          have hidx : s.queue.idxOf j = rest.idxOf j + 1 := by
            have hb : (k == j) = false := by simp [e]
            simp [hq, List.idxOf_cons, hb]
          have hcnt : count { s with queue := rest, workers := s.workers.set i (some k) } = count s := by simp [count]
          simp only [mu, hlen, hcnt, hidx]
          omega
    · cases hs
  | finish i =>
    simp only [sys, step] at hs
    split at hs
    · rename_i k hw
      cases hs
      right
      have hlen : (running s).length = (running { s with workers := s.workers.set i none, done := s.done ++ [k] }).length + 1 := by
        have := (fm_set_none hw).length_eq
        simpa [running] using this
      have hcnt : count { s with workers := s.workers.set i none, done := s.done ++ [k] } = count s := by simp [count]
      simp only [mu, hcnt]
      omega
    · cases hs
  | exit i =>
    simp only [sys, step] at hs
    split at hs
    · rename_i hw
      split at hs
      · cases hs
        right
        have hlen : running { s with workers := s.workers.eraseIdx i } = running s := by
          simp only [running]; exact fm_erase_none hw
        have hi : i < s.workers.length := by
          cases hlt : s.workers[i]? with
          | none => rw [hlt] at hw; cases hw
          | some _ => exact (List.getElem?_eq_some_iff.mp hlt).1
        have hcnt : count { s with workers := s.workers.eraseIdx i } + 1 = count s := by
          simp only [count, List.length_eraseIdx, hi, ↓reduceIte]; omega
        simp only [mu, hlen]
        omega
      · cases hs
    · cases hs

/-- **no call is starved**: from the moment no new `Call` arrives, along every run that is weakly fair for the
    worker steps, every queued job is eventually taken off the queue by a worker (and then, by `exactly_once`,
    is executing or finished) — whatever counts the callers passed, in whatever order -/
theorem queued_job_is_eventually_taken (r : Run sys) (hfair : WeakFair sys (fun _ a => workerStep a) r)
    (i0 : Nat) (hquiet : ∀ k, i0 ≤ k → ∀ a, r.act k = some a → workerStep a)
    (j : Nat) (i : Nat) (hi : i0 ≤ i) (hq : j ∈ (r.st i).queue) :
    ∃ k, i ≤ k ∧ j ∉ (r.st k).queue ∧ (j ∈ running (r.st k) ∨ j ∈ (r.st k).done) := by
  have key := leadsTo_from sys (fun _ a => workerStep a) r Inv (fun s => j ∉ s.queue) (mu j) workerStep i0 hquiet hfair
    (fun k => inv_reach _ (run_reach sys r k))
    (fun s hI hnG => by
      have hj : j ∈ s.queue := Classical.not_not.mp hnG
      exact worker_step_enabled s hI (List.ne_nil_of_mem hj))
    (fun s a s' hI hnG hA hs => by
      have hj : j ∈ s.queue := Classical.not_not.mp hnG
      rcases mu_worker_step j s s' a hI hj hA hs with h | h
      · exact Or.inl h
      · exact Or.inr (Nat.le_of_lt h))
    (fun s a s' hI hnG hA _ hs => mu_worker_step j s s' a hI (Classical.not_not.mp hnG) hA hs)
  -- a job is never lost: it stays somewhere among queue / executing / finished
  have kept : ∀ k, j ∈ allJobs (r.st (i + k)) := by
    intro k
    induction k with
    | zero => simp [allJobs, hq]
    | succ k ih =>
      have hn := r.next (i + k)
      rw [show i + (k + 1) = i + k + 1 by omega]
      cases ha : r.act (i + k) with
      | none => simp only [ha] at hn; rw [hn]; exact ih
      | some a =>
        simp only [ha] at hn
        exact job_kept _ _ _ j hn ih
  obtain ⟨k, hk, hg⟩ := key i hi
  refine ⟨k, hk, hg, ?_⟩
  have := kept (k - i)
  rw [show i + (k - i) = k by omega] at this
  simp only [allJobs, List.mem_append] at this
  rcases this with (h | h) | h
  · exact absurd h hg
  · exact Or.inl h
  · exact Or.inr h

/-! non-vacuity of the leads-to theorem: a weakly fair run with two callers (counts 2 then 1) and no later call;
    the surplus worker exits, the remaining one drains the queue -/
def demoActs : Nat → Option Act
  | 0 => some (.call 1 2) | 1 => some (.call 2 1) | 2 => some (.exit 1) | 3 => some (.take 0) | 4 => some (.finish 0)
  | 5 => some (.take 0) | 6 => some (.finish 0) | 7 => some (.exit 0) | _ => none

def demoSt : Nat → St
  | 0 => sys.init
  | k + 1 => match demoActs k with
    | some a => (sys.step (demoSt k) a).getD (demoSt k)
    | none => demoSt k

theorem demoSt_final (k : Nat) : demoSt (k + 8) = demoSt 8 := by
  induction k with
  | zero => rfl
  | succ k ih => show demoSt (k + 8) = demoSt 8; exact ih

def demoRun : Run sys where
  st := demoSt
  act := demoActs
  start := rfl
  next := by
    intro i
    match i with
    | 0 => show sys.step (demoSt 0) _ = some (demoSt 1); decide
    | 1 => show sys.step (demoSt 1) _ = some (demoSt 2); decide
    | 2 => show sys.step (demoSt 2) _ = some (demoSt 3); decide
    | 3 => show sys.step (demoSt 3) _ = some (demoSt 4); decide
    | 4 => show sys.step (demoSt 4) _ = some (demoSt 5); decide
    | 5 => show sys.step (demoSt 5) _ = some (demoSt 6); decide
    | 6 => show sys.step (demoSt 6) _ = some (demoSt 7); decide
    | 7 => show sys.step (demoSt 7) _ = some (demoSt 8); decide
    | k + 8 => rfl

theorem demoRun_fair : WeakFair sys (fun _ a => workerStep a) demoRun := by
  intro i hen
  by_cases hi : i < 8
  · -- a worker step is taken at max i 2
    refine ⟨max i 2, by omega, ?_⟩
    match i, hi with
    | 0, _ => exact ⟨_, rfl, trivial⟩
    | 1, _ => exact ⟨_, rfl, trivial⟩
    | 2, _ => exact ⟨_, rfl, trivial⟩
    | 3, _ => exact ⟨_, rfl, trivial⟩
    | 4, _ => exact ⟨_, rfl, trivial⟩
    | 5, _ => exact ⟨_, rfl, trivial⟩
    | 6, _ => exact ⟨_, rfl, trivial⟩
    | 7, _ => exact ⟨_, rfl, trivial⟩
  · exfalso
    obtain ⟨a, hH, he⟩ := hen i (Nat.le_refl _)
    have hst : demoRun.st i = demoSt 8 := by
      have := demoSt_final (i - 8); rwa [show i - 8 + 8 = i by omega] at this
    rw [hst] at he
    have hw : (demoSt 8).workers = [] := by decide
    cases a with
    | call _ _ => exact hH
    | take k => simp [enabled, sys, step, hw] at he
    | finish k => simp [enabled, sys, step, hw] at he
    | exit k => simp [enabled, sys, step, hw] at he

example : ∃ k, 2 ≤ k ∧ 2 ∉ (demoRun.st k).queue ∧ (2 ∈ running (demoRun.st k) ∨ 2 ∈ (demoRun.st k).done) :=
  queued_job_is_eventually_taken demoRun demoRun_fair 2
    (fun k hk a ha => by
      match k, hk with
      | 2, _ => cases ha; trivial
      | 3, _ => cases ha; trivial
      | 4, _ => cases ha; trivial
      | 5, _ => cases ha; trivial
      | 6, _ => cases ha; trivial
      | 7, _ => cases ha; trivial
      | k + 8, _ => cases ha)
    2 2 (Nat.le_refl _) (by decide)

/-! non-vacuity: three callers with decreasing counts; the queue drains with one worker left -/
example : (sys.run sys.init [.call 1 3, .take 0, .call 2 1, .call 3 1, .exit 1, .exit 1, .finish 0, .take 0]).map
    (fun s => (s.queue, s.workers, s.done, s.maxReq)) = some ([3], [some 2], [1], 3) := by decide

/-! ### FIFO order (observer of `BB/Proofs/WorkersFifo.lean`) -/

/-- the observer is passive: the wrapped system has exactly the runs of `sys` -/
theorem fifo_observer_is_passive :
    (∀ o, Reach osys o → Reach sys o.st) ∧ (∀ s, Reach sys s → ∃ o, Reach osys o ∧ o.st = s) := by
  refine ⟨oreach_proj, ?_⟩
  intro s hr
  induction hr with
  | init => exact ⟨osys.init, Reach.init, rfl⟩
  | step _ hs ih =>
    obtain ⟨o, hr', rfl⟩ := ih
    obtain ⟨o', e1, e2⟩ := ostep_total o _ _ hs
    exact ⟨o', Reach.step hr' e1, e2⟩

/-- JOBS ARE TAKEN IN THE ORDER THEY WERE CALLED: in every reachable state the sequence of calls is the sequence of takes followed
    by the queue — whatever counts the callers pass, however workers come and go -/
theorem jobs_taken_in_call_order (o : OSt) (hr : Reach osys o) : o.called = o.taken ++ o.st.queue := fifo_inv o hr

/-- … hence no job is overtaken: if job a was called before job b and b has been taken, a has been taken too, earlier -/
theorem never_overtaken (o : OSt) (hr : Reach osys o) (i j : Nat) (hij : i < j) (hj : j < o.taken.length) :
    o.called[i]? = o.taken[i]? ∧ o.called[j]? = o.taken[j]? := by
  have h := fifo_inv o hr
  rw [h]
  exact ⟨List.getElem?_append_left (by omega), List.getElem?_append_left hj⟩

/-- non-vacuity: three calls with different counts, two workers; takes happen in call order -/
example : (osys.run osys.init [.call 10 1, .call 11 2, .take 1, .call 12 1, .finish 1, .exit 1, .take 0]).map
    (fun o => (o.called, o.taken, o.st.queue)) = some ([10, 11, 12], [10, 11], [12]) := by decide

/-! ### The reply path (layer of `BB/Proofs/WorkersReply.lean`): each Call returns exactly its own function's result, once -/

def slotJobs (o : RSt) : List Nat := o.slot.map (·.1)
def gotJobs (o : RSt) : List Nat := o.got.map (·.1)

structure RInv (res : Nat → Nat) (o : RSt) : Prop where
  cover : ∀ j, j ∈ o.st.done ↔ (j ∈ slotJobs o ∨ j ∈ gotJobs o)
  disj : ∀ j, j ∈ slotJobs o → j ∉ gotJobs o
  slotNodup : (slotJobs o).Nodup
  gotNodup : (gotJobs o).Nodup
  val : ∀ p, (p ∈ o.slot ∨ p ∈ o.got) → p.2 = res p.1

theorem mem_running_of_worker {s : St} {i j : Nat} (h : s.workers[i]? = some (some j)) : j ∈ running s := by
  simp only [running, List.mem_filterMap]
  exact ⟨some j, List.mem_of_getElem? h, rfl⟩

theorem running_not_done {s : St} (hr : Reach sys s) {j : Nat} (hj : j ∈ running s) : j ∉ s.done := by
  intro hd
  have h := exactly_once s hr
  rw [List.nodup_append] at h
  exact h.2.2 j (List.mem_append_right _ hj) j hd rfl

theorem done_of_nonfinish {s s' : St} {a : Act} (hs : sys.step s a = some s') (ha : ∀ i, a ≠ .finish i) : s'.done = s.done := by
  cases a with
  | finish i => exact absurd rfl (ha i)
  | call j n =>
    simp only [sys, step] at hs
    split at hs
    · cases hs
    · cases hs; rfl
  | take i =>
    simp only [sys, step] at hs
    split at hs
    · split at hs
      · cases hs
      · cases hs; rfl
    · cases hs
  | exit i =>
    simp only [sys, step] at hs
    split at hs
    · split at hs
      · cases hs; rfl
      · cases hs
    · cases hs

theorem rinv_reach (res : Nat → Nat) (o : RSt) (hr : Reach (rsys res) o) : RInv res o := by
  induction hr with
  | init => exact ⟨by intro j; simp [slotJobs, gotJobs, rsys], by intro j h; simp [slotJobs, rsys] at h, by simp [slotJobs, rsys],
      by simp [gotJobs, rsys], by intro p h; simp [rsys] at h⟩
  | @step o1 o2 a hr1 hs ih =>
    have hbase := rreach_proj o1 hr1
    cases a with
    | recv j =>
      simp only [rsys, rstep] at hs
      split at hs
      · rename_i p hp
        cases hs
        have hmem : p ∈ o1.slot := List.mem_of_find?_eq_some hp
        have hpj : p.1 = j := by have := List.find?_some hp; simpa using this
        have hjs : j ∈ slotJobs o1 := by rw [← hpj]; exact List.mem_map_of_mem hmem
        have hjg : j ∉ gotJobs o1 := ih.disj j hjs
        have hfilt : ∀ k, k ∈ (o1.slot.filter (·.1 != j)).map (·.1) ↔ (k ∈ slotJobs o1 ∧ k ≠ j) := by
          intro k
          simp only [slotJobs, List.mem_map, List.mem_filter]
          constructor
          · rintro ⟨q, ⟨hq, hne⟩, rfl⟩
            exact ⟨⟨q, hq, rfl⟩, by simpa using hne⟩
          · rintro ⟨⟨q, hq, rfl⟩, hne⟩
            exact ⟨q, ⟨hq, by simpa using hne⟩, rfl⟩
        refine ⟨?_, ?_, ?_, ?_, ?_⟩
        · intro k
          show k ∈ o1.st.done ↔ (k ∈ (o1.slot.filter (·.1 != j)).map (·.1) ∨ k ∈ (o1.got ++ [p]).map (·.1))
          have hgot : k ∈ (o1.got ++ [p]).map (·.1) ↔ (k ∈ gotJobs o1 ∨ k = j) := by
            simp only [gotJobs, List.map_append, List.mem_append, List.map_cons, List.map_nil, List.mem_singleton, hpj]
          rw [hfilt k, ih.cover k, hgot]
          by_cases hk : k = j
          · subst hk
            exact ⟨fun _ => Or.inr (Or.inr rfl), fun _ => Or.inl hjs⟩
          · constructor
            · rintro (h | h)
              · exact Or.inl ⟨h, hk⟩
              · exact Or.inr (Or.inl h)
            · rintro (⟨h, _⟩ | h | h)
              · exact Or.inl h
              · exact Or.inr h
              · exact absurd h hk
        · intro k hk
          have hk' := (hfilt k).mp hk
          show k ∉ (o1.got ++ [p]).map (·.1)
          simp only [List.map_append, List.mem_append, List.map_cons, List.map_nil, List.mem_singleton, hpj, not_or]
          exact ⟨ih.disj k hk'.1, hk'.2⟩
        · exact (ih.slotNodup.sublist ((List.filter_sublist).map _))
        · show ((o1.got ++ [p]).map (·.1)).Nodup
          simp only [List.map_append, List.map_cons, List.map_nil]
          rw [List.nodup_append]
          refine ⟨ih.gotNodup, by simp, ?_⟩
          intro a ha b hb hab
          simp only [List.mem_singleton] at hb
          rw [hb, hpj] at hab
          exact hjg (hab ▸ ha)
        · intro q hq
          rcases hq with hq | hq
          · exact ih.val q (Or.inl (List.mem_filter.mp hq).1)
          · rcases List.mem_append.mp hq with hq | hq
            · exact ih.val q (Or.inr hq)
            · simp only [List.mem_singleton] at hq
              rw [hq]; exact ih.val p (Or.inl hmem)
      · cases hs
    | base a =>
      simp only [rsys, rstep] at hs
      cases e : sys.step o1.st a with
      | none => simp [e] at hs
      | some s' =>
        simp only [e] at hs
        have other : (∀ i, a ≠ .finish i) → o2 = { o1 with st := s' } → RInv res o2 := by
          intro hnf ho
          have hd := done_of_nonfinish e hnf
          subst ho
          exact ⟨fun k => by show k ∈ s'.done ↔ _; rw [hd]; exact ih.cover k, ih.disj, ih.slotNodup, ih.gotNodup, ih.val⟩
        cases a with
        | call j n => exact other (by intro i h; cases h) (by cases hs; rfl)
        | take i => exact other (by intro i h; cases h) (by cases hs; rfl)
        | exit i => exact other (by intro i h; cases h) (by cases hs; rfl)
        | finish i =>
          simp only at hs
          split at hs
          · rename_i j hw
            split at hs
            · cases hs
            · rename_i hnc
              cases hs
              obtain ⟨j', hw', hdone⟩ := finish_own_job _ _ i e
              have hjj : j' = j := by rw [hw] at hw'; cases hw'; rfl
              subst hjj
              have hjd := running_not_done hbase (mem_running_of_worker hw)
              have hjs : j' ∉ slotJobs o1 := by simpa [slotJobs] using hnc
              have hjg : j' ∉ gotJobs o1 := fun h => hjd ((ih.cover j').mpr (Or.inr h))
              have hslot : ∀ k, k ∈ (o1.slot ++ [(j', res j')]).map (·.1) ↔ (k ∈ slotJobs o1 ∨ k = j') := by
                intro k
                simp only [slotJobs, List.map_append, List.mem_append, List.map_cons, List.map_nil, List.mem_singleton]
              refine ⟨?_, ?_, ?_, ?_, ?_⟩
              · intro k
                show k ∈ s'.done ↔ (k ∈ (o1.slot ++ [(j', res j')]).map (·.1) ∨ k ∈ gotJobs o1)
                rw [hdone, List.mem_append, List.mem_singleton, ih.cover k, hslot k]
                constructor
                · rintro ((h | h) | h)
                  · exact Or.inl (Or.inl h)
                  · exact Or.inr h
                  · exact Or.inl (Or.inr h)
                · rintro ((h | h) | h)
                  · exact Or.inl (Or.inl h)
                  · exact Or.inr h
                  · exact Or.inl (Or.inr h)
              · intro k hk
                rcases (hslot k).mp hk with h | h
                · exact ih.disj k h
                · rw [h]; exact hjg
              · show ((o1.slot ++ [(j', res j')]).map (·.1)).Nodup
                simp only [List.map_append, List.map_cons, List.map_nil]
                rw [List.nodup_append]
                refine ⟨ih.slotNodup, by simp, ?_⟩
                intro a ha b hb hab
                simp only [List.mem_singleton] at hb
                rw [hb] at hab
                exact hjs (hab ▸ ha)
              · exact ih.gotNodup
              · intro q hq
                rcases hq with hq | hq
                · rcases List.mem_append.mp hq with hq | hq
                  · exact ih.val q (Or.inl hq)
                  · simp only [List.mem_singleton] at hq
                    rw [hq]
                · exact ih.val q (Or.inr hq)
          · cases hs

/-- THE WORKER NEVER WAITS FOR THE CALLER: whenever a step of `sys` is enabled it is enabled in the reply layer too — in
    particular a worker that finishes job j always finds j's one-place reply channel empty (j finishes once: `exactly_once`) -/
theorem worker_never_waits_for_the_caller (res : Nat → Nat) (o : RSt) (hr : Reach (rsys res) o) (a : Act) (s' : St)
    (hs : sys.step o.st a = some s') : ∃ o', (rsys res).step o (.base a) = some o' ∧ o'.st = s' := by
  have hinv := rinv_reach res o hr
  have hbase := rreach_proj o hr
  cases a with
  | call j n => exact ⟨{ o with st := s' }, by simp [rsys, rstep, hs], rfl⟩
  | take i => exact ⟨{ o with st := s' }, by simp [rsys, rstep, hs], rfl⟩
  | exit i => exact ⟨{ o with st := s' }, by simp [rsys, rstep, hs], rfl⟩
  | finish i =>
    obtain ⟨j, hw, _⟩ := finish_own_job _ _ i hs
    have hjd := running_not_done hbase (mem_running_of_worker hw)
    have hjs : j ∉ slotJobs o := fun h => hjd ((hinv.cover j).mpr (Or.inl h))
    have hall : ∀ x, (j, x) ∉ o.slot := fun x hx => hjs (List.mem_map_of_mem (f := (·.1)) hx)
    exact ⟨{ o with st := s', slot := o.slot ++ [(j, res j)] }, by simp [rsys, rstep, hs, hw, hall], rfl⟩

/-- … so the layer has exactly the runs of `sys` (it adds no blocking) -/
theorem reply_layer_is_passive (res : Nat → Nat) :
    (∀ o, Reach (rsys res) o → Reach sys o.st) ∧ (∀ s, Reach sys s → ∃ o, Reach (rsys res) o ∧ o.st = s) := by
  refine ⟨fun o h => rreach_proj o h, ?_⟩
  intro s hr
  induction hr with
  | init => exact ⟨(rsys res).init, Reach.init, rfl⟩
  | step _ hs ih =>
    obtain ⟨o, hr', rfl⟩ := ih
    obtain ⟨o', e1, e2⟩ := worker_never_waits_for_the_caller res o hr' _ _ hs
    exact ⟨o', Reach.step hr' e1, e2⟩

/-- EACH CALL RETURNS EXACTLY ITS OWN FUNCTION'S RESULT, ONCE: what the caller of job j receives is `res j`, of a job that has
    finished, and no caller receives twice -/
theorem call_returns_its_own_result_once (res : Nat → Nat) (o : RSt) (hr : Reach (rsys res) o) :
    (gotJobs o).Nodup ∧ ∀ p ∈ o.got, p.2 = res p.1 ∧ p.1 ∈ o.st.done := by
  have hinv := rinv_reach res o hr
  exact ⟨hinv.gotNodup, fun p hp => ⟨hinv.val p (Or.inr hp), (hinv.cover p.1).mpr (Or.inr (List.mem_map_of_mem hp))⟩⟩

/-- NO REPLY IS LOST: the result of a finished job has either been received by its caller or is waiting in the job's channel,
    where the caller's receive is enabled -/
theorem no_reply_is_lost (res : Nat → Nat) (o : RSt) (hr : Reach (rsys res) o) (j : Nat) (hj : j ∈ o.st.done) :
    j ∈ gotJobs o ∨ ∃ o', (rsys res).step o (.recv j) = some o' ∧ (j, res j) ∈ o'.got := by
  have hinv := rinv_reach res o hr
  rcases (hinv.cover j).mp hj with h | h
  · right
    obtain ⟨p, hp, hpj⟩ := List.mem_map.mp h
    cases hf : o.slot.find? (·.1 == j) with
    | none =>
      have := List.find?_eq_none.mp hf p hp
      simp [hpj] at this
    | some q =>
      have hq := List.mem_of_find?_eq_some hf
      have hqj : q.1 = j := by have := List.find?_some hf; simpa using this
      have hqv := hinv.val q (Or.inl hq)
      refine ⟨{ o with slot := o.slot.filter (·.1 != j), got := o.got ++ [q] }, by simp [rsys, rstep, hf], ?_⟩
      have : q = (j, res j) := by
        cases q with
        | mk a b => simp only at hqj hqv; subst hqj; rw [hqv]
      simp [this]
  · exact Or.inl h

/-- non-vacuity: two jobs, the second finishes first; both callers receive their own result (`res j = 10 * j`) -/
example : ((rsys (· * 10)).run (rsys (· * 10)).init
      [.base (.call 1 2), .base (.call 2 2), .base (.take 0), .base (.take 1), .base (.finish 1), .recv 2, .base (.finish 0), .recv 1]).map
    (fun o => (o.got, o.slot, o.st.done)) = some ([(2, 20), (1, 10)], [], [2, 1]) := by decide

end BB.Props.C14
